(** TraceFacts.v — with SyncEnable a power loss can lose at most the record
    whose write was in flight: the durable content of every file is its
    volatile content, except that the file written by the very last event may
    miss that one record.  Hence every power-loss image is a process-crash
    image (ReplayFacts: crash_prefix_invisible / crash_complete_visible). *)
From Coq Require Import List Arith Lia Bool.
From Verif Require Import Trace.
Import ListNotations.

(** * Helpers *)

(** two-step induction principle following the shape of [synced_writes] *)
Lemma synced_writes_ind2 : forall (P : list ev -> Prop),
  P [] ->
  (forall g t, synced_writes t -> P t -> P (ESync g :: t)) ->
  (forall f r t, synced_writes t -> P t -> P (EWrite f r :: ESync f :: t)) ->
  forall tr, synced_writes tr -> P tr.
Proof.
  intros P Hnil Hsync Hwrite.
  assert (Hn : forall n tr, length tr <= n -> synced_writes tr -> P tr).
  { induction n as [|n IHn]; intros tr Hlen Hsw.
    - destruct tr as [|e t].
      + exact Hnil.
      + simpl in Hlen. lia.
    - destruct tr as [|e t].
      + exact Hnil.
      + destruct e as [f r|g].
        * destruct t as [|e' t'].
          { simpl in Hsw. contradiction. }
          destruct e' as [f' r'|g'].
          { simpl in Hsw. contradiction. }
          simpl in Hsw. destruct Hsw as [Heq Hsw]. subst g'.
          apply Hwrite.
          { exact Hsw. }
          apply IHn.
          { simpl in Hlen. lia. }
          exact Hsw.
        * simpl in Hsw. apply Hsync.
          { exact Hsw. }
          apply IHn.
          { simpl in Hlen. lia. }
          exact Hsw. }
  intros tr Hsw. apply (Hn (length tr) tr).
  - lia.
  - exact Hsw.
Qed.

Lemma vol_app : forall a b f, vol (a ++ b) f = vol a f ++ vol b f.
Proof.
  induction a as [|e a IHa]; intros b f.
  - reflexivity.
  - destruct e as [g r|g]; simpl.
    + destruct (Nat.eqb g f).
      * simpl. rewrite IHa. reflexivity.
      * apply IHa.
    + apply IHa.
Qed.

Lemma dur_acc_synced : forall tr, synced_writes tr ->
  forall f s, dur_acc tr f [] s = s ++ vol tr f.
Proof.
  intros tr Hsw.
  induction Hsw as [|g t Hsw IH|g r t Hsw IH] using synced_writes_ind2; intros f s.
  - simpl. rewrite app_nil_r. reflexivity.
  - simpl. destruct (Nat.eqb g f).
    + rewrite app_nil_r. apply IH.
    + apply IH.
  - simpl. destruct (Nat.eqb g f).
    + simpl. rewrite IH. rewrite <- app_assoc. reflexivity.
    + apply IH.
Qed.

Lemma dur_acc_synced_inflight : forall p, synced_writes p ->
  forall g r f s, dur_acc (p ++ [EWrite g r]) f [] s = s ++ vol p f.
Proof.
  intros p Hsw.
  induction Hsw as [|h t Hsw IH|h q t Hsw IH] using synced_writes_ind2; intros g r f s.
  - simpl. destruct (Nat.eqb g f); simpl; rewrite app_nil_r; reflexivity.
  - simpl. destruct (Nat.eqb h f).
    + rewrite app_nil_r. apply IH.
    + apply IH.
  - simpl. destruct (Nat.eqb h f).
    + simpl. rewrite IH. rewrite <- app_assoc. reflexivity.
    + apply IH.
Qed.

(** * Main statements *)

(** on a trace obeying the protocol everything written is durable *)
Theorem synced_trace_durable : forall tr f, synced_writes tr -> dur tr f = vol tr f.
Proof.
  intros tr f Hsw. unfold dur. rewrite (dur_acc_synced tr Hsw). reflexivity.
Qed.

(** a crash point cuts the trace after an arbitrary number of events: the
    prefix either obeys the protocol itself or is such a trace followed by
    exactly one write (the one not yet synced) *)
Lemma synced_prefix : forall n tr, synced_writes tr ->
  synced_writes (firstn n tr) \/ exists p f r, firstn n tr = p ++ [EWrite f r] /\ synced_writes p.
Proof.
  intros n tr Hsw. revert n.
  induction Hsw as [|g t Hsw IH|g r t Hsw IH] using synced_writes_ind2; intros n.
  - left. destruct n; simpl; exact I.
  - destruct n as [|n].
    + left. simpl. exact I.
    + simpl firstn. destruct (IH n) as [Hl|Hr].
      * left. simpl. exact Hl.
      * right. destruct Hr as [p [f [q [Heq Hp]]]].
        exists (ESync g :: p), f, q. split.
        { rewrite Heq. reflexivity. }
        simpl. exact Hp.
  - destruct n as [|n].
    + left. simpl. exact I.
    + destruct n as [|n].
      * right. exists [], g, r. split.
        { reflexivity. }
        simpl. exact I.
      * simpl firstn. destruct (IH n) as [Hl|Hr].
        { left. simpl. split.
          - reflexivity.
          - exact Hl. }
        right. destruct Hr as [p [f [q [Heq Hp]]]].
        exists (EWrite g r :: ESync g :: p), f, q. split.
        { rewrite Heq. reflexivity. }
        simpl. split.
        { reflexivity. }
        exact Hp.
Qed.

(** C11: at every crash point of a run that syncs after every write, each
    file's durable content is its volatile content, except possibly for the
    single record whose write was the last event before the crash *)
Theorem power_loss_loses_at_most_inflight_write : forall tr n f, synced_writes tr ->
  dur (firstn n tr) f = vol (firstn n tr) f \/
  exists p g r, firstn n tr = p ++ [EWrite g r] /\ synced_writes p /\
                vol (firstn n tr) f = dur (firstn n tr) f ++ (if Nat.eqb g f then [r] else []).
Proof.
  intros tr n f Hsw.
  destruct (synced_prefix n tr Hsw) as [Hl|Hr].
  - left. apply synced_trace_durable. exact Hl.
  - right. destruct Hr as [p [g [r [Heq Hp]]]].
    exists p, g, r. split.
    { exact Heq. }
    split.
    { exact Hp. }
    rewrite Heq. unfold dur.
    rewrite (dur_acc_synced_inflight p Hp).
    rewrite vol_app. simpl.
    destruct (Nat.eqb g f); reflexivity.
Qed.

(** the engine model's Commit obeys the protocol when SyncEnable is set *)
Lemma commit_events_synced : forall ws, synced_writes (commit_events true ws).
Proof.
  induction ws as [|w ws IH].
  - simpl. exact I.
  - simpl. split.
    + reflexivity.
    + exact IH.
Qed.

(** ... and concatenations of protocol-obeying traces do *)
Lemma synced_writes_app : forall a b, synced_writes a -> synced_writes b -> synced_writes (a ++ b).
Proof.
  intros a b Ha Hb.
  induction Ha as [|g t Hsw IH|g r t Hsw IH] using synced_writes_ind2.
  - simpl. exact Hb.
  - simpl. exact IH.
  - simpl. split.
    + reflexivity.
    + exact IH.
Qed.

Lemma synced_writesb_spec : forall tr, synced_writesb tr = true <-> synced_writes tr.
Proof.
  assert (Hn : forall n tr, length tr <= n -> (synced_writesb tr = true <-> synced_writes tr)).
  { induction n as [|n IHn]; intros tr Hlen.
    - destruct tr as [|e t].
      + simpl. split; intros _.
        * exact I.
        * reflexivity.
      + simpl in Hlen. lia.
    - destruct tr as [|e t].
      + simpl. split; intros _.
        * exact I.
        * reflexivity.
      + destruct e as [f r|g].
        * destruct t as [|e' t'].
          { simpl. split; intros H.
            - discriminate H.
            - contradiction. }
          destruct e' as [f' r'|g'].
          { simpl. split; intros H.
            - discriminate H.
            - contradiction. }
          simpl. rewrite andb_true_iff. rewrite Nat.eqb_eq.
          assert (Hlen' : length t' <= n).
          { simpl in Hlen. lia. }
          rewrite (IHn t' Hlen'). reflexivity.
        * simpl. apply IHn. simpl in Hlen. lia. }
  intros tr. apply (Hn (length tr)). lia.
Qed.

(** without SyncEnable nothing is guaranteed: a trace of unsynced writes has empty durable content *)
Lemma unsynced_nothing_durable : forall ws f, dur (commit_events false ws) f = [].
Proof.
  intros ws f. unfold dur.
  assert (Hgen : forall p, dur_acc (commit_events false ws) f p [] = []);
    [| apply Hgen].
  induction ws as [|w ws IH]; intros p.
  - reflexivity.
  - simpl. destruct (Nat.eqb (fst w) f).
    + apply IH.
    + apply IH.
Qed.
