(** ConcFacts.v — every interleaving the RW lock allows is strictly
    serializable: the results of every finished transaction, and the shared
    state, are those of running the finished transactions one after another in
    the order in which they released the lock (an order consistent with real
    time: a transaction that finished before another began precedes it).  A
    read-only transaction sees one unchanging state.  No bound on threads,
    transactions or steps. *)
From Coq Require Import List Arith Lia Bool.
From Verif Require Import Conc.
Import ListNotations.

Section Facts.
  Variable State : Type.
  Variable Res : Type.
  Notation tx := (tx State Res).
  Notation sys := (sys State Res).

  (* ------------------------------------------------------------------ *)
  (** * Helpers *)
  Notation thread := (thread State Res).
  Notation setth := (set_thread State Res).
  Notation cur := (th_cur State Res).
  Notation todo := (th_todo State Res).
  Notation dones := (th_done State Res).
  Notation sst := (s_state State Res).
  Notation slk := (s_lock State Res).
  Notation sths := (s_threads State Res).
  Notation slog := (s_log State Res).
  Notation rsteps := (run_steps State Res).
  Notation rserial := (run_serial State Res).
  Notation twrite := (tx_write State Res).
  Notation tsteps := (tx_steps State Res).
  Notation txok := (tx_ok State Res).
  Notation step := (sstep State Res).
  Notation reachable := (reach State Res).
  Notation mkT := (mkTh State Res).

  (** ** set_thread / nth_error *)
  Lemma set_thread_consS : forall (a : thread) l i x,
    setth (a :: l) (Datatypes.S i) x = a :: setth l i x.
  Proof. reflexivity. Qed.

  Lemma nth_set_same : forall (l : list thread) i x,
    i < length l -> nth_error (setth l i x) i = Some x.
  Proof.
    induction l as [|a l IH]; intros i x H; simpl in H.
    - lia.
    - destruct i as [|i].
      + reflexivity.
      + rewrite set_thread_consS. simpl. apply IH. lia.
  Qed.

  Lemma nth_set_other : forall (l : list thread) i j x,
    i < length l -> j <> i -> nth_error (setth l i x) j = nth_error l j.
  Proof.
    induction l as [|a l IH]; intros i j x H Hne; simpl in H.
    - lia.
    - destruct i as [|i].
      + destruct j as [|j]; [congruence | reflexivity].
      + rewrite set_thread_consS. destruct j as [|j].
        * reflexivity.
        * simpl. apply IH; lia.
  Qed.

  Lemma nth_lt : forall (l : list thread) i th, nth_error l i = Some th -> i < length l.
  Proof. intros l i th H. apply nth_error_Some. congruence. Qed.

  Lemma nth_set_inv : forall (l : list thread) i j x th0 th',
    nth_error l i = Some th0 -> nth_error (setth l i x) j = Some th' ->
    (j = i /\ th' = x) \/ (j <> i /\ nth_error l j = Some th').
  Proof.
    intros l i j x th0 th' H0 H. pose proof (nth_lt _ _ _ H0) as Hi.
    destruct (Nat.eq_dec j i) as [E|E].
    - left. subst j. rewrite nth_set_same in H by exact Hi. split; congruence.
    - right. rewrite nth_set_other in H by assumption. split; assumption.
  Qed.

  (** ** serial runs *)
  Lemma run_steps_snoc : forall d f s,
    rsteps (d ++ [f]) s =
    (fst (f (fst (rsteps d s))), snd (rsteps d s) ++ [snd (f (fst (rsteps d s)))]).
  Proof.
    induction d as [|a d IH]; intros f s; simpl.
    - destruct (f s) as [s1 x]. reflexivity.
    - destruct (a s) as [s1 x]. rewrite IH. destruct (rsteps d s1) as [s2 xs]. reflexivity.
  Qed.

  Lemma run_serial_snoc : forall ts (t : tx) s,
    rserial (ts ++ [t]) s =
    (fst (rsteps (tsteps t) (fst (rserial ts s))),
     snd (rserial ts s) ++ [snd (rsteps (tsteps t) (fst (rserial ts s)))]).
  Proof.
    induction ts as [|a ts IH]; intros t s; simpl.
    - destruct (rsteps (tsteps t) s) as [s1 x]. reflexivity.
    - destruct (rsteps (tsteps a) s) as [s1 x]. rewrite IH.
      destruct (rserial ts s1) as [s2 xs]. reflexivity.
  Qed.

  (** ** the transaction a thread has in progress *)
  Definition curtx (th : thread) : option tx :=
    match cur th with Some (t, _, _) => Some t | None => None end.
  Definition ctx (ths : list thread) (j : nat) : option tx :=
    match nth_error ths j with Some th => curtx th | None => None end.

  Lemma ctx_set : forall ths i j x, i < length ths ->
    ctx (setth ths i x) j = if Nat.eqb j i then curtx x else ctx ths j.
  Proof.
    intros ths i j x Hi. unfold ctx. destruct (Nat.eqb_spec j i) as [E|E].
    - subst j. rewrite nth_set_same by exact Hi. reflexivity.
    - rewrite nth_set_other by assumption. reflexivity.
  Qed.

  Lemma ctx_of_cur : forall ths j th t fs rs,
    nth_error ths j = Some th -> cur th = Some (t, fs, rs) -> ctx ths j = Some t.
  Proof. intros ths j th t fs rs H1 H2. unfold ctx, curtx. rewrite H1, H2. reflexivity. Qed.

  Lemma ctx_none_of_cur : forall ths j th,
    nth_error ths j = Some th -> cur th = None -> ctx ths j = None.
  Proof. intros ths j th H1 H2. unfold ctx, curtx. rewrite H1, H2. reflexivity. Qed.

  Lemma cur_of_ctx : forall ths j, ctx ths j <> None ->
    exists th t fs rs, nth_error ths j = Some th /\ cur th = Some (t, fs, rs).
  Proof.
    intros ths j H. unfold ctx, curtx in H.
    destruct (nth_error ths j) as [th|] eqn:E; [|congruence].
    destruct (cur th) as [[[t fs] rs]|] eqn:C; [|congruence].
    exists th, t, fs, rs. split; [reflexivity | exact C].
  Qed.

  (* ------------------------------------------------------------------ *)
  (** * Structural invariant (no hypothesis on the programs) *)

  (** the lock state agrees with the set of transactions in progress *)
  Definition lock_ok (lk : lockst) (ths : list thread) : Prop :=
    match lk with
    | LFree => forall j, ctx ths j = None
    | LWriter i => (exists t, ctx ths i = Some t /\ twrite t = true) /\
                   (forall j, ctx ths j <> None -> j = i)
    | LReaders rd => rd <> [] /\ (forall j, In j rd <-> ctx ths j <> None) /\
                     (forall j t, ctx ths j = Some t -> twrite t = false)
    end.

  Lemma lock_ok_ext : forall lk ths ths',
    (forall j, ctx ths j = ctx ths' j) -> lock_ok lk ths -> lock_ok lk ths'.
  Proof.
    intros lk ths ths' H HL. destruct lk as [|k|rd]; simpl in *.
    - intros j. rewrite <- H. apply HL.
    - destruct HL as ((t & H1 & H2) & H3). split.
      + exists t. rewrite <- H. split; assumption.
      + intros j Hj. apply H3. rewrite H. exact Hj.
    - destruct HL as (A & B & C). split; [exact A|]. split.
      + intros j. rewrite <- H. apply B.
      + intros j t. rewrite <- H. apply C.
  Qed.

  Lemma remove_reader_In : forall i rd j, In j (remove_reader i rd) <-> In j rd /\ j <> i.
  Proof.
    intros i rd j. unfold remove_reader. rewrite filter_In.
    split; intros [H1 H2]; split; try assumption.
    - destruct (Nat.eqb_spec j i); [discriminate | assumption].
    - destruct (Nat.eqb_spec j i); [contradiction | reflexivity].
  Qed.

  Lemma lock_ok_step : forall Y Y', lock_ok (slk Y) (sths Y) -> step Y Y' -> lock_ok (slk Y') (sths Y').
  Proof.
    intros Y Y' HL Hs.
    destruct Hs as [Y i th t rest l' Hn Hc Ht Ha | Y i th t f fs rs Hn Hc | Y i th t rs Hn Hc];
      pose proof (nth_lt _ _ _ Hn) as Hi; simpl.
    - (* begin *)
      pose proof (ctx_none_of_cur _ _ _ Hn Hc) as Hci.
      destruct (slk Y) as [|k|rd] eqn:EL; destruct (twrite t) eqn:EW; simpl in Ha;
        try discriminate; injection Ha as <-; simpl in *.
      + split.
        * exists t. rewrite ctx_set by exact Hi. rewrite Nat.eqb_refl. split; [reflexivity | exact EW].
        * intros j Hj. rewrite ctx_set in Hj by exact Hi.
          destruct (Nat.eqb_spec j i) as [E|E]; [exact E|]. exfalso. apply Hj. apply HL.
      + split; [discriminate|]. split.
        * intros j. rewrite ctx_set by exact Hi. destruct (Nat.eqb_spec j i) as [E|E].
          -- subst j. split; [intros _; discriminate | intros _; left; reflexivity].
          -- split.
             ++ intros [H|[]]. congruence.
             ++ intros H. exfalso. apply H. apply HL.
        * intros j t0. rewrite ctx_set by exact Hi. destruct (Nat.eqb_spec j i) as [E|E].
          -- unfold curtx; simpl. intros H. injection H as <-. exact EW.
          -- intros H. rewrite HL in H. discriminate.
      + destruct HL as (Hne & Hin & Hro). split; [discriminate|]. split.
        * intros j. rewrite ctx_set by exact Hi. destruct (Nat.eqb_spec j i) as [E|E].
          -- subst j. split; [intros _; discriminate | intros _; left; reflexivity].
          -- rewrite <- Hin. split.
             ++ intros [H|H]; [congruence | exact H].
             ++ intros H. right. exact H.
        * intros j t0. rewrite ctx_set by exact Hi. destruct (Nat.eqb_spec j i) as [E|E].
          -- unfold curtx; simpl. intros H. injection H as <-. exact EW.
          -- apply Hro.
    - (* op *)
      apply lock_ok_ext with (ths := sths Y); [|exact HL].
      intros j. rewrite ctx_set by exact Hi. destruct (Nat.eqb_spec j i) as [E|E]; [|reflexivity].
      subst j. rewrite (ctx_of_cur _ _ _ _ _ _ Hn Hc). reflexivity.
    - (* end *)
      pose proof (ctx_of_cur _ _ _ _ _ _ Hn Hc) as Hci.
      destruct (slk Y) as [|k|rd] eqn:EL; simpl in *.
      + intros j. rewrite ctx_set by exact Hi. destruct (Nat.eqb_spec j i); [reflexivity | apply HL].
      + destruct HL as (_ & H3). intros j. rewrite ctx_set by exact Hi.
        destruct (Nat.eqb_spec j i) as [E|E]; [reflexivity|].
        destruct (ctx (sths Y) j) eqn:EJ; [|reflexivity]. exfalso.
        assert (j = k) by (apply H3; congruence).
        assert (i = k) by (apply H3; congruence). congruence.
      + destruct HL as (A & B & C).
        pose proof (remove_reader_In i rd) as Hrr.
        destruct (remove_reader i rd) as [|r0 r]; unfold lock_ok.
        * intros j. rewrite ctx_set by exact Hi.
          destruct (Nat.eqb_spec j i) as [E|E]; [reflexivity|].
          destruct (ctx (sths Y) j) eqn:EJ; [|reflexivity]. exfalso.
          assert (HJ : In j rd) by (apply B; congruence).
          destruct (proj2 (Hrr j) (conj HJ E)).
        * split; [discriminate|]. split.
          -- intros j. rewrite Hrr. rewrite ctx_set by exact Hi.
             destruct (Nat.eqb_spec j i) as [E|E].
             ++ split; [intros [_ H]; contradiction | intros H; exfalso; apply H; reflexivity].
             ++ rewrite B. split; [intros [H _]; exact H | intros H; split; assumption].
          -- intros j t0. rewrite ctx_set by exact Hi.
             destruct (Nat.eqb_spec j i) as [E|E]; [discriminate | apply C].
  Qed.

  (** each thread's finished results are the ones logged for it *)
  Definition done_ok (Y : sys) : Prop :=
    forall j th, nth_error (sths Y) j = Some th ->
      dones th = map (fun e => snd e) (filter (fun e => Nat.eqb (fst (fst e)) j) (slog Y)).

  Lemma done_ok_step : forall Y Y', done_ok Y -> step Y Y' -> done_ok Y'.
  Proof.
    intros Y Y' HD Hs.
    destruct Hs as [Y i th t rest l' Hn Hc Ht Ha | Y i th t f fs rs Hn Hc | Y i th t rs Hn Hc];
      intros j th' Hj; simpl in *.
    - destruct (nth_set_inv _ _ _ _ _ _ Hn Hj) as [[E1 E2]|[E1 E2]].
      + subst j th'. simpl. apply HD. exact Hn.
      + apply HD. exact E2.
    - destruct (nth_set_inv _ _ _ _ _ _ Hn Hj) as [[E1 E2]|[E1 E2]].
      + subst j th'. simpl. apply HD. exact Hn.
      + apply HD. exact E2.
    - rewrite filter_app, map_app. simpl.
      destruct (nth_set_inv _ _ _ _ _ _ Hn Hj) as [[E1 E2]|[E1 E2]].
      + subst j th'. simpl. rewrite Nat.eqb_refl. simpl. rewrite (HD _ _ Hn). reflexivity.
      + destruct (Nat.eqb_spec i j) as [E|E]; [congruence|]. simpl. rewrite app_nil_r.
        apply HD. exact E2.
  Qed.

  Definition Inv1 (Y : sys) : Prop := lock_ok (slk Y) (sths Y) /\ done_ok Y.

  Lemma init_threads_nth : forall (progs : list (list tx)) j th,
    nth_error (map (fun p => mkT p None []) progs) j = Some th ->
    exists p, nth_error progs j = Some p /\ th = mkT p None [].
  Proof.
    intros progs j th H. rewrite nth_error_map in H.
    destruct (nth_error progs j) as [p|]; simpl in H; [|discriminate].
    exists p. split; [reflexivity | congruence].
  Qed.

  Lemma Inv1_init : forall s0 progs, Inv1 (init State Res s0 progs).
  Proof.
    intros s0 progs. split.
    - simpl. intros j. unfold ctx.
      destruct (nth_error (map (fun p => mkT p None []) progs) j) as [th|] eqn:E; [|reflexivity].
      apply init_threads_nth in E. destruct E as (p & _ & ->). reflexivity.
    - intros j th H. simpl in H. apply init_threads_nth in H. destruct H as (p & _ & ->). reflexivity.
  Qed.

  Lemma Inv1_step : forall Y Y', Inv1 Y -> step Y Y' -> Inv1 Y'.
  Proof.
    intros Y Y' [H1 H2] Hs. split; [eapply lock_ok_step | eapply done_ok_step]; eassumption.
  Qed.

  Lemma Inv1_reach : forall s0 progs Y, reachable (init State Res s0 progs) Y -> Inv1 Y.
  Proof.
    intros s0 progs Y HR. remember (init State Res s0 progs) as Y0 eqn:E0.
    induction HR as [Y|Y1 Y2 Y3 HR IH Hs].
    - subst Y. apply Inv1_init.
    - eapply Inv1_step; [apply IH; exact E0 | exact Hs].
  Qed.

  (* ------------------------------------------------------------------ *)
  (** * Semantic invariant (read-only transactions are pure) *)

  Definition logtx (Y : sys) : list tx := map (fun e => snd (fst e)) (slog Y).
  (** the serial state: run the logged transactions in log order *)
  Definition sser (s0 : State) (Y : sys) : State := fst (rserial (logtx Y) s0).

  Record Inv2 (s0 : State) (Y : sys) : Prop := {
    i_res : snd (rserial (logtx Y) s0) = map (fun e => snd e) (slog Y);
    i_ok : forall j th, nth_error (sths Y) j = Some th ->
             Forall txok (todo th) /\ (forall t fs rs, cur th = Some (t, fs, rs) -> txok t);
    i_cur : forall j th t fs rs, nth_error (sths Y) j = Some th -> cur th = Some (t, fs, rs) ->
             exists dn, tsteps t = dn ++ fs /\ rsteps dn (sser s0 Y) = (sst Y, rs);
    i_state : (forall k, slk Y <> LWriter k) -> sst Y = sser s0 Y
  }.

  Lemma Inv2_init : forall s0 progs,
    Forall (Forall txok) progs -> Inv2 s0 (init State Res s0 progs).
  Proof.
    intros s0 progs HP. constructor.
    - reflexivity.
    - intros j th H. simpl in H. apply init_threads_nth in H. destruct H as (p & Hp & ->). simpl.
      split.
      + rewrite Forall_forall in HP. apply HP. eapply nth_error_In. exact Hp.
      + intros t fs rs H. discriminate.
    - intros j th t fs rs H. simpl in H. apply init_threads_nth in H. destruct H as (p & Hp & ->).
      simpl. discriminate.
    - intros _. reflexivity.
  Qed.

  (** in a state where no writer holds the lock, the next step of any
      transaction in progress is pure *)
  Lemma op_pure : forall s0 Y i th t f fs rs,
    lock_ok (slk Y) (sths Y) -> Inv2 s0 Y -> (forall k, slk Y <> LWriter k) ->
    nth_error (sths Y) i = Some th -> cur th = Some (t, f :: fs, rs) ->
    fst (f (sst Y)) = sst Y.
  Proof.
    intros s0 Y i th t f fs rs HL HI Hnw Hn Hc.
    pose proof (ctx_of_cur _ _ _ _ _ _ Hn Hc) as Hci.
    assert (HW : twrite t = false).
    { destruct (slk Y) as [|k|rd] eqn:EL; simpl in HL.
      - rewrite HL in Hci. discriminate.
      - exfalso. apply (Hnw k). reflexivity.
      - destruct HL as (_ & _ & C). eapply C. exact Hci. }
    destruct (i_ok _ _ HI _ _ Hn) as [_ Hok].
    pose proof (Hok _ _ _ Hc HW) as HF.
    destruct (i_cur _ _ HI _ _ _ _ _ Hn Hc) as (dn & Hsplit & _).
    rewrite Hsplit in HF. rewrite Forall_forall in HF.
    apply (HF f). apply in_or_app. right. left. reflexivity.
  Qed.

  (** if two distinct threads have a transaction in progress, no writer holds the lock *)
  Lemma two_cur_no_writer : forall lk ths i j ti tj,
    lock_ok lk ths -> ctx ths i = Some ti -> ctx ths j = Some tj -> j <> i ->
    forall k, lk <> LWriter k.
  Proof.
    intros lk ths i j ti tj HL Hi Hj Hne k EK. subst lk. simpl in HL. destruct HL as (_ & H3).
    assert (i = k) by (apply H3; congruence).
    assert (j = k) by (apply H3; congruence). congruence.
  Qed.

  Lemma Inv2_step : forall s0 Y Y',
    lock_ok (slk Y) (sths Y) -> Inv2 s0 Y -> step Y Y' -> Inv2 s0 Y'.
  Proof.
    intros s0 Y Y' HL HI Hs.
    destruct Hs as [Y i th t rest l' Hn Hc Ht Ha | Y i th t f fs rs Hn Hc | Y i th t rs Hn Hc].
    - (* begin *)
      assert (Hnw : forall k, slk Y <> LWriter k).
      { intros k EK. rewrite EK in Ha. simpl in Ha. destruct (twrite t); discriminate. }
      constructor; unfold sser, logtx; simpl.
      + apply (i_res _ _ HI).
      + intros j th' Hj. destruct (i_ok _ _ HI _ _ Hn) as [HT _]. rewrite Ht in HT.
        destruct (nth_set_inv _ _ _ _ _ _ Hn Hj) as [[E1 E2]|[E1 E2]].
        * subst j th'. simpl. split.
          -- inversion HT; assumption.
          -- intros t0 fs0 rs0 H. injection H as <- _ _. inversion HT; assumption.
        * apply (i_ok _ _ HI _ _ E2).
      + intros j th' t0 fs0 rs0 Hj Hcj.
        destruct (nth_set_inv _ _ _ _ _ _ Hn Hj) as [[E1 E2]|[E1 E2]].
        * subst j th'. simpl in Hcj. injection Hcj as <- <- <-.
          exists []. split; [reflexivity|]. simpl.
          rewrite (i_state _ _ HI Hnw). reflexivity.
        * apply (i_cur _ _ HI _ _ _ _ _ E2 Hcj).
      + intros Hnw'. apply (i_state _ _ HI Hnw).
    - (* op *)
      destruct (i_cur _ _ HI _ _ _ _ _ Hn Hc) as (dn & Hsplit & Hrun).
      pose proof (ctx_of_cur _ _ _ _ _ _ Hn Hc) as Hci.
      constructor; unfold sser, logtx; simpl.
      + apply (i_res _ _ HI).
      + intros j th' Hj.
        destruct (nth_set_inv _ _ _ _ _ _ Hn Hj) as [[E1 E2]|[E1 E2]].
        * subst j th'. simpl. destruct (i_ok _ _ HI _ _ Hn) as [HT HC]. split; [exact HT|].
          intros t0 fs0 rs0 H. injection H as <- _ _. eapply HC. exact Hc.
        * apply (i_ok _ _ HI _ _ E2).
      + intros j th' t0 fs0 rs0 Hj Hcj.
        destruct (nth_set_inv _ _ _ _ _ _ Hn Hj) as [[E1 E2]|[E1 E2]].
        * subst j th'. simpl in Hcj. injection Hcj as <- <- <-.
          exists (dn ++ [f]). split.
          -- rewrite <- app_assoc. exact Hsplit.
          -- rewrite run_steps_snoc. unfold sser, logtx in Hrun. rewrite Hrun. reflexivity.
        * pose proof (ctx_of_cur _ _ _ _ _ _ E2 Hcj) as Hcj'.
          pose proof (two_cur_no_writer _ _ _ _ _ _ HL Hci Hcj' E1) as Hnw.
          rewrite (op_pure _ _ _ _ _ _ _ _ HL HI Hnw Hn Hc).
          apply (i_cur _ _ HI _ _ _ _ _ E2 Hcj).
      + intros Hnw. rewrite (op_pure _ _ _ _ _ _ _ _ HL HI Hnw Hn Hc).
        apply (i_state _ _ HI Hnw).
    - (* end *)
      destruct (i_cur _ _ HI _ _ _ _ _ Hn Hc) as (dn & Hsplit & Hrun).
      rewrite app_nil_r in Hsplit. subst dn.
      pose proof (ctx_of_cur _ _ _ _ _ _ Hn Hc) as Hci.
      assert (Hser : rserial (logtx Y ++ [t]) s0 = (sst Y, map (fun e => snd e) (slog Y) ++ [rs])).
      { rewrite run_serial_snoc. unfold sser in Hrun. rewrite Hrun. simpl.
        rewrite (i_res _ _ HI). reflexivity. }
      constructor; unfold sser, logtx; simpl; rewrite ?map_app; simpl;
        fold (logtx Y); rewrite ?Hser; simpl.
      + reflexivity.
      + intros j th' Hj.
        destruct (nth_set_inv _ _ _ _ _ _ Hn Hj) as [[E1 E2]|[E1 E2]].
        * subst j th'. simpl. destruct (i_ok _ _ HI _ _ Hn) as [HT HC]. split; [exact HT|].
          intros t0 fs0 rs0 H. discriminate.
        * apply (i_ok _ _ HI _ _ E2).
      + intros j th' t0 fs0 rs0 Hj Hcj.
        destruct (nth_set_inv _ _ _ _ _ _ Hn Hj) as [[E1 E2]|[E1 E2]].
        * subst j th'. simpl in Hcj. discriminate.
        * pose proof (ctx_of_cur _ _ _ _ _ _ E2 Hcj) as Hcj'.
          pose proof (two_cur_no_writer _ _ _ _ _ _ HL Hci Hcj' E1) as Hnw.
          destruct (i_cur _ _ HI _ _ _ _ _ E2 Hcj) as (dn' & A & B).
          exists dn'. split; [exact A|].
          rewrite <- (i_state _ _ HI Hnw) in B. exact B.
      + intros _. reflexivity.
  Qed.

  Lemma Inv2_reach : forall s0 progs Y,
    Forall (Forall txok) progs -> reachable (init State Res s0 progs) Y -> Inv2 s0 Y.
  Proof.
    intros s0 progs Y HP HR. remember (init State Res s0 progs) as Y0 eqn:E0.
    induction HR as [Y|Y1 Y2 Y3 HR IH Hs].
    - subst Y. apply Inv2_init. exact HP.
    - eapply Inv2_step; [ | apply IH; exact E0 | exact Hs].
      subst Y1. apply (Inv1_reach _ _ _ HR).
  Qed.

  (* ------------------------------------------------------------------ *)
  (** * The theorems *)

  (** mutual exclusion: while a writer holds the lock no other transaction is in progress *)
  Theorem writer_excludes_all : forall s0 progs S i,
    reach State Res (init State Res s0 progs) S -> s_lock State Res S = LWriter i ->
    forall j th, nth_error (s_threads State Res S) j = Some th -> th_cur State Res th <> None -> j = i.
  Proof.
    intros s0 progs Y i HR EL j th Hn Hc.
    destruct (Inv1_reach _ _ _ HR) as [HL _]. rewrite EL in HL. simpl in HL.
    destruct HL as (_ & H3). apply H3.
    destruct (cur th) as [[[t fs] rs]|] eqn:C; [|congruence].
    rewrite (ctx_of_cur _ _ _ _ _ _ Hn C). discriminate.
  Qed.

  (** strict serializability.

      CORRECTION.  The statement [serializable] below is the one originally
      written; because [->] binds weaker than [/\] it parses as
        (results = logged /\ (.. -> True) /\ (forall i, lock <> LWriter i)) -> state = sfin
      i.e. the equality of the results is a HYPOTHESIS instead of a conclusion.
      It is true (and proved, as stated) but weaker than intended.  The intended
      property is [serializable_corrected]: (1) the logged results equal the
      results of the serial run of the logged transactions, in log order, from
      s0 -- unconditionally; and (2) whenever no writer holds the lock the
      shared state is the final state of that serial run.
      [serializable_in_progress] additionally describes the states in which a
      transaction (in particular a writer) is in progress. *)
  Theorem serializable_corrected : forall s0 progs S,
    Forall (Forall (tx_ok State Res)) progs ->
    reach State Res (init State Res s0 progs) S ->
    let ts := map (fun e => snd (fst e)) (s_log State Res S) in
    let '(sfin, results) := run_serial State Res ts s0 in
    results = map (fun e => snd e) (s_log State Res S) /\
    ((forall i, s_lock State Res S <> LWriter i) -> s_state State Res S = sfin).
  Proof.
    intros s0 progs Y HP HR ts.
    pose proof (Inv2_reach _ _ _ HP HR) as HI.
    pose proof (i_res _ _ HI) as H1. pose proof (i_state _ _ HI) as H2.
    unfold sser, logtx in H1, H2. fold ts in H1, H2.
    destruct (rserial ts s0) as [sfin results]. simpl in H1, H2.
    split; [exact H1 | exact H2].
  Qed.

  (** the statement as originally written (weaker than intended, see above) *)
  Theorem serializable : forall s0 progs S,
    Forall (Forall (tx_ok State Res)) progs ->
    reach State Res (init State Res s0 progs) S ->
    let ts := map (fun e => snd (fst e)) (s_log State Res S) in
    let '(sfin, results) := run_serial State Res ts s0 in
    results = map (fun e => snd e) (s_log State Res S) /\
    (s_lock State Res S <> LFree -> True) /\
    (forall i, s_lock State Res S <> LWriter i) -> s_state State Res S = sfin.
  Proof.
    intros s0 progs Y HP HR ts.
    pose proof (serializable_corrected s0 progs Y HP HR) as H. simpl in H. fold ts in H.
    destruct (rserial ts s0) as [sfin results].
    intros (_ & _ & Hnw). apply H. exact Hnw.
  Qed.

  (** every transaction in progress (in particular the writer, while it holds
      the lock) has executed a prefix of its steps, starting from the serial
      state of the logged transactions, and that prefix produced exactly the
      current shared state and the results accumulated so far *)
  Theorem serializable_in_progress : forall s0 progs S i th t fs rs,
    Forall (Forall (tx_ok State Res)) progs ->
    reach State Res (init State Res s0 progs) S ->
    nth_error (s_threads State Res S) i = Some th -> th_cur State Res th = Some (t, fs, rs) ->
    let ts := map (fun e => snd (fst e)) (s_log State Res S) in
    exists dn, tx_steps State Res t = dn ++ fs /\
      run_steps State Res dn (fst (run_serial State Res ts s0)) = (s_state State Res S, rs).
  Proof.
    intros s0 progs Y i th t fs rs HP HR Hn Hc ts.
    pose proof (Inv2_reach _ _ _ HP HR) as HI.
    apply (i_cur _ _ HI _ _ _ _ _ Hn Hc).
  Qed.

  Lemma quiescent_no_writer : forall Y, lock_ok (slk Y) (sths Y) -> quiescent State Res Y ->
    forall k, slk Y <> LWriter k.
  Proof.
    intros Y HL HQ k EK. rewrite EK in HL. simpl in HL. destruct HL as ((t & H1 & _) & _).
    assert (Hne : ctx (sths Y) k <> None) by congruence.
    destruct (cur_of_ctx _ _ Hne) as (th & t' & fs & rs & Hn & Hc).
    unfold quiescent in HQ. rewrite Forall_forall in HQ.
    rewrite (HQ th) in Hc; [discriminate|]. eapply nth_error_In. exact Hn.
  Qed.

  (** with no transaction in progress the shared state is the serial state *)
  Corollary serializable_quiescent : forall s0 progs S,
    Forall (Forall (tx_ok State Res)) progs ->
    reach State Res (init State Res s0 progs) S -> quiescent State Res S ->
    let ts := map (fun e => snd (fst e)) (s_log State Res S) in
    s_state State Res S = fst (run_serial State Res ts s0) /\
    map (fun e => snd e) (s_log State Res S) = snd (run_serial State Res ts s0).
  Proof.
    intros s0 progs Y HP HR HQ ts.
    pose proof (Inv2_reach _ _ _ HP HR) as HI.
    destruct (Inv1_reach _ _ _ HR) as [HL _].
    split.
    - apply (i_state _ _ HI). apply quiescent_no_writer; assumption.
    - symmetry. apply (i_res _ _ HI).
  Qed.

  (** a read-only transaction observes one state: the shared state does not
      change between its Begin and its Commit/Rollback *)
  Theorem reader_sees_one_state : forall s0 progs S S' i th t fs rs,
    Forall (Forall (tx_ok State Res)) progs ->
    reach State Res (init State Res s0 progs) S ->
    nth_error (s_threads State Res S) i = Some th -> th_cur State Res th = Some (t, fs, rs) -> tx_write State Res t = false ->
    sstep State Res S S' -> s_state State Res S' = s_state State Res S.
  Proof.
    intros s0 progs Y Y' i th t fs rs HP HR Hn Hc HW Hs.
    pose proof (Inv2_reach _ _ _ HP HR) as HI.
    destruct (Inv1_reach _ _ _ HR) as [HL _].
    pose proof (ctx_of_cur _ _ _ _ _ _ Hn Hc) as Hci.
    assert (Hnw : forall k, slk Y <> LWriter k).
    { intros k EK. pose proof HL as HL'. rewrite EK in HL'. simpl in HL'.
      destruct HL' as ((t' & H1 & H2) & H3).
      assert (i = k) by (apply H3; congruence). subst k. congruence. }
    destruct Hs as [Y j th' t' rest l' Hn' Hc' Ht' Ha' | Y j th' t' f fs' rs' Hn' Hc' | Y j th' t' rs' Hn' Hc'];
      simpl.
    - reflexivity.
    - eapply op_pure; eassumption.
    - reflexivity.
  Qed.

  (** per-thread program order: each thread's finished results are the results
      logged for that thread, in order *)
  Theorem thread_results_in_log : forall s0 progs S i th,
    reach State Res (init State Res s0 progs) S -> nth_error (s_threads State Res S) i = Some th ->
    th_done State Res th = map (fun e => snd e) (filter (fun e => Nat.eqb (fst (fst e)) i) (s_log State Res S)).
  Proof.
    intros s0 progs Y i th HR Hn.
    destruct (Inv1_reach _ _ _ HR) as [_ HD]. apply HD. exact Hn.
  Qed.

  Lemma step_of_cur : forall Y j th t fs rs,
    nth_error (sths Y) j = Some th -> cur th = Some (t, fs, rs) -> exists Y', step Y Y'.
  Proof.
    intros Y j th t fs rs Hn Hc. destruct fs as [|f fs].
    - eexists. eapply st_end; eassumption.
    - eexists. eapply st_op; eassumption.
  Qed.

  (** no deadlock: unless every thread has finished all its transactions, some step is enabled *)
  Theorem progress : forall s0 progs S,
    reach State Res (init State Res s0 progs) S ->
    (exists th, In th (s_threads State Res S) /\ (th_cur State Res th <> None \/ th_todo State Res th <> [])) ->
    exists S', sstep State Res S S'.
  Proof.
    intros s0 progs Y HR (th & Hin & Hth).
    destruct (Inv1_reach _ _ _ HR) as [HL _].
    destruct (In_nth_error _ _ Hin) as (j & Hn).
    destruct (cur th) as [[[t fs] rs]|] eqn:Hc.
    - eapply step_of_cur; eassumption.
    - destruct Hth as [Hth|Hth]; [congruence|].
      destruct (todo th) as [|t rest] eqn:Ht; [congruence|].
      destruct (slk Y) as [|k|rd] eqn:EL; simpl in HL.
      + destruct (twrite t) eqn:EW.
        * eexists. eapply st_begin with (i := j); try eassumption.
          rewrite EL, EW. reflexivity.
        * eexists. eapply st_begin with (i := j); try eassumption.
          rewrite EL, EW. reflexivity.
      + destruct HL as ((t' & H1 & _) & _).
        assert (Hne : ctx (sths Y) k <> None) by congruence.
        destruct (cur_of_ctx _ _ Hne) as (thk & tk & fsk & rsk & Hnk & Hck).
        eapply step_of_cur; eassumption.
      + destruct HL as (A & B & _).
        destruct rd as [|r0 rd]; [congruence|].
        assert (Hne : ctx (sths Y) r0 <> None) by (apply B; left; reflexivity).
        destruct (cur_of_ctx _ _ Hne) as (thk & tk & fsk & rsk & Hnk & Hck).
        eapply step_of_cur; eassumption.
  Qed.
End Facts.

Print Assumptions writer_excludes_all.
Print Assumptions serializable.
Print Assumptions serializable_corrected.
Print Assumptions serializable_in_progress.
Print Assumptions serializable_quiescent.
Print Assumptions reader_sees_one_state.
Print Assumptions thread_results_in_log.
Print Assumptions progress.
