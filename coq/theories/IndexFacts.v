(** IndexFacts.v — the key/value index walks (Index.v, written after the Go
    loops of bptree.go) against the declarative specification (Spec.v):
    on a key-sorted index every read is a filter of the live pairs. *)
From Coq Require Import Sorted.
From Verif Require Import Bytes BytesFacts ListDS SetDS Index Engine Spec.
From Coq Require Import Lia ZifyN ZifyNat ZifyBool.
Open Scope N_scope.

(** ---- order facts about byte strings ---- *)
Lemma bltb_lt : forall a b, bltb a b = true <-> bcompare a b = Lt.
Proof. intros a b. unfold bltb. destruct (bcompare a b); split; congruence. Qed.

Lemma bltb_trans : forall a b c, bltb a b = true -> bltb b c = true -> bltb a c = true.
Proof.
  intros a b c H1 H2. apply bltb_lt in H1. apply bltb_lt in H2. apply bltb_lt.
  eapply bcompare_lt_trans; eassumption.
Qed.

Lemma bltb_irrefl : forall a, bltb a a = false.
Proof. intros a. unfold bltb. rewrite bcompare_refl. reflexivity. Qed.

Lemma bleb_bltb : forall a b, bleb a b = negb (bltb b a).
Proof.
  intros a b. unfold bleb, bltb. rewrite (bcompare_antisym a b).
  destruct (bcompare a b); reflexivity.
Qed.

Lemma has_prefix_ge : forall k p, has_prefix k p = true -> bleb p k = true.
Proof.
  intros k p; revert k; induction p as [|y p IH]; intros k H.
  - destruct k; reflexivity.
  - destruct k as [|x k]; [discriminate H|].
    cbn [has_prefix] in H. apply andb_true_iff in H as [H1 H2].
    apply byte_eqb_eq in H1. subst x.
    specialize (IH k H2). unfold bleb in *. cbn [bcompare].
    rewrite N.compare_refl. exact IH.
Qed.

Lemma lt_prefix_no : forall k p, bltb k p = true -> has_prefix k p = false.
Proof.
  intros k p H. destruct (has_prefix k p) eqn:E; [|reflexivity].
  apply has_prefix_ge in E. rewrite bleb_bltb, H in E. discriminate E.
Qed.

(** keys with a given prefix are contiguous in the order *)
Lemma prefix_convex : forall a b c p,
  bltb a b = true -> bltb b c = true -> has_prefix a p = true -> has_prefix c p = true -> has_prefix b p = true.
Proof.
  intros a b c p; revert a b c; induction p as [|y p IH]; intros a b c Hab Hbc Ha Hc.
  - reflexivity.
  - destruct a as [|x a]; [discriminate Ha|]. destruct c as [|z c]; [discriminate Hc|].
    cbn [has_prefix] in Ha, Hc.
    apply andb_true_iff in Ha as [Ha1 Ha2]. apply andb_true_iff in Hc as [Hc1 Hc2].
    apply byte_eqb_eq in Ha1. apply byte_eqb_eq in Hc1. subst x z.
    destruct b as [|w b]; [discriminate Hab|].
    unfold bltb in Hab, Hbc. cbn [bcompare] in Hab, Hbc.
    destruct (N.compare_spec (b2n y) (b2n w)) as [E1|E1|E1];
    destruct (N.compare_spec (b2n w) (b2n y)) as [E2|E2|E2];
      try discriminate; try lia.
    apply b2n_inj in E1. subst w. cbn [has_prefix]. rewrite byte_eqb_refl. cbn [andb].
    apply (IH a b c); [unfold bltb; exact Hab|unfold bltb; exact Hbc|exact Ha2|exact Hc2].
Qed.

Lemma bleb_lt_trans : forall a b c, bleb a b = true -> bltb b c = true -> bltb a c = true.
Proof.
  intros a b c H1 H2. unfold bleb in H1. destruct (bcompare a b) eqn:E; [| |discriminate H1].
  - apply bcompare_eq in E. subst b. exact H2.
  - apply (bltb_trans a b c); [apply bltb_lt; exact E|exact H2].
Qed.

Lemma bltb_le_trans : forall a b c, bltb a b = true -> bleb b c = true -> bltb a c = true.
Proof.
  intros a b c H1 H2. unfold bleb in H2. destruct (bcompare b c) eqn:E; [| |discriminate H2].
  - apply bcompare_eq in E. subst c. exact H1.
  - apply (bltb_trans a b c); [exact H1|apply bltb_lt; exact E].
Qed.

Lemma bltb_bleb : forall a b, bltb a b = true -> bleb a b = true.
Proof. intros a b H. apply bltb_lt in H. unfold bleb. rewrite H. reflexivity. Qed.

Lemma bltb_gt : forall a b, bcompare a b = Gt -> bltb b a = true.
Proof. intros a b H. apply bltb_lt. rewrite (bcompare_antisym a b), H. reflexivity. Qed.

Lemma bytes_eqb_refl : forall a, bytes_eqb a a = true.
Proof. intros a. apply bytes_eqb_eq. reflexivity. Qed.

Lemma bytes_eqb_neq : forall a b, a <> b -> bytes_eqb a b = false.
Proof.
  intros a b H. destruct (bytes_eqb a b) eqn:E; [|reflexivity].
  apply bytes_eqb_eq in E. contradiction.
Qed.

Lemma bltb_neq : forall a b, bltb a b = true -> a <> b.
Proof. intros a b H E. subst b. rewrite bltb_irrefl in H. discriminate H. Qed.

(** ---- the index invariant ---- *)
Definition klt (a b : bytes * krec) : Prop := bltb (fst a) (fst b) = true.
Definition ksorted (ix : kvidx) : Prop := StronglySorted klt ix.

Lemma ksorted_inv : forall k r t, ksorted ((k, r) :: t) ->
  ksorted t /\ Forall (fun kr => bltb k (fst kr) = true) t.
Proof. intros k r t H. inversion H as [|x l Hs Hf]; subst. split; [exact Hs|exact Hf]. Qed.

Lemma ksorted_cons : forall k r t, ksorted t -> Forall (fun kr => bltb k (fst kr) = true) t ->
  ksorted ((k, r) :: t).
Proof. intros k r t Hs Hf. constructor; [exact Hs|exact Hf]. Qed.

Lemma Forall_lt_trans : forall (k k' : bytes) (t : kvidx), bltb k k' = true ->
  Forall (fun kr => bltb k' (fst kr) = true) t -> Forall (fun kr => bltb k (fst kr) = true) t.
Proof.
  intros k k' t H Hf. eapply Forall_impl; [|exact Hf].
  intros kr Hk. cbn beta in Hk. apply (bltb_trans k k' (fst kr)); assumption.
Qed.

Lemma kv_insert_in : forall ix k r y, In y (kv_insert ix k r) -> y = (k, r) \/ In y ix.
Proof.
  induction ix as [|[k' r'] t IH]; intros k r y H; cbn [kv_insert] in H.
  - destruct H as [H|[]]. left. symmetry. exact H.
  - destruct (bcompare k k') eqn:E.
    + destruct H as [H|H]; [left; symmetry; exact H|right; right; exact H].
    + destruct H as [H|H]; [left; symmetry; exact H|right; exact H].
    + destruct H as [H|H]; [right; left; exact H|].
      apply IH in H. destruct H as [H|H]; [left; exact H|right; right; exact H].
Qed.

Lemma kv_insert_sorted : forall ix k r, ksorted ix -> ksorted (kv_insert ix k r).
Proof.
  induction ix as [|[k' r'] t IH]; intros k r Hs; cbn [kv_insert].
  - apply ksorted_cons; constructor.
  - apply ksorted_inv in Hs as [Hst Hfa]. destruct (bcompare k k') eqn:E.
    + apply bcompare_eq in E. subst k'. apply ksorted_cons; assumption.
    + apply bltb_lt in E. apply ksorted_cons.
      * apply ksorted_cons; assumption.
      * constructor; [exact E|]. apply (Forall_lt_trans k k'); assumption.
    + apply bltb_gt in E. apply ksorted_cons.
      * apply IH. exact Hst.
      * apply Forall_forall. intros y Hy. apply kv_insert_in in Hy as [Hy|Hy].
        -- subst y. exact E.
        -- rewrite Forall_forall in Hfa. apply Hfa. exact Hy.
Qed.

Lemma kv_find_insert_same : forall ix k r, ksorted ix -> kv_find (kv_insert ix k r) k = Some r.
Proof.
  induction ix as [|[k' r'] t IH]; intros k r Hs; cbn [kv_insert].
  - cbn [kv_find]. rewrite bytes_eqb_refl. reflexivity.
  - destruct (bcompare k k') eqn:E.
    + cbn [kv_find]. rewrite bytes_eqb_refl. reflexivity.
    + cbn [kv_find]. rewrite bytes_eqb_refl. reflexivity.
    + apply bltb_gt in E. apply bltb_neq in E. cbn [kv_find].
      rewrite (bytes_eqb_neq k' k E). apply IH.
      apply ksorted_inv in Hs as [Hst _]. exact Hst.
Qed.

Lemma kv_find_insert_other : forall ix k k' r, k' <> k -> kv_find (kv_insert ix k r) k' = kv_find ix k'.
Proof.
  induction ix as [|[k0 r0] t IH]; intros k k' r Hne; cbn [kv_insert].
  - cbn [kv_find]. rewrite (bytes_eqb_neq k k') by congruence. reflexivity.
  - destruct (bcompare k k0) eqn:E.
    + apply bcompare_eq in E. subst k0. cbn [kv_find].
      rewrite (bytes_eqb_neq k k') by congruence. reflexivity.
    + cbn [kv_find]. rewrite (bytes_eqb_neq k k') by congruence. reflexivity.
    + cbn [kv_find]. rewrite (IH k k' r Hne). reflexivity.
Qed.

Lemma kv_insert_keys : forall ix k r k', ksorted ix ->
  (In k' (map fst (kv_insert ix k r)) <-> k' = k \/ In k' (map fst ix)).
Proof.
  induction ix as [|[k0 r0] t IH]; intros k r k' Hs; cbn [kv_insert].
  - cbn [map fst In]. split; intros [H|H]; auto.
  - apply ksorted_inv in Hs as [Hst _]. destruct (bcompare k k0) eqn:E.
    + apply bcompare_eq in E. subst k0. cbn [map fst In].
      split; [intros [H|H]|intros [H|[H|H]]]; auto.
    + cbn [map fst In]. split; [intros [H|[H|H]]|intros [H|[H|H]]]; auto.
    + cbn [map fst In]. rewrite (IH k r k' Hst).
      split; [intros [H|[H|H]]|intros [H|[H|H]]]; auto.
Qed.

(** ---- generic list facts ---- *)
Lemma filter_none : forall {A} (f : A -> bool) l, Forall (fun x => f x = false) l -> filter f l = [].
Proof.
  intros A f l H. induction H as [|x l Hx Hl IH]; cbn [filter]; [reflexivity|].
  rewrite Hx. exact IH.
Qed.

Lemma filter_all : forall {A} (f : A -> bool) l, Forall (fun x => f x = true) l -> filter f l = l.
Proof.
  intros A f l H. induction H as [|x l Hx Hl IH]; cbn [filter]; [reflexivity|].
  rewrite Hx, IH. reflexivity.
Qed.

Lemma filter_filter : forall {A} (f g : A -> bool) l,
  filter f (filter g l) = filter (fun x => f x && g x) l.
Proof.
  intros A f g l. induction l as [|x l IH]; cbn [filter]; [reflexivity|].
  destruct (g x) eqn:Eg; destruct (f x) eqn:Ef; cbn [filter andb]; rewrite ?Ef, IH; reflexivity.
Qed.

Lemma filter_map_comm : forall {A B} (f : B -> bool) (g : A -> B) l,
  filter f (map g l) = map g (filter (fun x => f (g x)) l).
Proof.
  intros A B f g l. induction l as [|x l IH]; cbn [filter map]; [reflexivity|].
  destruct (f (g x)); cbn [map]; rewrite IH; reflexivity.
Qed.

Lemma in_firstn : forall {A} n (l : list A) x, In x (firstn n l) -> In x l.
Proof. intros A n l x H. rewrite <- (firstn_skipn n l). apply in_or_app. left. exact H. Qed.

Lemma in_skipn : forall {A} n (l : list A) x, In x (skipn n l) -> In x l.
Proof. intros A n l x H. rewrite <- (firstn_skipn n l). apply in_or_app. right. exact H. Qed.

Lemma firstn_add : forall {A} a b (l : list A),
  firstn (a + b) l = firstn a l ++ firstn b (skipn a l).
Proof.
  intros A a. induction a as [|a IH]; intros b l.
  - reflexivity.
  - destruct l as [|x l].
    + cbn [plus firstn skipn app]. rewrite firstn_nil. reflexivity.
    + cbn [plus firstn skipn app]. rewrite IH. reflexivity.
Qed.

(** ---- the walks ---- *)
Definition live_rec (now : N) (kr : bytes * krec) : bool := negb (kr_dead now (snd kr)).

Definition collect (en : bytes) : kvidx -> kvidx :=
  fix collect (l : kvidx) : kvidx :=
  match l with
  | [] => []
  | (k', r') :: t' => if bltb en k' then [] else (k', r') :: collect t'
  end.

Lemma collect_cons : forall en k r t,
  collect en ((k, r) :: t) = if bltb en k then [] else (k, r) :: collect en t.
Proof. intros. reflexivity. Qed.

Lemma kv_range_cons : forall k r t st en,
  kv_range ((k, r) :: t) st en =
  if bltb k st then kv_range t st en else collect en ((k, r) :: t).
Proof. intros. reflexivity. Qed.

Lemma collect_spec : forall l st en, ksorted l ->
  Forall (fun kr => bleb st (fst kr) = true) l ->
  collect en l = filter (fun kr => bleb st (fst kr) && bleb (fst kr) en) l.
Proof.
  induction l as [|[k r] t IH]; intros st en Hs Hf; [reflexivity|].
  apply ksorted_inv in Hs as [Hst Hlt].
  inversion Hf as [|x l Hk Hft]; subst. cbn [fst] in Hk.
  rewrite collect_cons. cbn [filter fst]. rewrite Hk. cbn [andb].
  rewrite (bleb_bltb k en). destruct (bltb en k) eqn:E; cbn [negb].
  - symmetry. apply filter_none. eapply Forall_impl; [|exact Hlt].
    intros kr Hkr. cbn beta in Hkr.
    assert (H : bltb en (fst kr) = true) by (apply (bltb_trans en k (fst kr)); assumption).
    rewrite (bleb_bltb (fst kr) en), H. apply andb_false_r.
  - rewrite (IH st en Hst Hft). reflexivity.
Qed.

Lemma kv_range_spec : forall ix st en, ksorted ix ->
  kv_range ix st en = filter (fun kr => bleb st (fst kr) && bleb (fst kr) en) ix.
Proof.
  induction ix as [|[k r] t IH]; intros st en Hs; [reflexivity|].
  rewrite kv_range_cons. destruct (bltb k st) eqn:E.
  - cbn [filter fst]. rewrite (bleb_bltb st k), E. cbn [negb andb].
    apply IH. apply ksorted_inv in Hs as [Hst _]. exact Hst.
  - apply collect_spec; [exact Hs|].
    assert (Hk : bleb st k = true) by (rewrite bleb_bltb, E; reflexivity).
    constructor; [exact Hk|].
    apply ksorted_inv in Hs as [_ Hlt]. eapply Forall_impl; [|exact Hlt].
    intros kr Hkr. cbn beta in Hkr. apply bltb_bleb.
    apply (bleb_lt_trans st k (fst kr)); assumption.
Qed.

Lemma wrap_items_all : forall now rs acc, wrap_items now (-1) rs acc = filter (live_rec now) rs.
Proof.
  intros now rs. induction rs as [|[k r] t IH]; intros acc; [reflexivity|].
  cbn [wrap_items filter]. unfold live_rec at 1. cbn [snd].
  destruct (kr_dead now r); cbn [negb].
  - apply IH.
  - replace ((0 <? -1)%Z && (acc <? -1)%Z || (-1 =? -1)%Z) with true by (cbn; reflexivity).
    rewrite IH. reflexivity.
Qed.

Lemma wrap_items_lim : forall now lim rs acc, (0 < lim)%Z ->
  wrap_items now lim rs acc = firstn (Z.to_nat (lim - acc)) (filter (live_rec now) rs).
Proof.
  intros now lim rs. induction rs as [|[k r] t IH]; intros acc Hl.
  - cbn [wrap_items filter]. rewrite firstn_nil. reflexivity.
  - cbn [wrap_items filter]. unfold live_rec at 1. cbn [snd].
    destruct (kr_dead now r); cbn [negb].
    + apply IH. exact Hl.
    + destruct ((0 <? lim)%Z && (acc <? lim)%Z || (lim =? -1)%Z) eqn:E.
      * rewrite (IH (acc + 1)%Z Hl).
        replace (Z.to_nat (lim - acc)) with (S (Z.to_nat (lim - (acc + 1)))) by lia.
        reflexivity.
      * rewrite (IH acc Hl). replace (Z.to_nat (lim - acc)) with 0%nat by lia. reflexivity.
Qed.

Lemma wrap_items_none : forall now lim rs acc, (0 <? lim)%Z = false -> (lim =? -1)%Z = false ->
  wrap_items now lim rs acc = [].
Proof.
  intros now lim rs acc H1 H2. induction rs as [|[k r] t IH]; [reflexivity|].
  cbn [wrap_items]. rewrite H1, H2. cbn [andb orb]. destruct (kr_dead now r); exact IH.
Qed.

Lemma wrap_items_spec : forall now lim rs,
  wrap_items now lim rs 0 =
    if (0 <? lim)%Z then firstn (Z.to_nat lim) (filter (live_rec now) rs)
    else if (lim =? -1)%Z then filter (live_rec now) rs
    else [].
Proof.
  intros now lim rs. destruct (0 <? lim)%Z eqn:E1.
  - rewrite wrap_items_lim by lia. rewrite Z.sub_0_r. reflexivity.
  - destruct (lim =? -1)%Z eqn:E2.
    + apply Z.eqb_eq in E2. subst lim. apply wrap_items_all.
    + apply wrap_items_none; assumption.
Qed.

(** ---- the prefix walk ---- *)
Lemma has_prefix_refl : forall p, has_prefix p p = true.
Proof. intros p. apply has_prefix_app. exists []. rewrite app_nil_r. reflexivity. Qed.

Lemma no_prefix_after : forall p k r t, ksorted ((k, r) :: t) -> bleb p k = true ->
  has_prefix k p = false -> Forall (fun kr => has_prefix (fst kr) p = false) t.
Proof.
  intros p k r t Hs Hle Hnp. apply ksorted_inv in Hs as [_ Hlt].
  eapply Forall_impl; [|exact Hlt]. intros kr Hkr. cbn beta in Hkr.
  destruct (has_prefix (fst kr) p) eqn:E; [|reflexivity].
  exfalso. unfold bleb in Hle. destruct (bcompare p k) eqn:C; [| |discriminate Hle].
  - apply bcompare_eq in C. subst k. rewrite has_prefix_refl in Hnp. discriminate Hnp.
  - apply bltb_lt in C.
    assert (H : has_prefix k p = true).
    { apply (prefix_convex p k (fst kr) p); [exact C|exact Hkr|apply has_prefix_refl|exact E]. }
    rewrite H in Hnp. discriminate Hnp.
Qed.

Definition pf (now : N) (p : bytes) (kr : bytes * krec) : bool :=
  has_prefix (fst kr) p && live_rec now kr.

Definition pmf (pm : bytes -> bool) (p : bytes) (kr : bytes * krec) : bool :=
  pm (skipn (length p) (fst kr)).

Definition walk_res (pm : bytes -> bool) (p : bytes) (offn limn : Z) (L : kvidx) (coff found : Z)
  : kvidx * Z :=
  let skip := Z.min (Z.max (offn - coff) 0) (zlen L) in
  let rest := filter (pmf pm p) (skipn (Z.to_nat skip) L) in
  ((if (0 <? limn)%Z then firstn (Z.to_nat (limn - found)) rest else rest), (coff + skip)%Z).

Lemma zlen_cons : forall {A} (x : A) l, zlen (x :: l) = (zlen l + 1)%Z.
Proof. intros A x l. unfold zlen. cbn [length]. lia. Qed.

Lemma zlen_nonneg : forall {A} (l : list A), (0 <= zlen l)%Z.
Proof. intros A l. unfold zlen. lia. Qed.

Lemma walk_res_nil : forall pm p offn limn coff found,
  walk_res pm p offn limn [] coff found = ([], coff).
Proof.
  intros. unfold walk_res. cbv zeta.
  replace (Z.min (Z.max (offn - coff) 0) (zlen (@nil (bytes * krec)))) with 0%Z
    by (unfold zlen; cbn [length]; lia).
  cbn [Z.to_nat skipn filter]. rewrite firstn_nil, Z.add_0_r.
  destruct (0 <? limn)%Z; reflexivity.
Qed.

Lemma walk_res_skip : forall pm p offn limn x L coff found, (coff < offn)%Z ->
  walk_res pm p offn limn (x :: L) coff found = walk_res pm p offn limn L (coff + 1) found.
Proof.
  intros pm p offn limn x L coff found H. unfold walk_res. cbv zeta.
  pose proof (zlen_nonneg L) as HL.
  set (s := Z.min (Z.max (offn - (coff + 1)) 0) (zlen L)).
  replace (Z.min (Z.max (offn - coff) 0) (zlen (x :: L))) with (1 + s)%Z
    by (rewrite zlen_cons; unfold s; lia).
  assert (Hs : (0 <= s)%Z) by (unfold s; lia).
  replace (Z.to_nat (1 + s)) with (S (Z.to_nat s)) by lia.
  cbn [skipn]. f_equal. lia.
Qed.

Lemma walk_res_noskip : forall pm p offn limn x L coff found, (offn <= coff)%Z ->
  walk_res pm p offn limn (x :: L) coff found =
  ((if (0 <? limn)%Z then firstn (Z.to_nat (limn - found)) (filter (pmf pm p) (x :: L))
    else filter (pmf pm p) (x :: L)), coff).
Proof.
  intros pm p offn limn x L coff found H. unfold walk_res. cbv zeta.
  pose proof (zlen_nonneg (x :: L)) as HL.
  replace (Z.min (Z.max (offn - coff) 0) (zlen (x :: L))) with 0%Z by lia.
  cbn [Z.to_nat skipn]. rewrite Z.add_0_r. reflexivity.
Qed.

Lemma walk_res_noskip' : forall pm p offn limn L coff found, (offn <= coff)%Z ->
  walk_res pm p offn limn L coff found =
  ((if (0 <? limn)%Z then firstn (Z.to_nat (limn - found)) (filter (pmf pm p) L)
    else filter (pmf pm p) L), coff).
Proof.
  intros pm p offn limn L coff found H. unfold walk_res. cbv zeta.
  pose proof (zlen_nonneg L) as HL.
  replace (Z.min (Z.max (offn - coff) 0) (zlen L)) with 0%Z by lia.
  cbn [Z.to_nat skipn]. rewrite Z.add_0_r. reflexivity.
Qed.

Lemma walk_spec : forall now pm p offn limn l coff found, ksorted l ->
  Forall (fun kr => bleb p (fst kr) = true) l ->
  ((0 <? limn)%Z = true -> (found < limn)%Z) ->
  prefix_walk now pm p offn limn l coff found =
  walk_res pm p offn limn (filter (pf now p) l) coff found.
Proof.
  intros now pm p offn limn. induction l as [|[k r] t IH]; intros coff found Hs Hge Hlim.
  - cbn [prefix_walk filter]. rewrite walk_res_nil. reflexivity.
  - pose proof (ksorted_inv k r t Hs) as [Hst Hlt].
    inversion Hge as [|x l0 Hk Hget]; subst. cbn [fst] in Hk.
    cbn [prefix_walk filter]. unfold pf at 1. cbn [fst]. unfold live_rec at 1. cbn [snd].
    destruct (has_prefix k p) eqn:Ep; cbn [negb andb].
    + destruct (kr_dead now r) eqn:Ed; cbn [negb].
      * apply IH; assumption.
      * destruct (coff <? offn)%Z eqn:Ec.
        -- rewrite walk_res_skip by lia. apply IH; assumption.
        -- rewrite walk_res_noskip by lia. cbn [filter].
           assert (Hpm : pmf pm p (k, r) = pm (skipn (length p) k)) by reflexivity.
           rewrite !Hpm. clear Hpm.
           destruct (pm (skipn (length p) k)) eqn:Em; cbn [negb].
           ++ destruct ((0 <? limn)%Z && (found + 1 =? limn)%Z) eqn:El.
              ** apply andb_true_iff in El as [El1 El2]. rewrite El1.
                 replace (Z.to_nat (limn - found)) with 1%nat by lia.
                 cbn [firstn]. reflexivity.
              ** rewrite IH; [|assumption|assumption|].
                 --- rewrite walk_res_noskip' by lia.
                     destruct (0 <? limn)%Z eqn:El1.
                     +++ specialize (Hlim eq_refl).
                         replace (Z.to_nat (limn - found)) with (S (Z.to_nat (limn - (found + 1)))) by lia.
                         cbn [firstn]. reflexivity.
                     +++ reflexivity.
                 --- intros Hl. specialize (Hlim Hl). rewrite Hl in El. cbn [andb] in El. lia.
           ++ rewrite IH; [|assumption|assumption|assumption].
              rewrite walk_res_noskip' by lia. reflexivity.
    + pose proof (no_prefix_after p k r t Hs Hk Ep) as Hno.
      rewrite (filter_none (pf now p) t).
      * rewrite walk_res_nil. reflexivity.
      * eapply Forall_impl; [|exact Hno]. intros kr Hkr. cbn beta in Hkr.
        unfold pf. rewrite Hkr. reflexivity.
Qed.

Lemma drop_below_spec : forall now p ix, ksorted ix ->
  ksorted (drop_below ix p) /\
  Forall (fun kr => bleb p (fst kr) = true) (drop_below ix p) /\
  filter (pf now p) (drop_below ix p) = filter (pf now p) ix.
Proof.
  intros now p. induction ix as [|[k r] t IH]; intros Hs.
  - cbn [drop_below filter]. repeat split; [exact Hs|constructor].
  - pose proof (ksorted_inv k r t Hs) as [Hst Hlt].
    cbn [drop_below]. destruct (bltb k p) eqn:E.
    + destruct (IH Hst) as [H1 [H2 H3]]. repeat split; [exact H1|exact H2|].
      rewrite H3. cbn [filter]. unfold pf at 2. cbn [fst].
      rewrite (lt_prefix_no k p E). cbn [andb]. reflexivity.
    + repeat split; [exact Hs|].
      assert (Hk : bleb p k = true) by (rewrite bleb_bltb, E; reflexivity).
      constructor; [exact Hk|].
      eapply Forall_impl; [|exact Hlt]. intros kr Hkr. cbn beta in Hkr.
      apply bltb_bleb. apply (bleb_lt_trans p k (fst kr)); assumption.
Qed.

(** PrefixScan / PrefixSearchScan (after fix 4f50de5): skip [off] live keys
    with the prefix, then keep those whose remainder matches, at most [lim]
    of them when lim > 0.  The returned offset is the number of keys skipped. *)
Lemma kv_prefix_scan_spec : forall now pm ix p off lim, ksorted ix ->
  let L := filter (fun kr => has_prefix (fst kr) p && live_rec now kr) ix in
  let coff := Z.min (Z.max off 0) (zlen L) in
  let rest := filter (fun kr => pm (skipn (length p) (fst kr))) (skipn (Z.to_nat coff) L) in
  kv_prefix_scan now pm ix p off lim =
    ((if (0 <? lim)%Z then firstn (Z.to_nat lim) rest else rest), coff).
Proof.
  intros now pm ix p off lim Hs. cbv zeta. unfold kv_prefix_scan.
  destruct (drop_below_spec now p ix Hs) as [H1 [H2 H3]].
  rewrite walk_spec; [|exact H1|exact H2|lia].
  rewrite H3. unfold walk_res. cbv zeta.
  rewrite !Z.sub_0_r, Z.add_0_l. reflexivity.
Qed.

Lemma concat_pages : forall {A} (m n : nat) (L : list A),
  concat (map (fun i => firstn m (skipn (i * m) L)) (seq 0 n)) = firstn (n * m) L.
Proof.
  intros A m n L. induction n as [|n IH].
  - reflexivity.
  - rewrite seq_S, map_app, concat_app, IH. cbn [map concat plus].
    rewrite app_nil_r. replace (S n * m)%nat with (n * m + m)%nat by lia.
    rewrite firstn_add. reflexivity.
Qed.

Lemma skipn_min_length : forall {A} (a : nat) (L : list A),
  skipn (Nat.min a (length L)) L = skipn a L.
Proof.
  intros A a L. destruct (Nat.le_gt_cases a (length L)) as [H|H].
  - rewrite Nat.min_l by exact H. reflexivity.
  - rewrite Nat.min_r by lia. rewrite skipn_all. rewrite skipn_all2 by lia. reflexivity.
Qed.

(** paging with the plain prefix scan enumerates every live key exactly once:
    the pages at offsets 0, lim, 2*lim, ... concatenate to the live keys with
    the prefix *)
Lemma prefix_pages_complete : forall now ix p lim n, ksorted ix -> (0 < lim)%Z ->
  let L := filter (fun kr => has_prefix (fst kr) p && live_rec now kr) ix in
  (Z.of_nat n * lim >= zlen L)%Z ->
  concat (map (fun i => fst (kv_prefix_scan now (fun _ => true) ix p (Z.of_nat i * lim)%Z lim)) (seq 0 n)) = L.
Proof.
  intros now ix p lim n Hs Hl L Hn.
  rewrite (map_ext _ (fun i => firstn (Z.to_nat lim) (skipn (i * Z.to_nat lim) L))).
  - rewrite concat_pages. apply firstn_all2. unfold zlen in Hn. nia.
  - intros i. pose proof (kv_prefix_scan_spec now (fun _ : bytes => true) ix p (Z.of_nat i * lim)%Z lim Hs) as H.
    cbv zeta in H. rewrite H. clear H. fold L. cbn [fst].
    replace (0 <? lim)%Z with true by lia.
    rewrite filter_all by (apply Forall_forall; intros; reflexivity).
    replace (Z.to_nat (Z.min (Z.max (Z.of_nat i * lim) 0) (zlen L)))
      with (Nat.min (i * Z.to_nat lim) (length L)) by (unfold zlen; nia).
    rewrite skipn_min_length. reflexivity.
Qed.

(** ---- abstraction to the specification's map ---- *)
Definition abs_rec (kr : bytes * krec) : bytes * kvval :=
  (fst kr, mkV (kr_val (snd kr)) (kr_ts (snd kr)) (kr_ttl (snd kr))).
Definition is_put (kr : bytes * krec) : bool := negb (kr_flag (snd kr) =? F_Del).
Definition abs_kv (ix : kvidx) : skv := map abs_rec (filter is_put ix).

(** records as Tx.put creates them for key/value writes; the uint64 addition
    of IsExpired does not wrap *)
Definition kv_ok (ix : kvidx) : Prop :=
  forall k r, In (k, r) ix -> (kr_flag r = F_Del \/ kr_flag r = F_Set) /\ kr_ts r + kr_ttl r < 2 ^ 64.

Lemma kv_ok_tail : forall x ix, kv_ok (x :: ix) -> kv_ok ix.
Proof. intros x ix H k r Hin. apply (H k r). right. exact Hin. Qed.

Lemma expired_live : forall now ttl ts, ts + ttl < 2 ^ 64 ->
  is_expired now ttl ts = negb ((ttl =? 0) || (now <? ts + ttl)).
Proof.
  intros now ttl ts H. unfold is_expired.
  rewrite (N.mod_small (ttl + ts) (2 ^ 64)) by lia.
  replace (ttl + ts) with (ts + ttl) by lia.
  destruct (ttl =? 0) eqn:E1; destruct (0 <? ttl) eqn:E2; destruct (now <? ts + ttl) eqn:E3;
    cbn [andb orb negb]; try reflexivity; lia.
Qed.

Lemma abs_kv_cons : forall k r t,
  abs_kv ((k, r) :: t) =
  if kr_flag r =? F_Del then abs_kv t
  else (k, mkV (kr_val r) (kr_ts r) (kr_ttl r)) :: abs_kv t.
Proof.
  intros k r t. unfold abs_kv. cbn [filter]. unfold is_put at 1. cbn [snd].
  destruct (kr_flag r =? F_Del); cbn [negb]; reflexivity.
Qed.

Lemma kr_dead_unfold : forall now r,
  kr_dead now r = (kr_flag r =? F_Del) || is_expired now (kr_ttl r) (kr_ts r).
Proof. intros. reflexivity. Qed.

Lemma live_abs : forall now ix, kv_ok ix ->
  skv_live now (abs_kv ix) = pairs_of (filter (live_rec now) ix).
Proof.
  intros now. induction ix as [|[k r] t IH]; intros Hok; [reflexivity|].
  specialize (IH (kv_ok_tail _ _ Hok)).
  destruct (Hok k r (or_introl eq_refl)) as [_ Hw].
  rewrite abs_kv_cons. cbn [filter]. unfold live_rec at 1. cbn [snd].
  rewrite kr_dead_unfold. destruct (kr_flag r =? F_Del) eqn:Ef; cbn [orb negb].
  - exact IH.
  - rewrite (expired_live now (kr_ttl r) (kr_ts r) Hw). rewrite negb_involutive.
    unfold skv_live in *. cbn [filter snd]. unfold v_live at 1. cbn [v_ttl v_ts].
    destruct ((kr_ttl r =? 0) || (now <? kr_ts r + kr_ttl r)).
    + cbn [map pairs_of fst snd v_val]. unfold pairs_of in *. cbn [map fst snd].
      rewrite IH. reflexivity.
    + exact IH.
Qed.

Lemma abs_forall : forall (P : bytes -> Prop) t, Forall (fun kr => P (fst kr)) t ->
  Forall (fun kv => P (fst kv)) (abs_kv t).
Proof.
  intros P t H. induction H as [|[k r] l Hx Hl IH]; [constructor|].
  rewrite abs_kv_cons. destruct (kr_flag r =? F_Del); [exact IH|].
  constructor; [exact Hx|exact IH].
Qed.

Lemma skv_put_lt : forall m k v, Forall (fun kv => bltb k (fst kv) = true) m ->
  skv_put m k v = (k, v) :: m.
Proof.
  intros m k v H. destruct m as [|[k' v'] m]; [reflexivity|].
  inversion H as [|x l Hk Hm]; subst. cbn [fst] in Hk. apply bltb_lt in Hk.
  cbn [skv_put]. rewrite Hk. reflexivity.
Qed.

Lemma skv_del_notin : forall m k, Forall (fun kv => bltb k (fst kv) = true) m ->
  skv_del m k = m.
Proof.
  intros m k H. induction H as [|[k' v'] l Hk Hl IH]; [reflexivity|].
  cbn [fst] in Hk. apply bltb_neq in Hk. cbn [skv_del].
  rewrite (bytes_eqb_neq k' k) by congruence. rewrite IH. reflexivity.
Qed.

Lemma skv_get_notin : forall m k, Forall (fun kv => bltb k (fst kv) = true) m ->
  skv_get m k = None.
Proof.
  intros m k H. induction H as [|[k' v'] l Hk Hl IH]; [reflexivity|].
  cbn [fst] in Hk. apply bltb_neq in Hk. cbn [skv_get].
  rewrite (bytes_eqb_neq k' k) by congruence. exact IH.
Qed.

Lemma abs_insert_put : forall ix k r, ksorted ix -> kr_flag r = F_Set ->
  abs_kv (kv_insert ix k r) = skv_put (abs_kv ix) k (mkV (kr_val r) (kr_ts r) (kr_ttl r)).
Proof.
  induction ix as [|[k' r'] t IH]; intros k r Hs Hf.
  - cbn [kv_insert]. rewrite abs_kv_cons, Hf. reflexivity.
  - apply ksorted_inv in Hs as [Hst Hlt]. cbn [kv_insert].
    destruct (bcompare k k') eqn:E.
    + pose proof E as E'. apply bcompare_eq in E'. subst k'.
      rewrite !abs_kv_cons, Hf. cbn [N.eqb F_Set F_Del].
      change (1 =? 0) with false. cbv iota.
      destruct (kr_flag r' =? F_Del).
      * symmetry. apply skv_put_lt. apply (abs_forall (fun x => bltb k x = true)). exact Hlt.
      * cbn [skv_put]. rewrite E. reflexivity.
    + rewrite (abs_kv_cons k r), Hf. change (F_Set =? F_Del) with false. cbv iota.
      symmetry. apply skv_put_lt. apply (abs_forall (fun x => bltb k x = true)).
      apply bltb_lt in E. constructor; [exact E|]. apply (Forall_lt_trans k k'); assumption.
    + rewrite !(abs_kv_cons k' r'). destruct (kr_flag r' =? F_Del).
      * apply IH; assumption.
      * cbn [skv_put]. rewrite E. rewrite (IH k r Hst Hf). reflexivity.
Qed.

Lemma abs_insert_del : forall ix k r, ksorted ix -> kr_flag r = F_Del ->
  abs_kv (kv_insert ix k r) = skv_del (abs_kv ix) k.
Proof.
  induction ix as [|[k' r'] t IH]; intros k r Hs Hf.
  - cbn [kv_insert]. rewrite abs_kv_cons, Hf. reflexivity.
  - apply ksorted_inv in Hs as [Hst Hlt]. cbn [kv_insert].
    destruct (bcompare k k') eqn:E.
    + apply bcompare_eq in E. subst k'.
      rewrite !abs_kv_cons, Hf. change (F_Del =? F_Del) with true. cbv iota.
      assert (Hno : skv_del (abs_kv t) k = abs_kv t).
      { apply skv_del_notin. apply (abs_forall (fun x => bltb k x = true)). exact Hlt. }
      destruct (kr_flag r' =? F_Del).
      * symmetry. exact Hno.
      * cbn [skv_del]. rewrite bytes_eqb_refl. reflexivity.
    + rewrite (abs_kv_cons k r), Hf. change (F_Del =? F_Del) with true. cbv iota.
      symmetry. apply skv_del_notin. apply (abs_forall (fun x => bltb k x = true)).
      apply bltb_lt in E. constructor; [exact E|]. apply (Forall_lt_trans k k'); assumption.
    + rewrite !(abs_kv_cons k' r'). destruct (kr_flag r' =? F_Del).
      * apply IH; assumption.
      * cbn [skv_del]. apply bltb_gt in E. apply bltb_neq in E.
        rewrite (bytes_eqb_neq k' k E). rewrite (IH k r Hst Hf). reflexivity.
Qed.

Lemma abs_get : forall now ix k, ksorted ix -> kv_ok ix ->
  match kv_find ix k with
  | Some r => if kr_dead now r then
                match skv_get (abs_kv ix) k with Some v => v_live now v = false | None => True end
              else skv_get (abs_kv ix) k = Some (mkV (kr_val r) (kr_ts r) (kr_ttl r)) /\
                   v_live now (mkV (kr_val r) (kr_ts r) (kr_ttl r)) = true
  | None => skv_get (abs_kv ix) k = None
  end.
Proof.
  intros now. induction ix as [|[k' r'] t IH]; intros k Hs Hok; [reflexivity|].
  apply ksorted_inv in Hs as [Hst Hlt].
  specialize (IH k Hst (kv_ok_tail _ _ Hok)).
  destruct (Hok k' r' (or_introl eq_refl)) as [_ Hw].
  cbn [kv_find]. rewrite abs_kv_cons. destruct (bytes_eqb k' k) eqn:E.
  - apply bytes_eqb_eq in E. subst k'. rewrite kr_dead_unfold.
    destruct (kr_flag r' =? F_Del) eqn:Ef; cbn [orb].
    + rewrite skv_get_notin; [exact I|].
      apply (abs_forall (fun x => bltb k x = true)). exact Hlt.
    + cbn [skv_get]. rewrite bytes_eqb_refl.
      rewrite (expired_live now (kr_ttl r') (kr_ts r') Hw).
      unfold v_live. cbn [v_ttl v_ts].
      destruct ((kr_ttl r' =? 0) || (now <? kr_ts r' + kr_ttl r')); cbn [negb].
      * split; reflexivity.
      * reflexivity.
  - destruct (kr_flag r' =? F_Del); [exact IH|].
    cbn [skv_get]. rewrite E. exact IH.
Qed.

(** the four scans of the RAM index modes return exactly what the
    specification returns on the abstracted map (HintKeyValAndRAMIdxMode
    serves pairs_of; C19 shows the other mode reads the same bytes back) *)
Lemma getall_refines : forall now ix, ksorted ix -> kv_ok ix ->
  pairs_of (wrap_items now (-1) ix 0) = skv_live now (abs_kv ix).
Proof.
  intros now ix Hs Hok. rewrite wrap_items_all. symmetry. apply live_abs. exact Hok.
Qed.

Lemma range_refines : forall now ix st en, ksorted ix -> kv_ok ix ->
  pairs_of (wrap_items now (-1) (kv_range ix st en) 0) =
  filter (fun kv => bleb st (fst kv) && bleb (fst kv) en) (skv_live now (abs_kv ix)).
Proof.
  intros now ix st en Hs Hok.
  rewrite wrap_items_all, (kv_range_spec ix st en Hs), (live_abs now ix Hok).
  unfold pairs_of. rewrite filter_map_comm. cbn [fst]. f_equal.
  rewrite !filter_filter. apply filter_ext. intros a. apply andb_comm.
Qed.

Lemma prefix_scan_refines : forall now pm ix p off lim, ksorted ix -> kv_ok ix ->
  let '(rs, coff) := kv_prefix_scan now pm ix p off lim in
  let l := filter (fun kv => has_prefix (fst kv) p) (skv_live now (abs_kv ix)) in
  let c := zmin (Z.max off 0) (zlen l) in
  let rest := filter (fun kv => pm (skipn (length p) (fst kv))) (skipn (Z.to_nat c) l) in
  coff = c /\
  pairs_of (wrap_items now lim rs 0) =
    if (0 <? lim)%Z then firstn (Z.to_nat lim) rest else if (lim =? -1)%Z then rest else [].
Proof.
  intros now pm ix p off lim Hs Hok.
  pose proof (kv_prefix_scan_spec now pm ix p off lim Hs) as H. cbv zeta in H.
  rewrite H. clear H. cbv zeta.
  set (L := filter (fun kr => has_prefix (fst kr) p && live_rec now kr) ix).
  assert (HL : filter (fun kv : bytes * bytes => has_prefix (fst kv) p) (skv_live now (abs_kv ix))
               = pairs_of L).
  { rewrite (live_abs now ix Hok). unfold pairs_of. rewrite filter_map_comm. cbn [fst].
    rewrite filter_filter. reflexivity. }
  rewrite HL. clear HL.
  assert (Hlen : zlen (pairs_of L) = zlen L).
  { unfold zlen, pairs_of. rewrite map_length. reflexivity. }
  rewrite Hlen. clear Hlen. unfold zmin.
  set (c := Z.min (Z.max off 0) (zlen L)).
  split; [reflexivity|].
  set (R := filter (fun kr : list byte * krec => pm (skipn (length p) (fst kr))) (skipn (Z.to_nat c) L)).
  assert (HR : filter (fun kv : list byte * bytes => pm (skipn (length p) (fst kv)))
                 (skipn (Z.to_nat c) (pairs_of L)) = pairs_of R).
  { unfold pairs_of. rewrite skipn_map, filter_map_comm. reflexivity. }
  rewrite !HR. clear HR.
  assert (Hlive : Forall (fun kr => live_rec now kr = true) R).
  { apply Forall_forall. intros x Hx. unfold R in Hx.
    apply filter_In in Hx as [Hx _]. apply in_skipn in Hx. unfold L in Hx.
    apply filter_In in Hx as [_ Hx]. apply andb_true_iff in Hx as [_ Hx]. exact Hx. }
  rewrite wrap_items_spec. destruct (0 <? lim)%Z eqn:E1.
  - rewrite filter_all.
    + rewrite firstn_firstn, Nat.min_id. unfold pairs_of. rewrite firstn_map. reflexivity.
    + apply Forall_forall. intros x Hx. apply in_firstn in Hx.
      rewrite Forall_forall in Hlive. apply Hlive. exact Hx.
  - destruct (lim =? -1)%Z eqn:E2; [|reflexivity].
    rewrite filter_all by exact Hlive. reflexivity.
Qed.
