(** ScanFacts.v — Open's segment scan never hits the fatal error, recovers
    exactly the records that were appended, and stops cleanly at a torn tail. *)
From Verif Require Import Bytes BytesFacts Crc32 CrcFacts Codec CodecFacts Scan.
From Coq Require Import ZifyN ZifyNat ZifyBool.
Open Scope N_scope.

(** ---- helpers about [read_at] ---- *)
Lemma read_at_oob m c off n : read_at m c off n = RdOOB -> m = MMap /\ blen c < off.
Proof.
  unfold read_at. destruct m.
  - destruct (n =? 0); [discriminate|]. destruct (off + n <=? blen c); discriminate.
  - destruct (blen c <? off) eqn:E.
    + intros _. split; [reflexivity|lia].
    + destruct (off + n <=? blen c); discriminate.
Qed.

Lemma blen_slice c off n : off + n <= blen c -> blen (slice c (N.to_nat off) (N.to_nat n)) = n.
Proof.
  intros H. unfold blen in *. unfold slice. rewrite firstn_length, skipn_length. lia.
Qed.

Lemma read_at_ok m c off n b :
  read_at m c off n = RdOk b -> blen b = n /\ (n = 0 \/ off + n <= blen c).
Proof.
  unfold read_at. destruct m.
  - destruct (n =? 0) eqn:E0.
    + intros H. inversion H. subst b. split; [cbn; lia|left; lia].
    + destruct (off + n <=? blen c) eqn:E1; [|discriminate].
      intros H. inversion H. split; [apply blen_slice; lia|right; lia].
  - destruct (blen c <? off) eqn:E; [discriminate|].
    destruct (off + n <=? blen c) eqn:E1; [|discriminate].
    intros H. inversion H. split; [apply blen_slice; lia|right; lia].
Qed.

Lemma read_at_ok_mmap_bound m c off n b :
  read_at m c off n = RdOk b -> off <= blen c -> m = FileIO \/ off + n <= blen c.
Proof.
  unfold read_at. destruct m; [left; reflexivity|].
  destruct (blen c <? off) eqn:E; [discriminate|].
  destruct (off + n <=? blen c) eqn:E1; [|discriminate]. intros _ _. right. lia.
Qed.

(** the header read succeeded, so every later read of the same record starts
    inside the file: the "offset out of mapped region" error cannot occur *)
Lemma decode_never_oob : forall m c off, off <= blen c -> decode_at m c off <> DecErr EOOB.
Proof.
  intros m c off Hoff. unfold decode_at.
  destruct (read_at m c off hdr_size) as [h| |] eqn:R0.
  2:{ cbn. discriminate. }
  2:{ apply read_at_oob in R0. lia. }
  cbv zeta.
  destruct (_ && _ && _ && _); [discriminate|].
  assert (B0 : m = FileIO \/ off + hdr_size <= blen c) by (eapply read_at_ok_mmap_bound; eassumption).
  destruct (read_at m c (off + hdr_size) (fld h 26 4)) as [b| |] eqn:R1.
  2:{ cbn. discriminate. }
  2:{ apply read_at_oob in R1. destruct R1 as [-> R1]. destruct B0 as [B0|B0]; [discriminate|lia]. }
  assert (B1 : m = FileIO \/ off + hdr_size + fld h 26 4 <= blen c).
  { destruct B0 as [B0|B0]; [left; exact B0|]. eapply read_at_ok_mmap_bound; eassumption. }
  destruct (read_at m c (off + hdr_size + fld h 26 4) (fld h 12 4)) as [k| |] eqn:R2.
  2:{ cbn. discriminate. }
  2:{ apply read_at_oob in R2. destruct R2 as [-> R2]. destruct B1 as [B1|B1]; [discriminate|lia]. }
  assert (B2 : m = FileIO \/ off + hdr_size + fld h 26 4 + fld h 12 4 <= blen c).
  { destruct B1 as [B1|B1]; [left; exact B1|]. eapply read_at_ok_mmap_bound; eassumption. }
  destruct (read_at m c (off + hdr_size + fld h 26 4 + fld h 12 4) (fld h 16 4)) as [v| |] eqn:R3.
  2:{ cbn. discriminate. }
  2:{ apply read_at_oob in R3. destruct R3 as [-> R3]. destruct B2 as [B2|B2]; [discriminate|lia]. }
  destruct (_ =? _); discriminate.
Qed.

(** a decoded record lies inside the file *)
Lemma decode_ok_inside : forall m c off e crc, decode_at m c off = DecOk e crc -> off + entry_size e <= blen c.
Proof.
  intros m c off e crc. unfold decode_at.
  destruct (read_at m c off hdr_size) as [h| |] eqn:R0; [|discriminate|discriminate].
  cbv zeta.
  destruct (_ && _ && _ && _); [discriminate|].
  destruct (read_at m c (off + hdr_size) (fld h 26 4)) as [b| |] eqn:R1; [|discriminate|discriminate].
  destruct (read_at m c (off + hdr_size + fld h 26 4) (fld h 12 4)) as [k| |] eqn:R2; [|discriminate|discriminate].
  destruct (read_at m c (off + hdr_size + fld h 26 4 + fld h 12 4) (fld h 16 4)) as [v| |] eqn:R3; [|discriminate|discriminate].
  destruct (_ =? _); [|discriminate].
  intros H. inversion H. subst e. clear H.
  unfold entry_size. cbn [e_key e_value e_bucket].
  apply read_at_ok in R0, R1, R2, R3.
  unfold hdr_size in *.
  destruct R0 as [_ R0], R1 as [L1 R1], R2 as [L2 R2], R3 as [L3 R3].
  rewrite L1, L2, L3. lia.
Qed.

(** generalisation of C09 over fuel and offset (invariant: off <= blen c) *)
Lemma scan_from_never_fails m seg c : forall fuel off, off <= blen c -> snd (scan_from fuel m seg c off) = ScanStop.
Proof.
  induction fuel as [|f IH]; intros off Hoff; [reflexivity|].
  cbn [scan_from].
  destruct (decode_at m c off) as [e crc| |k] eqn:D.
  - apply decode_ok_inside in D. specialize (IH (off + entry_size e) D).
    destruct (scan_from f m seg c (off + entry_size e)) as [rs en]. cbn in *. exact IH.
  - reflexivity.
  - destruct k; try reflexivity. exfalso. revert D. apply decode_never_oob. exact Hoff.
Qed.

(** C09: whatever bytes a data file contains, the scan ends without the fatal error *)
Theorem scan_never_fails : forall m seg c, snd (scan_segment m seg c) = ScanStop.
Proof. intros m seg c. unfold scan_segment. apply scan_from_never_fails. lia. Qed.

(** ---- helpers for the recovery theorems ---- *)
Definition goodE (e : entry) := wf_entry e /\ is_zero_entry e = false.

(** the scan of [pre ++ records ++ tail] started at [blen pre] with any fuel
    larger than the number of records returns exactly the records, provided
    nothing decodes at the end of the records *)
Lemma scan_from_records m seg tail : forall es pre f,
  Forall goodE es -> (length es < f)%nat ->
  (forall e crc, decode_at m (pre ++ concat (map encode_entry es) ++ tail)
                   (blen pre + blen (concat (map encode_entry es))) <> DecOk e crc) ->
  scan_from f m seg (pre ++ concat (map encode_entry es) ++ tail) (blen pre) =
    (with_offsets (blen pre) es, ScanStop).
Proof.
  induction es as [|e es IH]; intros pre f HF Hf Hend.
  - destruct f as [|f]; [cbn in Hf; lia|].
    cbn [scan_from map concat with_offsets app] in *.
    replace (blen pre + blen []) with (blen pre) in Hend by (cbn; lia).
    destruct (decode_at m (pre ++ tail) (blen pre)) as [e crc| |k] eqn:D.
    + exfalso. exact (Hend e crc eq_refl).
    + reflexivity.
    + destruct k; try reflexivity. exfalso. revert D. apply decode_never_oob. rewrite blen_app. lia.
  - destruct f as [|f]; [cbn in Hf; lia|].
    inversion HF as [|e0 es0 [W Z] HF']. subst e0 es0.
    cbn [scan_from map concat with_offsets].
    rewrite <- !app_assoc.
    rewrite entry_roundtrip by assumption.
    specialize (IH (pre ++ encode_entry e) f HF').
    rewrite blen_app, length_encode_entry in IH.
    rewrite <- !app_assoc in IH.
    rewrite IH; [reflexivity|cbn in Hf; lia|].
    intros e' crc'. specialize (Hend e' crc').
    cbn [map concat] in Hend. rewrite <- !app_assoc in Hend.
    rewrite blen_app, length_encode_entry in Hend.
    replace (blen pre + entry_size e + blen (concat (map encode_entry es)))
      with (blen pre + (entry_size e + blen (concat (map encode_entry es)))) by lia.
    exact Hend.
Qed.

Lemma entry_size_ge e : 42 <= entry_size e.
Proof. unfold entry_size, hdr_size. lia. Qed.

Lemma length_concat_ge es : (42 * length es <= length (concat (map encode_entry es)))%nat.
Proof.
  induction es as [|e es IH]; [cbn; lia|].
  cbn [map concat length]. rewrite app_length.
  pose proof (length_encode_entry e) as L. pose proof (entry_size_ge e) as G.
  unfold blen in L. lia.
Qed.

(** the fuel [S (length c / 42)] of [scan_segment] is enough: every record takes at least 42 bytes *)
Lemma fuel_enough es tail : (length es < S (length (concat (map encode_entry es) ++ tail) / 42))%nat.
Proof.
  apply Nat.lt_succ_r. apply Nat.div_le_lower_bound; [lia|].
  rewrite app_length. pose proof (length_concat_ge es). lia.
Qed.

Lemma zeros_app a b : zeros (a + b) = zeros a ++ zeros b.
Proof. unfold zeros. apply repeat_app. Qed.

Lemma blen_zeros n : blen (zeros n) = N.of_nat n.
Proof. unfold blen, zeros. rewrite repeat_length. reflexivity. Qed.

Lemma decode_zeros_not_ok m pre pad e crc : decode_at m (pre ++ zeros pad) (blen pre) <> DecOk e crc.
Proof.
  intros D.
  destruct (Nat.ltb pad 42) eqn:E.
  - apply Nat.ltb_lt in E. apply decode_ok_inside in D.
    rewrite blen_app, blen_zeros in D. pose proof (entry_size_ge e). lia.
  - apply Nat.ltb_ge in E. revert D.
    replace pad with (42 + (pad - 42))%nat by lia.
    rewrite zeros_app. unfold decode_at.
    assert (R : read_at m (pre ++ zeros 42 ++ zeros (pad - 42)) (blen pre) hdr_size = RdOk (zeros 42)).
    { change hdr_size with (blen (zeros 42)). apply read_at_fileio_mid. reflexivity. }
    rewrite R. cbv zeta.
    change ((fld (zeros 42) 0 4 =? 0) && (fld (zeros 42) 12 4 =? 0) && (fld (zeros 42) 16 4 =? 0) && (fld (zeros 42) 4 8 =? 0)) with true.
    cbv iota. discriminate.
Qed.

(** records appended back to back and followed by zeros (the rest of the
    pre-allocated segment) are recovered exactly, with their offsets, in both
    RW modes, including a segment filled to its last byte (pad = 0) *)
Theorem scan_recovers_records : forall m seg es pad,
  Forall (fun e => wf_entry e /\ is_zero_entry e = false) es ->
  scan_segment m seg (seg_bytes es pad) = (with_offsets 0 es, ScanStop).
Proof.
  intros m seg es pad HF. unfold seg_bytes, scan_segment.
  apply (scan_from_records m seg (zeros pad) es [] _ HF (fuel_enough es (zeros pad))).
  intros e crc. cbn [app].
  replace (blen [] + blen (concat (map encode_entry es))) with (blen (concat (map encode_entry es))) by (cbn; lia).
  apply decode_zeros_not_ok.
Qed.

(** a torn tail: after the complete records comes anything that does not decode
    to a record (a partial write over zeros: CRC mismatch, short read, or zero
    header); the scan returns exactly the complete records *)
Theorem scan_stops_at_torn_tail : forall m seg es tail,
  Forall (fun e => wf_entry e /\ is_zero_entry e = false) es ->
  (forall e crc, decode_at m (concat (map encode_entry es) ++ tail) (blen (concat (map encode_entry es))) <> DecOk e crc) ->
  scan_segment m seg (concat (map encode_entry es) ++ tail) = (with_offsets 0 es, ScanStop).
Proof.
  intros m seg es tail HF Hend. unfold scan_segment.
  apply (scan_from_records m seg tail es [] _ HF (fuel_enough es tail)).
  cbn [app]. replace (blen [] + blen (concat (map encode_entry es))) with (blen (concat (map encode_entry es))) by (cbn; lia).
  exact Hend.
Qed.

(** the write offset Open computes is the end of the last complete record *)
Lemma with_offsets_end : forall es off,
  fold_left (fun a (pe : N * entry) => a + entry_size (snd pe)) (with_offsets off es) off = off + blen (concat (map encode_entry es)).
Proof.
  induction es as [|e es IH]; intros off.
  - cbn. lia.
  - cbn [with_offsets fold_left map concat snd]. rewrite IH, blen_app, length_encode_entry. lia.
Qed.

(** a record cut short by a crash while the file ends at the cut (FileIO) is not decoded *)
Lemma torn_at_eof_not_decoded : forall pre e n e' crc,
  wf_entry e -> (n < length (encode_entry e))%nat ->
  decode_at FileIO (pre ++ firstn n (encode_entry e)) (blen pre) <> DecOk e' crc.
Proof.
  intros pre e n e' crc W Hn.
  destruct (entry_truncation_fileio pre e n W Hn) as [H|H]; rewrite H; discriminate.
Qed.
