(** ZSetDS.v — model of ds/zset/sortedset.go at the level of the node chain:
    the level-0 list of the skiplist, strictly sorted by (score, key), plus
    the Dict (key -> node), which is the same set of nodes.  Towers, spans and
    backward pointers are not modelled (unobservable; covered by the
    correspondence only).  Scores are the integer-valued float64s the harness
    uses, represented as Z (order and equality coincide; trusted base). *)
From Verif Require Export Bytes ListDS.
Open Scope Z_scope.

Record znode := mkZ { z_key : bytes; z_score : Z; z_val : bytes }.
Definition zset := list znode.

(** (score, key) strictly less *)
Definition zlt (s1 : Z) (k1 : bytes) (s2 : Z) (k2 : bytes) : bool :=
  (s1 <? s2) || ((s1 =? s2) && bltb k1 k2).

Fixpoint z_find (z : zset) (k : bytes) : option znode :=
  match z with
  | [] => None
  | n :: r => if bytes_eqb (z_key n) k then Some n else z_find r k
  end.

Fixpoint z_delete (z : zset) (k : bytes) : zset :=
  match z with
  | [] => []
  | n :: r => if bytes_eqb (z_key n) k then r else n :: z_delete r k
  end.

(** insertNode: after every node strictly below (score,key) *)
Fixpoint z_insert (z : zset) (n : znode) : zset :=
  match z with
  | [] => [n]
  | m :: r => if zlt (z_score m) (z_key m) (z_score n) (z_key n) then m :: z_insert r n else n :: z
  end.

Fixpoint z_setval (z : zset) (k v : bytes) : zset :=
  match z with
  | [] => []
  | n :: r => if bytes_eqb (z_key n) k then mkZ (z_key n) (z_score n) v :: r else n :: z_setval r k v
  end.

(** SortedSet.Put *)
Definition z_put (z : zset) (k : bytes) (s : Z) (v : bytes) : zset :=
  match z_find z k with
  | Some n => if z_score n =? s then z_setval z k v
              else z_insert (z_delete z k) (mkZ k s v)
  | None => z_insert z (mkZ k s v)
  end.

Definition z_remove (z : zset) (k : bytes) : zset := z_delete z k.

Definition z_peekmin (z : zset) : option znode := match z with n :: _ => Some n | [] => None end.
Definition z_peekmax (z : zset) : option znode := match rev z with n :: _ => Some n | [] => None end.
Definition z_popmin (z : zset) : zset := match z with _ :: r => r | [] => [] end.
Definition z_popmax (z : zset) : zset := match rev z with _ :: r => rev r | [] => [] end.

(** sanitizeIndexes *)
Definition z_sanitize (len st en : Z) : Z * Z :=
  let st := if st <? 0 then len + st + 1 else st in
  let en := if en <? 0 then len + en + 1 else en in
  let st := if st <=? 0 then 1 else st in
  let en := if en <=? 0 then 1 else en in
  (st, en).

(** GetByRankRange(start, end, remove): (returned nodes, remaining set) *)
Definition z_rankrange (z : zset) (st en : Z) : list znode * zset :=
  let '(s, e) := z_sanitize (zlen z) st en in
  let rv := e <? s in
  let '(s, e) := if rv then (e, s) else (s, e) in
  (* ranks s..e (1-based) that exist; clamped to the length before converting
     to nat (ranks beyond the length select nothing) *)
  let s := Z.min s (zlen z + 1) in
  let e := Z.min e (zlen z) in
  let before := firstn (Z.to_nat (s - 1)) z in
  let rest := skipn (Z.to_nat (s - 1)) z in
  let taken := firstn (Z.to_nat (e - s + 1)) rest in
  let after := skipn (Z.to_nat (e - s + 1)) rest in
  ((if rv then rev taken else taken), before ++ after).

Fixpoint take_limit {A} (lim : Z) (l : list A) : list A :=
  match l with
  | [] => []
  | x :: r => if lim <=? 0 then [] else x :: take_limit (lim - 1) r
  end.

(** GetByScoreRange(start, end, {limit, exclStart, exclEnd}) *)
Definition z_scorerange (z : zset) (st en : Z) (lim : Z) (exs exe : bool) : list znode :=
  let limit := if 0 <? lim then lim else 2147483647 in
  let rv := en <? st in
  let '(lo, hi, exlo, exhi) := if rv then (en, st, exe, exs) else (st, en, exs, exe) in
  let inlo n := if exlo then lo <? z_score n else lo <=? z_score n in
  let inhi n := if exhi then z_score n <? hi else z_score n <=? hi in
  if rv then
    (* searchReverse: from the last node with score <(=) hi, backwards while score >(=) lo *)
    let upto := filter inhi z in
    let fix tw (l : list znode) := match l with [] => [] | n :: r => if inlo n then n :: tw r else [] end in
    take_limit limit (tw (rev upto))
  else
    let from := (fix dw (l : list znode) := match l with [] => [] | n :: r => if inlo n then l else dw r end) z in
    let fix tw (l : list znode) := match l with [] => [] | n :: r => if inhi n then n :: tw r else [] end in
    take_limit limit (tw from).

(** FindRank (after fix 904e486): 1-based position, 0 when absent *)
Fixpoint z_index (z : zset) (k : bytes) (i : Z) : Z :=
  match z with
  | [] => 0
  | n :: r => if bytes_eqb (z_key n) k then i else z_index r k (i + 1)
  end.
Definition z_rank (z : zset) (k : bytes) : Z := z_index z k 1.
Definition z_revrank (z : zset) (k : bytes) : Z :=
  match z_find z k with
  | Some _ => zlen z - z_rank z k + 1
  | None => 0
  end.
