(** HistoryRefine.v — the whole API, whole histories: engine model and L0
    specification run side by side on ANY list of calls (transactions with any
    mix of key/value, list, set and sorted-set calls, read-only transactions,
    rollbacks, failed commits, calls outside transactions, Close / Open with
    any options).  For every history in which no call of a write transaction
    reads, pops or validates a structure (or reads a key/value bucket) that an
    earlier call of the SAME transaction modified (the executable guard
    [hist_guard_corrected]; its negation is known finding F21), EVERY call
    returns exactly the specification's result ([history_refines]), and after
    every prefix the whole state coincides ([history_state_refines],
    [history_state_refines_prefix]).

    The guard as first written ([hist_guard]) is too weak in two places
    ([history_refines_as_stated_is_false], [spop_correction_needed]);
    [hist_guard_corrected] strengthens it ([hist_guard_corrected_stronger]):
      - Commit keeps the guard's state, because a Commit can fail and then
        leaves the transaction open with its pending writes;
      - an SPop oracle [Some c] is accepted only inside a write transaction.
    What is lost are only calls made outside any transaction (after a
    successful Commit; SPop with an oracle when no transaction is open), which
    fail on both sides anyway.

    Layout: part 1 key/value reads; part 2 read-only transactions; part 3 the
    joint invariant [J] (KVHistory.joint + MergeFacts.WInv + dsrel and the two
    key invariants between transactions + DSHistory.hinv / [kvpend] inside a
    write transaction); part 4 the one-step lemma [step_both_res_inv]; part 5
    the induction; part 6 the counterexamples. *)
From Coq Require Import Sorted Lia.
From Verif Require Import Bytes BytesFacts Codec Dec DecFacts ListDS ListFacts SetDS SetFacts ZSetDS Index Engine Spec
  TxFacts IndexFacts ReplayFacts KVRefine ApplyFacts Merge MergeFacts KVHistory DSHistory.
Open Scope N_scope.

(** results of both sides, call by call (the specification's Commit takes the
    engine's verdict as its oracle: a Commit can fail for reasons the
    specification does not model — an entry larger than a segment) *)
Fixpoint run_both_res (w : world) (sw : sworld) (cs : list tcall) : list (res * res) :=
  match cs with
  | [] => []
  | (now, c) :: r =>
      let '(w', res) := step now w c in
      let '(sw', sres) := spec_step now (res_ok res) sw c in
      (res, sres) :: run_both_res w' sw' r
  end.

(** structures a call touches, key/value buckets included *)
Definition kv_bucket_of (o : op) : list (N * bytes) :=
  match o with
  | OPut b _ _ _ _ | ODelete b _ => [(DS_KV, b)]
  | OGet b _ | OGetAll b | ORangeScan b _ _ | OPrefixScan b _ _ _ | OPrefixSearchScan b _ _ _ _ _ => [(DS_KV, b)]
  | _ => []
  end.

Definition op_structs_all (o : op) : list (N * bytes) := op_structs o ++ kv_bucket_of o.

Definition is_blind_all (o : op) : bool :=
  is_blind o || match o with OPut _ _ _ _ _ | ODelete _ _ => true | _ => false end.

Definition writes_all (o : op) : bool :=
  is_ds_write o || match o with OPut _ _ _ _ _ | ODelete _ _ => true | _ => false end.

(** the guard over a whole history as first written: [active] = inside a write
    transaction, [wrote] = what it has written so far.  Too weak (part 6);
    superseded by [hist_guard_corrected] below. *)
Fixpoint hist_guard (active : bool) (wrote : list (N * bytes)) (cs : list tcall) : bool :=
  match cs with
  | [] => true
  | (_, CBegin wr _) :: r => hist_guard wr [] r
  | (_, COp o) :: r =>
      (negb active || is_blind_all o || negb (existsb (fun x => sb_mem x wrote) (op_structs_all o))) &&
      hist_guard active (if active && writes_all o then op_structs_all o ++ wrote else wrote) r
  | (_, CCommit) :: r | (_, CRollback) :: r => hist_guard false [] r
  | _ :: r => hist_guard active wrote r
  end.

(** ================= the guard, corrected =================
    [hist_guard] as first written is too weak in two places (counterexamples
    [cx_failed_commit] and [cx_spop_readonly] at the end of the file):
    - a Commit can FAIL (an entry larger than a segment); the transaction then
      stays open on both sides with its pending writes, so the guard must keep
      [active] and [wrote] across a Commit;
    - SPop with an oracle [Some c] that is not a member answers RInadmissible
      in the engine before it notices that the transaction is read-only, where
      the specification answers RErr: an SPop oracle [Some _] is only
      meaningful inside a write transaction (in a read-only transaction the
      implementation reports an error, which the oracle [None] stands for). *)
Definition is_spop_some (o : op) : bool :=
  match o with OSPop _ _ (Some _) => true | _ => false end.

Definition guard_call (active : bool) (wrote : list (N * bytes)) (o : op) : bool :=
  (negb active || is_blind_all o || negb (existsb (fun x => sb_mem x wrote) (op_structs_all o))) &&
  (active || negb (is_spop_some o)).

Definition wrote_next (active : bool) (wrote : list (N * bytes)) (o : op) : list (N * bytes) :=
  if active && writes_all o then op_structs_all o ++ wrote else wrote.

Fixpoint hist_guard_corrected (active : bool) (wrote : list (N * bytes)) (cs : list tcall) : bool :=
  match cs with
  | [] => true
  | (_, CBegin wr _) :: r => hist_guard_corrected wr [] r
  | (_, COp o) :: r => guard_call active wrote o && hist_guard_corrected active (wrote_next active wrote o) r
  | (_, CRollback) :: r => hist_guard_corrected false [] r
  | _ :: r => hist_guard_corrected active wrote r      (* Commit (it may fail), Close, Open *)
  end.

Local Opaque N.pow.
Local Opaque do_commit commit_loop.

(** ================= part 1: key/value reads ================= *)
Lemma kv_read_same_t : forall now w t o, is_kv_read o = true -> snd (fst (do_op now w t o)) = t.
Proof.
  intros now w t o H. destruct o; try discriminate H; unfold do_op; cbn [ds_read];
    repeat match goal with
    | |- context [match ?x with _ => _ end] => destruct x; cbn [fst snd]
    | |- context [if ?x then _ else _] => destruct x; cbn [fst snd]
    end; reflexivity.
Qed.

(** a key/value read on any reachable world, in either RAM index mode *)
Lemma kv_read_res : forall now w s t o,
  Inv w -> WInv w -> kvrel w s -> is_kv_read o = true ->
  Some (snd (do_op now w t o)) = spec_kv_read now s o.
Proof.
  intros now w s t o HI HW Hrel Hrd.
  assert (Hd : on_disk w).
  { apply inv_on_disk; [exact HI|]. destruct (wi_w2 w HW) as (_ & Hwf & _). exact Hwf. }
  pose proof (kv_reads_mode_irrelevant now w t o (o_mode (w_opts w)) Hd Hrd) as Hmi.
  rewrite with_mode_self in Hmi. rewrite Hmi.
  assert (Hrel0 : kvrel (with_mode w 0) s).
  { apply (kvrel_ext w); [reflexivity|reflexivity|exact Hrel]. }
  exact (proj2 (proj2 (kv_reads_refine now (with_mode w 0) s t o eq_refl Hrel0 Hrd))).
Qed.

(** a key/value read of the specification looks at one bucket *)
Lemma spec_kv_read_local : forall now s1 s2 o,
  (forall x, In x (kv_bucket_of o) -> alookup (s_kv s1) (snd x) = alookup (s_kv s2) (snd x)) ->
  spec_kv_read now s1 o = spec_kv_read now s2 o.
Proof.
  intros now s1 s2 o H. destruct o; cbn [spec_kv_read]; try reflexivity;
    cbn [kv_bucket_of] in H; pose proof (H (DS_KV, b) (or_introl eq_refl)) as E; cbn [snd] in E;
    rewrite E; reflexivity.
Qed.

(** the pending key/value records only concern buckets of [wrote] *)
Definition kvpend (wrote : list (N * bytes)) (t : txstate) : Prop :=
  Forall (fun e => e_ds e = DS_KV -> In (DS_KV, e_bucket e) wrote) (tx_pend t).

Lemma spec_apply_kv_frame : forall s e b,
  (e_ds e = DS_KV -> e_bucket e <> b) -> alookup (s_kv (spec_apply_kv s e)) b = alookup (s_kv s) b.
Proof.
  intros s e b H. unfold spec_apply_kv. destruct (e_ds e =? DS_KV) eqn:E; [|reflexivity].
  apply N.eqb_eq in E. specialize (H E).
  destruct (e_flag e =? F_Set); cbn [s_kv]; apply alookup_aset_other; exact H.
Qed.

Lemma fold_spec_apply_kv_frame : forall es s b,
  Forall (fun e => e_ds e = DS_KV -> e_bucket e <> b) es ->
  alookup (s_kv (fold_left spec_apply_kv es s)) b = alookup (s_kv s) b.
Proof.
  induction es as [|e es IH]; intros s b H; [reflexivity|].
  inversion H as [|e' es' He Hes]; subst. cbn [fold_left].
  rewrite IH by exact Hes. apply spec_apply_kv_frame. exact He.
Qed.

Lemma kvpend_frame : forall wrote t s b,
  kvpend wrote t -> ~ In (DS_KV, b) wrote ->
  alookup (s_kv (fold_left spec_apply_kv (tx_pend t) s)) b = alookup (s_kv s) b.
Proof.
  intros wrote t s b H Hn. apply fold_spec_apply_kv_frame.
  eapply Forall_impl; [|exact H]. intros e He Hd Hb. apply Hn. rewrite <- Hb. exact (He Hd).
Qed.

(** ================= part 2: read-only transactions ================= *)
Lemma spec_op_ro_state : forall now s o, fst (spec_op now false s o) = s.
Proof.
  intros now s o. unfold spec_op.
  destruct (ds_read (s_ds s) o) as [r|]; [reflexivity|].
  destruct (spec_kv_read now s o) as [r|]; [reflexivity|].
  destruct (spec_write s o) as [s' r]. reflexivity.
Qed.

(** a mutating call in a read-only transaction fails on both sides (an empty
    push / SAdd / SRem succeeds on both) *)
Ltac ro_push Hw :=
  spec_unfold;
  match goal with |- context [tx_put_all _ _ _ ?vs _ _ _] => destruct vs as [|v0 vs] end;
  cbn [isnil tx_put_all fst snd];
  try match goal with |- context [contains_sep ?k] => destruct (contains_sep k) end; cbn [fst snd]; try reflexivity;
  rewrite ?tx_put_readonly by exact Hw; cbn [fst snd]; try reflexivity;
  match goal with |- context [nonempty ?k] => destruct (nonempty k) end; reflexivity.

Lemma ro_write_res : forall now w t o s,
  tx_w t = false -> is_kv_read o = false -> ds_read (w_ix w) o = None -> ds_read (s_ds s) o = None ->
  is_spop_some o = false ->
  snd (do_op now w t o) = snd (spec_op now false s o).
Proof.
  intros now w t o s Hw Hkv Hrd Hrd' Hsp.
  unfold spec_op. rewrite Hrd'. unfold do_op. rewrite Hrd.
  destruct o; try discriminate Hkv; try discriminate Hrd; cbn [spec_kv_read];
    try (ro_push Hw; fail);
    match goal with |- _ = snd (let '(_, _) := ?x in _) => destruct x as [s' r'] end; cbn [snd];
    repeat match goal with
    | |- context [tx_put t ?b ?k ?v ?ttl ?f ?ts ?ds] => rewrite (tx_put_readonly t b k v ttl f ts ds Hw); cbn [fst snd]
    | |- context [match ?x with _ => _ end] => destruct x; cbn [fst snd]
    | |- context [if ?x then _ else _] => destruct x; cbn [fst snd]
    end; try reflexivity; try discriminate Hsp.
Qed.

(** ================= part 3: the joint invariant ================= *)
Lemma kvpend_mono : forall S S' t, incl S S' -> kvpend S t -> kvpend S' t.
Proof.
  intros S S' t Hi H. unfold kvpend in *. eapply Forall_impl; [|exact H].
  intros e He Hd. apply Hi. exact (He Hd).
Qed.

Lemma hinv_mono : forall strict ix t S S' sk, incl S S' -> hinv strict ix t S sk -> hinv strict ix t S' sk.
Proof.
  intros strict ix t S S' sk Hi (Hp & Hrec & Hrel).
  split; [exact (pend_in_mono S S' t Hi Hp)|]. split; [exact Hrec|exact Hrel].
Qed.

Lemma wrote_next_incl : forall a wr o, incl wr (wrote_next a wr o).
Proof.
  intros a wr o. unfold wrote_next. destruct (a && writes_all o); [apply incl_appr|]; apply incl_refl.
Qed.

Lemma do_op_kvpend : forall now w t o wr,
  tx_w t = true -> kvpend wr t -> kvpend (wrote_next true wr o) (snd (fst (do_op now w t o))).
Proof.
  intros now w t o wr Hw H.
  assert (Hgen : not_kv_write o -> kvpend (wrote_next true wr o) (snd (fst (do_op now w t o)))).
  { intros Ho. destruct (do_op_nonkv now w t o Ho) as (_ & _ & ext & Hp & Hall).
    unfold kvpend. rewrite Hp. apply Forall_app. split.
    - exact (kvpend_mono wr _ t (wrote_next_incl true wr o) H).
    - eapply Forall_impl; [|exact Hall]. intros e [_ Hne] Hd. contradiction. }
  destruct o; try (apply Hgen; exact I); clear Hgen.
  - rewrite do_op_put. destruct k as [|x k].
    + rewrite tx_put_empty_key. exact (kvpend_mono wr _ t (wrote_next_incl true wr _) H).
    + rewrite tx_put_ok by (exact Hw || discriminate). cbn [fst]. unfold kvpend. cbn [tx_pend].
      apply Forall_app. split.
      * exact (kvpend_mono wr _ t (wrote_next_incl true wr _) H).
      * constructor; [|constructor]. intros _. cbn [mk_entry e_bucket]. left. reflexivity.
  - rewrite do_op_delete. destruct k as [|x k].
    + rewrite tx_put_empty_key. exact (kvpend_mono wr _ t (wrote_next_incl true wr _) H).
    + rewrite tx_put_ok by (exact Hw || discriminate). cbn [fst]. unfold kvpend. cbn [tx_pend].
      apply Forall_app. split.
      * exact (kvpend_mono wr _ t (wrote_next_incl true wr _) H).
      * constructor; [|constructor]. intros _. cbn [mk_entry e_bucket]. left. reflexivity.
Qed.

(** the structure side of the invariant inside a transaction: in a write
    transaction [active] is set, DSHistory's [hinv] holds for the working copy
    and the pending key/value records stay inside [wrote]; in a read-only
    transaction [active] is clear and the working copy is the committed state *)
Definition tx_ds (active : bool) (wrote : list (N * bytes)) (w : world) (sw : sworld) : Prop :=
  match w_tx w, sw_tx sw with
  | TxActive t, SActive _ work =>
      if tx_w t then active = true /\ hinv false (w_ix w) t wrote work /\ kvpend wrote t
      else active = false /\ work = sw_state sw
  | _, _ => True
  end.

Definition J (active : bool) (wrote : list (N * bytes)) (w : world) (sw : sworld) : Prop :=
  joint w sw /\ WInv w /\ (w_closed w = true -> w_tx w = TxNone) /\
  dsrel (w_ix w) (sw_state sw) /\ list_keys_ok (w_ix w) /\ set_keys_ok (w_ix w) /\
  tx_ds active wrote w sw.

Lemma tx_ds_mono : forall a S S' w sw, incl S S' -> tx_ds a S w sw -> tx_ds a S' w sw.
Proof.
  intros a S S' w sw Hi H. unfold tx_ds in *.
  destruct (w_tx w) as [|t|]; try exact I. destruct (sw_tx sw) as [|wr work|]; try exact I.
  destruct (tx_w t); [|exact H]. destruct H as (Ha & Hh & Hk).
  split; [exact Ha|]. split; [exact (hinv_mono _ _ _ S S' _ Hi Hh)|exact (kvpend_mono S S' t Hi Hk)].
Qed.

Lemma J_mono : forall a S S' w sw, incl S S' -> J a S w sw -> J a S' w sw.
Proof.
  intros a S S' w sw Hi (H1 & H2 & H3 & H4 & H5 & H6 & H7).
  repeat (split; [assumption|]). exact (tx_ds_mono a S S' w sw Hi H7).
Qed.

(** outside a transaction the guard's state is irrelevant *)
Lemma J_inactive : forall a S a' S' w sw, (forall t, w_tx w <> TxActive t) -> J a S w sw -> J a' S' w sw.
Proof.
  intros a S a' S' w sw Hn (H1 & H2 & H3 & H4 & H5 & H6 & H7).
  repeat (split; [assumption|]). unfold tx_ds.
  destruct (w_tx w) as [|t|]; try exact I. exfalso. exact (Hn t eq_refl).
Qed.

Lemma J_init : forall o, J false [] (empty_world o) sworld0.
Proof.
  intros o. split; [apply joint_init|]. split; [apply winv_empty|].
  split; [intros _; reflexivity|]. split; [repeat split|].
  split; [intros b l k v H; discriminate H|]. split; [intros b m k l H; discriminate H|exact I].
Qed.

(** ================= part 4: one call ================= *)
Definition open_ok (w : world) (c : call) : Prop :=
  match c with COpen _ => match w_tx w with TxActive _ => False | _ => True end | _ => True end.

Definition guard_head (a : bool) (wr : list (N * bytes)) (c : call) : bool :=
  match c with COp o => guard_call a wr o | _ => true end.

Definition gnext (a : bool) (wr : list (N * bytes)) (c : call) : bool * list (N * bytes) :=
  match c with
  | CBegin b _ => (b, [])
  | COp o => (a, wrote_next a wr o)
  | CRollback => (false, [])
  | _ => (a, wr)
  end.

Lemma step_joint : forall now w sw c,
  joint w sw -> call_ok w c -> call_kv_ok (now, c) -> open_ok w c ->
  joint (fst (step now w c)) (fst (spec_step now (res_ok (snd (step now w c))) sw c)).
Proof.
  intros now w sw c (HI & Hrel & Htx & Hcl) Hc Hkv Ho.
  pose proof (step_both_inv now w sw c HI Hrel Htx Hcl Hc Hkv Ho) as H.
  destruct (step now w c) as [w' res]. exact H.
Qed.

Definition tx_call (c : call) : Prop :=
  match c with COp _ | CCommit | CRollback => True | _ => False end.

Lemma step_inactive : forall now w c, (forall t, w_tx w <> TxActive t) -> tx_call c -> step now w c = (w, RErr).
Proof.
  intros now w c Hn Hc. destruct c; try contradiction Hc; cbn [step];
    destruct (w_tx w) as [|t|]; try reflexivity; exfalso; exact (Hn t eq_refl).
Qed.

Lemma spec_step_inactive : forall now ok sw c,
  (forall wr work, sw_tx sw <> SActive wr work) -> tx_call c -> spec_step now ok sw c = (sw, RErr).
Proof.
  intros now ok sw c Hn Hc. destruct c; try contradiction Hc; cbn [spec_step];
    destruct (sw_tx sw) as [|wr work|]; try reflexivity; exfalso; exact (Hn wr work eq_refl).
Qed.

Lemma spec_step_op_active : forall now ok sw wr work o, sw_tx sw = SActive wr work ->
  spec_step now ok sw (COp o) =
  (mkSW (sw_closed sw) (sw_state sw) (SActive wr (fst (spec_op now wr work o))), snd (spec_op now wr work o)).
Proof.
  intros now ok sw wr work o H. cbn [spec_step]. rewrite H.
  destruct (spec_op now wr work o) as [work' r]. reflexivity.
Qed.

Lemma commit_step_cases : forall now w t, w_tx w = TxActive t ->
  step now w CCommit = (w, RErr) \/
  (exists w', step now w CCommit = (w', ROk) /\ w_tx w' = TxDone /\ w_closed w' = w_closed w /\
     ds_part (w_ix w') = ds_part (fold_left (apply_ds false) (tx_pend t) (w_ix w))).
Proof.
  intros now w t Ht. destruct (commit_ds now w t Ht) as [C1 _].
  assert (E : step now w CCommit = let '(w', ok) := do_commit None w t in (w', if ok then ROk else RErr)).
  { unfold step. rewrite Ht. reflexivity. }
  destruct (do_commit_cases w t) as [[Hf Hw0]|(Hok & Hdone & Hcl)];
    destruct (do_commit None w t) as [w1 ok]; cbn [fst snd] in *; subst ok.
  - left. subst w1. exact E.
  - right. exists w1. rewrite E in C1. cbn [fst snd] in C1.
    split; [exact E|]. split; [exact Hdone|]. split; [exact Hcl|exact (C1 eq_refl)].
Qed.

(** what the guard says about a call of a write transaction *)
Lemma guard_call_active : forall wr o, guard_call true wr o = true ->
  is_blind_all o = true \/ forall x, In x (op_structs_all o) -> ~ In x wr.
Proof.
  intros wr o H. unfold guard_call in H. apply andb_true_iff in H as [H _]. cbn [negb orb] in H.
  apply orb_true_iff in H as [H|H]; [left; exact H|right].
  intros x Hx Hin. apply negb_true_iff in H.
  assert (E : existsb (fun x => sb_mem x wr) (op_structs_all o) = true).
  { apply existsb_exists. exists x. split; [exact Hx|]. apply sb_mem_In. exact Hin. }
  congruence.
Qed.

Lemma guard_call_ds : forall wr o, guard_call true wr o = true ->
  is_blind o = true \/ forall x, In x (op_structs o) -> ~ In x wr.
Proof.
  intros wr o H. destruct (guard_call_active wr o H) as [Hb|Hn].
  - unfold is_blind_all in Hb. apply orb_true_iff in Hb as [Hb|Hb]; [left; exact Hb|right].
    destruct o; try discriminate Hb; intros x Hx; destruct Hx.
  - right. intros x Hx. apply Hn. unfold op_structs_all. apply in_or_app. left. exact Hx.
Qed.

Lemma guard_call_kv : forall wr o, guard_call true wr o = true -> is_kv_read o = true ->
  forall x, In x (kv_bucket_of o) -> ~ In x wr.
Proof.
  intros wr o H Hkv. destruct (guard_call_active wr o H) as [Hb|Hn].
  - destruct o; discriminate Hkv || discriminate Hb.
  - intros x Hx. apply Hn. unfold op_structs_all. apply in_or_app. right. exact Hx.
Qed.

Lemma hist_step_incl : forall wr o, incl (if is_ds_write o then op_structs o ++ wr else wr) (wrote_next true wr o).
Proof.
  intros wr o. unfold wrote_next, writes_all. cbn [andb].
  destruct (is_ds_write o); cbn [orb].
  - unfold op_structs_all. rewrite <- app_assoc. apply incl_app; [apply incl_appl, incl_refl|].
    apply incl_appr, incl_appr, incl_refl.
  - destruct o; try apply incl_refl; apply incl_appr, incl_refl.
Qed.

Lemma kv_read_not_write : forall o, is_kv_read o = true -> writes_all o = false.
Proof. intros o H. destruct o; try discriminate H; reflexivity. Qed.

(** a call inside a transaction: same result, and the structure side of the
    invariant is kept *)
Lemma op_active_step : forall now a wr0 w sw t wrb work o,
  J a wr0 w sw -> w_tx w = TxActive t -> sw_tx sw = SActive wrb work ->
  call_kv_ok (now, COp o) -> guard_call a wr0 o = true ->
  snd (do_op now w t o) = snd (spec_op now wrb work o) /\
  tx_ds a (wrote_next a wr0 o) (set_tx w (TxActive (snd (fst (do_op now w t o)))))
        (mkSW (sw_closed sw) (sw_state sw) (SActive wrb (fst (spec_op now wrb work o)))).
Proof.
  intros now a wr0 w sw t wrb work o HJ Et Es Hkv Hg.
  destruct HJ as ((HI & Hrel & Htx & Hcl) & HW & Hct & Hds & HLK & HSK & Htd).
  unfold tx_rel in Htx. rewrite Et, Es in Htx. destruct Htx as (Hw & Hro & Hall & Hs).
  unfold tx_ds in Htd. rewrite Et, Es in Htd.
  destruct (do_op_rel now w t o work Hkv) as (_ & Hw1 & _).
  unfold tx_ds. cbn [set_tx w_tx sw_tx w_ix sw_state]. rewrite Hw1.
  destruct (tx_w t) eqn:Etw; subst wrb.
  - (* write transaction *)
    destruct Htd as (Ha & Hh & Hk). subst a.
    destruct (is_kv_read o) eqn:Ekr.
    + (* key/value read of a bucket the transaction has not written *)
      pose proof (kv_read_res now w (sw_state sw) t o HI HW Hrel Ekr) as Hres.
      assert (Hloc : spec_kv_read now work o = spec_kv_read now (sw_state sw) o).
      { apply spec_kv_read_local. intros x Hx. rewrite Hs.
        destruct o; try discriminate Ekr; cbn [kv_bucket_of] in Hx; destruct Hx as [Hx|[]]; subst x; cbn [snd];
          (apply (kvpend_frame wr0 t _ _ Hk); apply (guard_call_kv wr0 _ Hg eq_refl); left; reflexivity). }
      unfold spec_op. rewrite (ds_read_kv_none _ o Ekr), Hloc, <- Hres. cbn [fst snd].
      split; [reflexivity|]. split; [reflexivity|].
      rewrite (kv_read_same_t now w t o Ekr). unfold wrote_next. rewrite (kv_read_not_write o Ekr). cbn [andb].
      split; [exact Hh|exact Hk].
    + destruct (hist_step false now w t wr0 work o HLK HSK Hh Ekr (guard_call_ds wr0 o Hg)) as [Hres Hh'].
      split; [exact Hres|]. split; [reflexivity|]. split.
      * exact (hinv_mono _ _ _ _ _ _ (hist_step_incl wr0 o) Hh').
      * apply do_op_kvpend; [exact Etw|exact Hk].
  - (* read-only transaction *)
    destruct Htd as (Ha & Hwk). subst a work.
    assert (Hst : fst (spec_op now false (sw_state sw) o) = sw_state sw) by apply spec_op_ro_state.
    split; [|split; [reflexivity|exact Hst]].
    destruct (is_kv_read o) eqn:Ekr.
    + pose proof (kv_read_res now w (sw_state sw) t o HI HW Hrel Ekr) as Hres.
      unfold spec_op. rewrite (ds_read_kv_none _ o Ekr), <- Hres. reflexivity.
    + pose proof (ds_read_dsrel (w_ix w) (sw_state sw) o Hds) as Hrd.
      destruct (ds_read (w_ix w) o) as [r|] eqn:Er.
      * unfold do_op, spec_op. rewrite Er, <- Hrd. reflexivity.
      * apply ro_write_res; [exact Etw|exact Ekr|exact Er|rewrite <- Hrd; reflexivity|].
        unfold guard_call in Hg. apply andb_true_iff in Hg as [_ Hg]. cbn [orb] in Hg.
        apply negb_true_iff in Hg. exact Hg.
Qed.

(** the one-step lemma: the two results are equal and the joint invariant is kept *)
Lemma step_both_res_inv : forall now a wr0 w sw c,
  J a wr0 w sw -> call_ok w c -> call_kv_ok (now, c) -> open_ok w c -> guard_head a wr0 c = true ->
  snd (step now w c) = snd (spec_step now (res_ok (snd (step now w c))) sw c) /\
  J (fst (gnext a wr0 c)) (snd (gnext a wr0 c)) (fst (step now w c))
    (fst (spec_step now (res_ok (snd (step now w c))) sw c)).
Proof.
  intros now a wr0 w sw c HJ Hc Hkv Ho Hg.
  pose proof HJ as (Hjoint & HW & Hct & Hds & HLK & HSK & Htd).
  pose proof (step_joint now w sw c Hjoint Hc Hkv Ho) as Hjoint'.
  pose proof (step_winv now w c HW Hc) as HW'.
  destruct Hjoint as (HI & Hrel & Htx & Hcl).
  (* calls that need a transaction, outside any *)
  assert (Hidle : (forall t, w_tx w <> TxActive t) -> tx_call c ->
            snd (step now w c) = snd (spec_step now (res_ok (snd (step now w c))) sw c) /\
            J (fst (gnext a wr0 c)) (snd (gnext a wr0 c)) (fst (step now w c))
              (fst (spec_step now (res_ok (snd (step now w c))) sw c))).
  { intros Hn Hcall. rewrite (step_inactive now w c Hn Hcall). cbn [fst snd].
    rewrite (spec_step_inactive now _ sw c (tx_rel_inactive w sw Htx Hn) Hcall). cbn [fst snd].
    split; [reflexivity|]. exact (J_inactive a wr0 _ _ w sw Hn HJ). }
  destruct c as [wrb id|o| | | |o].
  - (* Begin *)
    cbn [step spec_step gnext fst snd] in *. rewrite <- Hcl in *.
    destruct (w_closed w) eqn:Ec; cbn [fst snd res_ok] in *.
    + split; [reflexivity|]. apply (J_inactive a wr0); [|exact HJ].
      intros t E. rewrite (Hct eq_refl) in E. discriminate E.
    + split; [reflexivity|]. split; [exact Hjoint'|]. split; [exact HW'|].
      split; [cbn [set_tx w_closed]; intros E; congruence|].
      split; [exact Hds|]. split; [exact HLK|]. split; [exact HSK|].
      unfold tx_ds. cbn [set_tx w_tx sw_tx tx_w w_ix sw_state].
      destruct wrb.
      * split; [reflexivity|]. split; [|constructor].
        split; [split; [reflexivity|constructor]|]. split; [constructor|exact Hds].
      * split; reflexivity.
  - (* Op *)
    destruct (w_tx w) as [|t|] eqn:Et; [apply Hidle; [intros t E; discriminate E|exact I]| |
                                        apply Hidle; [intros t E; discriminate E|exact I]].
    pose proof Htx as Htx0. unfold tx_rel in Htx0. rewrite Et in Htx0.
    destruct (sw_tx sw) as [|wrb work|] eqn:Es; try contradiction. clear Htx0.
    rewrite (step_op_active now w t o Et) in *. cbn [fst snd] in *.
    rewrite (spec_step_op_active now _ sw wrb work o Es) in *. cbn [fst snd gnext] in *.
    destruct (op_active_step now a wr0 w sw t wrb work o HJ Et Es Hkv Hg) as [Hres Htd'].
    split; [exact Hres|]. split; [exact Hjoint'|]. split; [exact HW'|].
    split; [cbn [set_tx w_closed w_tx]; intros E; discriminate (Hct E)|].
    split; [exact Hds|]. split; [exact HLK|]. split; [exact HSK|exact Htd'].
  - (* Commit *)
    destruct (w_tx w) as [|t|] eqn:Et; [apply Hidle; [intros t E; discriminate E|exact I]| |
                                        apply Hidle; [intros t E; discriminate E|exact I]].
    pose proof Htx as Htx0. unfold tx_rel in Htx0. rewrite Et in Htx0.
    destruct (sw_tx sw) as [|wrb work|] eqn:Es; try contradiction.
    destruct Htx0 as (Hw & Hro & Hall & Hs).
    cbn [gnext fst snd].
    destruct (commit_step_cases now w t Et) as [E|(w1 & E & Hdone & Hcl' & Hdp)];
      rewrite E in *; cbn [fst snd res_ok spec_step] in *; rewrite Es in *; cbn [fst snd] in *.
    + split; [reflexivity|exact HJ].
    + split; [reflexivity|]. split; [exact Hjoint'|]. split; [exact HW'|].
      split; [intros Ecl; rewrite Hcl' in Ecl; discriminate (Hct Ecl)|].
      cbn [sw_state].
      unfold tx_ds in Htd. rewrite Et, Es in Htd.
      assert (Hfold : dsrel (fold_left (apply_ds false) (tx_pend t) (w_ix w)) (if wrb then work else sw_state sw) /\
                      list_keys_ok (fold_left (apply_ds false) (tx_pend t) (w_ix w)) /\
                      set_keys_ok (fold_left (apply_ds false) (tx_pend t) (w_ix w))).
      { destruct (tx_w t) eqn:Etw; subst wrb.
        - destruct Htd as (_ & (Hp & Hrec & Hrel2) & _).
          split; [exact Hrel2|]. exact (fold_keys_ok false (tx_pend t) (w_ix w) Hrec HLK HSK).
        - rewrite (Hro eq_refl). cbn [fold_left]. split; [exact Hds|]. split; [exact HLK|exact HSK]. }
      destruct Hfold as (F1 & F2 & F3).
      destruct (ds_part_keys _ _ Hdp) as [K1 K2].
      split; [apply dsrel_ds_part; rewrite Hdp; apply dsrel_ds_part; exact F1|].
      split; [exact (K1 F2)|]. split; [exact (K2 F3)|].
      unfold tx_ds. rewrite Hdone. exact I.
  - (* Rollback *)
    destruct (w_tx w) as [|t|] eqn:Et; [apply Hidle; [intros t E; discriminate E|exact I]| |
                                        apply Hidle; [intros t E; discriminate E|exact I]].
    pose proof Htx as Htx0. unfold tx_rel in Htx0. rewrite Et in Htx0.
    destruct (sw_tx sw) as [|wrb work|] eqn:Es; try contradiction. clear Htx0.
    cbn [step spec_step gnext] in *. rewrite Et in *. rewrite Es in *. cbn [fst snd] in *.
    split; [reflexivity|]. split; [exact Hjoint'|]. split; [exact HW'|].
    split; [cbn [set_tx w_closed w_tx]; intros E; discriminate (Hct E)|].
    split; [exact Hds|]. split; [exact HLK|]. split; [exact HSK|exact I].
  - (* Close *)
    cbn [step spec_step gnext fst snd] in *. rewrite <- Hcl in *.
    destruct (w_closed w) eqn:Ec; cbn [fst snd res_ok] in *.
    + split; [reflexivity|exact HJ].
    + split; [reflexivity|]. split; [exact Hjoint'|]. split; [exact HW'|].
      split; [intros _; reflexivity|].
      split; [exact Hds|]. split; [exact HLK|]. split; [exact HSK|exact I].
  - (* Open *)
    cbn [step spec_step gnext fst snd res_ok] in *.
    destruct (reopen_preserves w o HI) as (Hix & _).
    split; [reflexivity|]. split; [exact Hjoint'|]. split; [exact HW'|].
    split; [intros E; discriminate E|]. cbn [sw_state]. rewrite Hix.
    split; [exact Hds|]. split; [exact HLK|]. split; [exact HSK|exact I].
Qed.

(** ================= part 5: every history ================= *)
Lemma hist_guard_corrected_cons : forall a wr0 now c r,
  hist_guard_corrected a wr0 ((now, c) :: r) =
  guard_head a wr0 c && hist_guard_corrected (fst (gnext a wr0 c)) (snd (gnext a wr0 c)) r.
Proof. intros a wr0 now c r. destruct c; reflexivity. Qed.

Lemma run_refines : forall cs a wr0 w sw,
  J a wr0 w sw -> tcalls_ok w cs -> Forall call_kv_ok cs -> hist_guard_corrected a wr0 cs = true ->
  Forall (fun p => fst p = snd p) (run_both_res w sw cs) /\
  exists a' wr', J a' wr' (fst (run_both w sw cs)) (snd (run_both w sw cs)).
Proof.
  induction cs as [|[now c] r IH]; intros a wr0 w sw HJ Hok Hkv Hg.
  - split; [constructor|]. exists a, wr0. exact HJ.
  - rewrite hist_guard_corrected_cons in Hg. apply andb_true_iff in Hg as [Hg1 Hg2].
    cbn [tcalls_ok] in Hok. destruct Hok as (Hc & Ho & Hr).
    inversion Hkv as [|x l Hk Hkr]; subst x l.
    destruct (step_both_res_inv now a wr0 w sw c HJ Hc Hk Ho Hg1) as [Hres HJ'].
    cbn [run_both_res run_both].
    destruct (step now w c) as [w' res]. cbn [fst snd] in *.
    change (KVHistory.res_ok res) with (DSHistory.res_ok res) in *.
    destruct (spec_step now (res_ok res) sw c) as [sw' sres]. cbn [fst snd] in *.
    destruct (IH _ _ w' sw' HJ' Hr Hkr Hg2) as [IH1 IH2].
    split; [constructor; [exact Hres|exact IH1]|exact IH2].
Qed.

(** TARGET (guard corrected): every call of every guarded history returns the
    specification's result.  No further hypothesis is needed: the engine
    invariants Inv / WInv, the correspondence of the indexes and the two key
    invariants all hold of the empty database and are carried by [J]. *)
Theorem history_refines : forall cs o,
  tcalls_ok (empty_world o) cs -> Forall call_kv_ok cs ->
  hist_guard_corrected false [] cs = true ->
  Forall (fun p => fst p = snd p) (run_both_res (empty_world o) sworld0 cs).
Proof.
  intros cs o Hok Hkv Hg.
  exact (proj1 (run_refines cs false [] _ _ (J_init o) Hok Hkv Hg)).
Qed.

(** at the end of every guarded history the whole state coincides (key/value
    buckets, lists, sets, sorted sets), and the key invariants hold *)
Theorem history_state_refines : forall cs o,
  tcalls_ok (empty_world o) cs -> Forall call_kv_ok cs ->
  hist_guard_corrected false [] cs = true ->
  let '(w, sw) := run_both (empty_world o) sworld0 cs in
  kvrel w (sw_state sw) /\ dsrel (w_ix w) (sw_state sw) /\
  list_keys_ok (w_ix w) /\ set_keys_ok (w_ix w) /\ w_closed w = sw_closed sw.
Proof.
  intros cs o Hok Hkv Hg.
  destruct (proj2 (run_refines cs false [] _ _ (J_init o) Hok Hkv Hg)) as (a' & wr' & HJ).
  destruct (run_both (empty_world o) sworld0 cs) as [w sw]. cbn [fst snd] in HJ.
  destruct HJ as ((_ & Hrel & _ & Hcl) & _ & _ & Hds & HLK & HSK & _).
  repeat (split; [assumption|]). exact Hcl.
Qed.

(** the state coincides after every prefix of a guarded history *)
Lemma hist_guard_corrected_app : forall l1 l2 a wr0,
  hist_guard_corrected a wr0 (l1 ++ l2) = true -> hist_guard_corrected a wr0 l1 = true.
Proof.
  induction l1 as [|[now c] r IH]; intros l2 a wr0 H; [reflexivity|].
  rewrite <- app_comm_cons in H. rewrite hist_guard_corrected_cons in H |- *.
  apply andb_true_iff in H as [H1 H2]. rewrite H1. cbn [andb]. exact (IH _ _ _ H2).
Qed.

Lemma tcalls_ok_app : forall l1 l2 w, tcalls_ok w (l1 ++ l2) -> tcalls_ok w l1.
Proof.
  induction l1 as [|[now c] r IH]; intros l2 w H; [exact I|].
  rewrite <- app_comm_cons in H. cbn [tcalls_ok] in *. destruct H as (H1 & H2 & H3).
  split; [exact H1|]. split; [exact H2|exact (IH _ _ H3)].
Qed.

Corollary history_state_refines_prefix : forall cs1 cs2 o,
  tcalls_ok (empty_world o) (cs1 ++ cs2) -> Forall call_kv_ok (cs1 ++ cs2) ->
  hist_guard_corrected false [] (cs1 ++ cs2) = true ->
  let '(w, sw) := run_both (empty_world o) sworld0 cs1 in
  kvrel w (sw_state sw) /\ dsrel (w_ix w) (sw_state sw) /\
  list_keys_ok (w_ix w) /\ set_keys_ok (w_ix w) /\ w_closed w = sw_closed sw.
Proof.
  intros cs1 cs2 o Hok Hkv Hg. apply history_state_refines.
  - exact (tcalls_ok_app _ _ _ Hok).
  - apply Forall_app in Hkv. exact (proj1 Hkv).
  - exact (hist_guard_corrected_app _ _ _ _ Hg).
Qed.

(** ================= part 6: the guard as first written is too weak =================
    two histories that pass [hist_guard] and in which a call does not return
    the specification's result *)
Definition cx_opts_small : opts := mkOpts 0 FileIO FileIO false 10.
Definition cx_opts : opts := mkOpts 0 FileIO FileIO false 1000.

(** the Commit fails (the record is larger than the 10-byte segment), the
    transaction stays open with its pending push, and the next read is answered
    from the committed indexes *)
Definition cx_failed_commit : list tcall :=
  [(0, CBegin true 1); (0, COp (ORPush [x62] [x6b] [[x31]])); (0, CCommit); (0, COp (OLSize [x62] [x6b]))].

(** the same with a key/value bucket *)
Definition cx_failed_commit_kv : list tcall :=
  [(0, CBegin true 1); (0, COp (OPut [x62] [x6b] [x31] 0 0)); (0, CCommit); (0, COp (OGet [x62] [x6b]))].

(** SPop with an oracle that is not a member, in a read-only transaction *)
Definition cx_spop_readonly : list tcall :=
  [(0, CBegin true 1); (0, COp (OSAdd [x62] [x6b] [[x31]])); (0, CCommit);
   (0, CBegin false 2); (0, COp (OSPop [x62] [x6b] (Some [x32])))].

Lemma cx_failed_commit_spec :
  hist_guard false [] cx_failed_commit = true /\
  hist_guard_corrected false [] cx_failed_commit = false /\
  run_both_res (empty_world cx_opts_small) sworld0 cx_failed_commit =
    [(ROk, ROk); (ROk, ROk); (RErr, RErr); (RErr, RInt 1)].
Proof. vm_compute. repeat split. Qed.

Lemma cx_failed_commit_kv_spec :
  hist_guard false [] cx_failed_commit_kv = true /\
  hist_guard_corrected false [] cx_failed_commit_kv = false /\
  run_both_res (empty_world cx_opts_small) sworld0 cx_failed_commit_kv =
    [(ROk, ROk); (ROk, ROk); (RErr, RErr); (RErr, REntry [x6b] [x31])].
Proof. vm_compute. repeat split. Qed.

Lemma cx_spop_readonly_spec :
  hist_guard false [] cx_spop_readonly = true /\
  hist_guard_corrected false [] cx_spop_readonly = false /\
  run_both_res (empty_world cx_opts) sworld0 cx_spop_readonly =
    [(ROk, ROk); (ROk, ROk); (ROk, ROk); (ROk, ROk); (RInadmissible, RErr)].
Proof. vm_compute. repeat split. Qed.

Lemma cx_failed_commit_ok : tcalls_ok (empty_world cx_opts_small) cx_failed_commit /\ Forall call_kv_ok cx_failed_commit.
Proof.
  split.
  - vm_compute. repeat split; try exact I; intros H; exact H.
  - repeat constructor.
Qed.

Lemma cx_spop_readonly_ok : tcalls_ok (empty_world cx_opts) cx_spop_readonly /\ Forall call_kv_ok cx_spop_readonly.
Proof.
  split.
  - vm_compute. repeat split; try exact I; intros H; repeat (destruct H as [H|H]; [discriminate H|]); exact H.
  - repeat constructor.
Qed.

(** the key/value part of the guard cannot be dropped either: a Get after a
    Put of the same transaction is answered from the committed index *)
Definition cx_get_after_put : list tcall :=
  [(0, CBegin true 1); (0, COp (OPut [x62] [x6b] [x31] 0 0)); (0, COp (OGet [x62] [x6b]))].

Lemma cx_get_after_put_spec :
  hist_guard_corrected false [] cx_get_after_put = false /\
  run_both_res (empty_world cx_opts) sworld0 cx_get_after_put =
    [(ROk, ROk); (ROk, ROk); (RErr, REntry [x6b] [x31])].
Proof. vm_compute. repeat split. Qed.

(** the statement with the guard as first written does not hold *)
Theorem history_refines_as_stated_is_false :
  ~ (forall cs o,
       tcalls_ok (empty_world o) cs -> Forall call_kv_ok cs ->
       hist_guard false [] cs = true ->
       Forall (fun p => fst p = snd p) (run_both_res (empty_world o) sworld0 cs)).
Proof.
  intros H.
  destruct cx_failed_commit_ok as [H1 H2]. destruct cx_failed_commit_spec as (H3 & _ & H4).
  specialize (H cx_failed_commit cx_opts_small H1 H2 H3). rewrite H4 in H.
  inversion H as [|x1 l1 _ G1]; subst. inversion G1 as [|x2 l2 _ G2]; subst.
  inversion G2 as [|x3 l3 _ G3]; subst. inversion G3 as [|x4 l4 E _]; subst.
  discriminate E.
Qed.

(** ... and neither does it with only the first correction (Commit keeps the
    guard's state): in the SPop history the engine reports no error at all, in
    particular no Commit fails *)
Theorem spop_correction_needed :
  ~ (forall cs o,
       tcalls_ok (empty_world o) cs -> Forall call_kv_ok cs ->
       hist_guard false [] cs = true ->
       Forall (fun p => fst p <> RErr) (run_both_res (empty_world o) sworld0 cs) ->
       Forall (fun p => fst p = snd p) (run_both_res (empty_world o) sworld0 cs)).
Proof.
  intros H.
  destruct cx_spop_readonly_ok as [H1 H2]. destruct cx_spop_readonly_spec as (H3 & _ & H4).
  specialize (H cx_spop_readonly cx_opts H1 H2 H3). rewrite H4 in H.
  assert (Hne : Forall (fun p : res * res => fst p <> RErr)
                  [(ROk, ROk); (ROk, ROk); (ROk, ROk); (ROk, ROk); (RInadmissible, RErr)]).
  { repeat constructor; discriminate. }
  specialize (H Hne).
  inversion H as [|x1 l1 _ G1]; subst. inversion G1 as [|x2 l2 _ G2]; subst.
  inversion G2 as [|x3 l3 _ G3]; subst. inversion G3 as [|x4 l4 _ G4]; subst.
  inversion G4 as [|x5 l5 E _]; subst. discriminate E.
Qed.

(** [hist_guard_corrected] is a strengthening of [hist_guard] *)
Lemma existsb_sb_mem_mono : forall (S wr1 wr2 : list (N * bytes)), incl wr1 wr2 ->
  existsb (fun x => sb_mem x wr1) S = true -> existsb (fun x => sb_mem x wr2) S = true.
Proof.
  intros S wr1 wr2 Hi H. apply existsb_exists in H as (x & Hx & Hm).
  apply existsb_exists. exists x. split; [exact Hx|]. apply sb_mem_In. apply Hi. apply sb_mem_In. exact Hm.
Qed.

Lemma hist_guard_mono : forall cs a1 a2 wr1 wr2,
  (a1 = true -> a2 = true) -> incl wr1 wr2 ->
  hist_guard a2 wr2 cs = true -> hist_guard a1 wr1 cs = true.
Proof.
  induction cs as [|[now c] r IH]; intros a1 a2 wr1 wr2 Ha Hi H; [reflexivity|].
  destruct c as [wrb id|o| | | |o]; cbn [hist_guard] in *.
  - exact H.
  - apply andb_true_iff in H as [H1 H2]. apply andb_true_iff. split.
    + destruct a1; [|reflexivity]. rewrite (Ha eq_refl) in H1. cbn [negb orb] in *.
      destruct (is_blind_all o); [reflexivity|]. cbn [orb] in *.
      apply negb_true_iff in H1. apply negb_true_iff.
      destruct (existsb (fun x => sb_mem x wr1) (op_structs_all o)) eqn:E; [|reflexivity].
      rewrite (existsb_sb_mem_mono _ wr1 wr2 Hi E) in H1. discriminate H1.
    + refine (IH a1 a2 _ _ Ha _ H2).
      destruct a1; cbn [andb].
      * rewrite (Ha eq_refl). cbn [andb]. destruct (writes_all o); [|exact Hi].
        apply incl_app; [apply incl_appl, incl_refl|apply incl_appr, Hi].
      * destruct (a2 && writes_all o); [apply incl_appr, Hi|exact Hi].
  - exact H.
  - exact H.
  - exact (IH _ _ _ _ Ha Hi H).
  - exact (IH _ _ _ _ Ha Hi H).
Qed.

Lemma hist_guard_corrected_stronger : forall cs a wr0,
  hist_guard_corrected a wr0 cs = true -> hist_guard a wr0 cs = true.
Proof.
  induction cs as [|[now c] r IH]; intros a wr0 H; [reflexivity|].
  destruct c as [wrb id|o| | | |o]; cbn [hist_guard hist_guard_corrected] in *.
  - exact (IH _ _ H).
  - apply andb_true_iff in H as [H1 H2]. unfold guard_call in H1. apply andb_true_iff in H1 as [H1 _].
    rewrite H1. cbn [andb]. exact (IH _ _ H2).
  - apply (hist_guard_mono r false a [] wr0); [discriminate|intros x []|exact (IH _ _ H)].
  - exact (IH _ _ H).
  - exact (IH _ _ H).
  - exact (IH _ _ H).
Qed.

Print Assumptions history_refines.
Print Assumptions history_state_refines.
Print Assumptions history_state_refines_prefix.
Print Assumptions step_both_res_inv.
Print Assumptions history_refines_as_stated_is_false.
Print Assumptions spop_correction_needed.
Print Assumptions hist_guard_corrected_stronger.
