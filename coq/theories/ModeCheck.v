(** ModeCheck.v — DB.checkEntryIdxMode (db.go): Open refuses a directory whose
    contents were written under the other family of index modes.  The loop over
    the directory listing computes two flags — "has a *.dat file" and "has an
    entry named bpt" — (ioutil.ReadDir sorts by name; the early break only
    skips entries once both flags are known), then applies the two tests below. *)
From Coq Require Import NArith Bool List.
Import ListNotations.
Open Scope N_scope.

Definition sparse_mode (m : N) : bool := m =? 2.

(** true = Open returns an error *)
Definition mode_refused (m : N) (has_dat has_bpt : bool) : bool :=
  (negb (sparse_mode m) && has_dat && has_bpt) || (sparse_mode m && negb has_bpt && has_dat).

(** what a directory looks like after a successful Open in mode [m] (Open in a
    sparse mode creates bpt/ before any data file; RAM modes never create it;
    every successful Open leaves at least the active data file) *)
Definition dir_of_mode (m : N) : bool * bool := (true, sparse_mode m).

Theorem mode_switch_refused_iff : forall m1 m2,
  mode_refused m2 (fst (dir_of_mode m1)) (snd (dir_of_mode m1)) = xorb (sparse_mode m1) (sparse_mode m2).
Proof. intros m1 m2. unfold mode_refused, dir_of_mode; cbn. destruct (sparse_mode m1), (sparse_mode m2); reflexivity. Qed.

(** an empty directory (no data file) is accepted by every mode *)
Theorem empty_dir_accepted : forall m has_bpt, mode_refused m false has_bpt = false.
Proof. intros m b. unfold mode_refused. destruct (sparse_mode m), b; reflexivity. Qed.

(** the flag computation over a sorted listing, as the Go loop does it *)
Fixpoint scan_listing (names : list (bool * bool)) (has_dat has_bpt : bool) : bool * bool :=
  match names with
  | [] => (has_dat, has_bpt)
  | (is_dat, is_bpt) :: r =>
      if is_dat then
        if has_bpt then (true, has_bpt)               (* break *)
        else scan_listing r true (has_bpt || is_bpt)
      else scan_listing r has_dat (has_bpt || is_bpt)
  end.

Lemma scan_listing_flags : forall names d b,
  scan_listing names d b =
  (d || existsb fst names, b || existsb snd names) \/
  (* the early break: both flags are already true *)
  (fst (scan_listing names d b) = true /\ snd (scan_listing names d b) = true).
Proof.
  induction names as [|[x y] r IH]; intros d b; cbn.
  - left. now rewrite !orb_false_r.
  - destruct x; cbn.
    + destruct b; cbn; [right; split; reflexivity|].
      destruct (IH true y) as [E | E].
      * left. rewrite E. cbn. now rewrite orb_true_r.
      * right. exact E.
    + destruct (IH d (b || y)) as [E | E].
      * left. rewrite E. cbn. now rewrite orb_assoc.
      * right. exact E.
Qed.
