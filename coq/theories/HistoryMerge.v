(** HistoryMerge.v — the whole-history refinement of HistoryRefine.v extended to
    histories WITH Merges.  A history is a list of timed actions ([tact]): a
    call with its clock reading, or a Merge with its clock reading and the
    first of its internal transaction ids.  Engine model and L0 specification
    run side by side ([run_m], [run_m_res]); the specification ignores Merge
    (Merge is the identity on the logical contents).  The theorems hold
    whatever Merge returns (success, refusal, a rejected rewrite transaction).

    THEOREM A [history_merge_refines] (+ [history_merge_state_refines],
    [history_merge_refines_no_push]): EVERY call returns exactly the
    specification's result, for every history such that
      - ids are unique, Open is not called inside a transaction, Merge runs
        outside transactions with internal ids no record carries ([tacts_ok]);
      - timestamp + TTL does not wrap ([tact_kv_ok], from KVHistory);
      - the calls satisfy HistoryRefine's guard ([hist_guard_corrected]);
      - every key/value read is made at a clock not earlier than the clocks of
        the Merges before it — not needed while the engine is in
        HintKeyValAndRAMIdxMode ([clocks_ok]; simple form [clocks_mono]);
      - no Open follows a Merge ([opens_before_merges], finding F30);
      - every list of the specification's state is empty whenever Merge runs
        ([merges_listless], finding F14; implied by "no RPush / LPush").
    THEOREM B [history_merge_kv_refines]: Opens anywhere (also after Merges),
    any list / set / sorted-set calls, only the key/value part of the guard
    ([hist_guard_kv]) and the clocks ([clocks_ok]: after an Open has followed
    a Merge the clock hypothesis is needed in every mode): every call that does
    not look at the structure indexes — Begin, Put, Delete, Get, GetAll,
    RangeScan, PrefixScan, PrefixSearchScan, Commit, Rollback, Close, Open —
    returns the specification's result ([kv_agree]).

    Why: Merge breaks [Inv] (the index keeps tombstones and expired records
    whose log records are gone), so HistoryRefine's invariant [J] cannot be
    used.  The key/value side runs on [K]: WInv, DSInv, MergeCrash's [KInv T]
    (the index is the replay of the log up to records dead by T) and
    "kvrel w s' for a state s' with the same live pairs at T as the
    specification's" ([kv_same_live]; s' IS the specification's state until an
    Open follows a Merge); [Inv] is kept until the first Merge.  Reads in the
    mode that goes back to the segment need only the live index records on
    disk ([on_disk_live], [kv_reads_mode_irrelevant_live], [kinv_on_disk_live]).
    The structure side [D] is HistoryRefine's (dsrel, the key invariants,
    DSHistory.hinv); Merge leaves ix_set / ix_zset alone (MergeDS) and the list
    index when every list is empty ([merge_list_unchanged]).

    Part 9: every added hypothesis is needed ([clock_hypothesis_needed],
    [clock_hypothesis_needed_after_open], [no_open_after_merge_needed],
    [lists_empty_at_merge_needed], [kv_guard_needed]); the mode-0 exemption is
    real ([hm_clock1_mode0]); a key/value bucket whose records are all dead
    vanishes from the index at the reopen and no read can tell
    ([merge_reopen_drops_dead_bucket]); remark [hm_violations_agree]. *)
From Coq Require Import Sorted Lia.
From Verif Require Import Bytes BytesFacts Codec Dec DecFacts ListDS ListFacts SetDS SetFacts ZSetDS Index Engine Spec
  TxFacts IndexFacts ReplayFacts KVRefine ApplyFacts Merge MergeFacts MergeDS KVHistory DSHistory HistoryRefine MergeCrash.
Open Scope N_scope.

Local Opaque N.pow.
Local Opaque commit_loop.

(** ================= part 0: timed actions ================= *)
Inductive tact := TCall (now : N) (c : call) | TMerge (now txid0 : N).

Definition mstep (w : world) (a : tact) : world :=
  match a with
  | TCall now c => fst (step now w c)
  | TMerge now txid0 => fst (do_merge now w txid0)
  end.

(** engine and specification side by side; the specification ignores Merge *)
Fixpoint run_m (w : world) (sw : sworld) (l : list tact) : world * sworld :=
  match l with
  | [] => (w, sw)
  | TCall now c :: r =>
      let '(w', res) := step now w c in
      run_m w' (fst (spec_step now (res_ok res) sw c)) r
  | TMerge now txid0 :: r => run_m (fst (do_merge now w txid0)) sw r
  end.

(** the results of the calls, with the call *)
Fixpoint run_m_res (w : world) (sw : sworld) (l : list tact) : list (call * (res * res)) :=
  match l with
  | [] => []
  | TCall now c :: r =>
      let '(w', res) := step now w c in
      let '(sw', sres) := spec_step now (res_ok res) sw c in
      (c, (res, sres)) :: run_m_res w' sw' r
  | TMerge now txid0 :: r => run_m_res (fst (do_merge now w txid0)) sw r
  end.

(** ================= part 1: sorted buckets, same live pairs ================= *)
Definition slt (a b : bytes * kvval) : Prop := bltb (fst a) (fst b) = true.
Definition ssorted (m : skv) : Prop := StronglySorted slt m.
Definition skv_wf (s : sstate) : Prop := forall b m, alookup (s_kv s) b = Some m -> ssorted m.

Lemma ssorted_inv : forall k v t, ssorted ((k, v) :: t) ->
  ssorted t /\ Forall (fun kv => bltb k (fst kv) = true) t.
Proof. intros k v t H. inversion H as [|x l Hs Hf]; subst. split; [exact Hs|exact Hf]. Qed.

Lemma ssorted_cons : forall k v t, ssorted t -> Forall (fun kv => bltb k (fst kv) = true) t ->
  ssorted ((k, v) :: t).
Proof. intros k v t Hs Hf. constructor; [exact Hs|exact Hf]. Qed.

Lemma sForall_lt_trans : forall (k k' : bytes) (t : skv), bltb k k' = true ->
  Forall (fun kv => bltb k' (fst kv) = true) t -> Forall (fun kv => bltb k (fst kv) = true) t.
Proof.
  intros k k' t H Hf. eapply Forall_impl; [|exact Hf].
  intros kv Hk. cbn beta in Hk. apply (bltb_trans k k' (fst kv)); assumption.
Qed.

Lemma skv_put_forall : forall (P : bytes -> Prop) m k v, P k ->
  Forall (fun kv => P (fst kv)) m -> Forall (fun kv => P (fst kv)) (skv_put m k v).
Proof.
  intros P m k v Hk H. induction H as [|[k' v'] l Hx Hl IH]; cbn [skv_put].
  - constructor; [exact Hk|constructor].
  - destruct (bcompare k k').
    + constructor; [exact Hk|exact Hl].
    + constructor; [exact Hk|]. constructor; [exact Hx|exact Hl].
    + constructor; [exact Hx|exact IH].
Qed.

Lemma skv_del_forall : forall (P : bytes * kvval -> Prop) m k,
  Forall P m -> Forall P (skv_del m k).
Proof.
  intros P m k H. induction H as [|[k' v'] l Hx Hl IH]; cbn [skv_del]; [constructor|].
  destruct (bytes_eqb k' k); [exact Hl|]. constructor; [exact Hx|exact IH].
Qed.

Lemma ssorted_put : forall m k v, ssorted m -> ssorted (skv_put m k v).
Proof.
  induction m as [|[k' v'] t IH]; intros k v Hs; cbn [skv_put].
  - apply ssorted_cons; constructor.
  - apply ssorted_inv in Hs as [Hst Hf]. destruct (bcompare k k') eqn:E.
    + apply bcompare_eq in E. subst k'. apply ssorted_cons; assumption.
    + apply bltb_lt in E. apply ssorted_cons.
      * apply ssorted_cons; assumption.
      * constructor; [exact E|exact (sForall_lt_trans k k' t E Hf)].
    + apply bltb_gt in E. apply ssorted_cons; [exact (IH k v Hst)|].
      apply (skv_put_forall (fun x => bltb k' x = true)); assumption.
Qed.

Lemma ssorted_del : forall m k, ssorted m -> ssorted (skv_del m k).
Proof.
  induction m as [|[k' v'] t IH]; intros k Hs; cbn [skv_del]; [exact Hs|].
  apply ssorted_inv in Hs as [Hst Hf]. destruct (bytes_eqb k' k); [exact Hst|].
  apply ssorted_cons; [exact (IH k Hst)|]. apply skv_del_forall. exact Hf.
Qed.

Lemma sfilter_forall : forall (P : bytes * kvval -> Prop) (p : bytes * kvval -> bool) m,
  Forall P m -> Forall P (filter p m).
Proof.
  intros P p m H. induction H as [|x l Hx Hl IH]; cbn [filter]; [constructor|].
  destruct (p x); [constructor; assumption|exact IH].
Qed.

(** filtering commutes with the two updates of a sorted bucket *)
Lemma filter_skv_del : forall (p : bytes * kvval -> bool) m k, ssorted m ->
  filter p (skv_del m k) = skv_del (filter p m) k.
Proof.
  intros p. induction m as [|[k' v'] t IH]; intros k Hs; [reflexivity|].
  apply ssorted_inv in Hs as [Hst Hf]. cbn [skv_del filter].
  destruct (bytes_eqb k' k) eqn:E.
  - apply bytes_eqb_eq in E. subst k'. destruct (p (k, v')).
    + cbn [skv_del]. rewrite bytes_eqb_refl. reflexivity.
    + symmetry. apply skv_del_notin. apply sfilter_forall. exact Hf.
  - cbn [filter]. destruct (p (k', v')).
    + cbn [skv_del]. rewrite E. rewrite (IH k Hst). reflexivity.
    + exact (IH k Hst).
Qed.

Lemma filter_skv_put : forall (p : bytes * kvval -> bool) m k v, ssorted m ->
  filter p (skv_put m k v) = if p (k, v) then skv_put (filter p m) k v else skv_del (filter p m) k.
Proof.
  intros p. induction m as [|[k' v'] t IH]; intros k v Hs.
  - cbn [skv_put filter]. destruct (p (k, v)); reflexivity.
  - apply ssorted_inv in Hs as [Hst Hf]. cbn [skv_put].
    destruct (bcompare k k') eqn:E.
    + apply bcompare_eq in E. subst k'. cbn [filter].
      destruct (p (k, v)) eqn:E1; destruct (p (k, v')) eqn:E2.
      * cbn [skv_put]. rewrite bcompare_refl. reflexivity.
      * symmetry. apply skv_put_lt. apply sfilter_forall. exact Hf.
      * cbn [skv_del]. rewrite bytes_eqb_refl. reflexivity.
      * symmetry. apply skv_del_notin. apply sfilter_forall. exact Hf.
    + assert (Hall : Forall (fun kv => bltb k (fst kv) = true) ((k', v') :: t)).
      { apply bltb_lt in E. constructor; [exact E|exact (sForall_lt_trans k k' t E Hf)]. }
      change (filter p ((k, v) :: (k', v') :: t)) with
        (if p (k, v) then (k, v) :: filter p ((k', v') :: t) else filter p ((k', v') :: t)).
      destruct (p (k, v)).
      * symmetry. apply skv_put_lt. apply sfilter_forall. exact Hall.
      * symmetry. apply skv_del_notin. apply sfilter_forall. exact Hall.
    + change (filter p ((k', v') :: skv_put t k v)) with
        (if p (k', v') then (k', v') :: filter p (skv_put t k v) else filter p (skv_put t k v)).
      rewrite (IH k v Hst). cbn [filter].
      assert (Hne : bytes_eqb k' k = false).
      { apply bytes_eqb_neq. apply bltb_gt in E. exact (bltb_neq _ _ E). }
      destruct (p (k', v')); [|reflexivity].
      destruct (p (k, v)).
      * cbn [skv_put]. rewrite E. reflexivity.
      * cbn [skv_del]. rewrite Hne. reflexivity.
Qed.

Definition vlive (T : N) (kv : bytes * kvval) : bool := v_live T (snd kv).

Lemma live_part_getdef : forall T (kvs : list (bytes * skv)) b,
  filter (vlive T) (getdef kvs b []) = live_part T (alookup kvs b).
Proof. intros T kvs b. unfold getdef, live_part. destruct (alookup kvs b); reflexivity. Qed.

Lemma skv_wf_getdef : forall s b, skv_wf s -> ssorted (getdef (s_kv s) b []).
Proof.
  intros s b H. unfold getdef. destruct (alookup (s_kv s) b) as [m|] eqn:E; [exact (H b m E)|constructor].
Qed.

Lemma skv_wf_apply : forall s e, skv_wf s -> skv_wf (spec_apply_kv s e).
Proof.
  intros s e H. unfold spec_apply_kv. destruct (e_ds e =? DS_KV); [|exact H].
  destruct (e_flag e =? F_Set); intros b m Hb; cbn [s_kv] in Hb; rewrite alookup_aset in Hb;
    (destruct (bytes_eqb (e_bucket e) b); [|exact (H b m Hb)]); injection Hb as Hb; subst m.
  - apply ssorted_put. apply skv_wf_getdef. exact H.
  - apply ssorted_del. apply skv_wf_getdef. exact H.
Qed.

Lemma skv_wf_fold : forall es s, skv_wf s -> skv_wf (fold_left spec_apply_kv es s).
Proof.
  induction es as [|e es IH]; intros s H; [exact H|]. cbn [fold_left]. apply IH. apply skv_wf_apply. exact H.
Qed.

Lemma skv_wf_skv : forall s s', s_kv s = s_kv s' -> skv_wf s -> skv_wf s'.
Proof. intros s s' E H b m Hb. rewrite <- E in Hb. exact (H b m Hb). Qed.

Lemma same_live_apply : forall T s s' e, skv_wf s -> skv_wf s' ->
  kv_same_live T s s' -> kv_same_live T (spec_apply_kv s e) (spec_apply_kv s' e).
Proof.
  intros T s s' e Hw Hw' H. unfold spec_apply_kv. destruct (e_ds e =? DS_KV); [|exact H].
  pose proof (H (e_bucket e)) as Hb. rewrite <- !live_part_getdef in Hb.
  pose proof (skv_wf_getdef s (e_bucket e) Hw) as S1. pose proof (skv_wf_getdef s' (e_bucket e) Hw') as S2.
  destruct (e_flag e =? F_Set); intros b; cbn [s_kv]; rewrite !alookup_aset;
    (destruct (bytes_eqb (e_bucket e) b); [|exact (H b)]); cbn [live_part].
  - change (fun kv : bytes * kvval => v_live T (snd kv)) with (vlive T).
    rewrite (filter_skv_put (vlive T) _ _ _ S1), (filter_skv_put (vlive T) _ _ _ S2), Hb. reflexivity.
  - change (fun kv : bytes * kvval => v_live T (snd kv)) with (vlive T).
    rewrite (filter_skv_del (vlive T) _ _ S1), (filter_skv_del (vlive T) _ _ S2), Hb. reflexivity.
Qed.

Lemma same_live_fold : forall T es s s', skv_wf s -> skv_wf s' ->
  kv_same_live T s s' -> kv_same_live T (fold_left spec_apply_kv es s) (fold_left spec_apply_kv es s').
Proof.
  induction es as [|e es IH]; intros s s' Hw Hw' H; [exact H|]. cbn [fold_left].
  apply IH; [apply skv_wf_apply; exact Hw|apply skv_wf_apply; exact Hw'|apply same_live_apply; assumption].
Qed.

Lemma same_live_skv : forall T s1 s2 s1' s2', s_kv s1 = s_kv s1' -> s_kv s2 = s_kv s2' ->
  kv_same_live T s1 s2 -> kv_same_live T s1' s2'.
Proof. intros T s1 s2 s1' s2' E1 E2 H b. rewrite <- E1, <- E2. exact (H b). Qed.

Lemma same_live_refl : forall T s s', s_kv s' = s_kv s -> kv_same_live T s s'.
Proof. intros T s s' E b. rewrite E. reflexivity. Qed.

(** later clocks see fewer live pairs *)
Lemma v_live_mono : forall T T' v, T <= T' -> v_live T' v = true -> v_live T v = true.
Proof.
  intros T T' v HT H. unfold v_live in *. destruct (v_ttl v =? 0); [reflexivity|]. cbn [orb] in *.
  apply N.ltb_lt in H. apply N.ltb_lt. lia.
Qed.

Lemma filter_filter_impl : forall {A} (p q : A -> bool) l,
  (forall x, q x = true -> p x = true) -> filter q (filter p l) = filter q l.
Proof.
  intros A p q l H. induction l as [|x l IH]; [reflexivity|]. cbn [filter].
  destruct (p x) eqn:Ep.
  - cbn [filter]. rewrite IH. reflexivity.
  - destruct (q x) eqn:Eq; [rewrite (H x Eq) in Ep; discriminate Ep|exact IH].
Qed.

Lemma live_part_mono : forall T T' m, T <= T' ->
  live_part T' m = filter (vlive T') (live_part T m).
Proof.
  intros T T' m HT. destruct m as [l|]; [|reflexivity]. cbn [live_part]. symmetry.
  apply (filter_filter_impl (vlive T) (vlive T')). intros x Hx. exact (v_live_mono T T' (snd x) HT Hx).
Qed.

Lemma same_live_mono : forall T T' s s', T <= T' -> kv_same_live T s s' -> kv_same_live T' s s'.
Proof.
  intros T T' s s' HT H b. rewrite (live_part_mono T T' _ HT), (live_part_mono T T' (alookup (s_kv s') b) HT), (H b).
  reflexivity.
Qed.

Lemma dead_by_mono : forall T T' r, T <= T' -> dead_by T r -> dead_by T' r.
Proof.
  intros T T' r HT [H|[n [Hn He]]]; [left; exact H|right]. exists n. split; [lia|exact He].
Qed.

Lemma kinv_mono : forall T T' w, T <= T' -> KInv T w -> KInv T' w.
Proof.
  intros T T' w HT H b k. destruct (H b k) as [E|[E [r [Hx Hd]]]]; [left; exact E|right].
  split; [exact E|]. exists r. split; [exact Hx|exact (dead_by_mono T T' r HT Hd)].
Qed.

(** the abstraction of a sorted index is a sorted bucket *)
Lemma abs_kv_ssorted : forall ix, ksorted ix -> ssorted (abs_kv ix).
Proof.
  induction ix as [|[k r] t IH]; intros Hs; [constructor|].
  apply ksorted_inv in Hs as [Hst Hfa]. rewrite abs_kv_cons.
  destruct (kr_flag r =? F_Del); [exact (IH Hst)|].
  apply ssorted_cons; [exact (IH Hst)|]. exact (abs_forall (fun x => bltb k x = true) t Hfa).
Qed.

Lemma kvrel_skv_wf : forall w s, kvrel w s -> skv_wf s.
Proof.
  intros w s H b m Hb. specialize (H b). destruct (alookup (ix_kv (w_ix w)) b) as [ix|].
  - destruct H as (Hs & _ & _ & Ha). rewrite Ha in Hb. injection Hb as Hb. subst m. exact (abs_kv_ssorted ix Hs).
  - rewrite H in Hb. discriminate Hb.
Qed.

(** ================= part 2: key/value reads when dead records have left the disk ================= *)
(** every index record that is not dead at [now] points at its record on disk
    (KVRefine.on_disk asks this of every index record; Merge removes the files
    that hold tombstones and expired records while the index keeps them) *)
Definition on_disk_live (now : N) (w : world) : Prop := forall b ix k r,
  alookup (ix_kv (w_ix w)) b = Some ix -> In (k, r) ix -> kr_dead now r = false ->
  exists e, disk_read (w_disk w) (kr_fid r) (kr_pos r) = Some e /\ e_key e = k /\ e_value e = kr_val r.

Lemma wrap_items_live : forall now lim rs acc x, In x (wrap_items now lim rs acc) -> kr_dead now (snd x) = false.
Proof.
  intros now lim rs. induction rs as [|[k r] t IH]; intros acc x H; [destruct H|].
  cbn [wrap_items] in H. destruct (kr_dead now r) eqn:Ed.
  - exact (IH _ _ H).
  - destruct ((0 <? lim)%Z && (acc <? lim)%Z || (lim =? -1)%Z).
    + destruct H as [H|H]; [subst x; exact Ed|exact (IH _ _ H)].
    + exact (IH _ _ H).
Qed.

Theorem kv_reads_mode_irrelevant_live : forall now w t o m,
  on_disk_live now w -> is_kv_read o = true ->
  snd (do_op now (with_mode w m) t o) = snd (do_op now (with_mode w 0) t o).
Proof.
  intros now w t o m Hd Hk.
  assert (Hall : forall b kx lim rs acc, alookup (ix_kv (w_ix w)) b = Some kx -> (forall x, In x rs -> In x kx) ->
                 Forall (rec_on_disk (w_disk w)) (wrap_items now lim rs acc)).
  { intros b kx lim rs acc Hb Hin. apply Forall_forall. intros [k r] Hx.
    pose proof (wrap_items_live _ _ _ _ _ Hx) as Hl. cbn [snd] in Hl.
    destruct (Hd b kx k r Hb (Hin _ (wrap_items_in _ _ _ _ _ Hx)) Hl) as (e & He). exists e. exact He. }
  destruct o; try discriminate Hk; clear Hk; unfold do_op; cbn [ds_read with_mode w_ix w_committed w_opts o_mode w_disk];
    destruct (alookup (ix_kv (w_ix w)) b) as [kx|] eqn:Eb; try reflexivity.
  - (* OGet *)
    destruct (kv_find kx k) as [r|] eqn:Ef; [|reflexivity].
    destruct (negb (nmem (kr_txid r) (w_committed w))); [reflexivity|].
    destruct (kr_dead now r) eqn:Edd; [reflexivity|].
    destruct (Hd b kx k r Eb (kv_find_in _ _ _ Ef) Edd) as (e & He & Hk & Hv).
    rewrite He, Hk, Hv. destruct (m =? 0); reflexivity.
  - (* OGetAll *)
    cbn [snd]. apply entries_res_on_disk. apply (Hall b kx _ _ _ Eb). intros x Hx. exact Hx.
  - (* ORangeScan *)
    destruct (bltb e s); [reflexivity|]. cbn [snd]. apply entries_res_on_disk. apply (Hall b kx _ _ _ Eb).
    intros x Hx. exact (kv_range_in _ _ _ _ Hx).
  - (* OPrefixScan *)
    pose proof (kv_prefix_scan_in now (fun _ => true) kx p off lim) as Hin.
    destruct (kv_prefix_scan now (fun _ => true) kx p off lim) as [rs coff]. cbn [fst snd] in *.
    apply entries_res_on_disk. apply (Hall b kx _ _ _ Eb). exact Hin.
  - (* OPrefixSearchScan *)
    destruct bad; [reflexivity|].
    pose proof (kv_prefix_scan_in now (fun r => bmem r ms) kx p off lim) as Hin.
    destruct (kv_prefix_scan now (fun r => bmem r ms) kx p off lim) as [rs coff]. cbn [fst snd] in *.
    apply entries_res_on_disk. apply (Hall b kx _ _ _ Eb). exact Hin.
Qed.

(** [KInv T] gives it at every clock not earlier than T *)
Lemma kinv_on_disk_live : forall T now w s,
  WInv w -> KInv T w -> kvrel w s -> T <= now -> on_disk_live now w.
Proof.
  intros T now w s HW HK Hrel HT b ix k r Hb Hin Hlive.
  destruct (wi_w2 w HW) as (_ & Hwf & _).
  pose proof (Hrel b) as Hbb. rewrite Hb in Hbb. destruct Hbb as (Hs & Hok & _ & _).
  assert (Hkvl : kvl (ix_kv (w_ix w)) b k = Some r).
  { unfold kvl. rewrite Hb. exact (ksorted_in_find ix k r Hs Hin). }
  pose proof (HK b k) as H. rewrite Hkvl in H. destruct H as [H|[_ [r' [Hx Hd]]]].
  - destruct (kv_run_some_inv _ b k _ r H) as [[[f p] e] (Hrr & Hc & Er)].
    unfold run_cond in Hc. cbn [snd] in Hc. apply andb_true_iff in Hc. destruct Hc as [_ Hm].
    destruct (kmatch_inv b k e Hm) as (_ & _ & Hke).
    subst r. unfold kr_of. cbn [fst snd krec_of kr_fid kr_pos kr_val].
    exists e. split; [exact (disk_read_wf _ f p e Hwf Hrr)|]. split; [exact Hke|reflexivity].
  - injection Hx as Hx. subst r'. exfalso.
    destruct (Hok k r Hin) as [Hfl Hw64].
    pose proof (dead_by_dead now r Hfl Hw64 (dead_by_mono T now r HT Hd)) as X. congruence.
Qed.

(** a key/value read on a world that satisfies the invariants, at a clock not
    earlier than T (any RAM index mode), or at any clock in mode 0 *)
Lemma kv_read_res_live : forall T now w s t o,
  WInv w -> KInv T w -> kvrel w s -> is_kv_read o = true ->
  T <= now \/ o_mode (w_opts w) = 0 ->
  Some (snd (do_op now w t o)) = spec_kv_read now s o.
Proof.
  intros T now w s t o HW HK Hrel Hrd [HT|Hm].
  - pose proof (kinv_on_disk_live T now w s HW HK Hrel HT) as Hd.
    pose proof (kv_reads_mode_irrelevant_live now w t o (o_mode (w_opts w)) Hd Hrd) as Hmi.
    rewrite with_mode_self in Hmi. rewrite Hmi.
    assert (Hrel0 : kvrel (with_mode w 0) s).
    { apply (kvrel_ext w); [reflexivity|reflexivity|exact Hrel]. }
    exact (proj2 (proj2 (kv_reads_refine now (with_mode w 0) s t o eq_refl Hrel0 Hrd))).
  - exact (proj2 (proj2 (kv_reads_refine now w s t o Hm Hrel Hrd))).
Qed.

(** reads of states with sorted buckets and the same live pairs *)
Lemma ssorted_nodup : forall m, ssorted m -> NoDup (map fst m).
Proof.
  induction m as [|[k v] t IH]; intros Hs; [constructor|].
  apply ssorted_inv in Hs as [Hst Hf]. cbn [map fst]. constructor; [|exact (IH Hst)].
  intros X. apply in_map_iff in X. destruct X as [y [Ey Hy]].
  rewrite Forall_forall in Hf. pose proof (Hf y Hy) as Hlt. rewrite Ey, bltb_irrefl in Hlt. discriminate Hlt.
Qed.

Lemma spec_read_live_wf : forall T s q, skv_wf s ->
  spec_kv_read T s q = read_live (fun b => live_part T (alookup (s_kv s) b)) q.
Proof.
  intros T s q Hwf.
  assert (Hnd : forall b m, alookup (s_kv s) b = Some m -> NoDup (map fst m)).
  { intros b m Hb. exact (ssorted_nodup m (Hwf b m Hb)). }
  destruct q; try reflexivity; cbn [spec_kv_read read_live];
    destruct (alookup (s_kv s) b) as [m|] eqn:Eb; cbn [live_part].
  - rewrite (skv_get_filter _ m k (Hnd b m Eb)). cbn [snd].
    destruct (skv_get m k) as [v|]; [|reflexivity]. destruct (v_live T v); reflexivity.
  - reflexivity.
  - reflexivity.
  - reflexivity.
  - reflexivity.
  - destruct (bltb e s0); reflexivity.
  - reflexivity.
  - cbn [to_pairs map filter]. cbv zeta. change (zlen (@nil (bytes * bytes))) with 0%Z.
    unfold zmin. rewrite skipn_nil, firstn_nil.
    destruct (0 <? lim)%Z; [reflexivity|]. destruct (lim =? -1)%Z; reflexivity.
  - reflexivity.
  - destruct bad; [reflexivity|]. cbn [to_pairs map filter]. cbv zeta. change (zlen (@nil (bytes * bytes))) with 0%Z.
    unfold zmin. rewrite skipn_nil. cbn [filter]. rewrite firstn_nil.
    destruct (0 <? lim)%Z; [reflexivity|]. destruct (lim =? -1)%Z; reflexivity.
Qed.

Lemma same_live_reads_wf : forall T s s' q,
  skv_wf s -> skv_wf s' -> kv_same_live T s s' -> spec_kv_read T s q = spec_kv_read T s' q.
Proof.
  intros T s s' q H1 H2 H. rewrite (spec_read_live_wf T s q H1), (spec_read_live_wf T s' q H2).
  apply read_live_ext. exact H.
Qed.

(** ================= part 3: what Merge leaves alone ================= *)
Lemma do_commit_frame : forall w t,
  w_opts (fst (do_commit None w t)) = w_opts w /\ w_closed (fst (do_commit None w t)) = w_closed w.
Proof.
  intros w t. unfold do_commit. destruct (tx_pend t) as [|e0 rest]; [split; reflexivity|].
  destruct (existsb _ (e0 :: rest)); [split; reflexivity|].
  destruct (commit_loop _ _ _ _) as [st written]. split; reflexivity.
Qed.

Lemma merge_file_frame : forall now w fid txid,
  w_tx (fst (merge_file now w fid txid)) = w_tx w /\
  w_opts (fst (merge_file now w fid txid)) = w_opts w /\
  w_closed (fst (merge_file now w fid txid)) = w_closed w.
Proof.
  intros now w fid txid. split; [apply merge_file_tx|]. rewrite merge_file_eq.
  destruct (disk_get (w_disk w) fid); [|split; reflexivity].
  destruct (merge_pend now w fid txid s) as [|e l]; [cbn [fst]; destruct (fid =? w_maxfid w); split; reflexivity|].
  cbv beta iota zeta. destruct (do_commit_frame (new_file w) (mkTx txid true (e :: l))) as [A B].
  destruct (snd (do_commit None (new_file w) (mkTx txid true (e :: l)))); cbn [fst drop_file w_opts w_closed].
  - split; [exact A|exact B].
  - split; reflexivity.
Qed.

Lemma merge_files_frame : forall fids now w txid,
  w_tx (fst (merge_files now w fids txid)) = w_tx w /\
  w_opts (fst (merge_files now w fids txid)) = w_opts w /\
  w_closed (fst (merge_files now w fids txid)) = w_closed w.
Proof.
  induction fids as [|f r IH]; intros now w txid; [repeat split|].
  cbn [merge_files]. destruct (merge_file_frame now w f txid) as (A & B & C).
  destruct (merge_file now w f txid) as [w1 ok]. cbn [fst] in A, B, C.
  destruct ok; [|cbn [fst]; repeat split; assumption].
  destruct (IH now w1 (txid + 1)) as (A' & B' & C'). rewrite A', B', C'. repeat split; assumption.
Qed.

Lemma do_merge_frame : forall now w txid0,
  w_tx (fst (do_merge now w txid0)) = w_tx w /\
  w_opts (fst (do_merge now w txid0)) = w_opts w /\
  w_closed (fst (do_merge now w txid0)) = w_closed w.
Proof.
  intros now w txid0. unfold do_merge. destruct (w_closed w) eqn:E; [repeat split; exact E|].
  destruct (disk_fids (w_disk w)) as [|a [|b l]]; [repeat split; exact E|repeat split; exact E|].
  destruct (merge_files_frame (a :: b :: l) now w txid0) as (A & B & C). rewrite C. repeat split; assumption.
Qed.

Local Opaque do_commit do_merge.

(** ================= part 4: the key/value invariant [K] ================= *)
Definition is_kv_write (o : op) : bool := match o with OPut _ _ _ _ _ | ODelete _ _ => true | _ => false end.
Definition is_kv_op (o : op) : bool := is_kv_read o || is_kv_write o.
(** the calls whose results do not depend on the list / set / sorted-set indexes *)
Definition kvish (c : call) : bool := match c with COp o => is_kv_op o | _ => true end.

Definition tx_kv (a : bool) (wr : list (N * bytes)) (w : world) (sw : sworld) : Prop :=
  match w_tx w, sw_tx sw with
  | TxActive t, SActive _ _ => a = tx_w t /\ (tx_w t = true -> kvpend wr t)
  | _, _ => True
  end.

(** [m]: a Merge has run; [x]: no Open has followed a Merge (the key/value
    index is still exactly the specification's); [T]: a clock not earlier than
    the clocks of the Merges so far *)
Definition K (m x : bool) (T : N) (a : bool) (wr : list (N * bytes)) (w : world) (sw : sworld) : Prop :=
  WInv w /\ DSInv w /\ KInv T w /\ (m = false -> Inv w) /\
  (exists s', kvrel w s' /\ kv_same_live T (sw_state sw) s' /\ (x = true -> s_kv s' = s_kv (sw_state sw))) /\
  skv_wf (sw_state sw) /\
  tx_rel w sw /\ w_closed w = sw_closed sw /\ (w_closed w = true -> w_tx w = TxNone) /\
  tx_kv a wr w sw.

Definition kvguard_head (a : bool) (wr : list (N * bytes)) (c : call) : Prop :=
  match c with
  | COp o => a = true -> is_kv_read o = true -> forall y, In y (kv_bucket_of o) -> ~ In y wr
  | _ => True
  end.

Definition clock_head (x : bool) (T : N) (w : world) (now : N) (c : call) : Prop :=
  match c with
  | COp o => is_kv_read o = true -> T <= now \/ (x = true /\ o_mode (w_opts w) = 0)
  | _ => True
  end.

Definition xnext (m x : bool) (c : call) : bool := match c with COpen _ => x && negb m | _ => x end.

Lemma tx_kv_inactive : forall a wr w sw, (forall t, w_tx w <> TxActive t) -> tx_kv a wr w sw.
Proof.
  intros a wr w sw Hn. unfold tx_kv. destruct (w_tx w) as [|t|]; try exact I. exfalso. exact (Hn t eq_refl).
Qed.

Lemma kv_write_res : forall now w t o work, is_kv_write o = true ->
  snd (do_op now w t o) = snd (spec_op now (tx_w t) work o).
Proof.
  intros now w t o work H. destruct o; try discriminate H; unfold do_op, spec_op;
    cbn [ds_read spec_kv_read spec_write]; unfold tx_put; destruct (tx_w t); destruct k; reflexivity.
Qed.

Lemma K_init : forall o, K false true 0 false [] (empty_world o) sworld0.
Proof.
  intros o. split; [apply winv_empty|]. split; [apply dsinv_empty|]. split; [apply kinv_empty|].
  split; [intros _; apply inv_open_empty|]. split.
  - exists s_empty. split; [apply kvrel_empty|]. split; [intros b; reflexivity|intros _; reflexivity].
  - split; [intros b m' H; discriminate H|]. split; [exact I|]. split; [reflexivity|].
    split; [intros _; reflexivity|exact I].
Qed.

(** a call inside a transaction *)
Lemma op_K : forall now x T a wr w sw t wrb work o s',
  WInv w -> KInv T w -> kvrel w s' -> kv_same_live T (sw_state sw) s' ->
  (x = true -> s_kv s' = s_kv (sw_state sw)) -> skv_wf (sw_state sw) ->
  tx_rel w sw -> tx_kv a wr w sw ->
  w_tx w = TxActive t -> sw_tx sw = SActive wrb work ->
  call_kv_ok (now, COp o) -> kvguard_head a wr (COp o) -> clock_head x T w now (COp o) ->
  (is_kv_op o = true -> snd (do_op now w t o) = snd (spec_op now wrb work o)) /\
  tx_rel (set_tx w (TxActive (snd (fst (do_op now w t o)))))
         (mkSW (sw_closed sw) (sw_state sw) (SActive wrb (fst (spec_op now wrb work o)))) /\
  tx_kv a (wrote_next a wr o) (set_tx w (TxActive (snd (fst (do_op now w t o)))))
         (mkSW (sw_closed sw) (sw_state sw) (SActive wrb (fst (spec_op now wrb work o)))).
Proof.
  intros now x T a wr w sw t wrb work o s' HW HKI Hrel Hsl Hex Hwf Htx Htk Et Es Hkv Hg Hclk.
  unfold tx_rel in Htx. rewrite Et, Es in Htx. destruct Htx as (Hw & Hro & Hall & Hs).
  unfold tx_kv in Htk. rewrite Et, Es in Htk. destruct Htk as (Ha & Hkp).
  destruct (do_op_rel now w t o work Hkv) as (Hid & Hw1 & ext & Hp & Hext & Hsk).
  split; [|split].
  - intros Hop. unfold is_kv_op in Hop. destruct (is_kv_read o) eqn:Ekr.
    + assert (Hres : Some (snd (do_op now w t o)) = spec_kv_read now s' o).
      { apply (kv_read_res_live T now w s' t o HW HKI Hrel Ekr).
        destruct (Hclk Ekr) as [HT|[_ Hm]]; [left; exact HT|right; exact Hm]. }
      assert (Hloc : spec_kv_read now work o = spec_kv_read now (sw_state sw) o).
      { apply spec_kv_read_local. intros y Hy. rewrite Hs.
        destruct (tx_w t) eqn:Etw.
        - apply (kvpend_frame wr t _ _ (Hkp eq_refl)).
          assert (Hy' : y = (DS_KV, snd y)).
          { destruct o; try discriminate Ekr; cbn [kv_bucket_of] in Hy; destruct Hy as [Hy|[]]; subst y; reflexivity. }
          rewrite <- Hy'. exact (Hg Ha Ekr y Hy).
        - rewrite (Hro eq_refl). reflexivity. }
      assert (Hst : spec_kv_read now (sw_state sw) o = spec_kv_read now s' o).
      { destruct (Hclk Ekr) as [HT|[Hx Hm]].
        - apply same_live_reads_wf; [exact Hwf|exact (kvrel_skv_wf w s' Hrel)|exact (same_live_mono T now _ _ HT Hsl)].
        - apply spec_kv_read_local. intros y _. rewrite (Hex Hx). reflexivity. }
      unfold spec_op. rewrite (ds_read_kv_none _ o Ekr), Hloc, Hst, <- Hres. reflexivity.
    + cbn [orb] in Hop. rewrite <- Hw. apply kv_write_res. exact Hop.
  - pose proof (do_op_readonly now w t o) as Hrd.
    unfold tx_rel. cbn [set_tx w_tx sw_tx sw_state].
    split; [rewrite Hw1; exact Hw|]. split; [|split].
    + intros H. rewrite Hw1 in H. apply Hrd; [exact H|apply Hro; exact H].
    + rewrite Hp, Hid. apply Forall_app. split; [exact Hall|exact Hext].
    + rewrite Hp, fold_left_app. rewrite Hw in Hsk. rewrite Hsk. apply fold_spec_apply_kv_skv. exact Hs.
  - unfold tx_kv. cbn [set_tx w_tx sw_tx]. split; [rewrite Hw1; exact Ha|].
    intros Htw. rewrite Hw1 in Htw. rewrite Ha, Htw. apply do_op_kvpend; [exact Htw|exact (Hkp Htw)].
Qed.

Lemma K_same : forall m x T a wr a' wr' w sw,
  K m x T a wr w sw -> (forall t, w_tx w <> TxActive t) -> K m x T a' wr' w sw.
Proof.
  intros m x T a wr a' wr' w sw (H1 & H2 & H3 & H4 & H5 & H6 & H7 & H8 & H9 & _) Hn.
  repeat (split; [assumption|]). apply tx_kv_inactive. exact Hn.
Qed.

(** one call: the key/value side of the invariant is kept, and the calls that
    do not look at the structure indexes return the specification's result *)
Lemma step_K : forall now m x T a wr w sw c,
  K m x T a wr w sw -> call_ok w c -> call_kv_ok (now, c) -> open_ok w c ->
  kvguard_head a wr c -> clock_head x T w now c ->
  (kvish c = true -> snd (step now w c) = snd (spec_step now (res_ok (snd (step now w c))) sw c)) /\
  K m (xnext m x c) T (fst (gnext a wr c)) (snd (gnext a wr c)) (fst (step now w c))
    (fst (spec_step now (res_ok (snd (step now w c))) sw c)).
Proof.
  intros now m x T a wr w sw c HK Hc Hkv Ho Hg Hclk.
  pose proof HK as (HW & HD & HKI & HI & (s' & Hrel & Hsl & Hex) & Hwf & Htx & Hcl & Hct & Htk).
  pose proof (step_winv now w c HW Hc) as HW'.
  pose proof (step_dsinv now w c HW HD Hc) as HD'.
  pose proof (step_kinv T now w c HW HKI Hc) as HKI'.
  assert (HI' : m = false -> Inv (fst (step now w c))).
  { intros Em. exact (step_inv now w c (HI Em) Hc Ho). }
  assert (Hidle : (forall t, w_tx w <> TxActive t) -> tx_call c ->
    (kvish c = true -> snd (step now w c) = snd (spec_step now (res_ok (snd (step now w c))) sw c)) /\
    K m (xnext m x c) T (fst (gnext a wr c)) (snd (gnext a wr c)) (fst (step now w c))
      (fst (spec_step now (res_ok (snd (step now w c))) sw c))).
  { intros Hn Hcall. rewrite (step_inactive now w c Hn Hcall). cbn [fst snd].
    rewrite (spec_step_inactive now _ sw c (tx_rel_inactive w sw Htx Hn) Hcall). cbn [fst snd].
    split; [reflexivity|].
    replace (xnext m x c) with x by (destruct c; try contradiction Hcall; reflexivity).
    exact (K_same m x T a wr _ _ w sw HK Hn). }
  destruct c as [wrb id|o| | | |o].
  - (* Begin *)
    cbn [step spec_step gnext fst snd xnext] in *. rewrite <- Hcl in *.
    destruct (w_closed w) eqn:Ec; cbn [fst snd res_ok] in *.
    + split; [reflexivity|]. apply (K_same m x T a wr); [exact HK|].
      intros t E. rewrite (Hct eq_refl) in E. discriminate E.
    + split; [reflexivity|]. split; [exact HW'|]. split; [exact HD'|]. split; [exact HKI'|]. split; [exact HI'|].
      split.
      { exists s'. split; [apply (kvrel_ext w); [reflexivity|reflexivity|exact Hrel]|split; [exact Hsl|exact Hex]]. }
      cbn [sw_state]. split; [exact Hwf|]. split.
      { unfold tx_rel. cbn [set_tx w_tx sw_tx sw_state tx_w tx_pend tx_id fold_left].
        split; [reflexivity|]. split; [reflexivity|]. split; [constructor|reflexivity]. }
      split; [exact Ec|]. split; [cbn [set_tx w_closed]; intros E; congruence|].
      unfold tx_kv. cbn [set_tx w_tx sw_tx tx_w]. split; [reflexivity|intros _; constructor].
  - (* Op *)
    destruct (w_tx w) as [|t|] eqn:Et; [apply Hidle; [intros t E; discriminate E|exact I]| |
                                        apply Hidle; [intros t E; discriminate E|exact I]].
    pose proof Htx as Htx0. unfold tx_rel in Htx0. rewrite Et in Htx0.
    destruct (sw_tx sw) as [|wrb work|] eqn:Es; try contradiction. clear Htx0.
    rewrite (step_op_active now w t o Et) in *. cbn [fst snd] in *.
    rewrite (spec_step_op_active now _ sw wrb work o Es) in *. cbn [fst snd gnext xnext kvish] in *.
    destruct (op_K now x T a wr w sw t wrb work o s' HW HKI Hrel Hsl Hex Hwf Htx Htk Et Es Hkv Hg Hclk)
      as (Hres & Htx' & Htk').
    split; [exact Hres|]. split; [exact HW'|]. split; [exact HD'|]. split; [exact HKI'|]. split; [exact HI'|].
    split.
    { exists s'. split; [apply (kvrel_ext w); [reflexivity|reflexivity|exact Hrel]|split; [exact Hsl|exact Hex]]. }
    cbn [sw_state]. split; [exact Hwf|]. split; [exact Htx'|]. split; [exact Hcl|].
    split; [cbn [set_tx w_closed w_tx]; intros E; discriminate (Hct E)|exact Htk'].
  - (* Commit *)
    destruct (w_tx w) as [|t|] eqn:Et; [apply Hidle; [intros t E; discriminate E|exact I]| |
                                        apply Hidle; [intros t E; discriminate E|exact I]].
    pose proof Htx as Htx0. unfold tx_rel in Htx0. rewrite Et in Htx0.
    destruct (sw_tx sw) as [|wrb work|] eqn:Es; try contradiction.
    destruct Htx0 as (Hw & Hro & Hall & Hs).
    cbn [gnext fst snd xnext kvish].
    pose proof (commit_kvrel w s' t Hrel Hall) as Hck.
    assert (E : step now w CCommit = let '(w', ok) := do_commit None w t in (w', if ok then ROk else RErr)).
    { unfold step. rewrite Et. reflexivity. }
    destruct (do_commit_cases w t) as [[Hf Hw0]|(Hok & Hdone & Hcl')];
      destruct (do_commit None w t) as [w1 ok]; cbn [fst snd] in *; subst ok;
      rewrite E in *; cbn [fst snd res_ok spec_step] in *; rewrite Es; cbn [fst snd].
    + subst w1. split; [reflexivity|exact HK].
    + specialize (Hck eq_refl).
      split; [reflexivity|]. split; [exact HW'|]. split; [exact HD'|]. split; [exact HKI'|]. split; [exact HI'|].
      cbn [sw_state].
      assert (Hwf' : skv_wf (fold_left spec_apply_kv (tx_pend t) (sw_state sw))) by (apply skv_wf_fold; exact Hwf).
      assert (Hsk : s_kv (if wrb then work else sw_state sw) =
                    s_kv (fold_left spec_apply_kv (tx_pend t) (sw_state sw))).
      { destruct wrb; [exact Hs|]. rewrite (Hro Hw). reflexivity. }
      split.
      { exists (fold_left spec_apply_kv (tx_pend t) s'). split; [exact Hck|]. split.
        - apply (same_live_skv T (fold_left spec_apply_kv (tx_pend t) (sw_state sw)) (fold_left spec_apply_kv (tx_pend t) s'));
            [symmetry; exact Hsk|reflexivity|].
          apply same_live_fold; [exact Hwf|exact (kvrel_skv_wf w s' Hrel)|exact Hsl].
        - intros Hx. rewrite Hsk. apply fold_spec_apply_kv_skv. exact (Hex Hx). }
      split; [apply (skv_wf_skv _ _ (eq_sym Hsk)); exact Hwf'|].
      split; [unfold tx_rel; rewrite Hdone; exact I|].
      split; [rewrite Hcl'; exact Hcl|].
      split; [intros Ecl; rewrite Hcl' in Ecl; discriminate (Hct Ecl)|].
      apply tx_kv_inactive. intros t0 E0. rewrite Hdone in E0. discriminate E0.
  - (* Rollback *)
    destruct (w_tx w) as [|t|] eqn:Et; [apply Hidle; [intros t E; discriminate E|exact I]| |
                                        apply Hidle; [intros t E; discriminate E|exact I]].
    pose proof Htx as Htx0. unfold tx_rel in Htx0. rewrite Et in Htx0.
    destruct (sw_tx sw) as [|wrb work|] eqn:Es; try contradiction. clear Htx0.
    cbn [step spec_step gnext xnext] in *. rewrite Et in *. rewrite Es in *. cbn [fst snd] in *.
    split; [reflexivity|]. split; [exact HW'|]. split; [exact HD'|]. split; [exact HKI'|]. split; [exact HI'|].
    split.
    { exists s'. split; [apply (kvrel_ext w); [reflexivity|reflexivity|exact Hrel]|split; [exact Hsl|exact Hex]]. }
    cbn [sw_state]. split; [exact Hwf|]. split; [exact I|]. split; [exact Hcl|].
    split; [cbn [set_tx w_closed w_tx]; intros E; discriminate (Hct E)|exact I].
  - (* Close *)
    cbn [step spec_step gnext fst snd xnext] in *. rewrite <- Hcl in *.
    destruct (w_closed w) eqn:Ec; cbn [fst snd res_ok] in *.
    + split; [reflexivity|exact HK].
    + split; [reflexivity|]. split; [exact HW'|]. split; [exact HD'|]. split; [exact HKI'|]. split; [exact HI'|].
      split.
      { exists s'. split; [apply (kvrel_ext w); [reflexivity|reflexivity|exact Hrel]|split; [exact Hsl|exact Hex]]. }
      cbn [sw_state]. split; [exact Hwf|]. split; [exact I|]. split; [reflexivity|].
      split; [intros _; reflexivity|exact I].
  - (* Open *)
    cbn [step spec_step gnext fst snd res_ok xnext] in *.
    split; [reflexivity|]. split; [exact HW'|]. split; [exact HD'|]. split; [exact HKI'|]. split; [exact HI'|].
    cbn [sw_state].
    assert (Hnt : w_tx (do_open o (w_disk w)) = TxNone) by reflexivity.
    split.
    { destruct m.
      - destruct (open_krel_contents T (w_disk w) w s' o Hrel (kinv_open_krel T w HD HKI)) as (s'' & Hrel'' & Hsl'').
        exists s''. split; [exact Hrel''|]. split.
        + intros b. rewrite (Hsl b). exact (Hsl'' b).
        + rewrite andb_false_r. intros Hx. discriminate Hx.
      - destruct (reopen_preserves w o (HI eq_refl)) as (Hix & Hcomm & _).
        exists s'. split; [exact (kvrel_ext w (do_open o (w_disk w)) s' Hix Hcomm Hrel)|].
        split; [exact Hsl|]. rewrite andb_true_r. exact Hex. }
    split; [exact Hwf|]. split; [unfold tx_rel; rewrite Hnt; exact I|]. split; [reflexivity|].
    split; [intros E; discriminate E|]. apply tx_kv_inactive. intros t0 E0. rewrite Hnt in E0. discriminate E0.
Qed.

(** Merge (outside a transaction, fresh internal ids) keeps [K]; the clock
    bound moves up to the clock of the Merge *)
Lemma merge_K : forall m x T a wr w sw n txid0,
  K m x T a wr w sw -> (w_tx w = TxNone \/ w_tx w = TxDone) ->
  (forall k, ~ In (txid0 + k) (ids_of (recs w))) ->
  K true x (N.max T n) a wr (fst (do_merge n w txid0)) sw.
Proof.
  intros m x T a wr w sw n txid0 HK Hnt Hfresh.
  destruct HK as (HW & HD & HKI & HI & (s' & Hrel & Hsl & Hex) & Hwf & Htx & Hcl & Hct & Htk).
  destruct (do_merge_frame n w txid0) as (Ftx & _ & Fcl).
  pose proof (wi_w2 w HW) as HW2.
  split; [exact (do_merge_winv n w txid0 HW Hnt Hfresh)|].
  split; [exact (do_merge_dsinv n w txid0 HW2 HD Hfresh)|].
  split.
  { apply do_merge_kinv; [lia|exact HW2| |exact Hfresh]. apply (kinv_mono T); [lia|exact HKI]. }
  split; [intros E; discriminate E|].
  split.
  { exists s'. split; [exact (proj1 (merge_kvrel_corrected n w s' txid0 Hrel (proj1 HW2) Hfresh))|].
    split; [apply (same_live_mono T); [lia|exact Hsl]|exact Hex]. }
  split; [exact Hwf|].
  split; [unfold tx_rel; rewrite Ftx; exact Htx|].
  split; [rewrite Fcl; exact Hcl|].
  split; [rewrite Fcl, Ftx; exact Hct|].
  apply tx_kv_inactive. intros t E. rewrite Ftx in E. destruct Hnt as [H|H]; rewrite H in E; discriminate E.
Qed.

(** ================= part 5: histories of calls and Merges ================= *)
(** Merge runs outside any transaction and takes a range of fresh ids *)
Definition merge_ok (w : world) (txid0 : N) : Prop :=
  (w_tx w = TxNone \/ w_tx w = TxDone) /\ forall k, ~ In (txid0 + k) (ids_of (recs w)).

(** unique ids, no Open inside a transaction, Merge outside transactions *)
Fixpoint tacts_ok (w : world) (l : list tact) : Prop :=
  match l with
  | [] => True
  | TCall now c :: r => call_ok w c /\ open_ok w c /\ tacts_ok (fst (step now w c)) r
  | TMerge now txid0 :: r => merge_ok w txid0 /\ tacts_ok (fst (do_merge now w txid0)) r
  end.

Definition tact_kv_ok (a : tact) : Prop := match a with TCall now c => call_kv_ok (now, c) | _ => True end.

(** the calls of a history *)
Fixpoint calls_of (l : list tact) : list tcall :=
  match l with
  | [] => []
  | TCall now c :: r => (now, c) :: calls_of r
  | TMerge _ _ :: r => calls_of r
  end.

(** the clocks: a key/value read is made at a clock not earlier than the
    clocks of the Merges before it — unless no Open has followed a Merge yet
    and the engine runs in HintKeyValAndRAMIdxMode (mode 0) *)
Fixpoint clocks_ok (m x : bool) (T : N) (w : world) (l : list tact) : Prop :=
  match l with
  | [] => True
  | TCall now c :: r => clock_head x T w now c /\ clocks_ok m (xnext m x c) T (fst (step now w c)) r
  | TMerge n txid0 :: r => clocks_ok true x (N.max T n) (fst (do_merge n w txid0)) r
  end.

(** the simple sufficient condition: every key/value read is made at a clock
    not earlier than the clocks of the Merges before it *)
Fixpoint clocks_mono (T : N) (l : list tact) : Prop :=
  match l with
  | [] => True
  | TCall now (COp o) :: r => (is_kv_read o = true -> T <= now) /\ clocks_mono T r
  | TCall _ _ :: r => clocks_mono T r
  | TMerge n _ :: r => clocks_mono (N.max T n) r
  end.

Lemma clocks_mono_ok : forall l m x T w, clocks_mono T l -> clocks_ok m x T w l.
Proof.
  induction l as [|[now c|n txid0] r IH]; intros m x T w H; [exact I| |].
  - cbn [clocks_ok]. destruct c; cbn [clocks_mono clock_head] in *;
      try (split; [exact I|apply IH; exact H]).
    destruct H as [H1 H2]. split; [intros E; left; exact (H1 E)|apply IH; exact H2].
  - cbn [clocks_ok clocks_mono] in *. apply IH. exact H.
Qed.

(** the key/value part of the guard: a key/value read of a write transaction
    does not look at a bucket the transaction has written *)
Definition kvguard_b (a : bool) (wr : list (N * bytes)) (c : call) : bool :=
  match c with
  | COp o => negb (a && is_kv_read o && existsb (fun y => sb_mem y wr) (kv_bucket_of o))
  | _ => true
  end.

Fixpoint hist_guard_kv (a : bool) (wr : list (N * bytes)) (cs : list tcall) : bool :=
  match cs with
  | [] => true
  | (_, c) :: r => kvguard_b a wr c && hist_guard_kv (fst (gnext a wr c)) (snd (gnext a wr c)) r
  end.

Lemma kvguard_b_head : forall a wr c, kvguard_b a wr c = true -> kvguard_head a wr c.
Proof.
  intros a wr c H. destruct c; try exact I. cbn [kvguard_b kvguard_head] in *.
  intros Ha Hr y Hy Hin. subst a. rewrite Hr in H. cbn [andb] in H. apply negb_true_iff in H.
  assert (E : existsb (fun y => sb_mem y wr) (kv_bucket_of o) = true).
  { apply existsb_exists. exists y. split; [exact Hy|]. apply sb_mem_In. exact Hin. }
  congruence.
Qed.

Lemma guard_head_kvguard : forall a wr c, guard_head a wr c = true -> kvguard_head a wr c.
Proof.
  intros a wr c H. destruct c; try exact I. cbn [guard_head kvguard_head] in *.
  intros Ha Hr. subst a. exact (guard_call_kv wr o H Hr).
Qed.

Lemma guard_head_kvguard_b : forall a wr c, guard_head a wr c = true -> kvguard_b a wr c = true.
Proof.
  intros a wr c H. destruct c; try reflexivity. cbn [guard_head kvguard_b] in *.
  destruct a; [|reflexivity]. destruct (is_kv_read o) eqn:Er; [|reflexivity]. cbn [andb].
  apply negb_true_iff.
  destruct (existsb (fun y => sb_mem y wr) (kv_bucket_of o)) eqn:E; [|reflexivity]. exfalso.
  apply existsb_exists in E. destruct E as (y & Hy & Hm). apply sb_mem_In in Hm.
  exact (guard_call_kv wr o H Er y Hy Hm).
Qed.

(** the full guard implies its key/value part *)
Lemma hist_guard_corrected_kv : forall cs a wr,
  hist_guard_corrected a wr cs = true -> hist_guard_kv a wr cs = true.
Proof.
  induction cs as [|[now c] r IH]; intros a wr H; [reflexivity|].
  rewrite hist_guard_corrected_cons in H. apply andb_true_iff in H as [H1 H2].
  cbn [hist_guard_kv]. rewrite (guard_head_kvguard_b a wr c H1). cbn [andb]. exact (IH _ _ H2).
Qed.

(** the calls that do not look at the structure indexes return the specification's result *)
Definition kv_agree (p : call * (res * res)) : Prop := kvish (fst p) = true -> fst (snd p) = snd (snd p).

Lemma run_K : forall l m x T a wr w sw,
  K m x T a wr w sw -> tacts_ok w l -> Forall tact_kv_ok l ->
  hist_guard_kv a wr (calls_of l) = true -> clocks_ok m x T w l ->
  Forall kv_agree (run_m_res w sw l).
Proof.
  induction l as [|[now c|n txid0] r IH]; intros m x T a wr w sw HK Hok Hkv Hg Hclk; [constructor| |].
  - cbn [tacts_ok calls_of hist_guard_kv clocks_ok] in *.
    destruct Hok as (Hc & Ho & Hr). destruct Hclk as [Hc1 Hc2].
    apply andb_true_iff in Hg as [Hg1 Hg2].
    inversion Hkv as [|y l' Hk Hkr]; subst y l'. cbn [tact_kv_ok] in Hk.
    destruct (step_K now m x T a wr w sw c HK Hc Hk Ho (kvguard_b_head a wr c Hg1) Hc1) as [Hres HK'].
    cbn [run_m_res].
    destruct (step now w c) as [w' res]. cbn [fst snd] in *.
    destruct (spec_step now (res_ok res) sw c) as [sw' sres]. cbn [fst snd] in *.
    constructor; [exact Hres|]. exact (IH _ _ _ _ _ w' sw' HK' Hr Hkr Hg2 Hc2).
  - cbn [tacts_ok calls_of clocks_ok run_m_res] in *. destruct Hok as ((Hnt & Hfresh) & Hr).
    inversion Hkv as [|y l' _ Hkr]; subst y l'.
    apply (IH true x (N.max T n) a wr); [|exact Hr|exact Hkr|exact Hg|exact Hclk].
    exact (merge_K m x T a wr w sw n txid0 HK Hnt Hfresh).
Qed.

(** THEOREM B: every history of calls and Merges — Merges anywhere outside a
    transaction, Opens anywhere (also after a Merge), any mix of list / set /
    sorted-set calls — in which no key/value read of a write transaction looks
    at a bucket the transaction has written and the clocks are as described:
    Begin, Put, Delete, Get, GetAll, RangeScan, PrefixScan, PrefixSearchScan,
    Commit, Rollback, Close and Open all return the specification's result. *)
Theorem history_merge_kv_refines : forall l o,
  tacts_ok (empty_world o) l -> Forall tact_kv_ok l ->
  hist_guard_kv false [] (calls_of l) = true ->
  clocks_ok false true 0 (empty_world o) l ->
  Forall kv_agree (run_m_res (empty_world o) sworld0 l).
Proof.
  intros l o Hok Hkv Hg Hclk. exact (run_K l false true 0 false [] _ _ (K_init o) Hok Hkv Hg Hclk).
Qed.

Corollary history_merge_kv_refines_mono : forall l o,
  tacts_ok (empty_world o) l -> Forall tact_kv_ok l ->
  hist_guard_kv false [] (calls_of l) = true ->
  clocks_mono 0 l ->
  Forall kv_agree (run_m_res (empty_world o) sworld0 l).
Proof.
  intros l o Hok Hkv Hg Hclk. apply history_merge_kv_refines; try assumption. apply clocks_mono_ok. exact Hclk.
Qed.

(** ================= part 6: Merge and the list index ================= *)
(** every list of the index is empty.  Merge keeps a push record only when its
    value is in the list now; it then applies the record again (finding F14),
    so the list index is left alone exactly when no such record exists *)
Definition no_list_items (ix : indexes) : Prop :=
  forall b l k items, alookup (ix_list ix) b = Some l -> alookup l k = Some items -> items = [].

Lemma apply_ds_ix_list : forall strict ix e, e_ds e <> DS_List -> ix_list (apply_ds strict ix e) = ix_list ix.
Proof.
  intros strict ix e H. unfold apply_ds.
  destruct (e_ds e =? DS_Set); [reflexivity|]. destruct (e_ds e =? DS_ZSet); [reflexivity|].
  destruct (e_ds e =? DS_List) eqn:E; [apply N.eqb_eq in E; contradiction|reflexivity].
Qed.

Lemma fold_apply_ds_ix_list : forall (ws : list (N * N * entry)) ix,
  (forall r, In r ws -> e_ds (snd r) <> DS_List) ->
  ix_list (fold_left (fun ix r => apply_ds false ix (snd r)) ws ix) = ix_list ix.
Proof.
  induction ws as [|r t IH]; intros ix H; [reflexivity|]. cbn [fold_left].
  rewrite IH by (intros r' Hr'; apply H; right; exact Hr').
  apply apply_ds_ix_list. apply H. left. reflexivity.
Qed.

Local Transparent do_commit.
Lemma do_commit_ix_list : forall w t,
  Forall (fun e => e_ds e <> DS_List) (tx_pend t) ->
  ix_list (w_ix (fst (do_commit None w t))) = ix_list (w_ix w).
Proof.
  intros w t H. unfold do_commit. destruct (tx_pend t) as [|e0 rest] eqn:Ep; [reflexivity|].
  destruct (existsb _ (e0 :: rest)); [reflexivity|].
  destruct (commit_loop (o_seg (w_opts w)) true (mkC (w_disk w) (w_maxfid w) (w_woff w) (w_asize w)) (e0 :: rest))
    as [st written] eqn:EL.
  cbn [fst set_disk w_ix]. rewrite commit_index_eq.
  rewrite fold_apply_ds_ix_list; [reflexivity|].
  intros r Hr. destruct (MergeFacts.commit_loop_written _ _ _ _ _ _ r EL Hr) as [e [He Hs]].
  rewrite Forall_forall in H. specialize (H e He).
  destruct Hs as [Hs|Hs]; rewrite Hs; exact H.
Qed.
Local Opaque do_commit.

Lemma pending_keep_not_list : forall ix e, no_list_items ix -> pending_keep ix e = true -> e_ds e <> DS_List.
Proof.
  intros ix e Hn Hk E. unfold pending_keep in Hk. rewrite E in Hk.
  change (DS_List =? DS_KV) with false in Hk. change (DS_List =? DS_Set) with false in Hk.
  change (DS_List =? DS_ZSet) with false in Hk. change (DS_List =? DS_List) with true in Hk. cbv iota in Hk.
  apply andb_true_iff in Hk. destruct Hk as [_ Hk].
  destruct (alookup (ix_list ix) (e_bucket e)) as [l|] eqn:El; [|discriminate Hk].
  destruct (alookup l (e_key e)) as [items|] eqn:Ei; [|discriminate Hk].
  rewrite (Hn _ _ _ _ El Ei) in Hk. discriminate Hk.
Qed.

Lemma merge_pend_not_list : forall now w fid txid seg, no_list_items (w_ix w) ->
  Forall (fun e => e_ds e <> DS_List) (merge_pend now w fid txid seg).
Proof.
  intros now w fid txid seg Hn. apply Forall_forall. intros e He. unfold merge_pend in He.
  apply in_map_iff in He. destruct He as [[pos e0] [E Hin]]. apply filter_In in Hin. destruct Hin as [_ Hk].
  cbn [fst snd] in Hk. destruct (merge_keep_pending now w fid pos e0 Hk) as [_ Hp].
  subst e. exact (pending_keep_not_list (w_ix w) e0 Hn Hp).
Qed.

Lemma merge_file_ix_list : forall now w fid txid, no_list_items (w_ix w) ->
  ix_list (w_ix (fst (merge_file now w fid txid))) = ix_list (w_ix w).
Proof.
  intros now w fid txid Hn. rewrite merge_file_eq.
  destruct (disk_get (w_disk w) fid) as [seg|]; [|reflexivity].
  pose proof (merge_pend_not_list now w fid txid seg Hn) as Hno.
  destruct (merge_pend now w fid txid seg) as [|e0 rest].
  - cbn [fst]. destruct (fid =? w_maxfid w); reflexivity.
  - cbv beta iota zeta.
    pose proof (do_commit_ix_list (new_file w) (mkTx txid true (e0 :: rest)) Hno) as H.
    destruct (do_commit None (new_file w) (mkTx txid true (e0 :: rest))) as [w2 ok]. cbn [fst snd] in *.
    destruct ok; cbn [fst]; [exact H|reflexivity].
Qed.

Lemma no_list_items_ext : forall ix ix', ix_list ix' = ix_list ix -> no_list_items ix -> no_list_items ix'.
Proof. intros ix ix' E H b l k items Hb Hk. rewrite E in Hb. exact (H b l k items Hb Hk). Qed.

Lemma merge_files_ix_list : forall fids now w txid, no_list_items (w_ix w) ->
  ix_list (w_ix (fst (merge_files now w fids txid))) = ix_list (w_ix w).
Proof.
  induction fids as [|f r IH]; intros now w txid Hn; [reflexivity|].
  cbn [merge_files]. pose proof (merge_file_ix_list now w f txid Hn) as A.
  destruct (merge_file now w f txid) as [w1 ok]. cbn [fst] in A.
  destruct ok; [|exact A].
  rewrite (IH now w1 (txid + 1)); [exact A|]. exact (no_list_items_ext _ _ A Hn).
Qed.

Local Transparent do_merge.
Theorem merge_list_unchanged : forall now w txid0, no_list_items (w_ix w) ->
  ix_list (w_ix (fst (do_merge now w txid0))) = ix_list (w_ix w).
Proof.
  intros now w txid0 Hn. unfold do_merge. destruct (w_closed w); [reflexivity|].
  destruct (disk_fids (w_disk w)) as [|a [|b l]]; [reflexivity|reflexivity|].
  apply merge_files_ix_list. exact Hn.
Qed.
Local Opaque do_merge.

(** ================= part 7: the structure side [D] ================= *)
Definition D (a : bool) (wr : list (N * bytes)) (w : world) (sw : sworld) : Prop :=
  dsrel (w_ix w) (sw_state sw) /\ list_keys_ok (w_ix w) /\ set_keys_ok (w_ix w) /\ tx_ds a wr w sw.

Lemma tx_ds_inactive : forall a wr w sw, (forall t, w_tx w <> TxActive t) -> tx_ds a wr w sw.
Proof.
  intros a wr w sw Hn. unfold tx_ds. destruct (w_tx w) as [|t|]; try exact I. exfalso. exact (Hn t eq_refl).
Qed.

Lemma D_same : forall a wr a' wr' w sw, D a wr w sw -> (forall t, w_tx w <> TxActive t) -> D a' wr' w sw.
Proof.
  intros a wr a' wr' w sw (H1 & H2 & H3 & _) Hn. repeat (split; [assumption|]). apply tx_ds_inactive. exact Hn.
Qed.

Lemma D_init : forall o, D false [] (empty_world o) sworld0.
Proof.
  intros o. split; [repeat split|].
  split; [intros b l k v H; discriminate H|]. split; [intros b m k l H; discriminate H|exact I].
Qed.

Lemma spec_op_kv_read_state : forall now wr s o, is_kv_read o = true -> fst (spec_op now wr s o) = s.
Proof.
  intros now wr s o H. destruct o; try discriminate H; unfold spec_op; cbn [ds_read spec_kv_read]; reflexivity.
Qed.

(** a call inside a transaction, structure side *)
Lemma op_D : forall now a wr w sw t wrb work o,
  D a wr w sw -> tx_rel w sw -> w_tx w = TxActive t -> sw_tx sw = SActive wrb work ->
  call_kv_ok (now, COp o) -> guard_call a wr o = true ->
  (is_kv_read o = false -> snd (do_op now w t o) = snd (spec_op now wrb work o)) /\
  tx_ds a (wrote_next a wr o) (set_tx w (TxActive (snd (fst (do_op now w t o)))))
        (mkSW (sw_closed sw) (sw_state sw) (SActive wrb (fst (spec_op now wrb work o)))).
Proof.
  intros now a wr w sw t wrb work o (Hds & HLK & HSK & Htd) Htx Et Es Hkv Hg.
  unfold tx_rel in Htx. rewrite Et, Es in Htx. destruct Htx as (Hw & Hro & Hall & Hs).
  unfold tx_ds in Htd. rewrite Et, Es in Htd.
  destruct (do_op_rel now w t o work Hkv) as (_ & Hw1 & _).
  unfold tx_ds. cbn [set_tx w_tx sw_tx w_ix sw_state]. rewrite Hw1.
  destruct (tx_w t) eqn:Etw; subst wrb.
  - destruct Htd as (Ha & Hh & Hk). subst a.
    destruct (is_kv_read o) eqn:Ekr.
    + split; [intros E; discriminate E|]. split; [reflexivity|].
      rewrite (spec_op_kv_read_state now true work o Ekr), (kv_read_same_t now w t o Ekr).
      unfold wrote_next. rewrite (kv_read_not_write o Ekr). cbn [andb]. split; [exact Hh|exact Hk].
    + destruct (hist_step false now w t wr work o HLK HSK Hh Ekr (guard_call_ds wr o Hg)) as [Hres Hh'].
      split; [intros _; exact Hres|]. split; [reflexivity|]. split.
      * exact (hinv_mono _ _ _ _ _ _ (hist_step_incl wr o) Hh').
      * apply do_op_kvpend; [exact Etw|exact Hk].
  - destruct Htd as (Ha & Hwk). subst a work.
    assert (Hst : fst (spec_op now false (sw_state sw) o) = sw_state sw) by apply spec_op_ro_state.
    split; [|split; [reflexivity|exact Hst]].
    intros Ekr.
    pose proof (ds_read_dsrel (w_ix w) (sw_state sw) o Hds) as Hrd.
    destruct (ds_read (w_ix w) o) as [r|] eqn:Er.
    + unfold do_op, spec_op. rewrite Er, <- Hrd. reflexivity.
    + apply ro_write_res; [exact Etw|exact Ekr|exact Er|rewrite <- Hrd; reflexivity|].
      unfold guard_call in Hg. apply andb_true_iff in Hg as [_ Hg]. cbn [orb] in Hg.
      apply negb_true_iff in Hg. exact Hg.
Qed.

Definition open_before_merge (m : bool) (c : call) : Prop :=
  match c with COpen _ => m = false | _ => True end.

Definition ds_call (c : call) : Prop := match c with COp o => is_kv_read o = false | _ => False end.

(** one call, structure side: under the full guard, and when no Open follows
    a Merge, the structure calls (and Put / Delete) return the specification's
    result and the structure indexes stay those of the specification *)
Lemma step_D : forall now m x T a wr w sw c,
  K m x T a wr w sw -> D a wr w sw -> call_ok w c -> call_kv_ok (now, c) -> open_ok w c ->
  guard_head a wr c = true -> open_before_merge m c ->
  (ds_call c -> snd (step now w c) = snd (spec_step now (res_ok (snd (step now w c))) sw c)) /\
  D (fst (gnext a wr c)) (snd (gnext a wr c)) (fst (step now w c))
    (fst (spec_step now (res_ok (snd (step now w c))) sw c)).
Proof.
  intros now m x T a wr w sw c HK HD Hc Hkv Ho Hg Hom.
  destruct HK as (HW & _ & _ & HI & _ & _ & Htx & Hcl & Hct & _).
  pose proof HD as (Hds & HLK & HSK & Htd).
  assert (Hidle : (forall t, w_tx w <> TxActive t) -> tx_call c ->
    (ds_call c -> snd (step now w c) = snd (spec_step now (res_ok (snd (step now w c))) sw c)) /\
    D (fst (gnext a wr c)) (snd (gnext a wr c)) (fst (step now w c))
      (fst (spec_step now (res_ok (snd (step now w c))) sw c))).
  { intros Hn Hcall. rewrite (step_inactive now w c Hn Hcall). cbn [fst snd].
    rewrite (spec_step_inactive now _ sw c (tx_rel_inactive w sw Htx Hn) Hcall). cbn [fst snd].
    split; [reflexivity|]. exact (D_same a wr _ _ w sw HD Hn). }
  destruct c as [wrb id|o| | | |o].
  - (* Begin *)
    cbn [step spec_step gnext fst snd] in *. rewrite <- Hcl in *.
    destruct (w_closed w) eqn:Ec; cbn [fst snd res_ok] in *.
    + split; [intros []|]. apply (D_same a wr); [exact HD|].
      intros t E. rewrite (Hct eq_refl) in E. discriminate E.
    + split; [intros []|]. split; [exact Hds|]. split; [exact HLK|]. split; [exact HSK|].
      unfold tx_ds. cbn [set_tx w_tx sw_tx tx_w w_ix sw_state].
      destruct wrb.
      * split; [reflexivity|]. split; [|constructor].
        split; [split; [reflexivity|constructor]|]. split; [constructor|exact Hds].
      * split; reflexivity.
  - (* Op *)
    destruct (w_tx w) as [|t|] eqn:Et; [apply Hidle; [intros t E; discriminate E|exact I]| |
                                        apply Hidle; [intros t E; discriminate E|exact I]].
    pose proof Htx as Htx0. unfold tx_rel in Htx0. rewrite Et in Htx0.
    destruct (sw_tx sw) as [|wrb work|] eqn:Es; try contradiction. clear Htx0.
    rewrite (step_op_active now w t o Et) in *. cbn [fst snd] in *.
    rewrite (spec_step_op_active now _ sw wrb work o Es) in *. cbn [fst snd gnext ds_call] in *.
    destruct (op_D now a wr w sw t wrb work o HD Htx Et Es Hkv Hg) as [Hres Htd'].
    split; [exact Hres|]. split; [exact Hds|]. split; [exact HLK|]. split; [exact HSK|exact Htd'].
  - (* Commit *)
    destruct (w_tx w) as [|t|] eqn:Et; [apply Hidle; [intros t E; discriminate E|exact I]| |
                                        apply Hidle; [intros t E; discriminate E|exact I]].
    pose proof Htx as Htx0. unfold tx_rel in Htx0. rewrite Et in Htx0.
    destruct (sw_tx sw) as [|wrb work|] eqn:Es; try contradiction.
    destruct Htx0 as (Hw & Hro & Hall & Hs).
    cbn [gnext fst snd].
    destruct (commit_step_cases now w t Et) as [E|(w1 & E & Hdone & Hcl' & Hdp)];
      rewrite E in *; cbn [fst snd res_ok spec_step] in *; rewrite Es in *; cbn [fst snd] in *.
    + split; [intros []|exact HD].
    + split; [intros []|]. cbn [sw_state].
      unfold tx_ds in Htd. rewrite Et, Es in Htd.
      assert (Hfold : dsrel (fold_left (apply_ds false) (tx_pend t) (w_ix w)) (if wrb then work else sw_state sw) /\
                      list_keys_ok (fold_left (apply_ds false) (tx_pend t) (w_ix w)) /\
                      set_keys_ok (fold_left (apply_ds false) (tx_pend t) (w_ix w))).
      { destruct (tx_w t) eqn:Etw; subst wrb.
        - destruct Htd as (_ & (Hp & Hrec & Hrel2) & _).
          split; [exact Hrel2|]. exact (fold_keys_ok false (tx_pend t) (w_ix w) Hrec HLK HSK).
        - rewrite (Hro eq_refl). cbn [fold_left]. split; [exact Hds|]. split; [exact HLK|exact HSK]. }
      destruct Hfold as (F1 & F2 & F3).
      destruct (ds_part_keys _ _ Hdp) as [K1 K2].
      split; [apply dsrel_ds_part; rewrite Hdp; apply dsrel_ds_part; exact F1|].
      split; [exact (K1 F2)|]. split; [exact (K2 F3)|].
      unfold tx_ds. rewrite Hdone. exact I.
  - (* Rollback *)
    destruct (w_tx w) as [|t|] eqn:Et; [apply Hidle; [intros t E; discriminate E|exact I]| |
                                        apply Hidle; [intros t E; discriminate E|exact I]].
    pose proof Htx as Htx0. unfold tx_rel in Htx0. rewrite Et in Htx0.
    destruct (sw_tx sw) as [|wrb work|] eqn:Es; try contradiction. clear Htx0.
    cbn [step spec_step gnext] in *. rewrite Et in *. rewrite Es in *. cbn [fst snd] in *.
    split; [intros []|]. split; [exact Hds|]. split; [exact HLK|]. split; [exact HSK|exact I].
  - (* Close *)
    cbn [step spec_step gnext fst snd] in *. rewrite <- Hcl in *.
    destruct (w_closed w) eqn:Ec; cbn [fst snd res_ok] in *.
    + split; [intros []|exact HD].
    + split; [intros []|]. split; [exact Hds|]. split; [exact HLK|]. split; [exact HSK|exact I].
  - (* Open *)
    cbn [step spec_step gnext fst snd res_ok open_before_merge] in *.
    destruct (reopen_preserves w o (HI Hom)) as (Hix & _).
    split; [intros []|]. unfold D. cbn [sw_state]. rewrite Hix.
    split; [exact Hds|]. split; [exact HLK|]. split; [exact HSK|exact I].
Qed.

(** Merge, structure side: the set and sorted-set indexes are untouched; the
    list index is untouched when every list is empty *)
Lemma merge_D : forall a wr w sw n txid0,
  D a wr w sw -> (w_tx w = TxNone \/ w_tx w = TxDone) -> no_list_items (w_ix w) ->
  D a wr (fst (do_merge n w txid0)) sw.
Proof.
  intros a wr w sw n txid0 ((HL & HS & HZ) & HLK & HSK & _) Hnt Hn.
  destruct (do_merge_frame n w txid0) as (Ftx & _ & _).
  destruct (merge_ds_unchanged n w txid0) as [ES EZ].
  pose proof (merge_list_unchanged n w txid0 Hn) as EL.
  split; [split; [rewrite EL; exact HL|split; [rewrite ES; exact HS|rewrite EZ; exact HZ]]|].
  split; [intros b l k v Hb Hk; rewrite EL in Hb; exact (HLK b l k v Hb Hk)|].
  split; [intros b s k l Hb Hk; rewrite ES in Hb; exact (HSK b s k l Hb Hk)|].
  apply tx_ds_inactive. intros t E. rewrite Ftx in E. destruct Hnt as [H|H]; rewrite H in E; discriminate E.
Qed.

(** ================= part 8: THEOREM A ================= *)
(** no Open follows a Merge *)
Fixpoint opens_before_merges (m : bool) (l : list tact) : Prop :=
  match l with
  | [] => True
  | TCall _ c :: r => open_before_merge m c /\ opens_before_merges m r
  | TMerge _ _ :: r => opens_before_merges true r
  end.

(** whenever Merge runs, every list of the specification's state is empty *)
Fixpoint merges_listless (w : world) (sw : sworld) (l : list tact) : Prop :=
  match l with
  | [] => True
  | TCall now c :: r =>
      let '(w', res) := step now w c in merges_listless w' (fst (spec_step now (res_ok res) sw c)) r
  | TMerge n txid0 :: r =>
      no_list_items (s_ds (sw_state sw)) /\ merges_listless (fst (do_merge n w txid0)) sw r
  end.

Definition agree (p : call * (res * res)) : Prop := fst (snd p) = snd (snd p).

Lemma xnext_keep : forall m c, open_before_merge m c -> xnext m true c = true.
Proof. intros m c H. destruct c; try reflexivity. cbn [open_before_merge xnext] in *. subst m. reflexivity. Qed.

Lemma run_KD : forall l m T a wr w sw,
  K m true T a wr w sw -> D a wr w sw -> tacts_ok w l -> Forall tact_kv_ok l ->
  hist_guard_corrected a wr (calls_of l) = true -> clocks_ok m true T w l ->
  opens_before_merges m l -> merges_listless w sw l ->
  Forall agree (run_m_res w sw l) /\
  exists m' T' a' wr', K m' true T' a' wr' (fst (run_m w sw l)) (snd (run_m w sw l)) /\
                       D a' wr' (fst (run_m w sw l)) (snd (run_m w sw l)).
Proof.
  induction l as [|[now c|n txid0] r IH]; intros m T a wr w sw HK HD Hok Hkv Hg Hclk Hom Hll.
  - split; [constructor|]. exists m, T, a, wr. split; [exact HK|exact HD].
  - cbn [tacts_ok calls_of clocks_ok opens_before_merges merges_listless] in *.
    rewrite hist_guard_corrected_cons in Hg. apply andb_true_iff in Hg as [Hg1 Hg2].
    destruct Hok as (Hc & Ho & Hr). destruct Hclk as [Hc1 Hc2]. destruct Hom as [Hom1 Hom2].
    inversion Hkv as [|y l' Hk Hkr]; subst y l'. cbn [tact_kv_ok] in Hk.
    destruct (step_K now m true T a wr w sw c HK Hc Hk Ho (guard_head_kvguard a wr c Hg1) Hc1) as [Hres1 HK'].
    destruct (step_D now m true T a wr w sw c HK HD Hc Hk Ho Hg1 Hom1) as [Hres2 HD'].
    rewrite (xnext_keep m c Hom1) in HK', Hc2.
    assert (Hres : snd (step now w c) = snd (spec_step now (res_ok (snd (step now w c))) sw c)).
    { destruct (kvish c) eqn:Ek; [exact (Hres1 eq_refl)|]. apply Hres2.
      destruct c as [| o | | | |]; try discriminate Ek. cbn [kvish ds_call] in *.
      unfold is_kv_op in Ek. apply orb_false_iff in Ek. exact (proj1 Ek). }
    cbn [run_m_res run_m].
    destruct (step now w c) as [w' res]. cbn [fst snd] in *.
    destruct (spec_step now (res_ok res) sw c) as [sw' sres]. cbn [fst snd] in *.
    destruct (IH _ _ _ _ w' sw' HK' HD' Hr Hkr Hg2 Hc2 Hom2 Hll) as [IH1 IH2].
    split; [constructor; [exact Hres|exact IH1]|exact IH2].
  - cbn [tacts_ok calls_of clocks_ok opens_before_merges merges_listless run_m_res run_m] in *.
    destruct Hok as ((Hnt & Hfresh) & Hr). destruct Hll as [Hn Hll].
    inversion Hkv as [|y l' _ Hkr]; subst y l'.
    assert (Hn' : no_list_items (w_ix w)).
    { destruct HD as ((HL & _) & _). exact (no_list_items_ext _ _ HL Hn). }
    apply (IH true (N.max T n) a wr); try assumption.
    + exact (merge_K m true T a wr w sw n txid0 HK Hnt Hfresh).
    + exact (merge_D a wr w sw n txid0 HD Hnt Hn').
Qed.

(** THEOREM A: every history of calls and Merges in which
    - ids are unique, Open is not called inside a transaction, Merge runs
      outside transactions with fresh internal ids ([tacts_ok]),
    - timestamp + TTL does not wrap ([tact_kv_ok]),
    - the calls satisfy the guard of HistoryRefine ([hist_guard_corrected]),
    - key/value reads are made at clocks not earlier than the earlier Merges'
      (or in mode 0) ([clocks_ok]),
    - no Open follows a Merge ([opens_before_merges]; finding F30),
    - every list is empty whenever Merge runs ([merges_listless]; finding F14):
    EVERY call returns exactly the specification's result. *)
Theorem history_merge_refines : forall l o,
  tacts_ok (empty_world o) l -> Forall tact_kv_ok l ->
  hist_guard_corrected false [] (calls_of l) = true ->
  clocks_ok false true 0 (empty_world o) l ->
  opens_before_merges false l -> merges_listless (empty_world o) sworld0 l ->
  Forall agree (run_m_res (empty_world o) sworld0 l).
Proof.
  intros l o Hok Hkv Hg Hclk Hom Hll.
  exact (proj1 (run_KD l false 0 false [] _ _ (K_init o) (D_init o) Hok Hkv Hg Hclk Hom Hll)).
Qed.

(** ... and at the end of such a history the whole state coincides *)
Theorem history_merge_state_refines : forall l o,
  tacts_ok (empty_world o) l -> Forall tact_kv_ok l ->
  hist_guard_corrected false [] (calls_of l) = true ->
  clocks_ok false true 0 (empty_world o) l ->
  opens_before_merges false l -> merges_listless (empty_world o) sworld0 l ->
  let '(w, sw) := run_m (empty_world o) sworld0 l in
  kvrel w (sw_state sw) /\ dsrel (w_ix w) (sw_state sw) /\
  list_keys_ok (w_ix w) /\ set_keys_ok (w_ix w) /\ w_closed w = sw_closed sw.
Proof.
  intros l o Hok Hkv Hg Hclk Hom Hll.
  destruct (proj2 (run_KD l false 0 false [] _ _ (K_init o) (D_init o) Hok Hkv Hg Hclk Hom Hll))
    as (m' & T' & a' & wr' & HK & HD).
  destruct (run_m (empty_world o) sworld0 l) as [w sw]. cbn [fst snd] in HK, HD.
  destruct HK as (_ & _ & _ & _ & (s' & Hrel & _ & Hex) & _ & _ & Hcl & _).
  destruct HD as (Hds & HLK & HSK & _).
  split; [exact (kvrel_skv w s' (sw_state sw) (Hex eq_refl) Hrel)|].
  repeat (split; [assumption|]). exact Hcl.
Qed.

(** ---- a sufficient condition for [merges_listless]: no push call at all ---- *)
Definition is_push (o : op) : bool := match o with ORPush _ _ _ | OLPush _ _ _ => true | _ => false end.

Definition no_push (a : tact) : Prop :=
  match a with TCall _ (COp o) => is_push o = false | _ => True end.

Lemma spec_write_no_list : forall s o, is_push o = false -> ix_list (s_ds s) = [] ->
  ix_list (s_ds (fst (spec_write s o))) = [].
Proof.
  intros s o Hp H. destruct o; try discriminate Hp; unfold spec_write; rewrite ?H; cbn [alookup];
    repeat match goal with
    | |- context [match ?y with _ => _ end] => destruct y
    | |- context [if ?y then _ else _] => destruct y
    end; cbn [fst]; exact H.
Qed.

Lemma spec_op_no_list : forall now wr s o, is_push o = false -> ix_list (s_ds s) = [] ->
  ix_list (s_ds (fst (spec_op now wr s o))) = [].
Proof.
  intros now wr s o Hp H. unfold spec_op.
  destruct (ds_read (s_ds s) o) as [r|]; [exact H|].
  destruct (spec_kv_read now s o) as [r|]; [exact H|].
  pose proof (spec_write_no_list s o Hp H) as Hw.
  destruct (spec_write s o) as [s1 r]. cbn [fst] in Hw. destruct wr; [exact Hw|exact H].
Qed.

(** no list exists, in the committed state and in the working copy *)
Definition SL (sw : sworld) : Prop :=
  ix_list (s_ds (sw_state sw)) = [] /\
  match sw_tx sw with SActive _ work => ix_list (s_ds work) = [] | _ => True end.

Lemma spec_step_SL : forall now ok sw c, SL sw -> no_push (TCall now c) -> SL (fst (spec_step now ok sw c)).
Proof.
  intros now ok sw c [H1 H2] Hp. destruct c as [wrb id|o| | | |o]; cbn [spec_step].
  - destruct (sw_closed sw); [split; assumption|]. split; [exact H1|exact H1].
  - destruct (sw_tx sw) as [|wrb work|] eqn:Es; try (cbn [fst]; split; [exact H1|rewrite Es; exact I]).
    pose proof (spec_op_no_list now wrb work o Hp H2) as Hw.
    destruct (spec_op now wrb work o) as [work' r]. cbn [fst] in *. split; [exact H1|exact Hw].
  - destruct (sw_tx sw) as [|wrb work|] eqn:Es; try (cbn [fst]; split; [exact H1|rewrite Es; exact I]).
    destruct ok; cbn [fst].
    + split; [|exact I]. cbn [sw_state]. destruct wrb; assumption.
    + split; [exact H1|rewrite Es; exact H2].
  - destruct (sw_tx sw) as [|wrb work|] eqn:Es; try (cbn [fst]; split; [exact H1|rewrite Es; exact I]).
    split; [exact H1|exact I].
  - destruct (sw_closed sw); [split; assumption|]. split; [exact H1|exact I].
  - split; [exact H1|exact I].
Qed.

Lemma no_list_items_nil : forall ix, ix_list ix = [] -> no_list_items ix.
Proof. intros ix H b l k items Hb. rewrite H in Hb. discriminate Hb. Qed.

Lemma merges_listless_no_push : forall l w sw, SL sw -> Forall no_push l -> merges_listless w sw l.
Proof.
  induction l as [|[now c|n txid0] r IH]; intros w sw HS Hp; [exact I| |].
  - inversion Hp as [|y l' Hp1 Hp2]; subst y l'. cbn [merges_listless].
    destruct (step now w c) as [w' res]. apply IH; [|exact Hp2]. apply spec_step_SL; assumption.
  - inversion Hp as [|y l' _ Hp2]; subst y l'. cbn [merges_listless].
    split; [apply no_list_items_nil; exact (proj1 HS)|]. apply IH; assumption.
Qed.

(** THEOREM A for histories without RPush / LPush, clocks nondecreasing from
    each Merge on: the hypotheses are all on the history itself *)
Corollary history_merge_refines_no_push : forall l o,
  tacts_ok (empty_world o) l -> Forall tact_kv_ok l ->
  hist_guard_corrected false [] (calls_of l) = true ->
  clocks_mono 0 l -> opens_before_merges false l -> Forall no_push l ->
  Forall agree (run_m_res (empty_world o) sworld0 l).
Proof.
  intros l o Hok Hkv Hg Hclk Hom Hp. apply history_merge_refines; try assumption.
  - apply clocks_mono_ok. exact Hclk.
  - apply merges_listless_no_push; [split; [reflexivity|exact I]|exact Hp].
Qed.

(** ================= part 9: the hypotheses are needed ================= *)
From Coq.Strings Require Import Byte.

Definition run_w (w : world) (l : list tact) : world := fold_left mstep l w.

Lemma tacts_ok_app : forall a c w, tacts_ok w a -> tacts_ok (run_w w a) c -> tacts_ok w (a ++ c).
Proof.
  induction a as [|[now y|n id] a IH]; intros c w Ha Hc; [exact Hc| |].
  - cbn [app tacts_ok] in *. destruct Ha as (A & B & C). split; [exact A|]. split; [exact B|].
    apply IH; [exact C|exact Hc].
  - cbn [app tacts_ok] in *. destruct Ha as (A & C). split; [exact A|]. apply IH; [exact C|exact Hc].
Qed.

Ltac solve_tacts :=
  vm_compute; repeat split; try exact I;
  let H := fresh "H" in intros H; repeat (destruct H as [H|H]; [discriminate H|]); exact H.

Ltac solve_kv_ok := repeat constructor.

Ltac in_list := repeat (first [left; reflexivity | right]).

Definition hm_o0 : opts := mkOpts 0 FileIO FileIO false 100.     (* HintKeyValAndRAMIdxMode *)
Definition hm_o1 : opts := mkOpts 1 FileIO FileIO false 100.     (* HintKeyAndRAMIdxMode *)
Definition hm_b : bytes := [x62].

(** Put 1 (ttl 5, written at 0) | Put 2 ; Put 3 (second file) *)
Definition hm_puts : list tact :=
  [TCall 0 (CBegin true 1); TCall 0 (COp (OPut hm_b [x31] [x76] 5 0)); TCall 0 CCommit;
   TCall 0 (CBegin true 2); TCall 0 (COp (OPut hm_b [x32] [x76] 0 0)); TCall 0 CCommit;
   TCall 0 (CBegin true 3); TCall 0 (COp (OPut hm_b [x33] [x76] 0 0)); TCall 0 CCommit].

Lemma hm_merge_ok : forall o, o = hm_o0 \/ o = hm_o1 -> merge_ok (run_w (empty_world o) hm_puts) 10.
Proof.
  intros o Ho. split.
  - right. destruct Ho; subst o; vm_compute; reflexivity.
  - assert (E : ids_of (recs (run_w (empty_world o) hm_puts)) = [1; 2; 3])
      by (destruct Ho; subst o; vm_compute; reflexivity).
    intros k Hin. rewrite E in Hin. destruct Hin as [X|[X|[X|[]]]]; lia.
Qed.

(** (1) THE CLOCKS, HintKeyAndRAMIdxMode, no Open at all.  Merge at clock 10
    drops the expired record of key 1 and its file; the index of the running
    process keeps pointing at it.  A Get at clock 3 (the key is live then)
    finds the index record, goes to the disk for the value, and finds nothing. *)
Definition hm_clock1 : list tact :=
  hm_puts ++ [TMerge 10 10; TCall 3 (CBegin false 4); TCall 3 (COp (OGet hm_b [x31]))].

Lemma hm_clock1_ok : tacts_ok (empty_world hm_o1) hm_clock1.
Proof.
  apply tacts_ok_app; [solve_tacts|]. cbn [tacts_ok]. split; [apply hm_merge_ok; right; reflexivity|].
  solve_tacts.
Qed.

Lemma hm_clock1_spec :
  Forall tact_kv_ok hm_clock1 /\
  hist_guard_corrected false [] (calls_of hm_clock1) = true /\
  opens_before_merges false hm_clock1 /\
  Forall no_push hm_clock1 /\
  map snd (run_m_res (empty_world hm_o1) sworld0 hm_clock1) =
    [(ROk, ROk); (ROk, ROk); (ROk, ROk); (ROk, ROk); (ROk, ROk); (ROk, ROk); (ROk, ROk); (ROk, ROk); (ROk, ROk);
     (ROk, ROk); (RNil, REntry [x31] [x76])] /\
  (* the same history in HintKeyValAndRAMIdxMode: the value is served from the index *)
  map snd (run_m_res (empty_world hm_o0) sworld0 hm_clock1) =
    [(ROk, ROk); (ROk, ROk); (ROk, ROk); (ROk, ROk); (ROk, ROk); (ROk, ROk); (ROk, ROk); (ROk, ROk); (ROk, ROk);
     (ROk, ROk); (REntry [x31] [x76], REntry [x31] [x76])].
Proof.
  split; [solve_kv_ok|]. split; [vm_compute; reflexivity|]. split; [vm_compute; repeat split|].
  split; [repeat constructor|]. split; vm_compute; reflexivity.
Qed.

(** Theorem A and Theorem B without the hypothesis on the clocks are false *)
Theorem clock_hypothesis_needed :
  ~ (forall l o,
       tacts_ok (empty_world o) l -> Forall tact_kv_ok l ->
       hist_guard_corrected false [] (calls_of l) = true ->
       opens_before_merges false l -> Forall no_push l ->
       Forall kv_agree (run_m_res (empty_world o) sworld0 l)).
Proof.
  intros H. destruct hm_clock1_spec as (H1 & H2 & H3 & H4 & _).
  specialize (H hm_clock1 hm_o1 hm_clock1_ok H1 H2 H3 H4).
  rewrite Forall_forall in H.
  assert (Hin : In (COp (OGet hm_b [x31]), (RNil, REntry [x31] [x76])) (run_m_res (empty_world hm_o1) sworld0 hm_clock1)).
  { vm_compute. in_list. }
  specialize (H _ Hin eq_refl). discriminate H.
Qed.

(** (2) THE CLOCKS, HintKeyValAndRAMIdxMode, an Open after the Merge: the
    reopened index no longer holds key 1 (Merge dropped its expired record),
    the specification still does, and at clock 3 the pair is live.  So the
    exemption of mode 0 from the clock hypothesis ends with the first Open
    that follows a Merge. *)
Definition hm_clock2 : list tact :=
  hm_puts ++ [TMerge 10 10; TCall 3 (COpen hm_o0); TCall 3 (CBegin false 4); TCall 3 (COp (OGet hm_b [x31]))].

Lemma hm_clock2_ok : tacts_ok (empty_world hm_o0) hm_clock2.
Proof.
  apply tacts_ok_app; [solve_tacts|]. cbn [tacts_ok]. split; [apply hm_merge_ok; left; reflexivity|].
  solve_tacts.
Qed.

Lemma hm_clock2_spec :
  Forall tact_kv_ok hm_clock2 /\
  hist_guard_corrected false [] (calls_of hm_clock2) = true /\
  Forall no_push hm_clock2 /\
  map snd (run_m_res (empty_world hm_o0) sworld0 hm_clock2) =
    [(ROk, ROk); (ROk, ROk); (ROk, ROk); (ROk, ROk); (ROk, ROk); (ROk, ROk); (ROk, ROk); (ROk, ROk); (ROk, ROk);
     (ROk, ROk); (ROk, ROk); (RErr, REntry [x31] [x76])].
Proof.
  split; [solve_kv_ok|]. split; [vm_compute; reflexivity|]. split; [repeat constructor|]. vm_compute. reflexivity.
Qed.

(** Theorem B with the clock hypothesis only for the modes that go back to the disk is false *)
Theorem clock_hypothesis_needed_after_open :
  ~ (forall l o,
       tacts_ok (empty_world o) l -> Forall tact_kv_ok l ->
       hist_guard_corrected false [] (calls_of l) = true -> Forall no_push l ->
       o_mode o = 0 -> Forall (fun a => match a with TCall _ (COpen o') => o_mode o' = 0 | _ => True end) l ->
       Forall kv_agree (run_m_res (empty_world o) sworld0 l)).
Proof.
  intros H. destruct hm_clock2_spec as (H1 & H2 & H3 & _).
  assert (H4 : Forall (fun a => match a with TCall _ (COpen o') => o_mode o' = 0 | _ => True end) hm_clock2)
    by (repeat constructor).
  specialize (H hm_clock2 hm_o0 hm_clock2_ok H1 H2 H3 eq_refl H4).
  rewrite Forall_forall in H.
  assert (Hin : In (COp (OGet hm_b [x31]), (RErr, REntry [x31] [x76])) (run_m_res (empty_world hm_o0) sworld0 hm_clock2)).
  { vm_compute. in_list. }
  specialize (H _ Hin eq_refl). discriminate H.
Qed.

(** (3) NO OPEN AFTER A MERGE (finding F30).  SAdd k x; SRem k x leaves the set
    key k with no member; Merge drops both records; after the reopen the key
    is gone where the specification still has it (empty). *)
Definition hm_f30 : list tact :=
  [TCall 0 (CBegin true 1); TCall 0 (COp (OSAdd [x62] [x6b] [[x78]])); TCall 0 CCommit;
   TCall 0 (CBegin true 2); TCall 0 (COp (OSRem [x62] [x6b] [[x78]])); TCall 0 CCommit;
   TCall 0 (CBegin true 3); TCall 0 (COp (OSAdd [x62] [x6c] [[x79]])); TCall 0 CCommit] ++
  [TMerge 0 10; TCall 0 (COpen hm_o0); TCall 0 (CBegin false 4); TCall 0 (COp (OSHasKey [x62] [x6b]))].

Lemma hm_f30_ok : tacts_ok (empty_world hm_o0) hm_f30.
Proof.
  apply tacts_ok_app; [solve_tacts|]. cbn [tacts_ok]. split; [|solve_tacts].
  split; [right; vm_compute; reflexivity|].
  match goal with |- forall k, ~ In _ (ids_of (recs ?w)) => assert (E : ids_of (recs w) = [1; 2; 3]) by (vm_compute; reflexivity) end.
  intros k Hin. rewrite E in Hin. destruct Hin as [X|[X|[X|[]]]]; lia.
Qed.

Lemma hm_f30_spec :
  Forall tact_kv_ok hm_f30 /\
  hist_guard_corrected false [] (calls_of hm_f30) = true /\
  clocks_mono 0 hm_f30 /\
  Forall no_push hm_f30 /\
  map snd (run_m_res (empty_world hm_o0) sworld0 hm_f30) =
    [(ROk, ROk); (ROk, ROk); (ROk, ROk); (ROk, ROk); (ROk, ROk); (ROk, ROk); (ROk, ROk); (ROk, ROk); (ROk, ROk);
     (ROk, ROk); (ROk, ROk); (RBool false, RBool true)].
Proof.
  split; [solve_kv_ok|]. split; [vm_compute; reflexivity|].
  split; [cbn [hm_f30 app clocks_mono]; repeat split; intros E; discriminate E|].
  split; [repeat constructor|]. vm_compute. reflexivity.
Qed.

(** Theorem A without "no Open follows a Merge" is false *)
Theorem no_open_after_merge_needed :
  ~ (forall l o,
       tacts_ok (empty_world o) l -> Forall tact_kv_ok l ->
       hist_guard_corrected false [] (calls_of l) = true ->
       clocks_mono 0 l -> Forall no_push l ->
       Forall agree (run_m_res (empty_world o) sworld0 l)).
Proof.
  intros H. destruct hm_f30_spec as (H1 & H2 & H3 & H4 & _).
  specialize (H hm_f30 hm_o0 hm_f30_ok H1 H2 H3 H4).
  rewrite Forall_forall in H.
  assert (Hin : In (COp (OSHasKey [x62] [x6b]), (RBool false, RBool true)) (run_m_res (empty_world hm_o0) sworld0 hm_f30)).
  { vm_compute. in_list. }
  specialize (H _ Hin). discriminate H.
Qed.

(** (4) LISTS (finding F14).  Merge applies the push record it keeps once more *)
Definition hm_f14 : list tact :=
  [TCall 0 (CBegin true 1); TCall 0 (COp (ORPush [x62] [x6b] [[x78]])); TCall 0 CCommit;
   TCall 0 (CBegin true 2); TCall 0 (COp (OPut hm_b [x32] [x76] 0 0)); TCall 0 CCommit;
   TCall 0 (CBegin true 3); TCall 0 (COp (OPut hm_b [x33] [x76] 0 0)); TCall 0 CCommit] ++
  [TMerge 0 10; TCall 0 (CBegin false 4); TCall 0 (COp (OLRange [x62] [x6b] 0 (-1)))].

Lemma hm_f14_ok : tacts_ok (empty_world hm_o0) hm_f14.
Proof.
  apply tacts_ok_app; [solve_tacts|]. cbn [tacts_ok]. split; [|solve_tacts].
  split; [right; vm_compute; reflexivity|].
  match goal with |- forall k, ~ In _ (ids_of (recs ?w)) => assert (E : ids_of (recs w) = [1; 2; 3]) by (vm_compute; reflexivity) end.
  intros k Hin. rewrite E in Hin. destruct Hin as [X|[X|[X|[]]]]; lia.
Qed.

Lemma hm_f14_spec :
  Forall tact_kv_ok hm_f14 /\
  hist_guard_corrected false [] (calls_of hm_f14) = true /\
  clocks_mono 0 hm_f14 /\
  opens_before_merges false hm_f14 /\
  map snd (run_m_res (empty_world hm_o0) sworld0 hm_f14) =
    [(ROk, ROk); (ROk, ROk); (ROk, ROk); (ROk, ROk); (ROk, ROk); (ROk, ROk); (ROk, ROk); (ROk, ROk); (ROk, ROk);
     (ROk, ROk); (RList [[x78]; [x78]], RList [[x78]])].
Proof.
  split; [solve_kv_ok|]. split; [vm_compute; reflexivity|].
  split; [cbn [hm_f14 app clocks_mono]; repeat split; intros E; discriminate E|].
  split; [vm_compute; repeat split|]. vm_compute. reflexivity.
Qed.

(** Theorem A without "every list is empty when Merge runs" is false *)
Theorem lists_empty_at_merge_needed :
  ~ (forall l o,
       tacts_ok (empty_world o) l -> Forall tact_kv_ok l ->
       hist_guard_corrected false [] (calls_of l) = true ->
       clocks_mono 0 l -> opens_before_merges false l ->
       Forall agree (run_m_res (empty_world o) sworld0 l)).
Proof.
  intros H. destruct hm_f14_spec as (H1 & H2 & H3 & H4 & _).
  specialize (H hm_f14 hm_o0 hm_f14_ok H1 H2 H3 H4).
  rewrite Forall_forall in H.
  assert (Hin : In (COp (OLRange [x62] [x6b] 0 (-1)), (RList [[x78]; [x78]], RList [[x78]]))
                   (run_m_res (empty_world hm_o0) sworld0 hm_f14)).
  { vm_compute. in_list. }
  specialize (H _ Hin). discriminate H.
Qed.

(** (5) THE GUARD, key/value part (HistoryRefine.cx_get_after_put, no Merge at
    all): a Get after a Put of the same transaction is answered from the
    committed index *)
Definition hm_guard : list tact :=
  [TCall 0 (CBegin true 1); TCall 0 (COp (OPut hm_b [x6b] [x31] 0 0)); TCall 0 (COp (OGet hm_b [x6b]))].

Lemma hm_guard_spec :
  tacts_ok (empty_world hm_o0) hm_guard /\ Forall tact_kv_ok hm_guard /\
  hist_guard_kv false [] (calls_of hm_guard) = false /\
  clocks_mono 0 hm_guard /\ opens_before_merges false hm_guard /\ Forall no_push hm_guard /\
  map snd (run_m_res (empty_world hm_o0) sworld0 hm_guard) = [(ROk, ROk); (ROk, ROk); (RErr, REntry [x6b] [x31])].
Proof.
  split; [solve_tacts|]. split; [solve_kv_ok|]. split; [vm_compute; reflexivity|].
  split; [cbn [hm_guard clocks_mono]; repeat split; intros _; lia|].
  split; [vm_compute; repeat split|]. split; [repeat constructor|]. vm_compute. reflexivity.
Qed.

Theorem kv_guard_needed :
  ~ (forall l o,
       tacts_ok (empty_world o) l -> Forall tact_kv_ok l ->
       clocks_mono 0 l -> opens_before_merges false l -> Forall no_push l ->
       Forall kv_agree (run_m_res (empty_world o) sworld0 l)).
Proof.
  intros H. destruct hm_guard_spec as (H1 & H2 & _ & H3 & H4 & H5 & _).
  specialize (H hm_guard hm_o0 H1 H2 H3 H4 H5).
  rewrite Forall_forall in H.
  assert (Hin : In (COp (OGet hm_b [x6b]), (RErr, REntry [x6b] [x31])) (run_m_res (empty_world hm_o0) sworld0 hm_guard)).
  { vm_compute. in_list. }
  specialize (H _ Hin eq_refl). discriminate H.
Qed.

(** (6) the exemption of HintKeyValAndRAMIdxMode is real: the history of (1)
    run in mode 0 satisfies every hypothesis of Theorem A ([clocks_ok] holds,
    [clocks_mono] does not), hence every call returns the specification's result *)
Lemma hm_clock1_mode0 :
  tacts_ok (empty_world hm_o0) hm_clock1 /\
  clocks_ok false true 0 (empty_world hm_o0) hm_clock1 /\ ~ clocks_mono 0 hm_clock1 /\
  Forall agree (run_m_res (empty_world hm_o0) sworld0 hm_clock1).
Proof.
  assert (Hok : tacts_ok (empty_world hm_o0) hm_clock1).
  { apply tacts_ok_app; [solve_tacts|]. cbn [tacts_ok]. split; [apply hm_merge_ok; left; reflexivity|]. solve_tacts. }
  assert (Hclk : clocks_ok false true 0 (empty_world hm_o0) hm_clock1).
  { vm_compute. repeat split; intros E; try discriminate E; right; split; reflexivity. }
  split; [exact Hok|]. split; [exact Hclk|]. split.
  - cbn [hm_clock1 hm_puts app clocks_mono]. intros H. decompose [and] H.
    match goal with X : is_kv_read (OGet _ _) = true -> _ |- _ => specialize (X eq_refl); vm_compute in X; apply X; reflexivity end.
  - destruct hm_clock1_spec as (H1 & H2 & H3 & H4 & _).
    apply history_merge_refines; try assumption.
    apply merges_listless_no_push; [split; [reflexivity|exact I]|exact H4].
Qed.

(** (7) KEY/VALUE BUCKETS whose records are all dead.  Put c/1; Delete c/1;
    Put b/3 (second file); Merge: both records of bucket c are dropped with
    their file.  In the running process the index keeps the bucket (with its
    tombstone); after an Open the bucket is gone from the index while the
    specification keeps it (empty).  Every read of the bucket answers RErr on
    both sides, before and after the Open, and the bucket can be written
    again: this is what [kv_same_live] (same live pairs, a missing bucket
    counting as an empty one) says, and why Theorem B needs no exception. *)
Definition hm_c : bytes := [x63].
Definition hm_bucket : list tact :=
  [TCall 0 (CBegin true 1); TCall 0 (COp (OPut hm_c [x31] [x76] 0 0)); TCall 0 CCommit;
   TCall 0 (CBegin true 2); TCall 0 (COp (ODelete hm_c [x31])); TCall 0 CCommit;
   TCall 0 (CBegin true 3); TCall 0 (COp (OPut hm_b [x33] [x76] 0 0)); TCall 0 CCommit] ++
  [TMerge 0 10;
   TCall 0 (CBegin false 4); TCall 0 (COp (OGetAll hm_c)); TCall 0 (COp (OGet hm_c [x31]));
   TCall 0 (COp (OPrefixScan hm_c [] 0 10)); TCall 0 CRollback;
   TCall 0 (COpen hm_o0);
   TCall 0 (CBegin false 5); TCall 0 (COp (OGetAll hm_c)); TCall 0 (COp (OGet hm_c [x31]));
   TCall 0 (COp (OPrefixScan hm_c [] 0 10)); TCall 0 (COp (ORangeScan hm_c [] [xff])); TCall 0 CRollback;
   TCall 0 (CBegin true 6); TCall 0 (COp (OPut hm_c [x32] [x77] 0 0)); TCall 0 CCommit;
   TCall 0 (CBegin false 7); TCall 0 (COp (OGetAll hm_c))].

Example merge_reopen_drops_dead_bucket :
  (* after the Merge, running process: the bucket is still in the index *)
  map fst (ix_kv (w_ix (run_w (empty_world hm_o0) (firstn 10 hm_bucket)))) = [hm_c; hm_b] /\
  (* after the Open: gone from the index, still (empty) in the specification *)
  map fst (ix_kv (w_ix (run_w (empty_world hm_o0) (firstn 16 hm_bucket)))) = [hm_b] /\
  alookup (s_kv (sw_state (snd (run_m (empty_world hm_o0) sworld0 (firstn 16 hm_bucket))))) hm_c = Some [] /\
  map snd (run_m_res (empty_world hm_o0) sworld0 hm_bucket) =
    [(ROk, ROk); (ROk, ROk); (ROk, ROk); (ROk, ROk); (ROk, ROk); (ROk, ROk); (ROk, ROk); (ROk, ROk); (ROk, ROk);
     (ROk, ROk); (RErr, RErr); (RErr, RErr); (RErr, RErr); (ROk, ROk);
     (ROk, ROk);
     (ROk, ROk); (RErr, RErr); (RErr, RErr); (RErr, RErr); (RErr, RErr); (ROk, ROk);
     (ROk, ROk); (ROk, ROk); (ROk, ROk);
     (ROk, ROk); (REntries [([x32], [x77])] 0, REntries [([x32], [x77])] 0)].
Proof. vm_compute. repeat split; reflexivity. Qed.

(** (8) REMARK on the two standing conditions on Merge inherited from
    MergeFacts.act_ok (Merge outside any transaction; a range of internal ids
    no record carries).  The invariants WInv / MInv / DSInv / KInv are proved
    under them; no history is known in which their violation makes a call
    return something else than the specification (the model has no I/O faults,
    so every record on disk belongs to a committed transaction and a reused id
    is harmless).  Two instances: a Merge inside a write transaction that
    takes the transaction's own id, and Merges that reuse the ids 1, 2, 3 of
    the records on disk, with reads, reopens and a second Merge after them. *)
Definition hm_rd (now id : N) (k : bytes) : list tact :=
  [TCall now (CBegin false id); TCall now (COp (OGet hm_b k)); TCall now (COp (OGetAll hm_b)); TCall now CRollback].

Definition hm_inside_tx : list tact :=
  hm_puts ++ [TCall 10 (CBegin true 4); TCall 10 (COp (OPut hm_b [x34] [x77] 0 0)); TMerge 10 4;
              TCall 10 (COp (ODelete hm_b [x32])); TCall 10 CCommit]
  ++ hm_rd 10 7 [x34] ++ [TCall 10 (COpen hm_o0)] ++ hm_rd 10 8 [x34] ++ hm_rd 10 9 [x32].

Definition hm_nonfresh : list tact :=
  hm_puts ++ [TMerge 10 1] ++ hm_rd 10 7 [x32] ++ [TCall 10 (COpen hm_o0)] ++ hm_rd 10 8 [x32]
  ++ [TMerge 10 2] ++ hm_rd 10 9 [x33] ++ [TCall 10 (COpen hm_o0)] ++ hm_rd 10 11 [x33].

Example hm_violations_agree :
  (~ tacts_ok (empty_world hm_o0) hm_inside_tx) /\ (~ tacts_ok (empty_world hm_o0) hm_nonfresh) /\
  Forall agree (run_m_res (empty_world hm_o0) sworld0 hm_inside_tx) /\
  Forall agree (run_m_res (empty_world hm_o0) sworld0 hm_nonfresh).
Proof.
  split; [|split; [|split]].
  - intros H. vm_compute in H. decompose [and] H.
    match goal with X : _ \/ _ |- _ => destruct X as [X|X]; discriminate X end.
  - intros H. unfold hm_nonfresh in H.
    assert (Hp : forall a c w, tacts_ok w (a ++ c) -> tacts_ok (run_w w a) c).
    { induction a as [|[now y|n id] a IH]; intros c w Hx; [exact Hx| |]; cbn [app tacts_ok] in Hx.
      - apply IH. exact (proj2 (proj2 Hx)).
      - apply IH. exact (proj2 Hx). }
    apply Hp in H. cbn [app tacts_ok] in H. destruct H as ((_ & Hf) & _).
    apply (Hf 0). vm_compute. left. reflexivity.
  - vm_compute. repeat constructor.
  - vm_compute. repeat constructor.
Qed.

Print Assumptions history_merge_refines.
Print Assumptions hm_violations_agree.
Print Assumptions history_merge_state_refines.
Print Assumptions history_merge_refines_no_push.
Print Assumptions history_merge_kv_refines.
Print Assumptions history_merge_kv_refines_mono.
Print Assumptions merge_list_unchanged.
Print Assumptions clock_hypothesis_needed.
Print Assumptions clock_hypothesis_needed_after_open.
Print Assumptions no_open_after_merge_needed.
Print Assumptions lists_empty_at_merge_needed.
Print Assumptions kv_guard_needed.
Print Assumptions hm_clock1_mode0.
Print Assumptions merge_reopen_drops_dead_bucket.
