(** DSHistory.v — C13 / C05–C07 through transactions, for every history:
    engine model and L0 specification side by side on any sequence of calls.
    For transactions in which no call reads, pops or validates a structure
    that an earlier call of the same transaction modified (the guard; its
    violation is known finding F21), every call returns the specification's
    result and after every commit the list / set / sorted-set indexes equal the
    specification's state. *)
From Coq Require Import Sorted.
From Verif Require Import Bytes BytesFacts Codec Dec DecFacts ListDS ListFacts SetDS SetFacts ZSetDS Index IndexFacts Engine Spec TxFacts ReplayFacts KVRefine ApplyFacts.
From Coq Require Import Lia.
Open Scope N_scope.

Definition tcall := (N * call)%type.
Definition res_ok (r : res) : bool := match r with ROk => true | _ => false end.

(** the structures a call touches: (structure code, bucket) *)
Definition op_structs (o : op) : list (N * bytes) :=
  match o with
  | ORPush b _ _ | OLPush b _ _ | ORPop b _ | OLPop b _ | ORPeek b _ | OLPeek b _ | OLSize b _
  | OLRange b _ _ _ | OLRem b _ _ _ | OLSet b _ _ _ | OLTrim b _ _ _ => [(DS_List, b)]
  | OSAdd b _ _ | OSRem b _ _ | OSAreMembers b _ _ | OSIsMember b _ _ | OSMembers b _ | OSHasKey b _
  | OSPop b _ _ | OSCard b _ | OSDiff1 b _ _ | OSMove1 b _ _ _ | OSUnion1 b _ _ => [(DS_Set, b)]
  | OSDiff2 b1 _ b2 _ | OSMove2 b1 _ b2 _ _ | OSUnion2 b1 _ b2 _ => [(DS_Set, b1); (DS_Set, b2)]
  | OZAdd b _ _ _ | OZMembers b | OZCard b | OZCount b _ _ _ _ _ | OZPopMax b | OZPopMin b | OZPeekMax b
  | OZPeekMin b | OZRangeByScore b _ _ _ _ _ | OZRangeByRank b _ _ | OZRem b _ | OZRemRangeByRank b _ _
  | OZRank b _ | OZRevRank b _ | OZScore b _ | OZGetByKey b _ => [(DS_ZSet, b)]
  | _ => []
  end.

(** writes that validate nothing and return nothing that depends on the state *)
Definition is_blind (o : op) : bool :=
  match o with
  | ORPush _ _ _ | OLPush _ _ _ | OSAdd _ _ _ | OSRem _ _ _ | OZAdd _ _ _ _ => true
  | _ => false
  end.

Definition sb_mem (x : N * bytes) (l : list (N * bytes)) : bool :=
  existsb (fun y => (fst x =? fst y) && bytes_eqb (snd x) (snd y)) l.

(** the guard, over the calls of one transaction: [wrote] = structures written so far *)
Fixpoint tx_guard (wrote : list (N * bytes)) (os : list op) : bool :=
  match os with
  | [] => true
  | o :: r =>
      (is_blind o || negb (existsb (fun x => sb_mem x wrote) (op_structs o))) &&
      tx_guard (if is_ds_write o then op_structs o ++ wrote else wrote) r
  end.

(** TARGET 1 (one transaction), [guarded_tx_is_serial] in part 8: a guarded
    list of calls run in a write transaction on indexes that coincide with the
    specification state: every call returns the specification's result, and
    after Commit the indexes coincide with the specification's state after the
    whole transaction.  The generalisation to any prefix already executed is
    [guarded_run]; the single call is [hist_step]; the locality lemmas are
    [ds_read_local] and [do_op_local]. *)
Fixpoint run_ops_res (now : N) (w : world) (os : list op) : world * list res :=
  match os with
  | [] => (w, [])
  | o :: r => let '(w1, x) := step now w (COp o) in let '(w2, xs) := run_ops_res now w1 r in (w2, x :: xs)
  end.

Fixpoint spec_ops_res (now : N) (s : sstate) (os : list op) : sstate * list res :=
  match os with
  | [] => (s, [])
  | o :: r => let '(s1, x) := spec_op now true s o in let '(s2, xs) := spec_ops_res now s1 r in (s2, x :: xs)
  end.


(** ================= part 1: membership in [wrote] ================= *)
Lemma sb_mem_In : forall x l, sb_mem x l = true <-> In x l.
Proof.
  intros [d b] l. unfold sb_mem. rewrite existsb_exists. cbn [fst snd]. split.
  - intros ([d' b'] & Hin & Heq). cbn [fst snd] in Heq. apply andb_true_iff in Heq as [H1 H2].
    apply N.eqb_eq in H1. apply bytes_eqb_eq in H2. subst. exact Hin.
  - intros Hin. exists (d, b). split; [exact Hin|]. cbn [fst snd].
    rewrite N.eqb_refl, bytes_eqb_refl. reflexivity.
Qed.

Lemma sb_mem_app : forall x l1 l2, sb_mem x (l1 ++ l2) = sb_mem x l1 || sb_mem x l2.
Proof. intros x l1 l2. unfold sb_mem. apply existsb_app. Qed.

Lemma sb_mem_not_In : forall x l, sb_mem x l = false -> ~ In x l.
Proof. intros x l H Hin. apply sb_mem_In in Hin. congruence. Qed.

(** ================= part 2: what a call on structure x = (code, bucket) can see ================= *)
Definition agree_on (ix1 ix2 : indexes) (x : N * bytes) : Prop :=
  (fst x = DS_List -> alookup (ix_list ix1) (snd x) = alookup (ix_list ix2) (snd x)) /\
  (fst x = DS_Set -> alookup (ix_set ix1) (snd x) = alookup (ix_set ix2) (snd x)) /\
  (fst x = DS_ZSet -> alookup (ix_zset ix1) (snd x) = alookup (ix_zset ix2) (snd x)).

Lemma agree_refl : forall ix x, agree_on ix ix x.
Proof. intros ix x. repeat split. Qed.

Lemma agree_sym : forall a b x, agree_on a b x -> agree_on b a x.
Proof. intros a b x (H1 & H2 & H3). repeat split; intros E; symmetry; auto. Qed.

Lemma agree_trans : forall a b c x, agree_on a b x -> agree_on b c x -> agree_on a c x.
Proof.
  intros a b c x (H1 & H2 & H3) (G1 & G2 & G3).
  split; [|split]; intros E; [rewrite H1, G1|rewrite H2, G2|rewrite H3, G3]; auto.
Qed.

Lemma apply_ds_kv_id : forall strict ix e, e_ds e = DS_KV -> apply_ds strict ix e = ix.
Proof. intros strict ix e H. unfold apply_ds. rewrite H. reflexivity. Qed.

(** [apply_ds] on a record of structure (ds, bucket) leaves every other structure untouched *)
Lemma apply_ds_agree : forall strict ix e x,
  e_ds e = DS_KV \/ x <> (e_ds e, e_bucket e) -> agree_on (apply_ds strict ix e) ix x.
Proof.
  intros strict ix e [d b] [Hkv|Hne].
  { rewrite apply_ds_kv_id by exact Hkv. apply agree_refl. }
  unfold agree_on, apply_ds. cbn [fst snd].
  destruct (e_ds e =? DS_Set) eqn:E1.
  { apply N.eqb_eq in E1. cbn [ix_list ix_set ix_zset]. split; [reflexivity|]. split; [|reflexivity].
    intros Hd. apply alookup_aset_other. intros Hb. apply Hne. subst d b. rewrite E1. reflexivity. }
  destruct (e_ds e =? DS_ZSet) eqn:E2.
  { apply N.eqb_eq in E2. cbn [ix_list ix_set ix_zset]. split; [reflexivity|]. split; [reflexivity|].
    intros Hd. apply alookup_aset_other. intros Hb. apply Hne. subst d b. rewrite E2. reflexivity. }
  destruct (e_ds e =? DS_List) eqn:E3.
  { apply N.eqb_eq in E3. cbn [ix_list ix_set ix_zset]. split; [|split; reflexivity].
    intros Hd. apply alookup_aset_other. intros Hb. apply Hne. subst d b. rewrite E3. reflexivity. }
  repeat split.
Qed.

Lemma fold_apply_agree : forall strict es ix x,
  Forall (fun e => e_ds e = DS_KV \/ x <> (e_ds e, e_bucket e)) es ->
  agree_on (fold_left (apply_ds strict) es ix) ix x.
Proof.
  intros strict es. induction es as [|e es IH]; intros ix x H; [apply agree_refl|].
  inversion H as [|e' es' He Hes]; subst. cbn [fold_left].
  eapply agree_trans; [apply IH; exact Hes|]. apply apply_ds_agree. exact He.
Qed.

Lemma agree_list : forall ix1 ix2 S b, (forall x, In x S -> agree_on ix1 ix2 x) -> In (DS_List, b) S ->
  alookup (ix_list ix1) b = alookup (ix_list ix2) b.
Proof. intros ix1 ix2 S b H Hin. destruct (H _ Hin) as (HL & _ & _). exact (HL eq_refl). Qed.
Lemma agree_set : forall ix1 ix2 S b, (forall x, In x S -> agree_on ix1 ix2 x) -> In (DS_Set, b) S ->
  alookup (ix_set ix1) b = alookup (ix_set ix2) b.
Proof. intros ix1 ix2 S b H Hin. destruct (H _ Hin) as (_ & HS & _). exact (HS eq_refl). Qed.
Lemma agree_zset : forall ix1 ix2 S b, (forall x, In x S -> agree_on ix1 ix2 x) -> In (DS_ZSet, b) S ->
  alookup (ix_zset ix1) b = alookup (ix_zset ix2) b.
Proof. intros ix1 ix2 S b H Hin. destruct (H _ Hin) as (_ & _ & HZ). exact (HZ eq_refl). Qed.

(** ================= part 3: locality ================= *)
(** a read-only structure call depends only on the structures in [op_structs] *)
Lemma ds_read_local : forall ix1 ix2 o,
  (forall x, In x (op_structs o) -> agree_on ix1 ix2 x) -> ds_read ix1 o = ds_read ix2 o.
Proof.
  intros ix1 ix2 o H.
  destruct o; cbn [op_structs] in H; cbn [ds_read]; try reflexivity;
    rewrite ?(agree_list ix1 ix2 _ _ H) by (cbn; auto);
    rewrite ?(agree_set ix1 ix2 _ _ H) by (cbn; auto);
    rewrite ?(agree_zset ix1 ix2 _ _ H) by (cbn; auto); reflexivity.
Qed.

Ltac crush_match :=
  repeat match goal with
  | |- context [match ?x with _ => _ end] => destruct x; cbn [fst snd]
  | |- context [if ?x then _ else _] => destruct x; cbn [fst snd]
  end.

(** every call other than a key/value read: the result and the new pending
    list depend only on the structures in [op_structs]; for a blind write on
    nothing at all *)
Lemma do_op_local : forall now w1 w2 t o,
  is_kv_read o = false ->
  (is_blind o = true \/ forall x, In x (op_structs o) -> agree_on (w_ix w1) (w_ix w2) x) ->
  snd (fst (do_op now w1 t o)) = snd (fst (do_op now w2 t o)) /\
  snd (do_op now w1 t o) = snd (do_op now w2 t o).
Proof.
  intros now w1 w2 t o Hkv [Hb|H].
  - destruct o; try discriminate Hb; do_op_unfold; crush_match; split; reflexivity.
  - destruct o; try discriminate Hkv; cbn [op_structs] in H; do_op_unfold;
      rewrite ?(agree_list (w_ix w1) (w_ix w2) _ _ H) by (cbn; auto);
      rewrite ?(agree_set (w_ix w1) (w_ix w2) _ _ H) by (cbn; auto);
      rewrite ?(agree_zset (w_ix w1) (w_ix w2) _ _ H) by (cbn; auto);
      crush_match; split; reflexivity.
Qed.

(** ================= part 4: invariants of the pending list ================= *)
(** the transaction is writable and every pending record is a key/value record
    or belongs to a structure of [S] *)
Definition pend_in (S : list (N * bytes)) (t : txstate) : Prop :=
  tx_w t = true /\ Forall (fun e => e_ds e = DS_KV \/ In (e_ds e, e_bucket e) S) (tx_pend t).

Lemma pend_in_mono : forall S S' t, incl S S' -> pend_in S t -> pend_in S' t.
Proof.
  intros S S' t Hi [Hw Hp]. split; [exact Hw|]. eapply Forall_impl; [|exact Hp].
  intros e [E|E]; [left; exact E|right; apply Hi; exact E].
Qed.

Lemma tx_put_pend_in : forall S t b k v ttl flag ts ds,
  pend_in S t -> (ds = DS_KV \/ In (ds, b) S) -> pend_in S (fst (tx_put t b k v ttl flag ts ds)).
Proof.
  intros S t b k v ttl flag ts ds [Hw Hp] Hq. unfold tx_put. rewrite Hw. cbn [negb].
  destruct k as [|k0 k]; [split; assumption|]. cbn [fst]. split; [reflexivity|].
  cbn [tx_pend]. apply Forall_app. split; [exact Hp|]. constructor; [|constructor]. exact Hq.
Qed.

Lemma tx_put_all_pend_in : forall S b k flag ts ds vs t,
  pend_in S t -> (ds = DS_KV \/ In (ds, b) S) -> pend_in S (fst (tx_put_all t b k vs flag ts ds)).
Proof.
  intros S b k flag ts ds vs. induction vs as [|v vs IH]; intros t H Hq; [exact H|].
  cbn [tx_put_all]. pose proof (tx_put_pend_in S t b k v 0 flag ts ds H Hq) as E.
  destruct (tx_put t b k v 0 flag ts ds) as [t' r]. cbn [fst] in E.
  destruct r; try exact E. apply IH; assumption.
Qed.

Ltac pin_step :=
  match goal with
  | H : pend_in ?S ?t1 |- context [tx_put ?t1 ?b ?k ?v ?ttl ?f ?ts ?ds] =>
      let E := fresh "E" in
      assert (E : pend_in S (fst (tx_put t1 b k v ttl f ts ds)))
        by (apply tx_put_pend_in; [exact H|first [left; reflexivity|right; cbn; auto]]);
      destruct (tx_put t1 b k v ttl f ts ds) as [? ?]; cbn [fst snd] in E |- *
  | H : pend_in ?S ?t1 |- context [tx_put_all ?t1 ?b ?k ?vs ?f ?ts ?ds] =>
      let E := fresh "E" in
      assert (E : pend_in S (fst (tx_put_all t1 b k vs f ts ds)))
        by (apply tx_put_all_pend_in; [exact H|first [left; reflexivity|right; cbn; auto]]);
      destruct (tx_put_all t1 b k vs f ts ds) as [? ?]; cbn [fst snd] in E |- *
  | |- context [match ?x with _ => _ end] => destruct x; cbn [fst snd]
  | |- context [if ?x then _ else _] => destruct x; cbn [fst snd]
  end.

(** the records a call appends belong to the structures of [op_structs] *)
Lemma do_op_pend_in : forall now w t o S,
  pend_in (op_structs o ++ S) t -> pend_in (op_structs o ++ S) (snd (fst (do_op now w t o))).
Proof.
  intros now w t o S H. unfold do_op.
  destruct (ds_read (w_ix w) o) as [r0|]; [exact H|].
  destruct o; cbn [op_structs app] in H |- *; cbn [fst snd]; try exact H;
    repeat pin_step; assumption.
Qed.

Lemma ds_read_dsrel : forall ix s o, dsrel ix s -> ds_read ix o = ds_read (s_ds s) o.
Proof.
  intros ix s o (HL & HS & HZ). destruct o; cbn [ds_read]; rewrite ?HL, ?HS, ?HZ; reflexivity.
Qed.

Lemma fold_keys_ok : forall strict es ix,
  Forall rec_ok es -> list_keys_ok ix -> set_keys_ok ix ->
  list_keys_ok (fold_left (apply_ds strict) es ix) /\ set_keys_ok (fold_left (apply_ds strict) es ix).
Proof.
  intros strict es. induction es as [|e es IH]; intros ix H HL HS; [split; assumption|].
  inversion H as [|e' es' [He1 He2] Hes]; subst. cbn [fold_left]. apply IH; [exact Hes| |].
  - apply apply_ds_keys_ok; assumption.
  - apply apply_ds_set_keys_ok; [exact HS|intros _; exact He1].
Qed.

Lemma spec_op_write : forall now s o,
  is_kv_read o = false -> ds_read (s_ds s) o = None -> spec_op now true s o = spec_write s o.
Proof.
  intros now s o Hkv Hrd. unfold spec_op. rewrite Hrd.
  destruct o; try discriminate Hkv; cbn [spec_kv_read]; destruct (spec_write s _); reflexivity.
Qed.

(** ================= part 5: one call ================= *)
(** the invariant over the prefix of calls executed so far: [ix] are the
    committed indexes, [t] the transaction, [S] the structures written so far,
    [sk] the specification's working copy *)
Definition hinv (strict : bool) (ix : indexes) (t : txstate) (S : list (N * bytes)) (sk : sstate) : Prop :=
  pend_in S t /\ Forall rec_ok (tx_pend t) /\
  dsrel (fold_left (apply_ds strict) (tx_pend t) ix) sk.

Lemma hinv_agree : forall strict ix t S sk x,
  hinv strict ix t S sk -> ~ In x S -> agree_on ix (fold_left (apply_ds strict) (tx_pend t) ix) x.
Proof.
  intros strict ix t S sk x ([_ Hp] & _ & _) Hx. apply agree_sym. apply fold_apply_agree.
  eapply Forall_impl; [|exact Hp].
  intros e [E|E]; [left; exact E|right; intros ->; exact (Hx E)].
Qed.

Lemma hist_step : forall strict now w t S sk o,
  list_keys_ok (w_ix w) -> set_keys_ok (w_ix w) ->
  hinv strict (w_ix w) t S sk ->
  is_kv_read o = false ->
  (is_blind o = true \/ forall x, In x (op_structs o) -> ~ In x S) ->
  snd (do_op now w t o) = snd (spec_op now true sk o) /\
  hinv strict (w_ix w) (snd (fst (do_op now w t o)))
       (if is_ds_write o then op_structs o ++ S else S) (fst (spec_op now true sk o)).
Proof.
  intros strict now w t S sk o HLK HSK Hinv Hkv Hg.
  pose proof (hinv_agree strict (w_ix w) t S sk) as Hag. specialize (fun x => Hag x Hinv).
  destruct Hinv as (Hp & Hrec & Hrel).
  set (ixk := fold_left (apply_ds strict) (tx_pend t) (w_ix w)) in *.
  destruct (fold_keys_ok strict (tx_pend t) (w_ix w) Hrec HLK HSK) as [HLK' HSK'].
  fold ixk in HLK', HSK'.
  destruct (ds_read (s_ds sk) o) as [r|] eqn:Hrd.
  - (* a read-only structure call *)
    assert (Hnb : is_blind o = false) by (destruct o; try discriminate Hrd; reflexivity).
    assert (Hnw : is_ds_write o = false) by (destruct o; try discriminate Hrd; reflexivity).
    destruct Hg as [Hg|Hg]; [congruence|].
    assert (E : ds_read (w_ix w) o = Some r).
    { rewrite (ds_read_local (w_ix w) ixk) by (intros x Hx; apply Hag, Hg, Hx).
      rewrite (ds_read_dsrel _ _ _ Hrel). exact Hrd. }
    unfold do_op, spec_op. rewrite E, Hrd, Hnw. cbn [fst snd]. split; [reflexivity|].
    split; [exact Hp|]. split; [exact Hrec|exact Hrel].
  - rewrite (spec_op_write now sk o Hkv Hrd).
    assert (Hrec' : Forall rec_ok (tx_pend (snd (fst (do_op now w t o))))) by (apply do_op_rec_ok; exact Hrec).
    destruct (is_ds_write o) eqn:Hdw.
    + (* a mutating structure call *)
      assert (Hp' : pend_in (op_structs o ++ S) (snd (fst (do_op now w t o)))).
      { apply do_op_pend_in. eapply pend_in_mono; [|exact Hp]. apply incl_appr, incl_refl. }
      set (w' := set_w_ix w ixk).
      assert (Hrel' : dsrel (w_ix w') sk) by exact Hrel.
      destruct (ds_write_refines_corrected now w' t o sk Hrel' HLK' HSK' (proj1 Hp) Hdw)
        as (Hres & es & Hpe & Hfold & _).
      assert (Hloc : is_blind o = true \/ forall x, In x (op_structs o) -> agree_on (w_ix w) (w_ix w') x).
      { destruct Hg as [Hg|Hg]; [left; exact Hg|right]. intros x Hx. apply Hag, Hg, Hx. }
      destruct (do_op_local now w w' t o Hkv Hloc) as [L1 L2].
      split; [rewrite L2; exact Hres|].
      split; [exact Hp'|]. split; [exact Hrec'|].
      rewrite L1, Hpe, fold_left_app. exact (Hfold strict).
    + (* Put / Delete: the structure indexes are not concerned *)
      assert (Hp' : pend_in S (snd (fst (do_op now w t o)))).
      { destruct o; try discriminate Hkv; try discriminate Hdw; try discriminate Hrd;
          [exact (do_op_pend_in now w t (OPut b k v ttl ts) S Hp)|exact (do_op_pend_in now w t (ODelete b k) S Hp)]. }
      destruct Hp as [Hw Hp].
      destruct o; try discriminate Hkv; try discriminate Hdw; try discriminate Hrd.
      * (* OPut *)
        revert Hp' Hrec'. do_op_unfold. spec_unfold. cbn [fst snd]. intros Hp' Hrec'.
        destruct k as [|k0 k].
        { rewrite tx_put_nil by exact Hw. cbn [fst snd nonempty]. split; [reflexivity|].
          rewrite tx_put_nil in Hp', Hrec' by exact Hw.
          split; [exact Hp'|]. split; [exact Hrec'|exact Hrel]. }
        rewrite tx_put_ok in Hp', Hrec' |- * by (exact Hw || discriminate).
        cbn [fst snd nonempty] in Hp', Hrec' |- *. split; [reflexivity|].
        split; [exact Hp'|]. split; [exact Hrec'|].
        cbn [tx_pend]. rewrite fold_left_app. cbn [fold_left].
        rewrite apply_ds_kv_id by reflexivity. exact Hrel.
      * (* ODelete *)
        revert Hp' Hrec'. do_op_unfold. spec_unfold. cbn [fst snd]. intros Hp' Hrec'.
        destruct k as [|k0 k].
        { rewrite tx_put_nil by exact Hw. cbn [fst snd nonempty]. split; [reflexivity|].
          rewrite tx_put_nil in Hp', Hrec' by exact Hw.
          split; [exact Hp'|]. split; [exact Hrec'|exact Hrel]. }
        rewrite tx_put_ok in Hp', Hrec' |- * by (exact Hw || discriminate).
        cbn [fst snd nonempty] in Hp', Hrec' |- *. split; [reflexivity|].
        split; [exact Hp'|]. split; [exact Hrec'|].
        cbn [tx_pend]. rewrite fold_left_app. cbn [fold_left].
        rewrite apply_ds_kv_id by reflexivity. exact Hrel.
Qed.

(** ================= part 6: the calls of one transaction ================= *)
Lemma step_op_active : forall now w t o, w_tx w = TxActive t ->
  step now w (COp o) = (set_tx w (TxActive (snd (fst (do_op now w t o)))), snd (do_op now w t o)).
Proof.
  intros now w t o H. unfold step. rewrite H.
  pose proof (do_op_world now w t o) as E.
  destruct (do_op now w t o) as [[w' t'] r]. cbn [fst snd] in *. subst w'. reflexivity.
Qed.

Lemma guard_head : forall S o,
  (is_blind o || negb (existsb (fun x => sb_mem x S) (op_structs o))) = true ->
  is_blind o = true \/ forall x, In x (op_structs o) -> ~ In x S.
Proof.
  intros S o H. apply orb_true_iff in H as [H|H]; [left; exact H|right].
  intros x Hx Hin. apply negb_true_iff in H.
  assert (E : existsb (fun x => sb_mem x S) (op_structs o) = true).
  { apply existsb_exists. exists x. split; [exact Hx|]. apply sb_mem_In. exact Hin. }
  congruence.
Qed.

(** the generalised statement: any prefix already executed ([S], [t], [sk]) *)
Lemma guarded_run : forall strict now os w t S sk,
  list_keys_ok (w_ix w) -> set_keys_ok (w_ix w) ->
  w_tx w = TxActive t -> hinv strict (w_ix w) t S sk ->
  Forall (fun o => is_kv_read o = false) os ->
  tx_guard S os = true ->
  exists t2 S2,
    fst (run_ops_res now w os) = set_tx w (TxActive t2) /\
    snd (run_ops_res now w os) = snd (spec_ops_res now sk os) /\
    hinv strict (w_ix w) t2 S2 (fst (spec_ops_res now sk os)).
Proof.
  intros strict now os. induction os as [|o os IH]; intros w t S sk HLK HSK Ht Hinv Hkv Hg.
  - exists t, S. cbn [run_ops_res spec_ops_res fst snd]. split; [|split; [reflexivity|exact Hinv]].
    destruct w; cbn in Ht |- *. rewrite Ht. reflexivity.
  - inversion Hkv as [|o' os' Hkv1 Hkv2]; subst.
    cbn [tx_guard] in Hg. apply andb_true_iff in Hg as [Hg1 Hg2].
    destruct (hist_step strict now w t S sk o HLK HSK Hinv Hkv1 (guard_head S o Hg1)) as [Hres Hinv'].
    cbn [run_ops_res spec_ops_res]. rewrite (step_op_active now w t o Ht).
    set (t' := snd (fst (do_op now w t o))) in *.
    set (w1 := set_tx w (TxActive t')).
    destruct (spec_op now true sk o) as [s1 x] eqn:Hso. cbn [fst snd] in Hres, Hinv'.
    destruct (IH w1 t' _ s1 HLK HSK eq_refl Hinv' Hkv2 Hg2) as (t2 & S2 & A & B & C).
    exists t2, S2.
    destruct (run_ops_res now w1 os) as [w2 xs]. destruct (spec_ops_res now s1 os) as [s2 ys].
    cbn [fst snd] in *. split; [exact A|]. split; [|exact C]. rewrite Hres, B. reflexivity.
Qed.

(** ================= part 7: Commit ================= *)
Definition ds_part (ix : indexes) := (ix_list ix, ix_set ix, ix_zset ix).

Lemma dsrel_ds_part : forall ix s, dsrel ix s <-> ds_part ix = ds_part (s_ds s).
Proof.
  intros ix s. unfold dsrel, ds_part. split.
  - intros (A & B & C). rewrite A, B, C. reflexivity.
  - intros H. injection H as A B C. auto.
Qed.

Lemma ds_part_keys : forall a b, ds_part a = ds_part b ->
  (list_keys_ok b -> list_keys_ok a) /\ (set_keys_ok b -> set_keys_ok a).
Proof.
  intros a b H. injection H as A B C. unfold list_keys_ok, set_keys_ok. rewrite A, B. auto.
Qed.

Lemma apply_ds_ds_part : forall strict ix1 ix2 e, ds_part ix1 = ds_part ix2 ->
  ds_part (apply_ds strict ix1 e) = ds_part (apply_ds strict ix2 e).
Proof.
  intros strict ix1 ix2 e H. injection H as A B C. unfold apply_ds, ds_part.
  destruct (e_ds e =? DS_Set); [cbn [ix_list ix_set ix_zset]; rewrite A, B, C; reflexivity|].
  destruct (e_ds e =? DS_ZSet); [cbn [ix_list ix_set ix_zset]; rewrite A, B, C; reflexivity|].
  destruct (e_ds e =? DS_List); cbn [ix_list ix_set ix_zset]; rewrite A, B, C; reflexivity.
Qed.

Lemma apply_ds_status : forall strict ix e st, apply_ds strict ix (with_status e st) = apply_ds strict ix e.
Proof. reflexivity. Qed.

(** the records reported by the write loop are the pending ones up to the commit marker *)
Lemma commit_loop_written : forall pend seg mark st,
  Forall2 (fun r e => snd r = e \/ snd r = with_status e St_Committed)
          (snd (commit_loop seg mark st pend)) pend.
Proof.
  induction pend as [|e rest IH]; intros seg mark st; cbn [commit_loop]; [constructor|].
  destruct (commit_write seg st e (mark && match rest with [] => true | _ => false end)) as [st1 r] eqn:E1.
  specialize (IH seg mark st1). destruct (commit_loop seg mark st1 rest) as [st2 rs]. cbn [snd] in *.
  constructor; [|exact IH]. unfold commit_write in E1. injection E1 as _ E1. subst r. cbn [snd].
  destruct (mark && match rest with [] => true | _ => false end); auto.
Qed.

Lemma commit_index_ds_part : forall ws pend ix,
  Forall2 (fun r e => snd r = e \/ snd r = with_status e St_Committed) ws pend ->
  ds_part (commit_index ix ws) = ds_part (fold_left (apply_ds false) pend ix).
Proof.
  intros ws pend ix H. rewrite commit_index_eq.
  assert (G : forall ix1 ix2, ds_part ix1 = ds_part ix2 ->
              ds_part (fold_left (fun ix (r : N * N * entry) => apply_ds false ix (snd r)) ws ix1) =
              ds_part (fold_left (apply_ds false) pend ix2)).
  { induction H as [|r e ws pend Hre H IH]; intros ix1 ix2 E; [exact E|].
    cbn [fold_left]. apply IH.
    destruct Hre as [Hre|Hre]; rewrite Hre; rewrite ?apply_ds_status; apply apply_ds_ds_part; exact E. }
  apply G. reflexivity.
Qed.

Local Opaque commit_loop.

(** Commit of an active transaction: it succeeds iff no pending record exceeds
    the segment size; then the structure indexes are the pending records
    applied in order; otherwise the world is unchanged *)
Lemma commit_ok_iff : forall now w t, w_tx w = TxActive t ->
  (snd (step now w CCommit) = ROk <->
   existsb (fun e => o_seg (w_opts w) <? entry_size e) (tx_pend t) = false).
Proof.
  intros now w t Ht. unfold step. rewrite Ht. unfold do_commit.
  destruct (tx_pend t) as [|e r] eqn:Ep; [cbn; split; reflexivity|].
  destruct (existsb (fun e0 => o_seg (w_opts w) <? entry_size e0) (e :: r)); cbn [fst snd].
  - split; discriminate.
  - destruct (commit_loop _ _ _ _) as [st written]. cbn [fst snd]. split; reflexivity.
Qed.

Lemma commit_ds : forall now w t, w_tx w = TxActive t ->
  (snd (step now w CCommit) = ROk ->
   ds_part (w_ix (fst (step now w CCommit))) = ds_part (fold_left (apply_ds false) (tx_pend t) (w_ix w))) /\
  (snd (step now w CCommit) <> ROk -> fst (step now w CCommit) = w).
Proof.
  intros now w t Ht. unfold step. rewrite Ht. unfold do_commit.
  destruct (tx_pend t) as [|e r] eqn:Ep.
  { cbn [fst snd]. split; [reflexivity|intros H; contradiction H; reflexivity]. }
  destruct (existsb (fun e0 => o_seg (w_opts w) <? entry_size e0) (e :: r)); cbn [fst snd].
  { split; [discriminate|reflexivity]. }
  pose proof (commit_loop_written (e :: r) (o_seg (w_opts w)) true
                (mkC (w_disk w) (w_maxfid w) (w_woff w) (w_asize w))) as Hw.
  destruct (commit_loop _ _ _ _) as [st written]. cbn [fst snd] in *.
  split; [|intros H; contradiction H; reflexivity].
  intros _. unfold set_disk. cbn [w_ix]. apply commit_index_ds_part. exact Hw.
Qed.

(** ================= part 8: TARGET 1 =================
    A guarded list of calls (any call except the key/value reads Get, GetAll,
    RangeScan, PrefixScan, PrefixSearchScan) run in one write transaction:
    every call returns the specification's result (RInadmissible included:
    an SPop oracle that is not a member is refused by both sides and changes
    nothing), and Commit
      - succeeds iff no pending record exceeds the segment size;
      - on success leaves structure indexes that coincide with the
        specification's state after the whole transaction, and keeps the two
        key invariants;
      - on failure leaves the world (hence the indexes) unchanged.
    Hypotheses, and why:
      dsrel, list_keys_ok, set_keys_ok  on the committed indexes: the premises
        of ApplyFacts.ds_write_refines_corrected (LSet/LTrim log "key|index",
        SMove disagrees on an empty set key);
      w_closed w = false: Begin fails on a closed database;
      no key/value read: their refinement is KVRefine's (and needs its own
        guard); Put and Delete ARE allowed (they do not touch the structures);
      tx_guard [] os = true: the guard as defined is sufficient — no
        strengthening (tx_guard_corrected) is needed.  It cannot be dropped:
        unguarded_tx_not_serial below.
    Dropped from the first statement because unused: Inv w, the state of the
    previous transaction, the freshness of the id (see the corollary
    guarded_tx_is_serial_as_first_stated). *)
Theorem guarded_tx_is_serial : forall now w s id os,
  dsrel (w_ix w) s -> list_keys_ok (w_ix w) -> set_keys_ok (w_ix w) ->
  w_closed w = false ->
  Forall (fun o => is_kv_read o = false) os ->
  tx_guard [] os = true ->
  let w1 := fst (step now w (CBegin true id)) in
  let '(w2, rs) := run_ops_res now w1 os in
  let '(s2, srs) := spec_ops_res now s os in
  let w3 := fst (step now w2 CCommit) in
  rs = srs /\
  (snd (step now w2 CCommit) = ROk ->
   dsrel (w_ix w3) s2 /\ list_keys_ok (w_ix w3) /\ set_keys_ok (w_ix w3)) /\
  (snd (step now w2 CCommit) <> ROk -> w3 = w2 /\ w_ix w3 = w_ix w) /\
  (exists t2, w_tx w2 = TxActive t2 /\
     (snd (step now w2 CCommit) = ROk <->
      forall e, In e (tx_pend t2) -> entry_size e <= o_seg (w_opts w))).
Proof.
  intros now w s id os Hrel HLK HSK Hcl Hkv Hg. cbv zeta.
  assert (E1 : fst (step now w (CBegin true id)) = set_tx w (TxActive (mkTx id true []))).
  { unfold step. rewrite Hcl. reflexivity. }
  rewrite E1. set (t0 := mkTx id true []). set (w1 := set_tx w (TxActive t0)).
  assert (Hinv : hinv false (w_ix w1) t0 [] s).
  { split; [split; [reflexivity|constructor]|]. split; [constructor|exact Hrel]. }
  destruct (guarded_run false now os w1 t0 [] s HLK HSK eq_refl Hinv Hkv Hg) as (t2 & S2 & A & B & C).
  destruct (run_ops_res now w1 os) as [w2 rs]. destruct (spec_ops_res now s os) as [s2 srs].
  cbn [fst snd] in A, B, C. subst w2.
  set (w2 := set_tx w1 (TxActive t2)).
  destruct C as (Hp & Hrec & Hrel2).
  destruct (commit_ds now w2 t2 eq_refl) as [C1 C2].
  split; [exact B|]. split; [|split].
  - intros Hok. specialize (C1 Hok). change (w_ix w2) with (w_ix w) in C1.
    destruct (fold_keys_ok false (tx_pend t2) (w_ix w) Hrec HLK HSK) as [K1 K2].
    destruct (ds_part_keys _ _ C1) as [K1' K2'].
    split; [|split; [exact (K1' K1)|exact (K2' K2)]].
    apply dsrel_ds_part. rewrite C1. apply dsrel_ds_part. exact Hrel2.
  - intros Hno. rewrite (C2 Hno). split; reflexivity.
  - exists t2. split; [reflexivity|].
    rewrite (commit_ok_iff now w2 t2 eq_refl). change (w_opts w2) with (w_opts w).
    split.
    + intros H e He. destruct (o_seg (w_opts w) <? entry_size e) eqn:El.
      * assert (X : existsb (fun e0 => o_seg (w_opts w) <? entry_size e0) (tx_pend t2) = true).
        { apply existsb_exists. exists e. split; assumption. }
        congruence.
      * apply N.ltb_ge in El. exact El.
    + intros H. destruct (existsb _ (tx_pend t2)) eqn:X; [|reflexivity].
      apply existsb_exists in X as (e & He & El). apply N.ltb_lt in El. specialize (H e He). lia.
Qed.

(** the statement as first written (structure calls only, with the engine
    invariant, a finished previous transaction and a fresh id among the
    hypotheses) is an instance: none of [Inv w], [w_tx w = TxNone \/ TxDone],
    [~ In id (ids_of (recs w))] is needed, and Put / Delete may be allowed *)
Corollary guarded_tx_is_serial_as_first_stated : forall now w s id os,
  Inv w -> dsrel (w_ix w) s -> list_keys_ok (w_ix w) -> set_keys_ok (w_ix w) ->
  w_closed w = false -> (w_tx w = TxNone \/ w_tx w = TxDone) -> ~ In id (ids_of (recs w)) ->
  Forall (fun o => is_kv_read o = false /\ match o with OPut _ _ _ _ _ | ODelete _ _ => False | _ => True end) os ->
  tx_guard [] os = true ->
  let w1 := fst (step now w (CBegin true id)) in
  let '(w2, rs) := run_ops_res now w1 os in
  let '(s2, srs) := spec_ops_res now s os in
  rs = srs /\
  (snd (step now w2 CCommit) = ROk ->
   dsrel (w_ix (fst (step now w2 CCommit))) s2 /\
   list_keys_ok (w_ix (fst (step now w2 CCommit))) /\ set_keys_ok (w_ix (fst (step now w2 CCommit)))).
Proof.
  intros now w s id os _ Hrel HLK HSK Hcl _ _ Hos Hg.
  assert (Hkv : Forall (fun o => is_kv_read o = false) os).
  { eapply Forall_impl; [|exact Hos]. intros o [H _]. exact H. }
  pose proof (guarded_tx_is_serial now w s id os Hrel HLK HSK Hcl Hkv Hg) as H.
  cbv zeta in H |- *.
  destruct (run_ops_res now (fst (step now w (CBegin true id))) os) as [w2 rs].
  destruct (spec_ops_res now s os) as [s2 srs].
  destruct H as (A & B & _). split; [exact A|exact B].
Qed.

(** ================= the guard cannot be dropped (finding F21) =================
    three two-call transactions on a database whose list bucket "b" holds
    "k" -> ["1"; "2"], one for each thing the guard forbids; in each the
    engine's answers differ from the specification's *)
Definition ex_ix : indexes := mkIx [] [([x62], [([x6b], [[x31]; [x32]])])] [] [].
Definition ex_w : world := mkW (mkOpts 0 FileIO FileIO false 1000) false [] 0 0 0 ex_ix [] TxNone.
Definition ex_s : sstate := mkS [] ex_ix.
Definition ex_w1 : world := fst (step 0 ex_w (CBegin true 7)).

(** a read after a write of the same transaction does not see the write *)
Definition ex_read_after_write : list op := [ORPush [x62] [x6b] [[x33]]; OLSize [x62] [x6b]].
(** a validating write after a blind write validates against the committed list *)
Definition ex_pop_after_push : list op := [ORPush [x62] [x6b] [[x33]]; ORPop [x62] [x6b]].
(** two pops answer the same element *)
Definition ex_pop_pop : list op := [ORPop [x62] [x6b]; ORPop [x62] [x6b]].

Lemma unguarded_tx_not_serial :
  dsrel (w_ix ex_w) ex_s /\ list_keys_ok (w_ix ex_w) /\ set_keys_ok (w_ix ex_w) /\
  (tx_guard [] ex_read_after_write = false /\
   snd (run_ops_res 0 ex_w1 ex_read_after_write) = [ROk; RInt 2] /\
   snd (spec_ops_res 0 ex_s ex_read_after_write) = [ROk; RInt 3]) /\
  (tx_guard [] ex_pop_after_push = false /\
   snd (run_ops_res 0 ex_w1 ex_pop_after_push) = [ROk; RVal [x32]] /\
   snd (spec_ops_res 0 ex_s ex_pop_after_push) = [ROk; RVal [x33]]) /\
  (tx_guard [] ex_pop_pop = false /\
   snd (run_ops_res 0 ex_w1 ex_pop_pop) = [RVal [x32]; RVal [x32]] /\
   snd (spec_ops_res 0 ex_s ex_pop_pop) = [RVal [x32]; RVal [x31]]).
Proof.
  split; [repeat split|].
  split.
  { intros b l k v Hb Hk. unfold ex_w, ex_ix in Hb. cbn [w_ix ix_list alookup] in Hb.
    destruct (bytes_eqb [x62] b); [|discriminate Hb].
    injection Hb as Hb. subst l. cbn [alookup] in Hk. destruct (bytes_eqb [x6b] k) eqn:E; [|discriminate Hk].
    apply bytes_eqb_eq in E. subst k. reflexivity. }
  split; [intros b m k l Hb; vm_compute in Hb; discriminate Hb|].
  vm_compute. repeat split.
Qed.
