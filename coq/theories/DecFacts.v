(** DecFacts.v — decimal printing/parsing round trip and separator handling:
    the encodings "count|value", "key|index", "key|start", "member|score"
    written by tx_list.go / tx_zset.go decode to what was encoded. *)
From Verif Require Import Bytes BytesFacts Dec.
From Coq Require Import Lia ZifyN ZifyNat ZifyBool.
Open Scope N_scope.

(** ---- helper lemmas ---- *)

Definition is_digit (b : byte) : Prop := 48 <= b2n b <= 57.

Lemma b2n_digit : forall d, d < 10 -> b2n (digit d) = 48 + d.
Proof.
  intros d Hd. unfold digit. rewrite b2n_n2b. apply N.mod_small. lia.
Qed.

Lemma is_digit_digit : forall d, d < 10 -> is_digit (digit d).
Proof. intros d Hd. unfold is_digit. rewrite b2n_digit by exact Hd. lia. Qed.

Lemma digit_val_digit : forall d, d < 10 -> digit_val (digit d) = Some d.
Proof.
  intros d Hd. unfold digit_val. rewrite b2n_digit by exact Hd.
  destruct (48 <=? 48 + d) eqn:H1; [|lia].
  destruct (48 + d <=? 57) eqn:H2; [|lia].
  cbn [andb]. f_equal. lia.
Qed.

Lemma mod10_lt : forall n, n mod 10 < 10.
Proof. intros n. apply N.mod_lt. lia. Qed.

Lemma is_digit_neqb : forall b c, is_digit b -> ~ is_digit c -> byte_eqb b c = false.
Proof.
  intros b c Hb Hc. destruct (byte_eqb b c) eqn:E; [|reflexivity].
  apply byte_eqb_eq in E. subst. contradiction.
Qed.

Lemma x2d_not_digit : ~ is_digit x2d.
Proof. unfold is_digit. vm_compute. intros [H1 H2]. apply H1. reflexivity. Qed.
Lemma x2b_not_digit : ~ is_digit x2b.
Proof. unfold is_digit. vm_compute. intros [H1 H2]. apply H1. reflexivity. Qed.
Lemma sep_not_digit : ~ is_digit sep.
Proof. unfold is_digit. vm_compute. intros [H1 H2]. apply H2. reflexivity. Qed.

Lemma print_N_fuel_S : forall f n acc,
  print_N_fuel (S f) n acc =
  if n / 10 =? 0 then digit (n mod 10) :: acc
  else print_N_fuel f (n / 10) (digit (n mod 10) :: acc).
Proof. reflexivity. Qed.

Lemma print_N_fuel_app : forall f n acc,
  print_N_fuel f n acc = print_N_fuel f n [] ++ acc.
Proof.
  induction f as [|f IH]; intros n acc.
  - reflexivity.
  - cbn [print_N_fuel]. destruct (n / 10 =? 0) eqn:E.
    + reflexivity.
    + rewrite (IH (n / 10) (digit (n mod 10) :: acc)).
      rewrite (IH (n / 10) [digit (n mod 10)]).
      rewrite <- app_assoc. reflexivity.
Qed.

Lemma print_N_fuel_digits : forall f n acc,
  Forall is_digit acc -> Forall is_digit (print_N_fuel f n acc).
Proof.
  induction f as [|f IH]; intros n acc Hacc.
  - exact Hacc.
  - cbn [print_N_fuel].
    assert (Hd : Forall is_digit (digit (n mod 10) :: acc)).
    { constructor; [apply is_digit_digit, mod10_lt | exact Hacc]. }
    destruct (n / 10 =? 0); [exact Hd | apply IH; exact Hd].
Qed.

Lemma print_N_fuel_nonempty_acc : forall f n acc,
  acc <> [] -> print_N_fuel f n acc <> [].
Proof.
  induction f as [|f IH]; intros n acc Hacc.
  - exact Hacc.
  - cbn [print_N_fuel]. destruct (n / 10 =? 0).
    + discriminate.
    + apply IH. discriminate.
Qed.

Lemma print_N_nonempty : forall n, print_N n <> [].
Proof.
  intros n. unfold print_N. cbn [print_N_fuel]. destruct (n / 10 =? 0).
  - discriminate.
  - apply print_N_fuel_nonempty_acc. discriminate.
Qed.

Lemma print_N_digits : forall n, Forall is_digit (print_N n).
Proof. intros n. unfold print_N. apply print_N_fuel_digits. constructor. Qed.

Lemma parse_digits_app : forall a b acc,
  parse_digits (a ++ b) acc =
  match parse_digits a acc with Some x => parse_digits b x | None => None end.
Proof.
  induction a as [|x a IH]; intros b acc.
  - reflexivity.
  - cbn [app parse_digits]. destruct (digit_val x) as [d|]; [apply IH | reflexivity].
Qed.

Lemma pow2_succ : forall f, 2 ^ N.of_nat (S f) = 2 * 2 ^ N.of_nat f.
Proof. intros f. rewrite Nat2N.inj_succ, N.pow_succ_r'. reflexivity. Qed.

Lemma parse_print_fuel : forall f n, n < 2 ^ N.of_nat f ->
  exists k, forall a, parse_digits (print_N_fuel (S f) n []) a = Some (a * 10 ^ k + n).
Proof.
  induction f as [|f IH]; intros n Hn.
  - change (2 ^ N.of_nat 0) with 1 in Hn.
    assert (n = 0) by lia. subst n. exists 1. intros a.
    cbn [print_N_fuel]. change (0 / 10 =? 0) with true. cbv iota.
    change (0 mod 10) with 0.
    cbn [parse_digits]. rewrite digit_val_digit by lia. cbn [parse_digits].
    f_equal. change (10 ^ 1) with 10. lia.
  - rewrite pow2_succ in Hn.
    rewrite (print_N_fuel_S (S f) n []). destruct (n / 10 =? 0) eqn:E.
    + exists 1. intros a. cbn [parse_digits].
      rewrite digit_val_digit by apply mod10_lt. f_equal.
      change (10 ^ 1) with 10. lia.
    + assert (Hq : n / 10 < 2 ^ N.of_nat f) by lia.
      destruct (IH (n / 10) Hq) as [k Hk].
      exists (N.succ k). intros a.
      rewrite (print_N_fuel_app (S f) (n / 10) [digit (n mod 10)]), parse_digits_app, Hk.
      cbn [parse_digits]. rewrite digit_val_digit by apply mod10_lt.
      f_equal. rewrite N.pow_succ_r'.
      pose proof (N.div_mod n 10). nia.
Qed.

Lemma size_nat_gt : forall n, n < 2 ^ N.of_nat (N.size_nat n).
Proof.
  intros [|p].
  - cbn. lia.
  - cbn [N.size_nat]. induction p as [p IH|p IH|].
    + cbn [Pos.size_nat]. rewrite pow2_succ. lia.
    + cbn [Pos.size_nat]. rewrite pow2_succ. lia.
    + cbn. lia.
Qed.

Lemma parse_print_N : forall n, parse_digits (print_N n) 0 = Some n.
Proof.
  intros n. unfold print_N.
  destruct (parse_print_fuel (N.size_nat n) n (size_nat_gt n)) as [k Hk].
  rewrite Hk. f_equal.
Qed.

Lemma contains_sep_digits : forall bs, Forall is_digit bs -> contains_sep bs = false.
Proof.
  induction 1 as [|b r Hb Hr IH].
  - reflexivity.
  - cbn [contains_sep]. rewrite (is_digit_neqb b sep Hb sep_not_digit). exact IH.
Qed.

(** ---- the listed lemmas ---- *)

Lemma parse_print_Z : forall z : Z, parse_Z (print_Z z) = z.
Proof.
  intros [|p|p].
  - vm_compute. reflexivity.
  - cbn [print_Z]. pose proof (parse_print_N (Npos p)) as HP.
    pose proof (print_N_digits (Npos p)) as HD.
    pose proof (print_N_nonempty (Npos p)) as HN.
    destruct (print_N (Npos p)) as [|b r]; [congruence|].
    inversion HD as [|b' r' Hb Hr]; subst.
    unfold parse_Z.
    rewrite (is_digit_neqb b x2d Hb x2d_not_digit).
    rewrite (is_digit_neqb b x2b Hb x2b_not_digit).
    rewrite HP. reflexivity.
  - cbn [print_Z]. pose proof (parse_print_N (Npos p)) as HP.
    pose proof (print_N_nonempty (Npos p)) as HN.
    destruct (print_N (Npos p)) as [|b r]; [congruence|].
    unfold parse_Z. change (byte_eqb x2d x2d) with true. cbv iota.
    rewrite HP. reflexivity.
Qed.

Lemma print_Z_no_sep : forall z : Z, contains_sep (print_Z z) = false.
Proof.
  intros [|p|p].
  - vm_compute. reflexivity.
  - cbn [print_Z]. apply contains_sep_digits, print_N_digits.
  - cbn [print_Z contains_sep]. change (byte_eqb x2d sep) with false.
    cbn [orb]. apply contains_sep_digits, print_N_digits.
Qed.

Lemma print_Z_nonempty : forall z : Z, print_Z z <> [].
Proof.
  intros [|p|p]; cbn [print_Z].
  - discriminate.
  - apply print_N_nonempty.
  - discriminate.
Qed.

(** strings.SplitN(count|value, "|", 2): the value may contain '|' *)
Lemma split_first_join : forall a b, contains_sep a = false -> split_first (join_sep a b) = Some (a, b).
Proof.
  induction a as [|x a IH]; intros b H.
  - unfold join_sep. cbn [app split_first]. rewrite byte_eqb_refl. reflexivity.
  - cbn [contains_sep] in H. apply orb_false_iff in H as [H1 H2].
    unfold join_sep in *. cbn [app split_first]. rewrite H1, (IH b H2). reflexivity.
Qed.

Lemma split_all_nosep : forall a, contains_sep a = false -> split_all a = [a].
Proof.
  induction a as [|x a IH]; intros H.
  - reflexivity.
  - cbn [contains_sep] in H. apply orb_false_iff in H as [H1 H2].
    cbn [split_all]. rewrite H1, (IH H2). reflexivity.
Qed.

(** strings.Split(key|index, "|") when neither part contains '|' *)
Lemma split_all_join : forall a b,
  contains_sep a = false -> contains_sep b = false -> split_all (join_sep a b) = [a; b].
Proof.
  induction a as [|x a IH]; intros b Ha Hb.
  - unfold join_sep. cbn [app split_all]. rewrite byte_eqb_refl.
    rewrite (split_all_nosep b Hb). reflexivity.
  - cbn [contains_sep] in Ha. apply orb_false_iff in Ha as [H1 H2].
    unfold join_sep in *. cbn [app split_all]. rewrite H1, (IH b H2 Hb). reflexivity.
Qed.

Lemma split_all_nonempty : forall b, exists x r, split_all b = x :: r.
Proof.
  induction b as [|y b IH].
  - exists [], []. reflexivity.
  - cbn [split_all]. destruct (byte_eqb y sep).
    + destruct IH as [x [r E]]. exists [], (x :: r). rewrite E. reflexivity.
    + destruct IH as [x [r E]]. rewrite E. exists (y :: x), r. reflexivity.
Qed.

(** ... and when only the first part is known to be separator-free, the first
    two fields are still the key and the start of the rest *)
Lemma split_all_join_hd : forall a b,
  contains_sep a = false -> exists x r, split_all (join_sep a b) = a :: x :: r.
Proof.
  induction a as [|y a IH]; intros b Ha.
  - unfold join_sep. cbn [app split_all]. rewrite byte_eqb_refl.
    destruct (split_all_nonempty b) as [x [r E]]. exists x, r. rewrite E. reflexivity.
  - cbn [contains_sep] in Ha. apply orb_false_iff in Ha as [H1 H2].
    destruct (IH b H2) as [x [r E]]. exists x, r.
    unfold join_sep in *. cbn [app split_all]. rewrite H1, E. reflexivity.
Qed.
