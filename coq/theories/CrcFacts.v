(** CrcFacts.v — algebraic facts about the bitwise CRC-32 (proof-only). *)
From Verif Require Import Bytes BytesFacts Crc32.
From Coq Require Import ZifyN ZifyNat ZifyBool.
Open Scope N_scope.

Lemma lxor_lt32 a b : a < 2^32 -> b < 2^32 -> N.lxor a b < 2^32.
Proof.
  intros Ha Hb.
  destruct (N.eq_dec (N.lxor a b) 0) as [E|E]; [rewrite E; reflexivity|].
  apply N.log2_lt_pow2; [lia|].
  eapply N.le_lt_trans; [apply N.log2_lxor|].
  apply N.max_lub_lt.
  - destruct (N.eq_dec a 0) as [->|Na]; [cbn; lia|]. apply N.log2_lt_pow2; lia.
  - destruct (N.eq_dec b 0) as [->|Nb]; [cbn; lia|]. apply N.log2_lt_pow2; lia.
Qed.

Lemma div2_lt31 c : c < 2^32 -> N.div2 c < 2^31.
Proof. intros H. rewrite N.div2_div. apply N.div_lt_upper_bound; lia. Qed.

Lemma crc_step_lt c : c < 2^32 -> crc_step c < 2^32.
Proof.
  intros H. unfold crc_step. pose proof (div2_lt31 c H).
  destruct (N.odd c); [apply lxor_lt32; [lia|reflexivity]|lia].
Qed.

Lemma poly_bit31 : N.testbit poly 31 = true.
Proof. reflexivity. Qed.

Lemma testbit31_small x : x < 2^31 -> N.testbit x 31 = false.
Proof.
  intros H. destruct (N.eq_dec x 0) as [->|Nx]; [reflexivity|].
  apply N.bits_above_log2. apply N.log2_lt_pow2; lia.
Qed.

(** the register shift is injective on 32-bit values: the top bit of the
    result tells whether the polynomial was xor-ed in *)
Lemma crc_step_inj a b : a < 2^32 -> b < 2^32 -> crc_step a = crc_step b -> a = b.
Proof.
  intros Ha Hb E. unfold crc_step in E.
  pose proof (div2_lt31 a Ha) as Da. pose proof (div2_lt31 b Hb) as Db.
  assert (T : forall x, x < 2^31 -> N.testbit (N.lxor x poly) 31 = true).
  { intros x Hx. rewrite N.lxor_spec, (testbit31_small x Hx), poly_bit31. reflexivity. }
  assert (Hodd : N.odd a = N.odd b).
  { destruct (N.odd a) eqn:Oa, (N.odd b) eqn:Ob; try reflexivity; exfalso.
    - pose proof (T _ Da) as T1. rewrite E, (testbit31_small _ Db) in T1. discriminate.
    - pose proof (T _ Db) as T1. rewrite <- E, (testbit31_small _ Da) in T1. discriminate. }
  assert (Hdiv : N.div2 a = N.div2 b).
  { rewrite Hodd in E. destruct (N.odd b); [|exact E].
    apply (f_equal (fun x => N.lxor x poly)) in E.
    rewrite !N.lxor_assoc, N.lxor_nilpotent, !N.lxor_0_r in E. exact E. }
  rewrite (N.div2_odd a), (N.div2_odd b), Hodd, Hdiv. reflexivity.
Qed.

Lemma lxor_cancel_l a b c : N.lxor a b = N.lxor a c -> b = c.
Proof.
  intros H. apply (f_equal (N.lxor a)) in H.
  rewrite <- !N.lxor_assoc, N.lxor_nilpotent, !N.lxor_0_l in H. exact H.
Qed.

Lemma b2n_lt32 b : b2n b < 2^32.
Proof. pose proof (b2n_lt b). lia. Qed.

Lemma crc_byte_lt c b : c < 2^32 -> crc_byte c b < 2^32.
Proof.
  intros H. unfold crc_byte.
  repeat apply crc_step_lt. apply lxor_lt32; [exact H|apply b2n_lt32].
Qed.

Lemma step8_inj x y : x < 2^32 -> y < 2^32 ->
  crc_step (crc_step (crc_step (crc_step (crc_step (crc_step (crc_step (crc_step x))))))) =
  crc_step (crc_step (crc_step (crc_step (crc_step (crc_step (crc_step (crc_step y))))))) -> x = y.
Proof.
  intros Hx Hy E.
  repeat (apply crc_step_inj in E; [|repeat apply crc_step_lt; assumption|repeat apply crc_step_lt; assumption]).
  exact E.
Qed.

(** same byte, different registers → different registers *)
Lemma crc_byte_inj_reg c1 c2 b : c1 < 2^32 -> c2 < 2^32 -> crc_byte c1 b = crc_byte c2 b -> c1 = c2.
Proof.
  intros H1 H2 E. unfold crc_byte in E.
  apply step8_inj in E; try (apply lxor_lt32; [assumption|apply b2n_lt32]).
  rewrite (N.lxor_comm c1), (N.lxor_comm c2) in E. apply lxor_cancel_l in E. exact E.
Qed.

(** same register, different bytes → different registers *)
Lemma crc_byte_inj_byte c b1 b2 : c < 2^32 -> crc_byte c b1 = crc_byte c b2 -> b1 = b2.
Proof.
  intros H E. unfold crc_byte in E.
  apply step8_inj in E; try (apply lxor_lt32; [assumption|apply b2n_lt32]).
  apply lxor_cancel_l in E. apply b2n_inj. exact E.
Qed.

Lemma crc_raw_lt c d : c < 2^32 -> crc_raw c d < 2^32.
Proof.
  revert c; induction d as [|b d IH]; intros c H; cbn; [exact H|].
  apply IH. apply crc_byte_lt. exact H.
Qed.

Lemma crc_raw_app c a b : crc_raw c (a ++ b) = crc_raw (crc_raw c a) b.
Proof. unfold crc_raw. apply fold_left_app. Qed.

Lemma crc_raw_inj_reg c1 c2 d : c1 < 2^32 -> c2 < 2^32 -> crc_raw c1 d = crc_raw c2 d -> c1 = c2.
Proof.
  revert c1 c2; induction d as [|b d IH]; intros c1 c2 H1 H2 E; cbn in E; [exact E|].
  apply IH in E; try (apply crc_byte_lt; assumption).
  eapply crc_byte_inj_reg; eassumption.
Qed.

Lemma lxor_mask_invol x : N.lxor (N.lxor x mask32) mask32 = x.
Proof. rewrite N.lxor_assoc, N.lxor_nilpotent, N.lxor_0_r. reflexivity. Qed.

Lemma crc_update_app c a b : crc_update (crc_update c a) b = crc_update c (a ++ b).
Proof. unfold crc_update. rewrite lxor_mask_invol, crc_raw_app. reflexivity. Qed.

Lemma crc_update_nil c : crc_update c [] = c.
Proof. unfold crc_update. cbn. apply lxor_mask_invol. Qed.

Lemma mask32_lt : mask32 < 2^32.
Proof. reflexivity. Qed.

Lemma crc_update_lt c d : c < 2^32 -> crc_update c d < 2^32.
Proof.
  intros H. unfold crc_update. apply lxor_lt32; [|apply mask32_lt].
  apply crc_raw_lt. apply lxor_lt32; [exact H|apply mask32_lt].
Qed.

Lemma crc32_lt d : crc32 d < 2^32.
Proof. apply crc_update_lt. reflexivity. Qed.

(** Any corruption confined to a single byte of the covered region changes
    the checksum, for messages of every length. *)
Theorem crc32_single_byte p b b' q : b <> b' -> crc32 (p ++ b :: q) <> crc32 (p ++ b' :: q).
Proof.
  intros Hb E. unfold crc32, crc_update in E.
  apply (f_equal (fun x => N.lxor x mask32)) in E. rewrite !lxor_mask_invol in E.
  rewrite !crc_raw_app in E. cbn [crc_raw fold_left] in E.
  set (r := fold_left crc_byte p (N.lxor 0 mask32)) in E.
  assert (Hr : r < 2^32) by (apply (crc_raw_lt _ p); reflexivity).
  apply (crc_raw_inj_reg _ _ q) in E; try (apply crc_byte_lt; exact Hr).
  apply crc_byte_inj_byte in E; [contradiction|exact Hr].
Qed.
