(** ZSetFacts.v — the model of ds/zset (ZSetDS.v): the node chain is strictly
    ordered by (score, key) with unique member keys, and every query agrees
    with that order. *)
From Coq Require Import Permutation Sorted.
From Verif Require Import Bytes BytesFacts ListDS ZSetDS.
Open Scope Z_scope.

Definition nlt (a b : znode) : Prop := zlt (z_score a) (z_key a) (z_score b) (z_key b) = true.

(** the invariant: strictly sorted by (score, key), member keys unique *)
Definition zwf (z : zset) : Prop := StronglySorted nlt z /\ NoDup (map z_key z).

(** * generic helpers *)

Lemma zbytes_eqb_refl : forall a, bytes_eqb a a = true.
Proof. intros a. apply bytes_eqb_eq. reflexivity. Qed.

Lemma zbytes_eqb_neq : forall a b, bytes_eqb a b = false <-> a <> b.
Proof.
  intros a b. split.
  - intros H E. apply bytes_eqb_eq in E. congruence.
  - intros H. destruct (bytes_eqb a b) eqn:E; [|reflexivity].
    apply bytes_eqb_eq in E. contradiction.
Qed.

Lemma SS_app_iff : forall {A} (R : A -> A -> Prop) (a b : list A),
  StronglySorted R (a ++ b) <->
  StronglySorted R a /\ StronglySorted R b /\ (forall x y, In x a -> In y b -> R x y).
Proof.
  intros A R a b. induction a as [|h a IH]; cbn.
  - split.
    + intros H. split; [constructor|]. split; [exact H|]. intros x y [].
    + intros [_ [H _]]. exact H.
  - split.
    + intros H. apply StronglySorted_inv in H. destruct H as [H1 H2].
      apply IH in H1. destruct H1 as [Sa [Sb Hc]].
      apply Forall_app in H2. destruct H2 as [Fa Fb].
      split; [constructor; assumption|]. split; [exact Sb|].
      intros x y [Hx|Hx] Hy.
      * subst x. rewrite Forall_forall in Fb. apply Fb. exact Hy.
      * apply Hc; assumption.
    + intros [Sa [Sb Hc]]. apply StronglySorted_inv in Sa. destruct Sa as [Sa Fa].
      constructor.
      * apply IH. split; [exact Sa|]. split; [exact Sb|].
        intros x y Hx Hy. apply Hc; [right; exact Hx|exact Hy].
      * apply Forall_app. split; [exact Fa|].
        rewrite Forall_forall. intros y Hy. apply Hc; [left; reflexivity|exact Hy].
Qed.

Lemma SS_weaken : forall {A} (R R' : A -> A -> Prop) (l : list A),
  (forall a b, R a b -> R' a b) -> StronglySorted R l -> StronglySorted R' l.
Proof.
  intros A R R' l HR H. induction H as [|h r Hr IH Hh].
  - constructor.
  - constructor; [exact IH|]. rewrite Forall_forall in Hh |- *.
    intros x Hx. apply HR. apply Hh. exact Hx.
Qed.

Lemma SS_filter : forall {A} (R : A -> A -> Prop) (p : A -> bool) (l : list A),
  StronglySorted R l -> StronglySorted R (filter p l).
Proof.
  intros A R p l H. induction H as [|h r Hr IH Hh]; cbn.
  - constructor.
  - destruct (p h); [|exact IH]. constructor; [exact IH|].
    rewrite Forall_forall in Hh |- *. intros x Hx.
    apply filter_In in Hx. apply Hh. tauto.
Qed.

Lemma SS_rev : forall {A} (R : A -> A -> Prop) (l : list A),
  StronglySorted R l -> StronglySorted (fun a b => R b a) (rev l).
Proof.
  intros A R l H. induction H as [|h r Hr IH Hh]; cbn.
  - constructor.
  - apply SS_app_iff. split; [exact IH|]. split; [constructor; constructor|].
    intros x y Hx [Hy|[]]. subst y. rewrite Forall_forall in Hh.
    apply Hh. apply in_rev. exact Hx.
Qed.

Lemma SS_map : forall {A B} (f : A -> B) (R : B -> B -> Prop) (l : list A),
  StronglySorted (fun a b => R (f a) (f b)) l <-> StronglySorted R (map f l).
Proof.
  intros A B f R l. induction l as [|h r IH]; cbn.
  - split; intros _; constructor.
  - split; intros H; apply StronglySorted_inv in H; destruct H as [H1 H2]; constructor.
    + apply IH. exact H1.
    + apply Forall_map. exact H2.
    + apply IH. exact H1.
    + apply (proj1 (Forall_map f (R (f h)) r)). exact H2.
Qed.

Lemma NoDup_app_iff : forall {A} (a b : list A),
  NoDup (a ++ b) <-> NoDup a /\ NoDup b /\ (forall x, In x a -> ~ In x b).
Proof.
  intros A a b. induction a as [|h a IH]; cbn.
  - split.
    + intros H. split; [constructor|]. split; [exact H|]. intros x [].
    + intros [_ [H _]]. exact H.
  - split.
    + intros H. inversion H as [|? ? Hn Hr]; subst. apply IH in Hr.
      destruct Hr as [Na [Nb Hc]]. rewrite in_app_iff in Hn.
      split; [constructor; tauto|]. split; [exact Nb|].
      intros x [Hx|Hx]; [subst x; tauto|apply Hc; exact Hx].
    + intros [Na [Nb Hc]]. inversion Na as [|? ? Hn Hr]; subst. constructor.
      * rewrite in_app_iff. intros [H|H]; [contradiction|].
        apply (Hc h); [left; reflexivity|exact H].
      * apply IH. split; [exact Hr|]. split; [exact Nb|].
        intros x Hx. apply Hc. right. exact Hx.
Qed.

Lemma filter_all_true : forall {A} (p : A -> bool) l, (forall x, In x l -> p x = true) -> filter p l = l.
Proof.
  intros A p l. induction l as [|h r IH]; cbn; intros H.
  - reflexivity.
  - rewrite (H h) by (left; reflexivity). f_equal. apply IH. intros x Hx. apply H. right. exact Hx.
Qed.

Lemma filter_all_false : forall {A} (p : A -> bool) l, (forall x, In x l -> p x = false) -> filter p l = [].
Proof.
  intros A p l. induction l as [|h r IH]; cbn; intros H.
  - reflexivity.
  - rewrite (H h) by (left; reflexivity). apply IH. intros x Hx. apply H. right. exact Hx.
Qed.

Lemma filter_filter : forall {A} (p q : A -> bool) l,
  filter p (filter q l) = filter (fun x => q x && p x) l.
Proof.
  intros A p q l. induction l as [|h r IH]; cbn.
  - reflexivity.
  - destruct (q h); cbn; [|exact IH]. destruct (p h); [f_equal|]; exact IH.
Qed.

Lemma filter_rev' : forall {A} (p : A -> bool) l, filter p (rev l) = rev (filter p l).
Proof.
  intros A p l. induction l as [|h r IH]; cbn.
  - reflexivity.
  - rewrite filter_app, IH. cbn. destruct (p h); cbn; [reflexivity|apply app_nil_r].
Qed.

Lemma skipn_skipn' : forall {A} (x y : nat) (l : list A), skipn x (skipn y l) = skipn (y + x) l.
Proof.
  intros A x y. induction y as [|y IH]; intros l; cbn.
  - reflexivity.
  - destruct l as [|h r]; [apply skipn_nil|apply IH].
Qed.

(** * the order *)

Lemma zlt_spec : forall s1 k1 s2 k2,
  zlt s1 k1 s2 k2 = true <-> s1 < s2 \/ (s1 = s2 /\ bcompare k1 k2 = Lt).
Proof.
  intros s1 k1 s2 k2. unfold zlt, bltb.
  rewrite orb_true_iff, andb_true_iff, Z.ltb_lt, Z.eqb_eq.
  destruct (bcompare k1 k2); intuition discriminate.
Qed.

Lemma zlt_trans : forall a b c, nlt a b -> nlt b c -> nlt a c.
Proof.
  intros a b c. unfold nlt. rewrite !zlt_spec.
  intros [H1|[H1 H2]] [H3|[H3 H4]].
  - left. lia.
  - left. lia.
  - left. lia.
  - right. split; [lia|]. apply bcompare_lt_trans with (z_key b); assumption.
Qed.

Lemma zlt_irrefl : forall a, ~ nlt a a.
Proof.
  intros a. unfold nlt. rewrite zlt_spec. rewrite bcompare_refl.
  intros [H|[_ H]]; [lia|discriminate].
Qed.

Lemma nlt_asym : forall a b, nlt a b -> ~ nlt b a.
Proof. intros a b H1 H2. apply (zlt_irrefl a). apply zlt_trans with b; assumption. Qed.

Lemma nlt_total : forall a b, z_key a <> z_key b -> ~ nlt a b -> nlt b a.
Proof.
  intros a b Hk. unfold nlt. rewrite !zlt_spec. intros H.
  rewrite (bcompare_antisym (z_key a) (z_key b)).
  destruct (bcompare (z_key a) (z_key b)) eqn:E; cbn.
  - apply bcompare_eq in E. contradiction.
  - destruct (Z_lt_le_dec (z_score b) (z_score a)) as [L|L]; [left; exact L|].
    exfalso. apply H. destruct (Z.eq_dec (z_score a) (z_score b)) as [Q|Q]; [right; tauto|left; lia].
  - destruct (Z_lt_le_dec (z_score b) (z_score a)) as [L|L]; [left; exact L|].
    destruct (Z.eq_dec (z_score a) (z_score b)) as [Q|Q].
    + right. split; [symmetry; exact Q|reflexivity].
    + exfalso. apply H. left. lia.
Qed.

Lemma nlt_score : forall a b, nlt a b -> z_score a <= z_score b.
Proof. intros a b. unfold nlt. rewrite zlt_spec. lia. Qed.

(** * the invariant *)

Lemma zwf_nil : zwf [].
Proof. split; constructor. Qed.

Lemma zwf_cons_iff : forall n r,
  zwf (n :: r) <-> zwf r /\ Forall (nlt n) r /\ ~ In (z_key n) (map z_key r).
Proof.
  intros n r. unfold zwf. cbn. split.
  - intros [H1 H2]. apply StronglySorted_inv in H1. inversion H2; subst. tauto.
  - intros [[H1 H2] [H3 H4]]. split; constructor; assumption.
Qed.

Lemma zwf_app_iff : forall a b,
  zwf (a ++ b) <-> zwf a /\ zwf b /\ (forall x y, In x a -> In y b -> nlt x y) /\
                   (forall k, In k (map z_key a) -> ~ In k (map z_key b)).
Proof.
  intros a b. unfold zwf. rewrite map_app, SS_app_iff, NoDup_app_iff. tauto.
Qed.

Definition zk (n : znode) : Z * bytes := (z_score n, z_key n).

Lemma zwf_ext : forall z z', map zk z = map zk z' -> zwf z -> zwf z'.
Proof.
  intros z z' E [H1 H2].
  assert (Ek : map z_key z = map z_key z').
  { replace (map z_key z) with (map snd (map zk z)) by (rewrite map_map; reflexivity).
    replace (map z_key z') with (map snd (map zk z')) by (rewrite map_map; reflexivity).
    rewrite E. reflexivity. }
  split; [|rewrite <- Ek; exact H2].
  change nlt with (fun a b => (fun p q : Z * bytes => zlt (fst p) (snd p) (fst q) (snd q) = true) (zk a) (zk b)) in H1 |- *.
  apply SS_map. rewrite <- E. apply SS_map. exact H1.
Qed.

(** * find / delete / insert *)

Lemma z_find_In : forall z k n, z_find z k = Some n -> In n z /\ z_key n = k.
Proof.
  intros z k n. induction z as [|m r IH]; cbn.
  - discriminate.
  - destruct (bytes_eqb (z_key m) k) eqn:E.
    + intros [= <-]. apply bytes_eqb_eq in E. split; [left; reflexivity|exact E].
    + intros H. apply IH in H. tauto.
Qed.

Lemma z_find_None : forall z k, z_find z k = None <-> ~ In k (map z_key z).
Proof.
  intros z k. induction z as [|m r IH]; cbn.
  - split; [intros _ []|reflexivity].
  - destruct (bytes_eqb (z_key m) k) eqn:E.
    + apply bytes_eqb_eq in E. split; [discriminate|]. intros H. exfalso. apply H. left. exact E.
    + apply zbytes_eqb_neq in E. rewrite IH. tauto.
Qed.

Lemma z_find_unique : forall z n, zwf z -> In n z -> z_find z (z_key n) = Some n.
Proof.
  intros z n. induction z as [|m r IH]; intros W H.
  - destruct H.
  - apply zwf_cons_iff in W. destruct W as [Wr [_ Hn]]. cbn.
    destruct H as [H|H].
    + subst m. rewrite zbytes_eqb_refl. reflexivity.
    + destruct (bytes_eqb (z_key m) (z_key n)) eqn:E.
      * apply bytes_eqb_eq in E. exfalso. apply Hn. rewrite E. apply in_map. exact H.
      * apply IH; assumption.
Qed.

Lemma z_delete_subset : forall z k n, In n (z_delete z k) -> In n z.
Proof.
  intros z k n. induction z as [|m r IH]; cbn.
  - tauto.
  - destruct (bytes_eqb (z_key m) k).
    + intros H. right. exact H.
    + intros [H|H]; [left; exact H|right; apply IH; exact H].
Qed.

Lemma z_delete_keys_subset : forall z k k', In k' (map z_key (z_delete z k)) -> In k' (map z_key z).
Proof.
  intros z k k' H. apply in_map_iff in H. destruct H as [n [H1 H2]].
  apply in_map_iff. exists n. split; [exact H1|]. apply z_delete_subset with k. exact H2.
Qed.

Lemma z_delete_wf : forall z k, zwf z -> zwf (z_delete z k).
Proof.
  intros z k. induction z as [|m r IH]; intros W; cbn.
  - exact W.
  - apply zwf_cons_iff in W. destruct W as [Wr [F Hn]].
    destruct (bytes_eqb (z_key m) k); [exact Wr|].
    apply zwf_cons_iff. split; [apply IH; exact Wr|]. split.
    + rewrite Forall_forall in F |- *. intros x Hx. apply F. apply z_delete_subset with k. exact Hx.
    + intros H. apply Hn. apply z_delete_keys_subset with k. exact H.
Qed.

Lemma z_delete_In : forall z k n, zwf z -> (In n (z_delete z k) <-> In n z /\ z_key n <> k).
Proof.
  intros z k n. induction z as [|m r IH]; intros W; cbn.
  - tauto.
  - apply zwf_cons_iff in W. destruct W as [Wr [F Hn]].
    destruct (bytes_eqb (z_key m) k) eqn:E.
    + apply bytes_eqb_eq in E. subst k. split.
      * intros H. split; [right; exact H|]. intros Q. apply Hn. rewrite <- Q. apply in_map. exact H.
      * intros [[H|H] Q]; [subst; congruence|exact H].
    + apply zbytes_eqb_neq in E. cbn. rewrite (IH Wr). split.
      * intros [H|[H1 H2]]; [subst; split; [left; reflexivity|exact E]|split; [right; exact H1|exact H2]].
      * intros [[H|H] Q]; [left; exact H|right; split; assumption].
Qed.

Lemma z_delete_key_gone : forall z k, zwf z -> ~ In k (map z_key (z_delete z k)).
Proof.
  intros z k W H. apply in_map_iff in H. destruct H as [n [H1 H2]].
  apply (z_delete_In z k n W) in H2. tauto.
Qed.

Lemma z_insert_In : forall z n m, In m (z_insert z n) <-> m = n \/ In m z.
Proof.
  intros z n m. induction z as [|h r IH]; cbn.
  - split; [intros [H|[]]; left; symmetry; exact H|intros [H|[]]; left; symmetry; exact H].
  - destruct (zlt (z_score h) (z_key h) (z_score n) (z_key n)); cbn.
    + rewrite IH. tauto.
    + split; [intros [H|H]; [left; symmetry; exact H|right; exact H]|intros [H|H]; [left; symmetry; exact H|right; exact H]].
Qed.

Lemma z_insert_wf : forall z n, zwf z -> ~ In (z_key n) (map z_key z) -> zwf (z_insert z n).
Proof.
  intros z n. induction z as [|h r IH]; intros W Hn; cbn.
  - apply zwf_cons_iff. split; [exact zwf_nil|]. split; [constructor|intros []].
  - pose proof W as W0. apply zwf_cons_iff in W. destruct W as [Wr [F Hh]].
    cbn in Hn.
    destruct (zlt (z_score h) (z_key h) (z_score n) (z_key n)) eqn:E.
    + apply zwf_cons_iff. split; [apply IH; [exact Wr|tauto]|]. split.
      * rewrite Forall_forall in F |- *. intros x Hx. apply z_insert_In in Hx.
        destruct Hx as [Hx|Hx]; [subst x; exact E|apply F; exact Hx].
      * intros H. apply in_map_iff in H. destruct H as [x [H1 H2]].
        apply z_insert_In in H2. destruct H2 as [H2|H2].
        -- subst x. apply Hn. left. symmetry. exact H1.
        -- apply Hh. rewrite <- H1. apply in_map. exact H2.
    + apply zwf_cons_iff. split; [exact W0|]. split; [|cbn; exact Hn].
      assert (Hnh : nlt n h).
      { apply nlt_total; [intros Q; apply Hn; left; exact Q|]. unfold nlt. rewrite E. discriminate. }
      constructor; [exact Hnh|].
      rewrite Forall_forall in F |- *. intros x Hx. apply zlt_trans with h; [exact Hnh|apply F; exact Hx].
Qed.

Lemma z_find_delete_other : forall z k k', k' <> k -> z_find (z_delete z k) k' = z_find z k'.
Proof.
  intros z k k' Hk. induction z as [|m r IH]; cbn.
  - reflexivity.
  - destruct (bytes_eqb (z_key m) k) eqn:E.
    + apply bytes_eqb_eq in E.
      assert (Q : bytes_eqb (z_key m) k' = false) by (apply zbytes_eqb_neq; congruence).
      rewrite Q. reflexivity.
    + cbn. destruct (bytes_eqb (z_key m) k'); [reflexivity|exact IH].
Qed.

Lemma z_find_insert_other : forall z n k', z_key n <> k' -> z_find (z_insert z n) k' = z_find z k'.
Proof.
  intros z n k' Hk. apply zbytes_eqb_neq in Hk. induction z as [|m r IH]; cbn.
  - rewrite Hk. reflexivity.
  - destruct (zlt (z_score m) (z_key m) (z_score n) (z_key n)); cbn.
    + destruct (bytes_eqb (z_key m) k'); [reflexivity|exact IH].
    + rewrite Hk. reflexivity.
Qed.

Lemma z_find_insert_same : forall z n, z_find z (z_key n) = None -> z_find (z_insert z n) (z_key n) = Some n.
Proof.
  intros z n. induction z as [|m r IH]; cbn.
  - intros _. rewrite zbytes_eqb_refl. reflexivity.
  - destruct (bytes_eqb (z_key m) (z_key n)) eqn:E; [discriminate|]. intros H.
    destruct (zlt (z_score m) (z_key m) (z_score n) (z_key n)); cbn.
    + rewrite E. apply IH. exact H.
    + rewrite zbytes_eqb_refl. reflexivity.
Qed.

Lemma z_insert_length : forall z n, length (z_insert z n) = S (length z).
Proof.
  intros z n. induction z as [|m r IH]; cbn.
  - reflexivity.
  - destruct (zlt (z_score m) (z_key m) (z_score n) (z_key n)); cbn; [rewrite IH|]; reflexivity.
Qed.

Lemma z_delete_length : forall z k n, z_find z k = Some n -> S (length (z_delete z k)) = length z.
Proof.
  intros z k n. induction z as [|m r IH]; cbn.
  - discriminate.
  - destruct (bytes_eqb (z_key m) k); [reflexivity|]. intros H. cbn. rewrite IH by exact H. reflexivity.
Qed.

Lemma z_delete_app_notin : forall a b k, ~ In k (map z_key a) -> z_delete (a ++ b) k = a ++ z_delete b k.
Proof.
  intros a b k. induction a as [|m r IH]; cbn; intros H.
  - reflexivity.
  - assert (Q : bytes_eqb (z_key m) k = false) by (apply zbytes_eqb_neq; tauto).
    rewrite Q. f_equal. apply IH. tauto.
Qed.

(** * setval / put *)

Lemma z_setval_zk : forall z k v, map zk (z_setval z k v) = map zk z.
Proof.
  intros z k v. induction z as [|m r IH]; cbn.
  - reflexivity.
  - destruct (bytes_eqb (z_key m) k); cbn; [reflexivity|]. rewrite IH. reflexivity.
Qed.

Lemma z_setval_length : forall z k v, length (z_setval z k v) = length z.
Proof.
  intros z k v. rewrite <- (map_length zk), z_setval_zk. apply map_length.
Qed.

Lemma z_find_setval_same : forall z k v n, z_find z k = Some n ->
  z_find (z_setval z k v) k = Some (mkZ (z_key n) (z_score n) v).
Proof.
  intros z k v n. induction z as [|m r IH]; cbn.
  - discriminate.
  - destruct (bytes_eqb (z_key m) k) eqn:E; cbn.
    + intros [= <-]. rewrite E. reflexivity.
    + rewrite E. exact IH.
Qed.

Lemma z_find_setval_other : forall z k v k', k' <> k -> z_find (z_setval z k v) k' = z_find z k'.
Proof.
  intros z k v k' Hk. induction z as [|m r IH]; cbn.
  - reflexivity.
  - destruct (bytes_eqb (z_key m) k) eqn:E; cbn.
    + apply bytes_eqb_eq in E.
      assert (Q : bytes_eqb (z_key m) k' = false) by (apply zbytes_eqb_neq; congruence).
      rewrite Q. reflexivity.
    + destruct (bytes_eqb (z_key m) k'); [reflexivity|exact IH].
Qed.

Lemma z_put_wf : forall z k s v, zwf z -> zwf (z_put z k s v).
Proof.
  intros z k s v W. unfold z_put. destruct (z_find z k) as [n|] eqn:F.
  - destruct (z_score n =? s).
    + apply zwf_ext with z; [symmetry; apply z_setval_zk|exact W].
    + apply z_insert_wf; [apply z_delete_wf; exact W|]. cbn. apply z_delete_key_gone. exact W.
  - apply z_insert_wf; [exact W|]. cbn. apply z_find_None. exact F.
Qed.

(** after Put the member has exactly the given score and value, and every
    other member is untouched *)
Lemma z_put_find_same : forall z k s v, zwf z -> z_find (z_put z k s v) k = Some (mkZ k s v).
Proof.
  intros z k s v W. unfold z_put. destruct (z_find z k) as [n|] eqn:F.
  - destruct (z_score n =? s) eqn:E.
    + rewrite (z_find_setval_same z k v n F). apply Z.eqb_eq in E.
      apply z_find_In in F. destruct F as [_ F]. rewrite E, F. reflexivity.
    + apply (z_find_insert_same (z_delete z k) (mkZ k s v)). cbn.
      apply z_find_None. apply z_delete_key_gone. exact W.
  - apply (z_find_insert_same z (mkZ k s v)). cbn. exact F.
Qed.

Lemma z_put_find_other : forall z k k' s v, zwf z -> k' <> k -> z_find (z_put z k s v) k' = z_find z k'.
Proof.
  intros z k k' s v W Hk. unfold z_put. destruct (z_find z k) as [n|] eqn:F.
  - destruct (z_score n =? s).
    + apply z_find_setval_other. exact Hk.
    + rewrite z_find_insert_other by (cbn; congruence). apply z_find_delete_other. exact Hk.
  - apply z_find_insert_other. cbn. congruence.
Qed.

Lemma z_put_length : forall z k s v, zwf z ->
  zlen (z_put z k s v) = match z_find z k with Some _ => zlen z | None => zlen z + 1 end.
Proof.
  intros z k s v W. unfold z_put, zlen. destruct (z_find z k) as [n|] eqn:F.
  - destruct (z_score n =? s).
    + rewrite z_setval_length. reflexivity.
    + rewrite z_insert_length. rewrite (z_delete_length z k n F). reflexivity.
  - rewrite z_insert_length. lia.
Qed.

(** PeekMin / PeekMax are the extremes of the order *)
Lemma z_peekmin_min : forall z n, zwf z -> z_peekmin z = Some n -> forall m, In m z -> m = n \/ nlt n m.
Proof.
  intros z n W H m Hm. destruct z as [|h r]; cbn in H; [discriminate|].
  injection H as ->. apply zwf_cons_iff in W. destruct W as [_ [F _]].
  destruct Hm as [Hm|Hm]; [left; symmetry; exact Hm|right].
  rewrite Forall_forall in F. apply F. exact Hm.
Qed.

Lemma rev_cons_inv : forall {A} (z : list A) n r, rev z = n :: r -> z = rev r ++ [n].
Proof.
  intros A z n r H. rewrite <- (rev_involutive z), H. reflexivity.
Qed.

Lemma z_peekmax_max : forall z n, zwf z -> z_peekmax z = Some n -> forall m, In m z -> m = n \/ nlt m n.
Proof.
  intros z n W H m Hm. unfold z_peekmax in H.
  destruct (rev z) as [|h r] eqn:E; [discriminate|]. injection H as ->.
  apply rev_cons_inv in E. subst z. apply zwf_app_iff in W. destruct W as [_ [_ [C _]]].
  apply in_app_iff in Hm. destruct Hm as [Hm|[Hm|[]]].
  - right. apply C; [exact Hm|left; reflexivity].
  - left. symmetry. exact Hm.
Qed.

Lemma z_popmin_spec : forall z n, zwf z -> z_peekmin z = Some n -> z_popmin z = z_delete z (z_key n) /\ zwf (z_popmin z).
Proof.
  intros z n W H. destruct z as [|h r]; cbn in H; [discriminate|].
  injection H as ->. cbn. rewrite zbytes_eqb_refl. split; [reflexivity|].
  apply zwf_cons_iff in W. tauto.
Qed.

Lemma z_popmax_spec : forall z n, zwf z -> z_peekmax z = Some n -> z_popmax z = z_delete z (z_key n) /\ zwf (z_popmax z).
Proof.
  intros z n W H. unfold z_peekmax in H. unfold z_popmax.
  destruct (rev z) as [|h r] eqn:E; [discriminate|]. injection H as ->.
  apply rev_cons_inv in E. subst z. apply zwf_app_iff in W. destruct W as [W1 [_ [_ K]]].
  split; [|exact W1].
  rewrite z_delete_app_notin.
  - cbn. rewrite zbytes_eqb_refl. symmetry. apply app_nil_r.
  - intros Q. apply (K _ Q). left. reflexivity.
Qed.

(** * rank queries *)

Lemma z_index_absent : forall z k i, z_find z k = None -> z_index z k i = 0.
Proof.
  intros z k. induction z as [|m r IH]; intros i; cbn.
  - reflexivity.
  - destruct (bytes_eqb (z_key m) k); [discriminate|]. intros H. apply IH. exact H.
Qed.

Lemma z_rank_absent : forall z k, z_find z k = None -> z_rank z k = 0 /\ z_revrank z k = 0.
Proof.
  intros z k H. unfold z_revrank, z_rank. rewrite H. split; [|reflexivity].
  apply z_index_absent. exact H.
Qed.

Lemma z_index_split : forall z k n i, z_find z k = Some n ->
  exists pre post, z = pre ++ n :: post /\ z_index z k i = i + zlen pre.
Proof.
  intros z k n. induction z as [|m r IH]; intros i; cbn.
  - discriminate.
  - destruct (bytes_eqb (z_key m) k) eqn:E.
    + intros [= <-]. exists [], r. split; [reflexivity|]. unfold zlen. cbn. lia.
    + intros H. destruct (IH (i + 1) H) as [pre [post [H1 H2]]].
      exists (m :: pre), post. split; [rewrite H1; reflexivity|].
      rewrite H2. unfold zlen. cbn [length]. lia.
Qed.

Lemma z_rank_member : forall z k n, zwf z -> z_find z k = Some n ->
  1 <= z_rank z k <= zlen z /\
  nth_error z (Z.to_nat (z_rank z k - 1)) = Some n /\
  z_rank z k = 1 + zlen (filter (fun m => zlt (z_score m) (z_key m) (z_score n) (z_key n)) z) /\
  z_rank z k + z_revrank z k = zlen z + 1.
Proof.
  intros z k n W F. unfold z_revrank, z_rank. rewrite F.
  destruct (z_index_split z k n 1 F) as [pre [post [E R]]].
  rewrite R. clear R F. subst z.
  assert (L : zlen (pre ++ n :: post) = zlen pre + 1 + zlen post).
  { unfold zlen. rewrite app_length. cbn [length]. lia. }
  assert (P : 0 <= zlen pre /\ 0 <= zlen post) by (unfold zlen; lia).
  split; [lia|]. split; [|split; [|lia]].
  - replace (1 + zlen pre - 1) with (zlen pre) by lia. unfold zlen. rewrite Nat2Z.id.
    rewrite nth_error_app2 by lia. rewrite Nat.sub_diag. reflexivity.
  - apply zwf_app_iff in W. destruct W as [_ [W2 [C _]]].
    apply zwf_cons_iff in W2. destruct W2 as [_ [Fp _]].
    rewrite filter_app. rewrite filter_all_true.
    + cbn [filter].
      assert (Q : zlt (z_score n) (z_key n) (z_score n) (z_key n) = false).
      { destruct (zlt (z_score n) (z_key n) (z_score n) (z_key n)) eqn:Q; [|reflexivity].
        exfalso. apply (zlt_irrefl n). exact Q. }
      rewrite Q. rewrite filter_all_false.
      * rewrite app_nil_r. reflexivity.
      * intros x Hx. rewrite Forall_forall in Fp.
        destruct (zlt (z_score x) (z_key x) (z_score n) (z_key n)) eqn:Q2; [|reflexivity].
        exfalso. apply (nlt_asym n x); [apply Fp; exact Hx|exact Q2].
    + intros x Hx. apply (C x n Hx). left. reflexivity.
Qed.

(** * GetByRankRange *)

Lemma z_sanitize_pos : forall len st en, 1 <= fst (z_sanitize len st en) /\ 1 <= snd (z_sanitize len st en).
Proof.
  intros len st en. unfold z_sanitize. cbn [fst snd].
  split.
  - destruct ((if st <? 0 then len + st + 1 else st) <=? 0) eqn:E; lia.
  - destruct ((if en <? 0 then len + en + 1 else en) <=? 0) eqn:E; lia.
Qed.

Lemma z_rankrange_unfold : forall z st en,
  z_rankrange z st en =
  let s0 := fst (z_sanitize (zlen z) st en) in
  let e0 := snd (z_sanitize (zlen z) st en) in
  let s := Z.min (Z.min s0 e0) (zlen z + 1) in
  let e := Z.min (Z.max s0 e0) (zlen z) in
  let rest := skipn (Z.to_nat (s - 1)) z in
  let taken := firstn (Z.to_nat (e - s + 1)) rest in
  ((if e0 <? s0 then rev taken else taken),
   firstn (Z.to_nat (s - 1)) z ++ skipn (Z.to_nat (e - s + 1)) rest).
Proof.
  intros z st en. unfold z_rankrange.
  destruct (z_sanitize (zlen z) st en) as [s0 e0]. cbn [fst snd].
  destruct (e0 <? s0) eqn:E; cbv beta iota zeta.
  - rewrite (Z.min_r s0 e0) by lia. rewrite (Z.max_l s0 e0) by lia. reflexivity.
  - rewrite (Z.min_l s0 e0) by lia. rewrite (Z.max_r s0 e0) by lia. reflexivity.
Qed.

Lemma rr_taken : forall {A} (z : list A) s e, 1 <= s <= e ->
  firstn (Z.to_nat (Z.min e (zlen z) - Z.min s (zlen z + 1) + 1))
         (skipn (Z.to_nat (Z.min s (zlen z + 1) - 1)) z) =
  firstn (Z.to_nat (Z.min e (zlen z) - (s - 1))) (skipn (Z.to_nat (s - 1)) z).
Proof.
  intros A z s e H. unfold zlen.
  destruct (Z_le_gt_dec s (Z.of_nat (length z) + 1)) as [L|L].
  - rewrite (Z.min_l s) by lia. f_equal. lia.
  - rewrite (skipn_all2 (n := Z.to_nat (Z.min s (Z.of_nat (length z) + 1) - 1))) by lia.
    rewrite (skipn_all2 (n := Z.to_nat (s - 1))) by lia.
    rewrite !firstn_nil. reflexivity.
Qed.

Lemma rr_rest : forall {A} (z : list A) s e, 1 <= s <= e ->
  firstn (Z.to_nat (Z.min s (zlen z + 1) - 1)) z ++
  skipn (Z.to_nat (Z.min e (zlen z) - Z.min s (zlen z + 1) + 1))
        (skipn (Z.to_nat (Z.min s (zlen z + 1) - 1)) z) =
  firstn (Z.to_nat (s - 1)) z ++ skipn (Z.to_nat (Z.max (s - 1) (Z.min e (zlen z)))) z.
Proof.
  intros A z s e H. unfold zlen. rewrite skipn_skipn'.
  destruct (Z_le_gt_dec s (Z.of_nat (length z) + 1)) as [L|L].
  - rewrite (Z.min_l s) by lia. f_equal. f_equal. lia.
  - rewrite (skipn_all2 (n := (Z.to_nat (Z.min s (Z.of_nat (length z) + 1) - 1) +
        Z.to_nat (Z.min e (Z.of_nat (length z)) - Z.min s (Z.of_nat (length z) + 1) + 1))%nat)) by lia.
    rewrite (skipn_all2 (n := Z.to_nat (Z.max (s - 1) (Z.min e (Z.of_nat (length z)))))) by lia.
    rewrite !firstn_all2 by lia. reflexivity.
Qed.

(** GetByRankRange: the nodes whose 1-based rank lies between the sanitized
    bounds, in ascending rank order, reversed when start > end; with remove the
    remaining set is the rest.  No node is invented or lost. *)
Lemma z_rankrange_spec : forall z st en,
  let '(s0, e0) := z_sanitize (zlen z) st en in
  let s := Z.min s0 e0 in let e := Z.max s0 e0 in
  let taken := firstn (Z.to_nat (Z.min e (zlen z) - (s - 1))) (skipn (Z.to_nat (s - 1)) z) in
  1 <= s /\
  fst (z_rankrange z st en) = (if e0 <? s0 then rev taken else taken) /\
  snd (z_rankrange z st en) = firstn (Z.to_nat (s - 1)) z ++ skipn (Z.to_nat (Z.max (s - 1) (Z.min e (zlen z)))) z.
Proof.
  intros z st en. rewrite z_rankrange_unfold.
  pose proof (z_sanitize_pos (zlen z) st en) as P.
  destruct (z_sanitize (zlen z) st en) as [s0 e0]. cbn [fst snd] in *.
  cbv zeta. cbn [fst snd].
  assert (H : 1 <= Z.min s0 e0 <= Z.max s0 e0) by lia.
  split; [lia|]. split.
  - rewrite (rr_taken z _ _ H). reflexivity.
  - apply (rr_rest z _ _ H).
Qed.

Lemma z_rankrange_perm : forall z st en,
  Permutation (fst (z_rankrange z st en) ++ snd (z_rankrange z st en)) z.
Proof.
  intros z st en. rewrite z_rankrange_unfold. cbv zeta. cbn [fst snd].
  set (a := Z.to_nat (Z.min (Z.min (fst (z_sanitize (zlen z) st en)) (snd (z_sanitize (zlen z) st en))) (zlen z + 1) - 1)).
  set (c := Z.to_nat _).
  apply perm_trans with (firstn c (skipn a z) ++ firstn a z ++ skipn c (skipn a z)).
  - apply Permutation_app_tail.
    destruct (_ <? _); [apply Permutation_sym, Permutation_rev|apply Permutation_refl].
  - apply perm_trans with (firstn a z ++ firstn c (skipn a z) ++ skipn c (skipn a z)).
    + apply Permutation_app_swap_app.
    + rewrite firstn_skipn, firstn_skipn. apply Permutation_refl.
Qed.

Lemma z_rankrange_wf : forall z st en, zwf z -> zwf (snd (z_rankrange z st en)).
Proof.
  intros z st en W. rewrite z_rankrange_unfold. cbv zeta. cbn [fst snd].
  set (a := Z.to_nat (Z.min (Z.min (fst (z_sanitize (zlen z) st en)) (snd (z_sanitize (zlen z) st en))) (zlen z + 1) - 1)).
  set (c := Z.to_nat _).
  rewrite <- (firstn_skipn a z) in W.
  rewrite <- (firstn_skipn c (skipn a z)) in W.
  apply zwf_app_iff in W. destruct W as [W1 [W2 [C K]]].
  apply zwf_app_iff in W2. destruct W2 as [_ [W3 _]].
  apply zwf_app_iff. split; [exact W1|]. split; [exact W3|]. split.
  - intros x y Hx Hy. apply C; [exact Hx|]. apply in_app_iff. right. exact Hy.
  - intros k Hk Q. apply (K k Hk). rewrite map_app. apply in_app_iff. right. exact Q.
Qed.

(** * GetByScoreRange *)
Definition in_score (lo hi : Z) (exlo exhi : bool) (n : znode) : bool :=
  (if exlo then lo <? z_score n else lo <=? z_score n) &&
  (if exhi then z_score n <? hi else z_score n <=? hi).

Lemma take_limit_firstn : forall {A} (l : list A) lim, 0 <= lim -> take_limit lim l = firstn (Z.to_nat lim) l.
Proof.
  intros A l. induction l as [|x r IH]; intros lim H; cbn.
  - rewrite firstn_nil. reflexivity.
  - destruct (lim <=? 0) eqn:E.
    + assert (Q : lim = 0) by lia. subst lim. reflexivity.
    + replace (Z.to_nat lim) with (S (Z.to_nat (lim - 1))) by lia. cbn.
      f_equal. apply IH. lia.
Qed.

Lemma take_limit_subset : forall {A} (l : list A) lim x, In x (take_limit lim l) -> In x l.
Proof.
  intros A l. induction l as [|h r IH]; intros lim x; cbn.
  - tauto.
  - destruct (lim <=? 0); [intros []|].
    intros [H|H]; [left; exact H|right; apply (IH (lim - 1)); exact H].
Qed.

(** the local fixpoints of [z_scorerange] as top-level functions *)
Definition twh (p : znode -> bool) : list znode -> list znode :=
  fix tw (l : list znode) := match l with [] => [] | n :: r => if p n then n :: tw r else [] end.
Definition dwh (p : znode -> bool) : list znode -> list znode :=
  fix dw (l : list znode) := match l with [] => [] | n :: r => if p n then l else dw r end.

Definition lo_ok (lo : Z) (ex : bool) (n : znode) : bool := if ex then lo <? z_score n else lo <=? z_score n.
Definition hi_ok (hi : Z) (ex : bool) (n : znode) : bool := if ex then z_score n <? hi else z_score n <=? hi.

Lemma z_scorerange_unfold : forall z st en lim exs exe,
  z_scorerange z st en lim exs exe =
  take_limit (if 0 <? lim then lim else 2147483647)
    (if en <? st then twh (lo_ok en exe) (rev (filter (hi_ok st exs) z))
     else twh (hi_ok en exe) (dwh (lo_ok st exs) z)).
Proof.
  intros z st en lim exs exe. unfold z_scorerange.
  destruct (en <? st); reflexivity.
Qed.

Lemma twh_subset : forall p l x, In x (twh p l) -> In x l.
Proof.
  intros p l x. induction l as [|h r IH]; cbn.
  - tauto.
  - destruct (p h); [|intros []]. intros [H|H]; [left; exact H|right; apply IH; exact H].
Qed.

Lemma dwh_subset : forall p l x, In x (dwh p l) -> In x l.
Proof.
  intros p l x. induction l as [|h r IH].
  - cbn. tauto.
  - cbn. destruct (p h); [tauto|]. intros H. right. apply IH. exact H.
Qed.

Lemma twh_filter : forall (R : znode -> znode -> Prop) p l,
  StronglySorted R l -> (forall a b, R a b -> p a = false -> p b = false) -> twh p l = filter p l.
Proof.
  intros R p l S M. induction S as [|h r Sr IH Fh]; cbn.
  - reflexivity.
  - destruct (p h) eqn:E.
    + f_equal. exact IH.
    + symmetry. apply filter_all_false. rewrite Forall_forall in Fh.
      intros x Hx. apply (M h x); [apply Fh; exact Hx|exact E].
Qed.

Lemma dwh_filter : forall (R : znode -> znode -> Prop) p l,
  StronglySorted R l -> (forall a b, R a b -> p a = true -> p b = true) -> dwh p l = filter p l.
Proof.
  intros R p l S M. induction S as [|h r Sr IH Fh].
  - reflexivity.
  - cbn. destruct (p h) eqn:E.
    + f_equal. symmetry. apply filter_all_true. rewrite Forall_forall in Fh.
      intros x Hx. apply (M h x); [apply Fh; exact Hx|exact E].
    + exact IH.
Qed.

Lemma zwf_score_sorted : forall z, zwf z -> StronglySorted (fun a b => z_score a <= z_score b) z.
Proof.
  intros z [S _]. apply (SS_weaken nlt); [apply nlt_score|exact S].
Qed.

Lemma lo_ok_mono : forall lo ex a b, z_score a <= z_score b -> lo_ok lo ex a = true -> lo_ok lo ex b = true.
Proof. intros lo ex a b H. unfold lo_ok. destruct ex; lia. Qed.

Lemma lo_ok_anti : forall lo ex a b, z_score b <= z_score a -> lo_ok lo ex a = false -> lo_ok lo ex b = false.
Proof. intros lo ex a b H. unfold lo_ok. destruct ex; lia. Qed.

Lemma hi_ok_anti : forall hi ex a b, z_score a <= z_score b -> hi_ok hi ex a = false -> hi_ok hi ex b = false.
Proof. intros hi ex a b H. unfold hi_ok. destruct ex; lia. Qed.

Lemma z_scorerange_forward : forall z st en lim exs exe, zwf z -> st <= en ->
  z_scorerange z st en lim exs exe =
    take_limit (if 0 <? lim then lim else 2147483647) (filter (in_score st en exs exe) z).
Proof.
  intros z st en lim exs exe W H. rewrite z_scorerange_unfold.
  assert (E : en <? st = false) by lia. rewrite E. f_equal.
  pose proof (zwf_score_sorted z W) as S.
  rewrite (dwh_filter _ _ _ S (lo_ok_mono st exs)).
  rewrite (twh_filter _ _ _ (SS_filter _ (lo_ok st exs) _ S) (hi_ok_anti en exe)).
  rewrite filter_filter. reflexivity.
Qed.

Lemma z_scorerange_reverse : forall z st en lim exs exe, zwf z -> en < st ->
  z_scorerange z st en lim exs exe =
    take_limit (if 0 <? lim then lim else 2147483647) (rev (filter (in_score en st exe exs) z)).
Proof.
  intros z st en lim exs exe W H. rewrite z_scorerange_unfold.
  assert (E : en <? st = true) by lia. rewrite E. f_equal.
  pose proof (zwf_score_sorted z W) as S.
  pose proof (SS_rev _ _ (SS_filter _ (hi_ok st exs) _ S)) as S2. cbv beta in S2.
  rewrite (twh_filter _ _ _ S2 (lo_ok_anti en exe)).
  rewrite filter_rev', filter_filter. f_equal.
  apply filter_ext. intros a. unfold in_score, lo_ok, hi_ok. apply andb_comm.
Qed.

(** no query returns a node that is not a member *)
Lemma z_scorerange_members : forall z st en lim exs exe n,
  In n (z_scorerange z st en lim exs exe) -> In n z.
Proof.
  intros z st en lim exs exe n. rewrite z_scorerange_unfold. intros H.
  apply take_limit_subset in H. destruct (en <? st).
  - apply twh_subset in H. apply in_rev in H. apply filter_In in H. tauto.
  - apply twh_subset in H. apply dwh_subset in H. exact H.
Qed.

Lemma z_rankrange_members : forall z st en n, In n (fst (z_rankrange z st en)) -> In n z.
Proof.
  intros z st en n H. apply (Permutation_in n (z_rankrange_perm z st en)).
  apply in_app_iff. left. exact H.
Qed.
