(** GoListLPush.v — the translated List.LPush (two index loops filling a
    freshly made slice) equals the model's [l_lpush]. *)
From Verif Require Import Bytes BytesFacts ListDS ListFacts.
From VerifGo Require Import GoSem GoListFacts.
From VerifGen Require Import GoList.
From Coq Require Import Strings.String.
From Coq Require Import Lia ZifyBool.
Open Scope Z_scope.

(* ====================================================================== *)
(** * GoSem lemmas (general facts about the combinators of GoSem.v)        *)
(* ====================================================================== *)
Section GoSemLemmas.

(** 64-bit wrap is the identity on in-range values *)
Lemma iadd_ok a b : int_ok (a + b) -> iadd a b = a + b.
Proof. intros Hok. unfold iadd. apply wrapS64_id. exact Hok. Qed.

Lemma isub_ok a b : int_ok (a - b) -> isub a b = a - b.
Proof. intros Hok. unfold isub. apply wrapS64_id. exact Hok. Qed.


Lemma zlen_nonneg' {A} (l : list A) : 0 <= zlen l.
Proof. unfold zlen. lia. Qed.

Lemma zlen_app {A} (a b : list A) : zlen (a ++ b) = zlen a + zlen b.
Proof. unfold zlen. rewrite app_length. lia. Qed.

Lemma zlen_repeat {A} (x : A) n : zlen (repeat x n) = Z.of_nat n.
Proof. unfold zlen. rewrite repeat_length. reflexivity. Qed.

(** success conditions of the slice primitives *)
Lemma gidx_ok {A} (l : list A) (i : Z) (d : A) :
  0 <= i < zlen l -> gidx l i = GOk (nth (Z.to_nat i) l d).
Proof.
  intros Hi. unfold gidx.
  replace ((0 <=? i) && (i <? zlen l))%bool with true by lia.
  destruct (nth_error l (Z.to_nat i)) as [x|] eqn:Hnth.
  - rewrite (nth_error_nth _ _ d Hnth). reflexivity.
  - apply nth_error_None in Hnth. unfold zlen in Hi. lia.
Qed.

Lemma gupd_ok {A} (l : list A) (i : Z) (v : A) :
  0 <= i < zlen l -> gupd l i v = GOk (upd_nth l (Z.to_nat i) v).
Proof.
  intros Hi. unfold gupd.
  replace ((0 <=? i) && (i <? zlen l))%bool with true by lia.
  reflexivity.
Qed.

Lemma gmake_ok {A} (zero : A) (n : Z) :
  0 <= n -> gmake zero n = GOk (repeat zero (Z.to_nat n)).
Proof.
  intros Hn. unfold gmake.
  replace (n <? 0) with false by lia. reflexivity.
Qed.

(** writing at position [length a] of [a ++ x :: b] *)
Lemma upd_nth_app {A} (a b : list A) (x v : A) :
  upd_nth (a ++ x :: b) (List.length a) v = a ++ v :: b.
Proof.
  induction a as [|y a IH].
  - reflexivity.
  - cbn [app List.length upd_nth]. rewrite IH. reflexivity.
Qed.

Lemma upd_nth_app_at {A} (a b : list A) (x v : A) (i : nat) :
  i = List.length a -> upd_nth (a ++ x :: b) i v = a ++ v :: b.
Proof. intros ->. apply upd_nth_app. Qed.

Lemma firstn_snoc {A} (l : list A) (k : nat) (d : A) :
  (k < List.length l)%nat -> firstn (S k) l = firstn k l ++ [nth k l d].
Proof.
  revert k. induction l as [|x l IH]; intros k Hk.
  - cbn [List.length] in Hk. lia.
  - destruct k as [|k].
    + reflexivity.
    + cbn [List.length] in Hk.
      change (firstn (S (S k)) (x :: l)) with (x :: firstn (S k) l).
      rewrite (IH k) by lia. reflexivity.
Qed.

(** [gfor] as a counted loop with an invariant indexed by the iteration
    number: if the invariant [I k] makes the condition true and the body step
    (followed by the post statement) re-establishes [I (k+1)] for [k < n], and
    [I n] makes the condition false, then with more than [n] units of fuel
    the loop finishes normally in a state satisfying [I n]. *)
Lemma gfor_inv_from {S R} (I : nat -> S -> Prop) (n : nat)
      (cond : S -> bool) (body : S -> gres (lstep S R)) (post : S -> S) :
  (forall k s, (k < n)%nat -> I k s ->
     cond s = true /\ exists s', body s = GOk (LNext s') /\ I (Datatypes.S k) (post s')) ->
  (forall s, I n s -> cond s = false) ->
  forall (fuel k : nat) (s : S), (k <= n)%nat -> I k s -> (n - k < fuel)%nat ->
  exists s', gfor fuel cond body post s = GOk (inl s') /\ I n s'.
Proof.
  intros Hstep Hexit fuel.
  induction fuel as [|fuel IH]; intros k s Hkn HI Hfuel.
  - lia.
  - cbn [gfor].
    destruct (Nat.eq_dec k n) as [Heq|Hne].
    + subst k. rewrite (Hexit s HI). exists s. split; [reflexivity|exact HI].
    + assert (Hlt : (k < n)%nat) by lia.
      destruct (Hstep k s Hlt HI) as [Hc [s' [Hb HI']]].
      rewrite Hc, Hb. cbn [gbind].
      apply (IH (Datatypes.S k) (post s')); [lia|exact HI'|lia].
Qed.

Lemma gfor_inv {S R} (I : nat -> S -> Prop) (n : nat)
      (cond : S -> bool) (body : S -> gres (lstep S R)) (post : S -> S)
      (fuel : nat) (s : S) :
  (forall k s, (k < n)%nat -> I k s ->
     cond s = true /\ exists s', body s = GOk (LNext s') /\ I (Datatypes.S k) (post s')) ->
  (forall s, I n s -> cond s = false) ->
  I O s -> (n < fuel)%nat ->
  exists s', gfor fuel cond body post s = GOk (inl s') /\ I n s'.
Proof.
  intros Hstep Hexit HI Hfuel.
  apply (gfor_inv_from I n cond body post Hstep Hexit fuel O s); [lia|exact HI|lia].
Qed.

End GoSemLemmas.

(* ====================================================================== *)
(** * List.LPush                                                           *)
(* ====================================================================== *)

(** invariant of the first loop (copy the old elements behind the hole left
    for the new values), after [k] iterations; the state is
    (new slice, write index, read index + 1) *)
Definition lpush_inv1 (old vs : list bytes) (k : nat) (st : list bytes * Z * Z) : Prop :=
  let '(nl, j, i) := st in
  i = 1 + Z.of_nat k /\ j = zlen vs + Z.of_nat k /\
  nl = repeat [] (List.length vs) ++ firstn k old ++ repeat [] (List.length old - k).

(** invariant of the second loop (write the new values in reverse), after
    [k] iterations; the state is (new slice, read index, write index) *)
Definition lpush_inv2 (old vs : list bytes) (k : nat) (st : list bytes * Z * Z) : Prop :=
  let '(nl, j, i) := st in
  j = Z.of_nat k /\ i = zlen vs - 1 - Z.of_nat k /\
  nl = repeat [] (List.length vs - k) ++ rev (firstn k vs) ++ old.

Lemma go_LPush_core fuel l key vs old e :
  go_List_Size l key = GOk (l, (zlen old, e)) ->
  lookup0 [] (List_Items l) key = old ->
  zlen old < 2 ^ 62 -> zlen vs < 2 ^ 62 ->
  (Z.to_nat (zlen old + zlen vs) + 4 <= fuel)%nat ->
  go_List_LPush fuel l key vs =
  GOk (mk_go_List (aset (List_Items l) key (rev vs ++ old)), (zlen old + zlen vs, ENil)).
Proof.
  intros Hsize Hlk Hold Hvs Hfuel.
  pose proof (zlen_nonneg' old) as Hold0.
  pose proof (zlen_nonneg' vs) as Hvs0.
  assert (Hp62 : 2 ^ 62 = 4611686018427387904) by reflexivity.
  assert (Hp63 : 2 ^ 63 = 9223372036854775808) by reflexivity.
  unfold go_List_LPush. rewrite Hsize. cbn [gbind]. rewrite Hlk.
  rewrite (iadd_ok (zlen old) (zlen vs)) by (unfold int_ok; lia).
  rewrite gmake_ok by lia. cbn [gbind].
  (* first loop; the loop state holds (new slice, write index, read index + 1)
     in an order that depends on the loop body: found by [with_dec3] *)
  match goal with |- context [gfor fuel ?c ?b ?p ?s] =>
    let T := type of s in
    with_dec3 T ltac:(fun dec =>
      destruct (gfor_inv (fun k (st : T) => lpush_inv1 old vs k (dec st)) (List.length old) c b p fuel s)
        as [st1 [Hrun1 Hinv1]];
      [ solve [ intros k [[s1 s2] s3] Hk HI; cbv beta iota zeta in HI |- *;
                lazymatch type of HI with lpush_inv1 _ _ _ (?nl, ?j, ?i) =>
                  destruct HI as [Hi [Hj Hnl]]; unfold zlen in *;
                  split; [lia|];
                  rewrite ?(isub_ok i 1) by (unfold int_ok; lia);
                  go_cases;
                  rewrite (gidx_ok old (i - 1) []) by (unfold zlen; lia); cbn [gbind];
                  rewrite gupd_ok
                    by (subst nl; rewrite !zlen_app, !zlen_repeat; unfold zlen; rewrite firstn_length; lia);
                  cbn [gbind]; eexists; split; [reflexivity|];
                  cbv beta iota zeta; unfold lpush_inv1, zlen;
                  rewrite ?(iadd_ok i 1) by (unfold int_ok; lia);
                  rewrite ?(iadd_ok j 1) by (unfold int_ok; lia);
                  split; [lia|]; split; [lia|];
                  subst nl;
                  replace (List.length old - k)%nat with (Datatypes.S (List.length old - Datatypes.S k)) by lia;
                  cbn [repeat]; rewrite app_assoc;
                  rewrite upd_nth_app_at by (rewrite app_length, repeat_length, firstn_length; lia);
                  rewrite (firstn_snoc old k []) by lia;
                  replace (Z.to_nat (i - 1)) with k by lia;
                  rewrite <- !app_assoc; reflexivity
                end ]
      | solve [ intros [[s1 s2] s3] HI; cbv beta iota zeta in HI |- *;
                destruct HI as [Hi [Hj Hnl]]; unfold zlen in *; lia ]
      | solve [ cbv beta iota zeta; unfold lpush_inv1; split; [lia|]; split; [lia|];
                rewrite Nat.sub_0_r; cbn [firstn app];
                unfold zlen; rewrite <- repeat_app; f_equal; lia ]
      | solve [ unfold zlen in *; lia ]
      | ])
  end.
  rewrite Hrun1. cbn [gbind].
  destruct st1 as [[s1 s2] s3]. cbv beta iota zeta in Hinv1 |- *.
  destruct Hinv1 as [Hi1 [Hj1 Hnl1]].
  rewrite firstn_all, Nat.sub_diag in Hnl1. cbn [repeat] in Hnl1.
  rewrite app_nil_r in Hnl1.
  rewrite ?(isub_ok (zlen vs) 1) by (unfold int_ok; lia).
  (* second loop; the state holds (new slice, read index, write index) in some order *)
  match goal with |- context [gfor fuel ?c ?b ?p ?s] =>
    let T := type of s in
    with_dec3 T ltac:(fun dec =>
      destruct (gfor_inv (fun k (st : T) => lpush_inv2 old vs k (dec st)) (List.length vs) c b p fuel s)
        as [st2 [Hrun2 Hinv2]];
      [ solve [ intros k [[t1 t2] t3] Hk HI; cbv beta iota zeta in HI |- *;
                lazymatch type of HI with lpush_inv2 _ _ _ (?nl, ?j, ?i) =>
                  destruct HI as [Hj [Hi Hnl]]; unfold zlen in *;
                  split; [lia|];
                  rewrite (gidx_ok vs j []) by (unfold zlen; lia); cbn [gbind];
                  rewrite gupd_ok by (subst nl; rewrite !zlen_app, !zlen_repeat; unfold zlen; lia);
                  cbn [gbind]; eexists; split; [reflexivity|];
                  cbv beta iota zeta; unfold lpush_inv2, zlen;
                  rewrite ?(iadd_ok j 1) by (unfold int_ok; lia);
                  rewrite ?(isub_ok i 1) by (unfold int_ok; lia);
                  split; [lia|]; split; [lia|];
                  subst nl;
                  replace (List.length vs - k)%nat with (List.length vs - Datatypes.S k + 1)%nat by lia;
                  rewrite repeat_app; cbn [repeat]; rewrite <- app_assoc; cbn [app];
                  rewrite upd_nth_app_at by (rewrite repeat_length; lia);
                  rewrite (firstn_snoc vs k []) by lia;
                  rewrite rev_app_distr; cbn [rev app];
                  replace (Z.to_nat j) with k by lia;
                  reflexivity
                end ]
      | solve [ intros [[t1 t2] t3] HI; cbv beta iota zeta in HI |- *;
                destruct HI as [Hj [Hi Hnl]]; unfold zlen in *; lia ]
      | solve [ cbv beta iota zeta; unfold lpush_inv2; split; [lia|]; split; [lia|];
                rewrite Nat.sub_0_r; cbn [firstn rev app]; exact Hnl1 ]
      | solve [ unfold zlen in *; lia ]
      | ])
  end.
  rewrite Hrun2. cbn [gbind].
  destruct st2 as [[t1 t2] t3]. cbv beta iota zeta in Hinv2 |- *.
  destruct Hinv2 as [Hj2 [Hi2 Hnl2]].
  rewrite firstn_all, Nat.sub_diag in Hnl2. cbn [repeat app] in Hnl2.
  rewrite Hnl2. reflexivity.
Qed.

Theorem go_LPush_eq fuel l key vs :
  items_ok l -> zlen vs < 2 ^ 62 ->
  let size := match alookup (List_Items l) key with Some x => zlen x | None => 0 end in
  (Z.to_nat (size + zlen vs) + 4 <= fuel)%nat ->
  go_List_LPush fuel l key vs =
  GOk (mk_go_List (l_lpush (List_Items l) key vs), (size + zlen vs, ENil)).
Proof.
  intros Hitems Hvs size Hfuel.
  pose proof (go_Size_eq l key) as Hsize.
  unfold l_lpush, l_size in *. unfold size in *. clear size.
  destruct (alookup (List_Items l) key) as [old|] eqn:Hlook.
  - apply (go_LPush_core fuel l key vs old ENil Hsize).
    + unfold lookup0. rewrite Hlook. reflexivity.
    + exact (Hitems key old Hlook).
    + exact Hvs.
    + exact Hfuel.
  - apply (go_LPush_core fuel l key vs [] _ Hsize).
    + unfold lookup0. rewrite Hlook. reflexivity.
    + reflexivity.
    + exact Hvs.
    + exact Hfuel.
Qed.

Print Assumptions go_LPush_eq.
