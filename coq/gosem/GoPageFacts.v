(** The translated [pageEntries] (tx_bptree.go; sparse-mode paging of PrefixScan /
    PrefixSearchScan after fix 7531a1a) is the specification's skip / filter / take. *)
From Coq Require Import List ZArith Lia Bool.
From Verif Require Import Bytes BytesFacts.
From VerifGo Require Import GoSem.
From VerifGen Require Import GoPage.
Import ListNotations.
Open Scope Z_scope.

(** the regexp verdict on an entry: the remainder of the key after the prefix *)
Definition rx_ok (rgx : option (bytes -> bool)) (prefix : bytes) (e : go_Entry) : bool :=
  match rgx with None => true | Some m => m (trim_prefix (Entry_Key e) prefix) end.

(** what the specification (Spec.spec_read, OPrefixScan / OPrefixSearchScan) computes from the
    ascending list [all] of live entries with the prefix *)
Definition page_spec (all : list go_Entry) (prefix : bytes) (rgx : option (bytes -> bool)) (off lim : Z)
  : list go_Entry * Z :=
  let coff := Z.min (Z.max off 0) (zlen all) in
  let rest := filter (rx_ok rgx prefix) (skipn (Z.to_nat coff) all) in
  (if 0 <? lim then firstn (Z.to_nat lim) rest else if lim =? -1 then rest else [], coff).

(** ---- general facts ---- *)
Lemma zlen_nil_0 : forall {A}, zlen (@nil A) = 0.
Proof. reflexivity. Qed.

Lemma zlen_app1 : forall {A} (l : list A) x, zlen (l ++ [x]) = zlen l + 1.
Proof. intros A l x. unfold zlen. rewrite app_length. cbn [length]. lia. Qed.

Lemma zlen_nonneg' : forall {A} (l : list A), 0 <= zlen l.
Proof. intros A l. unfold zlen. lia. Qed.

(** all[off:] *)
Lemma gslice_tail : forall {A} (l : list A) o, 0 <= o <= zlen l ->
  gslice l o (zlen l) = GOk (skipn (Z.to_nat o) l).
Proof.
  intros A l o Ho. unfold gslice.
  replace ((0 <=? o) && (o <=? zlen l) && (zlen l <=? zlen l)) with true
    by (symmetry; rewrite !andb_true_iff; repeat split; apply Z.leb_le; lia).
  unfold zslice. rewrite firstn_all2; [reflexivity|].
  rewrite skipn_length. unfold zlen in *. lia.
Qed.

(** a range loop that breaks once [lim] (when it is not -1) elements are collected and
    otherwise appends the elements satisfying [keep]: whatever else the loop state carries
    (invariant [P]), the collected list [get s] grows by the first elements of the filter *)
Definition page_take {A} (keep : A -> bool) (lim : Z) (have : Z) (l : list A) : list A :=
  if lim =? -1 then filter keep l else firstn (Z.to_nat (lim - have)) (filter keep l).

Lemma grange_page {A S R} (body : Z -> A -> S -> gres (lstep S R))
      (get : S -> list A) (upd : S -> A -> S) (P : S -> Prop) (keep : A -> bool) (lim : Z) :
  (forall i x s, P s ->
     body i x s = GOk (if negb (lim =? -1) && (lim <=? zlen (get s)) then LBreak s
                       else LNext (if keep x then upd s x else s))) ->
  (forall s x, P s -> P (upd s x) /\ get (upd s x) = get s ++ [x]) ->
  forall l i s, P s ->
    exists s', grange body i l s = GOk (inl s') /\ P s' /\
               get s' = get s ++ page_take keep lim (zlen (get s)) l.
Proof.
  intros Hbody Hupd. induction l as [|x r IH]; intros i s HP.
  - exists s. cbn [grange]. split; [reflexivity|]. split; [exact HP|].
    unfold page_take. cbn [filter]. rewrite firstn_nil. destruct (lim =? -1); rewrite app_nil_r; reflexivity.
  - cbn [grange]. rewrite (Hbody i x s HP).
    pose proof (zlen_nonneg' (get s)) as Hge.
    destruct (negb (lim =? -1) && (lim <=? zlen (get s))) eqn:Hstop; cbn [gbind].
    + exists s. split; [reflexivity|]. split; [exact HP|].
      apply andb_true_iff in Hstop. destruct Hstop as [H1 H2].
      apply negb_true_iff in H1. apply Z.leb_le in H2.
      unfold page_take. rewrite H1.
      replace (Z.to_nat (lim - zlen (get s))) with O by lia.
      cbn [firstn]. rewrite app_nil_r. reflexivity.
    + destruct (keep x) eqn:Hk.
      * destruct (Hupd s x HP) as [HP' Hget].
        destruct (IH (i + 1) (upd s x) HP') as [s' [Hg [HPs Hgs]]].
        exists s'. split; [exact Hg|]. split; [exact HPs|].
        rewrite Hgs, Hget, zlen_app1, <- app_assoc. f_equal.
        unfold page_take. cbn [filter]. rewrite Hk.
        destruct (lim =? -1) eqn:Hl; [reflexivity|].
        cbn [negb andb] in Hstop. apply Z.leb_gt in Hstop.
        replace (Z.to_nat (lim - zlen (get s))) with (Datatypes.S (Z.to_nat (lim - (zlen (get s) + 1)))) by lia.
        reflexivity.
      * destruct (IH (i + 1) s HP) as [s' [Hg [HPs Hgs]]].
        exists s'. split; [exact Hg|]. split; [exact HPs|].
        rewrite Hgs. unfold page_take. cbn [filter]. rewrite Hk. reflexivity.
Qed.

(** the loop's result from an empty accumulator is the specification's page *)
Lemma page_take_spec : forall {A} (keep : A -> bool) lim (l : list A),
  page_take keep lim 0 l =
  if 0 <? lim then firstn (Z.to_nat lim) (filter keep l) else if lim =? -1 then filter keep l else [].
Proof.
  intros A keep lim l. unfold page_take. rewrite Z.sub_0_r.
  destruct (0 <? lim) eqn:H0.
  - apply Z.ltb_lt in H0. replace (lim =? -1) with false by lia. reflexivity.
  - apply Z.ltb_ge in H0. destruct (lim =? -1); [reflexivity|].
    replace (Z.to_nat lim) with O by lia. reflexivity.
Qed.

Theorem go_pageEntries_eq : forall all prefix rgx off lim nf,
  go_pageEntries all prefix rgx off lim nf =
  GOk (match fst (page_spec all prefix rgx off lim) with
       | [] => ([], snd (page_spec all prefix rgx off lim), nf)
       | es => (es, snd (page_spec all prefix rgx off lim), ENil)
       end).
Proof.
  intros all prefix rgx off lim nf.
  pose proof (zlen_nonneg' all) as Hall.
  unfold page_spec. cbv zeta. cbn [fst snd].
  unfold go_pageEntries. cbv zeta.
  (* the two clamps of the offset *)
  destruct (off <? 0) eqn:H0; cbn [gbind];
    [apply Z.ltb_lt in H0 | apply Z.ltb_ge in H0];
    (match goal with |- context [zlen all <? ?o] => destruct (zlen all <? o) eqn:H1 end);
    cbn [gbind]; [apply Z.ltb_lt in H1 | apply Z.ltb_ge in H1 | apply Z.ltb_lt in H1 | apply Z.ltb_ge in H1];
    (match goal with |- context [gslice all ?o _] =>
       replace (Z.min (Z.max off 0) (zlen all)) with o by lia;
       rewrite (gslice_tail all o) by lia
     end);
    cbn [gbind];
    (match goal with
     | |- context [grange ?bd ?ix ?ls ?st0] =>
         destruct (grange_page bd snd (fun s x => (fst s, snd s ++ [x])) (fun s => fst s = rgx)
                     (rx_ok rgx prefix) lim) with (l := ls) (i := ix) (s := st0)
           as [s' [Hg [HP Hget]]];
         [ intros i x [r es] Hr; cbn [fst snd] in Hr |- *; subst r;
           destruct (negb (lim =? -1) && (lim <=? zlen es)); [reflexivity|];
           destruct rgx as [m|]; cbn [rx_is_nil negb grx_match gbind rx_ok];
           [destruct (m _)|]; reflexivity
         | intros [r es] x Hr; cbn [fst snd] in *; split; [exact Hr|reflexivity]
         | reflexivity
         | rewrite Hg; clear Hg ]
     end);
    cbn [gbind]; destruct s' as [r es]; cbn [fst snd] in *; subst r;
    rewrite app_nil_l, zlen_nil_0, page_take_spec in Hget; subst es;
    (match goal with |- context [zlen ?X =? 0] => destruct X eqn:HX end);
    reflexivity.
Qed.
Print Assumptions go_pageEntries_eq.

(** the remainder handed to the regular expression is the key without the prefix *)
Lemma trim_prefix_skipn : forall k p, has_prefix k p = true -> trim_prefix k p = skipn (length p) k.
Proof.
  intros k p H. unfold trim_prefix. rewrite H. reflexivity.
Qed.
Print Assumptions trim_prefix_skipn.

(** ---- the plain prefix scan (no regular expression) ---- *)
Lemma filter_rx_none : forall prefix (l : list go_Entry), filter (rx_ok None prefix) l = l.
Proof.
  intros prefix l. induction l as [|x r IH]; [reflexivity|].
  cbn [filter rx_ok]. f_equal. exact IH.
Qed.

Lemma page_spec_none : forall all prefix off lim,
  fst (page_spec all prefix None off lim) =
  let rest := skipn (Z.to_nat (Z.min (Z.max off 0) (zlen all))) all in
  if 0 <? lim then firstn (Z.to_nat lim) rest else if lim =? -1 then rest else [].
Proof.
  intros. unfold page_spec. cbv zeta. cbn [fst]. rewrite filter_rx_none. reflexivity.
Qed.

Lemma go_pageEntries_fst : forall all prefix rgx off lim nf,
  match go_pageEntries all prefix rgx off lim nf with GOk (es, _, _) => es | _ => [] end =
  fst (page_spec all prefix rgx off lim).
Proof.
  intros. rewrite go_pageEntries_eq. destruct (fst (page_spec all prefix rgx off lim)); reflexivity.
Qed.

(** paging never reports "not found" while unreturned live keys remain (plain prefix scan, limit > 0 or no limit) *)
Theorem go_pageEntries_progress : forall all prefix off lim nf,
  (0 < lim \/ lim = -1) -> Z.max off 0 < zlen all ->
  exists es o, go_pageEntries all prefix None off lim nf = GOk (es, o, ENil) /\ es <> [].
Proof.
  intros all prefix off lim nf Hlim Hoff.
  rewrite go_pageEntries_eq.
  assert (Hne : fst (page_spec all prefix None off lim) <> []).
  { rewrite page_spec_none. cbv zeta.
    set (c := Z.min (Z.max off 0) (zlen all)).
    assert (Hc : (Z.to_nat c < length all)%nat) by (unfold zlen in *; lia).
    destruct (skipn (Z.to_nat c) all) as [|x r] eqn:Hs.
    - apply (f_equal (@length _)) in Hs. rewrite skipn_length in Hs. cbn [length] in Hs. lia.
    - destruct Hlim as [Hl|Hl].
      + replace (0 <? lim) with true by lia.
        replace (Z.to_nat lim) with (Datatypes.S (Z.to_nat (lim - 1))) by lia.
        cbn [firstn]. discriminate.
      + subst lim. cbn. discriminate. }
  destruct (fst (page_spec all prefix None off lim)) as [|e es] eqn:He; [contradiction|].
  eexists. eexists. split; [reflexivity|]. discriminate.
Qed.
Print Assumptions go_pageEntries_progress.

Lemma firstn_add' : forall {A} a b (l : list A),
  firstn (a + b) l = firstn a l ++ firstn b (skipn a l).
Proof.
  intros A a. induction a as [|a IH]; intros b l.
  - reflexivity.
  - destruct l as [|x l].
    + cbn [plus firstn skipn app]. rewrite firstn_nil. reflexivity.
    + cbn [plus firstn skipn app]. rewrite IH. reflexivity.
Qed.

Lemma concat_pages' : forall {A} (m n : nat) (L : list A),
  concat (map (fun i => firstn m (skipn (i * m) L)) (seq 0 n)) = firstn (n * m) L.
Proof.
  intros A m n L. induction n as [|n IH].
  - reflexivity.
  - rewrite seq_S, map_app, concat_app, IH. cbn [map concat plus].
    rewrite app_nil_r. replace (Datatypes.S n * m)%nat with (n * m + m)%nat by lia.
    rewrite firstn_add'. reflexivity.
Qed.

Lemma skipn_min_length' : forall {A} (a : nat) (L : list A),
  skipn (Nat.min a (length L)) L = skipn a L.
Proof.
  intros A a L. destruct (Nat.le_gt_cases a (length L)) as [H|H].
  - rewrite Nat.min_l by exact H. reflexivity.
  - rewrite Nat.min_r by lia. rewrite skipn_all. rewrite skipn_all2 by lia. reflexivity.
Qed.

(** concatenating the pages offset = 0, lim, 2*lim, ... enumerates [all] (plain prefix scan) *)
Theorem go_pageEntries_pages_enumerate : forall all prefix lim nf n,
  0 < lim -> Z.of_nat n * lim >= zlen all ->
  concat (map (fun i => match go_pageEntries all prefix None (Z.of_nat i * lim) lim nf with
                        | GOk (es, _, _) => es | _ => [] end) (seq 0 n)) = all.
Proof.
  intros all prefix lim nf n Hl Hn.
  rewrite (map_ext _ (fun i => firstn (Z.to_nat lim) (skipn (i * Z.to_nat lim) all))).
  - rewrite concat_pages'. apply firstn_all2. unfold zlen in Hn. nia.
  - intros i. rewrite go_pageEntries_fst, page_spec_none. cbv zeta.
    replace (0 <? lim) with true by lia.
    replace (Z.to_nat (Z.min (Z.max (Z.of_nat i * lim) 0) (zlen all)))
      with (Nat.min (i * Z.to_nat lim) (length all)) by (unfold zlen; nia).
    rewrite skipn_min_length'. reflexivity.
Qed.
Print Assumptions go_pageEntries_pages_enumerate.
