(** The translated [pageEntries] (tx_bptree.go; sparse-mode paging of PrefixScan /
    PrefixSearchScan after fix 7531a1a) is the specification's skip / filter / take. *)
From Coq Require Import List ZArith Lia Bool ZifyBool.
From Verif Require Import Bytes BytesFacts.
From VerifGo Require Import GoSem.
From VerifGen Require Import GoPage.
Import ListNotations.
Open Scope Z_scope.

(** the regexp verdict on an entry: the remainder of the key after the prefix *)
Definition rx_ok (rgx : option (bytes -> bool)) (prefix : bytes) (e : go_Entry) : bool :=
  match rgx with None => true | Some m => m (trim_prefix (Entry_Key e) prefix) end.

(** what the specification (Spec.spec_read, OPrefixScan / OPrefixSearchScan) computes from the
    ascending list [all] of live entries with the prefix *)
Definition page_spec (all : list go_Entry) (prefix : bytes) (rgx : option (bytes -> bool)) (off lim : Z)
  : list go_Entry * Z :=
  let coff := Z.min (Z.max off 0) (zlen all) in
  let rest := filter (rx_ok rgx prefix) (skipn (Z.to_nat coff) all) in
  (if 0 <? lim then firstn (Z.to_nat lim) rest else if lim =? -1 then rest else [], coff).

(** ---- general facts ---- *)
Lemma zlen_nil_0 : forall {A}, zlen (@nil A) = 0.
Proof. reflexivity. Qed.

Lemma zlen_app1 : forall {A} (l : list A) x, zlen (l ++ [x]) = zlen l + 1.
Proof. intros A l x. unfold zlen. rewrite app_length. cbn [length]. lia. Qed.

Lemma zlen_nonneg' : forall {A} (l : list A), 0 <= zlen l.
Proof. intros A l. unfold zlen. lia. Qed.

(** all[off:] *)
Lemma gslice_tail : forall {A} (l : list A) o, 0 <= o <= zlen l ->
  gslice l o (zlen l) = GOk (skipn (Z.to_nat o) l).
Proof.
  intros A l o Ho. unfold gslice.
  replace ((0 <=? o) && (o <=? zlen l) && (zlen l <=? zlen l)) with true
    by (symmetry; rewrite !andb_true_iff; repeat split; apply Z.leb_le; lia).
  unfold zslice. rewrite firstn_all2; [reflexivity|].
  rewrite skipn_length. unfold zlen in *. lia.
Qed.

(** (the first form of the loop lemma, which fixes the shape of the test and of the state
    update; [go_pageEntries_eq] now uses [grange_page_sem] below, this one is kept for reference)
    a range loop that breaks once [lim] (when it is not -1) elements are collected and
    otherwise appends the elements satisfying [keep]: whatever else the loop state carries
    (invariant [P]), the collected list [get s] grows by the first elements of the filter *)
Definition page_take {A} (keep : A -> bool) (lim : Z) (have : Z) (l : list A) : list A :=
  if lim =? -1 then filter keep l else firstn (Z.to_nat (lim - have)) (filter keep l).

Lemma grange_page {A S R} (body : Z -> A -> S -> gres (lstep S R))
      (get : S -> list A) (upd : S -> A -> S) (P : S -> Prop) (keep : A -> bool) (lim : Z) :
  (forall i x s, P s ->
     body i x s = GOk (if negb (lim =? -1) && (lim <=? zlen (get s)) then LBreak s
                       else LNext (if keep x then upd s x else s))) ->
  (forall s x, P s -> P (upd s x) /\ get (upd s x) = get s ++ [x]) ->
  forall l i s, P s ->
    exists s', grange body i l s = GOk (inl s') /\ P s' /\
               get s' = get s ++ page_take keep lim (zlen (get s)) l.
Proof.
  intros Hbody Hupd. induction l as [|x r IH]; intros i s HP.
  - exists s. cbn [grange]. split; [reflexivity|]. split; [exact HP|].
    unfold page_take. cbn [filter]. rewrite firstn_nil. destruct (lim =? -1); rewrite app_nil_r; reflexivity.
  - cbn [grange]. rewrite (Hbody i x s HP).
    pose proof (zlen_nonneg' (get s)) as Hge.
    destruct (negb (lim =? -1) && (lim <=? zlen (get s))) eqn:Hstop; cbn [gbind].
    + exists s. split; [reflexivity|]. split; [exact HP|].
      apply andb_true_iff in Hstop. destruct Hstop as [H1 H2].
      apply negb_true_iff in H1. apply Z.leb_le in H2.
      unfold page_take. rewrite H1.
      replace (Z.to_nat (lim - zlen (get s))) with O by lia.
      cbn [firstn]. rewrite app_nil_r. reflexivity.
    + destruct (keep x) eqn:Hk.
      * destruct (Hupd s x HP) as [HP' Hget].
        destruct (IH (i + 1) (upd s x) HP') as [s' [Hg [HPs Hgs]]].
        exists s'. split; [exact Hg|]. split; [exact HPs|].
        rewrite Hgs, Hget, zlen_app1, <- app_assoc. f_equal.
        unfold page_take. cbn [filter]. rewrite Hk.
        destruct (lim =? -1) eqn:Hl; [reflexivity|].
        cbn [negb andb] in Hstop. apply Z.leb_gt in Hstop.
        replace (Z.to_nat (lim - zlen (get s))) with (Datatypes.S (Z.to_nat (lim - (zlen (get s) + 1)))) by lia.
        reflexivity.
      * destruct (IH (i + 1) s HP) as [s' [Hg [HPs Hgs]]].
        exists s'. split; [exact Hg|]. split; [exact HPs|].
        rewrite Hgs. unfold page_take. cbn [filter]. rewrite Hk. reflexivity.
Qed.

(** the loop's result from an empty accumulator is the specification's page *)
Lemma page_take_spec : forall {A} (keep : A -> bool) lim (l : list A),
  page_take keep lim 0 l =
  if 0 <? lim then firstn (Z.to_nat lim) (filter keep l) else if lim =? -1 then filter keep l else [].
Proof.
  intros A keep lim l. unfold page_take. rewrite Z.sub_0_r.
  destruct (0 <? lim) eqn:H0.
  - apply Z.ltb_lt in H0. replace (lim =? -1) with false by lia. reflexivity.
  - apply Z.ltb_ge in H0. destruct (lim =? -1); [reflexivity|].
    replace (Z.to_nat lim) with O by lia. reflexivity.
Qed.

(** ---- proofs that do not depend on the way the Go source writes its tests ----

    The theorem below is re-checked against a fresh translation of tx_bptree.go on every
    change.  It must fail when the behaviour of pageEntries changes and only then, so it
    never mentions the shape of a condition, a generated name (t1, lo2, st3), the order of
    independent statements or the components of a loop state:
    - [go_case] picks an [if] of the goal whose test is closed and case-splits on one of its
      ATOMIC tests (descending through [&&], [||], [negb]); [go_cases] repeats this and lets
      [lia] (with ZifyBool: it reads [a <? b = true], [negb], ... directly) discard the
      impossible combinations.  [len(x) == 0] against [len(x) < 1], [a < b] against [b > a],
      operand order, negated tests with exchanged branches all end in the same leaves;
    - the loop lemma [grange_page_sem] is generic in the body and in the loop state: it asks,
      for every element and state, that the body yields a break or a next state whose
      collected list is the expected one — proved by [go_cases], whatever the nesting of the
      tests, early [continue]s or temporaries;
    - the projection of the collected list out of the loop state and the invariant on the
      other components (the regexp travels in the state) are computed from the TYPE of the
      state ([mk_get], [mk_inv]). *)
Ltac bool_atom c :=
  lazymatch c with
  | andb ?a ?b => first [bool_atom a | bool_atom b]
  | orb ?a ?b => first [bool_atom a | bool_atom b]
  | negb ?a => bool_atom a
  | true => fail
  | false => fail
  | context [if ?d then _ else _] => bool_atom d
  | _ => destruct c eqn:?
  end.

Ltac go_simpl := cbn [andb orb negb gbind fst snd rx_is_nil grx_match err_is_nil app].

Ltac go_case :=
  match goal with
  | |- context [if ?c then _ else _] => bool_atom c; go_simpl
  end.

Ltac go_cases := repeat (go_case; try (exfalso; first [lia | congruence])).

Lemma zlen_cons1 : forall {A} (x : A) l, zlen (x :: l) = zlen l + 1.
Proof. intros A x l. unfold zlen. cbn [length]. lia. Qed.

(** l[lo:hi] with hi = len(l) *)
Lemma gslice_tail' : forall {A} (l : list A) o h, 0 <= o <= zlen l -> h = zlen l ->
  gslice l o h = GOk (skipn (Z.to_nat o) l).
Proof. intros A l o h Ho Hh. subst h. apply gslice_tail. exact Ho. Qed.

(** make(T, 0) *)
Lemma gmake_0 : forall {A} (z : A), gmake z 0 = GOk [].
Proof. reflexivity. Qed.

(** the loop stops: a limit is set and reached *)
Definition page_stop (lim have : Z) : bool := negb (lim =? -1) && (lim <=? have).

(** what one round of the loop may do, in terms of the collected list [get s] only: break
    (or go on with the collected list unchanged) once the limit is reached, otherwise go on
    with the element appended when [keep] holds and with the collected list unchanged when not *)
Definition page_step_ok {A S R} (get : S -> list A) (P : S -> Prop) (keep : A -> bool) (lim : Z)
           (x : A) (s : S) (b : lstep S R) : Prop :=
  match b with
  | LBreak s' => page_stop lim (zlen (get s)) = true /\ P s' /\ get s' = get s
  | LNext s' => P s' /\ get s' = (if page_stop lim (zlen (get s)) then get s
                                  else if keep x then get s ++ [x] else get s)
  | LRet _ => False
  end.

Lemma grange_page_sem {A S R} (body : Z -> A -> S -> gres (lstep S R))
      (get : S -> list A) (P : S -> Prop) (keep : A -> bool) (lim : Z) :
  forall l i s,
  (forall k x s, nth_error l k = Some x -> P s ->
     exists b, body (i + Z.of_nat k) x s = GOk b /\ page_step_ok get P keep lim x s b) ->
  P s ->
    exists s', grange body i l s = GOk (inl s') /\ P s' /\
               get s' = get s ++ page_take keep lim (zlen (get s)) l.
Proof.
  induction l as [|x r IH]; intros i s Hbody HP.
  - exists s. cbn [grange]. split; [reflexivity|]. split; [exact HP|].
    unfold page_take. cbn [filter]. rewrite firstn_nil. destruct (lim =? -1); rewrite app_nil_r; reflexivity.
  - cbn [grange]. destruct (Hbody O x s eq_refl HP) as [b [Hb Hok]].
    replace (i + Z.of_nat 0) with i in Hb by lia. rewrite Hb. cbn [gbind].
    assert (Hbody' : forall k y s0, nth_error r k = Some y -> P s0 ->
              exists b0, body (i + 1 + Z.of_nat k) y s0 = GOk b0 /\ page_step_ok get P keep lim y s0 b0).
    { intros k y s0 Hk HP0. replace (i + 1 + Z.of_nat k) with (i + Z.of_nat (Datatypes.S k)) by lia.
      apply Hbody; [exact Hk|exact HP0]. }
    pose proof (zlen_nonneg' (get s)) as Hge.
    assert (Hstop : page_stop lim (zlen (get s)) = true ->
                    page_take keep lim (zlen (get s)) (x :: r) = [] /\
                    page_take keep lim (zlen (get s)) r = []).
    { unfold page_stop, page_take. intros Hs. apply andb_true_iff in Hs. destruct Hs as [H1 H2].
      apply negb_true_iff in H1. apply Z.leb_le in H2. rewrite H1.
      replace (Z.to_nat (lim - zlen (get s))) with O by lia. split; reflexivity. }
    destruct b as [s1|s1|rv]; cbn [page_step_ok] in Hok.
    + (* next *)
      destruct Hok as [HP1 Hget1].
      destruct (IH (i + 1) s1 Hbody' HP1) as [s' [Hg [HPs Hgs]]].
      exists s'. split; [exact Hg|]. split; [exact HPs|]. rewrite Hgs, Hget1.
      destruct (page_stop lim (zlen (get s))) eqn:Hs.
      * destruct (Hstop eq_refl) as [E1 E2]. rewrite E1, E2. reflexivity.
      * unfold page_take. cbn [filter]. destruct (keep x) eqn:Hk; [|reflexivity].
        rewrite zlen_app1, <- app_assoc. f_equal.
        destruct (lim =? -1) eqn:Hl; [reflexivity|].
        unfold page_stop in Hs. rewrite Hl in Hs. cbn [negb andb] in Hs. apply Z.leb_gt in Hs.
        replace (Z.to_nat (lim - zlen (get s))) with (Datatypes.S (Z.to_nat (lim - (zlen (get s) + 1)))) by lia.
        reflexivity.
    + (* break *)
      destruct Hok as [Hs [HP1 Hget1]]. exists s1. split; [reflexivity|]. split; [exact HP1|].
      destruct (Hstop Hs) as [E1 _]. rewrite E1, app_nil_r. exact Hget1.
    + contradiction.
Qed.

(** l[i] at a position known to hold x (a loop written [for i := range l { x := l[i]; ... }]) *)
Lemma gidx_nth {A} (l : list A) k x : nth_error l k = Some x -> gidx l (0 + Z.of_nat k) = GOk x.
Proof.
  intros H. unfold gidx. assert (Hlt : (k < List.length l)%nat) by (apply nth_error_Some; congruence).
  replace ((0 <=? 0 + Z.of_nat k) && (0 + Z.of_nat k <? zlen l)) with true
    by (symmetry; apply andb_true_intro; split; [apply Z.leb_le|apply Z.ltb_lt]; unfold zlen; lia).
  replace (Z.to_nat (0 + Z.of_nat k)) with k by lia. rewrite H. reflexivity.
Qed.

(** the component of a loop state that holds the collected entries, and the invariant "every
    component that is a regexp is [rgx]", from the type of the state *)
Ltac mk_get S :=
  match S with
  | list go_Entry => constr:(fun s : S => s)
  | (?A * ?B)%type => let g := mk_get A in constr:(fun s : S => g (fst s))
  | (?A * ?B)%type => let g := mk_get B in constr:(fun s : S => g (snd s))
  end.

Ltac mk_inv S rgx :=
  lazymatch S with
  | option (bytes -> bool) => constr:(fun s : S => s = rgx)
  | (?A * ?B)%type => let a := mk_inv A rgx in let b := mk_inv B rgx in
                      constr:(fun s : S => a (fst s) /\ b (snd s))
  | _ => constr:(fun _ : S => True)
  end.

Ltac split_state :=
  repeat match goal with p : (_ * _)%type |- _ => destruct p end;
  cbn [fst snd] in *;
  repeat match goal with H : _ /\ _ |- _ => destruct H end.

Ltac finish_props :=
  repeat match goal with
         | |- _ /\ _ => split
         | |- True => exact I
         end;
  first [reflexivity | lia | congruence].

(** the result of the function from the collected list *)
Definition page_out (es : list go_Entry) (o : Z) (nf : gerr) : list go_Entry * Z * gerr :=
  match es with [] => ([], o, nf) | e :: l => (e :: l, o, ENil) end.

(** lengths are non-negative: known to [lia] for every list variable *)
Ltac pose_zlen :=
  repeat match goal with
         | l : list ?A |- _ =>
             lazymatch goal with
             | _ : 0 <= zlen l |- _ => fail
             | _ => pose proof (zlen_nonneg' l)
             end
         end.

(** a list variable whose length is 0 (however the source tests it) is [[]] *)
Ltac lists_nil :=
  pose_zlen;
  repeat match goal with
         | l : list _ |- _ =>
             let H := fresh in
             let x0 := fresh "x" in
             let l0 := fresh "l" in
             assert (H : zlen l = 0) by lia;
             destruct l as [|x0 l0];
             [clear H | exfalso; pose proof (zlen_nonneg' l0); rewrite zlen_cons1 in H; lia]
         end.

(** the loop of pageEntries, its slice and what follows it, for a goal
    [... all[o:] ... = GOk (page_out (page_take keep lim 0 (skipn coff all)) coff nf)] *)
Ltac page_main all prefix rgx off lim nf :=
  (* all[off:] *)
  (match goal with |- context [gslice all ?o ?h] =>
     replace (Z.min (Z.max off 0) (zlen all)) with o by lia;
     rewrite (gslice_tail' all o h) by lia
   end);
  go_simpl;
  (* the loop *)
  (match goal with
   | |- context [grange ?bd ?ix ?ls ?st0] =>
       let S := type of st0 in
       let g := mk_get S in
       let p := mk_inv S rgx in
       let s' := fresh "s'" in
       let Hg := fresh "Hg" in
       let HP := fresh "HP" in
       let Hget := fresh "Hget" in
       destruct (grange_page_sem bd g p (rx_ok rgx prefix) lim ls ix st0)
         as [s' [Hg [HP Hget]]];
       [ let i := fresh "i" in let x := fresh "x" in let s := fresh "s" in let Hs := fresh "Hs" in
         let m := fresh "m" in let Hi := fresh "Hi" in
         intros i x s Hi Hs; rewrite ?(gidx_nth _ _ _ Hi); go_simpl;
         cbv beta in Hs |- *; unfold page_step_ok, page_stop, rx_ok;
         split_state; subst;
         pose proof (zlen_nonneg' (A:=go_Entry));
         destruct rgx as [m|]; go_simpl;
         [ destruct (m (trim_prefix (Entry_Key x) prefix)) eqn:? | ];
         go_cases;
         (eexists; split; [reflexivity|]); cbv beta iota; go_simpl; finish_props
       | cbv beta; cbn [fst snd]; finish_props
       | rewrite Hg; clear Hg;
         (* the result *)
         go_simpl; cbv beta in HP, Hget; split_state;
         change (zlen (@nil go_Entry)) with 0 in *; cbn [app] in *; subst;
         unfold page_out;
         (match goal with |- context [page_take ?k ?l ?h ?r] =>
            let e0 := fresh "e" in let r0 := fresh "r" in
            destruct (page_take k l h r) as [|e0 r0]; [| pose proof (zlen_nonneg' r0)] end);
         rewrite ?zlen_cons1, ?zlen_nil_0;
         go_cases;
         first [ reflexivity | destruct nf; cbn [err_is_nil] in *; first [discriminate | reflexivity] ] ]
   end).

(** a return before the loop (a fast path for a case in which the page is known to be empty) *)
Ltac page_early :=
  lists_nil; change (zlen (@nil go_Entry)) with 0 in *;
  rewrite page_take_spec; rewrite ?skipn_nil; cbn [filter]; rewrite ?firstn_nil;
  unfold page_out; go_cases; cbv beta iota;
  repeat f_equal; lia.

Theorem go_pageEntries_eq : forall all prefix rgx off lim nf,
  go_pageEntries all prefix rgx off lim nf =
  GOk (match fst (page_spec all prefix rgx off lim) with
       | [] => ([], snd (page_spec all prefix rgx off lim), nf)
       | es => (es, snd (page_spec all prefix rgx off lim), ENil)
       end).
Proof.
  intros all prefix rgx off lim nf.
  pose proof (zlen_nonneg' all) as Hall.
  unfold page_spec. cbv zeta. cbn [fst snd]. rewrite <- page_take_spec.
  change (go_pageEntries all prefix rgx off lim nf =
          GOk (page_out (page_take (rx_ok rgx prefix) lim 0
                           (skipn (Z.to_nat (Z.min (Z.max off 0) (zlen all))) all))
                        (Z.min (Z.max off 0) (zlen all)) nf)).
  unfold go_pageEntries. cbv zeta. rewrite ?gmake_0.
  (* the clamps of the offset: every closed test before the loop *)
  go_cases;
  lazymatch goal with
  | |- context [grange _ _ _ _] => page_main all prefix rgx off lim nf
  | _ => page_early
  end.
Qed.
Print Assumptions go_pageEntries_eq.

(** the remainder handed to the regular expression is the key without the prefix *)
Lemma trim_prefix_skipn : forall k p, has_prefix k p = true -> trim_prefix k p = skipn (length p) k.
Proof.
  intros k p H. unfold trim_prefix. rewrite H. reflexivity.
Qed.
Print Assumptions trim_prefix_skipn.

(** ---- the plain prefix scan (no regular expression) ---- *)
Lemma filter_rx_none : forall prefix (l : list go_Entry), filter (rx_ok None prefix) l = l.
Proof.
  intros prefix l. induction l as [|x r IH]; [reflexivity|].
  cbn [filter rx_ok]. f_equal. exact IH.
Qed.

Lemma page_spec_none : forall all prefix off lim,
  fst (page_spec all prefix None off lim) =
  let rest := skipn (Z.to_nat (Z.min (Z.max off 0) (zlen all))) all in
  if 0 <? lim then firstn (Z.to_nat lim) rest else if lim =? -1 then rest else [].
Proof.
  intros. unfold page_spec. cbv zeta. cbn [fst]. rewrite filter_rx_none. reflexivity.
Qed.

Lemma go_pageEntries_fst : forall all prefix rgx off lim nf,
  match go_pageEntries all prefix rgx off lim nf with GOk (es, _, _) => es | _ => [] end =
  fst (page_spec all prefix rgx off lim).
Proof.
  intros. rewrite go_pageEntries_eq. destruct (fst (page_spec all prefix rgx off lim)); reflexivity.
Qed.

(** paging never reports "not found" while unreturned live keys remain (plain prefix scan, limit > 0 or no limit) *)
Theorem go_pageEntries_progress : forall all prefix off lim nf,
  (0 < lim \/ lim = -1) -> Z.max off 0 < zlen all ->
  exists es o, go_pageEntries all prefix None off lim nf = GOk (es, o, ENil) /\ es <> [].
Proof.
  intros all prefix off lim nf Hlim Hoff.
  rewrite go_pageEntries_eq.
  assert (Hne : fst (page_spec all prefix None off lim) <> []).
  { rewrite page_spec_none. cbv zeta.
    set (c := Z.min (Z.max off 0) (zlen all)).
    assert (Hc : (Z.to_nat c < length all)%nat) by (unfold zlen in *; lia).
    destruct (skipn (Z.to_nat c) all) as [|x r] eqn:Hs.
    - apply (f_equal (@length _)) in Hs. rewrite skipn_length in Hs. cbn [length] in Hs. lia.
    - destruct Hlim as [Hl|Hl].
      + replace (0 <? lim) with true by lia.
        replace (Z.to_nat lim) with (Datatypes.S (Z.to_nat (lim - 1))) by lia.
        cbn [firstn]. discriminate.
      + subst lim. cbn. discriminate. }
  destruct (fst (page_spec all prefix None off lim)) as [|e es] eqn:He; [contradiction|].
  eexists. eexists. split; [reflexivity|]. discriminate.
Qed.
Print Assumptions go_pageEntries_progress.

Lemma firstn_add' : forall {A} a b (l : list A),
  firstn (a + b) l = firstn a l ++ firstn b (skipn a l).
Proof.
  intros A a. induction a as [|a IH]; intros b l.
  - reflexivity.
  - destruct l as [|x l].
    + cbn [plus firstn skipn app]. rewrite firstn_nil. reflexivity.
    + cbn [plus firstn skipn app]. rewrite IH. reflexivity.
Qed.

Lemma concat_pages' : forall {A} (m n : nat) (L : list A),
  concat (map (fun i => firstn m (skipn (i * m) L)) (seq 0 n)) = firstn (n * m) L.
Proof.
  intros A m n L. induction n as [|n IH].
  - reflexivity.
  - rewrite seq_S, map_app, concat_app, IH. cbn [map concat plus].
    rewrite app_nil_r. replace (Datatypes.S n * m)%nat with (n * m + m)%nat by lia.
    rewrite firstn_add'. reflexivity.
Qed.

Lemma skipn_min_length' : forall {A} (a : nat) (L : list A),
  skipn (Nat.min a (length L)) L = skipn a L.
Proof.
  intros A a L. destruct (Nat.le_gt_cases a (length L)) as [H|H].
  - rewrite Nat.min_l by exact H. reflexivity.
  - rewrite Nat.min_r by lia. rewrite skipn_all. rewrite skipn_all2 by lia. reflexivity.
Qed.

(** concatenating the pages offset = 0, lim, 2*lim, ... enumerates [all] (plain prefix scan) *)
Theorem go_pageEntries_pages_enumerate : forall all prefix lim nf n,
  0 < lim -> Z.of_nat n * lim >= zlen all ->
  concat (map (fun i => match go_pageEntries all prefix None (Z.of_nat i * lim) lim nf with
                        | GOk (es, _, _) => es | _ => [] end) (seq 0 n)) = all.
Proof.
  intros all prefix lim nf n Hl Hn.
  rewrite (map_ext _ (fun i => firstn (Z.to_nat lim) (skipn (i * Z.to_nat lim) all))).
  - rewrite concat_pages'. apply firstn_all2. unfold zlen in Hn. nia.
  - intros i. rewrite go_pageEntries_fst, page_spec_none. cbv zeta.
    replace (0 <? lim) with true by lia.
    replace (Z.to_nat (Z.min (Z.max (Z.of_nat i * lim) 0) (zlen all)))
      with (Nat.min (i * Z.to_nat lim) (length all)) by (unfold zlen; nia).
    rewrite skipn_min_length'. reflexivity.
Qed.
Print Assumptions go_pageEntries_pages_enumerate.
