(** Theorems about the Gallina translation of the WRITE CALLS OF THE SORTED SET
    in the transaction layer of /repo (tx_zset.go ZRem, ZRemRangeByRank, on top
    of tx.go put / checkTxIsClosed), re-translated on every run into
    generated/GoTxZ.v (which names the translated ds/zset types for the field
    DB.SortedSetIdx).

    The model's [do_op] answers [OZRem b k] with
      match alookup (ix_zset ix) b with None => RErr
      | Some _ => tx_put t b k [] 0 F_ZRem now DS_ZSet end
    and [OZRemRangeByRank b s e] with the same shape, key [print_Z s], value
    [print_Z e], flag [F_ZRemRange].  The theorems below say that the Go code
    is exactly that: no panic, the bucket test is the presence test on
    DB.SortedSetIdx, and on success ONE record with the model's fields is
    appended to the pending writes while tx.db (every index) is left
    untouched; on every error the transaction object is unchanged. *)
From Coq Require Import ZArith List Lia Bool Strings.String.
From Verif Require Import Bytes Codec Dec Engine.
From VerifGo Require Import GoSem.
From VerifGen Require GoList GoSet GoZSet.
From VerifGen Require Import GoTxZ.
Import ListNotations.
Open Scope Z_scope.

Definition entry_of (e : go_Entry) : entry :=
  let m := Entry_Meta e in
  mkEntry (MetaData_bucket m) (Entry_Key e) (Entry_Value e)
          (Z.to_N (MetaData_timestamp m)) (Z.to_N (MetaData_TTL m)) (Z.to_N (MetaData_Flag m))
          (Z.to_N (MetaData_status m)) (Z.to_N (MetaData_ds m)) (Z.to_N (MetaData_txID m)).

Definition entry_sized (e : go_Entry) : Prop :=
  let m := Entry_Meta e in
  MetaData_keySize m = zlen (Entry_Key e) /\ MetaData_valueSize m = zlen (Entry_Value e) /\
  MetaData_bucketSize m = zlen (MetaData_bucket m).

(** the Go transaction [g] stands for model transaction [t]; [zhas] is the
    presence test of the model's sorted-set index *)
Definition txz_abs (g : go_Tx) (zhas : bytes -> bool) (t : txstate) : Prop :=
  Tx_db_isnil g = false /\
  Tx_writable g = tx_w t /\
  Tx_id g = Z.of_N (tx_id t) /\
  map entry_of (Tx_pendingWrites g) = tx_pend t /\ Forall entry_sized (Tx_pendingWrites g) /\
  (forall b, has_key (DB_SortedSetIdx (Tx_db g)) b = zhas b).

Definition err_of_res (e : gerr) (r : res) : Prop :=
  match r with ROk => e = ENil | RErr => e <> ENil | _ => False end.

Definition arg_ok (b : bytes) : Prop := zlen b < 2 ^ 32.
Definition now_ok (now : Z) : Prop := 0 <= now < 2 ^ 63.

Lemma zlen_nonneg : forall (b : bytes), 0 <= zlen b.
Proof. intros b. unfold zlen. lia. Qed.

Lemma zlen_zero_nil : forall (b : bytes), (zlen b =? 0) = true -> b = [].
Proof.
  intros b H. apply Z.eqb_eq in H. unfold zlen in H. destruct b as [|x r]; [reflexivity|].
  cbn [length] in H. lia.
Qed.

Lemma zlen_nonzero_cons : forall (b : bytes), (zlen b =? 0) = false -> exists x r, b = x :: r.
Proof.
  intros b H. destruct b as [|x r]; [|eauto]. cbn in H. discriminate.
Qed.

Lemma wrapU_small : forall bits z, 0 <= z < 2 ^ bits -> wrapU bits z = z.
Proof. intros bits z H. unfold wrapU. apply Z.mod_small. exact H. Qed.

(** closed transaction: every call returns an error and changes nothing *)
Lemma go_Tx_checkTxIsClosed_open : forall g, Tx_db_isnil g = false -> go_Tx_checkTxIsClosed g = GOk (g, ENil).
Proof. intros g H. unfold go_Tx_checkTxIsClosed. rewrite H. reflexivity. Qed.

Lemma go_Tx_checkTxIsClosed_closed : forall g, Tx_db_isnil g = true ->
  go_Tx_checkTxIsClosed g = GOk (g, EVar "ErrTxClosed"%string).
Proof. intros g H. unfold go_Tx_checkTxIsClosed. rewrite H. reflexivity. Qed.

(** Tx.put, as a function: which error, which record *)
Lemma go_Tx_put_open : forall g b k v ttl flag ts ds, Tx_db_isnil g = false ->
  go_Tx_put g b k v ttl flag ts ds =
    if negb (Tx_writable g) then GOk (g, EVar "ErrTxNotWritable"%string)
    else if zlen k =? 0 then GOk (g, EVar "ErrKeyEmpty"%string)
    else GOk (set_Tx_pendingWrites g (Tx_pendingWrites g ++
           [mk_go_Entry k v (mk_go_MetaData (wrapU 32 (zlen k)) (wrapU 32 (zlen v)) ts ttl flag b
                                            (wrapU 32 (zlen b)) (Tx_id g) 0 ds) 0 0]), ENil).
Proof.
  intros g b k v ttl flag ts ds H. unfold go_Tx_put.
  rewrite (go_Tx_checkTxIsClosed_open g H). cbn [gbind err_is_nil negb].
  destruct (Tx_writable g); cbn [negb]; [|reflexivity].
  destruct (zlen k =? 0); reflexivity.
Qed.

Lemma go_Tx_put_closed : forall g b k v ttl flag ts ds, Tx_db_isnil g = true ->
  go_Tx_put g b k v ttl flag ts ds = GOk (g, EVar "ErrTxClosed"%string).
Proof.
  intros g b k v ttl flag ts ds H. unfold go_Tx_put.
  rewrite (go_Tx_checkTxIsClosed_closed g H). reflexivity.
Qed.

(** Tx.put against the model's [tx_put] *)
Lemma go_Tx_put_abs : forall g zhas t b k v ttl flag ts ds, txz_abs g zhas t ->
  arg_ok b -> arg_ok k -> arg_ok v -> 0 <= ttl -> 0 <= flag -> 0 <= ts -> 0 <= ds ->
  exists g' e,
    go_Tx_put g b k v ttl flag ts ds = GOk (g', e) /\
    txz_abs g' zhas (fst (tx_put t b k v (Z.to_N ttl) (Z.to_N flag) (Z.to_N ts) (Z.to_N ds))) /\
    Tx_db g' = Tx_db g /\
    (e <> ENil -> g' = g) /\
    err_of_res e (snd (tx_put t b k v (Z.to_N ttl) (Z.to_N flag) (Z.to_N ts) (Z.to_N ds))).
Proof.
  intros g zhas t b k v ttl flag ts ds Habs Hb Hk Hv Httl Hflag Hts Hds.
  pose proof Habs as Habs0.
  destruct Habs as (Hnil & Hw & Hid & Hpend & Hsized & Hz).
  rewrite (go_Tx_put_open g b k v ttl flag ts ds Hnil). unfold tx_put. rewrite <- Hw.
  destruct (Tx_writable g) eqn:Hwr; cbn [negb].
  2:{ exists g, (EVar "ErrTxNotWritable"%string). cbn [fst snd err_of_res].
      split; [reflexivity|]. split; [exact Habs0|]. split; [reflexivity|]. split; [reflexivity|]. discriminate. }
  destruct (zlen k =? 0) eqn:Hk0.
  - apply zlen_zero_nil in Hk0. subst k.
    exists g, (EVar "ErrKeyEmpty"%string). cbn [fst snd err_of_res].
    split; [reflexivity|]. split; [exact Habs0|]. split; [reflexivity|]. split; [reflexivity|]. discriminate.
  - destruct (zlen_nonzero_cons k Hk0) as (x & r & Hkx). rewrite Hkx. rewrite <- Hkx.
    eexists. exists ENil. split; [reflexivity|]. cbn [fst snd err_of_res].
    split; [|split; [reflexivity|split; [intros HH; contradiction HH; reflexivity|reflexivity]]].
    unfold txz_abs, set_Tx_pendingWrites.
    cbn [Tx_db_isnil Tx_writable Tx_id Tx_pendingWrites Tx_db fst snd tx_w tx_id tx_pend].
    pose proof (zlen_nonneg b). pose proof (zlen_nonneg k). pose proof (zlen_nonneg v).
    repeat split; try assumption.
    + rewrite map_app, Hpend. cbn [map]. unfold entry_of, mk_entry. cbn.
      rewrite Hid, N2Z.id. reflexivity.
    + apply Forall_app. split; [assumption|]. constructor; [|constructor].
      unfold entry_sized. cbn. unfold arg_ok in *.
      rewrite !wrapU_small by lia. repeat split; reflexivity.
Qed.

(* ---------------------------------------------------------------------- *)
(** * ZRem                                                                 *)

Theorem go_Tx_ZRem_fun : forall now g b k,
  go_Tx_ZRem now g b k =
    if Tx_db_isnil g then GOk (g, EVar "ErrTxClosed"%string)
    else if negb (has_key (DB_SortedSetIdx (Tx_db g)) b) then GOk (g, EVar "ErrBucket"%string)
    else go_Tx_put g b k [] 0 10 (wrapU 64 now) 1.
Proof.
  intros now g b k. unfold go_Tx_ZRem.
  destruct (Tx_db_isnil g) eqn:Hnil.
  - rewrite (go_Tx_checkTxIsClosed_closed g Hnil). reflexivity.
  - rewrite (go_Tx_checkTxIsClosed_open g Hnil). cbn [gbind err_is_nil negb gnonnil].
    destruct (has_key (DB_SortedSetIdx (Tx_db g)) b); cbn [negb]; [|reflexivity].
    change (bs ""%string) with (@nil Byte.byte).
    destruct (go_Tx_put g b k [] 0 10 (wrapU 64 now) 1) as [[g' e]| |]; reflexivity.
Qed.

Theorem go_Tx_ZRem_eq : forall now g zhas t b k, txz_abs g zhas t -> now_ok now -> arg_ok b -> arg_ok k ->
  let mr := if zhas b then tx_put t b k [] 0 F_ZRem (Z.to_N now) DS_ZSet else (t, RErr) in
  exists g' e,
    go_Tx_ZRem now g b k = GOk (g', e) /\
    txz_abs g' zhas (fst mr) /\ Tx_db g' = Tx_db g /\ (e <> ENil -> g' = g) /\ err_of_res e (snd mr).
Proof.
  intros now g zhas t b k Habs Hnow Hb Hk mr. subst mr.
  rewrite go_Tx_ZRem_fun. pose proof Habs as (Hnil & _ & _ & _ & _ & Hz).
  rewrite Hnil, Hz. destruct (zhas b); cbn [negb].
  - unfold now_ok in Hnow. rewrite wrapU_small by lia.
    assert (Hv : arg_ok []) by (unfold arg_ok; cbn; lia).
    destruct (go_Tx_put_abs g zhas t b k [] 0 10 now 1 Habs Hb Hk Hv) as (g' & e & H1 & H2 & H3 & H4 & H5); try lia.
    exists g', e. split; [exact H1|]. split; [exact H2|]. split; [exact H3|]. split; [exact H4|exact H5].
  - exists g, (EVar "ErrBucket"%string). cbn [fst snd err_of_res].
    split; [reflexivity|]. split; [exact Habs|]. split; [reflexivity|]. split; [reflexivity|]. discriminate.
Qed.

(** finished transaction: error, nothing changes (C12) *)
Theorem go_Tx_ZRem_closed : forall now g b k, Tx_db_isnil g = true ->
  exists e, go_Tx_ZRem now g b k = GOk (g, e) /\ e <> ENil.
Proof.
  intros now g b k H. rewrite go_Tx_ZRem_fun, H. eexists. split; [reflexivity|discriminate].
Qed.

(* ---------------------------------------------------------------------- *)
(** * ZRemRangeByRank                                                      *)

Theorem go_Tx_ZRemRangeByRank_fun : forall now g b s e,
  go_Tx_ZRemRangeByRank now g b s e =
    if Tx_db_isnil g then GOk (g, EVar "ErrTxClosed"%string)
    else if negb (has_key (DB_SortedSetIdx (Tx_db g)) b) then GOk (g, EVar "ErrBucket"%string)
    else go_Tx_put g b (print_Z s) (print_Z e) 0 11 (wrapU 64 now) 1.
Proof.
  intros now g b s e. unfold go_Tx_ZRemRangeByRank.
  destruct (Tx_db_isnil g) eqn:Hnil.
  - rewrite (go_Tx_checkTxIsClosed_closed g Hnil). reflexivity.
  - rewrite (go_Tx_checkTxIsClosed_open g Hnil). cbn [gbind err_is_nil negb gnonnil].
    destruct (has_key (DB_SortedSetIdx (Tx_db g)) b); cbn [negb]; [|reflexivity].
    destruct (go_Tx_put g b (print_Z s) (print_Z e) 0 11 (wrapU 64 now) 1) as [[g' e']| |]; reflexivity.
Qed.

Theorem go_Tx_ZRemRangeByRank_eq : forall now g zhas t b s e, txz_abs g zhas t -> now_ok now -> arg_ok b ->
  arg_ok (print_Z s) -> arg_ok (print_Z e) ->
  let mr := if zhas b then tx_put t b (print_Z s) (print_Z e) 0 F_ZRemRange (Z.to_N now) DS_ZSet else (t, RErr) in
  exists g' er,
    go_Tx_ZRemRangeByRank now g b s e = GOk (g', er) /\
    txz_abs g' zhas (fst mr) /\ Tx_db g' = Tx_db g /\ (er <> ENil -> g' = g) /\ err_of_res er (snd mr).
Proof.
  intros now g zhas t b s e Habs Hnow Hb Hs He mr. subst mr.
  rewrite go_Tx_ZRemRangeByRank_fun. pose proof Habs as (Hnil & _ & _ & _ & _ & Hz).
  rewrite Hnil, Hz. destruct (zhas b); cbn [negb].
  - unfold now_ok in Hnow. rewrite wrapU_small by lia.
    destruct (go_Tx_put_abs g zhas t b (print_Z s) (print_Z e) 0 11 now 1 Habs Hb Hs He) as (g' & er & H1 & H2 & H3 & H4 & H5); try lia.
    exists g', er. split; [exact H1|]. split; [exact H2|]. split; [exact H3|]. split; [exact H4|exact H5].
  - exists g, (EVar "ErrBucket"%string). cbn [fst snd err_of_res].
    split; [reflexivity|]. split; [exact Habs|]. split; [reflexivity|]. split; [reflexivity|]. discriminate.
Qed.

Theorem go_Tx_ZRemRangeByRank_closed : forall now g b s e, Tx_db_isnil g = true ->
  exists er, go_Tx_ZRemRangeByRank now g b s e = GOk (g, er) /\ er <> ENil.
Proof.
  intros now g b s e H. rewrite go_Tx_ZRemRangeByRank_fun, H. eexists. split; [reflexivity|discriminate].
Qed.

(* ---------------------------------------------------------------------- *)
(** * ZMembers, ZCard: reads of the bucket's dictionary; the object is unchanged *)

Theorem go_Tx_ZMembers_fun : forall g b,
  go_Tx_ZMembers g b =
    if Tx_db_isnil g then GOk (g, ([], EVar "ErrTxClosed"%string))
    else match alookup (DB_SortedSetIdx (Tx_db g)) b with
         | None => GOk (g, ([], EVar "ErrBucket"%string))
         | Some ss => GOk (g, (GoZSet.SortedSet_Dict ss, ENil))
         end.
Proof.
  intros g b. unfold go_Tx_ZMembers.
  destruct (Tx_db_isnil g) eqn:Hnil.
  - rewrite (go_Tx_checkTxIsClosed_closed g Hnil). reflexivity.
  - rewrite (go_Tx_checkTxIsClosed_open g Hnil). cbn [gbind err_is_nil negb gnonnil].
    unfold has_key, lookup0.
    destruct (alookup (DB_SortedSetIdx (Tx_db g)) b); reflexivity.
Qed.

Theorem go_Tx_ZCard_fun : forall g b,
  go_Tx_ZCard g b =
    if Tx_db_isnil g then GOk (g, (0, EVar "ErrTxClosed"%string))
    else match alookup (DB_SortedSetIdx (Tx_db g)) b with
         | None => GOk (g, (0, EVar "ErrBucket"%string))
         | Some ss => GOk (g, (zlen (GoZSet.SortedSet_Dict ss), ENil))
         end.
Proof.
  intros g b. unfold go_Tx_ZCard. rewrite go_Tx_ZMembers_fun.
  destruct (Tx_db_isnil g); [reflexivity|].
  destruct (alookup (DB_SortedSetIdx (Tx_db g)) b); reflexivity.
Qed.

(** ZCard is the length of what ZMembers returns, with the same error, and neither changes the transaction *)
Theorem go_Tx_ZCard_ZMembers : forall g b,
  exists m e, go_Tx_ZMembers g b = GOk (g, (m, e)) /\
              go_Tx_ZCard g b = GOk (g, ((if err_is_nil e then zlen m else 0), e)).
Proof.
  intros g b. rewrite go_Tx_ZCard_fun, go_Tx_ZMembers_fun.
  destruct (Tx_db_isnil g); [eexists; eexists; split; reflexivity|].
  destruct (alookup (DB_SortedSetIdx (Tx_db g)) b); eexists; eexists; split; reflexivity.
Qed.
