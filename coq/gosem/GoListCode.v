(** GoListCode.v — consequences of the equivalences GoListFacts / GoListLPush /
    GoListLRem for the translated Go code itself: no call of ds/list panics or
    loops, and LRange / LRem / LTrim computed by the code are the Redis
    functions of ListFacts.v. *)
From Verif Require Import Bytes BytesFacts ListDS ListFacts.
From VerifGo Require Import GoSem GoListFacts GoListLPush GoListLRem.
From VerifGen Require Import GoList.
From Coq Require Import Strings.String Lia.
Open Scope Z_scope.

Lemma code_LRange_redis l key s e lst :
  items_ok l -> int_ok s -> int_ok e -> alookup (List_Items l) key = Some lst ->
  exists g, go_List_LRange l key s e = GOk (l, g) /\
            agrees [] g (match lrange_spec lst s e with Some x => LOk x | None => LErr end).
Proof.
  intros Hl Hs He Hk. destruct (go_LRange_eq l key s e Hl Hs He) as (g & Hg & Ha).
  exists g. split; [exact Hg|]. unfold l_lrange in Ha. rewrite Hk in Ha.
  rewrite lrange_list_spec in Ha. exact Ha.
Qed.

Lemma code_LRange_missing l key s e :
  items_ok l -> int_ok s -> int_ok e -> alookup (List_Items l) key = None ->
  exists g, go_List_LRange l key s e = GOk (l, g) /\ fst g = [] /\ snd g <> ENil.
Proof.
  intros Hl Hs He Hk. destruct (go_LRange_eq l key s e Hl Hs He) as (g & Hg & Ha).
  exists g. split; [exact Hg|]. unfold l_lrange in Ha. rewrite Hk in Ha. exact Ha.
Qed.

Lemma code_LRem_redis fuel l key count v lst :
  items_ok l -> alookup (List_Items l) key = Some lst ->
  - zlen lst <= count <= zlen lst ->
  (2 * Z.to_nat (zlen lst) + 4 <= fuel)%nat ->
  let new := fst (lrem_spec lst count v) in
  let n := snd (lrem_spec lst count v) in
  go_List_LRem fuel l key count v =
  GOk (mk_go_List (if n =? 0 then List_Items l else aset (List_Items l) key new), (n, ENil)).
Proof.
  intros Hl Hk Hc Hf new n.
  assert (Hlen : zlen lst < 2 ^ 62) by (apply (Hl key lst Hk)).
  assert (Hi : int_ok count).
  { unfold int_ok. pose proof (zlen_nonneg lst).
    assert (2 ^ 62 < 2 ^ 63) by (apply Z.pow_lt_mono_r; lia). lia. }
  pose proof (go_LRem_eq fuel l key count v Hl Hi) as H. cbv zeta in H. rewrite Hk in H.
  destruct (H Hf) as (g & Hg & Ha). rewrite Hg. clear H Hg.
  unfold l_lrem in Ha |- *. rewrite Hk in Ha |- *.
  rewrite (lrem_list_spec lst count v Hc) in Ha |- *. cbn [fst snd] in Ha |- *.
  fold new n in Ha |- *. cbn in Ha. subst g. reflexivity.
Qed.

Lemma code_Ltrim_redis l key s e lst :
  items_ok l -> int_ok s -> int_ok e -> alookup (List_Items l) key = Some lst ->
  exists err,
    go_List_Ltrim l key s e =
    GOk (mk_go_List (match lrange_spec lst s e with Some x => aset (List_Items l) key x | None => List_Items l end), err) /\
    (err = ENil <-> lrange_spec lst s e <> None).
Proof.
  intros Hl Hs He Hk. destruct (go_Ltrim_eq l key s e Hl Hs He) as (err & Hg & Hi).
  exists err. unfold l_ltrim in Hg, Hi. rewrite Hk in Hg, Hi. rewrite lrange_list_spec in Hg, Hi.
  destruct (lrange_spec lst s e) as [x|]; cbn [fst snd] in Hg, Hi; split; try exact Hg.
  - split; [intros _; discriminate | intros _; apply Hi; reflexivity].
  - split; [intros E; apply Hi in E; discriminate | intros C; contradiction C; reflexivity].
Qed.

(** no function of ds/list panics or runs out of fuel, whatever the arguments
    (64-bit indexes and counts, lists shorter than 2^62) *)
Definition no_panic {A} (r : gres A) : Prop := exists a, r = GOk a.

Lemma code_no_panic_reads l key s e :
  items_ok l -> int_ok s -> int_ok e ->
  no_panic (go_List_Size l key) /\ no_panic (go_List_LPeek l key) /\ no_panic (go_List_RPeek l key) /\
  no_panic (go_List_LRange l key s e).
Proof.
  intros Hl Hs He. repeat split.
  - rewrite go_Size_eq. eexists; reflexivity.
  - destruct (go_LPeek_eq l key) as (g & H & _). rewrite H. eexists; reflexivity.
  - destruct (go_RPeek_eq l key Hl) as (a & b & c & H & _). rewrite H. eexists; reflexivity.
  - destruct (go_LRange_eq l key s e Hl Hs He) as (g & H & _). rewrite H. eexists; reflexivity.
Qed.

Lemma code_no_panic_writes fuel orc l key vs i v count s e :
  items_ok l -> zlen vs < 2 ^ 62 -> int_ok i -> int_ok count -> int_ok s -> int_ok e ->
  (2 * Z.to_nat (match alookup (List_Items l) key with Some x => zlen x | None => 0 end + zlen vs) + 4 <= fuel)%nat ->
  no_panic (go_List_RPush l key vs) /\ no_panic (go_List_LPush fuel l key vs) /\
  no_panic (go_List_LPop orc l key) /\ no_panic (go_List_RPop l key) /\
  no_panic (go_List_LSet l key i v) /\ no_panic (go_List_Ltrim l key s e) /\
  no_panic (go_List_LRem fuel l key count v).
Proof.
  intros Hl Hvs Hi Hc Hs He Hf.
  pose proof (zlen_nonneg vs) as Hv0.
  assert (Hsz : 0 <= match alookup (List_Items l) key with Some x => zlen x | None => 0 end)
    by (destruct (alookup (List_Items l) key); [apply zlen_nonneg | lia]).
  repeat split.
  - rewrite go_RPush_eq. eexists; reflexivity.
  - rewrite (go_LPush_eq fuel l key vs Hl Hvs); [eexists; reflexivity | cbv zeta; lia].
  - destruct (go_LPop_eq orc l key) as (g & H & _). rewrite H. eexists; reflexivity.
  - destruct (go_RPop_eq l key Hl) as (g & H & _). rewrite H. eexists; reflexivity.
  - rewrite (go_LSet_eq l key i v Hi). eexists; reflexivity.
  - destruct (go_Ltrim_eq l key s e Hl Hs He) as (g & H & _). rewrite H. eexists; reflexivity.
  - pose proof (go_LRem_eq fuel l key count v Hl Hc) as H. cbv zeta in H.
    destruct H as (g & H & _); [lia|]. rewrite H. eexists; reflexivity.
Qed.
