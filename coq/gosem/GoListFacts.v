(** GoListFacts.v — the Gallina translation of /repo/ds/list/list.go (generated
    on every run by /verif/translator into generated/GoList.v) computes exactly
    what the hand-written model ListDS.v says, for every input in the 64-bit
    range; in particular it never panics and never runs out of fuel. *)
From Verif Require Import Bytes BytesFacts ListDS ListFacts.
From VerifGo Require Import GoSem.
From VerifGen Require Import GoList.
From Coq Require Import Strings.String.
From Coq Require Import Lia ZifyBool.
Open Scope Z_scope.

(* ====================================================================== *)
(** * GoSem lemmas

    General-purpose facts about the combinators of GoSem.v; nothing in this
    section mentions the generated file. *)
(* ====================================================================== *)

(** ** 64-bit wrap-around is the identity on in-range values *)

Lemma wrapS64_id z : int_ok z -> wrapS 64 z = z.
Proof.
  unfold int_ok, wrapS. intros H. change (2 ^ (64 - 1)) with 9223372036854775808. change (2 ^ 64) with 18446744073709551616.
  change (2 ^ 63) with 9223372036854775808 in H.
  rewrite Z.mod_small by lia. lia.
Qed.

Lemma int_ok_intro z : - 9223372036854775808 <= z < 9223372036854775808 -> int_ok z.
Proof. unfold int_ok. change (2 ^ 63) with 9223372036854775808. trivial. Qed.

Lemma int_ok_elim z : int_ok z -> - 9223372036854775808 <= z < 9223372036854775808.
Proof. unfold int_ok. change (2 ^ 63) with 9223372036854775808. trivial. Qed.

Lemma iadd_ok a b : - 9223372036854775808 <= a + b < 9223372036854775808 -> iadd a b = a + b.
Proof. intros H. apply wrapS64_id, int_ok_intro, H. Qed.

Lemma isub_ok a b : - 9223372036854775808 <= a - b < 9223372036854775808 -> isub a b = a - b.
Proof. intros H. apply wrapS64_id, int_ok_intro, H. Qed.

Lemma imul_ok a b : - 9223372036854775808 <= a * b < 9223372036854775808 -> imul a b = a * b.
Proof. intros H. apply wrapS64_id, int_ok_intro, H. Qed.

Lemma ineg_ok a : - 9223372036854775808 < a <= 9223372036854775808 -> ineg a = - a.
Proof. intros H. apply wrapS64_id, int_ok_intro. lia. Qed.

(** ** the monad *)

Lemma gbind_ok {A B} (a : A) (f : A -> gres B) : gbind (GOk a) f = f a.
Proof. reflexivity. Qed.

Lemma gbind_assoc {A B C} (m : gres A) (f : A -> gres B) (g : B -> gres C) :
  gbind (gbind m f) g = gbind m (fun a => gbind (f a) g).
Proof. destruct m; reflexivity. Qed.

(** a conditional assignment [if c { x = a }] is a pure choice *)
Lemma gbind_if_ok {A B} (c : bool) (a b : A) (f : A -> gres B) :
  gbind (if c then GOk a else GOk b) f = f (if c then a else b).
Proof. destruct c; reflexivity. Qed.

(** ** lengths *)

Lemma zlen_nil {A} : zlen (@nil A) = 0.
Proof. reflexivity. Qed.

Lemma zlen_cons {A} (x : A) l : zlen (x :: l) = zlen l + 1.
Proof. unfold zlen. cbn [List.length]. lia. Qed.

Lemma zlen_app {A} (a b : list A) : zlen (a ++ b) = zlen a + zlen b.
Proof. unfold zlen. rewrite app_length. lia. Qed.

Lemma zlen_ge0 {A} (l : list A) : 0 <= zlen l.
Proof. unfold zlen. lia. Qed.

(** ** slices: success conditions and values *)

Lemma gidx_ok {A} (l : list A) i x :
  0 <= i -> nth_error l (Z.to_nat i) = Some x -> gidx l i = GOk x.
Proof.
  intros Hi Hn. unfold gidx.
  assert (Hlt : (Z.to_nat i < List.length l)%nat) by (apply nth_error_Some; congruence).
  assert (Hc : (0 <=? i) && (i <? zlen l) = true) by (unfold zlen; lia).
  rewrite Hc, Hn. reflexivity.
Qed.

Lemma gidx_head {A} (x : A) l : gidx (x :: l) 0 = GOk x.
Proof. apply gidx_ok; [lia | reflexivity]. Qed.

Lemma gslice_ok {A} (l : list A) lo hi :
  0 <= lo -> lo <= hi -> hi <= zlen l -> gslice l lo hi = GOk (zslice l lo hi).
Proof.
  intros H1 H2 H3. unfold gslice.
  assert (Hc : (0 <=? lo) && (lo <=? hi) && (hi <=? zlen l) = true) by lia.
  rewrite Hc. reflexivity.
Qed.

Lemma gslice3_ok {A} (l : list A) lo hi mx :
  0 <= lo -> lo <= hi -> hi <= mx -> mx <= zlen l -> gslice3 l lo hi mx = GOk (zslice l lo hi).
Proof.
  intros H1 H2 H3 H4. unfold gslice3.
  assert (Hc : (0 <=? lo) && (lo <=? hi) && (hi <=? mx) && (mx <=? zlen l) = true) by lia.
  rewrite Hc. reflexivity.
Qed.

(** [l[:0:0]], the idiom for "a fresh empty slice" *)
Lemma gslice3_000 {A} (l : list A) : gslice3 l 0 0 0 = GOk [].
Proof. rewrite gslice3_ok by (pose proof (zlen_ge0 l); lia). reflexivity. Qed.

Lemma gupd_ok {A} (l : list A) i v :
  0 <= i -> i < zlen l -> gupd l i v = GOk (upd_nth l (Z.to_nat i) v).
Proof.
  intros H1 H2. unfold gupd.
  assert (Hc : (0 <=? i) && (i <? zlen l) = true) by lia.
  rewrite Hc. reflexivity.
Qed.

Lemma gmake_ok {A} (z : A) n : 0 <= n -> gmake z n = GOk (repeat z (Z.to_nat n)).
Proof.
  intros H. unfold gmake. assert (Hc : (n <? 0) = false) by lia. rewrite Hc. reflexivity.
Qed.

Lemma zslice_empty {A} (l : list A) a : zslice l a a = [].
Proof. unfold zslice. rewrite Z.sub_diag. reflexivity. Qed.

Lemma zslice_full {A} (l : list A) : zslice l 0 (zlen l) = l.
Proof. unfold zslice, zlen. rewrite Z.sub_0_r, Nat2Z.id. cbn [Z.to_nat skipn]. apply firstn_all. Qed.

(** [l[1:]] *)
Lemma zslice_tail {A} (x : A) l : zslice (x :: l) 1 (zlen (x :: l)) = l.
Proof.
  unfold zslice. rewrite zlen_cons.
  replace (zlen l + 1 - 1) with (zlen l) by lia.
  change (Z.to_nat 1) with 1%nat. cbn [skipn]. unfold zlen. rewrite Nat2Z.id. apply firstn_all.
Qed.

(** [l[len-1:]] *)
Lemma zslice_last {A} (p : list A) x :
  zslice (p ++ [x]) (zlen (p ++ [x]) - 1) (zlen (p ++ [x])) = [x].
Proof.
  unfold zslice. rewrite zlen_app. change (zlen [x]) with 1.
  replace (zlen p + 1 - (zlen p + 1 - 1)) with 1 by lia.
  replace (zlen p + 1 - 1) with (zlen p) by lia.
  unfold zlen. rewrite Nat2Z.id.
  rewrite (skipn_app_here p [x] (List.length p) eq_refl). reflexivity.
Qed.

(** [l[:len-1]] *)
Lemma zslice_init {A} (p : list A) x : zslice (p ++ [x]) 0 (zlen (p ++ [x]) - 1) = p.
Proof.
  unfold zslice. rewrite zlen_app. change (zlen [x]) with 1.
  replace (zlen p + 1 - 1 - 0) with (zlen p) by lia.
  unfold zlen. rewrite Nat2Z.id. cbn [Z.to_nat skipn].
  apply (slice_app_here p [x] (List.length p) eq_refl).
Qed.

(** ** range loops *)

(** a range loop whose body always falls through is a left fold *)
Lemma grange_fold {A St R} (body : Z -> A -> St -> gres (lstep St R)) (f : St -> A -> St) :
  (forall i x s, body i x s = GOk (LNext (f s x))) ->
  forall l i s, grange body i l s = GOk (inl (fold_left f l s)).
Proof.
  intros Hbody l. induction l as [|x r IH]; intros i s.
  - reflexivity.
  - cbn [grange fold_left]. rewrite Hbody. cbn [gbind]. apply IH.
Qed.

(** a range loop with an invariant (indexed by the loop index) whose body
    either falls through with [f s x], or breaks in a state that [f] would
    never change again, is a left fold *)
Lemma grange_fold_inv {A St R} (body : Z -> A -> St -> gres (lstep St R)) (f : St -> A -> St)
      (Inv : Z -> St -> Prop) :
  forall l i0 s0,
  (forall i x s, i0 <= i < i0 + zlen l -> nth_error l (Z.to_nat (i - i0)) = Some x -> Inv i s ->
     (body i x s = GOk (LNext (f s x)) /\ Inv (i + 1) (f s x)) \/
     (body i x s = GOk (LBreak s) /\ forall l', fold_left f l' s = s)) ->
  Inv i0 s0 ->
  grange body i0 l s0 = GOk (inl (fold_left f l s0)).
Proof.
  intros l. induction l as [|x r IH]; intros i0 s0 Hbody Hinv.
  - reflexivity.
  - cbn [grange fold_left].
    assert (Hi0 : i0 <= i0 < i0 + zlen (x :: r)) by (rewrite zlen_cons; pose proof (zlen_ge0 r); lia).
    assert (Hx : nth_error (x :: r) (Z.to_nat (i0 - i0)) = Some x) by (rewrite Z.sub_diag; reflexivity).
    destruct (Hbody i0 x s0 Hi0 Hx Hinv) as [[Hb Hinv'] | [Hb Hstable]].
    + rewrite Hb. cbn [gbind]. apply IH; [|exact Hinv'].
      intros i y s Hi Hy Hs. apply Hbody; [rewrite zlen_cons; lia| |exact Hs].
      replace (Z.to_nat (i - i0)) with (S (Z.to_nat (i - (i0 + 1)))) by lia.
      exact Hy.
    + rewrite Hb. cbn [gbind]. pose proof (Hstable (x :: r)) as Hs. cbn [fold_left] in Hs.
      rewrite Hs. reflexivity.
Qed.

(** a state that one step of [f] leaves alone is left alone by the whole fold *)
Lemma fold_left_stable {A St} (f : St -> A -> St) s :
  (forall x, f s x = s) -> forall l, fold_left f l s = s.
Proof.
  intros H l. induction l as [|x r IH]; [reflexivity|]. cbn [fold_left]. rewrite H. exact IH.
Qed.

(** ** fuelled for loops *)

Lemma gfor_unroll {St R} fuel cond (body : St -> gres (lstep St R)) post s :
  gfor (S fuel) cond body post s =
  if cond s then
    b <- body s ;;
    match b with
    | LNext s' => gfor fuel cond body post (post s')
    | LBreak s' => GOk (inl s')
    | LRet v => GOk (inr v)
    end
  else GOk (inl s).
Proof. reflexivity. Qed.

(** induction principle: a measure [mu] that strictly decreases at each
    iteration, an invariant [Inv] preserved by body-then-post, a body that
    always falls through with [step s]: the loop ends, with enough fuel, in a
    state satisfying the invariant and falsifying the condition, and that
    state is [step] iterated *)
Lemma gfor_inv {St R} (cond : St -> bool) (body : St -> gres (lstep St R)) (post step : St -> St)
      (Inv : St -> Prop) (mu : St -> nat) :
  (forall s, Inv s -> cond s = true ->
     body s = GOk (LNext (step s)) /\ Inv (post (step s)) /\ (mu (post (step s)) < mu s)%nat) ->
  forall fuel s, Inv s -> (mu s < fuel)%nat ->
  exists s', gfor fuel cond body post s = GOk (inl s') /\ Inv s' /\ cond s' = false.
Proof.
  intros Hstep fuel. induction fuel as [|fuel IH]; intros s Hinv Hmu.
  - lia.
  - rewrite gfor_unroll. destruct (cond s) eqn:Hc.
    + destruct (Hstep s Hinv Hc) as [Hb [Hinv' Hlt]]. rewrite Hb. cbn [gbind].
      apply IH; [exact Hinv' | lia].
    + exists s. split; [reflexivity|]. split; [exact Hinv | exact Hc].
Qed.

(** ** maps *)

Lemma lookup0_some {V} (z : V) m k v : alookup m k = Some v -> lookup0 z m k = v.
Proof. unfold lookup0. intros H. rewrite H. reflexivity. Qed.

Lemma lookup0_none {V} (z : V) m k : alookup m k = None -> lookup0 z m k = z.
Proof. unfold lookup0. intros H. rewrite H. reflexivity. Qed.

Lemma has_key_some {V} (m : list (bytes * V)) k v : alookup m k = Some v -> has_key m k = true.
Proof. unfold has_key. intros H. rewrite H. reflexivity. Qed.

Lemma has_key_none {V} (m : list (bytes * V)) k : alookup m k = None -> has_key m k = false.
Proof. unfold has_key. intros H. rewrite H. reflexivity. Qed.

Lemma upd_nth_set_nth l i v : upd_nth l i v = set_nth l i v.
Proof.
  revert i. induction l as [|x r IH]; intros i.
  - destruct i; reflexivity.
  - destruct i as [|i]; [reflexivity|]. cbn [upd_nth set_nth]. rewrite IH. reflexivity.
Qed.

(* ====================================================================== *)
(** * Proof scripts that do not depend on the shape of the generated code

    The generated file is re-translated from the Go source on every run, so
    the scripts below must survive any semantics-preserving rewrite of that
    source.  The rules followed everywhere:
    - a test is never named by its syntactic shape: [go_case] picks the first
      [if] of the goal, case-splits on one of its ATOMIC tests (descending
      through [&&], [||] and [negb]) and lets [lia] discard the impossible
      branches, so swapping the operands of a connective, reversing a
      comparison or negating a test and swapping the branches changes nothing;
    - the state of a loop is a tuple whose component order follows the order
      of the assignments in the loop body: invariants are stated on named
      components, read through a decoder found by [with_dec2/3/4], which try
      the projections of the actual state tuple in every order. *)
(* ====================================================================== *)

(** case split on one atomic test of the boolean expression [c] *)
Ltac bool_atom c :=
  lazymatch c with
  | andb ?a ?b => first [bool_atom a | bool_atom b]
  | orb ?a ?b => first [bool_atom a | bool_atom b]
  | negb ?a => bool_atom a
  | true => fail
  | false => fail
  | context [if ?d then _ else _] => bool_atom d   (* a test nested in the test: innermost first *)
  | _ => destruct c eqn:?
  end.

(** one step of case analysis on the first undecided [if] of the goal *)
Ltac go_case :=
  match goal with
  | |- context [if ?c then _ else _] => bool_atom c; cbn [andb orb negb gbind fst snd]
  end.

(** full case analysis; arithmetically impossible branches are discarded *)
Ltac go_cases := repeat (go_case; try (exfalso; lia)).

(** the same, also splitting the tests of hypothesis [H] *)
Ltac go_cases_in H := revert H; go_cases; intros H.

(** the test at the head of a program (the first statement is an [if], or a
    conditional assignment, or a call whose argument starts with one) *)
Ltac prog_head_test p :=
  lazymatch p with
  | if ?c then _ else _ => c
  | gbind ?m _ => prog_head_test m
  end.

(** case split on an atomic test of the [if] at the head of the program, for
    goals [prog = _], [exists _, prog = _ /\ _], ... (up to three witnesses) *)
Ltac go_head :=
  let split_on p := (let c := prog_head_test p in bool_atom c; cbn [andb orb negb gbind fst snd]) in
  lazymatch goal with
  | |- ?p = _ => split_on p
  | |- ?p = _ /\ _ => split_on p
  | |- exists _, ?p = _ /\ _ => split_on p
  | |- exists _ _, ?p = _ /\ _ => split_on p
  | |- exists _ _ _, ?p = _ /\ _ => split_on p
  end.

(** follow the control flow as far as the tests at the head are decided by
    the context; stops at the first statement that is not an [if] *)
Ltac go_heads := cbn [andb orb negb gbind fst snd]; repeat (go_head; try (exfalso; lia)).

(** a conditional assignment [if c { x = a }] at the head of the program:
    name its value [x := if c then a else b] instead of splitting on [c] *)
Ltac go_name_cond x :=
  match goal with
  | |- context [gbind (if ?c then GOk ?a else GOk ?b) ?k] =>
      rewrite (gbind_if_ok c a b k); set (x := (if c then a else b)); cbv beta
  end.

(** use the recorded values of the atomic tests *)
Ltac rw_bools :=
  repeat match goal with
  | H : ?b = true |- context [?b] => rewrite H
  | H : ?b = false |- context [?b] => rewrite H
  end; cbn [andb orb negb].

(** decoders: every way of reading the components of a 2-, 3- or 4-tuple.
    [k] is run with each decoder in turn until it succeeds; it must solve the
    obligations that depend on the order (typically the preservation of a loop
    invariant), so that a wrong order is rejected. *)
Ltac with_dec2 T k :=
  first [ k constr:(fun st : T => let '(a, b) := st in (a, b))
        | k constr:(fun st : T => let '(a, b) := st in (b, a)) ].

Ltac with_dec3 T k :=
  first [ k constr:(fun st : T => let '(a, b, c) := st in (a, b, c))
        | k constr:(fun st : T => let '(a, b, c) := st in (a, c, b))
        | k constr:(fun st : T => let '(a, b, c) := st in (b, a, c))
        | k constr:(fun st : T => let '(a, b, c) := st in (b, c, a))
        | k constr:(fun st : T => let '(a, b, c) := st in (c, a, b))
        | k constr:(fun st : T => let '(a, b, c) := st in (c, b, a)) ].

Ltac with_dec4 T k :=
  first [ k constr:(fun st : T => let '(a, b, c, d) := st in (a, b, c, d))
        | k constr:(fun st : T => let '(a, b, c, d) := st in (a, b, d, c))
        | k constr:(fun st : T => let '(a, b, c, d) := st in (a, c, b, d))
        | k constr:(fun st : T => let '(a, b, c, d) := st in (a, c, d, b))
        | k constr:(fun st : T => let '(a, b, c, d) := st in (a, d, b, c))
        | k constr:(fun st : T => let '(a, b, c, d) := st in (a, d, c, b))
        | k constr:(fun st : T => let '(a, b, c, d) := st in (b, a, c, d))
        | k constr:(fun st : T => let '(a, b, c, d) := st in (b, a, d, c))
        | k constr:(fun st : T => let '(a, b, c, d) := st in (b, c, a, d))
        | k constr:(fun st : T => let '(a, b, c, d) := st in (b, c, d, a))
        | k constr:(fun st : T => let '(a, b, c, d) := st in (b, d, a, c))
        | k constr:(fun st : T => let '(a, b, c, d) := st in (b, d, c, a))
        | k constr:(fun st : T => let '(a, b, c, d) := st in (c, a, b, d))
        | k constr:(fun st : T => let '(a, b, c, d) := st in (c, a, d, b))
        | k constr:(fun st : T => let '(a, b, c, d) := st in (c, b, a, d))
        | k constr:(fun st : T => let '(a, b, c, d) := st in (c, b, d, a))
        | k constr:(fun st : T => let '(a, b, c, d) := st in (c, d, a, b))
        | k constr:(fun st : T => let '(a, b, c, d) := st in (c, d, b, a))
        | k constr:(fun st : T => let '(a, b, c, d) := st in (d, a, b, c))
        | k constr:(fun st : T => let '(a, b, c, d) := st in (d, a, c, b))
        | k constr:(fun st : T => let '(a, b, c, d) := st in (d, b, a, c))
        | k constr:(fun st : T => let '(a, b, c, d) := st in (d, b, c, a))
        | k constr:(fun st : T => let '(a, b, c, d) := st in (d, c, a, b))
        | k constr:(fun st : T => let '(a, b, c, d) := st in (d, c, b, a)) ].

(* ====================================================================== *)
(** * The translated list package against the model                        *)
(* ====================================================================== *)

(** lists held in memory are far shorter than 2^62 *)
Definition lens_ok (m : lmap) : Prop := forall k l, alookup m k = Some l -> zlen l < 2 ^ 62.

Definition ok_of {A} (r : lres A) (zero : A) (e : gerr) : A * gerr :=
  match r with LOk a => (a, ENil) | LErr => (zero, e) end.

Theorem go_Size_eq l key :
  go_List_Size l key =
  GOk (l, match l_size (List_Items l) key with LOk n => (n, ENil) | LErr => (0, EVar "ErrListNotFound") end).
Proof.
  unfold go_List_Size, l_size, has_key, lookup0. destruct (alookup (List_Items l) key); reflexivity.
Qed.

(** a Go result pair (value, error) agrees with a model result *)
Definition agrees {A} (zero : A) (g : A * gerr) (r : lres A) : Prop :=
  match r with
  | LOk a => g = (a, ENil)
  | LErr => fst g = zero /\ snd g <> ENil
  end.

Definition items_ok (l : go_List) : Prop := lens_ok (List_Items l).

Lemma items_ok_len l key x :
  items_ok l -> alookup (List_Items l) key = Some x -> 0 <= zlen x < 4611686018427387904.
Proof.
  intros Hl Hk. split; [apply zlen_ge0|]. apply (Hl key x Hk).
Qed.

Lemma go_List_eta l : mk_go_List (List_Items l) = l.
Proof. destruct l; reflexivity. Qed.

(** a non-empty list seen from its last element *)
Lemma rev_cons_inv {A} (l : list A) x r : rev l = x :: r -> l = rev r ++ [x].
Proof. intros H. rewrite <- (rev_involutive l), H. reflexivity. Qed.

Theorem go_RPeek_eq l key : items_ok l ->
  exists item size err,
    go_List_RPeek l key = GOk (l, (item, size, err)) /\
    agrees [] (item, err) (l_rpeek (List_Items l) key) /\
    size = match alookup (List_Items l) key with Some x => zlen x | None => 0 end.
Proof.
  intros Hl. unfold go_List_RPeek. rewrite go_Size_eq.
  unfold l_rpeek, l_size.
  destruct (alookup (List_Items l) key) as [x|] eqn:Hk.
  - pose proof (items_ok_len l key x Hl Hk) as Hlen.
    rewrite (has_key_some _ _ _ Hk). cbn [negb gbind]. rewrite !(lookup0_some _ _ _ _ Hk).
    destruct (rev x) as [|a r] eqn:Hr.
    + assert (Hx : x = []) by (apply (f_equal (@rev _)) in Hr; rewrite rev_involutive in Hr; exact Hr).
      subst x. change (zlen (@nil bytes)) with 0. go_cases.
      eexists _, _, _. split; [reflexivity|]. split; [|reflexivity].
      split; [reflexivity|discriminate].
    + apply rev_cons_inv in Hr. subst x. set (p := rev r) in *. clearbody p.
      assert (Hpos : 0 < zlen (p ++ [a])) by (rewrite zlen_app in *; change (zlen [a]) with 1 in *; pose proof (zlen_ge0 p); lia).
      go_cases. rewrite isub_ok by lia.
      (* the last element, read as [x[size-1:][0]] or as [x[size-1]] *)
      first [ rewrite gslice_ok by lia; rewrite zslice_last; cbn [gbind]; rewrite gidx_head
            | rewrite (gidx_ok (p ++ [a]) _ a)
                by (try lia; rewrite zlen_app; change (zlen [a]) with 1;
                    replace (Z.to_nat (zlen p + 1 - 1)) with (List.length p) by (unfold zlen; lia);
                    rewrite nth_error_app2, Nat.sub_diag by lia; reflexivity) ].
      cbn [gbind].
      eexists _, _, _. split; [reflexivity|]. split; reflexivity.
  - rewrite (has_key_none _ _ Hk). cbn [negb].
    eexists _, _, _. split; [reflexivity|]. split; [|reflexivity].
    split; [reflexivity|discriminate].
Qed.

Theorem go_RPop_eq l key : items_ok l ->
  exists g,
    go_List_RPop l key = GOk (mk_go_List (fst (l_rpop (List_Items l) key)), g) /\
    agrees [] g (snd (l_rpop (List_Items l) key)).
Proof.
  intros Hl. unfold go_List_RPop.
  destruct (go_RPeek_eq l key Hl) as [item [size [err [Hpeek [Hag Hsize]]]]].
  rewrite Hpeek. cbn [gbind]. unfold l_rpeek in Hag. unfold l_rpop.
  destruct (alookup (List_Items l) key) as [x|] eqn:Hk.
  - pose proof (items_ok_len l key x Hl Hk) as Hlen.
    destruct (rev x) as [|a r] eqn:Hr.
    + destruct Hag as [Hitem Herr]. cbn [fst snd] in Hitem, Herr.
      assert (Hnil : err_is_nil err = false) by (destruct err; [congruence|reflexivity..]).
      rewrite Hnil. cbn [negb fst snd]. rewrite go_List_eta.
      eexists. split; [reflexivity|]. split; [exact Hitem|exact Herr].
    + injection Hag as Hitem Herr. subst item err size. cbn [err_is_nil negb].
      rewrite !(lookup0_some _ _ _ _ Hk). rewrite gslice3_000. cbn [gbind].
      apply rev_cons_inv in Hr. subst x. set (p := rev r) in *. clearbody p.
      rewrite zlen_app in Hlen. change (zlen [a]) with 1 in Hlen. pose proof (zlen_ge0 p) as Hp.
      rewrite isub_ok by (rewrite zlen_app; change (zlen [a]) with 1; lia).
      rewrite gslice_ok by (rewrite ?zlen_app; change (zlen [a]) with 1; lia).
      rewrite zslice_init. cbn [gbind app fst snd]. unfold set_List_Items.
      eexists. split; [reflexivity|]. reflexivity.
  - destruct Hag as [Hitem Herr]. cbn [fst snd] in Hitem, Herr.
    assert (Hnil : err_is_nil err = false) by (destruct err; [congruence|reflexivity..]).
    rewrite Hnil. cbn [negb fst snd]. rewrite go_List_eta.
    eexists. split; [reflexivity|]. split; [exact Hitem|exact Herr].
Qed.

Lemma l_rpush_one m k v :
  l_rpush m k [v] = aset m k (lookup0 [] m k ++ [v]).
Proof. unfold l_rpush, lookup0. destruct (alookup m k); reflexivity. Qed.

Theorem go_RPush_eq l key vs :
  let m' := l_rpush (List_Items l) key vs in
  go_List_RPush l key vs =
  GOk (mk_go_List m', match l_size m' key with LOk n => (n, ENil) | LErr => (0, EVar "ErrListNotFound") end).
Proof.
  intros m'. unfold go_List_RPush.
  rewrite (grange_fold _ (fun (g : go_List) v => mk_go_List (l_rpush (List_Items g) key [v])))
    by (intros i x s; rewrite l_rpush_one; reflexivity).
  cbn [gbind]. rewrite go_Size_eq. cbn [gbind].
  assert (Hfold : forall vs0 g, List_Items (fold_left (fun (g : go_List) v => mk_go_List (l_rpush (List_Items g) key [v])) vs0 g)
                           = fold_left (fun m v => l_rpush m key [v]) vs0 (List_Items g)).
  { intros vs0. induction vs0 as [|v r IH]; intros g; [reflexivity|]. cbn [fold_left]. rewrite IH. reflexivity. }
  set (g' := fold_left _ vs l).
  assert (Hg' : g' = mk_go_List m').
  { rewrite <- (go_List_eta g'). f_equal. unfold g'. rewrite Hfold. unfold m'.
    destruct vs as [|v r]; [reflexivity|]. apply rpush_one_by_one. discriminate. }
  rewrite Hg'. cbn [List_Items]. destruct (l_size m' key); reflexivity.
Qed.

Theorem go_LPeek_eq l key :
  exists g, go_List_LPeek l key = GOk (l, g) /\ agrees [] g (l_lpeek (List_Items l) key).
Proof.
  unfold go_List_LPeek. rewrite go_Size_eq. unfold l_lpeek, l_size.
  destruct (alookup (List_Items l) key) as [x|] eqn:Hk.
  - rewrite (has_key_some _ _ _ Hk). cbn [negb gbind]. rewrite !(lookup0_some _ _ _ _ Hk).
    destruct x as [|a r].
    + change (zlen (@nil bytes)) with 0. go_cases.
      eexists. split; [reflexivity|]. split; [reflexivity|discriminate].
    + assert (Hpos : 0 < zlen (a :: r)) by (rewrite zlen_cons; pose proof (zlen_ge0 r); lia).
      go_cases. rewrite gidx_head. cbn [gbind].
      eexists. split; reflexivity.
  - rewrite (has_key_none _ _ Hk). cbn [negb].
    eexists. split; [reflexivity|]. split; [reflexivity|discriminate].
Qed.

Theorem go_LPop_eq orc l key :
  exists g,
    go_List_LPop orc l key = GOk (mk_go_List (fst (l_lpop (List_Items l) key)), g) /\
    agrees [] g (snd (l_lpop (List_Items l) key)).
Proof.
  unfold go_List_LPop.
  destruct (go_LPeek_eq l key) as [[item err] [Hpeek Hag]].
  rewrite Hpeek. cbn [gbind]. unfold l_lpeek in Hag. unfold l_lpop.
  destruct (alookup (List_Items l) key) as [[|a r]|] eqn:Hk.
  - destruct Hag as [Hitem Herr]. cbn [fst snd] in Hitem, Herr.
    assert (Hnil : err_is_nil err = false) by (destruct err; [congruence|reflexivity..]).
    rewrite Hnil. cbn [negb fst snd]. rewrite go_List_eta.
    eexists. split; [reflexivity|]. split; [exact Hitem|exact Herr].
  - injection Hag as Hitem Herr. subst item err. cbn [err_is_nil negb].
    rewrite !(lookup0_some _ _ _ _ Hk). cbn [slice_nonnil negb].
    rewrite gslice3_000. cbn [gbind].
    rewrite gslice_ok by (rewrite ?zlen_cons; pose proof (zlen_ge0 r); lia).
    rewrite zslice_tail. cbn [gbind app fst snd]. unfold set_List_Items.
    eexists. split; reflexivity.
  - destruct Hag as [Hitem Herr]. cbn [fst snd] in Hitem, Herr.
    assert (Hnil : err_is_nil err = false) by (destruct err; [congruence|reflexivity..]).
    rewrite Hnil. cbn [negb fst snd]. rewrite go_List_eta.
    eexists. split; [reflexivity|]. split; [exact Hitem|exact Herr].
Qed.

(** One step of symbolic execution of straight-line translated code:
    wrap-free arithmetic (side condition by [lia]), then a case split on the
    first remaining test.  No generated name is mentioned. *)
Ltac go_arith :=
  match goal with
  | |- context [iadd ?a ?b] => rewrite (iadd_ok a b) by lia
  | |- context [isub ?a ?b] => rewrite (isub_ok a b) by lia
  | |- context [ineg ?a] => rewrite (ineg_ok a) by lia
  end.

(** a case split on one atomic test of the first remaining [if] (see [go_case]) *)
Ltac go_split := go_case.

Theorem go_LRange_eq l key s e : items_ok l -> int_ok s -> int_ok e ->
  exists g, go_List_LRange l key s e = GOk (l, g) /\ agrees [] g (l_lrange (List_Items l) key s e).
Proof.
  intros Hl Hs He. apply int_ok_elim in Hs, He.
  unfold go_List_LRange. rewrite go_Size_eq. unfold l_lrange, l_size.
  destruct (alookup (List_Items l) key) as [x|] eqn:Hk.
  - pose proof (items_ok_len l key x Hl Hk) as Hlen.
    cbn [gbind err_is_nil negb]. rewrite !(lookup0_some _ _ _ _ Hk).
    unfold lrange_list, lrange_norm.
    set (n := zlen x) in *.
    repeat (repeat go_arith; go_split; try (exfalso; lia)).
    all: try (eexists; split; [reflexivity | split; [reflexivity | discriminate]]).
    all: rewrite gslice_ok by lia; cbn [gbind]; eexists; split; reflexivity.
  - cbn [gbind err_is_nil negb].
    eexists. split; [reflexivity | split; [reflexivity | discriminate]].
Qed.

Theorem go_LRemNum_eq l key count v : items_ok l -> int_ok count ->
  exists g, go_List_LRemNum l key count v = GOk (l, g) /\ agrees 0 g (l_lremnum (List_Items l) key count v).
Proof.
  intros Hl Hc. apply int_ok_elim in Hc.
  unfold go_List_LRemNum. rewrite go_Size_eq. unfold l_lremnum, l_size.
  destruct (alookup (List_Items l) key) as [x|] eqn:Hk.
  - pose proof (items_ok_len l key x Hl Hk) as Hlen.
    rewrite (has_key_some _ _ _ Hk). cbn [gbind negb]. rewrite !(lookup0_some _ _ _ _ Hk).
    unfold lremnum_list.
    set (n := zlen x) in *.
    repeat (repeat go_arith; go_split; try (exfalso; lia)).
    all: try (eexists; split; [reflexivity | split; [reflexivity | discriminate]]).
    all: match goal with |- context [count_upto ?x' ?c ?v'] =>
           rewrite (grange_fold_inv _
                      (fun r y => if (0 <? c) && (r =? c) then r else if bytes_eqb y v' then r + 1 else r)
                      (fun i r => 0 <= r <= i) x' 0 0)
         end.
    all: try (cbn [gbind]; eexists; split; reflexivity).
    all: try lia.
    all: intros i y r Hi Hy Hr; cbv beta.
    all: go_cases.
    all: first [ left; rewrite ?iadd_ok by lia; split; [reflexivity | lia]
               | right; split; [reflexivity | apply fold_left_stable; intros y'; rw_bools; reflexivity] ].
  - rewrite (has_key_none _ _ Hk). cbn [negb].
    eexists. split; [reflexivity | split; [reflexivity | discriminate]].
Qed.

Theorem go_LSet_eq l key i v : int_ok i ->
  go_List_LSet l key i v =
  GOk (mk_go_List (fst (l_lset (List_Items l) key i v)),
       if snd (l_lset (List_Items l) key i v) then ENil
       else match alookup (List_Items l) key with Some _ => EVar "ErrIndexOutOfRange" | None => EVar "ErrListNotFound" end).
Proof.
  intros _. unfold go_List_LSet. rewrite go_Size_eq. unfold l_lset, l_size.
  destruct (alookup (List_Items l) key) as [x|] eqn:Hk.
  - rewrite (has_key_some _ _ _ Hk). cbn [gbind negb]. rewrite !(lookup0_some _ _ _ _ Hk).
    go_cases; cbn [fst snd].
    all: first [ rewrite go_List_eta; reflexivity
               | rewrite gupd_ok by lia; cbn [gbind]; rewrite upd_nth_set_nth; reflexivity ].
  - rewrite (has_key_none _ _ Hk). cbn [negb fst snd]. rewrite go_List_eta. reflexivity.
Qed.

Theorem go_Ltrim_eq l key s e : items_ok l -> int_ok s -> int_ok e ->
  exists err,
    go_List_Ltrim l key s e = GOk (mk_go_List (fst (l_ltrim (List_Items l) key s e)), err) /\
    (snd (l_ltrim (List_Items l) key s e) = true <-> err = ENil).
Proof.
  intros Hl Hs He. unfold go_List_Ltrim.
  destruct (go_LRange_eq l key s e Hl Hs He) as [[items err] [Hrange Hag]].
  rewrite Hrange. cbn [gbind]. unfold l_lrange in Hag. unfold l_ltrim.
  destruct (alookup (List_Items l) key) as [x|] eqn:Hk.
  - rewrite (has_key_some _ _ _ Hk). cbn [negb]. rewrite !(lookup0_some _ _ _ _ Hk).
    destruct (lrange_list x s e) as [x'|] eqn:Hr.
    + injection Hag as Hitems Herr. subst items err. cbn [err_is_nil negb].
      rewrite gslice3_000. cbn [gbind app fst snd]. unfold set_List_Items.
      eexists. split; [reflexivity|]. split; reflexivity.
    + destruct Hag as [_ Herr]. cbn [snd] in Herr.
      assert (Hnil : err_is_nil err = false) by (destruct err; [congruence|reflexivity..]).
      rewrite Hnil. cbn [negb fst snd]. rewrite go_List_eta.
      eexists. split; [reflexivity|]. split; [discriminate | intros H; contradiction].
  - rewrite (has_key_none _ _ Hk). cbn [negb fst snd]. rewrite go_List_eta.
    eexists. split; [reflexivity|]. split; discriminate.
Qed.
