(** GoScanFacts.v — the Gallina translation (generated/GoScan.v) of
    processEntriesScanOnDisk (tx_bptree.go), SortedEntryKeys (utils.go) and
    Tx.buildTempBucketMetaIdx (tx.go) computes what the hand-written model
    (Sparse.v: [process_scan] / [first_wins]) says.  Ranges over a Go map visit
    [mord site m]: every theorem holds for every [mord] returning a permutation. *)
From Coq Require Import Permutation Sorted.
From Verif Require Import Bytes BytesFacts ListDS SetDS SetFacts Index IndexFacts Sparse SparseFacts.
From VerifGo Require Import GoSem GoSetFacts.
From VerifGen Require Import GoScan.
From Coq Require Import Strings.String Lia ZifyBool.
Open Scope Z_scope.

(* ====================================================================== *)
(** * General facts                                                        *)
(* ====================================================================== *)

(** a left fold that appends the image of the selected elements *)
Lemma fold_app_sel {A B} (p : A -> bool) (q : A -> B) (l : list A) : forall acc,
  fold_left (fun acc x => if p x then acc ++ [q x] else acc) l acc = acc ++ map q (filter p l).
Proof.
  induction l as [|x l IH]; intros acc; cbn [fold_left filter].
  - cbn [map]. rewrite app_nil_r. reflexivity.
  - rewrite IH. destruct (p x); [|reflexivity].
    cbn [map]. rewrite <- app_assoc. reflexivity.
Qed.

(** first match of a key in an association list built by [map] *)
Lemma kv_find_map_key (h : bytes -> krec) (l : list bytes) k :
  kv_find (map (fun x => (x, h x)) l) k = if bmem k l then Some (h k) else None.
Proof.
  induction l as [|x l IH]; cbn [map kv_find bmem]; [reflexivity|].
  destruct (bytes_eqb x k) eqn:E; cbn [orb]; [|exact IH].
  apply bytes_eqb_eq in E. subst x. reflexivity.
Qed.

Lemma bmem_perm x l l' : Permutation l l' -> bmem x l = bmem x l'.
Proof.
  intros P. destruct (bmem x l') eqn:E.
  - apply bmem_In. apply bmem_In in E. apply (Permutation_in _ (Permutation_sym P)). exact E.
  - apply bmem_false. apply bmem_false in E. intros H. apply E. apply (Permutation_in _ P). exact H.
Qed.

(** a duplicate-free list sorted by <= is sorted by < *)
Lemma sorted_nodup_strict (l : list bytes) :
  StronglySorted (fun a b => bleb a b = true) l -> NoDup l ->
  StronglySorted (fun a b => bltb a b = true) l.
Proof.
  intros S. induction S as [|a l S IH F]; intros N; [constructor|].
  inversion N as [|? ? Hn Nl]; subst. constructor; [apply IH; exact Nl|].
  rewrite Forall_forall in F |- *. intros b Hb. pose proof (F b Hb) as Hab.
  unfold bleb in Hab. unfold bltb. destruct (bcompare a b) eqn:E; try reflexivity; try discriminate.
  apply bcompare_eq in E. subst b. contradiction.
Qed.

Lemma ksorted_map_key (h : bytes -> krec) (l : list bytes) :
  StronglySorted (fun a b => bltb a b = true) l -> ksorted (map (fun x => (x, h x)) l).
Proof.
  intros S. induction S as [|a l S IH F]; cbn [map]; [constructor|].
  apply ksorted_cons; [exact IH|].
  rewrite Forall_forall in F |- *. intros kr Hkr. apply in_map_iff in Hkr as [b [Eb Hb]].
  subst kr. cbn [fst]. apply F. exact Hb.
Qed.

Lemma ksorted_NoDup (ix : kvidx) : ksorted ix -> NoDup (map fst ix).
Proof.
  induction ix as [|[k r] t IH]; intros Hs; cbn [map fst]; [constructor|].
  apply ksorted_inv in Hs as [Hst Hlt]. constructor; [|apply IH; exact Hst].
  intros Hin. apply in_map_iff in Hin as [kr [E Hkr]].
  rewrite Forall_forall in Hlt. pose proof (Hlt kr Hkr) as L. rewrite E, bltb_irrefl in L. discriminate L.
Qed.

(** ** proofs that survive harmless rewrites of the Go source

    The theorems about the translated functions are re-checked against a fresh
    translation on every change of the Go source.  They never mention the shape of
    a test, a generated name or the order of independent statements: tests are
    case-split on their ATOMIC comparisons ([go_cases], from GoSetFacts.v) and the
    impossible combinations are left to [lia]; loops are replaced by folds whose
    step is given semantically ([grange_fold_to_idx]); the expected value is stated
    explicitly and reached by conversion, not by [fold]ing the goal. *)

(** a range loop whose body always falls through is a left fold; the body may use the
    index of the element (a loop written [for i := range l { x := l[i]; ... }]): position
    [k] is visited with index [i + k] *)
Lemma grange_fold_idx {A St R} (body : Z -> A -> St -> gres (lstep St R)) (f : St -> A -> St) l :
  forall i s,
  (forall k x s, nth_error l k = Some x -> body (i + Z.of_nat k) x s = GOk (LNext (f s x))) ->
  grange body i l s = GOk (inl (fold_left f l s)).
Proof.
  induction l as [|x0 r IH]; intros i s Hb; [reflexivity|].
  cbn [grange fold_left].
  pose proof (Hb O x0 s eq_refl) as H0. replace (i + Z.of_nat 0) with i in H0 by lia.
  rewrite H0. cbn [gbind]. apply IH. intros k x s' Hk.
  replace (i + 1 + Z.of_nat k) with (i + Z.of_nat (S k)) by lia. apply Hb. exact Hk.
Qed.

(** ... whose value is [r] (stated by the caller, reached by conversion) *)
Lemma grange_fold_to_idx {A St R} (body : Z -> A -> St -> gres (lstep St R)) (f : St -> A -> St) l i s r :
  (forall k x s, nth_error l k = Some x -> body (i + Z.of_nat k) x s = GOk (LNext (f s x))) ->
  fold_left f l s = r ->
  grange body i l s = GOk (inl r).
Proof. intros Hb Hr. subst r. apply grange_fold_idx. exact Hb. Qed.

(** l[i] at a position known to hold x *)
Lemma gidx_nth {A} (l : list A) k x : nth_error l k = Some x -> gidx l (0 + Z.of_nat k) = GOk x.
Proof.
  intros H. unfold gidx. assert (Hlt : (k < List.length l)%nat) by (apply nth_error_Some; congruence).
  replace ((0 <=? 0 + Z.of_nat k) && (0 + Z.of_nat k <? zlen l)) with true
    by (symmetry; apply andb_true_intro; split; [apply Z.leb_le|apply Z.ltb_lt]; unfold zlen; lia).
  replace (Z.to_nat (0 + Z.of_nat k)) with k by lia. rewrite H. reflexivity.
Qed.

Lemma zlen_cons_s {A} (x : A) l : zlen (x :: l) = zlen l + 1.
Proof. unfold zlen. cbn [List.length]. lia. Qed.

Lemma zlen_ge0_s {A} (l : list A) : 0 <= zlen l.
Proof. unfold zlen. lia. Qed.

(** lengths are non-negative: known to [lia] for every list variable *)
Ltac pose_zlen :=
  repeat match goal with
         | l : list ?A |- _ =>
             lazymatch goal with
             | _ : 0 <= zlen l |- _ => fail
             | _ => pose proof (zlen_ge0_s l)
             end
         end.

(** a list variable whose length is 0 (however the source tests it) is [[]] *)
Ltac lists_nil :=
  pose_zlen;
  repeat match goal with
         | l : list _ |- _ =>
             let H := fresh in
             let x0 := fresh "x" in
             let l0 := fresh "l" in
             assert (H : zlen l = 0) by lia;
             destruct l as [|x0 l0];
             [clear H | exfalso; pose proof (zlen_ge0_s l0); rewrite zlen_cons_s in H; lia]
         end.

(** make(T, 0) and make(T, 0, n) *)
Lemma gmake_0 {A} (z : A) : gmake z 0 = GOk [].
Proof. reflexivity. Qed.

Lemma bsort_idem l : bsort (bsort l) = bsort l.
Proof. apply bsort_perm_eq. apply bsort_perm. Qed.

(* ====================================================================== *)
(** * T1: SortedEntryKeys                                                  *)
(* ====================================================================== *)

(** No well-formedness of [m] is needed: the sorted key list of a permutation
    is the sorted key list ([bsort_perm_eq]); for a map (duplicate-free keys)
    this is the canonical list of its key set. *)
Theorem go_SortedEntryKeys_eq mord (m : list (bytes * go_Entry)) :
  mord_ok mord ->
  go_SortedEntryKeys mord m = GOk (bsort (map fst m), m).
Proof.
  intros Hm. unfold go_SortedEntryKeys. cbv zeta.
  (* closed tests (an early return on an empty map, ...) *)
  rewrite ?gmake_0; cbn [gbind].
  pose_zlen; go_cases; lists_nil;
  (* the loop collects the keys in the order of the range *)
  rewrite ?(grange_fold _ (fun acc (kv : bytes * go_Entry) => acc ++ [fst kv]))
    by (intros i [k v] s; reflexivity);
  cbn [gbind]; rewrite ?fold_app_fst; cbn [app map]; rewrite ?bsort_idem;
  first [ reflexivity
        | rewrite (bsort_perm_eq _ (map fst m)) by (apply Permutation_map; apply Hm); reflexivity ].
Qed.
Print Assumptions go_SortedEntryKeys_eq.

(** the form asked for, with the map well-formedness made explicit *)
Corollary go_SortedEntryKeys_wf mord mord' (m : list (bytes * go_Entry)) :
  mord_ok mord -> mord_ok mord' -> NoDup (map fst m) ->
  go_SortedEntryKeys mord m = GOk (bsort (map fst m), m) /\
  go_SortedEntryKeys mord m = go_SortedEntryKeys mord' m /\
  NoDup (bsort (map fst m)) /\
  StronglySorted (fun a b => bltb a b = true) (bsort (map fst m)) /\
  (forall k, In k (bsort (map fst m)) <-> has_key m k = true).
Proof.
  intros Hm Hm' N. rewrite !go_SortedEntryKeys_eq by assumption.
  assert (N' : NoDup (bsort (map fst m))).
  { apply (Permutation_NoDup (Permutation_sym (bsort_perm _))). exact N. }
  repeat split; try exact N'.
  - apply sorted_nodup_strict; [apply bsort_sorted|exact N'].
  - intros H. rewrite has_key_bmem. apply bmem_In. apply (Permutation_in _ (bsort_perm _)). exact H.
  - intros H. rewrite has_key_bmem in H. apply bmem_In in H.
    apply (Permutation_in _ (Permutation_sym (bsort_perm _))). exact H.
Qed.

(* ====================================================================== *)
(** * IsExpired (the copy of record.go's function translated in GoScan.v)  *)
(* ====================================================================== *)

Theorem go_IsExpired_eq now ttl ts :
  0 <= now < 2 ^ 64 -> 0 <= ttl < 2 ^ 32 -> 0 <= ts < 2 ^ 64 ->
  go_IsExpired now ttl ts = GOk (is_expired (Z.to_N now) (Z.to_N ttl) (Z.to_N ts)).
Proof.
  intros Hn Ht Hs. unfold go_IsExpired, is_expired, wrapU. cbv zeta.
  rewrite ?(Z.mod_small now) by lia. rewrite ?(Z.mod_small ttl) by lia.
  assert (E2 : Z.of_N ((Z.to_N ttl + Z.to_N ts) mod 2 ^ 64) = (ttl + ts) mod 2 ^ 64).
  { rewrite N2Z.inj_mod, N2Z.inj_add, !Z2N.id by lia. reflexivity. }
  set (d := (ttl + ts) mod 2 ^ 64) in *.
  set (dN := ((Z.to_N ttl + Z.to_N ts) mod 2 ^ 64)%N) in *.
  clearbody d dN.
  go_cases; reflexivity.
Qed.
Print Assumptions go_IsExpired_eq.

(* ====================================================================== *)
(** * T2: processEntriesScanOnDisk                                         *)
(* ====================================================================== *)

(** ** the abstraction *)

(** the index record of an entry: flag, timestamp, TTL and transaction id of its
    meta data, its value; file id and offset are not known to this function (0) *)
Definition kr_of (e : go_Entry) : krec :=
  mkK (Z.to_N (MetaData_Flag (Entry_Meta e)))
      (Z.to_N (MetaData_timestamp (Entry_Meta e)))
      (Z.to_N (MetaData_TTL (Entry_Meta e)))
      (Z.to_N (MetaData_txID (Entry_Meta e)))
      0%N 0%N (Entry_Value e).

Definition to_idx (es : list go_Entry) : kvidx := map (fun e => (Entry_Key e, kr_of e)) es.

(** the fields read by the function are in the range of their Go types
    (Flag uint16, TTL uint32, timestamp uint64) *)
Definition entry_ok (e : go_Entry) : Prop :=
  0 <= MetaData_Flag (Entry_Meta e) /\
  0 <= MetaData_TTL (Entry_Meta e) < 2 ^ 32 /\
  0 <= MetaData_timestamp (Entry_Meta e) < 2 ^ 64.

(** the first entry of [es] with key [k] (the input is ordered newest first) *)
Definition first_with_key (es : list go_Entry) (k : bytes) : option go_Entry :=
  find (fun e => bytes_eqb (Entry_Key e) k) es.

(** Go's zero Entry, returned by a map read of a missing key *)
Definition entry0 : go_Entry :=
  mk_go_Entry [] [] (mk_go_MetaData 0 0 0 0 0 [] 0 0 0 0) 0 0.

Definition first_entry (es : list go_Entry) (k : bytes) : go_Entry :=
  match first_with_key es k with Some e => e | None => entry0 end.

(** an entry is live at [now]: not deleted, not expired *)
Definition live (now : Z) (e : go_Entry) : bool := negb (kr_dead (Z.to_N now) (kr_of e)).

(** the result, as a pure function: the first occurrences in [es] of the keys
    of [process_scan], in ascending key order *)
Definition scan_result (now : Z) (es : list go_Entry) : list go_Entry :=
  map (first_entry es) (map fst (process_scan (Z.to_N now) (to_idx es))).

Lemma entry0_ok : entry_ok entry0.
Proof. unfold entry_ok, entry0. cbn [Entry_Meta MetaData_Flag MetaData_TTL MetaData_timestamp]. lia. Qed.

Lemma first_with_key_some es k e :
  first_with_key es k = Some e -> In e es /\ Entry_Key e = k.
Proof.
  unfold first_with_key. intros H. apply find_some in H as [Hin Hk].
  apply bytes_eqb_eq in Hk. split; assumption.
Qed.

Lemma kv_find_to_idx es k :
  kv_find (to_idx es) k = option_map kr_of (first_with_key es k).
Proof.
  unfold to_idx, first_with_key. induction es as [|e es IH]; cbn [map kv_find find]; [reflexivity|].
  destruct (bytes_eqb (Entry_Key e) k); [reflexivity|exact IH].
Qed.

(** ** the de-duplication loop: the first occurrence of a key wins *)

Definition dedup_step (m : list (bytes * go_Entry)) (e : go_Entry) : list (bytes * go_Entry) :=
  if has_key m (Entry_Key e) then m else aset m (Entry_Key e) e.

Definition dedup (es : list go_Entry) : list (bytes * go_Entry) := fold_left dedup_step es [].

Lemma alookup_dedup_gen es : forall m k,
  alookup (fold_left dedup_step es m) k =
    match alookup m k with Some v => Some v | None => first_with_key es k end.
Proof.
  unfold first_with_key.
  induction es as [|e es IH]; intros m k; cbn [fold_left find].
  - destruct (alookup m k); reflexivity.
  - rewrite IH. unfold dedup_step, has_key.
    destruct (alookup m (Entry_Key e)) eqn:Ee.
    + destruct (alookup m k) eqn:Ek; [reflexivity|].
      destruct (bytes_eqb (Entry_Key e) k) eqn:E; [|reflexivity].
      apply bytes_eqb_eq in E. rewrite E in Ee. rewrite Ee in Ek. discriminate Ek.
    + rewrite alookup_aset. destruct (bytes_eqb (Entry_Key e) k) eqn:E.
      * apply bytes_eqb_eq in E. rewrite E in Ee. rewrite Ee. reflexivity.
      * reflexivity.
Qed.

Lemma alookup_dedup es k : alookup (dedup es) k = first_with_key es k.
Proof. unfold dedup. rewrite alookup_dedup_gen. reflexivity. Qed.

Lemma lookup0_dedup es k : lookup0 entry0 (dedup es) k = first_entry es k.
Proof. unfold lookup0, first_entry. rewrite alookup_dedup. reflexivity. Qed.

Lemma dedup_NoDup_gen es : forall m, NoDup (map fst m) -> NoDup (map fst (fold_left dedup_step es m)).
Proof.
  induction es as [|e es IH]; intros m N; cbn [fold_left]; [exact N|].
  apply IH. unfold dedup_step. destruct (has_key m (Entry_Key e)); [exact N|].
  rewrite map_fst_aset. apply sadd1_NoDup. exact N.
Qed.

Lemma dedup_NoDup es : NoDup (map fst (dedup es)).
Proof. apply dedup_NoDup_gen. constructor. Qed.

Lemma first_entry_ok es k : Forall entry_ok es -> entry_ok (first_entry es k).
Proof.
  intros H. unfold first_entry. destruct (first_with_key es k) eqn:E; [|apply entry0_ok].
  apply first_with_key_some in E as [Hin _]. rewrite Forall_forall in H. apply H. exact Hin.
Qed.

(** the keys of the de-duplicated map, sorted *)
Definition scan_keys (es : list go_Entry) : list bytes := bsort (map fst (dedup es)).

Lemma bmem_scan_keys es k :
  bmem k (scan_keys es) = match first_with_key es k with Some _ => true | None => false end.
Proof.
  unfold scan_keys. rewrite (bmem_perm k _ _ (bsort_perm _)), <- has_key_bmem.
  unfold has_key. rewrite alookup_dedup. reflexivity.
Qed.

Lemma scan_keys_key es k : In k (scan_keys es) -> Entry_Key (first_entry es k) = k.
Proof.
  intros H. apply bmem_In in H. rewrite bmem_scan_keys in H. unfold first_entry.
  destruct (first_with_key es k) eqn:E; [|discriminate H].
  apply first_with_key_some in E as [_ E]. exact E.
Qed.

Lemma scan_keys_strict es : StronglySorted (fun a b => bltb a b = true) (scan_keys es).
Proof.
  unfold scan_keys. apply sorted_nodup_strict; [apply bsort_sorted|].
  apply (Permutation_NoDup (Permutation_sym (bsort_perm _))). apply dedup_NoDup.
Qed.

(** the sorted, de-duplicated entries are the model's [first_wins] *)
Lemma first_wins_to_idx es :
  first_wins (to_idx es) [] = map (fun k => (k, kr_of (first_entry es k))) (scan_keys es).
Proof.
  apply ksorted_ext.
  - apply first_wins_sorted. constructor.
  - apply ksorted_map_key. apply scan_keys_strict.
  - intros k. rewrite kv_find_first_wins_nil, kv_find_to_idx.
    rewrite (kv_find_map_key (fun k => kr_of (first_entry es k))), bmem_scan_keys.
    unfold first_entry. destruct (first_with_key es k); reflexivity.
Qed.

Lemma process_scan_to_idx now es :
  process_scan (Z.to_N now) (to_idx es) =
    map (fun k => (k, kr_of (first_entry es k)))
        (filter (fun k => live now (first_entry es k)) (scan_keys es)).
Proof.
  unfold process_scan. rewrite first_wins_to_idx, filter_map_comm. reflexivity.
Qed.

Lemma scan_result_alt now es :
  scan_result now es = map (first_entry es) (filter (fun k => live now (first_entry es k)) (scan_keys es)).
Proof.
  unfold scan_result. rewrite process_scan_to_idx, !map_map. cbn [fst]. reflexivity.
Qed.

(** ** the liveness test of the last loop *)
Lemma live_test now e :
  0 <= now < 2 ^ 64 -> entry_ok e ->
  (r <- go_IsExpired now (MetaData_TTL (Entry_Meta e)) (MetaData_timestamp (Entry_Meta e)) ;;
   GOk (negb r && negb (MetaData_Flag (Entry_Meta e) =? 0))) = GOk (live now e).
Proof.
  intros Hn (Hf & Ht & Hs). rewrite go_IsExpired_eq by assumption. cbn [gbind].
  unfold live, kr_dead, kr_of, DataDeleteFlag. cbn [kr_flag kr_ttl kr_ts].
  set (x := is_expired _ _ _).
  replace (Z.to_N (MetaData_Flag (Entry_Meta e)) =? 0)%N with (MetaData_Flag (Entry_Meta e) =? 0) by lia.
  destruct x; destruct (MetaData_Flag (Entry_Meta e) =? 0); reflexivity.
Qed.

(** [live] in terms of the Go fields *)
Lemma live_fields now e :
  entry_ok e ->
  live now e = negb (MetaData_Flag (Entry_Meta e) =? 0) &&
               negb (is_expired (Z.to_N now) (Z.to_N (MetaData_TTL (Entry_Meta e)))
                                (Z.to_N (MetaData_timestamp (Entry_Meta e)))).
Proof.
  intros (Hf & _). unfold live, kr_dead, kr_of, DataDeleteFlag. cbn [kr_flag kr_ttl kr_ts].
  replace (Z.to_N (MetaData_Flag (Entry_Meta e)) =? 0)%N with (MetaData_Flag (Entry_Meta e) =? 0) by lia.
  rewrite negb_orb. reflexivity.
Qed.

(** ** the function *)
Theorem go_processEntriesScanOnDisk_eq now mord es :
  mord_ok mord -> 0 <= now < 2 ^ 64 -> Forall entry_ok es ->
  go_processEntriesScanOnDisk now mord es = GOk (scan_result now es).
Proof.
  intros Hm Hn Hes. unfold go_processEntriesScanOnDisk. cbv zeta.
  rewrite ?gmake_0; cbn [gbind].
  (* closed tests before the loops (a fast path for an empty input, ...) *)
  pose_zlen; go_cases; lists_nil;
  lazymatch goal with
  | |- context [grange _ _ _ _] => idtac
  | _ => reflexivity
  end.
  (* the de-duplication loop *)
  rewrite (grange_fold_to_idx _ dedup_step _ _ _ (dedup es)).
  2:{ intros i e m Hi. rewrite ?(gidx_nth _ _ _ Hi). cbn [gbind].
      unfold dedup_step. go_cases; reflexivity. }
  2:{ reflexivity. }
  cbn [gbind]. rewrite ?gmake_0; cbn [gbind].
  (* the sorted keys *)
  rewrite go_SortedEntryKeys_eq by exact Hm. cbn [gbind]. rewrite ?gmake_0; cbn [gbind].
  (* the selection loop *)
  rewrite (grange_fold_to_idx _ (fun acc k => if live now (first_entry es k) then acc ++ [first_entry es k] else acc)
             _ _ _ (scan_result now es)).
  2:{ intros i k acc Hi. rewrite ?(gidx_nth _ _ _ Hi). cbn [gbind].
      fold entry0. rewrite ?lookup0_dedup.
      pose proof (first_entry_ok es k Hes) as Hok.
      rewrite (live_fields now _ Hok). destruct Hok as (Hf & Ht & Hs).
      rewrite ?go_IsExpired_eq by assumption.
      cbn [gbind]. go_cases; reflexivity. }
  2:{ rewrite fold_app_sel. cbn [app]. rewrite scan_result_alt. reflexivity. }
  reflexivity.
Qed.
Print Assumptions go_processEntriesScanOnDisk_eq.

(** ** what the result is *)

(** its abstraction is the model's scan *)
Theorem scan_result_to_idx now es :
  to_idx (scan_result now es) = process_scan (Z.to_N now) (to_idx es).
Proof.
  rewrite scan_result_alt, process_scan_to_idx. unfold to_idx. rewrite map_map.
  apply map_ext_in. intros k Hk. apply filter_In in Hk as [Hk _].
  rewrite (scan_keys_key es k Hk). reflexivity.
Qed.

(** every element is the FIRST entry of [es] with its key *)
Theorem scan_result_first now es :
  Forall (fun e => first_with_key es (Entry_Key e) = Some e) (scan_result now es).
Proof.
  rewrite scan_result_alt. apply Forall_forall. intros e He.
  apply in_map_iff in He as [k [Ek Hk]]. apply filter_In in Hk as [Hk _].
  subst e. rewrite (scan_keys_key es k Hk).
  apply bmem_In in Hk. rewrite bmem_scan_keys in Hk. unfold first_entry.
  destruct (first_with_key es k); [reflexivity|discriminate Hk].
Qed.

Corollary scan_result_incl now es e : In e (scan_result now es) -> In e es.
Proof.
  intros H. pose proof (scan_result_first now es) as F. rewrite Forall_forall in F.
  apply F in H. apply first_with_key_some in H as [H _]. exact H.
Qed.

(** T2, in one statement: no panic, no dependence on [mord], the abstraction of
    the result is [process_scan], and the result is the list of the first
    occurrences in [es] of the keys of [process_scan], in ascending key order *)
Theorem go_processEntriesScanOnDisk_spec now mord es :
  mord_ok mord -> 0 <= now < 2 ^ 64 -> Forall entry_ok es ->
  exists res,
    go_processEntriesScanOnDisk now mord es = GOk res /\
    to_idx res = process_scan (Z.to_N now) (to_idx es) /\
    res = map (first_entry es) (map fst (process_scan (Z.to_N now) (to_idx es))) /\
    Forall (fun e => first_with_key es (Entry_Key e) = Some e) res /\
    (forall e, In e res -> In e es).
Proof.
  intros Hm Hn Hes. exists (scan_result now es).
  split; [apply go_processEntriesScanOnDisk_eq; assumption|].
  split; [apply scan_result_to_idx|].
  split; [reflexivity|].
  split; [apply scan_result_first|].
  intros e. apply scan_result_incl.
Qed.
Print Assumptions go_processEntriesScanOnDisk_spec.

Corollary go_processEntriesScanOnDisk_mord now mord mord' es :
  mord_ok mord -> mord_ok mord' -> 0 <= now < 2 ^ 64 -> Forall entry_ok es ->
  go_processEntriesScanOnDisk now mord es = go_processEntriesScanOnDisk now mord' es.
Proof. intros. rewrite !go_processEntriesScanOnDisk_eq by assumption. reflexivity. Qed.

(* ====================================================================== *)
(** * T3: the result is key-sorted, duplicate-free, and holds the live keys *)
(* ====================================================================== *)

Theorem scan_result_sorted now es : ksorted (to_idx (scan_result now es)).
Proof.
  rewrite scan_result_to_idx. unfold process_scan. apply filter_ksorted.
  apply first_wins_sorted. constructor.
Qed.

Theorem scan_result_NoDup now es : NoDup (map Entry_Key (scan_result now es)).
Proof.
  pose proof (ksorted_NoDup _ (scan_result_sorted now es)) as N.
  unfold to_idx in N. rewrite map_map in N. exact N.
Qed.

(** strictly ascending keys, directly on the entries *)
Theorem scan_result_ascending now es :
  StronglySorted (fun a b => bltb (Entry_Key a) (Entry_Key b) = true) (scan_result now es).
Proof.
  pose proof (scan_result_sorted now es) as S. unfold ksorted, to_idx in S.
  induction (scan_result now es) as [|a l IH]; [constructor|].
  cbn [map] in S. inversion S as [|? ? S' F]; subst. constructor; [apply IH; exact S'|].
  rewrite Forall_forall in F |- *. intros b Hb.
  apply (F (Entry_Key b, kr_of b)). apply (in_map (fun e => (Entry_Key e, kr_of e))). exact Hb.
Qed.

(** an entry is in the result iff it is the first entry of [es] with its key and is live *)
Theorem scan_result_In now es e :
  In e (scan_result now es) <->
  first_with_key es (Entry_Key e) = Some e /\ live now e = true.
Proof.
  rewrite scan_result_alt. split.
  - intros He. apply in_map_iff in He as [k [Ek Hk]]. apply filter_In in Hk as [Hk Hl].
    pose proof (scan_keys_key es k Hk) as Kk. rewrite Ek in Kk, Hl. subst k.
    split; [|exact Hl].
    apply bmem_In in Hk. rewrite bmem_scan_keys in Hk. unfold first_entry in Ek.
    destruct (first_with_key es (Entry_Key e)); [congruence|discriminate Hk].
  - intros [Hf Hl]. apply in_map_iff. exists (Entry_Key e).
    assert (Ef : first_entry es (Entry_Key e) = e) by (unfold first_entry; rewrite Hf; reflexivity).
    split; [exact Ef|]. apply filter_In. split; [|rewrite Ef; exact Hl].
    apply bmem_In. rewrite bmem_scan_keys, Hf. reflexivity.
Qed.

(** a key is in the result iff its first occurrence in [es] is live *)
Theorem scan_result_key now es k :
  In k (map Entry_Key (scan_result now es)) <->
  exists e, first_with_key es k = Some e /\ live now e = true.
Proof.
  split.
  - intros H. apply in_map_iff in H as [e [Ek He]]. apply scan_result_In in He as [Hf Hl].
    exists e. rewrite <- Ek. split; assumption.
  - intros [e [Hf Hl]]. pose proof (first_with_key_some _ _ _ Hf) as [_ Ek].
    apply in_map_iff. exists e. split; [exact Ek|]. apply scan_result_In. rewrite Ek. split; assumption.
Qed.

(** T3 about the Go function itself *)
Theorem go_processEntriesScanOnDisk_keys now mord es :
  mord_ok mord -> 0 <= now < 2 ^ 64 -> Forall entry_ok es ->
  exists res,
    go_processEntriesScanOnDisk now mord es = GOk res /\
    ksorted (to_idx res) /\
    StronglySorted (fun a b => bltb (Entry_Key a) (Entry_Key b) = true) res /\
    NoDup (map Entry_Key res) /\
    (forall e, In e res <-> first_with_key es (Entry_Key e) = Some e /\ live now e = true) /\
    (forall k, In k (map Entry_Key res) <-> exists e, first_with_key es k = Some e /\ live now e = true).
Proof.
  intros Hm Hn Hes. exists (scan_result now es).
  split; [apply go_processEntriesScanOnDisk_eq; assumption|].
  split; [apply scan_result_sorted|].
  split; [apply scan_result_ascending|].
  split; [apply scan_result_NoDup|].
  split; [intros e; apply scan_result_In|intros k; apply scan_result_key].
Qed.
Print Assumptions go_processEntriesScanOnDisk_keys.

(* ====================================================================== *)
(** * T4: Tx.buildTempBucketMetaIdx                                        *)
(* ====================================================================== *)

(** minimum and maximum under bytes.Compare *)
Definition bmin (a b : bytes) : bytes := if bltb b a then b else a.
Definition bmax (a b : bytes) : bytes := if bltb a b then b else a.

Lemma bcmp_z_pos a b : (0 <? bcmp_z a b) = bltb b a.
Proof.
  unfold bcmp_z, bltb. rewrite (bcompare_antisym a b). destruct (bcompare a b); reflexivity.
Qed.

Lemma bcmp_z_neg a b : (bcmp_z a b <? 0) = bltb a b.
Proof. unfold bcmp_z, bltb. destruct (bcompare a b); reflexivity. Qed.

Lemma bleb_refl a : bleb a a = true.
Proof. unfold bleb. rewrite bcompare_refl. reflexivity. Qed.

Lemma bmin_cases a b : (bmin a b = a /\ bleb a b = true) \/ (bmin a b = b /\ bltb b a = true).
Proof.
  unfold bmin. destruct (bltb b a) eqn:E; [right; split; reflexivity|left].
  split; [reflexivity|]. rewrite bleb_bltb, E. reflexivity.
Qed.

Lemma bmax_cases a b : (bmax a b = a /\ bleb b a = true) \/ (bmax a b = b /\ bltb a b = true).
Proof.
  unfold bmax. destruct (bltb a b) eqn:E; [right; split; reflexivity|left].
  split; [reflexivity|]. rewrite bleb_bltb, E. reflexivity.
Qed.

Lemma bmin_le_l a b : bleb (bmin a b) a = true.
Proof.
  destruct (bmin_cases a b) as [[E _]|[E L]]; rewrite E; [apply bleb_refl|apply bltb_bleb; exact L].
Qed.

Lemma bmin_le_r a b : bleb (bmin a b) b = true.
Proof. destruct (bmin_cases a b) as [[E L]|[E _]]; rewrite E; [exact L|apply bleb_refl]. Qed.

Lemma bmax_ge_l a b : bleb a (bmax a b) = true.
Proof.
  destruct (bmax_cases a b) as [[E _]|[E L]]; rewrite E; [apply bleb_refl|apply bltb_bleb; exact L].
Qed.

Lemma bmax_ge_r a b : bleb b (bmax a b) = true.
Proof. destruct (bmax_cases a b) as [[E L]|[E _]]; rewrite E; [exact L|apply bleb_refl]. Qed.

(** one call, given the verdict [nonnil] of the test [bucketMetaTemp.start != nil] *)
Definition bm_step (nonnil : bool) (key : bytes) (t : go_BucketMeta) : go_BucketMeta :=
  let ks := wrapU 32 (zlen key) in
  if nonnil then
    mk_go_BucketMeta
      (if bltb key (BucketMeta_start t) then ks else BucketMeta_startSize t)
      (if bltb (BucketMeta_end t) key then ks else BucketMeta_endSize t)
      (bmin (BucketMeta_start t) key)
      (bmax (BucketMeta_end t) key)
      (BucketMeta_crc t)
  else mk_go_BucketMeta ks ks key key 0.

(** case analysis on atomic tests (as [go_cases]) that also computes the fields of records *)
Ltac bm_simpl :=
  cbn [andb orb negb gbind fst snd CompOpp
       BucketMeta_start BucketMeta_end BucketMeta_startSize BucketMeta_endSize BucketMeta_crc].
Ltac bm_case :=
  match goal with
  | |- context [if ?c then _ else _] => bool_atom c; cbv beta iota; bm_simpl
  end.
(** the helper [compare] (bptree.go), when it is called and not bytes.Compare itself: its
    translation is unfolded whatever its name *)
Ltac unfold_compare :=
  repeat match goal with
         | |- context [gbind (?f ?a ?b) _] =>
             is_const f;
             lazymatch type of f with bytes -> bytes -> gres Z => idtac end;
             progress unfold f
         end.
(** every comparison of [key] with [st] or [en] in one orientation, and its known verdict *)
Ltac bm_norm st en key Hcs Hce :=
  cbv beta iota; bm_simpl; unfold_compare; cbv zeta; bm_simpl;
  rewrite ?(bcompare_antisym st key), ?(bcompare_antisym en key), ?Hcs, ?Hce;
  cbv beta iota; bm_simpl.

(** T4.  The oracle is consulted at one site [n], on the start key: for every
    answer the call computes [bm_step] of the verdict; the transaction is unchanged *)
Theorem go_buildTempBucketMetaIdx_eq orc tx bucket key temp :
  exists n,
    go_Tx_buildTempBucketMetaIdx orc tx bucket key temp =
      GOk (tx, bm_step (slice_nonnil (orc n) (BucketMeta_start temp)) key temp).
Proof.
  unfold go_Tx_buildTempBucketMetaIdx. unfold_compare. cbv zeta.
  match goal with |- context [slice_nonnil (orc ?n) _] => exists n end.
  unfold bm_step, bmin, bmax, bltb, bcmp_z. cbv zeta.
  destruct temp as [ss es st en c].
  unfold set_BucketMeta_start, set_BucketMeta_startSize, set_BucketMeta_end, set_BucketMeta_endSize,
    set_BucketMeta_crc.
  bm_simpl.
  (* every comparison of two keys in one orientation, then the three-way cases *)
  destruct (bcompare st key) eqn:Hcs; destruct (bcompare en key) eqn:Hce;
    repeat (bm_norm st en key Hcs Hce; bm_case; try (exfalso; lia));
    bm_norm st en key Hcs Hce; reflexivity.
Qed.
Print Assumptions go_buildTempBucketMetaIdx_eq.

(** the two cases *)
Corollary go_buildTempBucketMetaIdx_nil orc tx bucket key temp :
  BucketMeta_start temp = [] -> (forall n, orc n = false) ->
  go_Tx_buildTempBucketMetaIdx orc tx bucket key temp =
    GOk (tx, mk_go_BucketMeta (wrapU 32 (zlen key)) (wrapU 32 (zlen key)) key key 0).
Proof.
  intros Hs Ho. destruct (go_buildTempBucketMetaIdx_eq orc tx bucket key temp) as [n E].
  rewrite E, Hs, Ho. reflexivity.
Qed.

Corollary go_buildTempBucketMetaIdx_nonnil orc tx bucket key temp :
  BucketMeta_start temp <> [] \/ (forall n, orc n = true) ->
  go_Tx_buildTempBucketMetaIdx orc tx bucket key temp =
    GOk (tx, mk_go_BucketMeta
               (if bltb key (BucketMeta_start temp) then wrapU 32 (zlen key) else BucketMeta_startSize temp)
               (if bltb (BucketMeta_end temp) key then wrapU 32 (zlen key) else BucketMeta_endSize temp)
               (bmin (BucketMeta_start temp) key)
               (bmax (BucketMeta_end temp) key)
               (BucketMeta_crc temp)).
Proof.
  intros H. destruct (go_buildTempBucketMetaIdx_eq orc tx bucket key temp) as [n E]. rewrite E.
  assert (Hn : slice_nonnil (orc n) (BucketMeta_start temp) = true).
  { destruct H as [H|H].
    - destruct (BucketMeta_start temp); [contradiction H; reflexivity|reflexivity].
    - rewrite H. destruct (BucketMeta_start temp); reflexivity. }
  rewrite Hn. reflexivity.
Qed.

(** the sizes are the lengths of the keys (as uint32) *)
Definition bm_sized (t : go_BucketMeta) : Prop :=
  BucketMeta_startSize t = wrapU 32 (zlen (BucketMeta_start t)) /\
  BucketMeta_endSize t = wrapU 32 (zlen (BucketMeta_end t)).

Lemma bm_step_sized b key t : (b = true -> bm_sized t) -> bm_sized (bm_step b key t).
Proof.
  intros H. unfold bm_step, bm_sized, bmin, bmax. cbv zeta. destruct b.
  - destruct (H eq_refl) as [H1 H2].
    cbn [BucketMeta_start BucketMeta_end BucketMeta_startSize BucketMeta_endSize].
    destruct (bltb key (BucketMeta_start t)); destruct (bltb (BucketMeta_end t) key);
      split; first [reflexivity|assumption].
  - cbn [BucketMeta_start BucketMeta_end BucketMeta_startSize BucketMeta_endSize].
    split; reflexivity.
Qed.

Lemma wrapU32_small z : 0 <= z < 2 ^ 32 -> wrapU 32 z = z.
Proof. intros H. unfold wrapU. apply Z.mod_small. exact H. Qed.

(** ** the fold over a list of keys *)

(** the calls of the caller's loop; call number [i] has its own oracle (the
    answers to the nil tests of one execution) *)
Fixpoint go_build_all (orcs : nat -> Z -> bool) (i : nat) (tx : go_Tx) (bucket : bytes)
         (keys : list bytes) (temp : go_BucketMeta) : gres (go_Tx * go_BucketMeta) :=
  match keys with
  | [] => GOk (tx, temp)
  | k :: r =>
      '(tx', t') <- go_Tx_buildTempBucketMetaIdx (orcs i) tx bucket k temp ;;
      go_build_all orcs (S i) tx' bucket r t'
  end.

Definition bmin_list (k0 : bytes) (ks : list bytes) : bytes := fold_left bmin ks k0.
Definition bmax_list (k0 : bytes) (ks : list bytes) : bytes := fold_left bmax ks k0.

Lemma bmin_list_spec ks : forall k0,
  In (bmin_list k0 ks) (k0 :: ks) /\ Forall (fun k => bleb (bmin_list k0 ks) k = true) (k0 :: ks).
Proof.
  unfold bmin_list. induction ks as [|k ks IH]; intros k0; cbn [fold_left].
  - split; [left; reflexivity|]. constructor; [apply bleb_refl|constructor].
  - destruct (IH (bmin k0 k)) as [Hin Hall]. split.
    + destruct Hin as [Hin|Hin]; [|right; right; exact Hin].
      rewrite <- Hin. destruct (bmin_cases k0 k) as [[E _]|[E _]]; rewrite E;
        [left; reflexivity|right; left; reflexivity].
    + inversion Hall as [|? ? Hm Hr]; subst.
      constructor; [|constructor; [|exact Hr]].
      * apply (SetFacts.bleb_trans _ _ _ Hm). apply bmin_le_l.
      * apply (SetFacts.bleb_trans _ _ _ Hm). apply bmin_le_r.
Qed.

Lemma bmax_list_spec ks : forall k0,
  In (bmax_list k0 ks) (k0 :: ks) /\ Forall (fun k => bleb k (bmax_list k0 ks) = true) (k0 :: ks).
Proof.
  unfold bmax_list. induction ks as [|k ks IH]; intros k0; cbn [fold_left].
  - split; [left; reflexivity|]. constructor; [apply bleb_refl|constructor].
  - destruct (IH (bmax k0 k)) as [Hin Hall]. split.
    + destruct Hin as [Hin|Hin]; [|right; right; exact Hin].
      rewrite <- Hin. destruct (bmax_cases k0 k) as [[E _]|[E _]]; rewrite E;
        [left; reflexivity|right; left; reflexivity].
    + inversion Hall as [|? ? Hm Hr]; subst.
      constructor; [|constructor; [|exact Hr]].
      * apply (SetFacts.bleb_trans _ (bmax k0 k)); [apply bmax_ge_l|exact Hm].
      * apply (SetFacts.bleb_trans _ (bmax k0 k)); [apply bmax_ge_r|exact Hm].
Qed.

Lemma bmin_nonempty a b : a <> [] -> b <> [] -> bmin a b <> [].
Proof. intros Ha Hb. unfold bmin. destruct (bltb b a); assumption. Qed.

(** once the start key is non-nil, every later call widens the range *)
Lemma go_build_all_nonnil orcs tx bucket ks : forall i temp,
  (forall j n, (i <= j)%nat -> orcs j n = true) \/
  (BucketMeta_start temp <> [] /\ Forall (fun k => k <> []) ks) ->
  go_build_all orcs i tx bucket ks temp =
    GOk (tx, fold_left (fun t k => bm_step true k t) ks temp).
Proof.
  induction ks as [|k ks IH]; intros i temp H; cbn [go_build_all fold_left]; [reflexivity|].
  rewrite go_buildTempBucketMetaIdx_nonnil.
  2:{ destruct H as [H|[H _]]; [right; intros n; apply H; lia|left; exact H]. }
  cbn [gbind]. rewrite IH; [reflexivity|].
  destruct H as [H|[H1 H2]]; [left; intros j n Hj; apply H; lia|right].
  inversion H2 as [|? ? Hk Hks]; subst. split; [|exact Hks].
  cbn [BucketMeta_start]. apply bmin_nonempty; assumption.
Qed.

Lemma bm_fold_fields ks : forall t, bm_sized t ->
  fold_left (fun t k => bm_step true k t) ks t =
    mk_go_BucketMeta (wrapU 32 (zlen (bmin_list (BucketMeta_start t) ks)))
                     (wrapU 32 (zlen (bmax_list (BucketMeta_end t) ks)))
                     (bmin_list (BucketMeta_start t) ks)
                     (bmax_list (BucketMeta_end t) ks)
                     (BucketMeta_crc t).
Proof.
  unfold bmin_list, bmax_list.
  induction ks as [|k ks IH]; intros t Hs; cbn [fold_left].
  - destruct Hs as [H1 H2]. rewrite <- H1, <- H2. destruct t; reflexivity.
  - rewrite IH by (apply bm_step_sized; intros _; exact Hs). reflexivity.
Qed.

(** the zero BucketMeta of the caller (nil start) *)
Definition bm0 : go_BucketMeta := mk_go_BucketMeta 0 0 [] [] 0.

(** Fold corollary.  The start key of [bm0] is nil: the oracle of the first call
    answers "nil"; afterwards the start key is a key of the list: it is non-nil,
    which [slice_nonnil] decides by itself when the keys are non-empty and
    which the oracle must say for an empty (non-nil) key. *)
Theorem go_build_all_eq orcs tx bucket k0 ks :
  (forall n, orcs 0%nat n = false) ->
  (forall i n, (0 < i)%nat -> orcs i n = true) \/ Forall (fun k => k <> []) (k0 :: ks) ->
  go_build_all orcs 0 tx bucket (k0 :: ks) bm0 =
    GOk (tx, mk_go_BucketMeta (wrapU 32 (zlen (bmin_list k0 ks))) (wrapU 32 (zlen (bmax_list k0 ks)))
                              (bmin_list k0 ks) (bmax_list k0 ks) 0) /\
  In (bmin_list k0 ks) (k0 :: ks) /\ Forall (fun k => bleb (bmin_list k0 ks) k = true) (k0 :: ks) /\
  In (bmax_list k0 ks) (k0 :: ks) /\ Forall (fun k => bleb k (bmax_list k0 ks) = true) (k0 :: ks).
Proof.
  intros H0 H. split; [|pose proof (bmin_list_spec ks k0); pose proof (bmax_list_spec ks k0); tauto].
  cbn [go_build_all]. rewrite go_buildTempBucketMetaIdx_nil by (try reflexivity; exact H0).
  cbn [gbind]. rewrite go_build_all_nonnil.
  - rewrite bm_fold_fields by (split; reflexivity). reflexivity.
  - destruct H as [H|H]; [left; intros j n Hj; apply H; lia|right].
    inversion H as [|? ? Hk Hks]; subst. split; [exact Hk|exact Hks].
Qed.
Print Assumptions go_build_all_eq.

(** the same with one oracle for all the calls, for non-empty keys *)
Corollary go_build_all_eq1 orc tx bucket k0 ks :
  (forall n, orc n = false) -> Forall (fun k => k <> []) (k0 :: ks) ->
  go_build_all (fun _ => orc) 0 tx bucket (k0 :: ks) bm0 =
    GOk (tx, mk_go_BucketMeta (wrapU 32 (zlen (bmin_list k0 ks))) (wrapU 32 (zlen (bmax_list k0 ks)))
                              (bmin_list k0 ks) (bmax_list k0 ks) 0).
Proof.
  intros H0 Hk. apply (go_build_all_eq (fun _ => orc) tx bucket k0 ks); [exact H0|right; exact Hk].
Qed.

(** plain lengths when the keys are shorter than 2^32 *)
Corollary go_build_all_sizes orcs tx bucket k0 ks :
  (forall n, orcs 0%nat n = false) ->
  (forall i n, (0 < i)%nat -> orcs i n = true) \/ Forall (fun k => k <> []) (k0 :: ks) ->
  Forall (fun k => zlen k < 2 ^ 32) (k0 :: ks) ->
  go_build_all orcs 0 tx bucket (k0 :: ks) bm0 =
    GOk (tx, mk_go_BucketMeta (zlen (bmin_list k0 ks)) (zlen (bmax_list k0 ks))
                              (bmin_list k0 ks) (bmax_list k0 ks) 0).
Proof.
  intros H0 H Hl. destruct (go_build_all_eq orcs tx bucket k0 ks H0 H) as (E & I1 & _ & I2 & _).
  rewrite E. rewrite Forall_forall in Hl.
  rewrite !wrapU32_small; [reflexivity| |].
  - split; [unfold zlen; lia|apply Hl; exact I2].
  - split; [unfold zlen; lia|apply Hl; exact I1].
Qed.
Print Assumptions go_build_all_sizes.
