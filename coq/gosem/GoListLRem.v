(** GoListLRem.v — the translated List.LRem (counting pass, forward or backward
    filtering pass into a freshly made slice, in-place reversal) equals the
    model's [l_lrem]. *)
From Verif Require Import Bytes BytesFacts ListDS ListFacts.
From VerifGo Require Import GoSem GoListFacts.
From VerifGen Require Import GoList.
From Coq Require Import Strings.String Lia ZifyBool List.
Import ListNotations.
Open Scope Z_scope.

Ltac pow2 :=
  try change (2 ^ 62) with 4611686018427387904 in *;
  try change (2 ^ 63) with 9223372036854775808 in *.

(* ====================================================================== *)
(** * GoSem lemmas (general facts about the combinators of GoSem.v)        *)
(* ====================================================================== *)

(** ** 64-bit wrap is the identity on in-range values *)
Lemma int_ok_62 z : - 2 ^ 62 <= z <= 2 ^ 62 -> int_ok z.
Proof. unfold int_ok. pow2. lia. Qed.

Lemma iadd_id a b : int_ok (a + b) -> iadd a b = a + b.
Proof. intros H. unfold iadd. apply wrapS64_id. exact H. Qed.

Lemma isub_id a b : int_ok (a - b) -> isub a b = a - b.
Proof. intros H. unfold isub. apply wrapS64_id. exact H. Qed.

Lemma ineg_id a : int_ok (- a) -> ineg a = - a.
Proof. intros H. unfold ineg. apply wrapS64_id. exact H. Qed.

Lemma quot2_bounds n : 0 <= n -> 0 <= Z.quot n 2 /\ 2 * Z.quot n 2 <= n < 2 * Z.quot n 2 + 2.
Proof.
  intros Hn. rewrite Z.quot_div_nonneg by lia.
  pose proof (Z.div_mod n 2 ltac:(lia)) as Hdm.
  pose proof (Z.mod_pos_bound n 2 ltac:(lia)) as Hmb.
  lia.
Qed.

(** ** monad *)
Lemma if_GOk {A} (b : bool) (x y : A) : (if b then GOk x else GOk y) = GOk (if b then x else y).
Proof. destruct b; reflexivity. Qed.

(** ** zlen *)
Lemma zlen_nil {A} : zlen (@nil A) = 0.
Proof. reflexivity. Qed.

Lemma zlen_cons {A} (x : A) l : zlen (x :: l) = zlen l + 1.
Proof. unfold zlen. cbn [length]. lia. Qed.

Lemma zlen_app {A} (a b : list A) : zlen (a ++ b) = zlen a + zlen b.
Proof. unfold zlen. rewrite app_length. lia. Qed.

Lemma zlen_repeat {A} (x : A) n : zlen (repeat x n) = Z.of_nat n.
Proof. unfold zlen. rewrite repeat_length. reflexivity. Qed.

Lemma zlen_rev {A} (l : list A) : zlen (rev l) = zlen l.
Proof. unfold zlen. rewrite rev_length. reflexivity. Qed.

(** ** slices: success conditions of gidx / gupd / gmake *)
Lemma gidx_ok {A} (l : list A) i d : 0 <= i < zlen l -> gidx l i = GOk (nth (Z.to_nat i) l d).
Proof.
  intros Hi. unfold gidx.
  destruct ((0 <=? i) && (i <? zlen l)) eqn:E; [|lia].
  destruct (nth_error l (Z.to_nat i)) as [y|] eqn:En.
  - apply nth_error_nth with (d := d) in En. rewrite En. reflexivity.
  - apply nth_error_None in En. unfold zlen in Hi. lia.
Qed.

Lemma gupd_ok {A} (l : list A) i v : 0 <= i < zlen l -> gupd l i v = GOk (upd_nth l (Z.to_nat i) v).
Proof.
  intros Hi. unfold gupd.
  destruct ((0 <=? i) && (i <? zlen l)) eqn:E; [reflexivity|lia].
Qed.

Lemma gmake_ok {A} (z : A) n : 0 <= n -> gmake z n = GOk (repeat z (Z.to_nat n)).
Proof.
  intros Hn. unfold gmake. destruct (n <? 0) eqn:E; [lia|reflexivity].
Qed.

Lemma length_upd_nth {A} (l : list A) i v : length (upd_nth l i v) = length l.
Proof.
  revert i. induction l as [|x l IH]; intros i; [reflexivity|].
  destruct i as [|i]; cbn [upd_nth length]; [reflexivity|]. rewrite IH. reflexivity.
Qed.

Lemma zlen_upd_nth {A} (l : list A) i v : zlen (upd_nth l i v) = zlen l.
Proof. unfold zlen. rewrite length_upd_nth. reflexivity. Qed.

Lemma nth_upd_nth {A} (l : list A) i j v d : (i < length l)%nat ->
  nth j (upd_nth l i v) d = if Nat.eqb j i then v else nth j l d.
Proof.
  revert i j. induction l as [|x l IH]; intros i j Hi; cbn [length] in Hi; [lia|].
  destruct i as [|i]; destruct j as [|j]; cbn [upd_nth nth Nat.eqb]; try reflexivity.
  apply IH. lia.
Qed.

Lemma upd_nth_app_here {A} (p q : list A) x v : upd_nth (p ++ x :: q) (length p) v = p ++ v :: q.
Proof.
  induction p as [|y p IH]; cbn [app length upd_nth]; [reflexivity|]. rewrite IH. reflexivity.
Qed.

Lemma rev_firstn_S {A} (l : list A) n d : (n < length l)%nat ->
  rev (firstn (S n) l) = nth n l d :: rev (firstn n l).
Proof.
  revert n. induction l as [|x l IH]; intros n Hn; cbn [length] in Hn; [lia|].
  destruct n as [|n]; [reflexivity|].
  change (firstn (S (S n)) (x :: l)) with (x :: firstn (S n) l).
  change (firstn (S n) (x :: l)) with (x :: firstn n l).
  cbn [rev nth]. rewrite (IH n) by lia. reflexivity.
Qed.

(** ** range loop: invariant rule (no break/return taken) *)
Lemma grange_inv {A S R} (I : list A -> S -> Prop) (body : Z -> A -> S -> gres (lstep S R)) :
  (forall j x rest s, I (x :: rest) s -> exists s', body j x s = GOk (LNext s') /\ I rest s') ->
  forall l j s, I l s -> exists s', grange body j l s = GOk (inl s') /\ I [] s'.
Proof.
  intros Hbody l. induction l as [|x rest IH]; intros j s HI.
  - exists s. split; [reflexivity|exact HI].
  - destruct (Hbody j x rest s HI) as (s1 & Hb & HI1).
    cbn [grange]. rewrite Hb. cbn [gbind]. apply IH. exact HI1.
Qed.

(** ** range loop as a fold, where the body may [break] once the fold is stationary *)
Lemma grange_fold_break {A S R} (f : S -> A -> S) (I : list A -> S -> Prop)
      (body : Z -> A -> S -> gres (lstep S R)) :
  (forall j x rest s, I (x :: rest) s ->
     (body j x s = GOk (LNext (f s x)) /\ I rest (f s x)) \/
     (body j x s = GOk (LBreak s) /\ forall l', fold_left f l' s = s)) ->
  forall l j s, I l s -> grange body j l s = GOk (inl (fold_left f l s)).
Proof.
  intros Hbody l. induction l as [|x rest IH]; intros j s HI.
  - reflexivity.
  - cbn [grange fold_left].
    destruct (Hbody j x rest s HI) as [[Hb HI1]|[Hb Hst]].
    + rewrite Hb. cbn [gbind]. apply IH. exact HI1.
    + rewrite Hb. cbn [gbind]. change (fold_left f rest (f s x)) with (fold_left f (x :: rest) s).
      rewrite Hst. reflexivity.
Qed.

(** ** fuelled for loop: invariant + variant rule (no break/return taken) *)
Lemma gfor_inv {S R} (I : S -> Prop) (m : S -> nat) (cond : S -> bool)
      (body : S -> gres (lstep S R)) (post : S -> S) :
  (forall s, I s -> cond s = true ->
     exists s', body s = GOk (LNext s') /\ I (post s') /\ (m (post s') < m s)%nat) ->
  forall fuel s, I s -> (m s < fuel)%nat ->
    exists s', gfor fuel cond body post s = GOk (inl s') /\ I s' /\ cond s' = false.
Proof.
  intros Hbody fuel. induction fuel as [|f IH]; intros s HI Hm.
  - lia.
  - cbn [gfor]. destruct (cond s) eqn:Ec.
    + destruct (Hbody s HI Ec) as (s1 & Hb & HI1 & Hlt).
      rewrite Hb. cbn [gbind]. apply IH; [exact HI1|lia].
    + exists s. split; [reflexivity|]. split; [exact HI|exact Ec].
Qed.

(* ====================================================================== *)
(** * Model-side facts about [remove_first] / [occ]                        *)
(* ====================================================================== *)

Lemma occ_le_length v l : (occ v l <= length l)%nat.
Proof.
  induction l as [|x l IH]; cbn [occ length]; [lia|]. destruct (bytes_eqb x v); lia.
Qed.

Lemma remove_first_nil n v : remove_first n v [] = [].
Proof. destruct n; reflexivity. Qed.

Lemma remove_first_cons_keep n v x r : (n = O \/ bytes_eqb x v = false) ->
  remove_first n v (x :: r) = x :: remove_first n v r.
Proof.
  intros H. destruct n as [|n].
  - rewrite !remove_first_0. reflexivity.
  - destruct H as [H|H]; [discriminate|]. cbn [remove_first]. rewrite H. reflexivity.
Qed.

Lemma length_remove_first n v l : (length (remove_first n v l) + Nat.min n (occ v l) = length l)%nat.
Proof.
  revert n. induction l as [|x l IH]; intros n.
  - rewrite remove_first_nil. cbn [occ length]. lia.
  - destruct n as [|n].
    + rewrite remove_first_0. lia.
    + cbn [remove_first occ]. specialize (IH n) as IHn. specialize (IH (S n)) as IHS.
      destruct (bytes_eqb x v); cbn [length]; lia.
Qed.

(* ====================================================================== *)
(** * The filtering pass (shared by the forward and the backward loop)     *)
(* ====================================================================== *)

(** Scanning [rest] with [r] matches already dropped (at most [c] may be), the
    kept elements [pre] written at the front of the buffer, write index at
    [zlen pre]; [K] is the final buffer contents and [need] the final count. *)
Definition filt_inv (c : Z) (v : bytes) (K : list bytes) (need : Z)
           (rest : list bytes) (r : Z) (buf : list bytes) (idx : Z) : Prop :=
  exists pre,
    buf = pre ++ repeat ([] : bytes) (length K - length pre) /\
    idx = zlen pre /\
    0 <= r <= c /\
    pre ++ remove_first (Z.to_nat (c - r)) v rest = K /\
    r + (zlen rest - zlen (remove_first (Z.to_nat (c - r)) v rest)) = need.

Lemma filt_init c v l need : 0 <= c ->
  zlen l - zlen (remove_first (Z.to_nat c) v l) = need ->
  filt_inv c v (remove_first (Z.to_nat c) v l) need l 0
           (repeat ([] : bytes) (length (remove_first (Z.to_nat c) v l))) 0.
Proof.
  intros Hc Hn. exists []. cbn [app length]. rewrite Nat.sub_0_r, Z.sub_0_r.
  split; [reflexivity|]. split; [reflexivity|]. split; [lia|]. split; [reflexivity|lia].
Qed.

Lemma filt_final c v K need r buf idx :
  filt_inv c v K need [] r buf idx -> r = need /\ buf = K /\ idx = zlen K.
Proof.
  intros (pre & Hbuf & Hidx & Hr & HK & Hn).
  rewrite remove_first_nil in HK, Hn. rewrite app_nil_r in HK. subst pre.
  rewrite Nat.sub_diag in Hbuf. cbn [repeat] in Hbuf. rewrite app_nil_r in Hbuf.
  unfold zlen in Hn; cbn [length] in Hn. split; [lia|]. split; assumption.
Qed.

Lemma filt_step c v K need x rest r buf idx :
  c < 2 ^ 62 -> zlen K < 2 ^ 62 ->
  filt_inv c v K need (x :: rest) r buf idx ->
  if (r <? c) && bytes_eqb x v
  then iadd r 1 = r + 1 /\ filt_inv c v K need rest (r + 1) buf idx
  else exists buf', gupd buf idx x = GOk buf' /\ iadd idx 1 = idx + 1 /\
                    filt_inv c v K need rest r buf' (idx + 1).
Proof.
  intros Hc HKb (pre & Hbuf & Hidx & Hr & HK & Hn).
  destruct ((r <? c) && bytes_eqb x v) eqn:E.
  - apply andb_true_iff in E as [E1 E2].
    split; [apply iadd_id, int_ok_62; pow2; lia|].
    exists pre.
    replace (Z.to_nat (c - r)) with (S (Z.to_nat (c - (r + 1)))) in HK, Hn by lia.
    cbn [remove_first] in HK, Hn. rewrite E2 in HK, Hn. rewrite zlen_cons in Hn.
    split; [exact Hbuf|]. split; [exact Hidx|]. split; [lia|]. split; [exact HK|lia].
  - assert (Hkeep : remove_first (Z.to_nat (c - r)) v (x :: rest)
                    = x :: remove_first (Z.to_nat (c - r)) v rest).
    { apply remove_first_cons_keep. apply andb_false_iff in E as [E|E]; [left; lia|right; exact E]. }
    rewrite Hkeep in HK, Hn.
    assert (Hlen : (length pre < length K)%nat).
    { rewrite <- HK, app_length. cbn [length]. lia. }
    pose proof (zlen_nonneg pre) as Hpre0.
    assert (HidxK : idx < zlen K) by (subst idx; unfold zlen; lia).
    exists (upd_nth buf (Z.to_nat idx) x).
    split.
    { apply gupd_ok. subst buf. rewrite zlen_app, zlen_repeat. subst idx. unfold zlen in *. lia. }
    split; [apply iadd_id, int_ok_62; pow2; lia|].
    exists (pre ++ [x]).
    split.
    { subst buf idx. unfold zlen. rewrite Nat2Z.id.
      replace (length K - length pre)%nat with (S (length K - length (pre ++ [x])))
        by (rewrite app_length; cbn [length]; lia).
      cbn [repeat]. rewrite upd_nth_app_here. rewrite <- app_assoc. reflexivity. }
    split; [subst idx; rewrite zlen_app, zlen_cons, zlen_nil; lia|].
    split; [lia|].
    split; [rewrite <- app_assoc; exact HK|].
    rewrite !zlen_cons in Hn. lia.
Qed.

(** the backward loop scans [rev l] by index, from [zlen l - 1] down to 0 *)
Definition back_inv (c : Z) (v : bytes) (K : list bytes) (need : Z) (l : list bytes)
           (r : Z) (buf : list bytes) (idx : Z) (i : Z) : Prop :=
  -1 <= i < zlen l /\
  filt_inv c v K need (rev (firstn (Z.to_nat (i + 1)) l)) r buf idx.

Lemma back_step c v K need l r buf idx i :
  zlen l < 2 ^ 62 ->
  back_inv c v K need l r buf idx i -> 0 <= i ->
  exists x, gidx l i = GOk x /\ isub i 1 = i - 1 /\ -1 <= i - 1 < zlen l /\
            filt_inv c v K need (x :: rev (firstn (Z.to_nat (i - 1 + 1)) l)) r buf idx.
Proof.
  intros Hl [Hi HF] Hi0.
  exists (nth (Z.to_nat i) l []).
  split; [apply gidx_ok; lia|].
  split; [apply isub_id, int_ok_62; pow2; lia|].
  split; [lia|].
  replace (Z.to_nat (i + 1)) with (S (Z.to_nat i)) in HF by lia.
  rewrite (rev_firstn_S l (Z.to_nat i) []) in HF by (unfold zlen in Hi; lia).
  replace (i - 1 + 1) with i by lia. exact HF.
Qed.

(* ====================================================================== *)
(** * The in-place reversal by swaps                                       *)
(* ====================================================================== *)

(** after [k] swaps the outer [k] elements on both sides are mirrored *)
Definition swap_inv (K : list bytes) (buf : list bytes) (i : Z) : Prop :=
  exists k : nat,
    i = Z.of_nat k /\ (2 * k <= length K)%nat /\ length buf = length K /\
    forall j, (j < length K)%nat ->
      nth j buf ([] : bytes) =
      if ((j <? k) || (length K - k <=? j))%nat
      then nth (length K - 1 - j) K [] else nth j K [].

Lemma swap_init K : swap_inv K K 0.
Proof.
  exists O. split; [reflexivity|]. split; [lia|]. split; [reflexivity|].
  intros j Hj.
  destruct ((j <? 0) || (length K - 0 <=? j))%nat eqn:E; [lia|reflexivity].
Qed.

Lemma swap_final K buf i :
  swap_inv K buf i -> Z.quot (zlen K) 2 <= i -> buf = rev K.
Proof.
  intros (k & Hi & Hk & Hlen & Hnth) Hq.
  pose proof (quot2_bounds (zlen K) (zlen_nonneg K)) as Hb. unfold zlen in Hb, Hq.
  apply nth_ext with (d := ([] : bytes)) (d' := ([] : bytes)).
  - rewrite rev_length. exact Hlen.
  - intros j Hj. rewrite Hlen in Hj. rewrite rev_nth by exact Hj.
    rewrite (Hnth j Hj).
    destruct ((j <? k) || (length K - k <=? j))%nat eqn:E; f_equal; lia.
Qed.

Lemma swap_step K buf i :
  zlen K < 2 ^ 62 -> swap_inv K buf i -> i < Z.quot (zlen K) 2 ->
  let j := zlen K - i - 1 in
  isub (isub (zlen K) i) 1 = j /\ iadd i 1 = i + 1 /\
  exists a b buf1 buf2,
    gidx buf j = GOk a /\ gidx buf i = GOk b /\
    gupd buf i a = GOk buf1 /\ gupd buf1 j b = GOk buf2 /\
    swap_inv K buf2 (i + 1).
Proof.
  intros HK (k & Hi & Hk & Hlen & Hnth) Hq j.
  pose proof (quot2_bounds (zlen K) (zlen_nonneg K)) as Hb.
  assert (Hzl : zlen buf = zlen K) by (unfold zlen; rewrite Hlen; reflexivity).
  assert (Hj : 0 <= j < zlen K) by (subst j; lia).
  split.
  { rewrite (isub_id (zlen K) i) by (apply int_ok_62; pow2; lia).
    apply isub_id, int_ok_62; pow2; lia. }
  split; [apply iadd_id, int_ok_62; pow2; lia|].
  exists (nth (Z.to_nat j) buf []), (nth (Z.to_nat i) buf []).
  eexists. eexists.
  split; [apply gidx_ok; lia|].
  split; [apply gidx_ok; lia|].
  split; [apply gupd_ok; lia|].
  split; [apply gupd_ok; rewrite zlen_upd_nth; lia|].
  exists (S k).
  unfold zlen in *.
  split; [lia|]. split; [lia|].
  split; [rewrite !length_upd_nth; exact Hlen|].
  intros n Hn.
  rewrite nth_upd_nth by (rewrite length_upd_nth; lia).
  rewrite nth_upd_nth by lia.
  assert (Ei : Z.to_nat i = k) by lia.
  assert (Ej : Z.to_nat j = (length K - 1 - k)%nat) by (subst j; lia).
  rewrite Ei, Ej.
  rewrite (Hnth k) by lia. rewrite (Hnth (length K - 1 - k)%nat) by lia. rewrite (Hnth n) by exact Hn.
  destruct (Nat.eqb n (length K - 1 - k)) eqn:E1;
  destruct (Nat.eqb n k) eqn:E2;
  destruct ((k <? k) || (length K - k <=? k))%nat eqn:E3;
  destruct ((length K - 1 - k <? k) || (length K - k <=? length K - 1 - k))%nat eqn:E4;
  destruct ((n <? k) || (length K - k <=? n))%nat eqn:E5;
  destruct ((n <? S k) || (length K - S k <=? n))%nat eqn:E6;
  try lia; try reflexivity; f_equal; lia.
Qed.

(* ====================================================================== *)
(** * LRemNum (local copy of the specification also proved in GoListFacts) *)
(* ====================================================================== *)

Lemma count_step_stationary c v r (l' : list bytes) :
  (0 <? c) && (r =? c) = true ->
  fold_left (fun r x => if (0 <? c) && (r =? c) then r
                        else if bytes_eqb x v then r + 1 else r) l' r = r.
Proof.
  intros E. induction l' as [|x l' IH]; [reflexivity|].
  cbn [fold_left]. rewrite E. exact IH.
Qed.

Lemma go_LRemNum_spec l key count v : items_ok l -> int_ok count ->
  exists g, go_List_LRemNum l key count v = GOk (l, g) /\
            agrees 0 g (l_lremnum (List_Items l) key count v).
Proof. exact (go_LRemNum_eq l key count v). Qed.

(* ====================================================================== *)
(** * LRem                                                                 *)
(* ====================================================================== *)

(** wrap-free arithmetic on closed terms, bounds by [lia] from the 2^62 bounds *)
Ltac go_arith62 :=
  match goal with
  | |- context [iadd ?a ?b] => rewrite (iadd_id a b) by (apply int_ok_62; pow2; lia)
  | |- context [isub ?a ?b] => rewrite (isub_id a b) by (apply int_ok_62; pow2; lia)
  | |- context [ineg ?a] => rewrite (ineg_id a) by (apply int_ok_62; pow2; lia)
  end.

(** the code's value [x] of a conditional assignment is the model's value [m] *)
Ltac same_value x m :=
  let H := fresh in
  assert (H : x = m) by (subst x; subst m; go_cases; first [reflexivity | lia]);
  clearbody x; subst x.

(** one iteration of a filtering loop, given [Hstep], the instance of [filt_step]
    for the current element; [fin] finishes the goal from the new invariant *)
Ltac filt_iter Hstep fin :=
  go_cases_in Hstep;
  first [ let Ha := fresh in let HI1 := fresh in
          destruct Hstep as [Ha HI1]; rewrite Ha; eexists; split; [reflexivity|]; fin HI1
        | let b := fresh in let Hu := fresh in let Ha := fresh in let HI1 := fresh in
          destruct Hstep as (b & Hu & Ha & HI1); rewrite Hu; cbn [gbind]; rewrite Ha;
          eexists; split; [reflexivity|]; fin HI1 ].

(** the fuel actually needed: one more than the list size (backward pass) *)
Lemma go_LRem_eq_fuel fuel l key count v :
  items_ok l -> int_ok count ->
  let size := match alookup (List_Items l) key with Some x => zlen x | None => 0 end in
  (Z.to_nat size + 1 <= fuel)%nat ->
  exists g,
    go_List_LRem fuel l key count v = GOk (mk_go_List (fst (l_lrem (List_Items l) key count v)), g) /\
    agrees 0 g (snd (l_lrem (List_Items l) key count v)).
Proof.
  intros Hok Hcount size Hfuel.
  destruct l as [items]. unfold items_ok in Hok. cbn [List_Items] in *.
  unfold go_List_LRem, l_lrem, has_key, lookup0.
  rewrite go_Size_eq. unfold l_size. cbn [List_Items].
  destruct (alookup items key) as [xs|] eqn:Hlk; cbn [negb gbind List_Items]; rewrite ?Hlk.
  2:{ eexists. split; [reflexivity|]. cbn. split; [reflexivity|discriminate]. }
  pose proof (Hok key xs Hlk) as Hsz. pose proof (zlen_nonneg xs) as Hsz0.
  subst size.
  (* clamp of count: [c1] in the model; the code's value is the same *)
  repeat go_arith62.
  unfold lrem_list. cbv zeta.
  set (c1 := if count <? - zlen xs then - zlen xs else count).
  go_name_cond cg. same_value cg c1.
  assert (Hc1 : - zlen xs <= c1 /\ int_ok c1).
  { subst c1. destruct (count <? - zlen xs) eqn:E1; (split; [lia|]); [apply int_ok_62; pow2; lia|exact Hcount]. }
  destruct Hc1 as [Hc1 Hc1ok]. clearbody c1.
  (* the counting pass *)
  destruct (go_LRemNum_spec (mk_go_List items) key c1 v Hok Hc1ok) as (g & Hg & Hag).
  rewrite Hg. cbn [gbind List_Items]. rewrite ?Hlk.
  unfold l_lremnum in Hag. cbn [List_Items] in Hag. rewrite Hlk in Hag.
  destruct (Z_lt_le_dec (zlen xs) c1) as [Hbig|Hle].
  { rewrite lremnum_list_err in Hag |- * by exact Hbig.
    destruct g as [n e]. cbn [agrees fst snd] in Hag. destruct Hag as [Hn He]. subst n.
    destruct e; [contradiction|..]; cbn [err_is_nil negb fst snd];
      (eexists; split; [reflexivity|]; cbn; split; [reflexivity|discriminate]). }
  assert (Hnum : exists need, lremnum_list xs c1 v = LOk need /\ 0 <= need <= zlen xs /\
                   need = if c1 =? 0 then Z.of_nat (occ v xs)
                          else Z.min (Z.abs c1) (Z.of_nat (occ v xs))).
  { eexists. split; [apply lremnum_list_spec; lia|]. split; [|reflexivity].
    pose proof (occ_le_length v xs) as Ho. unfold zlen in *.
    destruct (c1 =? 0) eqn:E; lia. }
  destruct Hnum as (need & Hnum & Hneedb & Hneed).
  rewrite Hnum in Hag |- *. cbn [agrees] in Hag. subst g.
  cbn [err_is_nil negb].
  destruct (need =? 0) eqn:En; go_heads.
  { eexists. split; [reflexivity|]. cbn. reflexivity. }
  (* make the new slice *)
  repeat go_arith62.
  rewrite gmake_ok by lia. cbn [gbind].
  (* count = 0 means "all": [c2] in the model; the code's value is the same *)
  set (c2 := if c1 =? 0 then need else c1).
  go_name_cond cg. same_value cg c2.
  assert (Hc2 : c2 <> 0 /\ - zlen xs <= c2 <= zlen xs /\
                need = Z.min (Z.abs c2) (Z.of_nat (occ v xs))).
  { subst c2. destruct (c1 =? 0) eqn:E; lia. }
  destruct Hc2 as (Hc2nz & Hc2b & Hneed2). clearbody c2. clear Hneed.
  destruct (0 <? c2) eqn:Epos; cbn [fst snd]; rewrite En; go_heads.
  - (* forward pass *)
    set (K := remove_first (Z.to_nat c2) v xs).
    assert (HKlen : zlen xs - zlen K = need).
    { pose proof (length_remove_first (Z.to_nat c2) v xs) as HL. fold K in HL. unfold zlen. lia. }
    replace (Z.to_nat (zlen xs - need)) with (length K) by (unfold zlen in *; lia).
    assert (HKb : zlen K < 2 ^ 62) by lia.
    (* the loop state holds (removed so far, buffer, write index), in an order
       that depends on the loop body: found by [with_dec3] *)
    match goal with
    | |- context [grange ?bd ?ix ?ls ?st0] =>
        let T := type of st0 in
        with_dec3 T ltac:(fun dec =>
          destruct (grange_inv
                      (fun rest (st : T) =>
                         let '(r, buf, idx) := dec st in filt_inv c2 v K need rest r buf idx) bd)
            with (l := ls) (j := ix) (s := st0) as (s' & Hs' & HI');
          [ solve [ intros j x rest [[s1 s2] s3] HI; cbv beta iota zeta in HI |- *;
                    match type of HI with filt_inv _ _ _ _ _ ?r ?buf ?idx =>
                      pose proof (filt_step c2 v K need x rest r buf idx ltac:(lia) HKb HI) as Hstep
                    end;
                    filt_iter Hstep ltac:(fun HI1 => exact HI1) ]
          | solve [ cbv beta iota zeta; apply filt_init; [lia|exact HKlen] ]
          | ])
    end.
    rewrite Hs'. destruct s' as [[s1 s2] s3]. cbv beta iota zeta in HI'.
    apply filt_final in HI' as (Hr & Hbuf & Hidx).
    try subst s1; try subst s2; try subst s3.
    cbn [gbind]. go_heads.
    eexists. split; [reflexivity|]. cbn. reflexivity.
  - (* backward pass, then reversal *)
    repeat go_arith62.
    set (c := - c2) in *.
    set (K := remove_first (Z.to_nat c) v (rev xs)).
    assert (HKlen : zlen xs - zlen K = need).
    { pose proof (length_remove_first (Z.to_nat c) v (rev xs)) as HL. fold K in HL.
      rewrite occ_rev, rev_length in HL. unfold zlen. lia. }
    replace (Z.to_nat (zlen xs - need)) with (length K) by (unfold zlen in *; lia).
    assert (HKb : zlen K < 2 ^ 62) by lia.
    (* loop state: (removed so far, buffer, write index, read index) in some order *)
    match goal with
    | |- context [gfor ?fu ?cn ?bd ?po ?st0] =>
        let T := type of st0 in
        with_dec4 T ltac:(fun dec =>
          destruct (gfor_inv
                      (fun st : T =>
                         let '(r, buf, idx, i) := dec st in back_inv c v K need xs r buf idx i)
                      (fun st : T => let '(r, buf, idx, i) := dec st in Z.to_nat (i + 1)) cn bd po)
            with (fuel := fu) (s := st0) as (s' & Hs' & HI' & Hcond);
          [ solve [ intros [[[s1 s2] s3] s4] HI Hcn; cbv beta iota zeta in HI, Hcn |- *;
                    match type of HI with back_inv _ _ _ _ _ ?r ?buf ?idx ?i =>
                      destruct (back_step c v K need xs r buf idx i Hsz HI ltac:(lia))
                        as (x & Hx & Hsub & Hib & HF);
                      rewrite Hx; cbn [gbind];
                      pose proof (filt_step c v K need x _ r buf idx ltac:(lia) HKb HF) as Hstep
                    end;
                    filt_iter Hstep ltac:(fun HI1 =>
                      cbv beta iota zeta; rewrite Hsub; split; [split; [exact Hib|exact HI1]|lia]) ]
          | solve [ cbv beta iota zeta; split; [lia|];
                    replace (Z.to_nat (zlen xs - 1 + 1)) with (length xs) by (unfold zlen; lia);
                    rewrite firstn_all;
                    apply filt_init; [lia|]; fold K; rewrite zlen_rev; exact HKlen ]
          | solve [ cbv beta iota zeta; lia ]
          | ])
    end.
    rewrite Hs'. destruct s' as [[[s1 s2] s3] s4]. cbv beta iota zeta in HI', Hcond.
    destruct HI' as [Hib HF].
    match type of HF with
    | filt_inv _ _ _ _ (rev (firstn (Z.to_nat (?i + 1)) _)) _ _ _ => assert (i = -1) by lia; subst i
    end.
    change (Z.to_nat (-1 + 1)) with O in HF. cbn [firstn rev] in HF.
    apply filt_final in HF as (Hr & Hbuf & Hidx).
    try subst s1; try subst s2; try subst s3; try subst s4.
    cbn [gbind].
    pose proof (quot2_bounds (zlen K) (zlen_nonneg K)) as Hq.
    rewrite (wrapS64_id (Z.quot (zlen K) 2)) by (apply int_ok_62; pow2; lia).
    (* loop state: (buffer, index) in some order *)
    match goal with
    | |- context [gfor ?fu ?cn ?bd ?po ?st0] =>
        let T := type of st0 in
        with_dec2 T ltac:(fun dec =>
          destruct (gfor_inv
                      (fun st : T => let '(buf, i) := dec st in swap_inv K buf i)
                      (fun st : T => let '(buf, i) := dec st in Z.to_nat (Z.quot (zlen K) 2 - i)) cn bd po)
            with (fuel := fu) (s := st0) as (s2' & Hs2 & HI2 & Hcond2);
          [ solve [ intros [s1 s2] HI Hcn; cbv beta iota zeta in HI, Hcn |- *;
                    match type of HI with swap_inv _ ?buf ?i =>
                      destruct (swap_step K buf i HKb HI ltac:(lia))
                        as (Hj & Hi1 & a & b & buf1 & buf2 & Hga & Hgb & Hu1 & Hu2 & HI1)
                    end;
                    rewrite ?Hj;
                    repeat first [rewrite Hga | rewrite Hgb | rewrite Hu1 | rewrite Hu2 | progress cbn [gbind]];
                    eexists; split; [reflexivity|];
                    cbv beta iota zeta; rewrite Hi1; split; [exact HI1|lia] ]
          | solve [ cbv beta iota zeta; apply swap_init ]
          | solve [ cbv beta iota zeta; unfold zlen in *; lia ]
          | ])
    end.
    rewrite Hs2. destruct s2' as [s1 s2]. cbv beta iota zeta in HI2, Hcond2.
    apply swap_final in HI2; [|lia]. try subst s1; try subst s2.
    cbn [gbind].
    eexists. split; [reflexivity|]. cbn. reflexivity.
Qed.

Theorem go_LRem_eq fuel l key count v :
  items_ok l -> int_ok count ->
  let size := match alookup (List_Items l) key with Some x => zlen x | None => 0 end in
  (2 * Z.to_nat size + 4 <= fuel)%nat ->
  exists g,
    go_List_LRem fuel l key count v = GOk (mk_go_List (fst (l_lrem (List_Items l) key count v)), g) /\
    agrees 0 g (snd (l_lrem (List_Items l) key count v)).
Proof.
  intros Hok Hcount size Hfuel.
  apply go_LRem_eq_fuel; [exact Hok|exact Hcount|].
  fold size. lia.
Qed.

Print Assumptions go_LRem_eq.
