(** GoSem.v — the target language of the Go -> Gallina translator
    (/verif/translator).  A translated Go function is an ordinary Gallina
    function into the monad [gres]; the definitions below give the meaning of
    the Go constructs the translator accepts.

    What is modelled (and therefore trusted, see DESIGN.md section 9):
    - [int]/[int64] arithmetic wraps modulo 2^64 (two's complement); the other
      fixed-width integer types wrap at their width;
    - slices are values (lists): aliasing through a shared backing array is not
      modelled; an index or a slice bound outside [0, len] is a panic (Go allows
      a bound up to cap: the model is stricter, never laxer);
    - [s == nil] on a slice is exact for a non-empty slice (false) and an
      arbitrary answer (oracle [orc], quantified in every theorem) for an empty one;
    - maps are association lists and are never nil; strings and []byte are byte lists;
    - a pointer field that the package compares with nil or sets to nil is a value
      field plus a boolean field [<S>_<f>_isnil]; a dereference while the flag is set panics;
      every other pointer to a struct is the struct's value: it is never nil and two
      pointers never alias (the translator rejects pointer parameters that are
      written through); fields whose types are outside the subset are left out
      of the record and any use of them stops the translation;
    - a range over a map visits [mord site m], where the parameter [mord] is only
      assumed to return a permutation of its argument (Go leaves the order unspecified);
    - time.Now().Unix() is the parameter [now]; crc32 is the bitwise model Crc32.v;
    - a [for] loop with a condition runs on explicit fuel; running out of fuel is
      the distinguished outcome [GFuel], excluded by the theorems' statements. *)
From Verif Require Export Bytes ListDS.
From Coq Require Import Strings.String.
Open Scope Z_scope.

Inductive gres (A : Type) := GOk (a : A) | GPanic | GFuel.
Arguments GOk {A} a.
Arguments GPanic {A}.
Arguments GFuel {A}.

Definition gbind {A B} (m : gres A) (f : A -> gres B) : gres B :=
  match m with GOk a => f a | GPanic => GPanic | GFuel => GFuel end.

Notation "x <- m ;; k" := (gbind m (fun x => k)) (at level 61, m at next level, right associativity).
Notation "' p <- m ;; k" := (gbind m (fun p => k)) (at level 61, p pattern, m at next level, right associativity).

(** errors: nil, a package-level error variable, or errors.New(msg) *)
Inductive gerr := ENil | EVar (name : string) | ENew (msg : string) | ENewB (msg : bytes).
Definition err_is_nil (e : gerr) : bool := match e with ENil => true | _ => false end.

Definition bs (s : string) : bytes := list_byte_of_string s.

(** fixed-width integers *)
Definition wrapS (bits : Z) (z : Z) : Z := (z + 2 ^ (bits - 1)) mod 2 ^ bits - 2 ^ (bits - 1).
Definition wrapU (bits : Z) (z : Z) : Z := z mod 2 ^ bits.
Definition iadd (a b : Z) : Z := wrapS 64 (a + b).
Definition isub (a b : Z) : Z := wrapS 64 (a - b).
Definition imul (a b : Z) : Z := wrapS 64 (a * b).
Definition ineg (a : Z) : Z := wrapS 64 (- a).
Definition int_ok (z : Z) : Prop := - 2 ^ 63 <= z < 2 ^ 63.

(** Go's / and % truncate toward zero and panic on a zero divisor *)
Definition gquot (w : Z -> Z) (a b : Z) : gres Z := if b =? 0 then GPanic else GOk (w (Z.quot a b)).
Definition grem (w : Z -> Z) (a b : Z) : gres Z := if b =? 0 then GPanic else GOk (w (Z.rem a b)).

(** slices *)
Definition gidx {A} (l : list A) (i : Z) : gres A :=
  if (0 <=? i) && (i <? zlen l) then
    match nth_error l (Z.to_nat i) with Some x => GOk x | None => GPanic end
  else GPanic.

Definition gslice {A} (l : list A) (lo hi : Z) : gres (list A) :=
  if (0 <=? lo) && (lo <=? hi) && (hi <=? zlen l) then GOk (zslice l lo hi) else GPanic.

Definition gslice3 {A} (l : list A) (lo hi mx : Z) : gres (list A) :=
  if (0 <=? lo) && (lo <=? hi) && (hi <=? mx) && (mx <=? zlen l) then GOk (zslice l lo hi) else GPanic.

Fixpoint upd_nth {A} (l : list A) (i : nat) (v : A) : list A :=
  match l, i with
  | [], _ => []
  | _ :: r, O => v :: r
  | x :: r, S i' => x :: upd_nth r i' v
  end.

Definition gupd {A} (l : list A) (i : Z) (v : A) : gres (list A) :=
  if (0 <=? i) && (i <? zlen l) then GOk (upd_nth l (Z.to_nat i) v) else GPanic.

Definition gmake {A} (zero : A) (n : Z) : gres (list A) :=
  if n <? 0 then GPanic else GOk (repeat zero (Z.to_nat n)).

(** binary.LittleEndian.PutUintNN(l[lo:hi], v): the destination must hold [width] bytes *)
Definition gput (l : bytes) (lo hi width : Z) (v : N) : gres bytes :=
  if (0 <=? lo) && (lo <=? hi) && (hi <=? zlen l) && (width <=? hi - lo) then
    GOk (firstn (Z.to_nat lo) l ++ le_enc (Z.to_nat width) v ++ skipn (Z.to_nat (lo + width)) l)
  else GPanic.

(** binary.LittleEndian.UintNN(b) *)
Definition gle (width : Z) (b : bytes) : gres Z :=
  if zlen b <? width then GPanic else GOk (Z.of_N (le_dec (firstn (Z.to_nat width) b))).

(** copy(l[lo:hi], src): copies min(hi-lo, len src) elements *)
Definition gcopy {A} (l : list A) (lo hi : Z) (src : list A) : gres (list A) :=
  if (0 <=? lo) && (lo <=? hi) && (hi <=? zlen l) then
    let n := Z.min (hi - lo) (zlen src) in
    GOk (firstn (Z.to_nat lo) l ++ firstn (Z.to_nat n) src ++ skipn (Z.to_nat (lo + n)) l)
  else GPanic.

(** replace l[lo:hi] by [v] (a store through a sub-slice [x := l[lo:hi]] whose
    new content is v); the lengths must agree *)
Definition gsplice {A} (l : list A) (lo hi : Z) (v : list A) : gres (list A) :=
  if (0 <=? lo) && (lo <=? hi) && (hi <=? zlen l) && (zlen v =? hi - lo) then
    GOk (firstn (Z.to_nat lo) l ++ v ++ skipn (Z.to_nat hi) l)
  else GPanic.

(** bytes.Compare *)
Definition bcmp_z (a b : bytes) : Z := match bcompare a b with Lt => -1 | Eq => 0 | Gt => 1 end.

(** [s != nil] for a slice: true when non-empty, the oracle's answer otherwise *)
Definition slice_nonnil {A} (o : bool) (l : list A) : bool := match l with [] => o | _ => true end.

(** maps: m[k] with the zero value for a missing key; v, ok := m[k] *)
Definition lookup0 {V} (zero : V) (m : list (bytes * V)) (k : bytes) : V :=
  match alookup m k with Some v => v | None => zero end.
Definition has_key {V} (m : list (bytes * V)) (k : bytes) : bool :=
  match alookup m k with Some _ => true | None => false end.
Fixpoint adel {V} (m : list (bytes * V)) (k : bytes) : list (bytes * V) :=
  match m with
  | [] => []
  | (k', v) :: r => if bytes_eqb k' k then adel r k else (k', v) :: adel r k
  end.

(** the inner map of m[a][b] = v: a missing key gives a nil map, and a store into a nil map panics *)
Definition gmapget {V} (m : list (bytes * V)) (k : bytes) : gres V :=
  match alookup m k with Some v => GOk v | None => GPanic end.

(** dereferencing a pointer field whose nil flag is set panics *)
Definition gnonnil (isnil : bool) : gres unit := if isnil then GPanic else GOk tt.

(** strings.Contains / bytes.Contains *)
Fixpoint bytes_contains (s sub : bytes) : bool :=
  has_prefix s sub || match s with [] => false | _ :: r => bytes_contains r sub end.

(** bytes.TrimPrefix *)
Definition trim_prefix (s p : bytes) : bytes := if has_prefix s p then skipn (List.length p) s else s.

(** *regexp.Regexp: a compiled regular expression is an arbitrary predicate on
    byte strings (the regexp engine is not translated); [None] is the nil pointer,
    on which a method call panics *)
Definition rx_is_nil (r : option (bytes -> bool)) : bool := match r with None => true | Some _ => false end.
Definition grx_match (r : option (bytes -> bool)) (b : bytes) : gres bool :=
  match r with Some m => GOk (m b) | None => GPanic end.

(** loops.  A loop body yields the new values of the variables it assigns
    ([LNext]: fell through or [continue]), [LBreak], or [LRet] (a [return]
    inside the loop, carrying the function's result). *)
Inductive lstep (S R : Type) := LNext (s : S) | LBreak (s : S) | LRet (r : R).
Arguments LNext {S R} s.
Arguments LBreak {S R} s.
Arguments LRet {S R} r.

(** for i, x := range l { body } *)
Fixpoint grange {A S R} (body : Z -> A -> S -> gres (lstep S R)) (i : Z) (l : list A) (s : S) : gres (S + R) :=
  match l with
  | [] => GOk (inl s)
  | x :: r =>
      b <- body i x s ;;
      match b with
      | LNext s' => grange body (i + 1) r s'
      | LBreak s' => GOk (inl s')
      | LRet v => GOk (inr v)
      end
  end.

(** for ; cond; post { body } *)
Fixpoint gfor {S R} (fuel : nat) (cond : S -> bool) (body : S -> gres (lstep S R)) (post : S -> S) (s : S) : gres (S + R) :=
  match fuel with
  | O => GFuel
  | Datatypes.S f =>
      if cond s then
        b <- body s ;;
        match b with
        | LNext s' => gfor f cond body post (post s')
        | LBreak s' => GOk (inl s')
        | LRet v => GOk (inr v)
        end
      else GOk (inl s)
  end.
