(** GoSetFacts.v — the Gallina translation of /repo/ds/set/set.go (generated on
    every run into generated/GoSet.v) computes what the hand-written model
    SetDS.v says.  Go's map[string]map[string]struct{} is translated to an
    association list of association lists; [to_smap] forgets the unit values.
    Ranges over a map visit [mord site m]: every theorem holds for every
    function [mord] that returns a permutation of its argument. *)
From Coq Require Import Permutation.
From Verif Require Import Bytes BytesFacts ListDS SetDS SetFacts.
From VerifGo Require Import GoSem.
From VerifGen Require Import GoSet.
From Coq Require Import Strings.String Lia ZifyBool.
Open Scope Z_scope.

(* ====================================================================== *)
(** * GoSem lemmas (general facts about the combinators of GoSem.v)        *)
(* ====================================================================== *)

(** ** case analysis that does not depend on the shape of a test

    (the same tactics as in GoListFacts.v, repeated here so that this file
    depends on the translation of ds/set only)  [go_case] picks the first
    [if] of the goal and case-splits on one of its ATOMIC tests, descending
    through [&&], [||], [negb]; [go_cases] repeats this and lets [lia] discard
    the impossible branches.  Swapping the operands of a connective, reversing
    a comparison ([len(x) == 0] against [len(x) < 1]) or negating a test and
    swapping the branches does not affect a script written with them. *)
Ltac bool_atom c :=
  lazymatch c with
  | andb ?a ?b => first [bool_atom a | bool_atom b]
  | orb ?a ?b => first [bool_atom a | bool_atom b]
  | negb ?a => bool_atom a
  | true => fail
  | false => fail
  | context [if ?d then _ else _] => bool_atom d
  | _ => destruct c eqn:?
  end.

Ltac go_case :=
  match goal with
  | |- context [if ?c then _ else _] => bool_atom c; cbn [andb orb negb gbind fst snd]
  end.

Ltac go_cases := repeat (go_case; try (exfalso; lia)).

(** ** the monad *)

Lemma gbind_ok {A B} (a : A) (f : A -> gres B) : gbind (GOk a) f = f a.
Proof. reflexivity. Qed.

(** ** lengths and indexing *)

Lemma zlen_eqb_0 {A} (l : list A) :
  (zlen l =? 0) = match l with [] => true | _ :: _ => false end.
Proof.
  destruct l as [|x r]; [reflexivity|].
  apply Z.eqb_neq. unfold zlen. cbn [List.length]. lia.
Qed.

Lemma gidx_head {A} (x : A) l : gidx (x :: l) 0 = GOk x.
Proof.
  unfold gidx.
  assert (Hc : (0 <=? 0) && (0 <? zlen (x :: l)) = true).
  { apply andb_true_intro. split; [reflexivity|].
    apply Z.ltb_lt. unfold zlen. cbn [List.length]. lia. }
  rewrite Hc. reflexivity.
Qed.

Lemma gidx_nil {A} i : gidx (@nil A) i = GPanic.
Proof.
  unfold gidx. destruct ((0 <=? i) && (i <? zlen (@nil A))); [|reflexivity].
  destruct (Z.to_nat i); reflexivity.
Qed.

(** ** range loops *)

(** a range loop whose body always falls through is a left fold *)
Lemma grange_fold {A St R} (body : Z -> A -> St -> gres (lstep St R)) (f : St -> A -> St) :
  (forall i x s, body i x s = GOk (LNext (f s x))) ->
  forall l i s, grange body i l s = GOk (inl (fold_left f l s)).
Proof.
  intros Hbody l. induction l as [|x r IH]; intros i s.
  - reflexivity.
  - cbn [grange fold_left]. rewrite Hbody. cbn [gbind]. apply IH.
Qed.

(** the same under an invariant of the loop state *)
Lemma grange_fold_inv_strong {A St R} (body : Z -> A -> St -> gres (lstep St R))
      (f : St -> A -> St) (P : St -> Prop) :
  (forall i x s, P s -> body i x s = GOk (LNext (f s x)) /\ P (f s x)) ->
  forall l i s, P s ->
  grange body i l s = GOk (inl (fold_left f l s)) /\ P (fold_left f l s).
Proof.
  intros Hbody l. induction l as [|x r IH]; intros i s Hs.
  - split; [reflexivity | exact Hs].
  - cbn [grange fold_left]. destruct (Hbody i x s Hs) as [Hb Hs'].
    rewrite Hb. cbn [gbind]. apply IH. exact Hs'.
Qed.

Lemma grange_fold_inv {A St R} (body : Z -> A -> St -> gres (lstep St R))
      (f : St -> A -> St) (P : St -> Prop) :
  (forall i x s, P s -> body i x s = GOk (LNext (f s x)) /\ P (f s x)) ->
  forall l i s, P s -> grange body i l s = GOk (inl (fold_left f l s)).
Proof.
  intros Hbody l i s Hs. apply (grange_fold_inv_strong body f P Hbody l i s Hs).
Qed.

(** a body that returns at once ends the loop at its first element *)
Lemma grange_ret_head {A St R} (body : Z -> A -> St -> gres (lstep St R)) i x l s r :
  body i x s = GOk (LRet r) -> grange body i (x :: l) s = GOk (inr r).
Proof. intros H. cbn [grange]. rewrite H. reflexivity. Qed.

Lemma grange_nil {A St R} (body : Z -> A -> St -> gres (lstep St R)) i s :
  grange body i [] s = GOk (inl s).
Proof. reflexivity. Qed.

(** a "for all" loop: the body falls through (state unchanged) on the elements
    satisfying [p] and returns a result satisfying [Q] on the others *)
Lemma grange_all_spec {A St R} (body : Z -> A -> St -> gres (lstep St R))
      (p : A -> bool) (Q : R -> Prop) :
  (forall i x s, (p x = true /\ body i x s = GOk (LNext s)) \/
                 (p x = false /\ exists r, body i x s = GOk (LRet r) /\ Q r)) ->
  forall l i s, (forallb p l = true /\ grange body i l s = GOk (inl s)) \/
                (forallb p l = false /\ exists r, grange body i l s = GOk (inr r) /\ Q r).
Proof.
  intros Hbody l. induction l as [|x l IH]; intros i s.
  - left. split; reflexivity.
  - cbn [grange forallb].
    destruct (Hbody i x s) as [[Hp Hb] | [Hp [r [Hb Hq]]]]; rewrite Hp, Hb; cbn [gbind andb].
    + apply IH.
    + right. split; [reflexivity|]. exists r. split; [reflexivity | exact Hq].
Qed.

(** ** maps (association lists) *)

Lemma lookup0_some {V} (z : V) m k v : alookup m k = Some v -> lookup0 z m k = v.
Proof. unfold lookup0. intros H. rewrite H. reflexivity. Qed.

Lemma lookup0_none {V} (z : V) m k : alookup m k = None -> lookup0 z m k = z.
Proof. unfold lookup0. intros H. rewrite H. reflexivity. Qed.

Lemma has_key_some {V} (m : list (bytes * V)) k v : alookup m k = Some v -> has_key m k = true.
Proof. unfold has_key. intros H. rewrite H. reflexivity. Qed.

Lemma has_key_none {V} (m : list (bytes * V)) k : alookup m k = None -> has_key m k = false.
Proof. unfold has_key. intros H. rewrite H. reflexivity. Qed.

Lemma gmapget_has_key {V} (z : V) (m : list (bytes * V)) k :
  has_key m k = true -> gmapget m k = GOk (lookup0 z m k).
Proof.
  unfold has_key, gmapget, lookup0. destruct (alookup m k); [reflexivity | discriminate].
Qed.

Lemma has_key_aset_same {V} (m : list (bytes * V)) k v : has_key (aset m k v) k = true.
Proof. unfold has_key. rewrite alookup_aset, bytes_eqb_refl. reflexivity. Qed.

Lemma lookup0_aset_same {V} (z : V) (m : list (bytes * V)) k v : lookup0 z (aset m k v) k = v.
Proof. unfold lookup0. rewrite alookup_aset, bytes_eqb_refl. reflexivity. Qed.

Lemma alookup_In {V} (m : list (bytes * V)) k v : alookup m k = Some v -> In (k, v) m.
Proof.
  induction m as [|[k0 v0] m IH]; cbn [alookup]; intros H.
  - discriminate.
  - destruct (bytes_eqb k0 k) eqn:E.
    + apply bytes_eqb_eq in E. inversion H. subst. left. reflexivity.
    + right. apply IH. exact H.
Qed.

Lemma In_aset {V} (m : list (bytes * V)) k v p : In p (aset m k v) -> p = (k, v) \/ In p m.
Proof.
  induction m as [|[k0 v0] m IH]; cbn [aset]; intros H.
  - destruct H as [H|[]]. left. symmetry. exact H.
  - destruct (bytes_eqb k0 k).
    + destruct H as [H|H]; [left; symmetry; exact H | right; right; exact H].
    + destruct H as [H|H]; [right; left; exact H|].
      destruct (IH H) as [H'|H']; [left; exact H' | right; right; exact H'].
Qed.

Lemma aset_aset {V} (m : list (bytes * V)) k a b : aset (aset m k a) k b = aset m k b.
Proof.
  induction m as [|[k0 v0] m IH]; cbn [aset].
  - rewrite bytes_eqb_refl. reflexivity.
  - destruct (bytes_eqb k0 k) eqn:E; cbn [aset].
    + rewrite bytes_eqb_refl. reflexivity.
    + rewrite E, IH. reflexivity.
Qed.

(** the keys of an association list, seen as a SetDS set *)
Lemma has_key_bmem {V} (m : list (bytes * V)) k : has_key m k = bmem k (map fst m).
Proof.
  unfold has_key. induction m as [|[k0 v0] m IH]; cbn [alookup map fst bmem].
  - reflexivity.
  - destruct (bytes_eqb k0 k); [reflexivity | exact IH].
Qed.

Lemma map_fst_aset {V} (m : list (bytes * V)) k v : map fst (aset m k v) = sadd1 (map fst m) k.
Proof.
  induction m as [|[k0 v0] m IH].
  - reflexivity.
  - cbn [aset map fst]. unfold sadd1. cbn [bmem]. destruct (bytes_eqb k0 k) eqn:E.
    + apply bytes_eqb_eq in E. subst k0. reflexivity.
    + cbn [map fst orb]. rewrite IH. unfold sadd1.
      destruct (bmem k (map fst m)); reflexivity.
Qed.

Lemma map_fst_adel {V} (m : list (bytes * V)) k : map fst (adel m k) = bremove k (map fst m).
Proof.
  induction m as [|[k0 v0] m IH].
  - reflexivity.
  - cbn [adel map fst bremove]. destruct (bytes_eqb k0 k).
    + exact IH.
    + cbn [map fst]. rewrite IH. reflexivity.
Qed.

(** a left fold that appends the selected keys *)
Lemma fold_filter_app {V} (p : bytes -> bool) (l : list (bytes * V)) : forall acc,
  fold_left (fun acc kv => if p (fst kv) then acc ++ [fst kv] else acc) l acc =
  acc ++ filter p (map fst l).
Proof.
  induction l as [|[k v] l IH]; intros acc; cbn [fold_left map fst filter].
  - rewrite app_nil_r. reflexivity.
  - rewrite IH. destruct (p k); [|reflexivity].
    rewrite <- app_assoc. reflexivity.
Qed.

Lemma fold_app_fst {V} (l : list (bytes * V)) : forall acc,
  fold_left (fun acc kv => acc ++ [fst kv]) l acc = acc ++ map fst l.
Proof.
  induction l as [|[k v] l IH]; intros acc; cbn [fold_left map fst].
  - rewrite app_nil_r. reflexivity.
  - rewrite IH. rewrite <- app_assoc. reflexivity.
Qed.

Lemma Permutation_filter {A} (p : A -> bool) l l' :
  Permutation l l' -> Permutation (filter p l) (filter p l').
Proof.
  intros H. induction H as [|x l l' H IH|x y l|l l' l'' H1 IH1 H2 IH2]; cbn [filter].
  - constructor.
  - destruct (p x); [apply perm_skip|]; exact IH.
  - destruct (p x); destruct (p y); try apply Permutation_refl. apply perm_swap.
  - apply perm_trans with (filter p l'); assumption.
Qed.

Lemma filter_ext_eq {A} (p q : A -> bool) l : (forall x, p x = q x) -> filter p l = filter q l.
Proof.
  intros H. induction l as [|x l IH]; cbn [filter]; [reflexivity|].
  rewrite H, IH. reflexivity.
Qed.

(* ====================================================================== *)
(** * The set package                                                      *)
(* ====================================================================== *)

Definition gmap := list (bytes * list (bytes * unit)).

Definition to_smap (m : gmap) : smap := map (fun kv => (fst kv, map fst (snd kv))) m.

Definition mord_ok (mord : Z -> forall V : Type, list (bytes * V) -> list (bytes * V)) : Prop :=
  forall n V (m : list (bytes * V)), Permutation (mord n V m) m.

(** no key occurs twice, at either level (true of every map built by [aset] from the empty map) *)
Definition gmap_wf (m : gmap) : Prop :=
  NoDup (map fst m) /\ forall k inner, In (k, inner) m -> NoDup (map fst inner).

(** a Go result pair agrees with a model result: the value on success, a non-nil error otherwise *)
Definition sagrees {A} (g : A * gerr) (r : option A) : Prop :=
  match r with Some a => g = (a, ENil) | None => snd g <> ENil end.

(** ** the two-level map and its model *)

Lemma alookup_to_smap (m : gmap) k :
  alookup (to_smap m) k = option_map (map fst) (alookup m k).
Proof.
  unfold to_smap. induction m as [|[k0 v0] m IH]; cbn [map alookup fst snd option_map].
  - reflexivity.
  - destruct (bytes_eqb k0 k); [reflexivity | exact IH].
Qed.

Lemma to_smap_aset (m : gmap) k inner :
  to_smap (aset m k inner) = aset (to_smap m) k (map fst inner).
Proof.
  unfold to_smap. induction m as [|[k0 v0] m IH]; cbn [map aset fst snd].
  - reflexivity.
  - destruct (bytes_eqb k0 k); cbn [map fst snd]; [reflexivity|].
    rewrite IH. reflexivity.
Qed.

Lemma gmap_wf_aset (m : gmap) k inner :
  gmap_wf m -> NoDup (map fst inner) -> gmap_wf (aset m k inner).
Proof.
  intros [W1 W2] Hi. split.
  - rewrite map_fst_aset. apply sadd1_NoDup. exact W1.
  - intros k' inner' H. apply In_aset in H. destruct H as [H|H].
    + inversion H. subst. exact Hi.
    + apply (W2 k' inner' H).
Qed.

Lemma gmap_wf_lookup (m : gmap) k inner :
  gmap_wf m -> alookup m k = Some inner -> NoDup (map fst inner).
Proof. intros [W1 W2] H. apply (W2 k inner). apply alookup_In. exact H. Qed.

(** what a key lookup says at the three levels: Go ([has_key], [lookup0]),
    association list, model *)
Lemma lookup_cases (m : gmap) k :
  (exists inner, alookup m k = Some inner /\ has_key m k = true /\
                 lookup0 ([] : list (bytes * unit)) m k = inner /\
                 alookup (to_smap m) k = Some (map fst inner)) \/
  (alookup m k = None /\ has_key m k = false /\ alookup (to_smap m) k = None).
Proof.
  rewrite alookup_to_smap. unfold has_key, lookup0. destruct (alookup m k) as [inner|].
  - left. exists inner. repeat split; reflexivity.
  - right. repeat split; reflexivity.
Qed.

(** ** the update loops of SAdd and SRem: m[key] = g(m[key], x) for each x *)

Definition mupd (key : bytes) (g : list (bytes * unit) -> bytes -> list (bytes * unit))
           (m : gmap) (x : bytes) : gmap :=
  aset m key (g (lookup0 [] m key) x).

Definition supd key g (s : go_Set) (x : bytes) : go_Set :=
  set_Set_M s (mupd key g (Set_M s) x).

Lemma fold_mupd key g items : forall m inner, alookup m key = Some inner ->
  fold_left (mupd key g) items m = aset m key (fold_left g items inner).
Proof.
  induction items as [|x r IH]; intros m inner H; cbn [fold_left].
  - symmetry. apply aset_same. exact H.
  - rewrite (IH (mupd key g m x) (g inner x)).
    + unfold mupd. apply aset_aset.
    + unfold mupd. rewrite alookup_aset, bytes_eqb_refl, (lookup0_some _ _ _ _ H). reflexivity.
Qed.

Lemma Set_M_fold_supd key g items : forall s,
  Set_M (fold_left (supd key g) items s) = fold_left (mupd key g) items (Set_M s).
Proof.
  induction items as [|x r IH]; intros s; cbn [fold_left]; [reflexivity|].
  rewrite IH. reflexivity.
Qed.

Lemma fold_aset_fst items : forall (inner : list (bytes * unit)),
  map fst (fold_left (fun acc x => aset acc x tt) items inner) =
  fold_left sadd1 items (map fst inner).
Proof.
  induction items as [|x r IH]; intros inner; cbn [fold_left]; [reflexivity|].
  rewrite IH, map_fst_aset. reflexivity.
Qed.

Lemma fold_adel_fst items : forall (inner : list (bytes * unit)),
  map fst (fold_left (fun acc x => adel acc x) items inner) =
  fold_left (fun acc x => bremove x acc) items (map fst inner).
Proof.
  induction items as [|x r IH]; intros inner; cbn [fold_left]; [reflexivity|].
  rewrite IH, map_fst_adel. reflexivity.
Qed.

(** the state after an update loop started where the key exists *)
Lemma supd_loop_result key g (h : list bytes -> bytes -> list bytes) items s inner :
  (forall its (inn : list (bytes * unit)), map fst (fold_left g its inn) = fold_left h its (map fst inn)) ->
  (forall its l, NoDup l -> NoDup (fold_left h its l)) ->
  alookup (Set_M s) key = Some inner -> gmap_wf (Set_M s) ->
  to_smap (Set_M (fold_left (supd key g) items s)) =
    aset (to_smap (Set_M s)) key (fold_left h items (map fst inner)) /\
  gmap_wf (Set_M (fold_left (supd key g) items s)).
Proof.
  intros Hgh Hnd L W.
  rewrite Set_M_fold_supd, (fold_mupd key g items _ _ L). split.
  - rewrite to_smap_aset, Hgh. reflexivity.
  - apply gmap_wf_aset; [exact W|]. rewrite Hgh. apply Hnd.
    apply (gmap_wf_lookup _ _ _ W L).
Qed.

(** ** SAdd *)

Theorem go_SAdd_eq s key items : gmap_wf (Set_M s) ->
  exists s', go_Set_SAdd s key items = GOk (s', ENil) /\
             to_smap (Set_M s') = s_sadd (to_smap (Set_M s)) key items /\ gmap_wf (Set_M s').
Proof.
  intros W. unfold go_Set_SAdd, s_sadd.
  set (g := fun (acc : list (bytes * unit)) (x : bytes) => aset acc x tt).
  assert (Hloop : forall s1, has_key (Set_M s1) key = true ->
            forall body : Z -> bytes -> go_Set -> gres (lstep go_Set Empty_set),
            (forall i x st, has_key (Set_M st) key = true ->
                            body i x st = GOk (LNext (supd key g st x))) ->
            grange body 0 items s1 = GOk (inl (fold_left (supd key g) items s1))).
  { intros s1 Hs1 body Hbody.
    apply (grange_fold_inv body (supd key g) (fun st => has_key (Set_M st) key = true)); [|exact Hs1].
    intros i x st Hst. split; [apply Hbody; exact Hst|].
    unfold supd, mupd. apply has_key_aset_same. }
  destruct (lookup_cases (Set_M s) key) as [[inner [La [Hk [L0 Ls]]]] | [La [Hk Ls]]];
    rewrite Hk, Ls; cbn [negb gbind].
  - rewrite (Hloop s Hk) by (intros i x st Hst; cbv beta; rewrite (gmapget_has_key [] _ _ Hst); reflexivity).
    cbn [gbind].
    destruct (supd_loop_result key g sadd1 items s inner fold_aset_fst fold_sadd1_NoDup La W)
      as [Hm Hw].
    eexists. split; [reflexivity|]. split; [exact Hm | exact Hw].
  - set (s1 := set_Set_M s (aset (Set_M s) key [])).
    assert (Hk1 : has_key (Set_M s1) key = true) by apply has_key_aset_same.
    assert (La1 : alookup (Set_M s1) key = Some []).
    { unfold s1. cbn [Set_M set_Set_M]. rewrite alookup_aset, bytes_eqb_refl. reflexivity. }
    assert (W1 : gmap_wf (Set_M s1)).
    { unfold s1. cbn [Set_M set_Set_M]. apply gmap_wf_aset; [exact W | constructor]. }
    rewrite (Hloop s1 Hk1) by (intros i x st Hst; cbv beta; rewrite (gmapget_has_key [] _ _ Hst); reflexivity).
    cbn [gbind].
    destruct (supd_loop_result key g sadd1 items s1 [] fold_aset_fst fold_sadd1_NoDup La1 W1)
      as [Hm Hw].
    eexists. split; [reflexivity|]. split; [|exact Hw].
    rewrite Hm. unfold s1. cbn [Set_M set_Set_M map]. rewrite to_smap_aset. apply aset_aset.
Qed.

(** ** SRem *)

(** SRem with no items at all indexes items[0]: a panic in Go, GPanic here *)
Theorem go_SRem_eq s key i0 items : gmap_wf (Set_M s) ->
  exists s' err, go_Set_SRem s key (i0 :: items) = GOk (s', err) /\
             to_smap (Set_M s') = fst (s_srem (to_smap (Set_M s)) key (i0 :: items)) /\
             (err = ENil <-> snd (s_srem (to_smap (Set_M s)) key (i0 :: items)) = true) /\ gmap_wf (Set_M s').
Proof.
  intros W. unfold go_Set_SRem, s_srem.
  set (g := fun (acc : list (bytes * unit)) (x : bytes) => adel acc x).
  destruct (lookup_cases (Set_M s) key) as [[inner [La [Hk [L0 Ls]]]] | [La [Hk Ls]]];
    rewrite Hk, Ls; cbn [negb gbind].
  - rewrite gidx_head. cbn [gbind].
    destruct i0 as [|c i0].
    + change (zlen (@nil Byte.byte)) with 0. go_cases.
      eexists. eexists. split; [reflexivity|]. cbn [fst snd].
      split; [reflexivity|]. split; [|exact W]. split; discriminate.
    + assert (Hpos : 0 < zlen (c :: i0)) by (unfold zlen; cbn [List.length]; lia).
      go_cases.
      rewrite (grange_fold _ (supd key g)) by (intros i x st; reflexivity).
      cbn [gbind].
      destruct (supd_loop_result key g (fun acc x => bremove x acc) ((c :: i0) :: items) s inner
                  fold_adel_fst fold_bremove_NoDup La W) as [Hm Hw].
      eexists. eexists. split; [reflexivity|]. cbn [fst snd].
      split; [exact Hm|]. split; [|exact Hw]. split; reflexivity.
  - eexists. eexists. split; [reflexivity|]. cbn [fst snd].
    split; [reflexivity|]. split; [|exact W]. split; discriminate.
Qed.

Theorem go_SRem_no_items s key : has_key (Set_M s) key = true -> go_Set_SRem s key [] = GPanic.
Proof.
  intros Hk. unfold go_Set_SRem. rewrite Hk. cbn [negb]. rewrite gidx_nil. reflexivity.
Qed.

(** ** SHasKey, SCard, SIsMember, SAreMembers *)

Theorem go_SHasKey_eq s key :
  go_Set_SHasKey s key = GOk (s, s_haskey (to_smap (Set_M s)) key).
Proof.
  unfold go_Set_SHasKey, s_haskey.
  destruct (lookup_cases (Set_M s) key) as [[inner [La [Hk [L0 Ls]]]] | [La [Hk Ls]]];
    rewrite Hk, Ls; reflexivity.
Qed.

Theorem go_SCard_eq s key : gmap_wf (Set_M s) ->
  go_Set_SCard s key = GOk (s, s_card (to_smap (Set_M s)) key).
Proof.
  intros _. unfold go_Set_SCard. rewrite go_SHasKey_eq. unfold s_haskey, s_card.
  destruct (lookup_cases (Set_M s) key) as [[inner [La [Hk [L0 Ls]]]] | [La [Hk Ls]]];
    rewrite Ls; cbn [gbind negb].
  - rewrite L0. unfold zlen. rewrite map_length. reflexivity.
  - reflexivity.
Qed.

Theorem go_SIsMember_eq s key item :
  go_Set_SIsMember s key item = GOk (s, s_ismember (to_smap (Set_M s)) key item).
Proof.
  unfold go_Set_SIsMember, s_ismember.
  destruct (lookup_cases (Set_M s) key) as [[inner [La [Hk [L0 Ls]]]] | [La [Hk Ls]]];
    rewrite Hk, Ls; cbn [negb].
  - rewrite L0, has_key_bmem. destruct (bmem item (map fst inner)); reflexivity.
  - reflexivity.
Qed.

Theorem go_SAreMembers_eq s key items :
  exists err, go_Set_SAreMembers s key items = GOk (s, (s_aremembers (to_smap (Set_M s)) key items, err)) /\
              (err = ENil <-> s_aremembers (to_smap (Set_M s)) key items = true).
Proof.
  unfold go_Set_SAreMembers, s_aremembers.
  destruct (lookup_cases (Set_M s) key) as [[inner [La [Hk [L0 Ls]]]] | [La [Hk Ls]]];
    rewrite Hk, Ls; cbn [negb].
  - rewrite L0.
    match goal with |- context [grange ?b 0 items tt] =>
      destruct (grange_all_spec b (fun x => bmem x (map fst inner))
                  (fun r => exists e, r = (s, (false, e)) /\ e <> ENil)) with (l := items) (i := 0) (s := tt)
        as [[Hall HG] | [Hall [r [HG [e [Hr He]]]]]]
    end.
    + intros i x st. rewrite has_key_bmem. destruct (bmem x (map fst inner)); cbn [negb].
      * left. split; [reflexivity|]. destruct st. reflexivity.
      * right. split; [reflexivity|]. eexists. split; [reflexivity|].
        eexists. split; [reflexivity | discriminate].
    + rewrite HG, Hall. cbn [gbind]. eexists. split; [reflexivity|]. split; reflexivity.
    + rewrite HG, Hall. cbn [gbind]. subst r. exists e. split; [reflexivity|].
      split; [intros E; contradiction | discriminate].
  - eexists. split; [reflexivity|]. split; discriminate.
Qed.

(** ** the list-valued results: SMembers, SDiff, SInter, SUnion *)

(** the loop bodies: append the key of the visited entry (when selected) *)
Definition app_fst {V} (acc : list bytes) (kv : bytes * V) : list bytes := acc ++ [fst kv].
Definition app_if (p : bytes -> bool) {V} (acc : list bytes) (kv : bytes * V) : list bytes :=
  if p (fst kv) then acc ++ [fst kv] else acc.

Lemma fold_app_if {V} p (l : list (bytes * V)) acc :
  fold_left (app_if p) l acc = acc ++ filter p (map fst l).
Proof. apply (fold_filter_app p l acc). Qed.

Lemma fold_app_fst' {V} (l : list (bytes * V)) acc :
  fold_left app_fst l acc = acc ++ map fst l.
Proof. apply (fold_app_fst l acc). Qed.

Lemma bsort_perm_eq l1 l2 : Permutation l1 l2 -> bsort l1 = bsort l2.
Proof.
  intros H. apply sorted_perm_eq; try apply bsort_sorted.
  apply perm_trans with l1; [apply bsort_perm|].
  apply perm_trans with l2; [exact H | apply Permutation_sym, bsort_perm].
Qed.

Lemma mord_keys mord n (inner : list (bytes * unit)) :
  mord_ok mord -> Permutation (map fst (mord n unit inner)) (map fst inner).
Proof. intros Hm. apply Permutation_map. apply Hm. Qed.

Theorem go_SMembers_eq mord s key : mord_ok mord -> gmap_wf (Set_M s) ->
  exists l err, go_Set_SMembers mord s key = GOk (s, (l, err)) /\
    match s_members (to_smap (Set_M s)) key with
    | Some x => err = ENil /\ bsort l = x
    | None => err <> ENil
    end.
Proof.
  intros Hm W. unfold go_Set_SMembers, s_members.
  destruct (lookup_cases (Set_M s) key) as [[inner [La [Hk [L0 Ls]]]] | [La [Hk Ls]]];
    rewrite Hk, Ls; cbn [negb].
  - rewrite L0.
    rewrite (grange_fold _ app_fst) by (intros i [x u] acc; reflexivity).
    cbn [gbind]. eexists. eexists. split; [reflexivity|]. split; [reflexivity|].
    rewrite fold_app_fst'. cbn [app]. apply bsort_perm_eq. apply mord_keys. exact Hm.
  - eexists. eexists. split; [reflexivity|]. discriminate.
Qed.

(** the common prelude of SDiff, SInter and SUnion *)
Lemma two_keys_cases s k1 k2 :
  (exists in1 in2, go_Set_checkKey1AndKey2 s k1 k2 = GOk (s, ([], ENil)) /\
       lookup0 ([] : list (bytes * unit)) (Set_M s) k1 = in1 /\
       lookup0 ([] : list (bytes * unit)) (Set_M s) k2 = in2 /\
       alookup (to_smap (Set_M s)) k1 = Some (map fst in1) /\
       alookup (to_smap (Set_M s)) k2 = Some (map fst in2)) \/
  (exists l e, go_Set_checkKey1AndKey2 s k1 k2 = GOk (s, (l, e)) /\ err_is_nil e = false /\
       (alookup (to_smap (Set_M s)) k1 = None \/ alookup (to_smap (Set_M s)) k2 = None)).
Proof.
  unfold go_Set_checkKey1AndKey2.
  destruct (lookup_cases (Set_M s) k1) as [[in1 [La1 [Hk1 [L01 Ls1]]]] | [La1 [Hk1 Ls1]]];
    rewrite Hk1; cbn [negb].
  - destruct (lookup_cases (Set_M s) k2) as [[in2 [La2 [Hk2 [L02 Ls2]]]] | [La2 [Hk2 Ls2]]];
      rewrite Hk2; cbn [negb].
    + left. exists in1, in2. repeat split; assumption.
    + right. eexists. eexists. split; [reflexivity|]. split; [reflexivity|]. right. exact Ls2.
  - right. eexists. eexists. split; [reflexivity|]. split; [reflexivity|]. left. exact Ls1.
Qed.

Lemma err_not_nil e : err_is_nil e = false -> e <> ENil.
Proof. intros H E. subst e. discriminate. Qed.

Theorem go_SDiff_eq mord s k1 k2 : mord_ok mord -> gmap_wf (Set_M s) ->
  exists l err, go_Set_SDiff mord s k1 k2 = GOk (s, (l, err)) /\
    match s_diff (to_smap (Set_M s)) k1 k2 with
    | Some x => err = ENil /\ bsort l = x
    | None => err <> ENil
    end.
Proof.
  intros Hm W. unfold go_Set_SDiff, s_diff.
  destruct (two_keys_cases s k1 k2) as [[in1 [in2 [Hck [L01 [L02 [Ls1 Ls2]]]]]] | [l0 [e [Hck [He Hor]]]]];
    rewrite Hck; cbn [gbind].
  - cbn [err_is_nil negb]. rewrite L01, L02, Ls1, Ls2.
    rewrite (grange_fold _ (app_if (fun x => negb (bmem x (map fst in2))))).
    2:{ intros i [x u] acc. unfold app_if. cbn [fst]. rewrite has_key_bmem.
        destruct (bmem x (map fst in2)); reflexivity. }
    cbn [gbind]. eexists. eexists. split; [reflexivity|]. split; [reflexivity|].
    rewrite fold_app_if. cbn [app]. apply bsort_perm_eq. unfold sdiff_l.
    apply Permutation_filter. apply mord_keys. exact Hm.
  - rewrite He. cbn [negb]. eexists. eexists. split; [reflexivity|].
    destruct Hor as [L|L]; rewrite L; [|destruct (alookup (to_smap (Set_M s)) k1)];
      apply err_not_nil; exact He.
Qed.

Theorem go_SInter_eq mord s k1 k2 : mord_ok mord -> gmap_wf (Set_M s) ->
  exists l err, go_Set_SInter mord s k1 k2 = GOk (s, (l, err)) /\
    match s_inter (to_smap (Set_M s)) k1 k2 with
    | Some x => err = ENil /\ bsort l = x
    | None => err <> ENil
    end.
Proof.
  intros Hm W. unfold go_Set_SInter, s_inter.
  destruct (two_keys_cases s k1 k2) as [[in1 [in2 [Hck [L01 [L02 [Ls1 Ls2]]]]]] | [l0 [e [Hck [He Hor]]]]];
    rewrite Hck; cbn [gbind].
  - cbn [err_is_nil negb]. rewrite L01, L02, Ls1, Ls2.
    rewrite (grange_fold _ (app_if (fun x => bmem x (map fst in2)))).
    2:{ intros i [x u] acc. unfold app_if. cbn [fst]. rewrite has_key_bmem.
        destruct (bmem x (map fst in2)); reflexivity. }
    cbn [gbind]. eexists. eexists. split; [reflexivity|]. split; [reflexivity|].
    rewrite fold_app_if. cbn [app]. apply bsort_perm_eq. unfold sinter_l.
    apply Permutation_filter. apply mord_keys. exact Hm.
  - rewrite He. cbn [negb]. eexists. eexists. split; [reflexivity|].
    destruct Hor as [L|L]; rewrite L; [|destruct (alookup (to_smap (Set_M s)) k1)];
      apply err_not_nil; exact He.
Qed.

Theorem go_SUnion_eq mord s k1 k2 : mord_ok mord -> gmap_wf (Set_M s) ->
  exists l err, go_Set_SUnion mord s k1 k2 = GOk (s, (l, err)) /\
    match s_union (to_smap (Set_M s)) k1 k2 with
    | Some x => err = ENil /\ bsort l = x
    | None => err <> ENil
    end.
Proof.
  intros Hm W. unfold go_Set_SUnion, s_union.
  destruct (two_keys_cases s k1 k2) as [[in1 [in2 [Hck [L01 [L02 [Ls1 Ls2]]]]]] | [l0 [e [Hck [He Hor]]]]];
    rewrite Hck; cbn [gbind].
  - cbn [err_is_nil negb]. rewrite L01, L02, Ls1, Ls2.
    rewrite (grange_fold _ app_fst) by (intros i [x u] acc; reflexivity).
    cbn [gbind].
    rewrite (grange_fold _ (app_if (fun x => negb (bmem x (map fst in1))))).
    2:{ intros i [x u] acc. unfold app_if. cbn [fst]. rewrite has_key_bmem.
        destruct (bmem x (map fst in1)); reflexivity. }
    cbn [gbind]. eexists. eexists. split; [reflexivity|]. split; [reflexivity|].
    rewrite fold_app_if, fold_app_fst'. cbn [app]. apply bsort_perm_eq. unfold sunion_l, sdiff_l.
    apply Permutation_app; [|apply Permutation_filter]; apply mord_keys; exact Hm.
  - rewrite He. cbn [negb]. eexists. eexists. split; [reflexivity|].
    destruct Hor as [L|L]; rewrite L; [|destruct (alookup (to_smap (Set_M s)) k1)];
      apply err_not_nil; exact He.
Qed.

(** ** SPop *)

(** SPop removes and returns SOME member (whichever the iteration order puts first),
    or returns nil and changes nothing when the key is missing or the set is empty *)
Theorem go_SPop_eq mord s key : mord_ok mord -> gmap_wf (Set_M s) ->
  exists s' item, go_Set_SPop mord s key = GOk (s', item) /\ gmap_wf (Set_M s') /\
    match alookup (to_smap (Set_M s)) key with
    | Some (_ :: _) => s_spop (to_smap (Set_M s)) key item = Some (to_smap (Set_M s'))
    | _ => item = [] /\ s' = s
    end.
Proof.
  intros Hm W. unfold go_Set_SPop. rewrite go_SHasKey_eq. unfold s_haskey, s_spop.
  destruct (lookup_cases (Set_M s) key) as [[inner [La [Hk [L0 Ls]]]] | [La [Hk Ls]]];
    rewrite Ls; cbn [gbind negb].
  - rewrite L0.
    (* the iteration order of this range (its site number depends on the position
       of the function in the package) *)
    match goal with |- context [mord ?site unit inner] =>
      pose proof (Hm site unit inner) as HP; destruct (mord site unit inner) as [|[x u] rest]
    end.
    + apply Permutation_nil in HP. rewrite HP.
      rewrite grange_nil. cbn [gbind map].
      eexists. eexists. split; [reflexivity|]. split; [exact W|]. split; reflexivity.
    + erewrite grange_ret_head by reflexivity. cbn [gbind].
      eexists. eexists. split; [reflexivity|]. cbn [Set_M set_Set_M]. rewrite ?L0.
      assert (Hin : In x (map fst inner)).
      { apply (in_map fst inner (x, u)). apply (Permutation_in _ HP). left. reflexivity. }
      split.
      * apply gmap_wf_aset; [exact W|]. rewrite map_fst_adel. apply bremove_NoDup.
        apply (gmap_wf_lookup _ _ _ W La).
      * destruct (map fst inner) as [|y ys] eqn:Ey; [destruct Hin|]. rewrite <- Ey in *.
        apply bmem_In in Hin. rewrite Hin, to_smap_aset, map_fst_adel. reflexivity.
  - eexists. eexists. split; [reflexivity|]. split; [exact W|]. split; reflexivity.
Qed.

(** ** SMove *)

Theorem go_SMove_eq s k1 k2 item : gmap_wf (Set_M s) ->
  exists s' ok err, go_Set_SMove s k1 k2 item = GOk (s', (ok, err)) /\
    to_smap (Set_M s') = fst (s_move (to_smap (Set_M s)) k1 k2 item) /\
    ok = snd (s_move (to_smap (Set_M s)) k1 k2 item) /\ (err = ENil <-> ok = true) /\ gmap_wf (Set_M s').
Proof.
  intros W. unfold go_Set_SMove, s_move. rewrite go_SHasKey_eq. unfold s_haskey.
  destruct (lookup_cases (Set_M s) k1) as [[in1 [La1 [Hk1 [L01 Ls1]]]] | [La1 [Hk1 Ls1]]];
    rewrite Ls1; cbn [gbind negb].
  - rewrite go_SHasKey_eq. unfold s_haskey.
    destruct (lookup_cases (Set_M s) k2) as [[in2 [La2 [Hk2 [L02 Ls2]]]] | [La2 [Hk2 Ls2]]];
      rewrite Ls2; cbn [gbind negb].
    + rewrite L02, has_key_bmem. cbn [fst snd].
      destruct (bmem item (map fst in2)); cbn [negb gbind].
      * destruct (go_SRem_eq s k1 item [] W) as [s2 [err2 [HR [Hm2 [_ W2]]]]].
        rewrite HR. cbn [gbind].
        eexists. eexists. eexists. split; [reflexivity|]. split; [exact Hm2|].
        split; [reflexivity|]. split; [|exact W2]. split; reflexivity.
      * destruct (go_SAdd_eq s k2 [item] W) as [s1 [HA [Hm1 W1]]].
        rewrite HA. cbn [gbind].
        destruct (go_SRem_eq s1 k1 item [] W1) as [s2 [err2 [HR [Hm2 [_ W2]]]]].
        rewrite HR. cbn [gbind].
        eexists. eexists. eexists. split; [reflexivity|]. split; [rewrite Hm2, Hm1; reflexivity|].
        split; [reflexivity|]. split; [|exact W2]. split; reflexivity.
    + eexists. eexists. eexists. split; [reflexivity|]. cbn [fst snd]. split; [reflexivity|].
      split; [reflexivity|]. split; [|exact W]. split; discriminate.
  - eexists. eexists. eexists. split; [reflexivity|]. cbn [fst snd]. split; [reflexivity|].
    split; [reflexivity|]. split; [|exact W]. split; discriminate.
Qed.
