(** GoCodecFacts.v — the Gallina translation of the record codecs of /repo
    (entry.go, datafile.go readMetaData, bptree_root_idx.go, bucket_meta.go,
    record.go IsExpired, db.go isFilterEntry, tx_bptree.go getNewKey), generated
    on every run into generated/GoCodec.v, computes what the hand-written
    models Codec.v / Index.v / Merge.v say. *)
From Verif Require Import Bytes BytesFacts Crc32 CrcFacts Codec CodecFacts ListDS Index Merge.
From VerifGo Require Import GoSem.
From VerifGen Require Import GoCodec.
From Coq Require Import Lia ZifyBool Setoid Morphisms.
Open Scope Z_scope.

(** ================================================================== *)
(** * GoSem lemmas (general-purpose facts about the GoSem combinators)  *)
(** ================================================================== *)

(** ** fixed-width arithmetic *)
Lemma wrapU_small bits z : 0 <= z < 2 ^ bits -> wrapU bits z = z.
Proof. intros H. unfold wrapU. apply Z.mod_small. exact H. Qed.

Lemma wrapS64_small z : - 2 ^ 63 <= z < 2 ^ 63 -> wrapS 64 z = z.
Proof.
  intros H. unfold wrapS. change (64 - 1) with 63.
  rewrite Z.mod_small by lia. lia.
Qed.

Lemma iadd_small a b : - 2 ^ 63 <= a + b < 2 ^ 63 -> iadd a b = a + b.
Proof. intros H. unfold iadd. apply wrapS64_small. exact H. Qed.

(** rewrite every wrapU/wrapS 64/iadd whose argument is provably in range *)
Ltac simp_wrap :=
  repeat match goal with
  | |- context [wrapU ?b ?z] => rewrite (wrapU_small b z) by lia
  | |- context [wrapS 64 ?z] => rewrite (wrapS64_small z) by lia
  | |- context [iadd ?a ?b] => rewrite (iadd_small a b) by lia
  end.

(** ** lengths: Z-valued [zlen] against N-valued [blen] *)
Lemma zlen_nonneg {A} (l : list A) : 0 <= zlen l.
Proof. unfold zlen. lia. Qed.

Lemma zlen_app {A} (a b : list A) : zlen (a ++ b) = zlen a + zlen b.
Proof. unfold zlen. rewrite app_length. lia. Qed.

Lemma zlen_repeat {A} (z : A) n : zlen (repeat z n) = Z.of_nat n.
Proof. unfold zlen. rewrite repeat_length. reflexivity. Qed.

Lemma zlen_le_enc n v : zlen (le_enc n v) = Z.of_nat n.
Proof. unfold zlen. rewrite length_le_enc. reflexivity. Qed.

Lemma zlen_blen (l : bytes) : zlen l = Z.of_N (blen l).
Proof. unfold zlen, blen. lia. Qed.

Lemma to_N_zlen (l : bytes) : Z.to_N (zlen l) = blen l.
Proof. unfold zlen, blen. lia. Qed.

Lemma to_nat_zlen {A} (l : list A) : Z.to_nat (zlen l) = length l.
Proof. unfold zlen. lia. Qed.

(** side conditions of the combinator lemmas: lengths of concatenations of
    encoded fields and zero padding, then linear arithmetic *)
Ltac zsolve :=
  unfold zlen in *;
  rewrite ?app_length, ?length_le_enc, ?repeat_length;
  lia.

(** [Z.to_nat] of a literal *)
Ltac znat :=
  repeat match goal with
  | |- context [Z.to_nat (Zpos ?p)] =>
      let n := eval compute in (Z.to_nat (Zpos p)) in change (Z.to_nat (Zpos p)) with n
  end.

(** ** lists *)
Lemma skipn_repeat {A} (z : A) k m : skipn k (repeat z m) = repeat z (m - k).
Proof.
  revert m; induction k as [|k IH]; intros m.
  - rewrite Nat.sub_0_r. reflexivity.
  - destruct m as [|m]; [reflexivity|]. cbn [repeat skipn Nat.sub]. apply IH.
Qed.

Lemma firstn_repeat {A} (z : A) k m : (k <= m)%nat -> firstn k (repeat z m) = repeat z k.
Proof.
  revert m; induction k as [|k IH]; intros m H; [reflexivity|].
  destruct m as [|m]; [lia|]. cbn [repeat firstn]. f_equal. apply IH. lia.
Qed.

Lemma repeat_nil {A} (z : A) n : n = 0%nat -> repeat z n = [].
Proof. intros ->. reflexivity. Qed.

(** ** make *)
Lemma gmake_ok {A} (z : A) n : 0 <= n -> gmake z n = GOk (repeat z (Z.to_nat n)).
Proof. intros H. unfold gmake. replace (n <? 0) with false by lia. reflexivity. Qed.

(** make, with the first [k] cells split off (the part later stores skip over) *)
Lemma gmake_ext {A} (z : A) n (k : nat) : Z.of_nat k <= n ->
  gmake z n = GOk (repeat z k ++ repeat z (Z.to_nat n - k)).
Proof.
  intros H. rewrite gmake_ok by lia. f_equal.
  rewrite <- repeat_app. f_equal. lia.
Qed.

(** ** slices *)
Lemma gslice_ok {A} (l : list A) lo hi : 0 <= lo <= hi -> hi <= zlen l ->
  gslice l lo hi = GOk (zslice l lo hi).
Proof.
  intros H1 H2. unfold gslice.
  replace ((0 <=? lo) && (lo <=? hi) && (hi <=? zlen l)) with true by lia. reflexivity.
Qed.

Lemma zslice_tail {A} (l : list A) lo : 0 <= lo -> zslice l lo (zlen l) = skipn (Z.to_nat lo) l.
Proof.
  intros H. unfold zslice. apply firstn_all2. rewrite skipn_length. unfold zlen. lia.
Qed.

Lemma gslice_tail {A} (l : list A) lo : 0 <= lo <= zlen l ->
  gslice l lo (zlen l) = GOk (skipn (Z.to_nat lo) l).
Proof. intros H. rewrite gslice_ok by lia. rewrite zslice_tail by lia. reflexivity. Qed.

(** a slice l[lo:hi] with an explicit upper bound (not l[lo:]) succeeds *)
Ltac gslice_dead :=
  match goal with
  | |- context [gslice ?l ?lo ?hi] =>
      lazymatch hi with
      | zlen _ => fail
      | _ => rewrite (gslice_ok l lo hi) by zsolve
      end
  end.

(** l[len pre:] of pre ++ r *)
Lemma gslice_tail_app {A} (pre r : list A) lo : zlen pre = lo ->
  gslice (pre ++ r) lo (zlen (pre ++ r)) = GOk r.
Proof.
  intros H. pose proof (zlen_nonneg pre). pose proof (zlen_nonneg r).
  rewrite gslice_tail by (rewrite zlen_app; lia).
  rewrite skipn_app_here by (unfold zlen in H; lia). reflexivity.
Qed.

(** a slice of the still-zero part of a buffer being filled *)
Lemma gslice_ext {A} (z : A) (done : list A) (m : nat) lo hi :
  zlen done = lo -> lo <= hi -> hi <= lo + Z.of_nat m ->
  gslice (done ++ repeat z m) lo hi = GOk (repeat z (Z.to_nat (hi - lo))).
Proof.
  intros H1 H2 H3. pose proof (zlen_nonneg done).
  rewrite gslice_ok by (rewrite ?zlen_app, ?zlen_repeat; lia).
  unfold zslice. rewrite skipn_app_here by (unfold zlen in H1; lia).
  rewrite firstn_repeat by lia. reflexivity.
Qed.

(** ** stores into a buffer of the form (done ++ zeros) at offset (length done) *)
Lemma gput_ext (done : bytes) (m : nat) lo hi w v :
  zlen done = lo -> 0 <= w -> w <= hi - lo -> hi <= lo + Z.of_nat m ->
  gput (done ++ repeat x00 m) lo hi w v =
  GOk ((done ++ le_enc (Z.to_nat w) v) ++ repeat x00 (m - Z.to_nat w)).
Proof.
  intros H1 H2 H3 H4. pose proof (zlen_nonneg done). unfold gput.
  replace ((0 <=? lo) && (lo <=? hi) && (hi <=? zlen (done ++ repeat x00 m)) && (w <=? hi - lo))
    with true by (rewrite zlen_app, zlen_repeat; lia).
  rewrite slice_app_here by (unfold zlen in H1; lia).
  replace (Z.to_nat (lo + w)) with (length done + Z.to_nat w)%nat by (unfold zlen in H1; lia).
  rewrite skipn_app_more by reflexivity. rewrite skipn_repeat.
  rewrite <- app_assoc. reflexivity.
Qed.

(** the store of the leading field, once the rest is in place *)
Lemma gput_head (pre body : bytes) w v : zlen pre = w ->
  gput (pre ++ body) 0 w w v = GOk (le_enc (Z.to_nat w) v ++ body).
Proof.
  intros H. pose proof (zlen_nonneg pre). pose proof (zlen_nonneg body). unfold gput.
  replace ((0 <=? 0) && (0 <=? w) && (w <=? zlen (pre ++ body)) && (w <=? w - 0))
    with true by (rewrite zlen_app; lia).
  cbn [Z.to_nat firstn app]. rewrite Z.add_0_l.
  rewrite skipn_app_here by (unfold zlen in H; lia). reflexivity.
Qed.

Lemma gcopy_ext {A} (z : A) (done : list A) (m : nat) lo hi (src : list A) :
  zlen done = lo -> hi - lo = zlen src -> zlen src <= Z.of_nat m ->
  gcopy (done ++ repeat z m) lo hi src = GOk ((done ++ src) ++ repeat z (m - length src)).
Proof.
  intros H1 H2 H3. pose proof (zlen_nonneg done). pose proof (zlen_nonneg src). unfold gcopy.
  replace ((0 <=? lo) && (lo <=? hi) && (hi <=? zlen (done ++ repeat z m)))
    with true by (rewrite zlen_app, zlen_repeat; lia).
  cbv zeta. rewrite H2, Z.min_id.
  rewrite slice_app_here by (unfold zlen in H1; lia).
  rewrite to_nat_zlen, firstn_all.
  replace (Z.to_nat (lo + zlen src)) with (length done + length src)%nat by (unfold zlen in *; lia).
  rewrite skipn_app_more by reflexivity. rewrite skipn_repeat.
  rewrite <- app_assoc. reflexivity.
Qed.

(** copy(x, src) filling the whole of x *)
Lemma gcopy_full {A} (l src : list A) : zlen l = zlen src -> gcopy l 0 (zlen l) src = GOk src.
Proof.
  intros H. pose proof (zlen_nonneg l). unfold gcopy.
  replace ((0 <=? 0) && (0 <=? zlen l) && (zlen l <=? zlen l)) with true by lia.
  cbv zeta. rewrite Z.sub_0_r, H, Z.min_id, Z.add_0_l.
  cbn [Z.to_nat firstn app]. rewrite to_nat_zlen, firstn_all.
  rewrite skipn_all2 by (unfold zlen in H; lia). rewrite app_nil_r. reflexivity.
Qed.

(** the store through a sub-slice alias of the still-zero part *)
Lemma gsplice_ext {A} (z : A) (done : list A) (m : nat) lo hi (v : list A) :
  zlen done = lo -> zlen v = hi - lo -> hi - lo <= Z.of_nat m ->
  gsplice (done ++ repeat z m) lo hi v = GOk ((done ++ v) ++ repeat z (m - length v)).
Proof.
  intros H1 H2 H3. pose proof (zlen_nonneg done). pose proof (zlen_nonneg v). unfold gsplice.
  replace ((0 <=? lo) && (lo <=? hi) && (hi <=? zlen (done ++ repeat z m)) && (zlen v =? hi - lo))
    with true by (rewrite zlen_app, zlen_repeat; lia).
  rewrite slice_app_here by (unfold zlen in H1; lia).
  replace (Z.to_nat hi) with (length done + length v)%nat by (unfold zlen in *; lia).
  rewrite skipn_app_more by reflexivity. rewrite skipn_repeat.
  rewrite <- app_assoc. reflexivity.
Qed.

(** ** stores into disjoint ranges commute

    The order of two adjacent [PutUintNN] into disjoint ranges of the same
    buffer is irrelevant; [sort_puts] reorders every chain of such stores by
    increasing (literal) offset, so that a proof written for stores in
    increasing order is unaffected by a reordering of the statements. *)
Definition spl {A} (l : list A) (lo : nat) (x : list A) : list A :=
  firstn lo l ++ x ++ skipn (lo + length x) l.

Lemma spl_app {A} (a b r x : list A) n : length a = n -> length b = length x ->
  spl (a ++ b ++ r) n x = a ++ x ++ r.
Proof.
  intros Ha Hb. unfold spl. rewrite slice_app_here by exact Ha.
  rewrite <- Hb. rewrite skipn_app_more by exact Ha.
  rewrite skipn_app_here by reflexivity. reflexivity.
Qed.

Lemma split_at {A} (l : list A) n : (n <= length l)%nat -> exists a b, l = a ++ b /\ length a = n.
Proof.
  intros H. exists (firstn n l), (skipn n l).
  split; [symmetry; apply firstn_skipn | apply firstn_length_le; exact H].
Qed.

Lemma length_spl {A} (l x : list A) lo : (lo + length x <= length l)%nat -> length (spl l lo x) = length l.
Proof.
  intros H. unfold spl. rewrite !app_length, firstn_length, skipn_length. lia.
Qed.

Lemma spl_comm {A} (l x1 x2 : list A) lo1 lo2 :
  (lo2 + length x2 <= lo1)%nat -> (lo1 + length x1 <= length l)%nat ->
  spl (spl l lo1 x1) lo2 x2 = spl (spl l lo2 x2) lo1 x1.
Proof.
  intros H1 H2.
  destruct (split_at l lo2) as (a & r1 & -> & Ha); [lia|].
  rewrite app_length in H2.
  destruct (split_at r1 (length x2)) as (b & r2 & -> & Hb); [lia|].
  rewrite app_length in H2.
  destruct (split_at r2 (lo1 - lo2 - length x2)) as (c & r3 & -> & Hc); [lia|].
  rewrite app_length in H2.
  destruct (split_at r3 (length x1)) as (d & e & -> & Hd); [lia|].
  transitivity (a ++ x2 ++ c ++ x1 ++ e).
  - replace (a ++ b ++ c ++ d ++ e) with ((a ++ b ++ c) ++ d ++ e) by (rewrite <- !app_assoc; reflexivity).
    rewrite (spl_app (a ++ b ++ c) d e x1 lo1) by (rewrite ?app_length; lia).
    rewrite <- !app_assoc.
    apply spl_app; [exact Ha | exact Hb].
  - rewrite (spl_app a b (c ++ d ++ e) x2 lo2) by assumption.
    replace (a ++ x2 ++ c ++ d ++ e) with ((a ++ x2 ++ c) ++ d ++ e) by (rewrite <- !app_assoc; reflexivity).
    rewrite (spl_app (a ++ x2 ++ c) d e x1 lo1) by (rewrite ?app_length; lia).
    rewrite <- !app_assoc. reflexivity.
Qed.

Lemma gput_ok (l : bytes) lo hi w v : 0 <= w -> 0 <= lo -> lo <= hi -> hi <= zlen l -> w <= hi - lo ->
  gput l lo hi w v = GOk (spl l (Z.to_nat lo) (le_enc (Z.to_nat w) v)).
Proof.
  intros Hw H1 H2 H3 H4. unfold gput, spl.
  replace ((0 <=? lo) && (lo <=? hi) && (hi <=? zlen l) && (w <=? hi - lo)) with true by lia.
  rewrite length_le_enc. replace (Z.to_nat (lo + w)) with (Z.to_nat lo + Z.to_nat w)%nat by lia.
  reflexivity.
Qed.

Lemma gput_panic (l : bytes) lo hi w v : ~ (0 <= lo /\ lo <= hi /\ hi <= zlen l /\ w <= hi - lo) ->
  gput l lo hi w v = GPanic.
Proof.
  intros H. unfold gput.
  replace ((0 <=? lo) && (lo <=? hi) && (hi <=? zlen l) && (w <=? hi - lo)) with false by lia.
  reflexivity.
Qed.

Lemma zlen_spl_enc (l : bytes) lo w v : 0 <= w -> 0 <= lo -> lo + w <= zlen l ->
  zlen (spl l (Z.to_nat lo) (le_enc (Z.to_nat w) v)) = zlen l.
Proof.
  intros Hw H1 H2. unfold zlen in *. rewrite length_spl; [reflexivity|].
  rewrite length_le_enc. lia.
Qed.

Lemma gput_comm {B} (l : bytes) lo1 hi1 w1 v1 lo2 hi2 w2 v2 (k : bytes -> gres B) :
  0 <= w1 -> 0 <= w2 -> hi2 <= lo1 ->
  gbind (gput l lo1 hi1 w1 v1) (fun t => gbind (gput t lo2 hi2 w2 v2) k) =
  gbind (gput l lo2 hi2 w2 v2) (fun t => gbind (gput t lo1 hi1 w1 v1) k).
Proof.
  intros Hw1 Hw2 Hd. pose proof (zlen_nonneg l) as Hl.
  destruct ((0 <=? lo1) && (lo1 <=? hi1) && (hi1 <=? zlen l) && (w1 <=? hi1 - lo1)) eqn:E1;
  destruct ((0 <=? lo2) && (lo2 <=? hi2) && (hi2 <=? zlen l) && (w2 <=? hi2 - lo2)) eqn:E2.
  - rewrite (gput_ok l lo1) by lia. rewrite (gput_ok l lo2) by lia. cbn [gbind].
    rewrite gput_ok by (rewrite ?zlen_spl_enc by lia; lia).
    rewrite gput_ok by (rewrite ?zlen_spl_enc by lia; lia).
    cbn [gbind]. f_equal. apply spl_comm; rewrite ?length_le_enc; unfold zlen in *; lia.
  - rewrite (gput_ok l lo1) by lia. rewrite (gput_panic l lo2) by lia. cbn [gbind].
    rewrite gput_panic by (rewrite ?zlen_spl_enc by lia; lia). reflexivity.
  - rewrite (gput_panic l lo1) by lia. rewrite (gput_ok l lo2) by lia. cbn [gbind].
    rewrite gput_panic by (rewrite ?zlen_spl_enc by lia; lia). reflexivity.
  - rewrite (gput_panic l lo1) by lia. rewrite (gput_panic l lo2) by lia. reflexivity.
Qed.

(** rewriting in the continuation of a [gbind] (under its binder) *)
#[local] Instance gbind_pointwise {A B} :
  Proper (eq ==> pointwise_relation A eq ==> eq) (@gbind A B).
Proof. intros m m' -> f g H. destruct m'; cbn [gbind]; [apply H | reflexivity | reflexivity]. Qed.

(** bubble sort of the adjacent stores with literal offsets; the stores may
    sit anywhere in the chain (the buffer they write to is then a bound
    variable, hence the [setoid_rewrite]) *)
Ltac sort_puts :=
  repeat match goal with
  | |- context [@gbind _ ?B (gput _ ?lo1 ?hi1 ?w1 ?v1) (fun t => gbind (gput t ?lo2 ?hi2 ?w2 ?v2) _)] =>
      let b := eval compute in (Z.ltb lo2 lo1) in
      lazymatch b with
      | true =>
          let H1 := fresh in let H2 := fresh in let H3 := fresh in
          assert (H1 : 0 <= w1) by lia; assert (H2 : 0 <= w2) by lia; assert (H3 : hi2 <= lo1) by lia;
          setoid_rewrite (fun l k => @gput_comm B l lo1 hi1 w1 v1 lo2 hi2 w2 v2 k H1 H2 H3);
          clear H1 H2 H3
      end
  end.

(** ** stores in general: [PutUintNN] and [copy] into a sub-slice

    [gstore l lo hi x] writes the bytes [x] at offset [lo] of [l] through the
    sub-slice [l[lo:hi]].  A [gput] and a [gcopy] that fills its destination
    are such stores ([to_stores]); two adjacent stores into ranges that are
    provably disjoint and in decreasing order commute ([sort_stores], wherever
    they are in the chain), and a call of a function that is itself a store
    (Entry.setEntryHeaderBuf) takes part in the sorting.  An encoder is then
    executed on the sorted chain, each store extending the part already
    written ([gstore_ext0]): the order of the independent stores in the Go
    source does not matter. *)
Definition gstore (l : bytes) (lo hi : Z) (x : bytes) : gres bytes :=
  if (0 <=? lo) && (lo <=? hi) && (hi <=? zlen l) && (zlen x <=? hi - lo)
  then GOk (spl l (Z.to_nat lo) x) else GPanic.

Lemma gput_store (l : bytes) lo hi w v : 0 <= w ->
  gput l lo hi w v = gstore l lo hi (le_enc (Z.to_nat w) v).
Proof.
  intros Hw. unfold gput, gstore. rewrite zlen_le_enc, Z2Nat.id by lia.
  destruct ((0 <=? lo) && (lo <=? hi) && (hi <=? zlen l) && (w <=? hi - lo)) eqn:E; [|reflexivity].
  f_equal. unfold spl. rewrite length_le_enc.
  replace (Z.to_nat (lo + w)) with (Z.to_nat lo + Z.to_nat w)%nat by lia. reflexivity.
Qed.

Lemma gcopy_store (l : bytes) lo hi (src : bytes) : hi - lo = zlen src ->
  gcopy l lo hi src = gstore l lo hi src.
Proof.
  intros H. pose proof (zlen_nonneg src) as Hs. unfold gcopy, gstore. cbv zeta.
  replace (zlen src <=? hi - lo) with true by lia. rewrite andb_true_r.
  destruct ((0 <=? lo) && (lo <=? hi) && (hi <=? zlen l)) eqn:E; [|reflexivity].
  f_equal. rewrite H, Z.min_id. unfold spl. rewrite to_nat_zlen, firstn_all.
  replace (Z.to_nat (lo + zlen src)) with (Z.to_nat lo + length src)%nat by (unfold zlen; lia).
  reflexivity.
Qed.

Lemma gstore_ok (l : bytes) lo hi x : 0 <= lo -> lo <= hi -> hi <= zlen l -> zlen x <= hi - lo ->
  gstore l lo hi x = GOk (spl l (Z.to_nat lo) x).
Proof.
  intros H1 H2 H3 H4. unfold gstore.
  replace ((0 <=? lo) && (lo <=? hi) && (hi <=? zlen l) && (zlen x <=? hi - lo)) with true by lia.
  reflexivity.
Qed.

Lemma gstore_panic (l : bytes) lo hi x : ~ (0 <= lo /\ lo <= hi /\ hi <= zlen l /\ zlen x <= hi - lo) ->
  gstore l lo hi x = GPanic.
Proof.
  intros H. unfold gstore.
  replace ((0 <=? lo) && (lo <=? hi) && (hi <=? zlen l) && (zlen x <=? hi - lo)) with false by lia.
  reflexivity.
Qed.

Lemma zlen_spl (l x : bytes) lo : 0 <= lo -> lo + zlen x <= zlen l -> zlen (spl l (Z.to_nat lo) x) = zlen l.
Proof.
  intros H1 H2. unfold zlen in *. rewrite length_spl; [reflexivity | lia].
Qed.

Lemma gstore_comm {B} (l : bytes) lo1 hi1 x1 lo2 hi2 x2 (k : bytes -> gres B) :
  hi2 <= lo1 ->
  gbind (gstore l lo1 hi1 x1) (fun t => gbind (gstore t lo2 hi2 x2) k) =
  gbind (gstore l lo2 hi2 x2) (fun t => gbind (gstore t lo1 hi1 x1) k).
Proof.
  intros Hd. pose proof (zlen_nonneg l) as Hl.
  pose proof (zlen_nonneg x1) as Hx1. pose proof (zlen_nonneg x2) as Hx2.
  destruct ((0 <=? lo1) && (lo1 <=? hi1) && (hi1 <=? zlen l) && (zlen x1 <=? hi1 - lo1)) eqn:E1;
  destruct ((0 <=? lo2) && (lo2 <=? hi2) && (hi2 <=? zlen l) && (zlen x2 <=? hi2 - lo2)) eqn:E2.
  - rewrite (gstore_ok l lo1) by lia. rewrite (gstore_ok l lo2) by lia. cbn [gbind].
    rewrite gstore_ok by (rewrite ?zlen_spl by lia; lia).
    rewrite gstore_ok by (rewrite ?zlen_spl by lia; lia).
    cbn [gbind]. f_equal. apply spl_comm; unfold zlen in *; lia.
  - rewrite (gstore_ok l lo1) by lia. rewrite (gstore_panic l lo2) by lia. cbn [gbind].
    rewrite gstore_panic by (rewrite ?zlen_spl by lia; lia). reflexivity.
  - rewrite (gstore_panic l lo1) by lia. rewrite (gstore_ok l lo2) by lia. cbn [gbind].
    rewrite gstore_panic by (rewrite ?zlen_spl by lia; lia). reflexivity.
  - rewrite (gstore_panic l lo1) by lia. rewrite (gstore_panic l lo2) by lia. reflexivity.
Qed.

(** two stores into adjacent ranges are one store *)
Lemma spl_spl_adj {A} (l x1 x2 : list A) lo : (lo + length x1 + length x2 <= length l)%nat ->
  spl (spl l lo x1) (lo + length x1) x2 = spl l lo (x1 ++ x2).
Proof.
  intros H.
  destruct (split_at l lo) as (a & r1 & -> & Ha); [lia|].
  rewrite app_length in H.
  destruct (split_at r1 (length x1)) as (b & r2 & -> & Hb); [lia|].
  rewrite app_length in H.
  destruct (split_at r2 (length x2)) as (c & e & -> & Hc); [lia|].
  rewrite (spl_app a b (c ++ e) x1 lo) by assumption.
  replace (a ++ x1 ++ c ++ e) with ((a ++ x1) ++ c ++ e) by (rewrite <- !app_assoc; reflexivity).
  rewrite (spl_app (a ++ x1) c e x2) by (rewrite ?app_length; lia).
  replace (a ++ b ++ c ++ e) with (a ++ (b ++ c) ++ e) by (rewrite <- !app_assoc; reflexivity).
  rewrite (spl_app a (b ++ c) e (x1 ++ x2) lo) by (rewrite ?app_length; lia).
  rewrite <- !app_assoc. reflexivity.
Qed.

Lemma gstore_merge {B} (l : bytes) lo1 hi1 x1 lo2 hi2 x2 (k : bytes -> gres B) :
  hi1 = lo2 -> zlen x1 = hi1 - lo1 ->
  gbind (gstore l lo1 hi1 x1) (fun t => gbind (gstore t lo2 hi2 x2) k) =
  gbind (gstore l lo1 hi2 (x1 ++ x2)) k.
Proof.
  intros <- Hx. pose proof (zlen_nonneg l) as Hl.
  pose proof (zlen_nonneg x1) as Hx1. pose proof (zlen_nonneg x2) as Hx2.
  assert (Happ : zlen (x1 ++ x2) = zlen x1 + zlen x2) by apply zlen_app.
  destruct ((0 <=? lo1) && (hi1 <=? hi2) && (hi2 <=? zlen l) && (zlen x2 <=? hi2 - hi1)) eqn:E.
  - rewrite (gstore_ok l lo1 hi1) by lia. cbn [gbind].
    rewrite gstore_ok by (rewrite ?zlen_spl by lia; lia).
    rewrite (gstore_ok l lo1 hi2) by lia. cbn [gbind]. f_equal.
    replace (Z.to_nat hi1) with (Z.to_nat lo1 + length x1)%nat by (unfold zlen in *; lia).
    apply spl_spl_adj. unfold zlen in *. lia.
  - rewrite (gstore_panic l lo1 hi2) by lia.
    destruct ((0 <=? lo1) && (hi1 <=? zlen l)) eqn:E1.
    + rewrite (gstore_ok l lo1 hi1) by lia. cbn [gbind].
      rewrite gstore_panic by (rewrite ?zlen_spl by lia; lia). reflexivity.
    + rewrite (gstore_panic l lo1 hi1) by lia. reflexivity.
Qed.

(** a store that extends the part of the buffer already written *)
Lemma gstore_ext (done junk x : bytes) lo hi :
  zlen done = lo -> zlen x <= hi - lo -> hi <= lo + zlen junk ->
  gstore (done ++ junk) lo hi x = GOk ((done ++ x) ++ skipn (length x) junk).
Proof.
  intros H1 H2 H3. pose proof (zlen_nonneg done). pose proof (zlen_nonneg x).
  rewrite gstore_ok by (rewrite ?zlen_app; lia). unfold spl.
  rewrite slice_app_here by (unfold zlen in H1; lia).
  rewrite skipn_app_more by (unfold zlen in H1; lia).
  rewrite <- app_assoc. reflexivity.
Qed.

Lemma gstore_ext0 (done x : bytes) (m : nat) lo hi :
  zlen done = lo -> zlen x <= hi - lo -> hi <= lo + Z.of_nat m ->
  gstore (done ++ repeat x00 m) lo hi x = GOk ((done ++ x) ++ repeat x00 (m - length x)).
Proof.
  intros H1 H2 H3. rewrite gstore_ext by (rewrite ?zlen_repeat; lia).
  rewrite skipn_repeat. reflexivity.
Qed.

(** every [gput] / filling [gcopy] with closed arguments, wherever it is in the chain *)
Ltac to_stores side :=
  repeat match goal with
  | |- context [gput _ ?lo ?hi ?w ?v] =>
      let H := fresh in
      assert (H : 0 <= w) by lia;
      setoid_rewrite (fun l => gput_store l lo hi w v H); clear H
  | |- context [gcopy _ ?lo ?hi ?src] =>
      let H := fresh in
      assert (H : hi - lo = zlen src) by side;
      setoid_rewrite (fun l => gcopy_store l lo hi src H); clear H
  end.

(** bubble sort of the adjacent stores whose order is provable by [side] *)
Ltac sort_stores side :=
  repeat match goal with
  | |- context [@gbind _ ?B (gstore _ ?lo1 ?hi1 ?x1) (fun t => gbind (gstore t ?lo2 ?hi2 ?x2) _)] =>
      let H := fresh in
      assert (H : hi2 <= lo1) by side;
      setoid_rewrite (fun l k => @gstore_comm B l lo1 hi1 x1 lo2 hi2 x2 k H); clear H
  end.

(** fuse the adjacent stores into contiguous ranges *)
Ltac merge_stores side :=
  repeat match goal with
  | |- context [@gbind _ ?B (gstore _ ?lo1 ?hi1 ?x1) (fun t => gbind (gstore t ?lo2 ?hi2 ?x2) _)] =>
      let H1 := fresh in let H2 := fresh in
      assert (H1 : hi1 = lo2) by side; assert (H2 : zlen x1 = hi1 - lo1) by side;
      setoid_rewrite (fun l k => @gstore_merge B l lo1 hi1 x1 lo2 hi2 x2 k H1 H2); clear H1 H2
  end.

(** ** case analysis that does not depend on the shape of a test

    (the same tactics as in GoListFacts.v, repeated here so that this file
    depends on the translation of the codecs only)  [go_case] case-splits on
    one ATOMIC test of the first [if] (or boolean connective) of the goal,
    descending through [&&], [||], [negb]; [go_cases] repeats this and lets
    [lia] discard the impossible branches. *)
Ltac bool_atom c :=
  lazymatch c with
  | andb ?a ?b => first [bool_atom a | bool_atom b]
  | orb ?a ?b => first [bool_atom a | bool_atom b]
  | negb ?a => bool_atom a
  | true => fail
  | false => fail
  | context [if ?d then _ else _] => bool_atom d
  | _ => destruct c eqn:?
  end.

Ltac go_case :=
  match goal with
  | |- context [if ?c then _ else _] => bool_atom c; cbn [andb orb negb gbind fst snd]
  | |- context [andb ?a ?b] => bool_atom (andb a b); cbn [andb orb negb gbind fst snd]
  | |- context [orb ?a ?b] => bool_atom (orb a b); cbn [andb orb negb gbind fst snd]
  | |- context [negb ?a] => bool_atom a; cbn [andb orb negb gbind fst snd]
  end.

Ltac go_cases := repeat (go_case; try (exfalso; lia)).

(** ** loads *)
Lemma gle_zslice (buf : bytes) lo hi w : 0 <= lo -> 0 <= w -> hi = lo + w -> hi <= zlen buf ->
  gle w (zslice buf lo hi) = GOk (Z.of_N (fld buf (Z.to_nat lo) (Z.to_nat w))).
Proof.
  intros H1 H2 H3 H4. unfold gle, zslice, fld, slice. subst hi.
  replace (lo + w - lo) with w by lia.
  assert (L : zlen (firstn (Z.to_nat w) (skipn (Z.to_nat lo) buf)) = w).
  { unfold zlen in *. rewrite firstn_length, skipn_length. lia. }
  rewrite L. replace (w <? w) with false by lia.
  rewrite firstn_firstn, Nat.min_id. reflexivity.
Qed.

(** ================================================================== *)
(** * The record codecs                                                 *)
(** ================================================================== *)

(** ---- data entries ---- *)
Definition meta_of (e : go_Entry) : go_MetaData := Entry_Meta e.

Definition to_entry (e : go_Entry) : entry :=
  mkEntry (MetaData_bucket (meta_of e)) (Entry_Key e) (Entry_Value e)
          (Z.to_N (MetaData_timestamp (meta_of e))) (Z.to_N (MetaData_TTL (meta_of e)))
          (Z.to_N (MetaData_Flag (meta_of e))) (Z.to_N (MetaData_status (meta_of e)))
          (Z.to_N (MetaData_ds (meta_of e))) (Z.to_N (MetaData_txID (meta_of e))).

(** what Tx.put guarantees of every entry it builds: the size fields are the
    lengths, every field fits its Go type, the record is smaller than 4 GiB *)
Definition sized (e : go_Entry) : Prop :=
  let m := meta_of e in
  MetaData_keySize m = zlen (Entry_Key e) /\ MetaData_valueSize m = zlen (Entry_Value e) /\
  MetaData_bucketSize m = zlen (MetaData_bucket m) /\
  0 <= MetaData_timestamp m < 2 ^ 64 /\ 0 <= MetaData_TTL m < 2 ^ 32 /\ 0 <= MetaData_Flag m < 2 ^ 16 /\
  0 <= MetaData_status m < 2 ^ 16 /\ 0 <= MetaData_ds m < 2 ^ 16 /\ 0 <= MetaData_txID m < 2 ^ 64 /\
  42 + zlen (Entry_Key e) + zlen (Entry_Value e) + zlen (MetaData_bucket m) < 2 ^ 32.

Theorem go_Entry_Size_eq e : sized e ->
  go_Entry_Size e = GOk (e, Z.of_N (entry_size (to_entry e))).
Proof.
  unfold sized, meta_of. cbv zeta.
  intros (Hk & Hv & Hb & Hts & Httl & Hfl & Hst & Hds & Htx & Hsz).
  pose proof (zlen_nonneg (Entry_Key e)). pose proof (zlen_nonneg (Entry_Value e)).
  pose proof (zlen_nonneg (MetaData_bucket (Entry_Meta e))).
  unfold go_Entry_Size. rewrite Hk, Hv, Hb. simp_wrap.
  unfold entry_size, hdr_size, to_entry, meta_of. cbn [e_key e_value e_bucket].
  do 2 f_equal. rewrite !zlen_blen. lia.
Qed.

(** setEntryHeaderBuf on a buffer whose first four bytes are in place and the
    rest still zero: appends bytes 4..42 of the header *)
Lemma go_setEntryHeaderBuf_ext e (done : bytes) (m : nat) :
  sized e -> zlen done = 4 -> (38 <= m)%nat ->
  go_Entry_setEntryHeaderBuf e (done ++ repeat x00 m) =
  GOk ((e, (done ++ entry_hdr_tail (to_entry e)) ++ repeat x00 (m - 38)),
       (done ++ entry_hdr_tail (to_entry e)) ++ repeat x00 (m - 38)).
Proof.
  unfold sized, meta_of. cbv zeta.
  intros (Hk & Hv & Hb & Hts & Httl & Hfl & Hst & Hds & Htx & Hsz) Hd Hm.
  unfold go_Entry_setEntryHeaderBuf. rewrite Hk, Hv, Hb. cbv zeta.
  sort_puts.
  repeat (rewrite gput_ext by zsolve; cbn [gbind]).
  znat. rewrite !to_N_zlen.
  unfold entry_hdr_tail, to_entry, meta_of.
  cbn [e_key e_value e_bucket e_ts e_ttl e_flag e_status e_ds e_txid].
  rewrite <- !app_assoc.
  match goal with |- context [repeat x00 ?k] => replace k with (m - 38)%nat by lia end.
  reflexivity.
Qed.

(** setEntryHeaderBuf is ONE store of bytes 4..42, on any buffer (too short a
    buffer included: both sides panic), whatever the order of its nine puts *)
Lemma go_setEntryHeaderBuf_store {B} e (l : bytes) (k : (go_Entry * bytes) * bytes -> gres B) :
  sized e ->
  gbind (go_Entry_setEntryHeaderBuf e l) k =
  gbind (gstore l 4 42 (entry_hdr_tail (to_entry e))) (fun t => k ((e, t), t)).
Proof.
  unfold sized, meta_of. cbv zeta.
  intros (Hk & Hv & Hb & Hts & Httl & Hfl & Hst & Hds & Htx & Hsz).
  unfold go_Entry_setEntryHeaderBuf. rewrite Hk, Hv, Hb. cbv zeta.
  to_stores lia. sort_stores lia. merge_stores ltac:(rewrite ?zlen_app, ?zlen_le_enc; lia).
  znat. rewrite !to_N_zlen.
  match goal with |- gbind (gbind (gstore l 4 42 ?x) _) _ = _ =>
    replace x with (entry_hdr_tail (to_entry e))
      by (unfold entry_hdr_tail, to_entry, meta_of;
          cbn [e_key e_value e_bucket e_ts e_ttl e_flag e_status e_ds e_txid];
          rewrite <- ?app_assoc; reflexivity)
  end.
  destruct (gstore l 4 42 (entry_hdr_tail (to_entry e))); reflexivity.
Qed.

(** Entry.Encode produces exactly the bytes of the model's [encode_entry] *)
Theorem go_Entry_Encode_eq e : sized e ->
  go_Entry_Encode e = GOk (e, encode_entry (to_entry e)).
Proof.
  intros Hs. pose proof Hs as Hs'. revert Hs'. unfold sized, meta_of. cbv zeta.
  intros (Hk & Hv & Hb & Hts & Httl & Hfl & Hst & Hds & Htx & Hsz).
  pose proof (zlen_nonneg (Entry_Key e)). pose proof (zlen_nonneg (Entry_Value e)).
  pose proof (zlen_nonneg (MetaData_bucket (Entry_Meta e))).
  unfold go_Entry_Encode, go_Entry_Size. cbn [gbind]. rewrite Hk, Hv, Hb. simp_wrap.
  rewrite (gmake_ext x00 _ 4) by lia. cbn [gbind].
  (* the header (one store, see [go_setEntryHeaderBuf_store]) and the three
     copies are four stores into disjoint ranges: sorted, then executed *)
  match goal with |- context [@gbind _ ?B (go_Entry_setEntryHeaderBuf e _) _] =>
    setoid_rewrite (fun l k => @go_setEntryHeaderBuf_store B e l k Hs)
  end.
  cbn [gbind].
  assert (Lh : length (entry_hdr_tail (to_entry e)) = 38%nat).
  { unfold entry_hdr_tail. rewrite !app_length, !length_le_enc. reflexivity. }
  assert (Lhz : zlen (entry_hdr_tail (to_entry e)) = 38) by (unfold zlen; rewrite Lh; reflexivity).
  to_stores lia. sort_stores lia.
  repeat (rewrite gstore_ext0 by (unfold zlen in *; rewrite ?app_length, ?Lh, ?repeat_length; lia); cbn [gbind]).
  rewrite <- !app_assoc.
  rewrite gslice_tail_app by apply zlen_repeat. cbn [gbind].
  rewrite gput_head by apply zlen_repeat. znat. rewrite N2Z.id.
  rewrite repeat_nil by (unfold zlen in *; lia). rewrite app_nil_r.
  unfold encode_entry, entry_body. cbn [e_bucket e_key e_value to_entry]. unfold meta_of.
  rewrite <- ?app_assoc. reflexivity.
Qed.

(** readMetaData on any buffer of at least 42 bytes reads the fields at the
    offsets the model's decoder uses *)
Theorem go_readMetaData_eq buf : 42 <= zlen buf ->
  go_readMetaData buf =
  GOk (mk_go_MetaData (Z.of_N (fld buf 12 4)) (Z.of_N (fld buf 16 4)) (Z.of_N (fld buf 4 8)) (Z.of_N (fld buf 22 4))
                      (Z.of_N (fld buf 20 2)) [] (Z.of_N (fld buf 26 4)) (Z.of_N (fld buf 34 8))
                      (Z.of_N (fld buf 30 2)) (Z.of_N (fld buf 32 2))).
Proof.
  intros Hlen. unfold go_readMetaData.
  repeat (rewrite gslice_ok by lia; cbn [gbind]; rewrite gle_zslice by lia; cbn [gbind]).
  reflexivity.
Qed.

Theorem go_Entry_GetCrc_eq e buf : 4 <= zlen buf ->
  go_Entry_GetCrc e buf =
  GOk (e, Z.of_N (crc_update (crc_update (crc_update (crc32 (skipn 4 buf)) (MetaData_bucket (meta_of e))) (Entry_Key e)) (Entry_Value e))).
Proof.
  intros Hlen. unfold go_Entry_GetCrc, meta_of.
  rewrite gslice_tail by lia. cbn [gbind]. rewrite !N2Z.id. znat. reflexivity.
Qed.

Theorem go_Entry_IsZero_eq e :
  go_Entry_IsZero e =
  GOk (e, (Entry_crc e =? 0) && (MetaData_keySize (meta_of e) =? 0) && (MetaData_valueSize (meta_of e) =? 0) &&
          (MetaData_timestamp (meta_of e) =? 0)).
Proof.
  unfold go_Entry_IsZero, meta_of.
  repeat match goal with |- context [?a =? ?b] => destruct (a =? b) end; reflexivity.
Qed.

(** code-level round trip: the header of an encoded entry read back by
    readMetaData gives the entry's fields, and GetCrc over header + payload
    equals the stored checksum *)
Theorem go_encode_then_readMetaData e : sized e ->
  let buf := encode_entry (to_entry e) in
  let m := meta_of e in
  go_readMetaData (firstn 42 buf) =
  GOk (mk_go_MetaData (MetaData_keySize m) (MetaData_valueSize m) (MetaData_timestamp m) (MetaData_TTL m)
                      (MetaData_Flag m) [] (MetaData_bucketSize m) (MetaData_txID m) (MetaData_status m) (MetaData_ds m)) /\
  go_Entry_GetCrc e (firstn 42 buf) = GOk (e, Z.of_N (le_dec (firstn 4 buf))).
Proof.
  unfold sized. cbv zeta.
  intros (Hk & Hv & Hb & Hts & Httl & Hfl & Hst & Hds & Htx & Hsz).
  pose proof (zlen_nonneg (Entry_Key e)). pose proof (zlen_nonneg (Entry_Value e)).
  pose proof (zlen_nonneg (MetaData_bucket (meta_of e))).
  assert (Hh : firstn 42 (encode_entry (to_entry e)) = entry_hdr (to_entry e)).
  { rewrite encode_entry_split. apply slice_app_here. apply length_entry_hdr. }
  assert (Hl : zlen (entry_hdr (to_entry e)) = 42).
  { unfold zlen. rewrite length_entry_hdr. reflexivity. }
  rewrite Hh. split.
  - rewrite go_readMetaData_eq by lia.
    rewrite fld_ksz, fld_vsz, fld_ts, fld_ttl, fld_flag, fld_bsz, fld_txid, fld_status, fld_ds.
    unfold to_entry. cbn [e_key e_value e_bucket e_ts e_ttl e_flag e_status e_ds e_txid].
    rewrite Hk, Hv, Hb.
    f_equal. f_equal; unfold zlen, blen in *; lia.
  - rewrite go_Entry_GetCrc_eq by lia.
    rewrite skipn4_entry_hdr, !crc_update_app.
    unfold encode_entry. rewrite slice_app_here by apply length_le_enc.
    rewrite le_dec_enc_small by apply crc32_lt.
    unfold crc32, entry_body. rewrite crc_update_app. reflexivity.
Qed.

(** ---- sparse-mode root index records and bucket meta records ---- *)
Definition to_rootidx (r : go_BPTreeRootIdx) : rootidx :=
  mkRootIdx (Z.to_N (BPTreeRootIdx_fID r)) (Z.to_N (BPTreeRootIdx_rootOff r)) (BPTreeRootIdx_start r) (BPTreeRootIdx_end r).

Definition ri_sized (r : go_BPTreeRootIdx) : Prop :=
  BPTreeRootIdx_startSize r = zlen (BPTreeRootIdx_start r) /\ BPTreeRootIdx_endSize r = zlen (BPTreeRootIdx_end r) /\
  0 <= BPTreeRootIdx_fID r < 2 ^ 64 /\ 0 <= BPTreeRootIdx_rootOff r < 2 ^ 64 /\
  zlen (BPTreeRootIdx_start r) < 2 ^ 31 /\ zlen (BPTreeRootIdx_end r) < 2 ^ 31.

Theorem go_BPTreeRootIdx_Encode_eq r : ri_sized r ->
  go_BPTreeRootIdx_Encode r = GOk (r, encode_rootidx (to_rootidx r)).
Proof.
  unfold ri_sized. intros (Hs & He & Hf & Ho & Hls & Hle).
  pose proof (zlen_nonneg (BPTreeRootIdx_start r)). pose proof (zlen_nonneg (BPTreeRootIdx_end r)).
  unfold go_BPTreeRootIdx_Encode, go_BPTreeRootIdx_Size. cbn [gbind]. rewrite Hs, He. simp_wrap.
  rewrite (gmake_ext x00 _ 4) by lia. cbn [gbind].
  (* four header puts and two copies: six stores into disjoint ranges, sorted, then executed *)
  to_stores lia. sort_stores lia.
  repeat (rewrite gstore_ext0 by zsolve; cbn [gbind]).
  rewrite <- !app_assoc.
  rewrite gslice_tail_app by apply zlen_repeat. cbn [gbind].
  rewrite gput_head by apply zlen_repeat. znat. rewrite N2Z.id, !to_N_zlen.
  rewrite repeat_nil by (unfold zlen in *; rewrite ?length_le_enc; lia). rewrite app_nil_r.
  unfold encode_rootidx, rootidx_body, to_rootidx. cbn [ri_fid ri_rootoff ri_start ri_end].
  rewrite <- ?app_assoc. reflexivity.
Qed.

Definition to_bucketmeta (b : go_BucketMeta) : bucketmeta := mkBucketMeta (BucketMeta_start b) (BucketMeta_end b).

Definition bm_sized (b : go_BucketMeta) : Prop :=
  BucketMeta_startSize b = zlen (BucketMeta_start b) /\ BucketMeta_endSize b = zlen (BucketMeta_end b) /\
  12 + zlen (BucketMeta_start b) + zlen (BucketMeta_end b) < 2 ^ 32.

Theorem go_BucketMeta_Encode_eq b : bm_sized b ->
  go_BucketMeta_Encode b = GOk (b, encode_bucketmeta (to_bucketmeta b)).
Proof.
  unfold bm_sized. intros (Hs & He & Hsz).
  pose proof (zlen_nonneg (BucketMeta_start b)). pose proof (zlen_nonneg (BucketMeta_end b)).
  unfold go_BucketMeta_Encode, go_BucketMeta_Size. cbn [gbind]. rewrite Hs, He. simp_wrap.
  rewrite (gmake_ext x00 _ 4) by lia. cbn [gbind].
  sort_puts.
  repeat (rewrite gput_ext by zsolve; cbn [gbind]).
  (* each variable field: sub-slice alias of the zero part, copy into it, store
     back; the re-slicings of the aliases after a store only have to succeed *)
  repeat (first [ rewrite gslice_ext by zsolve
                | rewrite gcopy_full by (rewrite zlen_repeat; lia)
                | rewrite gsplice_ext by zsolve
                | gslice_dead ]; cbn [gbind]).
  rewrite <- !app_assoc.
  rewrite gslice_tail_app by apply zlen_repeat. cbn [gbind].
  rewrite gput_head by apply zlen_repeat. cbn [gbind].
  repeat (gslice_dead; cbn [gbind]).
  znat. rewrite N2Z.id, !to_N_zlen.
  rewrite repeat_nil by (unfold zlen in *; lia). rewrite app_nil_r.
  unfold encode_bucketmeta, bucketmeta_body, to_bucketmeta. cbn [bm_start bm_end].
  rewrite <- ?app_assoc. reflexivity.
Qed.

(** ---- expiry and the dead-record filter of Merge ---- *)
Theorem go_IsExpired_eq now ttl ts :
  0 <= now < 2 ^ 63 -> 0 <= ttl < 2 ^ 32 -> 0 <= ts < 2 ^ 64 ->
  go_IsExpired now ttl ts = GOk (is_expired (Z.to_N now) (Z.to_N ttl) (Z.to_N ts)).
Proof.
  intros Hn Ht Hs. unfold go_IsExpired, is_expired, wrapU. cbv zeta.
  rewrite ?(Z.mod_small now) by lia. rewrite ?(Z.mod_small ttl) by lia.
  (* the deadline, on both sides (an opaque value for [lia]) *)
  assert (E2 : Z.of_N ((Z.to_N ttl + Z.to_N ts) mod 2 ^ 64) = (ttl + ts) mod 2 ^ 64).
  { rewrite N2Z.inj_mod, N2Z.inj_add, !Z2N.id by lia. reflexivity. }
  set (d := (ttl + ts) mod 2 ^ 64) in *.
  set (dN := ((Z.to_N ttl + Z.to_N ts) mod 2 ^ 64)%N) in *.
  clearbody d dN.
  (* every atomic test, of the code and of the model *)
  go_cases; reflexivity.
Qed.

Theorem go_isFilterEntry_eq now db e :
  0 <= now < 2 ^ 63 -> sized e ->
  go_DB_isFilterEntry now db e = GOk (db, is_filter (Z.to_N now) (to_entry e)).
Proof.
  unfold sized, meta_of. cbv zeta.
  intros Hn (Hk & Hv & Hb & Hts & Httl & Hfl & Hst & Hds & Htx & Hsz).
  unfold go_DB_isFilterEntry. rewrite go_IsExpired_eq by lia. cbn [gbind].
  unfold is_filter, to_entry, meta_of. cbn [e_flag e_ttl e_ts].
  unfold F_Del, F_RPop, F_LPop, F_LRem, F_LTrim, F_ZRem, F_ZRemRange, F_ZPopMax, F_ZPopMin.
  set (f := MetaData_Flag (Entry_Meta e)) in *.
  set (x := is_expired _ _ _).
  repeat match goal with
  | |- context [(Z.to_N f =? ?n)%N] =>
      let k := eval compute in (Z.of_N n) in
      replace (Z.to_N f =? n)%N with (f =? k) by lia
  end.
  repeat match goal with |- context [f =? ?k] => destruct (f =? k) end;
    cbn [orb gbind]; try reflexivity; destruct x; reflexivity.
Qed.

(** ---- the sparse index key (known finding F18) and bytes.Compare ---- *)
Theorem go_getNewKey_eq bucket key : go_getNewKey bucket key = GOk (bucket ++ key).
Proof. reflexivity. Qed.

Theorem go_compare_eq a b :
  go_compare a b = GOk (match bcompare a b with Lt => -1 | Eq => 0 | Gt => 1 end).
Proof. reflexivity. Qed.
