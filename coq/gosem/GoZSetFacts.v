(** GoZSetFacts.v — the only part of ds/zset/sortedset.go that is integer
    logic rather than skiplist pointer code: the rank normalisation of
    GetByRankRange (sanitizeIndexes), translated from /repo on every run
    (generated/GoZSet.v), equals the model's [z_sanitize] for every 64-bit
    rank and every length below 2^62. *)
From Verif Require Import Bytes ListDS ZSetDS.
From VerifGo Require Import GoSem GoListFacts.
From VerifGen Require Import GoZSet.
From Coq Require Import Lia ZifyBool.
Open Scope Z_scope.

Lemma pow62_63 : 2 ^ 62 + 2 ^ 62 = 2 ^ 63.
Proof. reflexivity. Qed.

Theorem go_sanitizeIndexes_eq ss s e :
  0 <= SortedSet_length ss < 2 ^ 62 -> int_ok s -> int_ok e ->
  go_SortedSet_sanitizeIndexes ss s e = GOk (ss, z_sanitize (SortedSet_length ss) s e).
Proof.
  intros Hl Hs He. unfold int_ok in Hs, He. pose proof pow62_63 as P.
  assert (H63 : 0 < 2 ^ 62) by (apply Z.pow_pos_nonneg; lia).
  unfold go_SortedSet_sanitizeIndexes, z_sanitize, iadd. cbv zeta.
  (* symbolic execution that does not depend on the shape of the code: drop a
     wrap whose argument is in range (wherever it is), else case-split on an
     atomic test of the first [if] (code or model) and let [lia] discard the
     impossible branches; the results are compared by [lia] *)
  repeat first
    [ match goal with
      | |- context [wrapS 64 ?z] => rewrite (wrapS64_id z) by (unfold int_ok; lia)
      end
    | go_case; try (exfalso; lia) ].
  all: repeat match goal with
              | |- GOk _ = GOk _ => f_equal
              | |- (_, _) = (_, _) => f_equal
              end; first [ reflexivity | lia ].
Qed.
