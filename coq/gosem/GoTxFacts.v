(** GoTxFacts.v — the Gallina translation of the transaction layer of /repo for
    key/value writes, lists and sets (tx.go put/Put/PutWithTimestamp,
    tx_bptree.go Delete, tx_list.go, tx_set.go; generated on every run into
    generated/GoTx.v, calling the translated ds/list and ds/set of GoList.v /
    GoSet.v) computes what the engine model Engine.v [do_op] says: same result,
    same records appended to the transaction's pending writes, indexes untouched. *)
From Coq Require Import Permutation.
From Verif Require Import Bytes BytesFacts Codec Dec DecFacts ListDS ListFacts SetDS SetFacts ZSetDS Index Engine.
From VerifGo Require Import GoSem GoListFacts GoSetFacts.
From VerifGen Require GoList GoSet.
From VerifGen Require Import GoTx.
From Coq Require Import Lia ZifyBool.
Open Scope Z_scope.


(* ====================================================================== *)
(** * GoSem lemmas (general facts about the combinators of GoSem.v)        *)
(* ====================================================================== *)

(** ** unsigned wrap is the identity on in-range values *)
Lemma wrapU_id bits z : 0 <= z < 2 ^ bits -> wrapU bits z = z.
Proof. intros H. unfold wrapU. apply Z.mod_small. exact H. Qed.

(** ** errors *)
Lemma err_is_nil_false e : e <> ENil -> err_is_nil e = false.
Proof. intros H. destruct e; [congruence | reflexivity..]. Qed.

Lemma err_is_nil_true e : err_is_nil e = true -> e = ENil.
Proof. destruct e; [reflexivity | discriminate..]. Qed.

(** ** nil checks *)
Lemma gnonnil_false : gnonnil false = GOk tt.
Proof. reflexivity. Qed.

(** ** strings.Contains with a one-byte needle *)
Lemma has_prefix_single s c :
  has_prefix s [c] = match s with [] => false | x :: _ => byte_eqb x c end.
Proof.
  destruct s as [|x r]; [reflexivity|].
  cbn [has_prefix]. destruct r; apply andb_true_r.
Qed.

Lemma bytes_contains_single s c :
  bytes_contains s [c] = existsb (fun x => byte_eqb x c) s.
Proof.
  induction s as [|x r IH]; [reflexivity|].
  cbn [bytes_contains existsb]. rewrite has_prefix_single, IH. reflexivity.
Qed.

(** ** range loops with early return: simulation by a model step function *)

(** the model of a range loop that may stop with a result *)
Fixpoint fold_until {A S R} (step : S -> A -> S + R) (l : list A) (s : S) : S + R :=
  match l with
  | [] => inl s
  | x :: r => match step s x with
              | inl s' => fold_until step r s'
              | inr v => inr v
              end
  end.

(** if every body step, started in related states on an element satisfying [Q],
    falls through into related states exactly when the model step continues, and
    returns a related result exactly when the model step stops, then the whole
    loop is related to [fold_until] of the model step *)
Lemma grange_sim {A St R MS MR} (body : Z -> A -> St -> gres (lstep St R))
      (mstep : MS -> A -> MS + MR) (Q : A -> Prop)
      (RelS : St -> MS -> Prop) (RelR : R -> MR -> Prop) :
  (forall i x s m, Q x -> RelS s m ->
     exists b, body i x s = GOk b /\
       match b, mstep m x with
       | LNext s', inl m' => RelS s' m'
       | LRet r, inr mr => RelR r mr
       | _, _ => False
       end) ->
  forall l i s m, Forall Q l -> RelS s m ->
  exists o, grange body i l s = GOk o /\
    match o, fold_until mstep l m with
    | inl s', inl m' => RelS s' m'
    | inr r, inr mr => RelR r mr
    | _, _ => False
    end.
Proof.
  intros Hbody l. induction l as [|x l IH]; intros i s m HQ Hrel.
  - exists (inl s). split; [reflexivity | exact Hrel].
  - inversion HQ as [|x' l' Hx Hl]; subst x' l'.
    destruct (Hbody i x s m Hx Hrel) as [b [Hb Hmatch]].
    cbn [grange fold_until]. rewrite Hb. cbn [gbind].
    destruct b as [s'|s'|r]; destruct (mstep m x) as [m'|mr]; try contradiction.
    + apply IH; assumption.
    + exists (inr r). split; [reflexivity | exact Hmatch].
Qed.

(** a range loop whose body returns on its first element *)
Lemma grange_first {A St R} (body : Z -> A -> St -> gres (lstep St R)) i l s :
  (forall x, exists r, body i x s = GOk (LRet r)) ->
  match l with
  | [] => grange body i l s = GOk (inl s)
  | x :: _ => exists r, body i x s = GOk (LRet r) /\ grange body i l s = GOk (inr r)
  end.
Proof.
  intros H. destruct l as [|x l]; [reflexivity|].
  destruct (H x) as [r Hr]. exists r. split; [exact Hr|].
  cbn [grange]. rewrite Hr. reflexivity.
Qed.

(** ** association lists *)
Lemma alookup_map_snd {V W} (f : V -> W) (m : list (bytes * V)) k :
  alookup (map (fun kv => (fst kv, f (snd kv))) m) k = option_map f (alookup m k).
Proof.
  induction m as [|[k0 v0] m IH]; cbn [map alookup fst snd option_map].
  - reflexivity.
  - destruct (bytes_eqb k0 k); [reflexivity | exact IH].
Qed.

(** ---- abstraction: Go transaction object  ->  model world and transaction ---- *)
Definition entry_of (e : go_Entry) : entry :=
  let m := Entry_Meta e in
  mkEntry (MetaData_bucket m) (Entry_Key e) (Entry_Value e)
          (Z.to_N (MetaData_timestamp m)) (Z.to_N (MetaData_TTL m)) (Z.to_N (MetaData_Flag m))
          (Z.to_N (MetaData_status m)) (Z.to_N (MetaData_ds m)) (Z.to_N (MetaData_txID m)).

(** the size fields Tx.put fills in are the lengths (all below 2^32) *)
Definition entry_sized (e : go_Entry) : Prop :=
  let m := Entry_Meta e in
  MetaData_keySize m = zlen (Entry_Key e) /\ MetaData_valueSize m = zlen (Entry_Value e) /\
  MetaData_bucketSize m = zlen (MetaData_bucket m).

Definition list_ix_of (db : go_DB) : list (bytes * lmap) :=
  map (fun kv => (fst kv, GoList.List_Items (snd kv))) (DB_ListIdx db).

Definition set_ix_of (db : go_DB) : list (bytes * smap) :=
  map (fun kv => (fst kv, to_smap (GoSet.Set_M (snd kv)))) (DB_SetIdx db).

(** the Go transaction [g] stands for model transaction [t] running against world [w] *)
Definition tx_abs (g : go_Tx) (w : world) (t : txstate) : Prop :=
  Tx_db_isnil g = false /\
  Tx_writable g = tx_w t /\
  Tx_id g = Z.of_N (tx_id t) /\ Z.of_N (tx_id t) < 2 ^ 64 /\
  map entry_of (Tx_pendingWrites g) = tx_pend t /\ Forall entry_sized (Tx_pendingWrites g) /\
  list_ix_of (Tx_db g) = ix_list (w_ix w) /\
  set_ix_of (Tx_db g) = ix_set (w_ix w) /\
  (forall b l, In (b, l) (DB_ListIdx (Tx_db g)) -> items_ok l) /\
  (forall b s, In (b, s) (DB_SetIdx (Tx_db g)) -> gmap_wf (GoSet.Set_M s)).

(** a Go error value agrees with a model result *)
Definition err_of_res (e : gerr) (r : res) : Prop :=
  match r with ROk => e = ENil | RErr => e <> ENil | _ => False end.

(** sizes of the arguments: what fits the uint32 size fields and the 64-bit clock *)
Definition arg_ok (b : bytes) : Prop := zlen b < 2 ^ 32.
Definition now_ok (now : Z) : Prop := 0 <= now < 2 ^ 63.


(* ====================================================================== *)
(** * Helper lemmas about the abstraction and the model                    *)
(* ====================================================================== *)

(** rewrite a call [m] under a [gbind] with an equation [H : m' = _] whose left
    side is [m] up to conversion (e.g. [bytes] against [list byte]) *)
Ltac rw_call H :=
  match type of H with ?lhs = _ =>
    match goal with |- context [gbind ?m _] => change m with lhs; rewrite H end
  end.

(** the constants of db.go in GoTx.v (numerals) and in Engine.v coincide *)
Lemma flag_consts :
  (Z.to_N 0, Z.to_N 1, Z.to_N 2, Z.to_N 3, Z.to_N 4, Z.to_N 5, Z.to_N 6, Z.to_N 7, Z.to_N 8) =
  (F_Del, F_Set, F_LPush, F_RPush, F_LRem, F_LPop, F_RPop, F_LSet, F_LTrim).
Proof. reflexivity. Qed.

Lemma ds_consts : (Z.to_N 0, Z.to_N 2, Z.to_N 3) = (DS_Set, DS_KV, DS_List).
Proof. reflexivity. Qed.

(** strings.Contains(key, "|") is the model's [contains_sep] *)
Lemma contains_sep_existsb k : contains_sep k = existsb (fun x => byte_eqb x sep) k.
Proof. induction k as [|x r IH]; [reflexivity|]. cbn [contains_sep existsb]. rewrite IH. reflexivity. Qed.

Lemma bytes_contains_sep k sepstr : sepstr = [sep] -> bytes_contains k sepstr = contains_sep k.
Proof. intros ->. rewrite bytes_contains_single. symmetry. apply contains_sep_existsb. Qed.

(** the clock *)
Lemma now_wrap now : now_ok now -> wrapU 64 now = now.
Proof. unfold now_ok. intros H. apply wrapU_id. change (2 ^ 64) with (2 * 2 ^ 63). lia. Qed.

Lemma now_range now : now_ok now -> 0 <= now < 2 ^ 64.
Proof. unfold now_ok. intros H. change (2 ^ 64) with (2 * 2 ^ 63). lia. Qed.

Lemma tx_abs_open g w t : tx_abs g w t -> Tx_db_isnil g = false.
Proof. intros H. apply H. Qed.

(** ** Tx.checkTxIsClosed *)
Theorem go_Tx_checkTxIsClosed_eq g w t :
  tx_abs g w t -> go_Tx_checkTxIsClosed g = GOk (g, ENil).
Proof.
  intros Habs. unfold go_Tx_checkTxIsClosed. rewrite (tx_abs_open g w t Habs). reflexivity.
Qed.

(** on a closed transaction (outside [tx_abs]) the call reports an error and changes nothing *)
Theorem go_Tx_checkTxIsClosed_closed g :
  Tx_db_isnil g = true -> exists e, go_Tx_checkTxIsClosed g = GOk (g, e) /\ e <> ENil.
Proof.
  intros H. unfold go_Tx_checkTxIsClosed. rewrite H. eexists. split; [reflexivity | discriminate].
Qed.

(** ** the model's put *)
Lemma tx_put_res t b k v ttl flag ts ds :
  snd (tx_put t b k v ttl flag ts ds) = ROk \/
  (tx_put t b k v ttl flag ts ds = (t, RErr)).
Proof.
  unfold tx_put. destruct (tx_w t); cbn [negb].
  - destruct k; [right | left]; reflexivity.
  - right. reflexivity.
Qed.

Lemma tx_put_all_one t b k v flag ts ds :
  tx_put_all t b k [v] flag ts ds = tx_put t b k v 0 flag ts ds.
Proof.
  cbn [tx_put_all]. destruct (tx_put t b k v 0 flag ts ds) as [t' r]. destruct r; reflexivity.
Qed.

(** [tx_put_all] is a loop that stops at the first rejected write *)
Definition put_step (b k : bytes) (flag ts ds : N) (t : txstate) (v : bytes) : txstate + (txstate * res) :=
  match tx_put t b k v 0 flag ts ds with
  | (t', ROk) => inl t'
  | p => inr p
  end.

Lemma tx_put_all_fold b k flag ts ds vs : forall t,
  tx_put_all t b k vs flag ts ds =
  match fold_until (put_step b k flag ts ds) vs t with inl t' => (t', ROk) | inr p => p end.
Proof.
  induction vs as [|v r IH]; intros t; [reflexivity|].
  cbn [tx_put_all fold_until]. unfold put_step at 1.
  destruct (tx_put t b k v 0 flag ts ds) as [t' res]. destruct res; try reflexivity. apply IH.
Qed.

(* ====================================================================== *)
(** * Targets                                                              *)
(* ====================================================================== *)

(** ---- Pattern for a mutating call (op [o]):
      do_op (Z.to_N now) w t o = ((w, t'), r)   [the world never changes: TxFacts.do_op_world]
      go_Tx_X now g args = GOk (g', e)  with  tx_abs g' w t'  and  e agreeing with r.
    Pattern for a read: the Go transaction object is unchanged and the value agrees. ---- *)

(** ** Tx.put *)
Theorem go_Tx_put_eq g w t b k v ttl flag ts ds :
  tx_abs g w t -> arg_ok b -> arg_ok k -> arg_ok v ->
  0 <= ttl < 2 ^ 32 -> 0 <= flag < 2 ^ 16 -> 0 <= ts < 2 ^ 64 -> 0 <= ds < 2 ^ 16 ->
  exists g' e,
    go_Tx_put g b k v ttl flag ts ds = GOk (g', e) /\
    tx_abs g' w (fst (tx_put t b k v (Z.to_N ttl) (Z.to_N flag) (Z.to_N ts) (Z.to_N ds))) /\
    err_of_res e (snd (tx_put t b k v (Z.to_N ttl) (Z.to_N flag) (Z.to_N ts) (Z.to_N ds))).
Proof.
  intros Habs Hb Hk Hv Httl Hflag Hts Hds.
  unfold go_Tx_put. rewrite (go_Tx_checkTxIsClosed_eq g w t Habs).
  cbn [gbind err_is_nil negb].
  pose proof Habs as (Hnil & Hw & Hid & Hidlt & Hpend & Hsized & Hli & Hsi & Hlok & Hsok).
  unfold tx_put. rewrite <- Hw.
  destruct (Tx_writable g) eqn:Hwr; cbn [negb].
  - (* the emptiness test of the key, whatever its shape ([len(key) == 0], [len(key) < 1], ...) *)
    destruct k as [|c k].
    + change (zlen (@nil Byte.byte)) with 0. go_heads.
      eexists _, _. split; [reflexivity|]. split; [exact Habs | discriminate].
    + assert (Hkpos : 0 < zlen (c :: k)) by (unfold zlen; cbn [List.length]; lia).
      go_heads.
      eexists _, _. split; [reflexivity|]. split; [|reflexivity].
      cbn [fst]. unfold tx_abs, set_Tx_pendingWrites.
      cbn [Tx_db_isnil Tx_writable Tx_id Tx_pendingWrites Tx_db tx_w tx_id tx_pend].
      refine (conj Hnil (conj _ (conj Hid (conj Hidlt (conj _ (conj _ (conj Hli (conj Hsi (conj Hlok Hsok))))))))).
      * first [reflexivity | exact Hwr | symmetry; exact Hwr].
      * rewrite map_app, Hpend. cbn [map]. unfold entry_of, mk_entry.
        cbn [Entry_Meta Entry_Key Entry_Value MetaData_bucket MetaData_timestamp MetaData_TTL
             MetaData_Flag MetaData_status MetaData_ds MetaData_txID].
        rewrite Hid, N2Z.id. reflexivity.
      * apply Forall_app. split; [exact Hsized|]. constructor; [|constructor].
        unfold entry_sized.
        cbn [Entry_Meta Entry_Key Entry_Value MetaData_bucket MetaData_keySize MetaData_valueSize MetaData_bucketSize].
        unfold arg_ok in Hb, Hk, Hv.
        rewrite !wrapU_id by (split; [apply zlen_ge0 | assumption]).
        repeat split; reflexivity.
  - eexists _, _. split; [reflexivity|]. split; [exact Habs | discriminate].
Qed.

(** the two outcomes of [Tx.put], in the form the callers use *)
Lemma go_Tx_put_cases g w t b k v ttl flag ts ds :
  tx_abs g w t -> arg_ok b -> arg_ok k -> arg_ok v ->
  0 <= ttl < 2 ^ 32 -> 0 <= flag < 2 ^ 16 -> 0 <= ts < 2 ^ 64 -> 0 <= ds < 2 ^ 16 ->
  let p := tx_put t b k v (Z.to_N ttl) (Z.to_N flag) (Z.to_N ts) (Z.to_N ds) in
  (exists g', go_Tx_put g b k v ttl flag ts ds = GOk (g', ENil) /\ tx_abs g' w (fst p) /\ snd p = ROk) \/
  (exists g' e, go_Tx_put g b k v ttl flag ts ds = GOk (g', e) /\ tx_abs g' w t /\
                err_is_nil e = false /\ p = (t, RErr)).
Proof.
  intros Habs Hb Hk Hv Httl Hflag Hts Hds p.
  destruct (go_Tx_put_eq g w t b k v ttl flag ts ds Habs Hb Hk Hv Httl Hflag Hts Hds)
    as (g' & e & Hgo & Habs' & Herr).
  fold p in Habs', Herr.
  destruct (tx_put_res t b k v (Z.to_N ttl) (Z.to_N flag) (Z.to_N ts) (Z.to_N ds)) as [Hok | Hbad];
    fold p in Hok || fold p in Hbad.
  - left. rewrite Hok in Herr. cbn [err_of_res] in Herr. subst e.
    exists g'. split; [exact Hgo | split; [exact Habs' | exact Hok]].
  - right. rewrite Hbad in Herr, Habs'. cbn [fst snd err_of_res] in Herr, Habs'.
    exists g', e. split; [exact Hgo | split; [exact Habs' | split; [apply err_is_nil_false; exact Herr | exact Hbad]]].
Qed.

(** ** the write loops Tx.push (lists) and Tx.sPut (sets) *)
Lemma put_loop_eq (body : Z -> bytes -> go_Tx -> gres (lstep go_Tx (go_Tx * gerr)))
      w b k flag ts ds :
  (forall i v g, body i v g =
     '(g', e) <- go_Tx_put g b k v 0 flag ts ds ;;
     if negb (err_is_nil e) then GOk (LRet (g', e)) else GOk (LNext g')) ->
  arg_ok b -> arg_ok k -> 0 <= flag < 2 ^ 16 -> 0 <= ts < 2 ^ 64 -> 0 <= ds < 2 ^ 16 ->
  forall vs g t, Forall arg_ok vs -> tx_abs g w t ->
  exists g' e,
    (lo <- grange body 0 vs g ;;
     match lo with inr rv => GOk rv | inl g1 => GOk (g1, ENil) end) = GOk (g', e) /\
    tx_abs g' w (fst (tx_put_all t b k vs (Z.to_N flag) (Z.to_N ts) (Z.to_N ds))) /\
    err_of_res e (snd (tx_put_all t b k vs (Z.to_N flag) (Z.to_N ts) (Z.to_N ds))).
Proof.
  intros Hbody Hb Hk Hflag Hts Hds vs g t Hvs Habs.
  destruct (grange_sim body (put_step b k (Z.to_N flag) (Z.to_N ts) (Z.to_N ds)) arg_ok
              (fun g t => tx_abs g w t)
              (fun (r : go_Tx * gerr) (p : txstate * res) => tx_abs (fst r) w (fst p) /\ err_of_res (snd r) (snd p)))
    with (l := vs) (i := 0) (s := g) (m := t) as [o [Hgo Hrel]]; [|exact Hvs|exact Habs|].
  - intros i v g0 t0 Hv Habs0. rewrite Hbody. unfold put_step.
    destruct (go_Tx_put_cases g0 w t0 b k v 0 flag ts ds Habs0 Hb Hk Hv ltac:(lia) Hflag Hts Hds)
      as [(g' & Hgo & Habs' & Hok) | (g' & e & Hgo & Habs' & He & Hbad)]; rewrite Hgo; cbn [gbind].
    + cbn [err_is_nil negb]. eexists. split; [reflexivity|].
      change (Z.to_N 0) with 0%N in *.
      destruct (tx_put t0 b k v 0 (Z.to_N flag) (Z.to_N ts) (Z.to_N ds)) as [t' r].
      cbn [fst snd] in *. subst r. exact Habs'.
    + rewrite He. cbn [negb]. eexists. split; [reflexivity|].
      change (Z.to_N 0) with 0%N in *. rewrite Hbad. cbn [fst snd err_of_res].
      split; [exact Habs'|]. intros ->. discriminate.
  - rewrite Hgo. cbn [gbind]. rewrite tx_put_all_fold.
    destruct o as [g1 | [g1 e1]];
      destruct (fold_until (put_step b k (Z.to_N flag) (Z.to_N ts) (Z.to_N ds)) vs t) as [t1 | [t1 r1]];
      try contradiction.
    + eexists _, _. split; [reflexivity|]. split; [exact Hrel | reflexivity].
    + eexists _, _. split; [reflexivity|]. exact Hrel.
Qed.

(** the same with the hypothesis on the loop body stated semantically (what the
    body does with the outcome of [Tx.put]), so that it does not depend on the
    way the error test is written in the Go source *)
Lemma put_loop_sem (body : Z -> bytes -> go_Tx -> gres (lstep go_Tx (go_Tx * gerr)))
      w b k flag ts ds :
  (forall i v g g' e, go_Tx_put g b k v 0 flag ts ds = GOk (g', e) ->
     body i v g = GOk (if err_is_nil e then LNext g' else LRet (g', e))) ->
  arg_ok b -> arg_ok k -> 0 <= flag < 2 ^ 16 -> 0 <= ts < 2 ^ 64 -> 0 <= ds < 2 ^ 16 ->
  forall vs g t, Forall arg_ok vs -> tx_abs g w t ->
  exists g' e,
    (lo <- grange body 0 vs g ;;
     match lo with inr rv => GOk rv | inl g1 => GOk (g1, ENil) end) = GOk (g', e) /\
    tx_abs g' w (fst (tx_put_all t b k vs (Z.to_N flag) (Z.to_N ts) (Z.to_N ds))) /\
    err_of_res e (snd (tx_put_all t b k vs (Z.to_N flag) (Z.to_N ts) (Z.to_N ds))).
Proof.
  intros Hbody Hb Hk Hflag Hts Hds vs g t Hvs Habs.
  destruct (grange_sim body (put_step b k (Z.to_N flag) (Z.to_N ts) (Z.to_N ds)) arg_ok
              (fun g t => tx_abs g w t)
              (fun (r : go_Tx * gerr) (p : txstate * res) => tx_abs (fst r) w (fst p) /\ err_of_res (snd r) (snd p)))
    with (l := vs) (i := 0) (s := g) (m := t) as [o [Hgo Hrel]]; [|exact Hvs|exact Habs|].
  - intros i v g0 t0 Hv Habs0. unfold put_step.
    destruct (go_Tx_put_cases g0 w t0 b k v 0 flag ts ds Habs0 Hb Hk Hv ltac:(lia) Hflag Hts Hds)
      as [(g' & Hgo & Habs' & Hok) | (g' & e & Hgo & Habs' & He & Hbad)]; rewrite (Hbody i v g0 _ _ Hgo).
    + cbn [err_is_nil]. eexists. split; [reflexivity|].
      change (Z.to_N 0) with 0%N in *.
      destruct (tx_put t0 b k v 0 (Z.to_N flag) (Z.to_N ts) (Z.to_N ds)) as [t' r].
      cbn [fst snd] in *. subst r. exact Habs'.
    + rewrite He. eexists. split; [reflexivity|].
      change (Z.to_N 0) with 0%N in *. rewrite Hbad. cbn [fst snd err_of_res].
      split; [exact Habs'|]. intros ->. discriminate.
  - rewrite Hgo. cbn [gbind]. rewrite tx_put_all_fold.
    destruct o as [g1 | [g1 e1]];
      destruct (fold_until (put_step b k (Z.to_N flag) (Z.to_N ts) (Z.to_N ds)) vs t) as [t1 | [t1 r1]];
      try contradiction.
    + eexists _, _. split; [reflexivity|]. split; [exact Hrel | reflexivity].
    + eexists _, _. split; [reflexivity|]. exact Hrel.
Qed.

(** the body of a write loop, whatever the shape of its error test *)
Ltac put_loop_body :=
  let i := fresh in let v := fresh in let g0 := fresh in let g' := fresh in let e := fresh in let Hput := fresh in
  intros i v g0 g' e Hput; cbv beta; rewrite Hput; cbn [gbind];
  destruct (err_is_nil e) eqn:?; cbn [negb]; reflexivity.

Theorem go_Tx_push_eq now g w t b k flag vs :
  tx_abs g w t -> now_ok now -> arg_ok b -> arg_ok k -> Forall arg_ok vs -> 0 <= flag < 2 ^ 16 ->
  exists g' e,
    go_Tx_push now g b k flag vs = GOk (g', e) /\
    tx_abs g' w (fst (tx_put_all t b k vs (Z.to_N flag) (Z.to_N now) DS_List)) /\
    err_of_res e (snd (tx_put_all t b k vs (Z.to_N flag) (Z.to_N now) DS_List)).
Proof.
  intros Habs Hnow Hb Hk Hvs Hflag. unfold go_Tx_push. rewrite (now_wrap now Hnow).
  apply (put_loop_sem _ w b k flag now 3); try assumption.
  - put_loop_body.
  - apply now_range. exact Hnow.
  - lia.
Qed.

Theorem go_Tx_sPut_eq now g w t b k flag vs :
  tx_abs g w t -> now_ok now -> arg_ok b -> arg_ok k -> Forall arg_ok vs -> 0 <= flag < 2 ^ 16 ->
  exists g' e,
    go_Tx_sPut now g b k flag vs = GOk (g', e) /\
    tx_abs g' w (fst (tx_put_all t b k vs (Z.to_N flag) (Z.to_N now) DS_Set)) /\
    err_of_res e (snd (tx_put_all t b k vs (Z.to_N flag) (Z.to_N now) DS_Set)).
Proof.
  intros Habs Hnow Hb Hk Hvs Hflag. unfold go_Tx_sPut. rewrite (now_wrap now Hnow).
  apply (put_loop_sem _ w b k flag now 0); try assumption.
  - put_loop_body.
  - apply now_range. exact Hnow.
  - lia.
Qed.

(** a single write through the loops, in the form the callers use *)
Lemma put_one_cases (f : go_Tx -> gres (go_Tx * gerr)) g w t b k v flag ts ds :
  (exists g' e, f g = GOk (g', e) /\
     tx_abs g' w (fst (tx_put_all t b k [v] flag ts ds)) /\
     err_of_res e (snd (tx_put_all t b k [v] flag ts ds))) ->
  tx_abs g w t ->
  let p := tx_put t b k v 0 flag ts ds in
  (exists g', f g = GOk (g', ENil) /\ tx_abs g' w (fst p) /\ snd p = ROk) \/
  (exists g' e, f g = GOk (g', e) /\ tx_abs g' w t /\ err_is_nil e = false /\ p = (t, RErr)).
Proof.
  intros (g' & e & Hgo & Habs' & Herr) Habs p.
  rewrite tx_put_all_one in Habs', Herr. fold p in Habs', Herr.
  destruct (tx_put_res t b k v 0 flag ts ds) as [Hok | Hbad]; fold p in Hok || fold p in Hbad.
  - left. rewrite Hok in Herr. cbn [err_of_res] in Herr. subst e.
    exists g'. split; [exact Hgo | split; [exact Habs' | exact Hok]].
  - right. rewrite Hbad in Herr, Habs'. cbn [fst snd err_of_res] in Herr, Habs'.
    exists g', e. split; [exact Hgo | split; [exact Habs' | split; [apply err_is_nil_false; exact Herr | exact Hbad]]].
Qed.

(** ** Tx.Put, Tx.PutWithTimestamp, Tx.Delete *)
Lemma do_op_OPut now w t b k v ttl ts :
  do_op now w t (OPut b k v ttl ts) =
  (w, fst (tx_put t b k v ttl F_Set ts DS_KV), snd (tx_put t b k v ttl F_Set ts DS_KV)).
Proof. reflexivity. Qed.

Lemma do_op_ODelete now w t b k :
  do_op now w t (ODelete b k) =
  (w, fst (tx_put t b k [] 0 F_Del now DS_KV), snd (tx_put t b k [] 0 F_Del now DS_KV)).
Proof. reflexivity. Qed.

Theorem go_Tx_PutWithTimestamp_eq now g w t b k v ttl ts :
  tx_abs g w t -> arg_ok b -> arg_ok k -> arg_ok v -> 0 <= ttl < 2 ^ 32 -> 0 <= ts < 2 ^ 64 ->
  exists g' e,
    go_Tx_PutWithTimestamp g b k v ttl ts = GOk (g', e) /\
    tx_abs g' w (snd (fst (do_op now w t (OPut b k v (Z.to_N ttl) (Z.to_N ts))))) /\
    err_of_res e (snd (do_op now w t (OPut b k v (Z.to_N ttl) (Z.to_N ts)))).
Proof.
  intros Habs Hb Hk Hv Httl Hts. rewrite do_op_OPut. cbn [fst snd].
  unfold go_Tx_PutWithTimestamp.
  destruct (go_Tx_put_eq g w t b k v ttl 1 ts 2 Habs Hb Hk Hv Httl ltac:(lia) Hts ltac:(lia))
    as (g' & e & Hgo & Habs' & Herr).
  rewrite Hgo. cbn [gbind]. exists g', e. split; [reflexivity|]. split; assumption.
Qed.

Theorem go_Tx_Put_eq now g w t b k v ttl :
  tx_abs g w t -> now_ok now -> arg_ok b -> arg_ok k -> arg_ok v -> 0 <= ttl < 2 ^ 32 ->
  exists g' e,
    go_Tx_Put now g b k v ttl = GOk (g', e) /\
    tx_abs g' w (snd (fst (do_op (Z.to_N now) w t (OPut b k v (Z.to_N ttl) (Z.to_N now))))) /\
    err_of_res e (snd (do_op (Z.to_N now) w t (OPut b k v (Z.to_N ttl) (Z.to_N now)))).
Proof.
  intros Habs Hnow Hb Hk Hv Httl. rewrite do_op_OPut. cbn [fst snd].
  unfold go_Tx_Put. rewrite (now_wrap now Hnow).
  destruct (go_Tx_put_eq g w t b k v ttl 1 now 2 Habs Hb Hk Hv Httl ltac:(lia) (now_range now Hnow) ltac:(lia))
    as (g' & e & Hgo & Habs' & Herr).
  rewrite Hgo. cbn [gbind]. exists g', e. split; [reflexivity|]. split; assumption.
Qed.

Theorem go_Tx_Delete_eq now g w t b k :
  tx_abs g w t -> now_ok now -> arg_ok b -> arg_ok k ->
  exists g' e,
    go_Tx_Delete now g b k = GOk (g', e) /\
    tx_abs g' w (snd (fst (do_op (Z.to_N now) w t (ODelete b k)))) /\
    err_of_res e (snd (do_op (Z.to_N now) w t (ODelete b k))).
Proof.
  intros Habs Hnow Hb Hk. rewrite do_op_ODelete. cbn [fst snd].
  unfold go_Tx_Delete. rewrite (go_Tx_checkTxIsClosed_eq g w t Habs). cbn [gbind err_is_nil negb].
  rewrite (now_wrap now Hnow).
  assert (Hnil : arg_ok []) by (unfold arg_ok; reflexivity).
  destruct (go_Tx_put_eq g w t b k [] 0 0 now 2 Habs Hb Hk Hnil ltac:(lia) ltac:(lia) (now_range now Hnow) ltac:(lia))
    as (g' & e & Hgo & Habs' & Herr).
  rewrite Hgo. cbn [gbind]. exists g', e. split; [reflexivity|]. split; assumption.
Qed.

(* ====================================================================== *)
(** * Lists                                                                *)
(* ====================================================================== *)

(** what a bucket lookup in DB.ListIdx says on the Go side and in the model *)
Lemma list_bucket_cases g w t b :
  tx_abs g w t ->
  (exists l, has_key (DB_ListIdx (Tx_db g)) b = true /\
             (forall z, lookup0 z (DB_ListIdx (Tx_db g)) b = l) /\
             alookup (ix_list (w_ix w)) b = Some (GoList.List_Items l) /\ items_ok l) \/
  (has_key (DB_ListIdx (Tx_db g)) b = false /\ alookup (ix_list (w_ix w)) b = None).
Proof.
  intros (Hnil & Hw & Hid & Hidlt & Hpend & Hsized & Hli & Hsi & Hlok & Hsok).
  rewrite <- Hli. unfold list_ix_of. rewrite alookup_map_snd.
  unfold has_key, lookup0.
  destruct (alookup (DB_ListIdx (Tx_db g)) b) as [l|] eqn:Hl.
  - left. exists l. split; [reflexivity|]. split; [reflexivity|]. split; [reflexivity|].
    apply (Hlok b l). apply alookup_In. exact Hl.
  - right. split; reflexivity.
Qed.

(** the read-only calls are answered by [ds_read] *)
Lemma do_op_read now w t o r : ds_read (w_ix w) o = Some r -> do_op now w t o = (w, t, r).
Proof. intros H. unfold do_op. rewrite H. reflexivity. Qed.

Lemma agrees_err {A} (zero : A) x e : agrees zero (x, e) LErr -> e <> ENil.
Proof. intros [_ H]. exact H. Qed.

(** ** Tx.RPeek, Tx.LPeek, Tx.LSize, Tx.LRange *)
Theorem go_Tx_RPeek_eq g w t b k :
  tx_abs g w t ->
  exists item err,
    go_Tx_RPeek g b k = GOk (g, (item, err)) /\
    match snd (do_op 0 w t (ORPeek b k)) with
    | RVal x => err = ENil /\ item = x
    | RErr => err <> ENil
    | _ => False
    end.
Proof.
  intros Habs. erewrite do_op_read by reflexivity. cbn [snd].
  unfold go_Tx_RPeek. rewrite (go_Tx_checkTxIsClosed_eq g w t Habs). cbn [gbind err_is_nil negb].
  rewrite (tx_abs_open g w t Habs). cbn [gnonnil gbind].
  destruct (list_bucket_cases g w t b Habs) as [(l & Hk & Hl0 & Hm & Hok) | (Hk & Hm)];
    rewrite Hk, Hm; cbn [negb].
  - rewrite Hl0. destruct (go_RPeek_eq l k Hok) as (item & size & err & Hgo & Hag & _).
    rewrite Hgo. cbn [gbind]. exists item, err. split; [reflexivity|].
    destruct (l_rpeek (GoList.List_Items l) k) as [x|]; cbn [lres_val].
    + inversion Hag. split; reflexivity.
    + apply (agrees_err _ _ _ Hag).
  - eexists _, _. split; [reflexivity | discriminate].
Qed.

Theorem go_Tx_LPeek_eq g w t b k :
  tx_abs g w t ->
  exists item err,
    go_Tx_LPeek g b k = GOk (g, (item, err)) /\
    match snd (do_op 0 w t (OLPeek b k)) with
    | RVal x => err = ENil /\ item = x
    | RErr => err <> ENil
    | _ => False
    end.
Proof.
  intros Habs. erewrite do_op_read by reflexivity. cbn [snd].
  unfold go_Tx_LPeek. rewrite (go_Tx_checkTxIsClosed_eq g w t Habs). cbn [gbind err_is_nil negb].
  rewrite (tx_abs_open g w t Habs). cbn [gnonnil gbind].
  destruct (list_bucket_cases g w t b Habs) as [(l & Hk & Hl0 & Hm & Hok) | (Hk & Hm)];
    rewrite Hk, Hm; cbn [negb].
  - rewrite Hl0. destruct (go_LPeek_eq l k) as ([item err] & Hgo & Hag).
    rewrite Hgo. cbn [gbind]. exists item, err. split; [reflexivity|].
    destruct (l_lpeek (GoList.List_Items l) k) as [x|]; cbn [lres_val].
    + inversion Hag. split; reflexivity.
    + apply (agrees_err _ _ _ Hag).
  - eexists _, _. split; [reflexivity | discriminate].
Qed.

Theorem go_Tx_LSize_eq g w t b k :
  tx_abs g w t ->
  exists n err,
    go_Tx_LSize g b k = GOk (g, (n, err)) /\
    match snd (do_op 0 w t (OLSize b k)) with
    | RInt z => err = ENil /\ n = z
    | RErr => err <> ENil
    | _ => False
    end.
Proof.
  intros Habs. erewrite do_op_read by reflexivity. cbn [snd].
  unfold go_Tx_LSize. rewrite (go_Tx_checkTxIsClosed_eq g w t Habs). cbn [gbind err_is_nil negb].
  rewrite (tx_abs_open g w t Habs). cbn [gnonnil gbind].
  destruct (list_bucket_cases g w t b Habs) as [(l & Hk & Hl0 & Hm & Hok) | (Hk & Hm)];
    rewrite Hk, Hm; cbn [negb].
  - rewrite Hl0, go_Size_eq. cbn [gbind].
    destruct (l_size (GoList.List_Items l) k) as [x|].
    + eexists _, _. split; [reflexivity|]. split; reflexivity.
    + eexists _, _. split; [reflexivity|]. discriminate.
  - eexists _, _. split; [reflexivity | discriminate].
Qed.

Theorem go_Tx_LRange_eq g w t b k s e :
  tx_abs g w t -> int_ok s -> int_ok e ->
  exists l err,
    go_Tx_LRange g b k s e = GOk (g, (l, err)) /\
    match snd (do_op 0 w t (OLRange b k s e)) with
    | RList x => err = ENil /\ l = x
    | RErr => err <> ENil
    | _ => False
    end.
Proof.
  intros Habs Hs He. erewrite do_op_read by reflexivity. cbn [snd].
  unfold go_Tx_LRange. rewrite (go_Tx_checkTxIsClosed_eq g w t Habs). cbn [gbind err_is_nil negb].
  rewrite (tx_abs_open g w t Habs). cbn [gnonnil gbind].
  destruct (list_bucket_cases g w t b Habs) as [(l & Hk & Hl0 & Hm & Hok) | (Hk & Hm)];
    rewrite Hk, Hm; cbn [negb].
  - rewrite Hl0. destruct (go_LRange_eq l k s e Hok Hs He) as ([x err] & Hgo & Hag).
    rewrite Hgo. cbn [gbind]. exists x, err. split; [reflexivity|].
    destruct (l_lrange (GoList.List_Items l) k s e) as [y|].
    + inversion Hag. split; reflexivity.
    + apply (agrees_err _ _ _ Hag).
  - eexists _, _. split; [reflexivity | discriminate].
Qed.

(** ** the model's branches for the mutating list calls (by computation) *)
Lemma do_op_ORPush now w t b k vs :
  do_op now w t (ORPush b k vs) =
  if contains_sep k then (w, t, RErr)
  else (w, fst (tx_put_all t b k vs F_RPush now DS_List), snd (tx_put_all t b k vs F_RPush now DS_List)).
Proof. reflexivity. Qed.

Lemma do_op_OLPush now w t b k vs :
  do_op now w t (OLPush b k vs) =
  if contains_sep k then (w, t, RErr)
  else (w, fst (tx_put_all t b k vs F_LPush now DS_List), snd (tx_put_all t b k vs F_LPush now DS_List)).
Proof. reflexivity. Qed.

Lemma do_op_ORPop now w t b k :
  do_op now w t (ORPop b k) =
  match alookup (ix_list (w_ix w)) b with
  | None => (w, t, RErr)
  | Some l => match l_rpeek l k with
              | LErr => (w, t, RErr)
              | LOk v => match tx_put t b k v 0 F_RPop now DS_List with
                         | (t', ROk) => (w, t', RVal v)
                         | (t', r) => (w, t', r)
                         end
              end
  end.
Proof. reflexivity. Qed.

Lemma do_op_OLPop now w t b k :
  do_op now w t (OLPop b k) =
  match alookup (ix_list (w_ix w)) b with
  | None => (w, t, RErr)
  | Some l => match l_lpeek l k with
              | LErr => (w, t, RErr)
              | LOk v => match tx_put t b k v 0 F_LPop now DS_List with
                         | (t', ROk) => (w, t', RVal v)
                         | (t', r) => (w, t', r)
                         end
              end
  end.
Proof. reflexivity. Qed.

Lemma do_op_OLRem now w t b k count v :
  do_op now w t (OLRem b k count v) =
  match alookup (ix_list (w_ix w)) b with
  | None => (w, t, RErr)
  | Some l =>
      match l_size l k with
      | LErr => (w, t, RErr)
      | LOk size =>
          if (size <? count) || (count <? - size) then (w, t, RErr)
          else match tx_put t b k (join_sep (print_Z count) v) 0 F_LRem now DS_List with
               | (t', ROk) => match l_lremnum l k count v with
                              | LOk n => (w, t', RInt n)
                              | LErr => (w, t', RErr)
                              end
               | (t', r) => (w, t', r)
               end
      end
  end.
Proof. reflexivity. Qed.

Lemma do_op_OLSet now w t b k i v :
  do_op now w t (OLSet b k i v) =
  match alookup (ix_list (w_ix w)) b with
  | None => (w, t, RErr)
  | Some l =>
      match l_size l k with
      | LErr => (w, t, RErr)
      | LOk size =>
          if (i <? 0) || (size <=? i) then (w, t, RErr)
          else (w, fst (tx_put t b (join_sep k (print_Z i)) v 0 F_LSet now DS_List),
                   snd (tx_put t b (join_sep k (print_Z i)) v 0 F_LSet now DS_List))
      end
  end.
Proof. reflexivity. Qed.

Lemma do_op_OLTrim now w t b k s e :
  do_op now w t (OLTrim b k s e) =
  match alookup (ix_list (w_ix w)) b with
  | None => (w, t, RErr)
  | Some l =>
      match alookup l k with
      | None => (w, t, RErr)
      | Some items =>
          match lrange_list items s e with
          | LErr => (w, t, RErr)
          | LOk _ => (w, fst (tx_put t b (join_sep k (print_Z s)) (print_Z e) 0 F_LTrim now DS_List),
                         snd (tx_put t b (join_sep k (print_Z s)) (print_Z e) 0 F_LTrim now DS_List))
          end
      end
  end.
Proof. reflexivity. Qed.

(** ** Tx.RPush, Tx.LPush *)
Theorem go_Tx_RPush_eq now g w t b k vs :
  tx_abs g w t -> now_ok now -> arg_ok b -> arg_ok k -> Forall arg_ok vs ->
  exists g' e,
    go_Tx_RPush now g b k vs = GOk (g', e) /\
    tx_abs g' w (snd (fst (do_op (Z.to_N now) w t (ORPush b k vs)))) /\
    err_of_res e (snd (do_op (Z.to_N now) w t (ORPush b k vs))).
Proof.
  intros Habs Hnow Hb Hk Hvs. rewrite do_op_ORPush.
  unfold go_Tx_RPush. rewrite (go_Tx_checkTxIsClosed_eq g w t Habs). cbn [gbind err_is_nil negb].
  match goal with |- context [bytes_contains k ?s] => rewrite (bytes_contains_sep k s eq_refl) end.
  destruct (contains_sep k).
  - unfold go_ErrSeparatorForListKey. cbn [gbind fst snd].
    eexists _, _. split; [reflexivity|]. split; [exact Habs | discriminate].
  - destruct (go_Tx_push_eq now g w t b k 3 vs Habs Hnow Hb Hk Hvs ltac:(lia)) as (g' & e & Hgo & Habs' & Herr).
    rewrite Hgo. cbn [gbind fst snd]. exists g', e. split; [reflexivity|]. split; assumption.
Qed.

Theorem go_Tx_LPush_eq now g w t b k vs :
  tx_abs g w t -> now_ok now -> arg_ok b -> arg_ok k -> Forall arg_ok vs ->
  exists g' e,
    go_Tx_LPush now g b k vs = GOk (g', e) /\
    tx_abs g' w (snd (fst (do_op (Z.to_N now) w t (OLPush b k vs)))) /\
    err_of_res e (snd (do_op (Z.to_N now) w t (OLPush b k vs))).
Proof.
  intros Habs Hnow Hb Hk Hvs. rewrite do_op_OLPush.
  unfold go_Tx_LPush. rewrite (go_Tx_checkTxIsClosed_eq g w t Habs). cbn [gbind err_is_nil negb].
  match goal with |- context [bytes_contains k ?s] => rewrite (bytes_contains_sep k s eq_refl) end.
  destruct (contains_sep k).
  - unfold go_ErrSeparatorForListKey. cbn [gbind fst snd].
    eexists _, _. split; [reflexivity|]. split; [exact Habs | discriminate].
  - destruct (go_Tx_push_eq now g w t b k 2 vs Habs Hnow Hb Hk Hvs ltac:(lia)) as (g' & e & Hgo & Habs' & Herr).
    rewrite Hgo. cbn [gbind fst snd]. exists g', e. split; [reflexivity|]. split; assumption.
Qed.

(** ** Tx.RPop, Tx.LPop.  The popped element is written back as the value of
    a pending record, so it must fit the uint32 size field: every element
    held in the list index does ([list_vals_ok]). *)
Definition list_vals_ok (w : world) : Prop :=
  forall b l k x v, alookup (ix_list (w_ix w)) b = Some l -> alookup l k = Some x -> In v x -> arg_ok v.

Lemma l_rpeek_In l k v : l_rpeek l k = LOk v -> exists x, alookup l k = Some x /\ In v x.
Proof.
  unfold l_rpeek. destruct (alookup l k) as [x|]; [|discriminate].
  destruct (rev x) as [|y r] eqn:Hr; [discriminate|]. intros H. inversion H. subst y.
  exists x. split; [reflexivity|]. apply in_rev. rewrite Hr. left. reflexivity.
Qed.

Lemma l_lpeek_In l k v : l_lpeek l k = LOk v -> exists x, alookup l k = Some x /\ In v x.
Proof.
  unfold l_lpeek. destruct (alookup l k) as [[|y r]|]; try discriminate. intros H. inversion H. subst y.
  eexists. split; [reflexivity|]. left. reflexivity.
Qed.

Theorem go_Tx_RPop_eq now g w t b k :
  tx_abs g w t -> now_ok now -> arg_ok b -> arg_ok k -> list_vals_ok w ->
  exists g' item e,
    go_Tx_RPop now g b k = GOk (g', (item, e)) /\
    tx_abs g' w (snd (fst (do_op (Z.to_N now) w t (ORPop b k)))) /\
    match snd (do_op (Z.to_N now) w t (ORPop b k)) with
    | RVal x => e = ENil /\ item = x
    | RErr => e <> ENil
    | _ => False
    end.
Proof.
  intros Habs Hnow Hb Hk Hvals. rewrite do_op_ORPop. unfold go_Tx_RPop.
  destruct (go_Tx_RPeek_eq g w t b k Habs) as (item & err & Hgo & Hres).
  rewrite Hgo. cbn [gbind]. erewrite do_op_read in Hres by reflexivity. cbn [snd] in Hres.
  destruct (alookup (ix_list (w_ix w)) b) as [l|] eqn:Hm; [destruct (l_rpeek l k) as [v|] eqn:Hp|];
    cbn [lres_val] in Hres.
  - destruct Hres as [-> ->]. cbn [err_is_nil negb].
    assert (Hv : arg_ok v).
    { destruct (l_rpeek_In l k v Hp) as (x & Hx & Hin). apply (Hvals b l k x v Hm Hx Hin). }
    destruct (put_one_cases (fun g0 => go_Tx_push now g0 b k 6 [v]) g w t b k v F_RPop (Z.to_N now) DS_List
                (go_Tx_push_eq now g w t b k 6 [v] Habs Hnow Hb Hk (Forall_cons _ Hv (Forall_nil _)) ltac:(lia)) Habs)
      as [(g' & Hgo' & Habs' & Hok) | (g' & e & Hgo' & Habs' & He & Hbad)]; cbv beta in Hgo'; rewrite Hgo'; cbn [gbind].
    + destruct (tx_put t b k v 0 F_RPop (Z.to_N now) DS_List) as [t' r]. cbn [fst snd] in *. subst r.
      exists g', v, ENil. split; [reflexivity|]. split; [exact Habs' | split; reflexivity].
    + rewrite Hbad. cbn [fst snd]. exists g', v, e. split; [reflexivity|]. split; [exact Habs'|].
      apply err_not_nil. exact He.
  - rewrite (err_is_nil_false _ Hres). cbn [negb fst snd].
    exists g, item, err. split; [reflexivity|]. split; [exact Habs | exact Hres].
  - rewrite (err_is_nil_false _ Hres). cbn [negb fst snd].
    exists g, item, err. split; [reflexivity|]. split; [exact Habs | exact Hres].
Qed.

Theorem go_Tx_LPop_eq now g w t b k :
  tx_abs g w t -> now_ok now -> arg_ok b -> arg_ok k -> list_vals_ok w ->
  exists g' item e,
    go_Tx_LPop now g b k = GOk (g', (item, e)) /\
    tx_abs g' w (snd (fst (do_op (Z.to_N now) w t (OLPop b k)))) /\
    match snd (do_op (Z.to_N now) w t (OLPop b k)) with
    | RVal x => e = ENil /\ item = x
    | RErr => e <> ENil
    | _ => False
    end.
Proof.
  intros Habs Hnow Hb Hk Hvals. rewrite do_op_OLPop. unfold go_Tx_LPop.
  destruct (go_Tx_LPeek_eq g w t b k Habs) as (item & err & Hgo & Hres).
  rewrite Hgo. cbn [gbind]. erewrite do_op_read in Hres by reflexivity. cbn [snd] in Hres.
  destruct (alookup (ix_list (w_ix w)) b) as [l|] eqn:Hm; [destruct (l_lpeek l k) as [v|] eqn:Hp|];
    cbn [lres_val] in Hres.
  - destruct Hres as [-> ->]. cbn [err_is_nil negb].
    assert (Hv : arg_ok v).
    { destruct (l_lpeek_In l k v Hp) as (x & Hx & Hin). apply (Hvals b l k x v Hm Hx Hin). }
    destruct (put_one_cases (fun g0 => go_Tx_push now g0 b k 5 [v]) g w t b k v F_LPop (Z.to_N now) DS_List
                (go_Tx_push_eq now g w t b k 5 [v] Habs Hnow Hb Hk (Forall_cons _ Hv (Forall_nil _)) ltac:(lia)) Habs)
      as [(g' & Hgo' & Habs' & Hok) | (g' & e & Hgo' & Habs' & He & Hbad)]; cbv beta in Hgo'; rewrite Hgo'; cbn [gbind].
    + destruct (tx_put t b k v 0 F_LPop (Z.to_N now) DS_List) as [t' r]. cbn [fst snd] in *. subst r.
      exists g', v, ENil. split; [reflexivity|]. split; [exact Habs' | split; reflexivity].
    + rewrite Hbad. cbn [fst snd]. exists g', v, e. split; [reflexivity|]. split; [exact Habs'|].
      apply err_not_nil. exact He.
  - rewrite (err_is_nil_false _ Hres). cbn [negb fst snd].
    exists g, item, err. split; [reflexivity|]. split; [exact Habs | exact Hres].
  - rewrite (err_is_nil_false _ Hres). cbn [negb fst snd].
    exists g, item, err. split; [reflexivity|]. split; [exact Habs | exact Hres].
Qed.

(** ** Tx.LRem, Tx.LSet, Tx.LTrim: the argument of the logged record is built
    with the separator; the composed key / value must fit the size field *)
Lemma join_sep_go (a b s : bytes) : s = [sep] -> (([] ++ a) ++ s) ++ b = join_sep a b.
Proof. intros ->. unfold join_sep. cbn [app]. rewrite <- app_assoc. reflexivity. Qed.

Lemma l_size_bound l k size :
  items_ok l -> l_size (GoList.List_Items l) k = LOk size -> 0 <= size < 4611686018427387904.
Proof.
  unfold l_size. intros Hok H. destruct (alookup (GoList.List_Items l) k) as [x|] eqn:Hx; [|discriminate].
  inversion H. subst size. apply (items_ok_len l k x Hok Hx).
Qed.

Theorem go_Tx_LRem_eq now g w t b k count v :
  tx_abs g w t -> now_ok now -> arg_ok b -> arg_ok k -> arg_ok (join_sep (print_Z count) v) -> int_ok count ->
  exists g' n e,
    go_Tx_LRem now g b k count v = GOk (g', (n, e)) /\
    tx_abs g' w (snd (fst (do_op (Z.to_N now) w t (OLRem b k count v)))) /\
    match snd (do_op (Z.to_N now) w t (OLRem b k count v)) with
    | RInt z => e = ENil /\ n = z
    | RErr => e <> ENil
    | _ => False
    end.
Proof.
  intros Habs Hnow Hb Hk Hnv Hcount. rewrite do_op_OLRem. unfold go_Tx_LRem.
  destruct (go_Tx_LSize_eq g w t b k Habs) as (n0 & err & Hgo & Hres).
  rewrite Hgo. cbn [gbind]. erewrite do_op_read in Hres by reflexivity. cbn [snd] in Hres.
  destruct (list_bucket_cases g w t b Habs) as [(l & _ & _ & Hm & Hok) | (_ & Hm)];
    rewrite Hm in *.
  2: { rewrite (err_is_nil_false _ Hres). cbn [negb fst snd].
       exists g, 0, err. split; [reflexivity|]. split; [exact Habs | exact Hres]. }
  destruct (l_size (GoList.List_Items l) k) as [size|] eqn:Hsz.
  2: { rewrite (err_is_nil_false _ Hres). cbn [negb fst snd].
       exists g, 0, err. split; [reflexivity|]. split; [exact Habs | exact Hres]. }
  destruct Hres as [-> ->]. cbn [err_is_nil negb].
  pose proof (l_size_bound l k size Hok Hsz) as Hb62.
  repeat go_arith.
  (* the model's range test; the code's test, whatever its shape, follows it *)
  destruct ((size <? count) || (count <? - size)) eqn:Hc; go_heads;
    try solve [ cbn [fst snd]; eexists g, 0, _; split; [reflexivity|]; split; [exact Habs | discriminate] ].
  match goal with |- context [go_Tx_push now g b k 4 [?nv]] =>
    replace nv with (join_sep (print_Z count) v) by (symmetry; apply join_sep_go; reflexivity) end.
  destruct (put_one_cases (fun g0 => go_Tx_push now g0 b k 4 [join_sep (print_Z count) v]) g w t b k
              (join_sep (print_Z count) v) F_LRem (Z.to_N now) DS_List
              (go_Tx_push_eq now g w t b k 4 [join_sep (print_Z count) v] Habs Hnow Hb Hk
                 (Forall_cons _ Hnv (Forall_nil _)) ltac:(lia)) Habs)
    as [(g' & Hgo' & Habs' & Hput) | (g' & e & Hgo' & Habs' & He & Hbad)]; cbv beta in Hgo'; rw_call Hgo'; cbn [gbind].
  - cbn [err_is_nil negb]. rewrite (tx_abs_open g' w _ Habs'). cbn [gnonnil gbind].
    destruct (list_bucket_cases g' w _ b Habs') as [(l' & _ & Hl0' & Hm' & Hok') | (_ & Hm')];
      rewrite Hm in Hm'; [|discriminate].
    injection Hm' as Hitems.
    rewrite Hl0'. destruct (go_LRemNum_eq l' k count v Hok' Hcount) as ([n e] & Hgo'' & Hag).
    rewrite Hgo''. cbn [gbind]. rewrite <- Hitems in Hag.
    destruct (tx_put t b k (join_sep (print_Z count) v) 0 F_LRem (Z.to_N now) DS_List) as [t' r].
    cbn [fst snd] in *. subst r.
    exists g', n, e. split; [reflexivity|].
    destruct (l_lremnum (GoList.List_Items l) k count v) as [z|]; cbn [fst snd].
    + inversion Hag. split; [exact Habs' | split; reflexivity].
    + split; [exact Habs' | apply (agrees_err _ _ _ Hag)].
  - rewrite He. cbn [negb]. rewrite Hbad. cbn [fst snd].
    exists g', 0, e. split; [reflexivity|]. split; [exact Habs' | apply err_not_nil; exact He].
Qed.

Theorem go_Tx_LSet_eq now g w t b k i v :
  tx_abs g w t -> now_ok now -> arg_ok b -> arg_ok (join_sep k (print_Z i)) -> arg_ok v ->
  exists g' e,
    go_Tx_LSet now g b k i v = GOk (g', e) /\
    tx_abs g' w (snd (fst (do_op (Z.to_N now) w t (OLSet b k i v)))) /\
    err_of_res e (snd (do_op (Z.to_N now) w t (OLSet b k i v))).
Proof.
  intros Habs Hnow Hb Hnk Hv. rewrite do_op_OLSet. unfold go_Tx_LSet.
  rewrite (go_Tx_checkTxIsClosed_eq g w t Habs). cbn [gbind err_is_nil negb].
  rewrite (tx_abs_open g w t Habs). cbn [gnonnil gbind].
  destruct (go_Tx_LSize_eq g w t b k Habs) as (n0 & err & Hgo & Hres).
  erewrite do_op_read in Hres by reflexivity. cbn [snd] in Hres.
  destruct (list_bucket_cases g w t b Habs) as [(l & Hkb & Hl0 & Hm & Hok) | (Hkb & Hm)];
    rewrite Hkb; rewrite Hm in *; cbn [negb].
  2: { cbn [fst snd]. eexists g, _. split; [reflexivity|]. split; [exact Habs | discriminate]. }
  rewrite Hl0. unfold l_size in *.
  destruct (alookup (GoList.List_Items l) k) as [x|] eqn:Hx.
  2: { rewrite (has_key_none _ _ Hx). cbn [negb fst snd].
       eexists g, _. split; [reflexivity|]. split; [exact Habs | discriminate]. }
  rewrite (has_key_some _ _ _ Hx). cbn [negb]. rewrite Hgo. cbn [gbind]. destruct Hres as [-> ->].
  destruct ((i <? 0) || (zlen x <=? i)) eqn:Hc; go_heads;
    try solve [ cbn [fst snd]; eexists g, _; split; [reflexivity|]; split; [exact Habs | discriminate] ].
  match goal with |- context [go_Tx_push now g b ?nk 7 [v]] =>
    replace nk with (join_sep k (print_Z i)) by (symmetry; apply join_sep_go; reflexivity) end.
  destruct (go_Tx_push_eq now g w t b (join_sep k (print_Z i)) 7 [v] Habs Hnow Hb Hnk
              (Forall_cons _ Hv (Forall_nil _)) ltac:(lia)) as (g' & e & Hgo' & Habs' & Herr).
  rewrite Hgo'. cbn [gbind fst snd]. rewrite tx_put_all_one in Habs', Herr.
  exists g', e. split; [reflexivity|]. split; assumption.
Qed.

(** decimal printing of a 64-bit value is short *)
Lemma print_N_fuel_len f : forall n acc,
  (List.length (print_N_fuel f n acc) <= f + List.length acc)%nat.
Proof.
  induction f as [|f IH]; intros n acc; cbn [print_N_fuel]; [lia|].
  destruct (n / 10 =? 0)%N.
  - cbn [List.length]. lia.
  - specialize (IH (n / 10)%N (digit (n mod 10) :: acc)). cbn [List.length] in IH. lia.
Qed.

Lemma pos_size_nat_le p : forall k : nat, Z.pos p < 2 ^ Z.of_nat k -> (Pos.size_nat p <= k)%nat.
Proof.
  induction p as [p IH | p IH |]; intros k H; destruct k as [|k]; cbn [Pos.size_nat];
    try (change (2 ^ Z.of_nat 0) with 1 in H; lia).
  - rewrite Nat2Z.inj_succ, Z.pow_succ_r in H by lia. apply le_n_S, IH. lia.
  - rewrite Nat2Z.inj_succ, Z.pow_succ_r in H by lia. apply le_n_S, IH. lia.
Qed.

Lemma print_Z_arg_ok z : int_ok z -> arg_ok (print_Z z).
Proof.
  intros Hz. apply int_ok_elim in Hz. unfold arg_ok, zlen.
  assert (Hlen : (List.length (print_Z z) <= 66)%nat).
  { destruct z as [|p|p]; cbn [print_Z List.length]; [lia| |].
    - unfold print_N. pose proof (print_N_fuel_len (S (N.size_nat (N.pos p))) (N.pos p) []) as H.
      cbn [List.length N.size_nat] in H |- *.
      pose proof (pos_size_nat_le p 64 ltac:(change (2 ^ Z.of_nat 64) with 18446744073709551616; lia)). lia.
    - unfold print_N. pose proof (print_N_fuel_len (S (N.size_nat (N.pos p))) (N.pos p) []) as H.
      cbn [List.length N.size_nat] in H |- *.
      pose proof (pos_size_nat_le p 64 ltac:(change (2 ^ Z.of_nat 64) with 18446744073709551616; lia)). lia. }
  change (2 ^ 32) with 4294967296. lia.
Qed.

Theorem go_Tx_LTrim_eq now g w t b k s e :
  tx_abs g w t -> now_ok now -> arg_ok b -> arg_ok (join_sep k (print_Z s)) -> int_ok s -> int_ok e ->
  exists g' err,
    go_Tx_LTrim now g b k s e = GOk (g', err) /\
    tx_abs g' w (snd (fst (do_op (Z.to_N now) w t (OLTrim b k s e)))) /\
    err_of_res err (snd (do_op (Z.to_N now) w t (OLTrim b k s e))).
Proof.
  intros Habs Hnow Hb Hnk Hs He. rewrite do_op_OLTrim. unfold go_Tx_LTrim.
  rewrite (go_Tx_checkTxIsClosed_eq g w t Habs). cbn [gbind err_is_nil negb].
  rewrite (tx_abs_open g w t Habs). cbn [gnonnil gbind].
  destruct (go_Tx_LRange_eq g w t b k s e Habs Hs He) as (x0 & err & Hgo & Hres).
  erewrite do_op_read in Hres by reflexivity. cbn [snd] in Hres.
  destruct (list_bucket_cases g w t b Habs) as [(l & Hkb & Hl0 & Hm & Hok) | (Hkb & Hm)];
    rewrite Hkb; rewrite Hm in *; cbn [negb].
  2: { cbn [fst snd]. eexists g, _. split; [reflexivity|]. split; [exact Habs | discriminate]. }
  rewrite Hl0. unfold l_lrange in Hres.
  destruct (alookup (GoList.List_Items l) k) as [x|] eqn:Hx.
  2: { rewrite (has_key_none _ _ Hx). cbn [negb fst snd].
       eexists g, _. split; [reflexivity|]. split; [exact Habs | discriminate]. }
  rewrite (has_key_some _ _ _ Hx). cbn [negb]. rewrite Hgo. cbn [gbind].
  destruct (lrange_list x s e) as [y|].
  2: { rewrite (err_is_nil_false _ Hres). cbn [negb fst snd].
       exists g, err. split; [reflexivity|]. split; [exact Habs | exact Hres]. }
  destruct Hres as [-> ->]. cbn [err_is_nil negb].
  match goal with |- context [go_Tx_push now g b ?nk 8 [print_Z e]] =>
    replace nk with (join_sep k (print_Z s)) by (symmetry; apply join_sep_go; reflexivity) end.
  destruct (go_Tx_push_eq now g w t b (join_sep k (print_Z s)) 8 [print_Z e] Habs Hnow Hb Hnk
              (Forall_cons _ (print_Z_arg_ok e He) (Forall_nil _)) ltac:(lia)) as (g' & e' & Hgo' & Habs' & Herr).
  rewrite Hgo'. cbn [gbind fst snd]. rewrite tx_put_all_one in Habs', Herr.
  exists g', e'. split; [reflexivity|]. split; assumption.
Qed.

(* ====================================================================== *)
(** * Sets                                                                 *)
(* ====================================================================== *)

(** what a bucket lookup in DB.SetIdx says on the Go side and in the model *)
Lemma set_bucket_cases g w t b :
  tx_abs g w t ->
  (exists s, has_key (DB_SetIdx (Tx_db g)) b = true /\
             (forall z, lookup0 z (DB_SetIdx (Tx_db g)) b = s) /\
             alookup (ix_set (w_ix w)) b = Some (to_smap (GoSet.Set_M s)) /\ gmap_wf (GoSet.Set_M s)) \/
  (has_key (DB_SetIdx (Tx_db g)) b = false /\ alookup (ix_set (w_ix w)) b = None).
Proof.
  intros (Hnil & Hw & Hid & Hidlt & Hpend & Hsized & Hli & Hsi & Hlok & Hsok).
  rewrite <- Hsi. unfold set_ix_of.
  rewrite (alookup_map_snd (fun s => to_smap (GoSet.Set_M s))).
  unfold has_key, lookup0.
  destruct (alookup (DB_SetIdx (Tx_db g)) b) as [s|] eqn:Hs.
  - left. exists s. split; [reflexivity|]. split; [reflexivity|]. split; [reflexivity|].
    apply (Hsok b s). apply alookup_In. exact Hs.
  - right. split; reflexivity.
Qed.

Lemma getdef_to_smap (m : gmap) k :
  getdef (to_smap m) k [] = map fst (lookup0 ([] : list (bytes * unit)) m k).
Proof. unfold getdef, lookup0. rewrite alookup_to_smap. destruct (alookup m k); reflexivity. Qed.

(** ** the model's branches for the mutating set calls (by computation) *)
Lemma do_op_OSAdd now w t b k items :
  do_op now w t (OSAdd b k items) =
  (w, fst (tx_put_all t b k items F_Set now DS_Set), snd (tx_put_all t b k items F_Set now DS_Set)).
Proof. reflexivity. Qed.

Lemma do_op_OSRem now w t b k items :
  do_op now w t (OSRem b k items) =
  (w, fst (tx_put_all t b k items F_Del now DS_Set), snd (tx_put_all t b k items F_Del now DS_Set)).
Proof. reflexivity. Qed.

Lemma do_op_OSPop now w t b k choice :
  do_op now w t (OSPop b k choice) =
  match alookup (ix_set (w_ix w)) b with
  | None => (w, t, RErr)
  | Some s =>
      match alookup s k with
      | None => (w, t, RErr)
      | Some members =>
          match members with
          | [] => (w, t, RErr)
          | _ :: _ =>
              match choice with
              | Some c =>
                  if bmem c members then
                    match tx_put t b k c 0 F_Del now DS_Set with
                    | (t', ROk) => (w, t', RVal c)
                    | (t', r) => (w, t', r)
                    end
                  else (w, t, RInadmissible)
              | None =>
                  match tx_put t b k [] 0 F_Del now DS_Set with
                  | (_, ROk) => (w, t, RInadmissible)
                  | (_, r) => (w, t, r)
                  end
              end
          end
      end
  end.
Proof. reflexivity. Qed.

(** Tx.sMove in the model: add to the destination, then remove from the source *)
Definition tx_move (now : N) (w : world) (t : txstate) (b1 k1 b2 k2 x : bytes) : world * txstate * res :=
  match tx_put t b2 k2 x 0 F_Set now DS_Set with
  | (t1, ROk) => match tx_put t1 b1 k1 x 0 F_Del now DS_Set with
                 | (t2, ROk) => (w, t2, RBool true)
                 | (t2, r) => (w, t2, r)
                 end
  | (t1, r) => (w, t1, r)
  end.

Lemma do_op_OSMove1 now w t b k1 k2 x :
  do_op now w t (OSMove1 b k1 k2 x) =
  match alookup (ix_set (w_ix w)) b with
  | None => (w, t, RErr)
  | Some s => if s_haskey s k1 && s_haskey s k2 then tx_move now w t b k1 b k2 x else (w, t, RErr)
  end.
Proof. reflexivity. Qed.

Lemma do_op_OSMove2 now w t b1 k1 b2 k2 x :
  do_op now w t (OSMove2 b1 k1 b2 k2 x) =
  match alookup (ix_set (w_ix w)) b1, alookup (ix_set (w_ix w)) b2 with
  | Some s1, Some s2 =>
      if s_haskey s1 k1 && s_haskey s2 k2 then tx_move now w t b1 k1 b2 k2 x else (w, t, RErr)
  | _, _ => (w, t, RErr)
  end.
Proof. reflexivity. Qed.

(** ** Tx.SAdd, Tx.SRem *)
Theorem go_Tx_SAdd_eq now g w t b k items :
  tx_abs g w t -> now_ok now -> arg_ok b -> arg_ok k -> Forall arg_ok items ->
  exists g' e,
    go_Tx_SAdd now g b k items = GOk (g', e) /\
    tx_abs g' w (snd (fst (do_op (Z.to_N now) w t (OSAdd b k items)))) /\
    err_of_res e (snd (do_op (Z.to_N now) w t (OSAdd b k items))).
Proof.
  intros Habs Hnow Hb Hk Hvs. rewrite do_op_OSAdd. unfold go_Tx_SAdd.
  destruct (go_Tx_sPut_eq now g w t b k 1 items Habs Hnow Hb Hk Hvs ltac:(lia)) as (g' & e & Hgo & Habs' & Herr).
  rewrite Hgo. cbn [gbind fst snd]. exists g', e. split; [reflexivity|]. split; assumption.
Qed.

Theorem go_Tx_SRem_eq now g w t b k items :
  tx_abs g w t -> now_ok now -> arg_ok b -> arg_ok k -> Forall arg_ok items ->
  exists g' e,
    go_Tx_SRem now g b k items = GOk (g', e) /\
    tx_abs g' w (snd (fst (do_op (Z.to_N now) w t (OSRem b k items)))) /\
    err_of_res e (snd (do_op (Z.to_N now) w t (OSRem b k items))).
Proof.
  intros Habs Hnow Hb Hk Hvs. rewrite do_op_OSRem. unfold go_Tx_SRem.
  destruct (go_Tx_sPut_eq now g w t b k 0 items Habs Hnow Hb Hk Hvs ltac:(lia)) as (g' & e & Hgo & Habs' & Herr).
  rewrite Hgo. cbn [gbind fst snd]. exists g', e. split; [reflexivity|]. split; assumption.
Qed.

(** ** the read-only set calls *)
Theorem go_Tx_SAreMembers_eq g w t b k items :
  tx_abs g w t ->
  exists r err,
    go_Tx_SAreMembers g b k items = GOk (g, (r, err)) /\
    match snd (do_op 0 w t (OSAreMembers b k items)) with
    | RBool v => err = ENil /\ r = v
    | RErr => err <> ENil
    | _ => False
    end.
Proof.
  intros Habs. erewrite do_op_read by reflexivity. cbn [snd].
  unfold go_Tx_SAreMembers. rewrite (go_Tx_checkTxIsClosed_eq g w t Habs). cbn [gbind err_is_nil negb].
  rewrite (tx_abs_open g w t Habs). cbn [gnonnil gbind].
  destruct (set_bucket_cases g w t b Habs) as [(s & Hkb & Hl0 & Hm & Hwf) | (Hkb & Hm)];
    rewrite Hkb, Hm.
  - rewrite Hl0. destruct (go_SAreMembers_eq s k items) as (err & Hgo & Hiff).
    rewrite Hgo. cbn [gbind]. eexists _, err. split; [reflexivity|].
    destruct (s_aremembers (to_smap (GoSet.Set_M s)) k items).
    + split; [apply Hiff; reflexivity | reflexivity].
    + intros E. apply Hiff in E. discriminate.
  - unfold go_ErrBucketAndKey. cbn [gbind]. eexists _, _. split; [reflexivity | discriminate].
Qed.

Theorem go_Tx_SIsMember_eq g w t b k x :
  tx_abs g w t ->
  exists r err,
    go_Tx_SIsMember g b k x = GOk (g, (r, err)) /\
    match snd (do_op 0 w t (OSIsMember b k x)) with
    | RBool v => err = ENil /\ r = v
    | RErr => err <> ENil
    | _ => False
    end.
Proof.
  intros Habs. erewrite do_op_read by reflexivity. cbn [snd].
  unfold go_Tx_SIsMember. rewrite (go_Tx_checkTxIsClosed_eq g w t Habs). cbn [gbind err_is_nil negb].
  rewrite (tx_abs_open g w t Habs). cbn [gnonnil gbind].
  destruct (set_bucket_cases g w t b Habs) as [(s & Hkb & Hl0 & Hm & Hwf) | (Hkb & Hm)];
    rewrite Hkb, Hm.
  - rewrite Hl0, go_SIsMember_eq. cbn [gbind].
    destruct (s_ismember (to_smap (GoSet.Set_M s)) k x); cbn [negb].
    + eexists _, _. split; [reflexivity|]. split; reflexivity.
    + unfold go_ErrBucketAndKey. cbn [gbind]. eexists _, _. split; [reflexivity | discriminate].
  - unfold go_ErrBucketAndKey. cbn [gbind]. eexists _, _. split; [reflexivity | discriminate].
Qed.

Theorem go_Tx_SMembers_eq mord g w t b k :
  tx_abs g w t -> mord_ok mord ->
  exists l err,
    go_Tx_SMembers mord g b k = GOk (g, (l, err)) /\
    match snd (do_op 0 w t (OSMembers b k)) with
    | RList x => err = ENil /\ bsort l = x
    | RErr => err <> ENil
    | _ => False
    end.
Proof.
  intros Habs Hmord. erewrite do_op_read by reflexivity. cbn [snd].
  unfold go_Tx_SMembers. rewrite (go_Tx_checkTxIsClosed_eq g w t Habs). cbn [gbind err_is_nil negb].
  rewrite (tx_abs_open g w t Habs). cbn [gnonnil gbind].
  destruct (set_bucket_cases g w t b Habs) as [(s & Hkb & Hl0 & Hm & Hwf) | (Hkb & Hm)];
    rewrite Hkb, Hm.
  - rewrite Hl0. destruct (go_SMembers_eq mord s k Hmord Hwf) as (l & err & Hgo & Hres).
    rewrite Hgo. cbn [gbind]. exists l, err. split; [reflexivity|].
    destruct (s_members (to_smap (GoSet.Set_M s)) k); exact Hres.
  - unfold go_ErrBucketAndKey. cbn [gbind]. eexists _, _. split; [reflexivity | discriminate].
Qed.

Theorem go_Tx_SHasKey_eq g w t b k :
  tx_abs g w t ->
  exists r err,
    go_Tx_SHasKey g b k = GOk (g, (r, err)) /\
    match snd (do_op 0 w t (OSHasKey b k)) with
    | RBool v => err = ENil /\ r = v
    | RErr => err <> ENil
    | _ => False
    end.
Proof.
  intros Habs. erewrite do_op_read by reflexivity. cbn [snd].
  unfold go_Tx_SHasKey. rewrite (go_Tx_checkTxIsClosed_eq g w t Habs). cbn [gbind err_is_nil negb].
  rewrite (tx_abs_open g w t Habs). cbn [gnonnil gbind].
  destruct (set_bucket_cases g w t b Habs) as [(s & Hkb & Hl0 & Hm & Hwf) | (Hkb & Hm)];
    rewrite Hkb, Hm.
  - rewrite Hl0, go_SHasKey_eq. cbn [gbind].
    eexists _, _. split; [reflexivity|]. split; reflexivity.
  - unfold go_ErrBucketAndKey. cbn [gbind]. eexists _, _. split; [reflexivity | discriminate].
Qed.

Theorem go_Tx_SCard_eq g w t b k :
  tx_abs g w t ->
  exists n err,
    go_Tx_SCard g b k = GOk (g, (n, err)) /\
    match snd (do_op 0 w t (OSCard b k)) with
    | RInt z => err = ENil /\ n = z
    | RErr => err <> ENil
    | _ => False
    end.
Proof.
  intros Habs. erewrite do_op_read by reflexivity. cbn [snd].
  unfold go_Tx_SCard. rewrite (go_Tx_checkTxIsClosed_eq g w t Habs). cbn [gbind err_is_nil negb].
  rewrite (tx_abs_open g w t Habs). cbn [gnonnil gbind].
  destruct (set_bucket_cases g w t b Habs) as [(s & Hkb & Hl0 & Hm & Hwf) | (Hkb & Hm)];
    rewrite Hkb, Hm.
  - rewrite Hl0, (go_SCard_eq s k Hwf). cbn [gbind].
    eexists _, _. split; [reflexivity|]. split; reflexivity.
  - unfold go_ErrBucketAndKey. cbn [gbind]. eexists _, _. split; [reflexivity | discriminate].
Qed.

Theorem go_Tx_SDiffByOneBucket_eq mord g w t b k1 k2 :
  tx_abs g w t -> mord_ok mord ->
  exists l err,
    go_Tx_SDiffByOneBucket mord g b k1 k2 = GOk (g, (l, err)) /\
    match snd (do_op 0 w t (OSDiff1 b k1 k2)) with
    | RList x => err = ENil /\ bsort l = x
    | RErr => err <> ENil
    | _ => False
    end.
Proof.
  intros Habs Hmord. erewrite do_op_read by reflexivity. cbn [snd].
  unfold go_Tx_SDiffByOneBucket. rewrite (go_Tx_checkTxIsClosed_eq g w t Habs). cbn [gbind err_is_nil negb].
  rewrite (tx_abs_open g w t Habs). cbn [gnonnil gbind].
  destruct (set_bucket_cases g w t b Habs) as [(s & Hkb & Hl0 & Hm & Hwf) | (Hkb & Hm)];
    rewrite Hkb, Hm.
  - rewrite Hl0. destruct (go_SDiff_eq mord s k1 k2 Hmord Hwf) as (l & err & Hgo & Hres).
    rewrite Hgo. cbn [gbind]. exists l, err. split; [reflexivity|].
    destruct (s_diff (to_smap (GoSet.Set_M s)) k1 k2); exact Hres.
  - unfold go_ErrBucketAndKey. cbn [gbind]. eexists _, _. split; [reflexivity | discriminate].
Qed.

Theorem go_Tx_SUnionByOneBucket_eq mord g w t b k1 k2 :
  tx_abs g w t -> mord_ok mord ->
  exists l err,
    go_Tx_SUnionByOneBucket mord g b k1 k2 = GOk (g, (l, err)) /\
    match snd (do_op 0 w t (OSUnion1 b k1 k2)) with
    | RList x => err = ENil /\ bsort l = x
    | RErr => err <> ENil
    | _ => False
    end.
Proof.
  intros Habs Hmord. erewrite do_op_read by reflexivity. cbn [snd].
  unfold go_Tx_SUnionByOneBucket. rewrite (go_Tx_checkTxIsClosed_eq g w t Habs). cbn [gbind err_is_nil negb].
  rewrite (tx_abs_open g w t Habs). cbn [gnonnil gbind].
  destruct (set_bucket_cases g w t b Habs) as [(s & Hkb & Hl0 & Hm & Hwf) | (Hkb & Hm)];
    rewrite Hkb, Hm.
  - rewrite Hl0. destruct (go_SUnion_eq mord s k1 k2 Hmord Hwf) as (l & err & Hgo & Hres).
    rewrite Hgo. cbn [gbind]. exists l, err. split; [reflexivity|].
    destruct (s_union (to_smap (GoSet.Set_M s)) k1 k2); exact Hres.
  - eexists _, _. split; [reflexivity | discriminate].
Qed.

Theorem go_Tx_SDiffByTwoBuckets_eq mord g w t b1 k1 b2 k2 :
  tx_abs g w t -> mord_ok mord ->
  exists l err,
    go_Tx_SDiffByTwoBuckets mord g b1 k1 b2 k2 = GOk (g, (l, err)) /\
    match snd (do_op 0 w t (OSDiff2 b1 k1 b2 k2)) with
    | RList x => err = ENil /\ bsort l = x
    | RErr => err <> ENil
    | _ => False
    end.
Proof.
  intros Habs Hmord. erewrite do_op_read by reflexivity. cbn [snd].
  unfold go_Tx_SDiffByTwoBuckets. rewrite (go_Tx_checkTxIsClosed_eq g w t Habs). cbn [gbind err_is_nil negb].
  rewrite (tx_abs_open g w t Habs). cbn [gnonnil gbind].
  destruct (set_bucket_cases g w t b1 Habs) as [(s1 & Hkb1 & Hl01 & Hm1 & Hwf1) | (Hkb1 & Hm1)];
    rewrite Hkb1, Hm1; cbn [negb].
  2: { unfold go_ErrBucketAndKey. cbn [gbind]. eexists _, _. split; [reflexivity | discriminate]. }
  destruct (set_bucket_cases g w t b2 Habs) as [(s2 & Hkb2 & Hl02 & Hm2 & Hwf2) | (Hkb2 & Hm2)];
    rewrite Hkb2, Hm2; cbn [negb].
  2: { unfold go_ErrBucketAndKey. cbn [gbind]. eexists _, _. split; [reflexivity | discriminate]. }
  rewrite Hl01, Hl02.
  set (in1 := lookup0 ([] : list (bytes * unit)) (GoSet.Set_M s1) k1).
  set (in2 := lookup0 ([] : list (bytes * unit)) (GoSet.Set_M s2) k2).
  rewrite (grange_fold _ (app_if (fun x => negb (bmem x (map fst in2))))).
  2:{ intros i [x u] acc. unfold app_if. cbn [fst]. rewrite has_key_bmem.
      destruct (bmem x (map fst in2)); reflexivity. }
  cbn [gbind]. eexists _, _. split; [reflexivity|]. split; [reflexivity|].
  rewrite fold_app_if. cbn [app]. rewrite !getdef_to_smap. fold in1 in2.
  apply bsort_perm_eq. unfold sdiff_l. apply Permutation_filter. apply mord_keys. exact Hmord.
Qed.

Theorem go_Tx_SUnionByTwoBuckets_eq mord g w t b1 k1 b2 k2 :
  tx_abs g w t -> mord_ok mord ->
  exists l err,
    go_Tx_SUnionByTwoBuckets mord g b1 k1 b2 k2 = GOk (g, (l, err)) /\
    match snd (do_op 0 w t (OSUnion2 b1 k1 b2 k2)) with
    | RList x => err = ENil /\ bsort l = x
    | RErr => err <> ENil
    | _ => False
    end.
Proof.
  intros Habs Hmord. erewrite do_op_read by reflexivity. cbn [snd].
  unfold go_Tx_SUnionByTwoBuckets. rewrite (go_Tx_checkTxIsClosed_eq g w t Habs). cbn [gbind err_is_nil negb].
  rewrite (tx_abs_open g w t Habs). cbn [gnonnil gbind].
  destruct (set_bucket_cases g w t b1 Habs) as [(s1 & Hkb1 & Hl01 & Hm1 & Hwf1) | (Hkb1 & Hm1)];
    rewrite Hkb1, Hm1; cbn [negb].
  2: { unfold go_ErrBucketAndKey. cbn [gbind]. eexists _, _. split; [reflexivity | discriminate]. }
  destruct (set_bucket_cases g w t b2 Habs) as [(s2 & Hkb2 & Hl02 & Hm2 & Hwf2) | (Hkb2 & Hm2)];
    rewrite Hkb2, Hm2; cbn [negb].
  2: { unfold go_ErrBucketAndKey. cbn [gbind]. eexists _, _. split; [reflexivity | discriminate]. }
  rewrite Hl01, Hl02. rewrite !go_SHasKey_eq. unfold s_haskey.
  destruct (lookup_cases (GoSet.Set_M s1) k1) as [(in1 & La1 & Hk1 & L01 & Ls1) | (La1 & Hk1 & Ls1)];
    rewrite Ls1; cbn [gbind negb].
  2: { unfold go_ErrNotFoundKeyInBucket. cbn [gbind]. eexists _, _. split; [reflexivity | discriminate]. }
  destruct (lookup_cases (GoSet.Set_M s2) k2) as [(in2 & La2 & Hk2 & L02 & Ls2) | (La2 & Hk2 & Ls2)];
    rewrite Ls2; cbn [gbind negb].
  2: { unfold go_ErrNotFoundKeyInBucket. cbn [gbind]. eexists _, _. split; [reflexivity | discriminate]. }
  rewrite L01, L02.
  rewrite (grange_fold _ app_fst) by (intros i [x u] acc; reflexivity).
  cbn [gbind].
  rewrite (grange_fold _ (app_if (fun x => negb (bmem x (map fst in1))))).
  2:{ intros i [x u] acc. unfold app_if. cbn [fst]. rewrite has_key_bmem.
      destruct (bmem x (map fst in1)); reflexivity. }
  cbn [gbind]. eexists _, _. split; [reflexivity|]. split; [reflexivity|].
  rewrite fold_app_if, fold_app_fst'. cbn [app]. apply bsort_perm_eq. unfold sunion_l, sdiff_l.
  apply Permutation_app; [|apply Permutation_filter]; apply mord_keys; exact Hmord.
Qed.

(** ** Tx.SPop.  The popped member is written back as the value of a pending
    record, so it must fit the uint32 size field: every member held in the
    set index does ([set_vals_ok]).  The model's op carries the member the
    implementation chose; for every admissible iteration order there is such a
    choice (the first member visited, when there is one). *)
Definition set_vals_ok (w : world) : Prop :=
  forall b s k l x, alookup (ix_set (w_ix w)) b = Some s -> alookup s k = Some l -> In x l -> arg_ok x.

Theorem go_Tx_SPop_eq now mord g w t b k :
  tx_abs g w t -> now_ok now -> arg_ok b -> arg_ok k -> set_vals_ok w -> mord_ok mord ->
  exists choice g' item e,
    go_Tx_SPop now mord g b k = GOk (g', (item, e)) /\
    tx_abs g' w (snd (fst (do_op (Z.to_N now) w t (OSPop b k choice)))) /\
    match snd (do_op (Z.to_N now) w t (OSPop b k choice)) with
    | RVal x => e = ENil /\ item = x
    | RErr => e <> ENil
    | _ => False
    end.
Proof.
  intros Habs Hnow Hb Hk Hvals Hmord.
  unfold go_Tx_SPop. rewrite (go_Tx_checkTxIsClosed_eq g w t Habs). cbn [gbind err_is_nil negb].
  rewrite (tx_abs_open g w t Habs). cbn [gnonnil gbind].
  destruct (set_bucket_cases g w t b Habs) as [(s & Hkb & Hl0 & Hm & Hwf) | (Hkb & Hm)]; rewrite Hkb.
  2: { exists None. rewrite do_op_OSPop, Hm. unfold go_ErrBucketAndKey. cbn [gbind fst snd].
       eexists g, _, _. split; [reflexivity|]. split; [exact Habs | discriminate]. }
  rewrite Hl0.
  destruct (lookup_cases (GoSet.Set_M s) k) as [(inner & La & Hks & L0 & Ls) | (La & Hks & Ls)].
  2: { exists None. rewrite do_op_OSPop, Hm, Ls. rewrite (lookup0_none _ _ _ La).
       match goal with |- context [mord ?site unit []] =>
         pose proof (Hmord site unit []) as HP; apply Permutation_sym, Permutation_nil in HP; rewrite HP
       end.
       rewrite grange_nil. unfold go_ErrBucketAndKey. cbn [gbind fst snd].
       eexists g, _, _. split; [reflexivity|]. split; [exact Habs | discriminate]. }
  rewrite L0.
  (* the iteration order of this range (its site number depends on the position
     of the function in the file) *)
  match goal with |- context [mord ?site unit inner] =>
    pose proof (Hmord site unit inner) as HP; destruct (mord site unit inner) as [|[x u] rest]
  end.
  { apply Permutation_nil in HP. rewrite HP in Ls.
    exists None. rewrite do_op_OSPop, Hm, Ls. cbn [map].
    rewrite grange_nil. unfold go_ErrBucketAndKey. cbn [gbind fst snd].
    eexists g, _, _. split; [reflexivity|]. split; [exact Habs | discriminate]. }
  assert (Hin : In x (map fst inner)).
  { apply (in_map fst inner (x, u)). apply (Permutation_in _ HP). left. reflexivity. }
  assert (Hx : arg_ok x) by (apply (Hvals b _ k _ x Hm Ls Hin)).
  exists (Some x). rewrite do_op_OSPop, Hm, Ls.
  destruct (map fst inner) as [|y ys] eqn:Ey; [destruct Hin|]. rewrite <- Ey in *.
  apply bmem_In in Hin. rewrite Hin.
  cbn [grange].
  destruct (put_one_cases (fun g0 => go_Tx_sPut now g0 b k 0 [x]) g w t b k x F_Del (Z.to_N now) DS_Set
              (go_Tx_sPut_eq now g w t b k 0 [x] Habs Hnow Hb Hk (Forall_cons _ Hx (Forall_nil _)) ltac:(lia)) Habs)
    as [(g' & Hgo' & Habs' & Hput) | (g' & e & Hgo' & Habs' & He & Hbad)]; cbv beta in Hgo'; rw_call Hgo'; cbn [gbind].
  - destruct (tx_put t b k x 0 F_Del (Z.to_N now) DS_Set) as [t' r]. cbn [fst snd] in *. subst r.
    exists g', x, ENil. split; [reflexivity|]. split; [exact Habs' | split; reflexivity].
  - rewrite Hbad. cbn [fst snd]. exists g', x, e. split; [reflexivity|]. split; [exact Habs'|].
    apply err_not_nil. exact He.
Qed.

(** ** Tx.sMove, Tx.SMoveByOneBucket, Tx.SMoveByTwoBuckets *)
Theorem go_Tx_sMove_eq now g w t b1 k1 b2 k2 x :
  tx_abs g w t -> now_ok now -> arg_ok b1 -> arg_ok k1 -> arg_ok b2 -> arg_ok k2 -> arg_ok x ->
  exists g' ok e,
    go_Tx_sMove now g b1 k1 b2 k2 x = GOk (g', (ok, e)) /\
    tx_abs g' w (snd (fst (tx_move (Z.to_N now) w t b1 k1 b2 k2 x))) /\
    match snd (tx_move (Z.to_N now) w t b1 k1 b2 k2 x) with
    | RBool v => e = ENil /\ ok = v
    | RErr => e <> ENil
    | _ => False
    end.
Proof.
  intros Habs Hnow Hb1 Hk1 Hb2 Hk2 Hx. unfold go_Tx_sMove, tx_move.
  destruct (put_one_cases (fun g0 => go_Tx_sPut now g0 b2 k2 1 [x]) g w t b2 k2 x F_Set (Z.to_N now) DS_Set
              (go_Tx_sPut_eq now g w t b2 k2 1 [x] Habs Hnow Hb2 Hk2 (Forall_cons _ Hx (Forall_nil _)) ltac:(lia)) Habs)
    as [(g1 & Hgo1 & Habs1 & Hput1) | (g1 & e1 & Hgo1 & Habs1 & He1 & Hbad1)]; cbv beta in Hgo1; rw_call Hgo1; cbn [gbind].
  2: { rewrite He1, Hbad1. cbn [negb fst snd]. exists g1, false, e1. split; [reflexivity|].
       split; [exact Habs1 | apply err_not_nil; exact He1]. }
  cbn [err_is_nil negb].
  destruct (tx_put t b2 k2 x 0 F_Set (Z.to_N now) DS_Set) as [t1 r1]. cbn [fst snd] in *. subst r1.
  destruct (put_one_cases (fun g0 => go_Tx_sPut now g0 b1 k1 0 [x]) g1 w t1 b1 k1 x F_Del (Z.to_N now) DS_Set
              (go_Tx_sPut_eq now g1 w t1 b1 k1 0 [x] Habs1 Hnow Hb1 Hk1 (Forall_cons _ Hx (Forall_nil _)) ltac:(lia)) Habs1)
    as [(g2 & Hgo2 & Habs2 & Hput2) | (g2 & e2 & Hgo2 & Habs2 & He2 & Hbad2)]; cbv beta in Hgo2; rw_call Hgo2; cbn [gbind].
  2: { rewrite He2, Hbad2. cbn [negb fst snd]. exists g2, false, e2. split; [reflexivity|].
       split; [exact Habs2 | apply err_not_nil; exact He2]. }
  cbn [err_is_nil negb].
  destruct (tx_put t1 b1 k1 x 0 F_Del (Z.to_N now) DS_Set) as [t2 r2]. cbn [fst snd] in *. subst r2.
  exists g2, true, ENil. split; [reflexivity|]. split; [exact Habs2 | split; reflexivity].
Qed.

Theorem go_Tx_SMoveByOneBucket_eq now g w t b k1 k2 x :
  tx_abs g w t -> now_ok now -> arg_ok b -> arg_ok k1 -> arg_ok k2 -> arg_ok x ->
  exists g' ok e,
    go_Tx_SMoveByOneBucket now g b k1 k2 x = GOk (g', (ok, e)) /\
    tx_abs g' w (snd (fst (do_op (Z.to_N now) w t (OSMove1 b k1 k2 x)))) /\
    match snd (do_op (Z.to_N now) w t (OSMove1 b k1 k2 x)) with
    | RBool v => e = ENil /\ ok = v
    | RErr => e <> ENil
    | _ => False
    end.
Proof.
  intros Habs Hnow Hb Hk1 Hk2 Hx. rewrite do_op_OSMove1.
  unfold go_Tx_SMoveByOneBucket. rewrite (go_Tx_checkTxIsClosed_eq g w t Habs). cbn [gbind err_is_nil negb].
  rewrite (tx_abs_open g w t Habs). cbn [gnonnil gbind].
  destruct (set_bucket_cases g w t b Habs) as [(s & Hkb & Hl0 & Hm & Hwf) | (Hkb & Hm)];
    rewrite Hkb, Hm.
  2: { cbn [fst snd]. eexists g, _, _. split; [reflexivity|]. split; [exact Habs | discriminate]. }
  rewrite Hl0, !go_SHasKey_eq. cbn [gbind].
  destruct (s_haskey (to_smap (GoSet.Set_M s)) k1); cbn [negb andb].
  2: { unfold go_ErrNotFoundKeyInBucket. cbn [gbind fst snd].
       eexists g, _, _. split; [reflexivity|]. split; [exact Habs | discriminate]. }
  rewrite ?go_SHasKey_eq. cbn [gbind].
  destruct (s_haskey (to_smap (GoSet.Set_M s)) k2); cbn [negb andb].
  2: { unfold go_ErrNotFoundKeyInBucket. cbn [gbind fst snd].
       eexists g, _, _. split; [reflexivity|]. split; [exact Habs | discriminate]. }
  destruct (go_Tx_sMove_eq now g w t b k1 b k2 x Habs Hnow Hb Hk1 Hb Hk2 Hx) as (g' & ok & e & Hgo & Habs' & Hres).
  rewrite Hgo. cbn [gbind]. exists g', ok, e. split; [reflexivity|]. split; assumption.
Qed.

Theorem go_Tx_SMoveByTwoBuckets_eq now g w t b1 k1 b2 k2 x :
  tx_abs g w t -> now_ok now -> arg_ok b1 -> arg_ok k1 -> arg_ok b2 -> arg_ok k2 -> arg_ok x ->
  exists g' ok e,
    go_Tx_SMoveByTwoBuckets now g b1 k1 b2 k2 x = GOk (g', (ok, e)) /\
    tx_abs g' w (snd (fst (do_op (Z.to_N now) w t (OSMove2 b1 k1 b2 k2 x)))) /\
    match snd (do_op (Z.to_N now) w t (OSMove2 b1 k1 b2 k2 x)) with
    | RBool v => e = ENil /\ ok = v
    | RErr => e <> ENil
    | _ => False
    end.
Proof.
  intros Habs Hnow Hb1 Hk1 Hb2 Hk2 Hx. rewrite do_op_OSMove2.
  unfold go_Tx_SMoveByTwoBuckets. rewrite (go_Tx_checkTxIsClosed_eq g w t Habs). cbn [gbind err_is_nil negb].
  rewrite (tx_abs_open g w t Habs). cbn [gnonnil gbind].
  destruct (set_bucket_cases g w t b1 Habs) as [(s1 & Hkb1 & Hl01 & Hm1 & Hwf1) | (Hkb1 & Hm1)];
    rewrite Hkb1, Hm1; cbn [negb].
  2: { unfold go_ErrBucketAndKey. cbn [gbind fst snd].
       eexists g, _, _. split; [reflexivity|]. split; [exact Habs | discriminate]. }
  destruct (set_bucket_cases g w t b2 Habs) as [(s2 & Hkb2 & Hl02 & Hm2 & Hwf2) | (Hkb2 & Hm2)];
    rewrite Hkb2, Hm2; cbn [negb].
  2: { unfold go_ErrBucketAndKey. cbn [gbind fst snd].
       eexists g, _, _. split; [reflexivity|]. split; [exact Habs | discriminate]. }
  rewrite Hl01, Hl02, !go_SHasKey_eq. cbn [gbind].
  destruct (s_haskey (to_smap (GoSet.Set_M s1)) k1); cbn [negb andb].
  2: { unfold go_ErrNotFoundKeyInBucket. cbn [gbind fst snd].
       eexists g, _, _. split; [reflexivity|]. split; [exact Habs | discriminate]. }
  rewrite ?go_SHasKey_eq. cbn [gbind].
  destruct (s_haskey (to_smap (GoSet.Set_M s2)) k2); cbn [negb andb].
  2: { unfold go_ErrNotFoundKeyInBucket. cbn [gbind fst snd].
       eexists g, _, _. split; [reflexivity|]. split; [exact Habs | discriminate]. }
  destruct (go_Tx_sMove_eq now g w t b1 k1 b2 k2 x Habs Hnow Hb1 Hk1 Hb2 Hk2 Hx) as (g' & ok & e & Hgo & Habs' & Hres).
  rewrite Hgo. cbn [gbind]. exists g', ok, e. split; [reflexivity|]. split; assumption.
Qed.

(* ====================================================================== *)
(** * The sample statement of [go_Tx_LRem_eq] was too weak                 *)
(* ====================================================================== *)

(** The sample statement assumed [arg_ok v] only.  The record Tx.LRem logs
    carries the value [count ++ "|" ++ v], two or more bytes longer than [v]:
    for a [v] of 2^32-1 bytes the uint32 size field Tx.put fills in wraps
    around, so the new transaction object does not satisfy [entry_sized], hence
    not [tx_abs].  Concrete instance: bucket "b" holding the empty list "k",
    count 0 (the list [v] itself is kept abstract: 2^32-1 cons cells). *)
Definition cx_b : bytes := [x62].
Definition cx_k : bytes := [x6b].
Definition cx_node : go_Node := mk_go_Node [] false 0 0.
Definition cx_tree : go_BPTree := mk_go_BPTree cx_node true 0 [] [] 0 [] 0 [] false.
Definition cx_db : go_DB :=
  mk_go_DB (mk_go_Options [] 0 0 0 0 false 0) [] [] [] [] []
           [(cx_b, GoList.mk_go_List [(cx_k, [])])]
           (mk_go_DataFile [] 0 0 0) true cx_tree true cx_tree true 0 0 false false.
Definition cx_g : go_Tx := mk_go_Tx 1 cx_db false true [] false.
Definition cx_w : world :=
  mkW (mkOpts 0 FileIO FileIO false 0) false [] 0 0 0 (mkIx [] [(cx_b, [(cx_k, [])])] [] []) [] TxNone.
Definition cx_t : txstate := mkTx 1 true [].

Lemma cx_abs : tx_abs cx_g cx_w cx_t.
Proof.
  unfold tx_abs.
  split; [reflexivity|]. split; [reflexivity|]. split; [reflexivity|]. split; [reflexivity|].
  split; [reflexivity|]. split; [constructor|]. split; [reflexivity|]. split; [reflexivity|].
  split.
  - intros b l [H|[]]. inversion H. subst b l. intros k0 l0 Hl. cbn [GoList.List_Items alookup] in Hl.
    destruct (bytes_eqb cx_k k0); [|discriminate]. inversion Hl. reflexivity.
  - intros b s [].
Qed.

(** what the Go code computes on this instance *)
Definition cx_g' (v : bytes) : go_Tx :=
  set_Tx_pendingWrites cx_g
    [mk_go_Entry cx_k (x30 :: x7c :: v)
       (mk_go_MetaData (wrapU 32 (zlen cx_k)) (wrapU 32 (zlen (x30 :: x7c :: v))) (wrapU 64 0) 0 4 cx_b
                       (wrapU 32 (zlen cx_b)) 1 0 3) 0 0].

Lemma cx_run v : go_Tx_LRem 0 cx_g cx_b cx_k 0 v = GOk (cx_g' v, (0, ENil)).
Proof. reflexivity. Qed.

Theorem go_Tx_LRem_sample_false v :
  zlen v = 2 ^ 32 - 1 ->
  tx_abs cx_g cx_w cx_t /\ now_ok 0 /\ arg_ok cx_b /\ arg_ok cx_k /\ arg_ok v /\ int_ok 0 /\
  ~ (exists g' n e,
       go_Tx_LRem 0 cx_g cx_b cx_k 0 v = GOk (g', (n, e)) /\
       tx_abs g' cx_w (snd (fst (do_op (Z.to_N 0) cx_w cx_t (OLRem cx_b cx_k 0 v)))) /\
       match snd (do_op (Z.to_N 0) cx_w cx_t (OLRem cx_b cx_k 0 v)) with
       | RInt z => e = ENil /\ n = z
       | RErr => e <> ENil
       | _ => False
       end).
Proof.
  intros Hv.
  split; [exact cx_abs|]. split; [unfold now_ok; change (2 ^ 63) with 9223372036854775808; lia|].
  split; [reflexivity|]. split; [reflexivity|].
  split; [unfold arg_ok; rewrite Hv; lia|]. split; [apply int_ok_intro; lia|].
  intros (g' & n & e & Hgo & Habs' & _).
  rewrite cx_run in Hgo. inversion Hgo as [[Hg' Hn He]]. subst g'.
  destruct Habs' as (_ & _ & _ & _ & _ & Hsized & _).
  unfold cx_g', set_Tx_pendingWrites in Hsized. cbn [Tx_pendingWrites] in Hsized.
  inversion Hsized as [|e0 l0 (_ & Hval & _) _]. subst e0 l0.
  cbn [Entry_Meta Entry_Value MetaData_valueSize] in Hval.
  rewrite !zlen_cons, Hv in Hval. vm_compute in Hval. discriminate.
Qed.

(* ====================================================================== *)
(** * Assumptions: every theorem is closed under the global context        *)
(* ====================================================================== *)
Print Assumptions go_Tx_checkTxIsClosed_eq.
Print Assumptions go_Tx_checkTxIsClosed_closed.
Print Assumptions go_Tx_put_eq.
Print Assumptions go_Tx_push_eq.
Print Assumptions go_Tx_sPut_eq.
Print Assumptions go_Tx_PutWithTimestamp_eq.
Print Assumptions go_Tx_Put_eq.
Print Assumptions go_Tx_Delete_eq.
Print Assumptions go_Tx_RPeek_eq.
Print Assumptions go_Tx_LPeek_eq.
Print Assumptions go_Tx_LSize_eq.
Print Assumptions go_Tx_LRange_eq.
Print Assumptions go_Tx_RPush_eq.
Print Assumptions go_Tx_LPush_eq.
Print Assumptions go_Tx_RPop_eq.
Print Assumptions go_Tx_LPop_eq.
Print Assumptions go_Tx_LRem_eq.
Print Assumptions go_Tx_LSet_eq.
Print Assumptions go_Tx_LTrim_eq.
Print Assumptions go_Tx_SAdd_eq.
Print Assumptions go_Tx_SRem_eq.
Print Assumptions go_Tx_SAreMembers_eq.
Print Assumptions go_Tx_SIsMember_eq.
Print Assumptions go_Tx_SMembers_eq.
Print Assumptions go_Tx_SHasKey_eq.
Print Assumptions go_Tx_SCard_eq.
Print Assumptions go_Tx_SDiffByOneBucket_eq.
Print Assumptions go_Tx_SUnionByOneBucket_eq.
Print Assumptions go_Tx_SDiffByTwoBuckets_eq.
Print Assumptions go_Tx_SUnionByTwoBuckets_eq.
Print Assumptions go_Tx_SPop_eq.
Print Assumptions go_Tx_sMove_eq.
Print Assumptions go_Tx_SMoveByOneBucket_eq.
Print Assumptions go_Tx_SMoveByTwoBuckets_eq.
Print Assumptions go_Tx_LRem_sample_false.
