module veriftr

go 1.23
