// veriftr: a translator from a subset of Go to Gallina (shallow embedding over
// /verif/coq/gosem/GoSem.v).
//
//	veriftr -dir <package dir> -out <file.v> [-only Type.Method,func,...] [-skipfiles a.go,b.go]
//
// Every function of the package whose body stays inside the accepted subset is
// emitted as a Gallina definition `go_<Recv>_<Name>`; the others are listed in a
// comment with the construct that stopped the translation.  The meaning of the
// emitted combinators is defined in GoSem.v and nowhere else.
package main

import (
	"encoding/json"
	"flag"
	"fmt"
	"go/ast"
	"go/constant"
	"go/importer"
	"go/parser"
	"go/token"
	"go/types"
	"os"
	"regexp"
	"sort"
	"strings"
)

type unsupported struct{ msg string }

var zeroTypeName = regexp.MustCompile(`(^|[^.\w])go_`)

func fail(format string, a ...interface{}) { panic(unsupported{fmt.Sprintf(format, a...)}) }

type fnInfo struct {
	decl       *ast.FuncDecl
	obj        *types.Func
	name       string
	key        string // Recv.Name or Name
	recvPtr    bool
	recvName   string // Go struct name
	needsFuel  bool
	needsOrc   bool
	needsNow   bool
	needsMord  bool
	outParams  []int // indices of the parameters written through (returned as extra results)
	mutRecv    bool  // the function stores through its pointer receiver
	text       string
	skipped    string
	done       bool
	inProgress bool
}

// extFunc / extStruct / extPkg: what a translated package exports (read from its sidecar JSON)
type extFunc struct {
	MutRecv   bool
	Name      string
	NeedsFuel bool
	NeedsOrc  bool
	NeedsNow  bool
	NeedsMord bool
	RecvPtr   bool
	OutParams []int
}

type extStruct struct {
	Zero   string
	Fields []string
}

type extPkg struct {
	Module  string
	Structs map[string]extStruct
	Funcs   map[string]extFunc
}

type tr struct {
	ext     map[string]*extPkg // import path -> translated package
	nilable map[string]bool    // "Struct.field": pointer fields compared with or assigned nil somewhere in the package
	fset    *token.FileSet
	info    *types.Info
	pkg     *types.Package
	funcs   map[*types.Func]*fnInfo
	order   []*fnInfo
	structs map[string]*structInfo // the package's struct types
	sorder  []string               // structs in dependency order
	marking bool
	orcSite int
	only    map[string]bool
}

// ---------- types ----------

// A struct is translated to a record of those of its fields whose types are
// translatable (the others are left out; touching one stops the translation of
// the function that does).
type structInfo struct {
	name   string
	st     *types.Struct
	fields []int
	state  int
	used   bool
}

func (t *tr) ensureStruct(name string) *structInfo {
	si := t.structs[name]
	if si == nil {
		fail("unknown struct %s", name)
	}
	if si.state == 1 {
		fail("recursive struct %s", name)
	}
	if si.state == 0 {
		si.state = 1
		for i := 0; i < si.st.NumFields(); i++ {
			if si.st.Field(i).Embedded() {
				continue
			}
			ok := func() (ok bool) {
				defer func() {
					if r := recover(); r != nil {
						if _, u := r.(unsupported); !u {
							panic(r)
						}
						ok = false
					}
				}()
				t.gtype(si.st.Field(i).Type())
				return true
			}()
			if ok {
				si.fields = append(si.fields, i)
			}
		}
		si.state = 2
		t.sorder = append(t.sorder, name)
	}
	if t.marking && !si.used {
		si.used = true
		for _, i := range si.fields {
			t.gtype(si.st.Field(i).Type())
		}
	}
	return si
}

func (t *tr) isNilable(sn, field string) bool { return t.nilable[sn+"."+field] }

// nilableSel: e is x.f where f is a pointer field that the package compares with / sets to nil;
// such a field is translated to a value field plus a boolean field <S>_<f>_isnil
func (f *fctx) nilableSel(e ast.Expr) (string, string, ast.Expr, bool) {
	x, ok := ast.Unparen(e).(*ast.SelectorExpr)
	if !ok {
		return "", "", nil, false
	}
	sel, ok := f.t.info.Selections[x]
	if !ok || sel.Kind() != types.FieldVal || len(sel.Index()) != 1 {
		return "", "", nil, false
	}
	sn := f.t.structName(sel.Recv())
	if sn == "" || !f.t.isNilable(sn, x.Sel.Name) {
		return "", "", nil, false
	}
	return sn, x.Sel.Name, x.X, true
}

// derefGuard: evaluating e.g or calling a method on e where e is a nilable pointer field panics when it is nil
func (f *fctx) derefGuard(e ast.Expr) {
	if sn, fld, base, ok := f.nilableSel(e); ok {
		f.pre = append(f.pre, fmt.Sprintf("_ <- gnonnil (%s_%s_isnil %s) ;;\n", sn, fld, f.expr(base)))
	}
}

func (t *tr) hasField(sn, field string) bool {
	si := t.ensureStruct(sn)
	for _, i := range si.fields {
		if si.st.Field(i).Name() == field {
			return true
		}
	}
	return false
}

func (t *tr) isErr(ty types.Type) bool {
	n, ok := ty.(*types.Named)
	return ok && n.Obj().Pkg() == nil && n.Obj().Name() == "error"
}

func isByte(ty types.Type) bool {
	b, ok := ty.Underlying().(*types.Basic)
	return ok && (b.Kind() == types.Uint8)
}

func isInt(ty types.Type) bool {
	b, ok := ty.Underlying().(*types.Basic)
	return ok && b.Info()&types.IsInteger != 0
}

func isString(ty types.Type) bool {
	b, ok := ty.Underlying().(*types.Basic)
	return ok && b.Info()&types.IsString != 0
}

func isBool(ty types.Type) bool {
	b, ok := ty.Underlying().(*types.Basic)
	return ok && b.Info()&types.IsBoolean != 0
}

func isBytesLike(ty types.Type) bool {
	if isString(ty) {
		return true
	}
	s, ok := ty.Underlying().(*types.Slice)
	return ok && isByte(s.Elem())
}

func (t *tr) structName(ty types.Type) string {
	if p, ok := ty.(*types.Pointer); ok {
		ty = p.Elem()
	}
	n, ok := ty.(*types.Named)
	if !ok || n.Obj().Pkg() != t.pkg {
		return ""
	}
	if _, ok := n.Underlying().(*types.Struct); !ok {
		return ""
	}
	return n.Obj().Name()
}

// extStructOf: a struct type of an imported, translated package
func (t *tr) extStructOf(ty types.Type) (*extPkg, string) {
	if p, ok := ty.(*types.Pointer); ok {
		ty = p.Elem()
	}
	n, ok := ty.(*types.Named)
	if !ok || n.Obj().Pkg() == nil || n.Obj().Pkg() == t.pkg {
		return nil, ""
	}
	ep := t.ext[n.Obj().Pkg().Path()]
	if ep == nil {
		return nil, ""
	}
	if _, ok := ep.Structs[n.Obj().Name()]; !ok {
		return nil, ""
	}
	return ep, n.Obj().Name()
}

// *regexp.Regexp: translated to an optional matcher (None = nil pointer); the regular-expression engine itself is
// not translated, a compiled expression is an arbitrary predicate on byte strings
func isRegexp(ty types.Type) bool {
	if p, ok := ty.(*types.Pointer); ok {
		ty = p.Elem()
	}
	n, ok := ty.(*types.Named)
	return ok && n.Obj().Pkg() != nil && n.Obj().Pkg().Path() == "regexp" && n.Obj().Name() == "Regexp"
}

func isBytesBuffer(ty types.Type) bool {
	n, ok := ty.(*types.Named)
	return ok && n.Obj().Pkg() != nil && n.Obj().Pkg().Path() == "bytes" && n.Obj().Name() == "Buffer"
}

func (t *tr) gtype(ty types.Type) string {
	if t.isErr(ty) {
		return "gerr"
	}
	if isBytesBuffer(ty) {
		return "bytes"
	}
	if isRegexp(ty) {
		return "(option (bytes -> bool))"
	}
	if ep, n := t.extStructOf(ty); ep != nil {
		return ep.Module + ".go_" + n
	}
	if s := t.structName(ty); s != "" {
		t.ensureStruct(s)
		return "go_" + s
	}
	switch u := ty.Underlying().(type) {
	case *types.Basic:
		switch {
		case u.Info()&types.IsInteger != 0:
			return "Z"
		case u.Info()&types.IsBoolean != 0:
			return "bool"
		case u.Info()&types.IsString != 0:
			return "bytes"
		}
	case *types.Slice:
		if isByte(u.Elem()) {
			return "bytes"
		}
		return "list (" + t.gtype(u.Elem()) + ")"
	case *types.Map:
		if !isString(u.Key()) {
			fail("map key type %s", u.Key())
		}
		return "list (bytes * (" + t.gtype(u.Elem()) + "))"
	case *types.Struct:
		if u.NumFields() == 0 {
			return "unit"
		}
	}
	fail("type %s", ty)
	return ""
}

func (t *tr) zero(ty types.Type) string {
	if t.isErr(ty) {
		return "ENil"
	}
	if isBytesBuffer(ty) {
		return "([] : bytes)"
	}
	if isRegexp(ty) {
		return "(None : option (bytes -> bool))"
	}
	if ep, n := t.extStructOf(ty); ep != nil {
		return ep.Structs[n].Zero
	}
	if s := t.structName(ty); s != "" {
		si := t.ensureStruct(s)
		parts := []string{"mk_go_" + s}
		for _, i := range si.fields {
			parts = append(parts, t.zero(si.st.Field(i).Type()))
			if t.isNilable(s, si.st.Field(i).Name()) {
				parts = append(parts, "true")
			}
		}
		return "(" + strings.Join(parts, " ") + ")"
	}
	switch u := ty.Underlying().(type) {
	case *types.Basic:
		switch {
		case u.Info()&types.IsInteger != 0:
			return "0"
		case u.Info()&types.IsBoolean != 0:
			return "false"
		case u.Info()&types.IsString != 0:
			return "([] : bytes)"
		}
	case *types.Slice:
		return "([] : " + t.gtype(ty) + ")"
	case *types.Map:
		return "([] : " + t.gtype(ty) + ")"
	case *types.Struct:
		if u.NumFields() == 0 {
			return "tt"
		}
	}
	fail("zero value of %s", ty)
	return ""
}

// wrap function for an integer type
func wrapOf(ty types.Type) string {
	b := ty.Underlying().(*types.Basic)
	switch b.Kind() {
	case types.Int, types.Int64, types.UntypedInt:
		return "wrapS 64"
	case types.Int32, types.UntypedRune:
		return "wrapS 32"
	case types.Int16:
		return "wrapS 16"
	case types.Int8:
		return "wrapS 8"
	case types.Uint, types.Uint64, types.Uintptr:
		return "wrapU 64"
	case types.Uint32:
		return "wrapU 32"
	case types.Uint16:
		return "wrapU 16"
	case types.Uint8:
		return "wrapU 8"
	}
	fail("integer type %s", ty)
	return ""
}

func isInt64(ty types.Type) bool { return wrapOf(ty) == "wrapS 64" }

// ---------- per-function context ----------

type ctx struct {
	fall   func() string
	ret    func(vals string) string // vals: the results tuple
	retRaw func(rv string) string   // rv: a value of the function's result type
	brk    func() string
	cont   func() string
}

type fctx struct {
	t       *tr
	fn      *fnInfo
	names   map[types.Object]string
	used    map[string]int
	pre     []string
	tmp     int
	recvObj types.Object
	results []types.Object // named or synthesized result variables (nil entries when unnamed)
	sig     *types.Signature
	indent  int
	expect  types.Type // type expected of an untyped nil
	aliases map[*types.Var]*aliasInfo
	taint   bool                // the alias table changed inside a conditional branch or loop body
	outs    map[*types.Var]bool // parameters written through (known from the first pass)
	found   map[*types.Var]bool // parameters found to be written through in this pass
	reass   map[*types.Var]bool // variables re-assigned as a whole
	recvMut bool                // a store through the receiver happened
	untr    map[*types.Var]bool // reference-typed locals holding a value that may share storage with something else
}

// aliasInfo: variable x was defined as base[lo:hi] (or as base itself when whole):
// a write through x is a write into base and vice versa
type aliasInfo struct {
	base   *types.Var
	whole  bool
	lo, hi string
}

func isRefType(ty types.Type) bool {
	switch ty.Underlying().(type) {
	case *types.Slice, *types.Map, *types.Pointer:
		return true
	}
	return false
}

func (f *fctx) varOf(id *ast.Ident) *types.Var {
	o := f.t.info.Defs[id]
	if o == nil {
		o = f.t.info.Uses[id]
	}
	v, _ := o.(*types.Var)
	return v
}

func (f *fctx) isParam(v *types.Var) bool {
	for i := 0; i < f.sig.Params().Len(); i++ {
		if f.sig.Params().At(i) == v {
			return true
		}
	}
	return false
}

// refresh re-derives every alias of base after base's content changed
func (f *fctx) refresh(base *types.Var, skip *types.Var) string {
	out := ""
	var as []*types.Var
	for a, ai := range f.aliases {
		if ai.base == base && a != skip {
			as = append(as, a)
		}
	}
	sort.Slice(as, func(i, j int) bool { return f.name(as[i]) < f.name(as[j]) })
	for _, a := range as {
		ai := f.aliases[a]
		if ai.whole {
			out += fmt.Sprintf("let %s := %s in\n", f.name(a), f.name(base))
		} else {
			tn := f.fresh("t")
			out += fmt.Sprintf("%s <- gslice %s %s %s ;;\n", tn, f.name(base), ai.lo, ai.hi)
			out += fmt.Sprintf("let %s := %s in\n", f.name(a), tn)
		}
		out += f.refresh(a, nil)
	}
	return out
}

// storeVar assigns val to variable v; wt says that this is a mutation of the
// object v refers to (element / field / range store) rather than a re-assignment
func (f *fctx) storeVar(v *types.Var, val string, wt bool) string {
	if !wt || !isRefType(v.Type()) {
		if isRefType(v.Type()) {
			f.reass[v] = true
			delete(f.aliases, v)
			for a, ai := range f.aliases {
				if ai.base == v {
					delete(f.aliases, a)
				}
			}
		}
		return fmt.Sprintf("let %s := %s in\n", f.name(v), val)
	}
	if f.taint {
		fail("store through %s after aliasing that depends on control flow", v.Name())
	}
	if v == f.recvObj && !f.fn.recvPtr {
		fail("store through the value receiver %s", v.Name())
	}
	if v == f.recvObj {
		f.recvMut = true
	}
	if f.untr[v] && f.aliases[v] == nil {
		fail("store through %s, which may share storage with another value (untracked alias)", v.Name())
	}
	if f.isParam(v) {
		if _, isPtr := v.Type().(*types.Pointer); isPtr {
			fail("pointer parameter %s is written through", v.Name())
		}
		f.found[v] = true
	}
	if ai := f.aliases[v]; ai != nil {
		out := fmt.Sprintf("let %s := %s in\n", f.name(v), val)
		if ai.whole {
			return out + f.storeVar(ai.base, val, true)
		}
		tn := f.fresh("t")
		out += fmt.Sprintf("%s <- gsplice %s %s %s %s ;;\n", tn, f.name(ai.base), ai.lo, ai.hi, val)
		return out + f.storeVar(ai.base, tn, true)
	}
	return fmt.Sprintf("let %s := %s in\n", f.name(v), val) + f.refresh(v, nil)
}

// scoped runs a translation of a conditional part and notes whether it changed the alias table
func (f *fctx) scoped(body func() string) string {
	before := map[*types.Var]aliasInfo{}
	for a, ai := range f.aliases {
		before[a] = *ai
	}
	out := body()
	same := len(before) == len(f.aliases)
	for a, ai := range f.aliases {
		if b, ok := before[a]; !ok || b != *ai {
			same = false
		}
	}
	if !same {
		f.taint = true
	}
	return out
}

// exprT translates e where a value of type ty is expected (gives untyped nil its type)
func (f *fctx) exprT(e ast.Expr, ty types.Type) string {
	save := f.expect
	f.expect = ty
	defer func() { f.expect = save }()
	return f.expr(e)
}

func (f *fctx) nilValue(x ast.Expr) string {
	ty := f.typeOf(x)
	if b, ok := ty.(*types.Basic); ok && b.Kind() == types.UntypedNil {
		if f.expect == nil {
			fail("untyped nil without an expected type")
		}
		ty = f.expect
	}
	return f.t.zero(ty)
}

func (f *fctx) name(o types.Object) string {
	if n, ok := f.names[o]; ok {
		return n
	}
	base := "v_" + o.Name()
	n := base
	if c := f.used[base]; c > 0 {
		n = fmt.Sprintf("%s_%d", base, c)
	}
	f.used[base]++
	f.names[o] = n
	return n
}

func (f *fctx) fresh(p string) string {
	f.tmp++
	return fmt.Sprintf("%s%d", p, f.tmp)
}

func (f *fctx) typeOf(e ast.Expr) types.Type {
	ty := f.t.info.TypeOf(e)
	if ty == nil {
		fail("no type for expression at %s", f.t.fset.Position(e.Pos()))
	}
	return ty
}

func (f *fctx) takePre() string {
	s := strings.Join(f.pre, "")
	f.pre = nil
	return s
}

func tuple(xs []string) string {
	switch len(xs) {
	case 0:
		return "tt"
	case 1:
		return xs[0]
	}
	return "(" + strings.Join(xs, ", ") + ")"
}

// binder for `let <pat> := e in` / `fun <pat> =>`
func letPat(xs []string) string {
	switch len(xs) {
	case 0:
		return "_"
	case 1:
		return xs[0]
	}
	return "'(" + strings.Join(xs, ", ") + ")"
}

func coqString(s string) string {
	for _, c := range []byte(s) {
		if c < 32 || c > 126 {
			fail("non-printable string literal")
		}
	}
	return "\"" + strings.ReplaceAll(s, "\"", "\"\"") + "\"%string"
}

// ---------- expressions ----------

func (f *fctx) constVal(e ast.Expr) (string, bool) {
	tv, ok := f.t.info.Types[e]
	if !ok || tv.Value == nil {
		return "", false
	}
	switch tv.Value.Kind() {
	case constant.Int:
		s := tv.Value.ExactString()
		if strings.HasPrefix(s, "-") {
			return "(" + s + ")", true
		}
		return s, true
	case constant.Bool:
		if constant.BoolVal(tv.Value) {
			return "true", true
		}
		return "false", true
	case constant.String:
		return "(bs " + coqString(constant.StringVal(tv.Value)) + ")", true
	}
	return "", false
}

func (f *fctx) expr(e ast.Expr) string {
	if s, ok := f.constVal(e); ok {
		return s
	}
	switch x := e.(type) {
	case *ast.ParenExpr:
		return f.expr(x.X)
	case *ast.Ident:
		if x.Name == "nil" {
			return f.nilValue(x)
		}
		o := f.t.info.Uses[x]
		if o == nil {
			o = f.t.info.Defs[x]
		}
		switch o := o.(type) {
		case *types.Var:
			if o.Parent() == f.t.pkg.Scope() {
				if f.t.isErr(o.Type()) {
					return "(EVar " + coqString(o.Name()) + ")"
				}
				fail("package-level variable %s", o.Name())
			}
			return f.name(o)
		case *types.Nil:
			return f.nilValue(x)
		}
		fail("identifier %s", x.Name)
	case *ast.BasicLit:
		fail("literal %s", x.Value)
	case *ast.UnaryExpr:
		switch x.Op {
		case token.SUB:
			ty := f.typeOf(x)
			if !isInt(ty) {
				fail("unary - on %s", ty)
			}
			if isInt64(ty) {
				return "(ineg " + f.expr(x.X) + ")"
			}
			return "(" + wrapOf(ty) + " (- " + f.expr(x.X) + "))"
		case token.NOT:
			return "(negb " + f.expr(x.X) + ")"
		case token.ADD:
			return f.expr(x.X)
		case token.AND:
			if cl, ok := ast.Unparen(x.X).(*ast.CompositeLit); ok {
				return f.compositeLit(cl)
			}
		}
		fail("unary operator %s", x.Op)
	case *ast.BinaryExpr:
		return f.binary(x)
	case *ast.CompositeLit:
		return f.compositeLit(x)
	case *ast.CallExpr:
		rs := f.call(x, 1)
		return rs[0]
	case *ast.IndexExpr:
		bt := f.typeOf(x.X)
		switch u := bt.Underlying().(type) {
		case *types.Map:
			return "(lookup0 " + f.t.zero(u.Elem()) + " " + f.expr(x.X) + " " + f.expr(x.Index) + ")"
		case *types.Slice:
			b, i := f.expr(x.X), f.expr(x.Index)
			tn := f.fresh("t")
			f.pre = append(f.pre, fmt.Sprintf("%s <- gidx %s %s ;;\n", tn, b, i))
			if isByte(u.Elem()) {
				return "(Z.of_N (b2n " + tn + "))"
			}
			return tn
		}
		fail("index of %s", bt)
	case *ast.SliceExpr:
		bt := f.typeOf(x.X)
		if _, ok := bt.Underlying().(*types.Slice); !ok && !isString(bt) {
			fail("slice of %s", bt)
		}
		b := f.expr(x.X)
		lo, hi := "0", "(zlen "+b+")"
		if x.Low != nil {
			lo = f.expr(x.Low)
		}
		if x.High != nil {
			hi = f.expr(x.High)
		}
		tn := f.fresh("t")
		if x.Slice3 {
			f.pre = append(f.pre, fmt.Sprintf("%s <- gslice3 %s %s %s %s ;;\n", tn, b, lo, hi, f.expr(x.Max)))
		} else {
			f.pre = append(f.pre, fmt.Sprintf("%s <- gslice %s %s %s ;;\n", tn, b, lo, hi))
		}
		return tn
	case *ast.SelectorExpr:
		// field access on a struct value / pointer
		if sel, ok := f.t.info.Selections[x]; ok && sel.Kind() == types.FieldVal {
			f.derefGuard(x.X)
			if ep, en := f.t.extStructOf(sel.Recv()); ep != nil {
				for _, fl := range ep.Structs[en].Fields {
					if fl == x.Sel.Name {
						return "(" + ep.Module + "." + en + "_" + fl + " " + f.expr(x.X) + ")"
					}
				}
				fail("field %s.%s of an imported struct is not translated", en, x.Sel.Name)
			}
			sn := f.t.structName(sel.Recv())
			if sn == "" {
				fail("field of %s", sel.Recv())
			}
			if len(sel.Index()) != 1 {
				fail("embedded field access")
			}
			if !f.t.hasField(sn, x.Sel.Name) {
				fail("field %s.%s has an untranslatable type", sn, x.Sel.Name)
			}
			return "(" + sn + "_" + x.Sel.Name + " " + f.expr(x.X) + ")"
		}
		// package-qualified identifier
		if o, ok := f.t.info.Uses[x.Sel].(*types.Var); ok && f.t.isErr(o.Type()) {
			return "(EVar " + coqString(o.Pkg().Name()+"."+o.Name()) + ")"
		}
		fail("selector %s", x.Sel.Name)
	case *ast.StarExpr:
		if f.t.structName(f.typeOf(x.X)) != "" {
			return f.expr(x.X)
		}
	}
	fail("expression %T at %s", e, f.t.fset.Position(e.Pos()))
	return ""
}

func (f *fctx) compositeLit(cl *ast.CompositeLit) string {
	ty := f.typeOf(cl)
	if sn := f.t.structName(ty); sn != "" {
		si := f.t.ensureStruct(sn)
		vals := map[string]string{}
		for _, el := range cl.Elts {
			kv, ok := el.(*ast.KeyValueExpr)
			if !ok {
				fail("positional struct literal")
			}
			k := kv.Key.(*ast.Ident).Name
			if !f.t.hasField(sn, k) {
				fail("field %s.%s has an untranslatable type", sn, k)
			}
			var fty types.Type
			for _, i := range si.fields {
				if si.st.Field(i).Name() == k {
					fty = si.st.Field(i).Type()
				}
			}
			if f.t.isNilable(sn, k) && f.isNil(kv.Value) {
				continue // an explicit nil is the zero value
			}
			if _, _, _, nl := f.nilableSel(kv.Value); nl {
				fail("a nilable pointer copied into a struct literal")
			}
			vals[k] = f.exprT(kv.Value, fty)
		}
		parts := []string{"mk_go_" + sn}
		for _, i := range si.fields {
			fl := si.st.Field(i)
			if v, ok := vals[fl.Name()]; ok {
				parts = append(parts, v)
				if f.t.isNilable(sn, fl.Name()) {
					parts = append(parts, "false")
				}
			} else {
				parts = append(parts, f.t.zero(fl.Type()))
				if f.t.isNilable(sn, fl.Name()) {
					parts = append(parts, "true")
				}
			}
		}
		return "(" + strings.Join(parts, " ") + ")"
	}
	switch u := ty.Underlying().(type) {
	case *types.Struct:
		if u.NumFields() == 0 {
			return "tt"
		}
	case *types.Slice:
		var el []string
		for _, e := range cl.Elts {
			if _, ok := e.(*ast.KeyValueExpr); ok {
				fail("keyed slice literal")
			}
			el = append(el, f.exprT(e, u.Elem()))
		}
		if isByte(u.Elem()) {
			if len(el) == 0 {
				return "([] : bytes)" // []byte{}: the empty byte string, as []byte("")
			}
			fail("byte slice literal")
		}
		return "([" + strings.Join(el, "; ") + "] : " + f.t.gtype(ty) + ")"
	}
	fail("composite literal of %s", ty)
	return ""
}

// sliceTarget splits a destination argument b[lo:hi] (or b) into the assignable base and its bounds
func (f *fctx) sliceTarget(dst ast.Expr) (ast.Expr, string, string, string) {
	if se, ok := ast.Unparen(dst).(*ast.SliceExpr); ok && !se.Slice3 {
		b := f.expr(se.X)
		lo, hi := "0", "(zlen "+b+")"
		if se.Low != nil {
			lo = f.expr(se.Low)
		}
		if se.High != nil {
			hi = f.expr(se.High)
		}
		return se.X, b, lo, hi
	}
	b := f.expr(dst)
	return dst, b, "0", "(zlen " + b + ")"
}

func (f *fctx) isNil(e ast.Expr) bool {
	id, ok := ast.Unparen(e).(*ast.Ident)
	if !ok || id.Name != "nil" {
		return false
	}
	_, isnil := f.t.info.Uses[id].(*types.Nil)
	return isnil
}

func (f *fctx) binary(x *ast.BinaryExpr) string {
	switch x.Op {
	case token.LAND, token.LOR:
		l := f.expr(x.X)
		save := f.pre
		f.pre = nil
		r := f.expr(x.Y)
		rpre := f.takePre()
		f.pre = save
		if rpre == "" {
			if x.Op == token.LAND {
				return "(" + l + " && " + r + ")"
			}
			return "(" + l + " || " + r + ")"
		}
		tn := f.fresh("t")
		if x.Op == token.LAND {
			f.pre = append(f.pre, fmt.Sprintf("%s <- (if %s then (%sGOk %s) else GOk false) ;;\n", tn, l, rpre, r))
		} else {
			f.pre = append(f.pre, fmt.Sprintf("%s <- (if %s then GOk true else (%sGOk %s)) ;;\n", tn, l, rpre, r))
		}
		return tn
	case token.EQL, token.NEQ:
		neg := func(s string) string {
			if x.Op == token.NEQ {
				return "(negb " + s + ")"
			}
			return s
		}
		a, b := x.X, x.Y
		if f.isNil(a) {
			a, b = b, a
		}
		if f.isNil(b) {
			ty := f.typeOf(a)
			if sn, fld, base, ok := f.nilableSel(a); ok {
				return neg("(" + sn + "_" + fld + "_isnil " + f.expr(base) + ")")
			}
			if f.t.isErr(ty) {
				return neg("(err_is_nil " + f.expr(a) + ")")
			}
			if isRegexp(ty) {
				return neg("(rx_is_nil " + f.expr(a) + ")")
			}
			if _, ok := ty.Underlying().(*types.Slice); ok {
				f.t.orcSite++
				f.fn.needsOrc = true
				return neg(fmt.Sprintf("(negb (slice_nonnil (orc %d) %s))", f.t.orcSite, f.expr(a)))
			}
			fail("comparison of %s with nil", ty)
		}
		ty := f.typeOf(a)
		switch {
		case isInt(ty):
			return neg("(" + f.expr(a) + " =? " + f.expr(b) + ")")
		case isString(ty):
			return neg("(bytes_eqb " + f.expr(a) + " " + f.expr(b) + ")")
		case isBool(ty):
			return neg("(Bool.eqb " + f.expr(a) + " " + f.expr(b) + ")")
		}
		fail("== on %s", ty)
	case token.LSS, token.LEQ, token.GTR, token.GEQ:
		ty := f.typeOf(x.X)
		if !isInt(ty) {
			fail("ordering on %s", ty)
		}
		a, b := f.expr(x.X), f.expr(x.Y)
		switch x.Op {
		case token.LSS:
			return "(" + a + " <? " + b + ")"
		case token.LEQ:
			return "(" + a + " <=? " + b + ")"
		case token.GTR:
			return "(" + b + " <? " + a + ")"
		default:
			return "(" + b + " <=? " + a + ")"
		}
	case token.ADD, token.SUB, token.MUL:
		ty := f.typeOf(x)
		if isString(ty) && x.Op == token.ADD {
			return "(" + f.expr(x.X) + " ++ " + f.expr(x.Y) + ")"
		}
		if !isInt(ty) {
			fail("arithmetic on %s", ty)
		}
		a, b := f.expr(x.X), f.expr(x.Y)
		op := map[token.Token]string{token.ADD: "+", token.SUB: "-", token.MUL: "*"}[x.Op]
		if isInt64(ty) {
			fn := map[token.Token]string{token.ADD: "iadd", token.SUB: "isub", token.MUL: "imul"}[x.Op]
			return "(" + fn + " " + a + " " + b + ")"
		}
		return "(" + wrapOf(ty) + " (" + a + " " + op + " " + b + "))"
	case token.QUO, token.REM:
		ty := f.typeOf(x)
		if !isInt(ty) {
			fail("division on %s", ty)
		}
		a, b := f.expr(x.X), f.expr(x.Y)
		if tv, ok := f.t.info.Types[x.Y]; ok && tv.Value != nil && tv.Value.Kind() == constant.Int && constant.Sign(tv.Value) != 0 {
			// a non-zero constant divisor cannot panic
			op := "Z.quot"
			if x.Op == token.REM {
				op = "Z.rem"
			}
			return "(" + wrapOf(ty) + " (" + op + " " + a + " " + b + "))"
		}
		fn := "gquot"
		if x.Op == token.REM {
			fn = "grem"
		}
		tn := f.fresh("t")
		f.pre = append(f.pre, fmt.Sprintf("%s <- %s (%s) %s %s ;;\n", tn, fn, wrapOf(ty), a, b))
		return tn
	}
	fail("binary operator %s", x.Op)
	return ""
}

// call translates a call expression and returns the Gallina expressions of its
// n results (binding them through f.pre when the callee is monadic).
func (f *fctx) call(x *ast.CallExpr, n int) []string {
	// conversions
	if tv, ok := f.t.info.Types[x.Fun]; ok && tv.IsType() {
		if len(x.Args) != 1 {
			fail("conversion arity")
		}
		to, from := tv.Type, f.typeOf(x.Args[0])
		a := f.expr(x.Args[0])
		switch {
		case isBytesLike(to) && isBytesLike(from):
			return []string{a}
		case isInt(to) && isInt(from):
			return []string{"(" + wrapOf(to) + " " + a + ")"}
		}
		fail("conversion %s -> %s", from, to)
	}
	switch fun := x.Fun.(type) {
	case *ast.Ident:
		if b, ok := f.t.info.Uses[fun].(*types.Builtin); ok {
			switch b.Name() {
			case "len":
				return []string{"(zlen " + f.expr(x.Args[0]) + ")"}
			case "append":
				s := f.expr(x.Args[0])
				if x.Ellipsis != token.NoPos {
					return []string{"(" + s + " ++ " + f.expr(x.Args[1]) + ")"}
				}
				var el []string
				for _, a := range x.Args[1:] {
					el = append(el, f.expr(a))
				}
				return []string{"(" + s + " ++ [" + strings.Join(el, "; ") + "])"}
			case "copy":
				base, b, lo, hi := f.sliceTarget(x.Args[0])
				src := f.expr(x.Args[1])
				tn := f.fresh("t")
				f.pre = append(f.pre, fmt.Sprintf("%s <- gcopy %s %s %s %s ;;\n", tn, b, lo, hi, src))
				f.pre = append(f.pre, f.setLHSw(base, tn, true))
				return []string{"(Z.min (" + hi + " - " + lo + ") (zlen " + src + "))"}
			case "make":
				ty := f.typeOf(x)
				switch u := ty.Underlying().(type) {
				case *types.Map:
					return []string{f.t.zero(ty)}
				case *types.Slice:
					if len(x.Args) < 2 {
						fail("make without length")
					}
					z := "x00"
					if !isByte(u.Elem()) {
						z = f.t.zero(u.Elem())
					}
					tn := f.fresh("t")
					f.pre = append(f.pre, fmt.Sprintf("%s <- gmake %s %s ;;\n", tn, z, f.expr(x.Args[1])))
					return []string{tn}
				}
			}
			fail("builtin %s", b.Name())
		}
		if fo, ok := f.t.info.Uses[fun].(*types.Func); ok {
			return f.callFunc(fo, nil, x, n)
		}
	case *ast.SelectorExpr:
		if fo, ok := f.t.info.Uses[fun.Sel].(*types.Func); ok {
			if fo.Pkg() != nil && fo.Pkg() != f.t.pkg {
				if ep := f.t.ext[fo.Pkg().Path()]; ep != nil {
					// a function or method of an imported, translated package
					key := fo.Name()
					if sig := fo.Type().(*types.Signature); sig.Recv() != nil {
						rt := sig.Recv().Type()
						if p, ok := rt.(*types.Pointer); ok {
							rt = p.Elem()
						}
						if n, ok := rt.(*types.Named); ok {
							key = n.Obj().Name() + "." + fo.Name()
						}
					}
					ef, ok := ep.Funcs[key]
					if !ok {
						fail("%s.%s is not translated", fo.Pkg().Name(), key)
					}
					ci := &fnInfo{obj: fo, name: ep.Module + "." + ef.Name, key: fo.Pkg().Name() + "." + key, recvPtr: ef.RecvPtr, mutRecv: ef.MutRecv,
						needsFuel: ef.NeedsFuel, needsOrc: ef.NeedsOrc, needsNow: ef.NeedsNow, needsMord: ef.NeedsMord,
						outParams: ef.OutParams, done: true}
					f.t.funcs[fo] = ci
					var recv ast.Expr
					if fo.Type().(*types.Signature).Recv() != nil {
						recv = fun.X
					}
					return f.callFunc(fo, recv, x, n)
				}
				// (*regexp.Regexp).Match on an optional matcher
				if sig := fo.Type().(*types.Signature); sig.Recv() != nil && fo.Pkg().Path() == "regexp" && isRegexp(sig.Recv().Type()) {
					if fo.Name() != "Match" {
						fail("regexp.Regexp.%s", fo.Name())
					}
					tn := f.fresh("t")
					f.pre = append(f.pre, fmt.Sprintf("%s <- grx_match %s %s ;;\n", tn, f.expr(fun.X), f.expr(x.Args[0])))
					return []string{tn}
				}
				// methods of a bytes.Buffer variable (translated to a byte string)
				if sig := fo.Type().(*types.Signature); sig.Recv() != nil && fo.Pkg().Path() == "bytes" {
					if p, ok := sig.Recv().Type().(*types.Pointer); ok && isBytesBuffer(p.Elem()) {
						cur := f.expr(fun.X)
						switch fo.Name() {
						case "Write", "WriteString":
							a := f.expr(x.Args[0])
							f.pre = append(f.pre, f.setLHSw(fun.X, "("+cur+" ++ "+a+")", false))
							return []string{"(zlen " + a + ")", "ENil"}[:max0(n, 2)]
						case "Bytes", "String":
							return []string{cur}
						case "Len":
							return []string{"(zlen " + cur + ")"}
						case "Reset":
							f.pre = append(f.pre, f.setLHSw(fun.X, "([] : bytes)", false))
							return nil
						}
						fail("bytes.Buffer.%s", fo.Name())
					}
				}
				switch fo.Pkg().Path() + "." + fo.Name() {
				case "github.com/xujiajun/utils/strconv2.IntToStr", "github.com/xujiajun/utils/strconv2.Int64ToStr", "strconv.Itoa":
					return []string{"(print_Z " + f.expr(x.Args[0]) + ")"}
				case "strings.Contains", "bytes.Contains":
					return []string{"(bytes_contains " + f.expr(x.Args[0]) + " " + f.expr(x.Args[1]) + ")"}
				case "bytes.Equal":
					return []string{"(bytes_eqb " + f.expr(x.Args[0]) + " " + f.expr(x.Args[1]) + ")"}
				case "bytes.Compare":
					return []string{"(bcmp_z " + f.expr(x.Args[0]) + " " + f.expr(x.Args[1]) + ")"}
				case "bytes.HasPrefix":
					return []string{"(has_prefix " + f.expr(x.Args[0]) + " " + f.expr(x.Args[1]) + ")"}
				case "sort.Strings":
					// in-place ascending sort of a []string variable (byte-wise order, as bytes.Compare)
					cur := f.expr(x.Args[0])
					f.pre = append(f.pre, f.setLHSw(x.Args[0], "(bsort "+cur+")", false))
					return nil
				case "bytes.TrimPrefix":
					return []string{"(trim_prefix " + f.expr(x.Args[0]) + " " + f.expr(x.Args[1]) + ")"}
				case "encoding/binary.PutUint16", "encoding/binary.PutUint32", "encoding/binary.PutUint64",
					"encoding/binary.Uint16", "encoding/binary.Uint32", "encoding/binary.Uint64":
					if bo, ok := fun.X.(*ast.SelectorExpr); !ok || bo.Sel.Name != "LittleEndian" {
						fail("byte order other than binary.LittleEndian")
					}
					w := map[string]string{"16": "2", "32": "4", "64": "8"}[fo.Name()[len(fo.Name())-2:]]
					if strings.HasPrefix(fo.Name(), "Put") {
						base, b, lo, hi := f.sliceTarget(x.Args[0])
						v := f.expr(x.Args[1])
						tn := f.fresh("t")
						f.pre = append(f.pre, fmt.Sprintf("%s <- gput %s %s %s %s (Z.to_N %s) ;;\n", tn, b, lo, hi, w, v))
						f.pre = append(f.pre, f.setLHSw(base, tn, true))
						return nil
					}
					tn := f.fresh("t")
					f.pre = append(f.pre, fmt.Sprintf("%s <- gle %s %s ;;\n", tn, w, f.expr(x.Args[0])))
					return []string{tn}
				case "hash/crc32.ChecksumIEEE":
					return []string{"(Z.of_N (crc32 " + f.expr(x.Args[0]) + "))"}
				case "hash/crc32.Update":
					if tb, ok := x.Args[1].(*ast.SelectorExpr); !ok || tb.Sel.Name != "IEEETable" {
						fail("crc32.Update with a table other than crc32.IEEETable")
					}
					return []string{"(Z.of_N (crc_update (Z.to_N " + f.expr(x.Args[0]) + ") " + f.expr(x.Args[2]) + "))"}
				case "time.Unix":
					if c2, ok := fun.X.(*ast.CallExpr); ok {
						if s2, ok := c2.Fun.(*ast.SelectorExpr); ok && s2.Sel.Name == "Now" {
							if id, ok := s2.X.(*ast.Ident); ok && id.Name == "time" {
								f.fn.needsNow = true
								return []string{"now"}
							}
						}
					}
					fail("time.Time.Unix of something other than time.Now()")
				case "errors.New":
					tv := f.t.info.Types[x.Args[0]]
					if tv.Value == nil || tv.Value.Kind() != constant.String {
						// a message computed at run time: only its being non-nil matters to the callers
						return []string{"(ENewB " + f.expr(x.Args[0]) + ")"}
					}
					return []string{"(ENew " + coqString(constant.StringVal(tv.Value)) + ")"}
				}
				fail("call of %s.%s", fo.Pkg().Path(), fo.Name())
			}
			return f.callFunc(fo, fun.X, x, n)
		}
	}
	fail("call at %s", f.t.fset.Position(x.Pos()))
	return nil
}

func max0(n, m int) int {
	if n < 0 {
		return 0
	}
	if n > m {
		return m
	}
	return n
}

func (f *fctx) callFunc(fo *types.Func, recv ast.Expr, x *ast.CallExpr, n int) []string {
	ci := f.t.funcs[fo]
	if ci == nil {
		fail("call of unknown function %s", fo.Name())
	}
	f.t.translate(ci)
	if ci.skipped != "" {
		fail("calls %s, which is not translated (%s)", ci.key, ci.skipped)
	}
	if ci.needsFuel {
		f.fn.needsFuel = true
	}
	if ci.needsOrc {
		f.fn.needsOrc = true
	}
	if ci.needsNow {
		f.fn.needsNow = true
	}
	if ci.needsMord {
		f.fn.needsMord = true
	}
	sig := fo.Type().(*types.Signature)
	args := []string{ci.name}
	if ci.needsFuel {
		args = append(args, "fuel")
	}
	if ci.needsOrc {
		args = append(args, "orc")
	}
	if ci.needsNow {
		args = append(args, "now")
	}
	if ci.needsMord {
		args = append(args, "mord")
	}
	var recvLHS ast.Expr
	recvPat := false
	if sig.Recv() != nil {
		if recv == nil {
			fail("method value")
		}
		f.derefGuard(recv)
		args = append(args, f.expr(recv))
		if ci.recvPtr {
			recvLHS = recv
		}
		recvPat = ci.recvPtr
	}
	if sig.Variadic() {
		np := sig.Params().Len()
		for i := 0; i < np-1; i++ {
			args = append(args, f.exprT(x.Args[i], sig.Params().At(i).Type()))
		}
		if x.Ellipsis != token.NoPos {
			args = append(args, f.exprT(x.Args[np-1], sig.Params().At(np-1).Type()))
		} else {
			et := sig.Params().At(np - 1).Type().(*types.Slice).Elem()
			var el []string
			for _, a := range x.Args[np-1:] {
				el = append(el, f.exprT(a, et))
			}
			args = append(args, "["+strings.Join(el, "; ")+"]")
		}
	} else {
		for i, a := range x.Args {
			args = append(args, f.exprT(a, sig.Params().At(i).Type()))
		}
	}
	nres := sig.Results().Len()
	if n >= 0 && n != nres {
		fail("call of %s in a context expecting %d values", ci.key, n)
	}
	var rs []string
	for i := 0; i < nres; i++ {
		rs = append(rs, f.fresh("r"))
	}
	pat := tuple(rs)
	if nres == 0 {
		pat = "_"
	}
	rn := ""
	if recvPat {
		rn = "_"
		if ci.mutRecv {
			rn = f.fresh("rcv")
		} else {
			recvLHS = nil // the callee does not store through its receiver: nothing to store back
		}
		pat = "(" + rn + ", " + pat + ")"
	}
	var outNames []string
	for range ci.outParams {
		outNames = append(outNames, f.fresh("o"))
	}
	if len(outNames) > 0 {
		pat = "(" + pat + ", " + tuple(outNames) + ")"
	}
	if strings.HasPrefix(pat, "(") {
		pat = "'" + pat
	}
	f.pre = append(f.pre, fmt.Sprintf("%s <- %s ;;\n", pat, strings.Join(args, " ")))
	if recvLHS != nil {
		f.pre = append(f.pre, f.setLHSw(recvLHS, rn, true))
	}
	// parameters the callee writes through: store the new content back into the argument
	for k, pi := range ci.outParams {
		if sig.Variadic() && pi >= sig.Params().Len()-1 && x.Ellipsis == token.NoPos {
			continue // the callee got a fresh slice of the variadic arguments
		}
		arg := ast.Unparen(x.Args[pi])
		switch a := arg.(type) {
		case *ast.SliceExpr:
			if a.Slice3 {
				fail("out-parameter passed as a 3-index slice")
			}
			base, b, lo, hi := f.sliceTarget(a)
			tn := f.fresh("t")
			f.pre = append(f.pre, fmt.Sprintf("%s <- gsplice %s %s %s %s ;;\n", tn, b, lo, hi, outNames[k]))
			f.pre = append(f.pre, f.setLHSw(base, tn, true))
		case *ast.Ident, *ast.SelectorExpr, *ast.IndexExpr:
			f.pre = append(f.pre, f.setLHSw(a, outNames[k], true))
		default:
			// a temporary (make, literal, call result): nobody else can see the store
		}
	}
	return rs
}

// setLHS returns the lines that store val into the assignable expression lhs.
func (f *fctx) setLHS(lhs ast.Expr, val string) string { return f.setLHSw(lhs, val, false) }

func (f *fctx) setLHSw(lhs ast.Expr, val string, wt bool) string {
	switch x := lhs.(type) {
	case *ast.ParenExpr:
		return f.setLHSw(x.X, val, wt)
	case *ast.Ident:
		if x.Name == "_" {
			return ""
		}
		v := f.varOf(x)
		if v == nil || v.Parent() == f.t.pkg.Scope() {
			fail("assignment to %s", x.Name)
		}
		return f.storeVar(v, val, wt)
	case *ast.IndexExpr:
		bt := f.typeOf(x.X)
		switch bt.Underlying().(type) {
		case *types.Map:
			inner := f.expr(x.X)
			if ix, ok := ast.Unparen(x.X).(*ast.IndexExpr); ok {
				if _, om := f.typeOf(ix.X).Underlying().(*types.Map); om {
					// m[a][b] = v: m[a] is a nil map when a is missing, and a store into a nil map panics
					tn := f.fresh("t")
					f.pre = append(f.pre, fmt.Sprintf("%s <- gmapget %s %s ;;\n", tn, f.expr(ix.X), f.expr(ix.Index)))
					inner = tn
				}
			}
			nv := "(aset " + inner + " " + f.expr(x.Index) + " " + val + ")"
			pre := f.takePre()
			return pre + f.setLHSw(x.X, nv, true)
		case *types.Slice:
			b, i := f.expr(x.X), f.expr(x.Index)
			pre := f.takePre()
			tn := f.fresh("t")
			line := fmt.Sprintf("%s <- gupd %s %s %s ;;\n", tn, b, i, val)
			return pre + line + f.setLHSw(x.X, tn, true)
		}
		fail("assignment to an index of %s", bt)
	case *ast.SelectorExpr:
		if sel, ok := f.t.info.Selections[x]; ok && sel.Kind() == types.FieldVal && len(sel.Index()) == 1 {
			f.derefGuard(x.X)
			if ep, en := f.t.extStructOf(sel.Recv()); ep != nil {
				nv := "(" + ep.Module + ".set_" + en + "_" + x.Sel.Name + " " + f.expr(x.X) + " " + val + ")"
				pre := f.takePre()
				_, viaPtr := f.typeOf(x.X).(*types.Pointer)
				return pre + f.setLHSw(x.X, nv, wt || viaPtr)
			}
			sn := f.t.structName(sel.Recv())
			if sn == "" || !f.t.hasField(sn, x.Sel.Name) {
				fail("field of %s", sel.Recv())
			}
			nv := "(set_" + sn + "_" + x.Sel.Name + " " + f.expr(x.X) + " " + val + ")"
			pre := f.takePre()
			_, viaPtr := f.typeOf(x.X).(*types.Pointer)
			return pre + f.setLHSw(x.X, nv, wt || viaPtr)
		}
	case *ast.StarExpr:
		return f.setLHSw(x.X, val, true)
	}
	fail("assignment target %T", lhs)
	return ""
}

// ---------- statements ----------

func rootIdent(e ast.Expr) *ast.Ident {
	for {
		switch x := e.(type) {
		case *ast.ParenExpr:
			e = x.X
		case *ast.IndexExpr:
			e = x.X
		case *ast.SelectorExpr:
			e = x.X
		case *ast.StarExpr:
			e = x.X
		case *ast.Ident:
			return x
		default:
			return nil
		}
	}
}

// assignedOuter: the variables assigned in the statements but declared outside them, in first-assignment order
func (f *fctx) assignedOuter(lists ...[]ast.Stmt) []types.Object {
	declared := map[types.Object]bool{}
	var order []types.Object
	seen := map[types.Object]bool{}
	add := func(id *ast.Ident) {
		if id == nil || id.Name == "_" {
			return
		}
		o := f.t.info.Uses[id]
		if o == nil {
			return
		}
		if v, ok := o.(*types.Var); ok && v.Parent() != f.t.pkg.Scope() && !seen[o] {
			seen[o] = true
			order = append(order, o)
		}
	}
	for _, l := range lists {
		for _, s := range l {
			if s == nil {
				continue
			}
			ast.Inspect(s, func(n ast.Node) bool {
				switch x := n.(type) {
				case *ast.Ident:
					if o := f.t.info.Defs[x]; o != nil {
						declared[o] = true
					}
				case *ast.AssignStmt:
					for _, l := range x.Lhs {
						add(rootIdent(l))
					}
				case *ast.IncDecStmt:
					add(rootIdent(x.X))
				case *ast.RangeStmt:
					if x.Tok == token.ASSIGN {
						add(rootIdent(x.Key))
						if x.Value != nil {
							add(rootIdent(x.Value))
						}
					}
				case *ast.CallExpr:
					if sel, ok := x.Fun.(*ast.SelectorExpr); ok {
						if fo, ok := f.t.info.Uses[sel.Sel].(*types.Func); ok {
							if sig := fo.Type().(*types.Signature); sig.Recv() != nil {
								if _, ptr := sig.Recv().Type().(*types.Pointer); ptr {
									add(rootIdent(sel.X))
								}
							}
						}
					}
					if id, ok := x.Fun.(*ast.Ident); ok && (id.Name == "delete" || id.Name == "copy") && len(x.Args) == 2 {
						add(rootIdent(x.Args[0]))
					}
					// library calls that store through their first argument
					if sel, ok := x.Fun.(*ast.SelectorExpr); ok && len(x.Args) >= 1 {
						if fo, ok := f.t.info.Uses[sel.Sel].(*types.Func); ok && fo.Pkg() != nil {
							switch fo.Pkg().Path() + "." + fo.Name() {
							case "sort.Strings", "encoding/binary.PutUint16", "encoding/binary.PutUint32", "encoding/binary.PutUint64":
								add(rootIdent(x.Args[0]))
							}
						}
					}
				}
				return true
			})
		}
	}
	var out []types.Object
	for _, o := range order {
		if !declared[o] {
			out = append(out, o)
		}
	}
	return out
}

func (f *fctx) namesOf(os []types.Object) []string {
	var xs []string
	for _, o := range os {
		xs = append(xs, f.name(o))
	}
	return xs
}

func alwaysAbrupt(l []ast.Stmt) bool {
	if len(l) == 0 {
		return false
	}
	switch s := l[len(l)-1].(type) {
	case *ast.ReturnStmt:
		return true
	case *ast.BranchStmt:
		return s.Tok == token.BREAK || s.Tok == token.CONTINUE
	case *ast.BlockStmt:
		return alwaysAbrupt(s.List)
	case *ast.IfStmt:
		if s.Else == nil {
			return false
		}
		return alwaysAbrupt(s.Body.List) && alwaysAbrupt(elseList(s))
	}
	return false
}

func elseList(s *ast.IfStmt) []ast.Stmt {
	switch e := s.Else.(type) {
	case nil:
		return nil
	case *ast.BlockStmt:
		return e.List
	default:
		return []ast.Stmt{e}
	}
}

func hasAbrupt(l []ast.Stmt) bool {
	found := false
	var walk func(n ast.Node, inLoop bool)
	walk = func(n ast.Node, inLoop bool) {
		ast.Inspect(n, func(m ast.Node) bool {
			switch x := m.(type) {
			case *ast.ReturnStmt:
				found = true
			case *ast.BranchStmt:
				if !inLoop {
					found = true
				}
			case *ast.ForStmt:
				if m != n {
					walk2(x.Body, &found)
					return false
				}
			case *ast.RangeStmt:
				if m != n {
					walk2(x.Body, &found)
					return false
				}
			case *ast.FuncLit:
				return false
			}
			return true
		})
	}
	for _, s := range l {
		walk(s, false)
	}
	return found
}

// inside a nested loop only a return leaves the enclosing code
func walk2(n ast.Node, found *bool) {
	ast.Inspect(n, func(m ast.Node) bool {
		if _, ok := m.(*ast.ReturnStmt); ok {
			*found = true
		}
		if _, ok := m.(*ast.FuncLit); ok {
			return false
		}
		return true
	})
}

func (f *fctx) seq(stmts []ast.Stmt, c *ctx) string {
	if len(stmts) == 0 {
		return c.fall() + "\n"
	}
	s, rest := stmts[0], stmts[1:]
	switch s := s.(type) {
	case *ast.EmptyStmt:
		return f.seq(rest, c)
	case *ast.AssignStmt:
		return f.assign(s) + f.seq(rest, c)
	case *ast.IncDecStmt:
		ty := f.typeOf(s.X)
		op := "+"
		if s.Tok == token.DEC {
			op = "-"
		}
		cur := f.expr(s.X)
		var nv string
		if isInt64(ty) {
			nv = "(" + map[string]string{"+": "iadd", "-": "isub"}[op] + " " + cur + " 1)"
		} else {
			nv = "(" + wrapOf(ty) + " (" + cur + " " + op + " 1))"
		}
		pre := f.takePre()
		return pre + f.setLHS(s.X, nv) + f.seq(rest, c)
	case *ast.DeclStmt:
		gd, ok := s.Decl.(*ast.GenDecl)
		if !ok || gd.Tok != token.VAR {
			fail("declaration statement")
		}
		out := ""
		for _, sp := range gd.Specs {
			vs := sp.(*ast.ValueSpec)
			for i, id := range vs.Names {
				if id.Name == "_" {
					continue
				}
				o := f.t.info.Defs[id]
				var val string
				if i < len(vs.Values) {
					val = f.expr(vs.Values[i])
				} else if len(vs.Values) == 0 {
					val = f.t.zero(o.Type())
				} else {
					fail("var with a multi-valued initialiser")
				}
				out += f.takePre() + fmt.Sprintf("let %s := %s in\n", f.name(o), val)
			}
		}
		return out + f.seq(rest, c)
	case *ast.ExprStmt:
		call, ok := s.X.(*ast.CallExpr)
		if !ok {
			fail("expression statement")
		}
		if id, ok := call.Fun.(*ast.Ident); ok && id.Name == "delete" {
			if _, isb := f.t.info.Uses[id].(*types.Builtin); isb {
				nv := "(adel " + f.expr(call.Args[0]) + " " + f.expr(call.Args[1]) + ")"
				pre := f.takePre()
				return pre + f.setLHS(call.Args[0], nv) + f.seq(rest, c)
			}
		}
		f.call(call, -1)
		return f.takePre() + f.seq(rest, c)
	case *ast.ReturnStmt:
		return f.retStmt(s, c)
	case *ast.BranchStmt:
		if s.Label != nil {
			fail("labelled branch")
		}
		switch s.Tok {
		case token.BREAK:
			if c.brk == nil {
				fail("break outside a loop")
			}
			return c.brk() + "\n"
		case token.CONTINUE:
			if c.cont == nil {
				fail("continue outside a loop")
			}
			return c.cont() + "\n"
		}
		fail("branch statement %s", s.Tok)
	case *ast.BlockStmt:
		return f.seq(append(append([]ast.Stmt{}, s.List...), rest...), c)
	case *ast.IfStmt:
		return f.ifStmt(s, rest, c)
	case *ast.RangeStmt:
		return f.rangeStmt(s, rest, c)
	case *ast.ForStmt:
		return f.forStmt(s, rest, c)
	}
	fail("statement %T at %s", s, f.t.fset.Position(s.Pos()))
	return ""
}

func (f *fctx) assign(s *ast.AssignStmt) string {
	// op-assign
	if s.Tok != token.ASSIGN && s.Tok != token.DEFINE {
		opTok := map[token.Token]token.Token{token.ADD_ASSIGN: token.ADD, token.SUB_ASSIGN: token.SUB, token.MUL_ASSIGN: token.MUL,
			token.QUO_ASSIGN: token.QUO, token.REM_ASSIGN: token.REM}[s.Tok]
		if opTok == token.ILLEGAL || len(s.Lhs) != 1 {
			fail("assignment operator %s", s.Tok)
		}
		be := &ast.BinaryExpr{X: s.Lhs[0], Op: opTok, Y: s.Rhs[0]}
		f.t.info.Types[be] = types.TypeAndValue{Type: f.typeOf(s.Lhs[0])}
		v := f.binary(be)
		pre := f.takePre()
		return pre + f.setLHS(s.Lhs[0], v)
	}
	if len(s.Lhs) == len(s.Rhs) {
		if len(s.Lhs) == 1 {
			if sn, fld, base, ok := f.nilableSel(s.Lhs[0]); ok {
				// x.f = nil / x.f = <non-nil pointer>
				if f.isNil(s.Rhs[0]) {
					nv := "(set_" + sn + "_" + fld + "_isnil " + f.expr(base) + " true)"
					pre := f.takePre()
					_, viaPtr := f.typeOf(base).(*types.Pointer)
					return pre + f.setLHSw(base, nv, viaPtr)
				}
				if _, _, _, nl := f.nilableSel(s.Rhs[0]); nl {
					fail("a nilable pointer copied into a nilable field")
				}
				v := f.exprT(s.Rhs[0], f.t.info.TypeOf(s.Lhs[0]))
				nv := "(set_" + sn + "_" + fld + "_isnil (set_" + sn + "_" + fld + " " + f.expr(base) + " " + v + ") false)"
				pre := f.takePre()
				_, viaPtr := f.typeOf(base).(*types.Pointer)
				return pre + f.setLHSw(base, nv, viaPtr)
			}
			if out, ok := f.aliasAssign(s.Lhs[0], s.Rhs[0]); ok {
				return out
			}
			f.noteFreshness(s.Lhs[0], s.Rhs[0])
			v := f.exprT(s.Rhs[0], f.t.info.TypeOf(s.Lhs[0]))
			pre := f.takePre()
			return pre + f.setLHS(s.Lhs[0], v)
		}
		// parallel assignment: evaluate every right-hand side first
		out := ""
		var tmps []string
		for i, r := range s.Rhs {
			v := f.exprT(r, f.t.info.TypeOf(s.Lhs[i]))
			tn := f.fresh("t")
			out += f.takePre() + fmt.Sprintf("let %s := %s in\n", tn, v)
			tmps = append(tmps, tn)
		}
		for i, l := range s.Lhs {
			out += f.setLHS(l, tmps[i])
		}
		return out
	}
	if len(s.Rhs) != 1 {
		fail("assignment shape")
	}
	switch r := ast.Unparen(s.Rhs[0]).(type) {
	case *ast.CallExpr:
		rs := f.call(r, len(s.Lhs))
		out := f.takePre()
		for i, l := range s.Lhs {
			if id, ok := ast.Unparen(l).(*ast.Ident); ok && id.Name != "_" {
				if x := f.varOf(id); x != nil && isRefType(x.Type()) {
					f.untr[x] = true
				}
			}
			out += f.setLHS(l, rs[i])
		}
		return out
	case *ast.IndexExpr:
		if m, ok := f.typeOf(r.X).Underlying().(*types.Map); ok && len(s.Lhs) == 2 {
			mm, k := f.expr(r.X), f.expr(r.Index)
			out := f.takePre()
			out += f.setLHS(s.Lhs[0], "(lookup0 "+f.t.zero(m.Elem())+" "+mm+" "+k+")")
			out += f.setLHS(s.Lhs[1], "(has_key "+mm+" "+k+")")
			return out
		}
	}
	fail("multi-valued assignment")
	return ""
}

// aliasAssign handles x = y and x = y[lo:hi] for variables of reference type:
// x then shares y's backing store, which later stores through either must respect
func (f *fctx) aliasAssign(lhs, rhs ast.Expr) (string, bool) {
	lid, ok := ast.Unparen(lhs).(*ast.Ident)
	if !ok || lid.Name == "_" {
		return "", false
	}
	x := f.varOf(lid)
	if x == nil || x.Parent() == f.t.pkg.Scope() || !isRefType(x.Type()) {
		return "", false
	}
	switch r := ast.Unparen(rhs).(type) {
	case *ast.Ident:
		y := f.varOf(r)
		if y == nil || y.Parent() == f.t.pkg.Scope() || y == x {
			return "", false
		}
		out := f.storeVar(x, f.name(y), false)
		f.aliases[x] = &aliasInfo{base: y, whole: true}
		return out, true
	case *ast.SliceExpr:
		bid, ok := ast.Unparen(r.X).(*ast.Ident)
		if !ok || r.Slice3 {
			return "", false
		}
		y := f.varOf(bid)
		if y == nil || y.Parent() == f.t.pkg.Scope() || y == x {
			return "", false
		}
		if _, isSlice := y.Type().Underlying().(*types.Slice); !isSlice {
			return "", false
		}
		lo, hi := "0", "(zlen "+f.name(y)+")"
		if r.Low != nil {
			lo = f.expr(r.Low)
		}
		if r.High != nil {
			hi = f.expr(r.High)
		}
		out := f.takePre()
		ln, hn, tn := f.fresh("a"), f.fresh("a"), f.fresh("t")
		out += fmt.Sprintf("let %s := %s in\nlet %s := %s in\n%s <- gslice %s %s %s ;;\n", ln, lo, hn, hi, tn, f.name(y), ln, hn)
		out += f.storeVar(x, tn, false)
		f.aliases[x] = &aliasInfo{base: y, lo: ln, hi: hn}
		return out, true
	}
	return "", false
}

// noteFreshness: after x = rhs, may x share storage with another value?  Fresh: nil, make, a
// composite literal, append to a fresh value, and x = f(.., x, ..) when x was fresh (the callee returns its argument)
func (f *fctx) noteFreshness(lhs, rhs ast.Expr) {
	id, ok := ast.Unparen(lhs).(*ast.Ident)
	if !ok || id.Name == "_" {
		return
	}
	x := f.varOf(id)
	if x == nil || !isRefType(x.Type()) {
		return
	}
	fresh := false
	switch r := ast.Unparen(rhs).(type) {
	case *ast.CompositeLit:
		fresh = true
	case *ast.UnaryExpr:
		_, fresh = ast.Unparen(r.X).(*ast.CompositeLit)
	case *ast.Ident:
		fresh = r.Name == "nil"
	case *ast.CallExpr:
		if fid, ok := r.Fun.(*ast.Ident); ok && (fid.Name == "make" || fid.Name == "new") {
			fresh = true
		} else {
			for _, a := range r.Args {
				if aid, ok := ast.Unparen(a).(*ast.Ident); ok && f.varOf(aid) == x && !f.untr[x] {
					fresh = true
				}
			}
		}
	}
	f.untr[x] = !fresh
}

func (f *fctx) resultNames() []string {
	var xs []string
	for _, o := range f.results {
		xs = append(xs, f.name(o))
	}
	return xs
}

func (f *fctx) retStmt(s *ast.ReturnStmt, c *ctx) string {
	nres := f.sig.Results().Len()
	if len(s.Results) == 0 {
		if nres > 0 && f.results == nil {
			fail("bare return without named results")
		}
		return c.ret(tuple(f.resultNames())) + "\n"
	}
	if len(s.Results) == 1 && nres > 1 {
		call, ok := ast.Unparen(s.Results[0]).(*ast.CallExpr)
		if !ok {
			fail("return shape")
		}
		rs := f.call(call, nres)
		return f.takePre() + c.ret(tuple(rs)) + "\n"
	}
	var vs []string
	out := ""
	for i, r := range s.Results {
		v := f.exprT(r, f.sig.Results().At(i).Type())
		tn := f.fresh("t")
		out += f.takePre() + fmt.Sprintf("let %s := %s in\n", tn, v)
		vs = append(vs, tn)
	}
	return out + c.ret(tuple(vs)) + "\n"
}

func (f *fctx) ifStmt(s *ast.IfStmt, rest []ast.Stmt, c *ctx) string {
	if len(f.aliasDefs(s.Body.List, elseList(s))) > 0 {
		f.taint = true
	}
	out := ""
	if s.Init != nil {
		switch in := s.Init.(type) {
		case *ast.AssignStmt:
			out += f.assign(in)
		default:
			fail("if-initialiser %T", in)
		}
	}
	cond := f.expr(s.Cond)
	out += f.takePre()
	A, B := s.Body.List, elseList(s)
	if len(rest) == 0 {
		return out + "if " + cond + " then (\n" + f.seq(A, c) + ") else (\n" + f.seq(B, c) + ")\n"
	}
	if alwaysAbrupt(A) {
		return out + "if " + cond + " then (\n" + f.seq(A, c) + ") else (\n" + f.seq(append(append([]ast.Stmt{}, B...), rest...), c) + ")\n"
	}
	if len(B) > 0 && alwaysAbrupt(B) {
		return out + "if " + cond + " then (\n" + f.seq(append(append([]ast.Stmt{}, A...), rest...), c) + ") else (\n" + f.seq(B, c) + ")\n"
	}
	V := f.namesOf(f.assignedOuter(A, B))
	if !hasAbrupt(A) && !hasAbrupt(B) {
		c2 := &ctx{fall: func() string { return "GOk " + tuple(V) }}
		a, b := f.seq(A, c2), f.seq(B, c2)
		pat := letPat(V)
		if len(V) >= 2 {
			return out + pat + " <- (if " + cond + " then (\n" + a + ") else (\n" + b + ")) ;;\n" + f.seq(rest, c)
		}
		return out + pat + " <- (if " + cond + " then (\n" + a + ") else (\n" + b + ")) ;;\n" + f.seq(rest, c)
	}
	k := f.fresh("k")
	callK := func() string { return k + " " + tuple(V) }
	c2 := &ctx{fall: callK, ret: c.ret, retRaw: c.retRaw, brk: c.brk, cont: c.cont}
	kdef := "let " + k + " := fun " + funPat(V) + " => (\n" + f.seq(rest, c) + ") in\n"
	return out + kdef + "if " + cond + " then (\n" + f.seq(A, c2) + ") else (\n" + f.seq(B, c2) + ")\n"
}

func funPat(xs []string) string {
	switch len(xs) {
	case 0:
		return "(_ : unit)"
	case 1:
		return xs[0]
	}
	return "'(" + strings.Join(xs, ", ") + ")"
}

func unpack(st string, xs []string) string {
	switch len(xs) {
	case 0:
		return ""
	case 1:
		return "let " + xs[0] + " := " + st + " in\n"
	}
	return "let '(" + strings.Join(xs, ", ") + ") := " + st + " in\n"
}

func (f *fctx) loopTail(lo, st string, S []string, rest []ast.Stmt, c *ctx, hasRet bool) string {
	rr := "match rv with end"
	if hasRet {
		rr = c.retRaw("rv")
	}
	return "match " + lo + " with\n| inr rv => " + rr + "\n| inl " + st + " =>\n" + unpack(st, S) + f.seq(rest, c) + "end\n"
}

func bodyReturns(b *ast.BlockStmt) bool {
	found := false
	walk2(b, &found)
	return found
}

func rArg(hasRet bool) string {
	if hasRet {
		return ""
	}
	return "(R:=Empty_set) "
}

func (f *fctx) loopCtx(S []string, c *ctx) *ctx {
	return &ctx{
		fall:   func() string { return "GOk (LNext " + tuple(S) + ")" },
		cont:   func() string { return "GOk (LNext " + tuple(S) + ")" },
		brk:    func() string { return "GOk (LBreak " + tuple(S) + ")" },
		ret:    func(vals string) string { return "GOk (LRet " + f.resultValue(vals) + ")" },
		retRaw: func(rv string) string { return "GOk (LRet " + rv + ")" },
	}
}

// aliasDefs: variables declared outside the statements that are (re)assigned inside them
// from another reference variable or a slice of one
func (f *fctx) aliasDefs(lists ...[]ast.Stmt) []*types.Var {
	var out []*types.Var
	outer := map[types.Object]bool{}
	for _, o := range f.assignedOuter(lists...) {
		outer[o] = true
	}
	for _, l := range lists {
		for _, st := range l {
			if st == nil {
				continue
			}
			ast.Inspect(st, func(n ast.Node) bool {
				as, ok := n.(*ast.AssignStmt)
				if !ok || len(as.Lhs) != 1 || len(as.Rhs) != 1 {
					return true
				}
				id, ok := ast.Unparen(as.Lhs[0]).(*ast.Ident)
				if !ok {
					return true
				}
				v := f.varOf(id)
				if v == nil || !outer[v] || !isRefType(v.Type()) {
					return true
				}
				tracked := f.aliases[v] != nil
				for _, ai := range f.aliases {
					tracked = tracked || ai.base == v
				}
				switch r := ast.Unparen(as.Rhs[0]).(type) {
				case *ast.Ident:
					if y := f.varOf(r); y != nil && y.Parent() != f.t.pkg.Scope() {
						tracked = true
					}
				case *ast.SliceExpr:
					if _, ok := ast.Unparen(r.X).(*ast.Ident); ok && !r.Slice3 {
						tracked = true
					}
				}
				if tracked {
					out = append(out, v)
				}
				return true
			})
		}
	}
	return out
}

func (f *fctx) rangeStmt(s *ast.RangeStmt, rest []ast.Stmt, c *ctx) string {
	if len(f.aliasDefs(s.Body.List)) > 0 {
		f.taint = true
	}
	if s.Tok == token.ASSIGN {
		fail("range with assignment to existing variables")
	}
	xt := f.typeOf(s.X)
	if _, isMap := xt.Underlying().(*types.Map); isMap {
		return f.rangeMap(s, rest, c)
	}
	sl, ok := xt.Underlying().(*types.Slice)
	if !ok {
		fail("range over %s", xt)
	}
	xs := f.expr(s.X)
	out := f.takePre()
	kn, vn := "_", "_"
	if id, ok := s.Key.(*ast.Ident); ok && id.Name != "_" {
		kn = f.name(f.t.info.Defs[id])
	}
	if id, ok := s.Value.(*ast.Ident); ok && id.Name != "_" {
		vn = f.name(f.t.info.Defs[id])
	}
	S := f.namesOf(f.assignedOuter(s.Body.List))
	lo, st := f.fresh("lo"), f.fresh("st")
	body := f.seq(s.Body.List, f.loopCtx(S, c))
	elemConv := ""
	if isByte(sl.Elem()) && vn != "_" {
		// a byte element is used as an integer
		raw := vn + "_b"
		elemConv = "let " + vn + " := Z.of_N (b2n " + raw + ") in\n"
		vn = raw
	}
	hasRet := bodyReturns(s.Body)
	out += lo + " <- grange " + rArg(hasRet) + "(fun " + kn + " " + vn + " " + st + " =>\n" + unpack(st, S) + elemConv + body + ") 0 " + xs + " " + tuple(S) + " ;;\n"
	return out + f.loopTail(lo, st, S, rest, c, hasRet)
}

// rangeMap: for k, v := range m.  Go visits the entries in an unspecified order:
// the translation visits [mord site m], a permutation of m chosen by the parameter mord,
// over which every theorem quantifies.  A body that stores into the ranged map must end the loop.
func (f *fctx) rangeMap(s *ast.RangeStmt, rest []ast.Stmt, c *ctx) string {
	root := rootIdent(s.X)
	if root != nil {
		rv := f.varOf(root)
		for _, o := range f.assignedOuter(s.Body.List) {
			if o == rv && !alwaysAbrupt(s.Body.List) {
				fail("the body of a range over a map stores into %s and continues", root.Name)
			}
		}
	}
	m := f.expr(s.X)
	out := f.takePre()
	f.t.orcSite++
	f.fn.needsMord = true
	kn, vn := "_", "_"
	if id, ok := s.Key.(*ast.Ident); ok && id.Name != "_" {
		kn = f.name(f.t.info.Defs[id])
	}
	if s.Value != nil {
		if id, ok := s.Value.(*ast.Ident); ok && id.Name != "_" {
			vn = f.name(f.t.info.Defs[id])
		}
	}
	S := f.namesOf(f.assignedOuter(s.Body.List))
	lo, st, kv := f.fresh("lo"), f.fresh("st"), f.fresh("kv")
	body := f.seq(s.Body.List, f.loopCtx(S, c))
	hasRet := bodyReturns(s.Body)
	out += lo + " <- grange " + rArg(hasRet) + "(fun _ " + kv + " " + st + " =>\n" + unpack(st, S) +
		"let '(" + kn + ", " + vn + ") := " + kv + " in\n" + body + fmt.Sprintf(") 0 (mord %d _ %s) ", f.t.orcSite, m) + tuple(S) + " ;;\n"
	return out + f.loopTail(lo, st, S, rest, c, hasRet)
}

func (f *fctx) forStmt(s *ast.ForStmt, rest []ast.Stmt, c *ctx) string {
	if len(f.aliasDefs(s.Body.List)) > 0 {
		f.taint = true
	}
	out := ""
	if s.Init != nil {
		switch in := s.Init.(type) {
		case *ast.AssignStmt:
			out += f.assign(in)
		default:
			fail("for-initialiser %T", in)
		}
	}
	if s.Cond == nil {
		fail("for without condition")
	}
	var postL []ast.Stmt
	if s.Post != nil {
		postL = []ast.Stmt{s.Post}
	}
	S := f.namesOf(f.assignedOuter(s.Body.List, postL))
	lo, st := f.fresh("lo"), f.fresh("st")
	cond := f.expr(s.Cond)
	if len(f.pre) > 0 {
		fail("loop condition that can panic")
	}
	post := ""
	if s.Post != nil {
		post = f.seq(postL, &ctx{fall: func() string { return tuple(S) }})
		if strings.Contains(post, "<-") {
			fail("loop post statement that can panic")
		}
	} else {
		post = tuple(S) + "\n"
	}
	f.fn.needsFuel = true
	body := f.seq(s.Body.List, f.loopCtx(S, c))
	hasRet := bodyReturns(s.Body)
	out += lo + " <- gfor " + rArg(hasRet) + "fuel (fun " + st + " =>\n" + unpack(st, S) + cond + ") (fun " + st + " =>\n" + unpack(st, S) + body + ") (fun " + st + " =>\n" + unpack(st, S) + post + ") " + tuple(S) + " ;;\n"
	return out + f.loopTail(lo, st, S, rest, c, hasRet)
}

// resultValue: the function's result value from the results tuple
func (f *fctx) resultValue(vals string) string {
	if f.fn.recvPtr {
		vals = "(" + f.name(f.recvObj) + ", " + vals + ")"
	}
	if len(f.fn.outParams) > 0 {
		var os []string
		for _, i := range f.fn.outParams {
			os = append(os, f.name(f.sig.Params().At(i)))
		}
		vals = "(" + vals + ", " + tuple(os) + ")"
	}
	return vals
}

// ---------- functions ----------

func (t *tr) translate(fi *fnInfo) {
	if fi.done {
		return
	}
	if fi.inProgress {
		fi.skipped = "recursion"
		return
	}
	fi.inProgress = true
	defer func() {
		fi.inProgress = false
		fi.done = true
		if r := recover(); r != nil {
			if u, ok := r.(unsupported); ok {
				fi.skipped = u.msg
				fi.text = ""
				return
			}
			panic(r)
		}
	}()
	if fi.decl.Body == nil {
		fail("no body")
	}
	// first pass: find the parameters written through; second pass: emit with them as extra results
	site := t.orcSite
	_, found := t.emit(fi)
	if len(found) > 0 {
		sig := fi.obj.Type().(*types.Signature)
		for i := 0; i < sig.Params().Len(); i++ {
			if found[sig.Params().At(i)] {
				fi.outParams = append(fi.outParams, i)
			}
		}
		t.orcSite = site
		fi.needsFuel, fi.needsOrc, fi.needsNow, fi.needsMord = false, false, false, false
		var found2 map[*types.Var]bool
		fi.text, found2 = t.emit(fi)
		for v := range found2 {
			if !found[v] {
				fail("unstable set of written-through parameters")
			}
		}
	} else {
		t.orcSite = site
		fi.needsFuel, fi.needsOrc, fi.needsNow, fi.needsMord = false, false, false, false
		fi.text, _ = t.emit(fi)
	}
	t.order = append(t.order, fi)
}

// emit translates the body of fi once (fi.outParams fixed) and reports the parameters written through
func (t *tr) emit(fi *fnInfo) (string, map[*types.Var]bool) {
	sig := fi.obj.Type().(*types.Signature)
	f := &fctx{t: t, fn: fi, names: map[types.Object]string{}, used: map[string]int{}, sig: sig,
		aliases: map[*types.Var]*aliasInfo{}, found: map[*types.Var]bool{}, reass: map[*types.Var]bool{}, untr: map[*types.Var]bool{}}
	var params []string
	if sig.Recv() != nil {
		f.recvObj = sig.Recv()
		sn := t.structName(sig.Recv().Type())
		if sn == "" {
			fail("receiver type %s", sig.Recv().Type())
		}
		t.ensureStruct(sn)
		rn := "v_recv"
		if sig.Recv().Name() != "" && sig.Recv().Name() != "_" {
			rn = f.name(sig.Recv())
		} else {
			f.names[sig.Recv()] = rn
		}
		params = append(params, fmt.Sprintf("(%s : go_%s)", rn, sn))
	}
	for i := 0; i < sig.Params().Len(); i++ {
		p := sig.Params().At(i)
		pn := fmt.Sprintf("v_arg%d", i)
		if p.Name() != "" && p.Name() != "_" {
			pn = f.name(p)
		}
		params = append(params, fmt.Sprintf("(%s : %s)", pn, t.gtype(p.Type())))
	}
	var rtys []string
	header := ""
	named := sig.Results().Len() > 0 && sig.Results().At(0).Name() != ""
	for i := 0; i < sig.Results().Len(); i++ {
		r := sig.Results().At(i)
		rtys = append(rtys, t.gtype(r.Type()))
		if named {
			if r.Name() == "_" {
				fail("blank named result")
			}
			f.results = append(f.results, r)
			header += fmt.Sprintf("let %s := %s in\n", f.name(r), t.zero(r.Type()))
		}
	}
	rty := "unit"
	if len(rtys) == 1 {
		rty = rtys[0]
		if strings.Contains(rty, " ") && !strings.HasPrefix(rty, "(") {
			rty = "(" + rty + ")"
		}
	} else if len(rtys) > 1 {
		rty = "(" + strings.Join(rtys, " * ") + ")"
	}
	if fi.recvPtr {
		rty = "(go_" + fi.recvName + " * " + rty + ")"
	}
	if len(fi.outParams) > 0 {
		var ots []string
		for _, i := range fi.outParams {
			ots = append(ots, t.gtype(sig.Params().At(i).Type()))
		}
		ot := ots[0]
		if len(ots) > 1 {
			ot = "(" + strings.Join(ots, " * ") + ")"
		}
		rty = "(" + rty + " * " + ot + ")"
	}
	c := &ctx{
		fall: func() string {
			if sig.Results().Len() == 0 {
				return "GOk " + f.resultValue("tt")
			}
			return "GPanic (* unreachable: missing return *)"
		},
		ret:    func(vals string) string { return "GOk " + f.resultValue(vals) },
		retRaw: func(rv string) string { return "GOk " + rv },
	}
	body := f.seq(fi.decl.Body.List, c)
	extra := ""
	if fi.needsMord {
		extra = "(mord : Z -> forall V : Type, list (bytes * V) -> list (bytes * V)) " + extra
	}
	if fi.needsNow {
		extra = "(now : Z) " + extra
	}
	if fi.needsOrc {
		extra = "(orc : Z -> bool) " + extra
	}
	if fi.needsFuel {
		extra = "(fuel : nat) " + extra
	}
	pos := t.fset.Position(fi.decl.Pos())
	fi.mutRecv = f.recvMut
	for v := range f.found {
		if f.reass[v] {
			fail("parameter %s is both re-assigned and written through", v.Name())
		}
	}
	text := fmt.Sprintf("(* %s:%d  func %s *)\nDefinition %s %s%s : gres %s :=\n%s.\n", shortFile(pos.Filename), pos.Line, fi.key, fi.name, extra,
		strings.Join(params, " "), rty, indent(header+body))
	return text, f.found
}

func shortFile(p string) string {
	if i := strings.LastIndex(p, "/"); i >= 0 {
		return p[i+1:]
	}
	return p
}

// indent re-indents the generated term by parenthesis / let nesting
func indent(s string) string {
	lines := strings.Split(strings.TrimRight(s, "\n"), "\n")
	depth := 1
	var out []string
	for _, l := range lines {
		d := depth
		if strings.HasPrefix(l, ")") || strings.HasPrefix(l, "end") || strings.HasPrefix(l, "|") {
			d--
		}
		if d < 1 {
			d = 1
		}
		out = append(out, strings.Repeat("  ", d)+l)
		depth += strings.Count(l, "(") - strings.Count(l, ")")
		if strings.HasPrefix(l, "match ") {
			depth++
		}
		if strings.HasPrefix(l, "end") {
			depth--
		}
		if depth < 1 {
			depth = 1
		}
	}
	return strings.Join(out, "\n")
}

func main() {
	dir := flag.String("dir", ".", "package directory")
	outp := flag.String("out", "", "output .v file")
	only := flag.String("only", "", "comma-separated list of functions (Recv.Name or Name); default all")
	skipfiles := flag.String("skipfiles", "", "comma-separated file names to leave out")
	module := flag.String("module", "", "Coq module name of the output (recorded in the sidecar, used by importing packages)")
	imports := flag.String("imports", "", "comma-separated list importpath=sidecar.json of already translated packages")
	flag.Parse()
	skip := map[string]bool{}
	for _, s := range strings.Split(*skipfiles, ",") {
		if s != "" {
			skip[s] = true
		}
	}
	fset := token.NewFileSet()
	pkgs, err := parser.ParseDir(fset, *dir, func(fi os.FileInfo) bool {
		return !strings.HasSuffix(fi.Name(), "_test.go") && !skip[fi.Name()]
	}, parser.ParseComments)
	if err != nil {
		fmt.Fprintln(os.Stderr, "parse:", err)
		os.Exit(2)
	}
	if len(pkgs) != 1 {
		fmt.Fprintln(os.Stderr, "expected exactly one package in", *dir)
		os.Exit(2)
	}
	var files []*ast.File
	var pname string
	for n, p := range pkgs {
		pname = n
		var names []string
		for fn := range p.Files {
			names = append(names, fn)
		}
		sort.Strings(names)
		for _, fn := range names {
			files = append(files, p.Files[fn])
		}
	}
	nerr := 0
	conf := types.Config{Importer: importer.ForCompiler(fset, "source", nil), Error: func(e error) {
		nerr++
		fmt.Fprintln(os.Stderr, "typecheck:", e)
	}}
	info := &types.Info{Types: map[ast.Expr]types.TypeAndValue{}, Defs: map[*ast.Ident]types.Object{}, Uses: map[*ast.Ident]types.Object{},
		Selections: map[*ast.SelectorExpr]*types.Selection{}}
	pkg, _ := conf.Check(pname, fset, files, info)
	if nerr > 0 {
		os.Exit(2)
	}
	t := &tr{fset: fset, info: info, pkg: pkg, funcs: map[*types.Func]*fnInfo{}, structs: map[string]*structInfo{}, only: map[string]bool{},
		ext: map[string]*extPkg{}, nilable: map[string]bool{}}
	for _, im := range strings.Split(*imports, ",") {
		if im == "" {
			continue
		}
		kv := strings.SplitN(im, "=", 2)
		if len(kv) != 2 {
			fmt.Fprintln(os.Stderr, "bad -imports entry", im)
			os.Exit(2)
		}
		data, err := os.ReadFile(kv[1])
		if err != nil {
			fmt.Fprintln(os.Stderr, err)
			os.Exit(2)
		}
		ep := &extPkg{}
		if err := json.Unmarshal(data, ep); err != nil {
			fmt.Fprintln(os.Stderr, kv[1], err)
			os.Exit(2)
		}
		t.ext[kv[0]] = ep
	}
	// pointer fields that some code of the package compares with nil or sets to nil
	for _, file := range files {
		ast.Inspect(file, func(n ast.Node) bool {
			mark := func(e ast.Expr) {
				x, ok := ast.Unparen(e).(*ast.SelectorExpr)
				if !ok {
					return
				}
				sel, ok := info.Selections[x]
				if !ok || sel.Kind() != types.FieldVal || len(sel.Index()) != 1 {
					return
				}
				if _, isPtr := sel.Type().(*types.Pointer); !isPtr {
					return
				}
				if sn := t.structName(sel.Recv()); sn != "" {
					t.nilable[sn+"."+x.Sel.Name] = true
				}
			}
			isNilId := func(e ast.Expr) bool {
				id, ok := ast.Unparen(e).(*ast.Ident)
				if !ok || id.Name != "nil" {
					return false
				}
				_, isnil := info.Uses[id].(*types.Nil)
				return isnil
			}
			switch x := n.(type) {
			case *ast.BinaryExpr:
				if x.Op == token.EQL || x.Op == token.NEQ {
					if isNilId(x.Y) {
						mark(x.X)
					}
					if isNilId(x.X) {
						mark(x.Y)
					}
				}
			case *ast.AssignStmt:
				if len(x.Lhs) == len(x.Rhs) {
					for i := range x.Lhs {
						if isNilId(x.Rhs[i]) {
							mark(x.Lhs[i])
						}
					}
				}
			}
			return true
		})
	}
	for _, s := range strings.Split(*only, ",") {
		if s != "" {
			t.only[s] = true
		}
	}
	scope := pkg.Scope()
	for _, n := range scope.Names() {
		if tn, ok := scope.Lookup(n).(*types.TypeName); ok {
			if st, ok := tn.Type().Underlying().(*types.Struct); ok {
				t.structs[n] = &structInfo{name: n, st: st}
			}
		}
	}
	t.marking = true
	var all []*fnInfo
	for _, file := range files {
		for _, d := range file.Decls {
			fd, ok := d.(*ast.FuncDecl)
			if !ok {
				continue
			}
			obj := info.Defs[fd.Name].(*types.Func)
			fi := &fnInfo{decl: fd, obj: obj, key: fd.Name.Name, name: "go_" + fd.Name.Name}
			sig := obj.Type().(*types.Signature)
			if sig.Recv() != nil {
				rt := sig.Recv().Type()
				if p, ok := rt.(*types.Pointer); ok {
					fi.recvPtr = true
					rt = p.Elem()
				}
				if n, ok := rt.(*types.Named); ok {
					fi.recvName = n.Obj().Name()
					fi.key = fi.recvName + "." + fd.Name.Name
					fi.name = "go_" + fi.recvName + "_" + fd.Name.Name
				}
			}
			t.funcs[obj] = fi
			all = append(all, fi)
		}
	}
	for _, fi := range all {
		if len(t.only) > 0 && !t.only[fi.key] {
			continue
		}
		t.translate(fi)
	}
	var b strings.Builder
	fmt.Fprintf(&b, "(** GENERATED by /verif/translator from package %s (%s) — do not edit.\n    Regenerated from /repo on every check; the meaning of the combinators is in GoSem.v. *)\n", pname, *dir)
	b.WriteString("From Verif Require Import Bytes Crc32 Dec ListDS SetDS.\nFrom VerifGo Require Import GoSem.\n")
	var mods []string
	for _, ep := range t.ext {
		mods = append(mods, ep.Module)
	}
	sort.Strings(mods)
	if len(mods) > 0 {
		b.WriteString("From VerifGen Require " + strings.Join(mods, " ") + ".\n")
	}
	b.WriteString("From Coq Require Import Strings.String.\nOpen Scope Z_scope.\nOpen Scope bool_scope.\n\n")
	// records for the structs used
	side := &extPkg{Module: *module, Structs: map[string]extStruct{}, Funcs: map[string]extFunc{}}
	for _, n := range t.sorder {
		si := t.structs[n]
		if !si.used {
			continue
		}
		type fld struct{ name, ty string }
		var fls []fld
		var names []string
		for _, i := range si.fields {
			fn := si.st.Field(i).Name()
			fls = append(fls, fld{n + "_" + fn, t.gtype(si.st.Field(i).Type())})
			names = append(names, fn)
			if t.isNilable(n, fn) {
				fls = append(fls, fld{n + "_" + fn + "_isnil", "bool"})
			}
		}
		if len(si.fields) < si.st.NumFields() {
			var om []string
			for i := 0; i < si.st.NumFields(); i++ {
				inc := false
				for _, j := range si.fields {
					inc = inc || i == j
				}
				if !inc {
					om = append(om, si.st.Field(i).Name())
				}
			}
			fmt.Fprintf(&b, "(* fields of %s left out (untranslatable types): %s *)\n", n, strings.Join(om, ", "))
		}
		var fs []string
		for _, fl := range fls {
			fs = append(fs, fl.name+" : "+fl.ty)
		}
		fmt.Fprintf(&b, "Record go_%s := mk_go_%s { %s }.\n", n, n, strings.Join(fs, "; "))
		for i, fl := range fls {
			var args []string
			for j, g := range fls {
				if i == j {
					args = append(args, "x")
				} else {
					args = append(args, "("+g.name+" r)")
				}
			}
			fmt.Fprintf(&b, "Definition set_%s (r : go_%s) (x : %s) : go_%s := mk_go_%s %s.\n", fl.name, n, fl.ty, n, n, strings.Join(args, " "))
		}
		b.WriteString("\n")
		zero := func() (z string) {
			defer func() {
				if r := recover(); r != nil {
					z = ""
				}
			}()
			return t.zero(pkg.Scope().Lookup(n).Type())
		}()
		if *module != "" {
			zero = strings.ReplaceAll(zero, "mk_go_", *module+".mk_go_")
			// type names inside the zero value ("([] : list (go_X))") are this module's too
			zero = zeroTypeName.ReplaceAllString(zero, "${1}"+*module+".go_")
		}
		side.Structs[n] = extStruct{Zero: zero, Fields: names}
	}
	ntr := 0
	for _, fi := range t.order {
		if fi.skipped == "" {
			b.WriteString(fi.text + "\n")
			ntr++
		}
	}
	for _, fi := range t.order {
		if fi.skipped == "" {
			side.Funcs[fi.key] = extFunc{MutRecv: fi.mutRecv, Name: fi.name, NeedsFuel: fi.needsFuel, NeedsOrc: fi.needsOrc, NeedsNow: fi.needsNow,
				NeedsMord: fi.needsMord, RecvPtr: fi.recvPtr, OutParams: fi.outParams}
		}
	}
	if *outp != "" && *module != "" {
		js, _ := json.MarshalIndent(side, "", " ")
		if err := os.WriteFile(strings.TrimSuffix(*outp, ".v")+".json", js, 0o644); err != nil {
			fmt.Fprintln(os.Stderr, err)
			os.Exit(2)
		}
	}
	b.WriteString("(* not translated:\n")
	var sk []string
	for _, fi := range all {
		if fi.skipped != "" {
			sk = append(sk, fmt.Sprintf("   %s: %s", fi.key, fi.skipped))
		}
	}
	sort.Strings(sk)
	b.WriteString(strings.Join(sk, "\n") + "\n*)\n")
	if *outp == "" {
		fmt.Print(b.String())
	} else if err := os.WriteFile(*outp, []byte(b.String()), 0o644); err != nil {
		fmt.Fprintln(os.Stderr, err)
		os.Exit(2)
	}
	fmt.Fprintf(os.Stderr, "translated %d functions, skipped %d\n", ntr, len(sk))
}
