(* conv.ml — conversions between OCaml values and the extracted Coq datatypes.
   Trusted glue: byte <-> int uses the fact that [Model.byte] is an enumeration
   of 256 constant constructors in order x00..xff (self-checked at start-up
   against the extracted Byte.to_N). *)
module ZA = Z
open Model

let byte_of_int (i : int) : byte = Obj.magic (i land 255)
let int_of_byte (b : byte) : int = (Obj.magic b : int)

let rec pos_of_z (z : ZA.t) : positive =
  if ZA.equal z ZA.one then XH
  else if ZA.testbit z 0 then XI (pos_of_z (ZA.shift_right z 1))
  else XO (pos_of_z (ZA.shift_right z 1))

let n_of_z (z : ZA.t) : n = if ZA.sign z <= 0 then N0 else Npos (pos_of_z z)

let rec z_of_pos (p : positive) : ZA.t =
  match p with
  | XH -> ZA.one
  | XO p -> ZA.shift_left (z_of_pos p) 1
  | XI p -> ZA.succ (ZA.shift_left (z_of_pos p) 1)

let z_of_n (x : n) : ZA.t = match x with N0 -> ZA.zero | Npos p -> z_of_pos p

let n_of_int i = n_of_z (ZA.of_int i)
let int_of_n x = ZA.to_int (z_of_n x)

let self_check () =
  for i = 0 to 255 do
    if int_of_n (to_N (byte_of_int i)) <> i then failwith "byte conversion self-check failed"
  done

let hexval c =
  match c with
  | '0'..'9' -> Char.code c - 48
  | 'a'..'f' -> Char.code c - 87
  | 'A'..'F' -> Char.code c - 55
  | _ -> failwith "bad hex"

(* tokens for byte strings are "x" followed by hex digits *)
let bytes_of_tok (s : string) : byte list =
  if String.length s = 0 || s.[0] <> 'x' then failwith ("bad bytes token " ^ s);
  let n = (String.length s - 1) / 2 in
  List.init n (fun i -> byte_of_int (hexval s.[1 + 2*i] * 16 + hexval s.[2 + 2*i]))

let tok_of_bytes (b : byte list) : string =
  let buf = Buffer.create (1 + 2 * List.length b) in
  Buffer.add_char buf 'x';
  List.iter (fun c -> Buffer.add_string buf (Printf.sprintf "%02x" (int_of_byte c))) b;
  Buffer.contents buf

let n_of_tok s = n_of_z (ZA.of_string s)
let tok_of_n x = ZA.to_string (z_of_n x)

(* Coq Z <-> zarith *)
let cz_of_z (z : ZA.t) : Model.z =
  if ZA.sign z = 0 then Z0 else if ZA.sign z > 0 then Zpos (pos_of_z z) else Zneg (pos_of_z (ZA.neg z))
let z_of_cz (x : Model.z) : ZA.t = match x with Z0 -> ZA.zero | Zpos p -> z_of_pos p | Zneg p -> ZA.neg (z_of_pos p)
let cz_of_tok s = cz_of_z (ZA.of_string s)
let tok_of_cz x = ZA.to_string (z_of_cz x)

(* "-" or comma-joined byte tokens *)
let bytes_list_of_tok (s : string) : byte list list =
  if s = "-" then [] else List.map bytes_of_tok (String.split_on_char ',' s)
