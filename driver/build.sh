#!/bin/sh
# Extracts the model from the compiled Coq development and builds the driver.
set -e
cd "$(dirname "$0")"
mkdir -p _build && cd _build
coqc -Q ../../coq/theories Verif ../../coq/extract/Extract.v > extract.log 2>&1 || { cat extract.log; exit 1; }
cp ../conv.ml ../dsl.ml ../hist.ml ../driver.ml .
ocamlfind ocamlopt -O2 -w -a -package zarith -linkpkg model.mli model.ml conv.ml dsl.ml hist.ml driver.ml -o driver 2> ocaml.log || \
ocamlfind ocamlopt -w -a -package zarith -linkpkg model.mli model.ml conv.ml dsl.ml hist.ml driver.ml -o driver 2> ocaml.log || { cat ocaml.log; exit 1; }
