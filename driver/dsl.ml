(* dsl.ml — replays calls on the exported ds/list, ds/set, ds/zset types
   (no transaction layer) through the extracted ListDS/SetDS/ZSetDS models. *)
open Model
open Conv

let lm : lmap ref = ref []
let sm : smap ref = ref []
let zs : zset ref = ref []

let b = bytes_of_tok
let z = cz_of_tok
let bl = bytes_list_of_tok
let show_list l = String.concat " " ("list" :: List.map tok_of_bytes l)
let show_node (nd : znode) = tok_of_bytes nd.z_key ^ ":" ^ tok_of_cz nd.z_score ^ ":" ^ tok_of_bytes nd.z_val
let show_nodes l = String.concat " " ("nodes" :: List.map show_node l)
let show_onode = function None -> "node -" | Some n -> "node " ^ show_node n
let bool_of = function "1" -> true | _ -> false
let cmpb (a : byte list) (c : byte list) = compare (tok_of_bytes a) (tok_of_bytes c)

let dump_map m =
  let m = List.sort (fun (k1, _) (k2, _) -> cmpb k1 k2) m in
  String.concat " " ("dump" :: List.map (fun (k, l) -> tok_of_bytes k ^ "=[" ^ String.concat "," (List.map tok_of_bytes l) ^ "]") m)

let run_cmd (cmd : string) (a : string list) : string option =
  match cmd, a with
  | "dl.new", [] -> lm := []; Some "-"
  | "dl.rpush", [k; vs] -> lm := l_rpush !lm (b k) (bl vs);
    Some (match l_size !lm (b k) with LOk n -> "int " ^ tok_of_cz n | LErr -> "err")
  | "dl.lpush", [k; vs] -> lm := l_lpush !lm (b k) (bl vs);
    Some (match l_size !lm (b k) with LOk n -> "int " ^ tok_of_cz n | LErr -> "err")
  | "dl.rpop", [k] -> let (m, r) = l_rpop !lm (b k) in lm := m; Some (match r with LOk v -> "val " ^ tok_of_bytes v | LErr -> "err")
  | "dl.lpop", [k] -> let (m, r) = l_lpop !lm (b k) in lm := m; Some (match r with LOk v -> "val " ^ tok_of_bytes v | LErr -> "err")
  | "dl.rpeek", [k] -> Some (match l_rpeek !lm (b k) with LOk v -> "val " ^ tok_of_bytes v | LErr -> "err")
  | "dl.lpeek", [k] -> Some (match l_lpeek !lm (b k) with LOk v -> "val " ^ tok_of_bytes v | LErr -> "err")
  | "dl.size", [k] -> Some (match l_size !lm (b k) with LOk n -> "int " ^ tok_of_cz n | LErr -> "err")
  | "dl.lrange", [k; s; e] -> Some (match l_lrange !lm (b k) (z s) (z e) with LOk l -> show_list l | LErr -> "err")
  | "dl.lrem", [k; c; v] -> let (m, r) = l_lrem !lm (b k) (z c) (b v) in lm := m;
    Some (match r with LOk n -> "int " ^ tok_of_cz n | LErr -> "err")
  | "dl.lremnum", [k; c; v] -> Some (match l_lremnum !lm (b k) (z c) (b v) with LOk n -> "int " ^ tok_of_cz n | LErr -> "err")
  | "dl.lset", [k; i; v] -> let (m, ok) = l_lset !lm (b k) (z i) (b v) in lm := m; Some (if ok then "ok" else "err")
  | "dl.ltrim", [k; s; e] -> let (m, ok) = l_ltrim !lm (b k) (z s) (z e) in lm := m; Some (if ok then "ok" else "err")
  | "dl.dump", [] -> Some (dump_map !lm)
  (* sets *)
  | "ds.new", [] -> sm := []; Some "-"
  | "ds.sadd", [k; l] -> sm := s_sadd !sm (b k) (bl l); Some "ok"
  | "ds.srem", [k; l] -> let (m, ok) = s_srem !sm (b k) (bl l) in sm := m; Some (if ok then "ok" else "err")
  | "ds.haskey", [k] -> Some ("bool " ^ if s_haskey !sm (b k) then "1" else "0")
  | "ds.card", [k] -> Some ("int " ^ tok_of_cz (s_card !sm (b k)))
  | "ds.ismember", [k; x] -> Some ("bool " ^ if s_ismember !sm (b k) (b x) then "1" else "0")
  | "ds.aremembers", [k; l] -> Some (if s_aremembers !sm (b k) (bl l) then "bool 1" else "err")
  | "ds.members", [k] -> Some (match s_members !sm (b k) with Some l -> show_list l | None -> "err")
  | "ds.diff", [k1; k2] -> Some (match s_diff !sm (b k1) (b k2) with Some l -> show_list l | None -> "err")
  | "ds.union", [k1; k2] -> Some (match s_union !sm (b k1) (b k2) with Some l -> show_list l | None -> "err")
  | "ds.inter", [k1; k2] -> Some (match s_inter !sm (b k1) (b k2) with Some l -> show_list l | None -> "err")
  | "ds.move", [k1; k2; x] -> let (m, ok) = s_move !sm (b k1) (b k2) (b x) in sm := m; Some (if ok then "bool 1" else "err")
  | "ds.pop", [k; c] ->
    if c = "!" then Some (match Model.alookup !sm (b k) with Some (_ :: _) -> "inadmissible" | _ -> "nil")
    else (match s_spop !sm (b k) (b c) with Some m -> sm := m; Some ("val " ^ c) | None -> Some "inadmissible")
  | "ds.dump", [] -> Some (dump_map (List.map (fun (k, l) -> (k, List.sort cmpb l)) !sm))
  (* sorted sets *)
  | "dz.new", [] -> zs := []; Some "-"
  | "dz.put", [k; sc; v] -> zs := z_put !zs (b k) (z sc) (b v); Some "ok"
  | "dz.remove", [k] -> let r = z_find !zs (b k) in zs := z_remove !zs (b k); Some (show_onode r)
  | "dz.getbykey", [k] -> Some (show_onode (z_find !zs (b k)))
  | "dz.peekmin", [] -> Some (show_onode (z_peekmin !zs))
  | "dz.peekmax", [] -> Some (show_onode (z_peekmax !zs))
  | "dz.popmin", [] -> let r = z_peekmin !zs in zs := z_popmin !zs; Some (show_onode r)
  | "dz.popmax", [] -> let r = z_peekmax !zs in zs := z_popmax !zs; Some (show_onode r)
  | "dz.rankrange", [s; e; rm] -> let (ns, rest) = z_rankrange !zs (z s) (z e) in
    if bool_of rm then zs := rest; Some (show_nodes ns)
  | "dz.scorerange", [s; e; l; xs; xe] -> Some (show_nodes (z_scorerange !zs (z s) (z e) (z l) (bool_of xs) (bool_of xe)))
  | "dz.rank", [k] -> Some ("int " ^ tok_of_cz (z_rank !zs (b k)))
  | "dz.revrank", [k] -> Some ("int " ^ tok_of_cz (z_revrank !zs (b k)))
  | "dz.size", [] -> Some ("int " ^ string_of_int (List.length !zs))
  | "dz.dump", [] -> Some (show_nodes !zs)
  | _ -> None
