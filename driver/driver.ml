(* driver.ml — replays harness traces through the extracted model.
   Input: lines "<cmd> <args...> = <impl result>".  Output: the same line with
   the model's result after " = ".  Lines starting with '#' are copied. *)
open Model
open Conv

let mode_of_tok = function "0" -> FileIO | "1" -> MMap | s -> failwith ("mode " ^ s)

let show_err = function EEOF -> "eof" | EOOB -> "oob" | ECrc -> "crc"

let show_entry (e : entry) =
  String.concat " " [ tok_of_bytes e.e_bucket; tok_of_bytes e.e_key; tok_of_bytes e.e_value;
    tok_of_n e.e_ts; tok_of_n e.e_ttl; tok_of_n e.e_flag; tok_of_n e.e_status; tok_of_n e.e_ds; tok_of_n e.e_txid ]

let entry_of_toks = function
  | [b; k; v; ts; ttl; flag; status; ds; txid] ->
    { e_bucket = bytes_of_tok b; e_key = bytes_of_tok k; e_value = bytes_of_tok v; e_ts = n_of_tok ts;
      e_ttl = n_of_tok ttl; e_flag = n_of_tok flag; e_status = n_of_tok status; e_ds = n_of_tok ds;
      e_txid = n_of_tok txid }
  | _ -> failwith "entry fields"

let run_cmd (cmd : string) (args : string list) : string =
  match cmd, args with
  | "enc", fs -> tok_of_bytes (encode_entry (entry_of_toks fs))
  | "dec", [m; file; off] ->
    (match decode_at (mode_of_tok m) (bytes_of_tok file) (n_of_tok off) with
     | DecOk (e, _) -> "ok " ^ show_entry e
     | DecAbsent -> "absent"
     | DecErr k -> "err " ^ show_err k)
  | "renc", [fid; ro; s; e] ->
    tok_of_bytes (encode_rootidx { ri_fid = n_of_tok fid; ri_rootoff = n_of_tok ro;
                                   ri_start = bytes_of_tok s; ri_end = bytes_of_tok e })
  | "rdec", [file; off] ->
    (match decode_rootidx_at (bytes_of_tok file) (n_of_tok off) with
     | RiOk r -> String.concat " " ["ok"; tok_of_n r.ri_fid; tok_of_n r.ri_rootoff; tok_of_bytes r.ri_start; tok_of_bytes r.ri_end]
     | RiAbsent -> "absent"
     | RiErr k -> "err " ^ show_err k)
  | "benc", [s; e] -> tok_of_bytes (encode_bucketmeta { bm_start = bytes_of_tok s; bm_end = bytes_of_tok e })
  | "bdec", [file] ->
    (match decode_bucketmeta (bytes_of_tok file) with
     | BmOk b -> String.concat " " ["ok"; tok_of_bytes b.bm_start; tok_of_bytes b.bm_end]
     | BmErr k -> "err " ^ show_err k)
  | _ -> Hist.run_cmd cmd args

let split_line (l : string) : string * string =
  (* returns (call part, impl result part) split at the first " = " *)
  let n = String.length l in
  let rec find i = if i + 3 > n then None else if String.sub l i 3 = " = " then Some i else find (i + 1) in
  match find 0 with
  | Some i -> (String.sub l 0 i, String.sub l (i + 3) (n - i - 3))
  | None -> (l, "")

let () =
  self_check ();
  try
    while true do
      let l = input_line stdin in
      if String.length l = 0 || l.[0] = '#' then (incr Hist.lineno; print_endline l)
      else begin
        let (call, ires) = split_line l in
        Hist.impl_res := ires; Hist.cur_call := call; incr Hist.lineno;
        match String.split_on_char ' ' call with
        | cmd :: args ->
          let r = (try run_cmd cmd args with Failure m -> "DRIVER-ERROR " ^ m) in
          print_string call; print_string " = "; print_endline r
        | [] -> print_endline l
      end
    done
  with End_of_file -> ()
