(* hist.ml — replays history lines (see harness/st.go) through the extracted
   engine model.  Holds the model world and the clock between lines. *)
open Model
open Conv

let world : world option ref = ref None
let sworld : sworld ref = ref sworld0
let impl_res : string ref = ref ""
let lineno : int ref = ref 0
let merge_ctr : int ref = ref 0
(* transactions whose spec/impl comparison is suspended: see DESIGN (known findings) *)
let disk : disk ref = ref []
let now : n ref = ref N0

let mode_of = function "0" -> FileIO | "1" -> MMap | s -> failwith ("rw " ^ s)
let bool_of = function "1" -> true | "0" -> false | s -> failwith ("bool " ^ s)

let show_node (nd : znode) = tok_of_bytes nd.z_key ^ ":" ^ tok_of_cz nd.z_score ^ ":" ^ tok_of_bytes nd.z_val

let show_res (r : res) : string =
  match r with
  | ROk -> "ok" | RErr -> "err" | RPanic -> "panic" | RNil -> "nil"
  | REntry (k, v) -> "entry " ^ tok_of_bytes k ^ " " ^ tok_of_bytes v
  | REntries (es, off) ->
    String.concat " " ("entries" :: tok_of_cz off :: List.map (fun (k, v) -> tok_of_bytes k ^ ":" ^ tok_of_bytes v) es)
  | RInt z -> "int " ^ tok_of_cz z
  | RBool b -> "bool " ^ (if b then "1" else "0")
  | RVal v -> "val " ^ tok_of_bytes v
  | RList l -> String.concat " " ("list" :: List.map tok_of_bytes l)
  | RNodes l -> String.concat " " ("nodes" :: List.map show_node l)
  | RNode None -> "node -"
  | RNode (Some nd) -> "node " ^ show_node nd
  | RInadmissible -> "inadmissible"

let b = bytes_of_tok
let z = cz_of_tok
let bl = bytes_list_of_tok

let zopts = function
  | ["nil"; _; _] -> (cz_of_tok "0", false, false)
  | [l; s; e] -> (z l, bool_of s, bool_of e)
  | _ -> failwith "zopts"

let op_of (cmd : string) (a : string list) : op option =
  match cmd, a with
  | "put", [bk; k; v; ttl; ts] -> Some (OPut (b bk, b k, b v, n_of_tok ttl, n_of_tok ts))
  | "del", [bk; k] -> Some (ODelete (b bk, b k))
  | "get", [bk; k] -> Some (OGet (b bk, b k))
  | "getall", [bk] -> Some (OGetAll (b bk))
  | "range", [bk; s; e] -> Some (ORangeScan (b bk, b s, b e))
  | "pscan", [bk; p; off; lim] -> Some (OPrefixScan (b bk, b p, z off, z lim))
  | "psscan", [bk; p; _re; off; lim; bad; ms] -> Some (OPrefixSearchScan (b bk, b p, bool_of bad, bl ms, z off, z lim))
  | "rpush", [bk; k; vs] -> Some (ORPush (b bk, b k, bl vs))
  | "lpush", [bk; k; vs] -> Some (OLPush (b bk, b k, bl vs))
  | "rpop", [bk; k] -> Some (ORPop (b bk, b k))
  | "lpop", [bk; k] -> Some (OLPop (b bk, b k))
  | "rpeek", [bk; k] -> Some (ORPeek (b bk, b k))
  | "lpeek", [bk; k] -> Some (OLPeek (b bk, b k))
  | "lsize", [bk; k] -> Some (OLSize (b bk, b k))
  | "lrange", [bk; k; s; e] -> Some (OLRange (b bk, b k, z s, z e))
  | "lrem", [bk; k; c; v] -> Some (OLRem (b bk, b k, z c, b v))
  | "lset", [bk; k; i; v] -> Some (OLSet (b bk, b k, z i, b v))
  | "ltrim", [bk; k; s; e] -> Some (OLTrim (b bk, b k, z s, z e))
  | "sadd", [bk; k; l] -> Some (OSAdd (b bk, b k, bl l))
  | "srem", [bk; k; l] -> Some (OSRem (b bk, b k, bl l))
  | "saremembers", [bk; k; l] -> Some (OSAreMembers (b bk, b k, bl l))
  | "sismember", [bk; k; x] -> Some (OSIsMember (b bk, b k, b x))
  | "smembers", [bk; k] -> Some (OSMembers (b bk, b k))
  | "shaskey", [bk; k] -> Some (OSHasKey (b bk, b k))
  | "spop", [bk; k; c] -> Some (OSPop (b bk, b k, (if c = "!" then None else Some (b c))))
  | "scard", [bk; k] -> Some (OSCard (b bk, b k))
  | "sdiff1", [bk; k1; k2] -> Some (OSDiff1 (b bk, b k1, b k2))
  | "sdiff2", [b1; k1; b2; k2] -> Some (OSDiff2 (b b1, b k1, b b2, b k2))
  | "smove1", [bk; k1; k2; x] -> Some (OSMove1 (b bk, b k1, b k2, b x))
  | "smove2", [b1; k1; b2; k2; x] -> Some (OSMove2 (b b1, b k1, b b2, b k2, b x))
  | "sunion1", [bk; k1; k2] -> Some (OSUnion1 (b bk, b k1, b k2))
  | "sunion2", [b1; k1; b2; k2] -> Some (OSUnion2 (b b1, b k1, b b2, b k2))
  | "zadd", [bk; k; sc; v] -> Some (OZAdd (b bk, b k, z sc, b v))
  | "zmembers", [bk] -> Some (OZMembers (b bk))
  | "zcard", [bk] -> Some (OZCard (b bk))
  | "zcount", bk :: s :: e :: o -> let (l, xs, xe) = zopts o in Some (OZCount (b bk, z s, z e, l, xs, xe))
  | "zrangebyscore", bk :: s :: e :: o -> let (l, xs, xe) = zopts o in Some (OZRangeByScore (b bk, z s, z e, l, xs, xe))
  | "zpopmax", [bk] -> Some (OZPopMax (b bk))
  | "zpopmin", [bk] -> Some (OZPopMin (b bk))
  | "zpeekmax", [bk] -> Some (OZPeekMax (b bk))
  | "zpeekmin", [bk] -> Some (OZPeekMin (b bk))
  | "zrangebyrank", [bk; s; e] -> Some (OZRangeByRank (b bk, z s, z e))
  | "zrem", [bk; k] -> Some (OZRem (b bk, b k))
  | "zremrangebyrank", [bk; s; e] -> Some (OZRemRangeByRank (b bk, z s, z e))
  | "zrank", [bk; k] -> Some (OZRank (b bk, b k))
  | "zrevrank", [bk; k] -> Some (OZRevRank (b bk, b k))
  | "zscore", [bk; k] -> Some (OZScore (b bk, b k))
  | "zgetbykey", [bk; k] -> Some (OZGetByKey (b bk, b k))
  | _ -> None

let spec_check (callText : string) (c : call) : unit =
  let commit_ok = (!impl_res = "ok") in
  let (sw', r) = spec_step !now commit_ok !sworld c in
  sworld := sw';
  let sr = show_res r in
  if sr <> !impl_res then
    Printf.eprintf "SPEC %d %s impl=%s spec=%s\n" !lineno callText !impl_res sr

let cur_call : string ref = ref ""

let do_step (c : call) : string =
  spec_check !cur_call c;
  match !world with
  | None -> "err"
  | Some w ->
    let (w', r) = step !now w c in
    world := Some w';
    disk := w'.w_disk;
    show_res r

let run_cmd (cmd : string) (a : string list) : string =
  match cmd, a with
  | "reset", [] -> world := None; disk := []; sworld := sworld0; "-"
  | "now", [t] -> now := n_of_tok t; "-"
  | "open", [m; rw; ld; sy; seg] ->
    let o = { o_mode = n_of_tok m; o_rw = mode_of rw; o_load = mode_of ld; o_sync = bool_of sy; o_seg = n_of_tok seg } in
    let w = do_open o !disk in
    spec_check !cur_call (COpen o);
    world := Some w; disk := w.w_disk; "ok"
  | "close", [] -> do_step CClose
  | "begin", [w; id] -> do_step (CBegin (w = "w", n_of_tok id))
  | "merge", [] ->
    (* the specification: Merge changes nothing observable; it fails when fewer than two data files exist *)
    (match !world with
     | None -> "err"
     | Some w ->
       merge_ctr := !merge_ctr + 1;
       let base = n_of_z (ZA.add (ZA.shift_left ZA.one 63) (ZA.of_int (!merge_ctr * 100000))) in
       let (w', ok) = do_merge !now w base in
       world := Some w'; disk := w'.w_disk;
       if ok then "ok" else "err")
  | "commit", [] -> do_step CCommit
  | "commitfault", [k; _kind] ->
    (* Commit with an I/O error after k complete record writes *)
    (match !world with
     | Some ({ w_tx = TxActive t } as w) ->
       spec_check !cur_call CCommit;
       let (w', ok) = do_commit (Some (let rec nat_of i = if i <= 0 then O else S (nat_of (i - 1)) in nat_of (Stdlib.int_of_string k))) w t in
       world := Some w'; disk := w'.w_disk; if ok then "ok" else "err"
     | _ -> "err")
  | "rollback", [] -> do_step CRollback
  | _ ->
    (match Dsl.run_cmd cmd a with
     | Some r -> r
     | None ->
       (match op_of cmd a with
        | Some o -> do_step (COp o)
        | None -> failwith ("unknown command: " ^ cmd)))
