"""History suites: run the harness, replay through model + spec, classify."""
import os
import re
import shutil
import subprocess

import vcommon as vc


def split_histories(lines):
    """-> list of (start_index, [lines]) per '#H' block."""
    out, cur, start = [], None, 0
    for i, l in enumerate(lines):
        if l.startswith("#H "):
            if cur is not None:
                out.append((start, cur))
            cur, start = [], i
        if cur is not None:
            cur.append(l)
    if cur is not None:
        out.append((start, cur))
    return out


def norm_call(l):
    c = l.split(" = ")[0]
    if c.startswith("begin "):
        return " ".join(c.split(" ")[:2])
    return c


class HistResult:
    def __init__(self):
        self.lines = 0
        self.trace = []
        self.mismatch = []      # (line index, impl line, model line)
        self.spec = []          # (line index, text) from the spec oracle (driver stderr)
        self.hspec = []         # (line index, text) '#SPEC' lines written by the harness itself
        self.info = []
        self.rc = 0
        self.driver_rc = 0
        self.stderr = ""
        self.driver_err = ""
        self.ops = {}
        self.outcomes = {}
        self.distinct = set()
        self.histories = 0
        self.races = 0
        self.race_excerpt = ""


def run_hist(harness_args, tier, seed, tag, timeout=3000, env=None, use_driver=True, binary=None):
    work = vc.scratch_dir(tag)
    r = HistResult()
    try:
        e = dict(os.environ)
        e["VERIF_TIER"] = tier
        if env:
            e.update(env)
        cmd = [binary or vc.HARNESS] + [str(x) for x in harness_args] + ["-seed", str(seed), "-work", work]
        try:
            p = subprocess.run(cmd, stdout=subprocess.PIPE, stderr=subprocess.PIPE, text=True, timeout=timeout, env=e)
            trace, r.rc, r.stderr = p.stdout, p.returncode, p.stderr[-3000:]
            r.races = p.stderr.count("WARNING: DATA RACE")
            if r.races:
                i = p.stderr.index("WARNING: DATA RACE")
                r.race_excerpt = p.stderr[i:i + 2500]
        except subprocess.TimeoutExpired as ex:
            trace = ex.stdout if isinstance(ex.stdout, str) else (ex.stdout or b"").decode("utf8", "replace")
            r.rc, r.stderr = 124, "harness timeout (deadlock?)"
        tl = trace.split("\n")
        r.trace = tl
        model = []
        if use_driver:
            r.driver_rc, mo, derr = vc.run_driver(trace)
            model = mo.split("\n")
            r.driver_err = "\n".join(x for x in derr.split("\n") if not x.startswith("SPEC "))[-2000:]
            for x in derr.split("\n"):
                m = re.match(r"SPEC (\d+) (.*)$", x)
                if m:
                    r.spec.append((int(m.group(1)) - 1, m.group(2)))
        for i, l in enumerate(tl):
            if not l:
                continue
            if l.startswith("#"):
                if l.startswith("#SPEC"):
                    r.hspec.append((i, l))
                elif l.startswith("#H "):
                    r.histories += 1
                else:
                    r.info.append(l)
                continue
            r.lines += 1
            call, _, res = l.partition(" = ")
            k = call.split(" ", 1)[0]
            r.ops[k] = r.ops.get(k, 0) + 1
            okind = res.split(" ", 1)[0]
            r.outcomes[k + ":" + okind] = r.outcomes.get(k + ":" + okind, 0) + 1
            r.distinct.add(norm_call(l))
            if use_driver:
                m = model[i] if i < len(model) else "<model output missing>"
                if m != l:
                    r.mismatch.append((i, l, m))
        return r
    finally:
        shutil.rmtree(work, ignore_errors=True)


def history_of(r, idx):
    """the call lines of the history containing trace line idx, up to idx"""
    start = 0
    for i in range(idx, -1, -1):
        if r.trace[i].startswith("#H "):
            start = i
            break
    return [l for l in r.trace[start:idx + 1] if l and (not l.startswith("#") or l.startswith("#H"))]
