"""Shared machinery of /verif/check: builds, proof obligations, evidence, replays."""
import hashlib
import json
import os
import re
import shutil
import subprocess
import sys
import time

ROOT = os.path.dirname(os.path.dirname(os.path.abspath(__file__)))
REPO = os.environ.get("VERIF_REPO", "/repo")
COQ = os.path.join(ROOT, "coq")
DRIVER_DIR = os.path.join(ROOT, "driver")
DRIVER = os.path.join(DRIVER_DIR, "_build", "driver")
HARNESS_DIR = os.path.join(ROOT, "harness")
HARNESS = os.path.join(HARNESS_DIR, "_bin", "harness")
EVIDENCE = os.path.join(ROOT, "evidence")
REPLAYS = os.path.join(ROOT, "replays")

GOENV = dict(os.environ, GOFLAGS="-mod=mod", GOPROXY="off", GOSUMDB="off", GOTOOLCHAIN="local",
             CGO_ENABLED=os.environ.get("CGO_ENABLED", "1"))

FORBIDDEN = re.compile(r"\b(Admitted|admit|Axiom|Parameter|Conjecture|Unset Guard|bypass_check|Admit Obligations|native_compute)\b")

TRUSTED_BASE = [
    "Coq 8.16.1 kernel (coqc full .vo build, no -vos/-vok); vm_compute used for concrete witnesses and finite sweeps; no native_compute",
    "Axioms: none (Print Assumptions under every property theorem is recorded below)",
    "Extraction: ExtrOcamlBasic only (bool, option, unit, list, prod, sumbool, comparison -> OCaml natives); no Extract Constant/Inductive of ours; OCaml 4.13.1, zarith for decimal I/O",
    "Driver glue (driver/conv.ml, driver/driver.ml): hex/decimal parsing and printing, Obj.magic between Coq's 256-constructor byte and int (self-checked at start-up)",
    "Correspondence: Go harness (harness/*.go) built with -tags verif against /repo's working tree; generators; Go 1.23 toolchain",
    "Translator (second tie, properties with a *_code.v file): translator/main.go (go/parser + go/types -> Gallina over coq/gosem/GoSem.v), regenerated from /repo on every run; GoSem.v states the Go semantics assumed (64-bit wrap, slices as values with tracked local aliasing, maps as association lists, pointers as values, nil test on empty slices as an oracle, loops on fuel)",
    "Modelled, not verified: Go runtime semantics (slices, maps, 64-bit wrap, bytes.Compare, strings.Split, strconv), os/file-system semantics, hash/crc32 (bitwise model validated against the real one on every run)",
]


def sh(cmd, cwd=None, timeout=None, env=None, stdin=None):
    """Run a command; returns (rc, stdout+stderr)."""
    try:
        p = subprocess.run(cmd, cwd=cwd, timeout=timeout, env=env, input=stdin,
                           stdout=subprocess.PIPE, stderr=subprocess.STDOUT, text=True,
                           shell=isinstance(cmd, str))
        return p.returncode, p.stdout
    except subprocess.TimeoutExpired as e:
        out = e.stdout if isinstance(e.stdout, str) else (e.stdout or b"").decode("utf8", "replace")
        return 124, (out or "") + "\n[timeout after %ss]" % timeout


def log(*a):
    print(*a, file=sys.stderr, flush=True)


# ---------------------------------------------------------------- Coq side

def coq_build():
    """Full .vo build of the development (no-op when current). Returns (ok, output)."""
    if not os.path.exists(os.path.join(COQ, "Makefile")):
        rc, out = sh("coq_makefile -f _CoqProject -o Makefile", cwd=COQ, timeout=120)
        if rc != 0:
            return False, out
    rc, out = sh(["make", "-j16"], cwd=COQ, timeout=3000)
    return rc == 0, out


def coq_scan_forbidden():
    hits = []
    for d in ("theories", "properties", "extract", "gosem", "generated", "properties_code"):
        p = os.path.join(COQ, d)
        if not os.path.isdir(p):
            continue
        for f in sorted(os.listdir(p)):
            if not f.endswith(".v"):
                continue
            txt = open(os.path.join(p, f)).read()
            # strip comments (non-nested is enough for our files; nested handled by loop)
            prev = None
            while prev != txt:
                prev = txt
                txt = re.sub(r"\(\*[^*(]*(?:\*(?!\))[^*(]*|\((?!\*)[^*(]*)*\*\)", " ", txt)
            for m in FORBIDDEN.finditer(txt):
                hits.append("%s/%s: %s" % (d, f, m.group(0)))
    return hits


def coq_property_obligations(pid):
    """Re-checks properties/<pid>.v with coqc on every run and parses the
    theorem list and the Print Assumptions output.
    Returns dict(obligations, discharged, theorems=[(name, assumptions)], ok, output)."""
    src = os.path.join(COQ, "properties", pid + ".v")
    res = dict(obligations=0, discharged=0, theorems=[], ok=False, output="", file=src)
    if not os.path.exists(src):
        res["output"] = "missing " + src
        return res
    text = open(src).read()
    names = re.findall(r"^\s*(?:Theorem|Lemma|Corollary)\s+(\w+)", text, re.M)
    examples = re.findall(r"^\s*Example\s+(\w+)", text, re.M)
    res["obligations"] = len(names) + len(examples)
    args = ["coqc", "-Q", "theories", "Verif", "-Q", "properties", "VerifProps"]
    if os.path.isdir(os.path.join(COQ, "gen")):
        args += ["-Q", "gen", "VerifGen"]
    rc, out = sh(args + ["properties/%s.v" % pid], cwd=COQ, timeout=1200)
    res["output"] = out
    if rc != 0:
        return res
    # Print Assumptions blocks appear in order, one per Print Assumptions command
    printed = re.findall(r"^\s*Print Assumptions\s+(\w+)", text, re.M)
    blocks = re.split(r"(?m)^(?=Closed under the global context|Axioms:)", out)
    blocks = [b.strip() for b in blocks if b.strip().startswith(("Closed under", "Axioms:"))]
    thms = []
    for i, n in enumerate(printed):
        a = blocks[i] if i < len(blocks) else "?"
        thms.append((n, a))
    res["theorems"] = thms
    res["discharged"] = len(names) + len(examples)
    res["ok"] = True
    res["unprinted"] = [n for n in names if n not in printed]
    return res


def coqchk_property(pid):
    """Independent re-check of the compiled property file and everything it depends on (thorough tier).
    Returns (ok, summary text)."""
    rc, out = sh(["coqchk", "-silent", "-o", "-Q", "theories", "Verif", "-Q", "properties", "VerifProps",
                  "VerifProps.%s" % pid], cwd=COQ, timeout=3000)
    i = out.find("CONTEXT SUMMARY")
    summary = " ".join(out[i:].split()) if i >= 0 else out[-1500:]
    ok = rc == 0 and "Axioms: <none>" in summary and "type-in-type: <none>" in summary and \
        "unsafe (co)fixpoints: <none>" in summary and "positivity is assumed: <none>" in summary
    return ok, summary


def coqchk_code(pid):
    """coqchk of the code-level property file of pid and everything it depends on (generated translation included)."""
    rel = CODE_PROPS.get(pid)
    if not rel:
        return True, ""
    mod = "VerifCode." + os.path.basename(rel)[:-2]
    rc, out = sh(["coqchk", "-silent", "-o"] + TIE_ARGS + [mod], cwd=COQ, timeout=3000)
    i = out.find("CONTEXT SUMMARY")
    summary = " ".join(out[i:].split()) if i >= 0 else out[-1500:]
    ok = rc == 0 and "Axioms: <none>" in summary and "type-in-type: <none>" in summary and \
        "unsafe (co)fixpoints: <none>" in summary and "positivity is assumed: <none>" in summary
    return ok, summary


# ---------------------------------------------------------------- translation tie
TRANSLATOR_DIR = os.path.join(ROOT, "translator")
TRANSLATOR = os.path.join(TRANSLATOR_DIR, "_bin", "veriftr")
TIE_ARGS = ["-Q", "theories", "Verif", "-Q", "gosem", "VerifGo", "-Q", "generated", "VerifGen", "-Q", "properties_code", "VerifCode"]
TIES = {
    # name: Go package dir (relative to /repo), translator arguments, generated file, Coq files depending on it (in order)
    "list": dict(dir="ds/list", args=["-module", "GoList"], gen="generated/GoList.v",
                 chain=["gosem/GoListFacts.v", "gosem/GoListLPush.v", "gosem/GoListLRem.v", "gosem/GoListCode.v"]),
    "set": dict(dir="ds/set", args=["-module", "GoSet"], gen="generated/GoSet.v", chain=["gosem/GoSetFacts.v"]),
    "zset": dict(dir="ds/zset", args=["-module", "GoZSet", "-only", "SortedSet.sanitizeIndexes"], gen="generated/GoZSet.v",
                 chain=["gosem/GoZSetFacts.v"], deps=["list"]),
    "codec": dict(dir=".", gen="generated/GoCodec.v", chain=["gosem/GoCodecFacts.v"],
                  args=["-module", "GoCodec", "-skipfiles", "verif_on.go,verif_dump.go", "-only",
                        "Entry.Size,Entry.setEntryHeaderBuf,Entry.Encode,Entry.IsZero,Entry.GetCrc,readMetaData,"
                        "BPTreeRootIdx.Size,BPTreeRootIdx.Encode,BPTreeRootIdx.GetCrc,BPTreeRootIdx.IsZero,"
                        "BucketMeta.Size,BucketMeta.Encode,BucketMeta.GetCrc,IsExpired,DB.isFilterEntry,getNewKey,compare"]),
    "page": dict(dir=".", gen="generated/GoPage.v", chain=["gosem/GoPageFacts.v"],
                 args=["-module", "GoPage", "-skipfiles", "verif_on.go,verif_dump.go", "-only", "pageEntries"]),
    "scan": dict(dir=".", gen="generated/GoScan.v", chain=["gosem/GoScanFacts.v"], deps=["set"],
                 args=["-module", "GoScan", "-skipfiles", "verif_on.go,verif_dump.go", "-only",
                       "processEntriesScanOnDisk,SortedEntryKeys,Tx.buildTempBucketMetaIdx"]),
    "txz": dict(dir=".", gen="generated/GoTxZ.v", chain=["gosem/GoTxZFacts.v"], deps=["list", "set", "zset"],
                args=["-module", "GoTxZ", "-skipfiles", "verif_on.go,verif_dump.go",
                      "-imports", "github.com/xujiajun/nutsdb/ds/list=%s/generated/GoList.json,github.com/xujiajun/nutsdb/ds/set=%s/generated/GoSet.json,"
                                  "github.com/xujiajun/nutsdb/ds/zset=%s/generated/GoZSet.json" % (COQ, COQ, COQ),
                      "-only", "Tx.checkTxIsClosed,Tx.put,Tx.ZRem,Tx.ZRemRangeByRank,Tx.ZMembers,Tx.ZCard"]),
    "tx": dict(dir=".", gen="generated/GoTx.v", chain=["gosem/GoTxFacts.v"], deps=["list", "set"],
               args=["-module", "GoTx", "-skipfiles", "verif_on.go,verif_dump.go",
                     "-imports", "github.com/xujiajun/nutsdb/ds/list=%s/generated/GoList.json,github.com/xujiajun/nutsdb/ds/set=%s/generated/GoSet.json" % (COQ, COQ),
                     "-only", "Tx.checkTxIsClosed,Tx.put,Tx.Put,Tx.PutWithTimestamp,Tx.Delete,Tx.push,Tx.RPeek,Tx.RPop,Tx.RPush,Tx.LPush,Tx.LPeek,"
                     "Tx.LPop,Tx.LSize,Tx.LRange,Tx.LRem,Tx.LSet,Tx.LTrim,Tx.sPut,Tx.SAdd,Tx.SRem,Tx.sMove,Tx.SMoveByOneBucket,Tx.SMoveByTwoBuckets,"
                     "Tx.SAreMembers,Tx.SCard,Tx.SDiffByOneBucket,Tx.SDiffByTwoBuckets,Tx.SHasKey,Tx.SIsMember,Tx.SMembers,Tx.SPop,"
                     "Tx.SUnionByOneBucket,Tx.SUnionByTwoBuckets"]),
}
# which ties a property depends on, and its code-level property file
TIES_FOR = {"C05": ["list"], "C20": ["list", "page"], "C06": ["set"], "C21": ["codec"], "C15": ["codec"], "C01": ["codec"], "C04": ["codec"],
            "C12": ["tx", "txz"], "C13": ["tx", "txz"], "C07": ["zset", "txz"], "C03": ["page"], "C02": ["scan"]}
CODE_PROPS = {"C05": "properties_code/C05_code.v", "C20": "properties_code/C05_code.v", "C06": "properties_code/C06_code.v",
              "C21": "properties_code/C21_code.v", "C15": "properties_code/C15_code.v", "C01": "properties_code/C01_code.v",
              "C04": "properties_code/C04_code.v", "C12": "properties_code/C13_code.v", "C13": "properties_code/C13_code.v",
              "C07": "properties_code/C07_code.v", "C03": "properties_code/C03_code.v", "C02": "properties_code/C02_code.v"}


def build_translator():
    os.makedirs(os.path.join(TRANSLATOR_DIR, "_bin"), exist_ok=True)
    rc, out = sh(["go", "build", "-o", TRANSLATOR, "."], cwd=TRANSLATOR_DIR, timeout=600, env=GOENV)
    return rc == 0, out


def _needs_compile(v, newest_dep):
    vo = v[:-2] + ".vo"
    if not os.path.exists(vo):
        return True
    m = os.path.getmtime(vo)
    return m < os.path.getmtime(v) or m < newest_dep


def _coqc_tie(rel, newest_dep):
    """Compiles coq/<rel> when out of date. Returns (ok, output, mtime of the .vo)."""
    v = os.path.join(COQ, rel)
    if _needs_compile(v, newest_dep):
        rc, out = sh(["coqc"] + TIE_ARGS + [rel], cwd=COQ, timeout=1500)
        if rc != 0:
            try:
                os.remove(v[:-2] + ".vo")
            except OSError:
                pass
            return False, out, 0
    return True, "", os.path.getmtime(v[:-2] + ".vo")


def translation_tie(name):
    """Regenerates coq/generated/<X>.v from /repo's current source with the translator and
    re-checks every Coq file that depends on it.  Returns dict(ok, stage, file, output, functions, regenerated)."""
    import fcntl
    tie = TIES[name]
    res = dict(name=name, ok=False, stage="", file="", output="", functions=[], skipped=[], regenerated=False)
    dep_newest = 0
    for d in tie.get("deps", []):
        rd = translation_tie(d)
        if not rd["ok"]:
            res.update(stage="dependency tie '%s': %s" % (d, rd["stage"]), file=rd["file"], output=rd["output"])
            return res
        dep_newest = max(dep_newest, rd.get("newest", 0))
    lock = open(os.path.join(COQ, ".tie.lock"), "w")
    fcntl.flock(lock, fcntl.LOCK_EX)
    try:
        ok, out = build_translator()
        if not ok:
            res.update(stage="translator build", output=out[-3000:])
            return res
        tmp = os.path.join(scratch_dir("tie-" + name), "out.v")
        try:
            rc, out = sh([TRANSLATOR, "-dir", tie["dir"], "-out", tmp] + tie["args"], cwd=REPO, timeout=600, env=GOENV)
            if rc != 0:
                res.update(stage="translation (the package no longer parses / type-checks)", output=out[-3000:])
                return res
            new = open(tmp).read()
            side = tmp[:-2] + ".json"
            sidecar = open(side).read() if os.path.exists(side) else None
        finally:
            shutil.rmtree(os.path.dirname(tmp), ignore_errors=True)
        gen = os.path.join(COQ, tie["gen"])
        os.makedirs(os.path.dirname(gen), exist_ok=True)
        old = open(gen).read() if os.path.exists(gen) else None
        if old != new:
            open(gen, "w").write(new)
            res["regenerated"] = True
        if sidecar is not None:
            sj = gen[:-2] + ".json"
            if not os.path.exists(sj) or open(sj).read() != sidecar:
                open(sj, "w").write(sidecar)
        res["functions"] = re.findall(r"^\(\* \S+  func (\S+) \*\)", new, re.M)
        m = re.search(r"\(\* not translated:\n(.*?)\*\)", new, re.S)
        res["skipped"] = [l.strip() for l in (m.group(1) if m else "").split("\n") if l.strip()]
        newest = max([os.path.getmtime(os.path.join(COQ, "theories", f)) for f in os.listdir(os.path.join(COQ, "theories")) if f.endswith(".vo")] or [0])
        for rel in ["gosem/GoSem.v", tie["gen"]] + tie["chain"]:
            ok, out, mt = _coqc_tie(rel, newest)
            if not ok:
                res.update(stage="coqc", file=rel, output=out[-3000:])
                return res
            newest = max(newest, mt)
            if rel == "gosem/GoSem.v":
                newest = max(newest, dep_newest)   # the files of the ties this one imports come after GoSem.v
        res["ok"] = True
        res["newest"] = newest
        return res
    finally:
        fcntl.flock(lock, fcntl.LOCK_UN)
        lock.close()


def coq_code_obligations(pid, newest_dep=0):
    """Re-checks the code-level property file of pid (theorems about the translated Go code)."""
    rel = CODE_PROPS.get(pid)
    res = dict(obligations=0, discharged=0, theorems=[], ok=True, output="", file=rel)
    if not rel:
        return res
    src = os.path.join(COQ, rel)
    text = open(src).read()
    names = re.findall(r"^\s*(?:Theorem|Lemma|Corollary)\s+(\w+)", text, re.M)
    examples = re.findall(r"^\s*Example\s+(\w+)", text, re.M)
    res["obligations"] = len(names) + len(examples)
    rc, out = sh(["coqc"] + TIE_ARGS + [rel], cwd=COQ, timeout=1200)
    res["output"] = out
    if rc != 0:
        res["ok"] = False
        return res
    printed = re.findall(r"^\s*Print Assumptions\s+(\w+)", text, re.M)
    blocks = re.split(r"(?m)^(?=Closed under the global context|Axioms:)", out)
    blocks = [b.strip() for b in blocks if b.strip().startswith(("Closed under", "Axioms:"))]
    res["theorems"] = [(n, blocks[i] if i < len(blocks) else "?") for i, n in enumerate(printed)]
    res["discharged"] = res["obligations"]
    res["unprinted"] = [n for n in names if n not in printed]
    return res


# ---------------------------------------------------------------- builds

def build_driver():
    rc, out = sh(["./build.sh"], cwd=DRIVER_DIR, timeout=1200)
    return rc == 0, out


def build_harness(race=False):
    shutil.copyfile(os.path.join(REPO, "go.sum"), os.path.join(HARNESS_DIR, "go.sum"))
    os.makedirs(os.path.join(HARNESS_DIR, "_bin"), exist_ok=True)
    out_bin = HARNESS + ("-race" if race else "")
    cmd = ["go", "build", "-tags", "verif"] + (["-race"] if race else []) + ["-o", out_bin, "."]
    rc, out = sh(cmd, cwd=HARNESS_DIR, timeout=1200, env=GOENV)
    return rc == 0, out, out_bin


def scratch_dir(tag):
    base = "/dev/shm" if os.path.isdir("/dev/shm") and os.access("/dev/shm", os.W_OK) else "/tmp"
    d = os.path.join(base, "verif-%s-%d" % (tag, os.getpid()))
    shutil.rmtree(d, ignore_errors=True)
    os.makedirs(d)
    return d


def run_driver(trace_text, timeout=3000):
    try:
        p = subprocess.run([DRIVER], input=trace_text, stdout=subprocess.PIPE, stderr=subprocess.PIPE, text=True,
                           timeout=timeout)
        return p.returncode, p.stdout, p.stderr
    except subprocess.TimeoutExpired:
        return 124, "", "driver timeout"


# ---------------------------------------------------------------- results

def write_replay(pid, kind, payload):
    os.makedirs(REPLAYS, exist_ok=True)
    body = json.dumps(dict(property_id=pid, kind=kind, **payload), indent=1, sort_keys=True)
    h = hashlib.sha1(body.encode()).hexdigest()[:12]
    path = os.path.join(REPLAYS, "%s-%s.json" % (pid, h))
    with open(path, "w") as f:
        f.write(body)
    return path


def write_evidence(pid, tier, seed, coverage, wall_s, violations, assumptions=None, level="proof"):
    os.makedirs(EVIDENCE, exist_ok=True)
    ev = dict(property_id=pid, tier=tier, seed=int(seed), level=level, coverage=coverage,
              assumptions=assumptions or [], wall_s=round(wall_s, 2), violations=int(violations))
    with open(os.path.join(EVIDENCE, pid + ".json"), "w") as f:
        json.dump(ev, f, indent=1)
    return ev


def load_known_findings():
    p = os.path.join(ROOT, "known_findings.json")
    if not os.path.exists(p):
        return []
    return json.load(open(p)).get("findings", [])
