"""Shrinking of failing histories: remove whole transactions, then single calls,
as long as the history still fails (implementation vs specification or vs model)
when re-executed on the real code."""
import os
import shutil
import subprocess

import vcommon as vc


def _calls(lines):
    out = []
    for l in lines:
        if not l or l.startswith("#") or l.startswith("now "):
            continue
        out.append(l.split(" = ")[0])
    return out


def still_fails(calls, binary=None, timeout=60):
    """Re-executes the calls on the implementation and replays them through model and
    specification.  Returns (fails, impl_output_lines)."""
    work = vc.scratch_dir("shrink")
    try:
        try:
            p = subprocess.run([binary or vc.HARNESS, "exec", "-work", work], input="\n".join(calls) + "\n",
                               stdout=subprocess.PIPE, stderr=subprocess.PIPE, text=True, timeout=timeout)
        except subprocess.TimeoutExpired:
            return True, ["<timeout: deadlock?>"]
        impl = p.stdout
        rc, model, err = vc.run_driver(impl, timeout=timeout)
        il, ml = impl.split("\n"), model.split("\n")
        bad = "SPEC " in err or "#SPEC" in impl or " = panic" in impl
        for i, l in enumerate(il):
            if l and not l.startswith("#") and (i >= len(ml) or ml[i] != l):
                bad = True
                break
        return bad, [l for l in il if l]
    finally:
        shutil.rmtree(work, ignore_errors=True)


def _blocks(calls):
    """Groups calls: a transaction (begin .. up to the next begin/close/open/merge/reset) is one block."""
    blocks, cur = [], None
    for c in calls:
        head = c.split(" ")[0]
        if head == "begin":
            if cur:
                blocks.append(cur)
            cur = [c]
        elif head in ("close", "open", "merge", "reset", "backup"):
            if cur:
                blocks.append(cur)
                cur = None
            blocks.append([c])
        else:
            if cur is None:
                blocks.append([c])
            else:
                cur.append(c)
    if cur:
        blocks.append(cur)
    return blocks


def shrink(history_lines, budget=120, binary=None):
    """Returns (shrunk history as implementation output lines, attempts)."""
    calls = _calls(history_lines)
    ok, out = still_fails(calls, binary)
    if not ok:
        return None, 1          # does not reproduce through exec (e.g. clock-dependent): keep the original
    attempts = 1
    blocks = _blocks(calls)
    # 1. drop whole blocks, last to first (keep reset/open at the front)
    i = len(blocks) - 1
    while i >= 0 and attempts < budget:
        b = blocks[i]
        if b[0].split(" ")[0] in ("reset",) or (i <= 1 and b[0].startswith("open")):
            i -= 1
            continue
        cand = blocks[:i] + blocks[i + 1:]
        attempts += 1
        f, o = still_fails([c for bl in cand for c in bl], binary)
        if f:
            blocks, out = cand, o
        i -= 1
    # 2. drop single calls inside transactions
    bi = 0
    while bi < len(blocks) and attempts < budget:
        b = blocks[bi]
        ci = 1
        while b[0].startswith("begin") and ci < len(b) and attempts < budget:
            if b[ci].split(" ")[0] in ("commit", "rollback"):
                ci += 1
                continue
            cand_b = b[:ci] + b[ci + 1:]
            cand = blocks[:bi] + [cand_b] + blocks[bi + 1:]
            attempts += 1
            f, o = still_fails([c for bl in cand for c in bl], binary)
            if f:
                blocks, out, b = cand, o, cand_b
            else:
                ci += 1
        bi += 1
    return out, attempts
