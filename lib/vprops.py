"""Per-property checks (called by /verif/check)."""
import json
import os
import shutil
import subprocess
import sys
import time

import vcommon as vc
import vhist
import vshrink


class Run:
    def __init__(self, pid, tier, seed):
        self.pid, self.tier, self.seed = pid, tier, seed
        self.t0 = time.time()
        self.violations = []      # (replay path, has_failing_input)
        self.known_lines = []     # KNOWN-FINDING lines
        self.cov = dict(evaluations=0, distinct_nontrivial=0, rule="", samples=[],
                        obligations=0, discharged=0, checker_cmd="", trusted_base=list(vc.TRUSTED_BASE),
                        traces_validated_against_impl=0, suites={})
        self.assumptions = []
        self.broken_obligations = []   # text descriptions of proof-side breakage
        self.spec_failures = []        # failing inputs found on the implementation
        self.tie_failures = []         # implementation != model
        self.known_hits = {}           # finding id -> number of histories attributed to it

    # ------------------------------------------------------------ plumbing
    def violation(self, kind, payload, failing_input):
        path = vc.write_replay(self.pid, kind, payload)
        self.violations.append((path, failing_input))

    def prologue(self):
        """Builds everything from /repo's working tree; records proof obligations."""
        ok, out = vc.coq_build()
        if not ok:
            self.broken_obligations.append(dict(what="coq development does not build", output=out[-3000:]))
        hits = vc.coq_scan_forbidden()
        if hits:
            self.broken_obligations.append(dict(what="forbidden constructs in the development", hits=hits))
        ob = vc.coq_property_obligations(self.pid)
        self.cov["obligations"] = ob["obligations"]
        self.cov["discharged"] = ob["discharged"] if ob["ok"] else 0
        self.cov["checker_cmd"] = ("make -C coq -j16 (full .vo) && coqc -Q theories Verif -Q properties VerifProps "
                                   "properties/%s.v  [re-run on every check]" % self.pid)
        self.cov["theorems"] = [dict(name=n, print_assumptions=a) for n, a in ob["theorems"]]
        if not ob["ok"]:
            self.broken_obligations.append(dict(what="properties/%s.v does not check" % self.pid,
                                                output=ob["output"][-3000:]))
        else:
            for n, a in ob["theorems"]:
                if not a.startswith("Closed under the global context"):
                    self.assumptions.append("%s depends on: %s" % (n, " ".join(a.split())))
            if ob.get("unprinted"):
                self.broken_obligations.append(dict(what="theorems without Print Assumptions", names=ob["unprinted"]))
        # second tie: the Gallina translation of the Go source, regenerated now, and the theorems about it
        for tie in vc.TIES_FOR.get(self.pid, []):
            r = vc.translation_tie(tie)
            self.cov.setdefault("translation_ties", []).append(dict(
                name=tie, ok=r["ok"], regenerated_this_run=r["regenerated"], functions_translated=r["functions"],
                not_translated=r["skipped"], files_rechecked=[vc.TIES[tie]["gen"]] + vc.TIES[tie]["chain"]))
            if not r["ok"]:
                self.broken_obligations.append(dict(
                    what="translation tie '%s': the Gallina translation of /repo/%s no longer satisfies the theorems "
                         "proved about it (%s%s)" % (tie, vc.TIES[tie]["dir"], r["stage"], " " + r["file"] if r["file"] else ""),
                    output=r["output"]))
        if self.pid in vc.CODE_PROPS and not any(b["what"].startswith("translation tie") for b in self.broken_obligations):
            ob2 = vc.coq_code_obligations(self.pid)
            self.cov["obligations"] += ob2["obligations"]
            self.cov["discharged"] += ob2["discharged"] if ob2["ok"] else 0
            self.cov["checker_cmd"] += " ; veriftr (Go -> Gallina) on /repo + coqc %s  [re-run on every check]" % ob2["file"]
            self.cov["theorems"] += [dict(name=n, print_assumptions=a) for n, a in ob2["theorems"]]
            if not ob2["ok"]:
                self.broken_obligations.append(dict(what="%s does not check" % ob2["file"], output=ob2["output"][-3000:]))
            else:
                for n, a in ob2["theorems"]:
                    if not a.startswith("Closed under the global context"):
                        self.assumptions.append("%s depends on: %s" % (n, " ".join(a.split())))
                if ob2.get("unprinted"):
                    self.broken_obligations.append(dict(what="theorems without Print Assumptions", names=ob2["unprinted"]))
        if self.tier == "thorough" and self.pid in vc.CODE_PROPS and not self.broken_obligations:
            okc, summary = vc.coqchk_code(self.pid)
            self.cov["coqchk_code"] = summary
            if not okc:
                self.broken_obligations.append(dict(what="coqchk does not accept %s or reports axioms" % vc.CODE_PROPS[self.pid],
                                                    output=summary))
        if self.tier == "thorough" and ob["ok"]:
            okc, summary = vc.coqchk_property(self.pid)
            self.cov["coqchk"] = summary
            if not okc:
                self.broken_obligations.append(dict(what="coqchk does not accept properties/%s.vo or reports axioms" % self.pid,
                                                    output=summary))
        ok, out = vc.build_driver()
        if not ok:
            self.broken_obligations.append(dict(what="model extraction / driver build failed", output=out[-3000:]))
        ok, out, _ = vc.build_harness()
        if not ok:
            self.broken_obligations.append(dict(what="harness does not build against /repo", output=out[-3000:]))
            return False
        return os.path.exists(vc.DRIVER)

    def run_suite(self, name, args, timeout=3000, env=None):
        """Runs a harness suite, replays its trace through the model, diffs.
        Returns dict(lines, mismatches=[(impl_line, model_line)], spec=[...], done=...)."""
        work = vc.scratch_dir(self.pid + "-" + name)
        try:
            e = dict(os.environ)
            e["VERIF_TIER"] = self.tier
            if env:
                e.update(env)
            cmd = [vc.HARNESS, name, "-seed", str(self.seed), "-work", work] + [str(x) for x in args]
            p = subprocess.run(cmd, stdout=subprocess.PIPE, stderr=subprocess.PIPE, text=True, timeout=timeout, env=e)
            trace = p.stdout
            res = dict(lines=0, mismatches=[], spec=[], info=[], rc=p.returncode, stderr=p.stderr[-2000:])
            if p.returncode != 0:
                return res
            rc, model, err = vc.run_driver(trace)
            res["driver_rc"], res["driver_err"] = rc, err[-2000:]
            tl, ml = trace.split("\n"), model.split("\n")
            for i, l in enumerate(tl):
                if not l:
                    continue
                if l.startswith("#"):
                    if l.startswith("#SPEC"):
                        res["spec"].append(l)
                    else:
                        res["info"].append(l)
                    continue
                res["lines"] += 1
                m = ml[i] if i < len(ml) else "<model output missing>"
                if m != l:
                    res["mismatches"].append((l, m))
            res["trace_lines"] = tl
            return res
        finally:
            shutil.rmtree(work, ignore_errors=True)

    def absorb(self, suite, res, nontrivial_rule, nontrivial_count, samples):
        self.cov["suites"][suite] = dict(lines=res["lines"], mismatches=len(res["mismatches"]),
                                         spec_failures=len(res["spec"]), info=res["info"][-5:])
        self.cov["evaluations"] += res["lines"]
        self.cov["traces_validated_against_impl"] += res["lines"]
        self.cov["distinct_nontrivial"] += nontrivial_count
        self.cov["rule"] = (self.cov["rule"] + " | " if self.cov["rule"] else "") + suite + ": " + nontrivial_rule
        self.cov["samples"] += samples
        if res["rc"] != 0 or res.get("driver_rc", 0) != 0:
            self.tie_failures.append(dict(suite=suite, what="harness or driver crashed", rc=res["rc"],
                                          stderr=res["stderr"], driver_err=res.get("driver_err", "")))
        for l, m in res["mismatches"][:20]:
            self.tie_failures.append(dict(suite=suite, impl=l[:4000], model=m[:4000]))
        for s in res["spec"][:20]:
            self.spec_failures.append(dict(suite=suite, what=s[:4000]))

    # ------------------------------------------------------------ decision
    def decide(self):
        pid = self.pid
        for f in self.spec_failures[:3] + self.tie_failures[:2]:
            if f.get("history") and f.get("source", "oracle") != "harness":
                try:
                    out, attempts = vshrink.shrink(f["history"])
                    if out:
                        f["shrunk_history"] = out
                        f["shrink_attempts"] = attempts
                except Exception as e:   # shrinking is best effort
                    f["shrink_error"] = str(e)
        if self.spec_failures:
            # a concrete failing input on the implementation
            self.violation("history", dict(failing=self.spec_failures[:5], tie_failures=self.tie_failures[:5],
                                           broken_obligations=self.broken_obligations,
                                           replay="./check replay <this file>"), True)
        elif self.tie_failures or self.broken_obligations:
            self.violation("obligation", dict(
                note="a proof obligation or the model/implementation correspondence no longer checks; "
                     "the searches below found no input on which the implementation breaks the property",
                broken_obligations=self.broken_obligations, tie_failures=self.tie_failures[:10],
                searches=self.cov.get("rule", "")), False)
        wall = time.time() - self.t0
        vc.write_evidence(pid, self.tier, self.seed, self.cov, wall, len(self.violations), self.assumptions)
        for f in vc.load_known_findings():
            if self.pid in f.get("properties", []) and self.known_hits.get(f["id"]):
                self.known_lines.append("KNOWN-FINDING: property=%s %s %s" % (self.pid, f["id"], f["what"]))
        self.cov["known_findings_hit"] = dict(self.known_hits)
        for l in self.known_lines:
            print(l)
        for path, failing in self.violations:
            print("VIOLATION property=%s replay=%s%s" % (pid, path, "" if failing else " no-failing-input-found"))
        vc.write_evidence(pid, self.tier, self.seed, self.cov, time.time() - self.t0, len(self.violations), self.assumptions)
        sys.stdout.flush()
        return 1 if self.violations else 0

    def execute(self):
        fn = CHECKS.get(self.pid)
        if fn is None:
            print("unknown property", self.pid, file=sys.stderr)
            return 2
        ready = self.prologue()
        if ready:
            fn(self)
        return self.decide()



# ---------------------------------------------------------------- history suites

def hist_suite(run, name, harness_args, nontrivial_rule, known=None, use_driver=True, timeout=3000, binary=None, env=None, seed=None, only=None):
    """Runs one harness suite of histories; absorbs coverage; classifies failures.
    known: optional function (HistResult, idx, text) -> finding id or None, attributing a
    spec failure to a listed known finding."""
    r = vhist.run_hist(harness_args, run.tier, run.seed if seed is None else seed, run.pid + "-" + name, timeout=timeout, use_driver=use_driver, binary=binary, env=env)
    if r.races:
        run.spec_failures.append(dict(suite=name, source="go race detector", what="%d data race reports; first: %s" % (r.races, r.race_excerpt)))
        r.rc = 0
    cov = run.cov
    cov["suites"][name] = dict(lines=r.lines, histories=r.histories, mismatches=len(r.mismatch),
                               spec_failures=len(r.spec) + len(r.hspec), info=r.info[-8:])
    cov["evaluations"] += r.lines
    cov["traces_validated_against_impl"] += r.lines if use_driver else 0
    cov["distinct_nontrivial"] += len(r.distinct)
    if nontrivial_rule:
        cov["rule"] = (cov["rule"] + " | " if cov["rule"] else "") + name + ": " + nontrivial_rule
    dist = cov.setdefault("distribution", {})
    dist[name] = dict(ops=r.ops, outcomes=r.outcomes)
    if len(cov["samples"]) < 8:
        body = [l for l in r.trace if l and not l.startswith("#") and not l.startswith("now ")]
        cov["samples"] += body[5:8] + [l for l in body if " = entries" in l or " = nodes" in l or " = list x" in l][:2]
    if r.rc != 0 or r.driver_rc != 0:
        run.tie_failures.append(dict(suite=name, what="harness or driver crashed / timed out", rc=r.rc,
                                     stderr=r.stderr, driver_rc=r.driver_rc, driver_err=r.driver_err))
    for l in r.info:
        if l.startswith("#KNOWN "):
            fid = l.split(" ")[1]
            run.known_hits[fid] = run.known_hits.get(fid, 0) + 1
    tainted = set()   # history start indexes whose spec comparison is suspended by a known finding
    starts = []
    cur = 0
    for j, l in enumerate(r.trace):
        if l.startswith("#H "):
            cur = j
        starts.append(cur)
    def hstart(i):
        return starts[i] if 0 <= i < len(starts) else 0
    fails = sorted([(i, "oracle", t) for i, t in r.spec] + [(i, "harness", t) for i, t in r.hspec])
    if only:
        # this suite judges one aspect only (e.g. "every Open succeeds"); the others are another property's business
        fails = [f for f in fails if only(f[1], f[2])]
    for i, src, text in fails:
        h = hstart(i)
        if h in tainted:
            continue
        fid = known(r, i, text) if known else None
        if fid:
            tainted.add(h)
            run.known_hits[fid] = run.known_hits.get(fid, 0) + 1
            continue
        tainted.add(h)   # report the first failure of a history only
        if len(run.spec_failures) < 10:
            run.spec_failures.append(dict(suite=name, source=src, what=text[:3000], history=vhist.history_of(r, i)))
        else:
            run.spec_failures_more = getattr(run, "spec_failures_more", 0) + 1
    seen = set()
    for i, l, m in r.mismatch:
        h = hstart(i)
        if h in seen:
            continue
        seen.add(h)
        if len(run.tie_failures) < 10:
            run.tie_failures.append(dict(suite=name, impl=l[:3000], model=m[:3000], history=vhist.history_of(r, i)))
    return r

# ---------------------------------------------------------------- C21

def check_C21(run):
    n = 60 if run.tier == "quick" else 400
    res = run.run_suite("codec", ["-n", n])
    lines = res.get("trace_lines", [])
    kinds = {}
    distinct = set()
    for l in lines:
        if l and not l.startswith("#"):
            k = l.split(" ", 1)[0]
            kinds[k] = kinds.get(k, 0) + 1
            distinct.add(l.split(" = ")[0])
    outcomes = {}
    for l in lines:
        if l.startswith(("dec ", "rdec ", "bdec ")):
            o = l.split(" = ")[1].split(" ")[0:2]
            key = l.split(" ", 1)[0] + ":" + " ".join(o[:2] if o[0] == "err" else o[:1])
            outcomes[key] = outcomes.get(key, 0) + 1
    run.cov["distribution"] = dict(commands=kinds, outcomes=outcomes)
    samples = [l for l in lines if l.startswith("enc ")][:2] + [l for l in lines if " = err crc" in l][:1] + \
              [l for l in lines if " = err eof" in l][:1]
    run.absorb("codec", res,
               "generated records (empty/zero/'|'/random fields, extreme 64-bit values) x {encode, decode in both RW modes, "
               "every single-bit flip, every truncation}; a case is distinct by its call text; all are non-trivial (each decodes a "
               "different byte image); two adjacent records of different buckets are also decoded through one data file and "
               "rendered afterwards", len(distinct), samples)
    check_hist_generic(run, [("sparse", "sparse", 60, 1200, RULE_HIST + "; profile sparse (HintBPTSparseIdxMode): after every "
                              "successful Commit the bucket meta file written by the library is decoded with ReadBucketMeta and must "
                              "give exactly the smallest and largest key written so far (the record the library writes decodes to the "
                              "fields that were written)")])
    n = 60 if run.tier == "quick" else 1500
    hist_suite(run, "mergecorrupt", ["hist", "-n", n, "-x", "mergecorrupt"], "key/value histories over several segments; then one "
               "bit of a record in a sealed segment (any byte except the size fields) is flipped on disk while the database is "
               "open, Merge is called, and every Get - in the running process and after a reopen - must return an error or a "
               "value that was written for that key at some time (corruption is never served as data, also not through Merge)",
               use_driver=False)



# ---------------------------------------------------------------- history-based properties

DS_OF = dict(put="kv", putnow="kv", get="kv", getall="kv", range="kv", pscan="kv", psscan="kv")
DS_OF["del"] = "kv"
for _o in ("rpush", "lpush", "rpop", "lpop", "rpeek", "lpeek", "lsize", "lrange", "lrem", "lset", "ltrim"):
    DS_OF[_o] = "list"
for _o in ("sadd", "srem", "saremembers", "sismember", "smembers", "shaskey", "spop", "scard", "sdiff1", "sdiff2",
           "smove1", "smove2", "sunion1", "sunion2"):
    DS_OF[_o] = "set"
for _o in ("zadd", "zmembers", "zcard", "zcount", "zpopmax", "zpopmin", "zpeekmax", "zpeekmin", "zrangebyscore",
           "zrangebyrank", "zrem", "zremrangebyrank", "zrank", "zrevrank", "zscore", "zgetbykey"):
    DS_OF[_o] = "zset"
WRITES = {"put", "putnow", "del", "rpush", "lpush", "rpop", "lpop", "lrem", "lset", "ltrim", "sadd", "srem", "spop",
          "smove1", "smove2", "zadd", "zpopmax", "zpopmin", "zrem", "zremrangebyrank"}
BLIND = {"put", "putnow", "del", "rpush", "lpush", "sadd", "srem", "zadd"}   # writes that validate nothing


def structs_of(call):
    """(ds, bucket) pairs a call touches"""
    t = call.split(" ")
    ds = DS_OF.get(t[0])
    if ds is None or len(t) < 2:
        return set()
    out = {(ds, t[1])}
    if t[0] in ("sdiff2", "smove2", "sunion2") and len(t) > 3:
        out.add((ds, t[3]))
    return out


def known_F21(r, idx, text):
    """F21 (C13): the failing call reads / validates a structure that an earlier call of
    the same write transaction modified."""
    wrote = set()
    j = idx - 1
    calls = []
    while j >= 0:
        l = r.trace[j]
        if l.startswith("begin ") or l.startswith("#H"):
            break
        calls.append(l.split(" = ")[0])
        j -= 1
    if j < 0 or not r.trace[j].startswith("begin w"):
        return None
    for c in reversed(calls):
        if c.split(" ")[0] in WRITES:
            wrote |= structs_of(c)
    cur = r.trace[idx].split(" = ")[0]
    if cur.split(" ")[0] in BLIND:
        return None
    if structs_of(cur) & wrote:
        return "F21"
    return None


CHUNK = 400   # histories per harness/driver invocation (bounds memory in the thorough tier)


def check_hist_generic(run, suites, known=None):
    for name, prof, nq, nt, rule in suites:
        n = nq if run.tier == "quick" else nt
        k, first = 0, True
        while n > 0:
            m = min(n, CHUNK)
            hist_suite(run, name if first else "%s#%d" % (name, k), ["hist", "-n", m, "-x", prof],
                       rule if first else "", known=known, seed=run.seed + 7919 * k)
            n -= m
            k += 1
            first = False


RULE_HIST = ("random histories (reset, open with random RAM index mode x RWMode x StartFileLoadingMode x SyncEnable x "
             "segment size 150..400, transactions of 1-5 calls, commit/rollback, calls on finished transactions, "
             "reopen with full observation) executed on the real library; every call's result is compared with the "
             "extracted engine model AND with the L0 specification; a case is one call, distinct by its text")


def check_C01(run):
    check_hist_generic(run, [("kv", "kv", 400, 8000, RULE_HIST + "; profile kv: Put/PutWithTimestamp/Delete/Get/GetAll/"
                              "RangeScan/PrefixScan/PrefixSearchScan, TTLs on both sides of expiry, exact-fill and oversize entries"),
                             ("kvdeep", "kvdeep", 200, 4000, RULE_HIST + "; profile kvdeep: 48 keys in one bucket inserted in scattered "
                              "order over 30 transactions, so that the real B+ tree has several levels and inner leaves split"),
                             ("framekv", "framekv", 100, 2000, RULE_HIST + "; profile framekv: key/value buckets b, b1, bk, bk1 and keys "
                              "1key, key, k1key, 1, 11, k, k1 (bucket+key concatenations coincide across buckets), transactions of 2-6 "
                              "calls over several buckets, reopen after a quarter of them")])


def check_C03(run):
    check_hist_generic(run, [("scan", "scan", 400, 8000, RULE_HIST + "; profile scan: dense key space with many deleted and "
                              "expired keys inside the scanned prefixes, offset 0..5, limit -1..5, regexps"),
                             ("kvdeep", "kvdeep", 120, 2400, RULE_HIST + "; profile kvdeep (multi-level B+ tree)"),
                             ("scanbin", "scanbin", 150, 3000, RULE_HIST + "; profile scanbin: binary keys and prefixes ending in 0xFF / 0x00"),
                             ("sparsepage", "sparsepage", 120, 2400, RULE_HIST + "; profile sparsepage: the scan profile in "
                              "HintBPTSparseIdxMode (one bucket, keys spread over sealed segments with on-disk indexes), offsets 0..5, "
                              "limits -1..5: the model is run with RAM semantics, so sparse pages must equal RAM pages and the spec"),
                             ("scanmerge", "scanmerge", 120, 2400, RULE_HIST + "; profile scanmerge: RAM index modes, one bucket, "
                              "deletes / re-puts / expiring puts with Merge in the same process lifetime (25% of the steps), then scans "
                              "with offsets 0..5 and limits -1..5"),
                             ("pages", "pages", 40, 600, "paging sweep: for random contents over 7 keys x {live, deleted, expired, "
                              "absent} — in every other case followed by a Merge in the same process lifetime and a transaction that "
                              "puts deleted / expired / absent keys again and deletes live ones — "
                              "every (prefix, offset 0..n+1, limit 1..n+1) PrefixScan and offset-0 PrefixSearchScan; the "
                              "harness also concatenates the pages offset=0,limit,2*limit.. and compares with the live keys")])


def check_C04(run):
    check_hist_generic(run, [("frame", "frame", 300, 6000, RULE_HIST + "; profile frame: bucket names '', a, ab, abc, b and keys "
                              "bc, c, b, a, ab, abc (coinciding bucket+key concatenations), all four structures; the L0 "
                              "specification is a map bucket -> structure, so any cross-bucket effect is a spec mismatch"),
                             ("framedense", "framedense", 150, 3000, RULE_HIST + "; profile framedense: two buckets (a, ab), two keys, "
                              "two members, mostly set calls incl. SMoveByTwoBuckets: the same key names hold a structure in both "
                              "buckets, so a call that consults the wrong bucket finds something there"),
                             ("sparsepfx", "sparsepfx", 60, 1200, RULE_HIST + "; profile sparsepfx: HintBPTSparseIdxMode, key/value buckets "
                              "b and ba (one name a prefix of the other), keys chosen so that no bucket+key concatenation of one "
                              "bucket equals one of the other, sealed segments with multi-level on-disk trees; the only read is Get "
                              "(scans and GetAll across such buckets are known finding F18)")])
    check_hist_generic(run, [("framemerge", "framemerge", 150, 3000, RULE_HIST + "; profile framemerge: colliding bucket / key / member "
                              "names across buckets and across data structures (key/value, sets, sorted sets), with Merge after 30% "
                              "of the transactions and reopens: Merge must not let one bucket's records decide about another's "
                              "(Merge's known findings F30 are attributed as in C15)")],
                       known=known_merge)


def check_C05(run):
    check_hist_generic(run, [("list", "list", 500, 10000, RULE_HIST + "; profile list: RPush/LPush/pops/peeks/LSize/LRange/LRem/"
                              "LSet/LTrim with indexes -7..7 and +-2^63, values with '|' and empty"),
                             ("listidx", "listidx", 100, 2000, RULE_HIST + "; profile listidx: several LSet / LTrim per transaction"),
                             ("dslist", "dslist", 300, 6000, "the exported ds/list type driven directly (no transaction layer): "
                              "random call sequences compared with ListDS.v")])


def check_C06(run):
    check_hist_generic(run, [("set", "set", 500, 10000, RULE_HIST + "; profile set: all 14 set calls incl. SPop (member chosen by "
                              "the code is an oracle input checked for membership), SMove*, empty and repeated members"),
                             ("setamb", "setamb", 150, 3000, RULE_HIST + "; profile setamb: buckets s, sa, keys a, ab, b, members "
                              "'', b, bc, c, x, 1x: bucket / key / member byte strings that concatenate ambiguously"),
                             ("dsset", "dsset", 300, 6000, "the exported ds/set type driven directly"),
                             ("faultset", "faultset", 60, 1200, "fault injection into the Commit of set transactions (the C12 protocol on "
                              "the set profile): an I/O error at each mutation point; after Rollback and after reopen every set "
                              "observation must equal the one before the transaction")])
    check_hist_generic(run, [("setraw", "setraw", 450, 6000, RULE_HIST + "; profile setraw: set transactions that remove a member and then "
                              "move / re-add it in the same transaction; impl = model must hold; a spec mismatch is attributed to known "
                              "finding F21 (C13) only when the failing call validates a set the transaction already modified")],
                       known=known_F21)


def check_C07(run):
    check_hist_generic(run, [("zset", "zset", 500, 10000, RULE_HIST + "; profile zset: all 16 sorted-set calls, scores -2..3 with "
                              "many ties, empty member key, every rank/score bound below min to above max in both orders"),
                             ("dszset", "dszset", 300, 6000, "the exported ds/zset type driven directly under many random "
                              "level layouts (math/rand reseeded per sequence)")])


def check_C08(run):
    check_hist_generic(run, [("reopen", "reopen", 300, 6000, RULE_HIST + "; profile reopen: all structures, Close/Open after half of "
                              "the transactions with the full observation battery before and after (harness-side comparison "
                              "'#SPEC reopen-changed' + model + spec)"),
                             ("sparse", "sparse", 60, 2500, RULE_HIST + "; profile sparse: key/value data in HintBPTSparseIdxMode with keys of "
                              "different lengths, reopens with the observation battery (sealed segments are found again through the "
                              "persisted root-index and bucket-meta records)"),
                             ("crczero", "crczero", 80, 1600, RULE_HIST + "; profile crczero: half of the write transactions end with a "
                              "key/value record whose value is forged so that the CRC-32 of the stored record is exactly 0 (sometimes 1), "
                              "reopen after half of the transactions"),
                             ("manyseg", "manyseg", 25, 500, RULE_HIST + "; profile manyseg: 45 transactions over segments of 150-200 "
                              "bytes (more than ten and more than twenty data files, ids with one and two digits), reopened often"),
                             ("framekv", "framekv", 80, 1600, RULE_HIST + "; profile framekv: key/value buckets whose names are prefixes "
                              "of each other with keys whose bucket+key concatenations coincide, reopen after a quarter of the "
                              "transactions")])


def check_C12(run):
    check_hist_generic(run, [("abort", "abort", 300, 6000, RULE_HIST + "; profile abort: 35% rollbacks, 12% oversize entries at "
                              "random positions, 25% read-only transactions calling mutating APIs, calls on finished transactions"),
                             ("fault", "fault", 60, 1200, "fault injection: for a write transaction of k records, an I/O error is "
                              "injected at each mutation point of Commit (with a partial write of 0, 10, 42, all-1 bytes); after "
                              "Rollback and after reopen the full observation must equal the one before the transaction; a sync "
                              "error after a complete write: all or nothing; every third case is aimed: the transaction overwrites "
                              "a live key and fails exactly at the write of its last record, further segments are filled and Merge "
                              "runs in the same process: reads must not change, before and after a reopen"),
                             ("sparse", "sparse", 60, 1200, RULE_HIST + "; profile sparse: 10% read-only transactions that scan "
                              "(GetAll, RangeScan, PrefixScan) in HintBPTSparseIdxMode: a read-only transaction leaves every later "
                              "read unchanged")])


def check_C13(run):
    check_hist_generic(run, [("mixed", "mixed", 300, 6000, RULE_HIST + "; profile mixed (no call reads a structure its own "
                              "transaction wrote): per-call results and final state = serial execution on L0"),
                             ("bigtx", "bigtx", 150, 3000, RULE_HIST + "; profile bigtx: write transactions of 8-22 calls (up to ~40 "
                              "records) interleaving buckets and structures with order-sensitive blind writes"),
                             ("listidx", "listidx", 150, 3000, RULE_HIST + "; profile listidx: transactions holding several LSet / "
                              "LTrim calls on different lists (record keys 'key|index' built per call)"),
                             ("raw", "raw", 200, 4000, RULE_HIST + "; profile raw: transactions that read/pop/validate structures "
                              "they already modified; impl = model must hold; spec mismatches are attributed to known finding F21 "
                              "only when the failing call reads a structure written earlier in the same transaction")],
                       known=known_F21)


RULE_CRASH = ("the workload (7 transactions over all structures, random RAM index mode / RWMode / StartFileLoadingMode / "
              "SyncEnable / segment size 150-300) runs once on the real library with every file mutation recorded through the "
              "verif hooks; for EVERY mutation point, and for each write a set of torn prefixes (0,1,4,12,16,20,22,26,30,32,34,"
              "42,43,n/2,n-1 bytes), the directory a crash would leave is rebuilt from the recorded events, opened with the real "
              "Open (alternating RWMode/StartFileLoadingMode) and fully observed; the observation must equal the live observation "
              "before the in-flight transaction or after it; every 7th image is continued (5 further commits forcing a rotation, "
              "clean close, reopen). A case is one image; all are distinct (event index x torn length x variant)")


def crash_cov(run, r):
    for l in r.info:
        if l.startswith("#STAT crash images="):
            try:
                imgs = int(l.split("images=")[1].split(" ")[0])
                run.cov["evaluations"] += imgs
                run.cov["distinct_nontrivial"] += imgs
                run.cov.setdefault("crash_images", 0)
                run.cov["crash_images"] += imgs
            except Exception:
                pass


RULE_SPARSE_CRASH = ("the same enumeration in HintBPTSparseIdxMode: a key/value workload in one bucket (30 keys, 14 transactions, "
                     "segments of 300-600 bytes, so several segments are sealed with on-disk index trees), every mutation point and torn "
                     "prefix; images taken inside a Commit that rewrites index or bucket-meta files are known finding F32 (counted, not "
                     "failed); every other image must open and show the state before or after the in-flight transaction")


def sparse_crash(run, suite):
    n = 2 if run.tier == "quick" else 40
    r = hist_suite(run, suite, ["hist", "-n", n, "-x", suite], RULE_SPARSE_CRASH, use_driver=False)
    crash_cov(run, r)


def check_C09(run):
    n = 12 if run.tier == "quick" else 250
    r = hist_suite(run, "crash", ["hist", "-n", n, "-x", "crash"], RULE_CRASH, use_driver=False)
    crash_cov(run, r)
    sparse_crash(run, "crashsparse")
    check_hist_generic(run, [("reopen", "reopen", 150, 3000, RULE_HIST + "; profile reopen (exact-fill entries, no-op operations, "
                              "reads of missing buckets; every Close/Open must succeed)"),
                             ("abort", "abort", 100, 2000, RULE_HIST + "; profile abort (failed and rolled-back transactions before reopen)"),
                             ("sparse", "sparse", 80, 1600, RULE_HIST + "; profile sparse: HintBPTSparseIdxMode, one bucket per history drawn "
                              "from names that also end in letters of '.meta', keys of different lengths (the bucket meta record grows "
                              "and shrinks), Close/Open after 15% of the transactions: every Open must succeed"),
                             ("manyseg", "manyseg", 15, 300, RULE_HIST + "; profile manyseg: more than ten data files, reopened often")])
    n = 150 if run.tier == "quick" else 3000
    hist_suite(run, "rawreopen", ["hist", "-n", n, "-x", "rawreopen"],
               RULE_HIST + "; profile rawreopen: transactions that pop / remove / trim structures they already modified (their records "
               "are no-ops or errors when applied), then Close and Open; judged here: every Open succeeds and nothing panics "
               "(the results of such transactions are C13's known finding F21)",
               only=lambda src, text: src == "harness" and ("open-failed" in text or "panic" in text or "close failed" in text))
    n = 60 if run.tier == "quick" else 1200
    hist_suite(run, "fuzzsparse", ["hist", "-n", n, "-x", "fuzzsparse"], "the sparse-mode fuzz suite of C20, judged here for Open: in "
               "every fourth history the segments are filled by one structure only (list, set or sorted-set records: no key index), "
               "rotated several times, and the directory is closed and opened again - Open must succeed",
               use_driver=False, only=lambda src, text: "open-failed" in text)


def check_C10(run):
    n = 14 if run.tier == "quick" else 300
    r = hist_suite(run, "crash", ["hist", "-n", n, "-x", "crash"], RULE_CRASH, use_driver=False)
    crash_cov(run, r)
    sparse_crash(run, "crashsparse")
    check_hist_generic(run, [("fault", "fault", 45, 900, "the C12 fault-injection suite, here for 'loses no committed transaction': "
                              "after a Commit that failed with an I/O error (nothing, a prefix or all of the record written) later "
                              "transactions commit into the same segment (also one that forces a rotation) and must survive the "
                              "reopen")])


def check_C11(run):
    n = 12 if run.tier == "quick" else 250
    r = hist_suite(run, "power", ["hist", "-n", n, "-x", "power"], RULE_CRASH + "; POWER LOSS (SyncEnable=true): additionally each "
                   "image is built from the DURABLE content (each file reverts to its content at its last sync; the unsynced last "
                   "write dropped, kept or torn) and the recorded trace is checked against the protocol predicate of TraceFacts "
                   "(every data-file write followed by a sync of that file before the next write)", use_driver=False)
    crash_cov(run, r)
    n = 8 if run.tier == "quick" else 160
    r2 = hist_suite(run, "mergepower", ["hist", "-n", n, "-x", "mergepower"],
                    "POWER LOSS around Merge (SyncEnable=true): a workload over key/value data, sets and sorted sets followed by Merge "
                    "with every file mutation recorded; for every mutation point inside Merge the DURABLE image (files at their last "
                    "sync, removals durable) is rebuilt, opened and observed: every transaction committed before Merge must be "
                    "present (differences of class F30 — an empty structure answers 'not found' — are Merge's known finding)",
                    use_driver=False)
    crash_cov(run, r2)
    sparse_crash(run, "powersparse")


def check_C19(run):
    n = 12 if run.tier == "quick" else 250
    hist_suite(run, "opts", ["hist", "-n", n, "-x", "opts"], RULE_HIST + "; every history is executed under all 16 combinations of "
               "{HintKeyValAndRAMIdxMode, HintKeyAndRAMIdxMode} x RWMode x StartFileLoadingMode x SyncEnable; result sequences "
               "(incl. full observations after every reopen) must be identical across combinations, and each run equals model and spec")
    check_hist_generic(run, [("reopen", "reopen", 300, 6000, RULE_HIST + "; profile reopen under random option combinations, with "
                              "entries that fill a segment to its last byte followed at once by a reopen"),
                             ("sparse", "sparse", 80, 2500, RULE_HIST + "; profile sparse: HintBPTSparseIdxMode under random RWMode / "
                              "StartFileLoadingMode / SyncEnable; the model is run with RAM semantics, so every key/value result of the "
                              "sparse mode must equal the RAM-mode result; after every Commit the bucket meta file must decode to the "
                              "range of the keys written"),
                             ("sparse2", "sparse2", 40, 1500, RULE_HIST + "; profile sparse2: sparse mode, segments with multi-level "
                              "on-disk index trees"),
                             ("manyseg", "manyseg", 20, 400, RULE_HIST + "; profile manyseg: more than ten data files under random options")])


def check_C20(run):
    n = 400 if run.tier == "quick" else 8000
    hist_suite(run, "fuzz", ["hist", "-n", n, "-x", "fuzz"], "boundary-heavy calls of every exported DB/Tx method (empty keys and "
               "buckets, '|' separators, +-2^63 indexes and counts, NaN/Inf/denormal scores, invalid regexps, closed database, "
               "finished transactions, Merge/Backup/Close in any state, reopen with other options); panics are recovered per call and "
               "reported; a case is one call", use_driver=False)
    n = 200 if run.tier == "quick" else 4000
    hist_suite(run, "fuzzsparse", ["hist", "-n", n, "-x", "fuzzsparse"], "the same in HintBPTSparseIdxMode (two thirds key/value calls, "
               "the rest on lists, sets and sorted sets: a call that succeeds must not make a later Commit panic in any index mode), "
               "30 seeded writes, PrefixScan over buckets that hold keys with offsets -1..3 and limits up to +-2^63, and in every "
               "fourth history eight transactions of one structure only that rotate the segment", use_driver=False)
    check_hist_generic(run, [("list", "list", 200, 4000, RULE_HIST + "; profile list with +-2^63 arguments: a panic is a mismatch "
                              "with the (panic-free) model"),
                             ("zset", "zset", 200, 4000, RULE_HIST + "; profile zset with extreme ranks"),
                             ("dslist", "dslist", 200, 4000, "exported ds/list driven directly with +-2^63 arguments")])


def check_C22(run):
    n = 12 if run.tier == "quick" else 250
    hist_suite(run, "modes", ["hist", "-n", n, "-x", "modes"], "all 9 pairs (mode that created the directory, mode used to reopen) "
               "over directory states {empty, freshly opened, written, rotated over several segments, merged, torn tail}: "
               "sparse<->RAM must be refused with the directory byte-identical (sha1 of every file) before and after; RAM<->RAM and "
               "same-mode reopen must succeed with an identical full observation (RAM<->RAM runs are also compared with model and spec)")


EMPTY_ANSWERS = {"bool 0", "int 0", "list", "nodes", "node -"}


def merged_before(r, idx):
    for j in range(idx, -1, -1):
        l = r.trace[j]
        if l.startswith("#H "):
            return False
        if l.startswith("merge = ok"):
            return True
    return False


def known_merge(r, idx, text):
    """Known findings of Merge (C15/C16): F30 — a structure (or structure key) that is empty loses its existence after
    Merge + reopen: the read answers 'not found' (err) where the specification gives an emptiness answer;
    F14 — list records are re-applied / dropped by Merge."""
    if not merged_before(r, idx):
        return None
    call = r.trace[idx].split(" = ")[0] if not text.startswith("#SPEC") else ""
    m = __import__("re").search(r"impl=(.*) spec=(.*)$", text)
    if m:
        impl, spec = m.group(1), m.group(2)
        op = call.split(" ")[0]
        if DS_OF.get(op) == "list":
            return "F14"
        if impl == "err" and spec in EMPTY_ANSWERS:
            return "F30"
    if text.startswith("#SPEC") and ("lrange" in text or "lsize" in text):
        return "F14"
    return None


def check_C15(run):
    check_hist_generic(run, [("merge", "merge", 250, 5000, RULE_HIST + "; profile merge: key/value (TTL, deletes), sets and sorted sets in "
                              "HintKeyValAndRAMIdxMode with small segments, Merge after 30% of the transactions (repeatedly), more "
                              "writes, reopens; observation before/after every Merge and reopen; Merge is replayed by the model "
                              "(Merge.v) and is the identity of the specification"),
                             ("merge1", "merge1", 150, 3000, RULE_HIST + "; the same in HintKeyAndRAMIdxMode (values read back through "
                              "the index hints Merge rewrites)"),
                             ("mergezpos", "mergezpos", 200, 4000, RULE_HIST + "; profile mergezpos: one sorted set with many rank-range "
                              "removals, pops and removals by key on small segments (whole segments die), Merge and reopen after a third "
                              "of the transactions (the scenario of fix 71d5512)"),
                             ("mergelist", "mergelist", 100, 2000, RULE_HIST + "; profile mergelist: lists included — impl = model must "
                              "hold; spec failures on list calls after a Merge are attributed to known finding F14")],
                       known=known_merge)
    n = 60 if run.tier == "quick" else 1200
    hist_suite(run, "mergefault", ["hist", "-n", n, "-x", "mergefault"],
               "Merge with an I/O error injected at a random file mutation (create, truncate, record write with a partial write, "
               "sync, remove): whether Merge reports success or failure, every read must be unchanged in the running process and "
               "after reopen, and a write committed afterwards must be durable", use_driver=False)


def check_C16(run):
    n = 70 if run.tier == "quick" else 700
    r = hist_suite(run, "mergecrash", ["hist", "-n", n, "-x", "mergecrash"],
                   "a workload over key/value data, sets and sorted sets (12 transactions, small segments) followed by Merge with "
                   "every file mutation recorded; for every mutation point inside Merge (create, truncate, every record write "
                   "with torn prefixes, sync, remove) the directory image is rebuilt, opened with the real Open and observed: the "
                   "observation must equal the one taken before Merge.  Differences of class F30 (an empty structure answers "
                   "'not found') are counted as the known finding; anything else is a violation", use_driver=False)
    crash_cov(run, r)
    n = 8 if run.tier == "quick" else 160
    r2 = hist_suite(run, "mergecrashpos", ["hist", "-n", n, "-x", "mergecrashpos"],
                    "the same enumeration for a workload dominated by one sorted set with position-dependent removals (ZPopMin/ZPopMax/"
                    "ZRemRangeByRank with small ranks): differences of the sorted sets those records touch, after a crash INSIDE Merge, are "
                    "known finding F31 (counted); every other difference — other buckets and structures, or after a completed Merge — is a "
                    "violation", use_driver=False)
    crash_cov(run, r2)


RULE_CONC = ("4-16 goroutines per database (1-2 databases at once) run mixed View/Update transactions on the real library, built "
             "with -race, with runtime.Gosched injected at every file mutation through the verif hook; every write transaction reads "
             "a sequence number and writes it back incremented together with list/set/sorted-set/key-value writes, so its position in the "
             "serial order is data-derived; checks: no lost update, real-time order, readers see one state (two structures of equal "
             "size), 20 s deadlock watchdog, race detector; the run is then emitted as a serial trace in that order and replayed by the "
             "engine model and the L0 specification, and the final state is read back after a clean reopen")


def race_binary(run):
    ok, out, path = vc.build_harness(race=True)
    if not ok:
        run.broken_obligations.append(dict(what="race-enabled harness does not build", output=out[-2000:]))
        return None
    return path


def check_C14(run):
    b = race_binary(run)
    n = 25 if run.tier == "quick" else 600
    hist_suite(run, "conc", ["hist", "-n", n, "-x", "conc"], RULE_CONC, binary=b, env={"GORACE": "halt_on_error=0 exitcode=0"})
    check_hist_generic(run, [("sparse", "sparse", 60, 1200, RULE_HIST + "; profile sparse (HintBPTSparseIdxMode, which the concurrent "
                              "suite does not run): the degenerate schedule - read-only transactions that scan, then read-only "
                              "transactions that Get - must already be serial: a read must not change what a later read returns")])


def check_C17(run):
    b = race_binary(run)
    n = 25 if run.tier == "quick" else 600
    hist_suite(run, "concmerge", ["hist", "-n", n, "-x", "concmerge"], RULE_CONC + "; additionally one goroutine per database calls "
               "Merge three times while the transactions run (sets instead of lists: known finding F14)", binary=b,
               env={"GORACE": "halt_on_error=0 exitcode=0"})
    check_hist_generic(run, [("mergeduring", "mergeduring", 80, 1600, RULE_HIST + "; profile mergeduring: during 40% of the write "
                              "transactions Merge is CALLED from another goroutine while the transaction holds the lock (it must wait "
                              "and then work on the segments as they are when it gets the lock; the transactions rotate the segment); "
                              "in the trace the Merge stands after the Commit (the serial order); sorted sets with positional "
                              "removals, sets, key/value data, reopen after 30% of the transactions; Merge's known finding F30 is "
                              "attributed as in C15")], known=known_merge)
    n = 36 if run.tier == "quick" else 600
    hist_suite(run, "backup", ["hist", "-n", n, "-x", "backup"], RULE_BACKUP + " (here for Merge against the read transaction that "
               "Backup is: a Merge issued while the copy is under way must wait; a Backup issued while Merge removes old segments "
               "must wait)")


RULE_BACKUP = (RULE_HIST + "; then Backup into a new directory under six schedules: (0-2) a writer tries to commit while the copy is "
               "parked on a FIFO that sorts first in the directory (mixed workload / after a successful Merge on the same handle / "
               "more than ten segments): the write transaction must not commit while the copy is in progress, and the copy, opened "
               "with the same options, must give the full observation taken just before Backup; (3) the same with a Merge issued "
               "while the copy is parked: it must not run to completion; (4) Backup is called while a write transaction holds the "
               "lock and that transaction's Commit rotates the segment: the copy must contain the transaction; (5) Backup is called "
               "at the moment Merge removes its first old segment: the copy must be the merged directory (equal to the source "
               "reopened)")


def check_C18(run):
    n = 60 if run.tier == "quick" else 900
    hist_suite(run, "backup", ["hist", "-n", n, "-x", "backup"], RULE_BACKUP)


def check_C02(run):
    check_hist_generic(run, [("sparse", "sparse", 120, 2000, RULE_HIST + "; profile sparse: HintBPTSparseIdxMode, one bucket, 12 keys with "
                              "shared prefixes, segments of 150-350 bytes (most keys live in sealed segments reached through the "
                              "on-disk index files), Put/PutWithTimestamp/Delete/TTL, reopens; reads Get/GetAll/RangeScan/PrefixScan "
                              "(large limit); the model is run with RAM-mode semantics, i.e. sparse results must equal RAM results"),
                             ("sparse2", "sparse2", 50, 800, RULE_HIST + "; profile sparse2: 30 keys, 45 small transactions, segments "
                              "of 600-1500 bytes (on-disk key tree and transaction-id tree with inner nodes)"),
                             ("sparsebig", "sparsebig", 60, 1200, RULE_HIST + "; profile sparsebig: transactions of 6-14 records over "
                              "segments of 150-250 bytes (a transaction spans several segments; some segments hold no commit record)")])


CHECKS = {
    "C21": check_C21, "C01": check_C01, "C03": check_C03, "C04": check_C04, "C05": check_C05, "C06": check_C06,
    "C07": check_C07, "C08": check_C08, "C12": check_C12, "C13": check_C13,
    "C02": check_C02, "C15": check_C15, "C16": check_C16, "C14": check_C14, "C17": check_C17, "C18": check_C18,
    "C09": check_C09, "C10": check_C10, "C11": check_C11, "C19": check_C19, "C20": check_C20, "C22": check_C22,
}


# ---------------------------------------------------------------- replay

def replay(path):
    """Re-runs the failing lines of a replay file against the implementation and the model."""
    r = json.load(open(path))
    print(json.dumps(r, indent=1)[:6000])
    lines = []
    for f in r.get("failing", []) + r.get("tie_failures", []):
        if "shrunk_history" in f:
            lines += ["#H replay (shrunk)"] + [l for l in f["shrunk_history"] if not l.startswith("#H")]
        elif "history" in f:
            lines += ["#H replay"] + [l for l in f["history"] if not l.startswith("#H")]
        elif "impl" in f:
            lines.append(f["impl"])
    if not lines:
        return 0
    ok, out, _ = vc.build_harness()
    if not ok:
        print(out)
        return 1
    work = vc.scratch_dir("replay")
    try:
        p = subprocess.run([vc.HARNESS, "exec", "-work", work], input="\n".join(lines) + "\n",
                           stdout=subprocess.PIPE, stderr=subprocess.STDOUT, text=True)
        print("--- implementation now:")
        print(p.stdout)
        rc, model, err = vc.run_driver(p.stdout)
        print("--- model:")
        print(model)
        print("--- spec oracle (impl vs L0 spec):")
        print(err)
        return 0 if (p.stdout.strip() == model.strip() and "SPEC " not in err and "#SPEC" not in p.stdout) else 1
    finally:
        shutil.rmtree(work, ignore_errors=True)
