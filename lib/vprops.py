"""Per-property checks (called by /verif/check)."""
import json
import os
import shutil
import subprocess
import sys
import time

import vcommon as vc


class Run:
    def __init__(self, pid, tier, seed):
        self.pid, self.tier, self.seed = pid, tier, seed
        self.t0 = time.time()
        self.violations = []      # (replay path, has_failing_input)
        self.known_lines = []     # KNOWN-FINDING lines
        self.cov = dict(evaluations=0, distinct_nontrivial=0, rule="", samples=[],
                        obligations=0, discharged=0, checker_cmd="", trusted_base=list(vc.TRUSTED_BASE),
                        traces_validated_against_impl=0, suites={})
        self.assumptions = []
        self.broken_obligations = []   # text descriptions of proof-side breakage
        self.spec_failures = []        # failing inputs found on the implementation
        self.tie_failures = []         # implementation != model

    # ------------------------------------------------------------ plumbing
    def violation(self, kind, payload, failing_input):
        path = vc.write_replay(self.pid, kind, payload)
        self.violations.append((path, failing_input))

    def prologue(self):
        """Builds everything from /repo's working tree; records proof obligations."""
        ok, out = vc.coq_build()
        if not ok:
            self.broken_obligations.append(dict(what="coq development does not build", output=out[-3000:]))
        hits = vc.coq_scan_forbidden()
        if hits:
            self.broken_obligations.append(dict(what="forbidden constructs in the development", hits=hits))
        ob = vc.coq_property_obligations(self.pid)
        self.cov["obligations"] = ob["obligations"]
        self.cov["discharged"] = ob["discharged"] if ob["ok"] else 0
        self.cov["checker_cmd"] = ("make -C coq -j16 (full .vo) && coqc -Q theories Verif -Q properties VerifProps "
                                   "properties/%s.v  [re-run on every check]" % self.pid)
        self.cov["theorems"] = [dict(name=n, print_assumptions=a) for n, a in ob["theorems"]]
        if not ob["ok"]:
            self.broken_obligations.append(dict(what="properties/%s.v does not check" % self.pid,
                                                output=ob["output"][-3000:]))
        else:
            for n, a in ob["theorems"]:
                if not a.startswith("Closed under the global context"):
                    self.assumptions.append("%s depends on: %s" % (n, " ".join(a.split())))
            if ob.get("unprinted"):
                self.broken_obligations.append(dict(what="theorems without Print Assumptions", names=ob["unprinted"]))
        ok, out = vc.build_driver()
        if not ok:
            self.broken_obligations.append(dict(what="model extraction / driver build failed", output=out[-3000:]))
        ok, out, _ = vc.build_harness()
        if not ok:
            self.broken_obligations.append(dict(what="harness does not build against /repo", output=out[-3000:]))
            return False
        return os.path.exists(vc.DRIVER)

    def run_suite(self, name, args, timeout=3000, env=None):
        """Runs a harness suite, replays its trace through the model, diffs.
        Returns dict(lines, mismatches=[(impl_line, model_line)], spec=[...], done=...)."""
        work = vc.scratch_dir(self.pid + "-" + name)
        try:
            e = dict(os.environ)
            e["VERIF_TIER"] = self.tier
            if env:
                e.update(env)
            cmd = [vc.HARNESS, name, "-seed", str(self.seed), "-work", work] + [str(x) for x in args]
            p = subprocess.run(cmd, stdout=subprocess.PIPE, stderr=subprocess.PIPE, text=True, timeout=timeout, env=e)
            trace = p.stdout
            res = dict(lines=0, mismatches=[], spec=[], info=[], rc=p.returncode, stderr=p.stderr[-2000:])
            if p.returncode != 0:
                return res
            rc, model, err = vc.run_driver(trace)
            res["driver_rc"], res["driver_err"] = rc, err[-2000:]
            tl, ml = trace.split("\n"), model.split("\n")
            for i, l in enumerate(tl):
                if not l:
                    continue
                if l.startswith("#"):
                    if l.startswith("#SPEC"):
                        res["spec"].append(l)
                    else:
                        res["info"].append(l)
                    continue
                res["lines"] += 1
                m = ml[i] if i < len(ml) else "<model output missing>"
                if m != l:
                    res["mismatches"].append((l, m))
            res["trace_lines"] = tl
            return res
        finally:
            shutil.rmtree(work, ignore_errors=True)

    def absorb(self, suite, res, nontrivial_rule, nontrivial_count, samples):
        self.cov["suites"][suite] = dict(lines=res["lines"], mismatches=len(res["mismatches"]),
                                         spec_failures=len(res["spec"]), info=res["info"][-5:])
        self.cov["evaluations"] += res["lines"]
        self.cov["traces_validated_against_impl"] += res["lines"]
        self.cov["distinct_nontrivial"] += nontrivial_count
        self.cov["rule"] = (self.cov["rule"] + " | " if self.cov["rule"] else "") + suite + ": " + nontrivial_rule
        self.cov["samples"] += samples
        if res["rc"] != 0 or res.get("driver_rc", 0) != 0:
            self.tie_failures.append(dict(suite=suite, what="harness or driver crashed", rc=res["rc"],
                                          stderr=res["stderr"], driver_err=res.get("driver_err", "")))
        for l, m in res["mismatches"][:20]:
            self.tie_failures.append(dict(suite=suite, impl=l[:4000], model=m[:4000]))
        for s in res["spec"][:20]:
            self.spec_failures.append(dict(suite=suite, what=s[:4000]))

    # ------------------------------------------------------------ decision
    def decide(self):
        pid = self.pid
        if self.spec_failures:
            # a concrete failing input on the implementation
            self.violation("history", dict(failing=self.spec_failures[:5], tie_failures=self.tie_failures[:5],
                                           broken_obligations=self.broken_obligations,
                                           replay="./check replay <this file>"), True)
        elif self.tie_failures or self.broken_obligations:
            self.violation("obligation", dict(
                note="a proof obligation or the model/implementation correspondence no longer checks; "
                     "the searches below found no input on which the implementation breaks the property",
                broken_obligations=self.broken_obligations, tie_failures=self.tie_failures[:10],
                searches=self.cov.get("rule", "")), False)
        wall = time.time() - self.t0
        vc.write_evidence(pid, self.tier, self.seed, self.cov, wall, len(self.violations), self.assumptions)
        for l in self.known_lines:
            print(l)
        for path, failing in self.violations:
            print("VIOLATION property=%s replay=%s%s" % (pid, path, "" if failing else " no-failing-input-found"))
        sys.stdout.flush()
        return 1 if self.violations else 0

    def execute(self):
        fn = CHECKS.get(self.pid)
        if fn is None:
            print("unknown property", self.pid, file=sys.stderr)
            return 2
        ready = self.prologue()
        if ready:
            fn(self)
        return self.decide()


# ---------------------------------------------------------------- C21

def check_C21(run):
    n = 60 if run.tier == "quick" else 400
    res = run.run_suite("codec", ["-n", n])
    lines = res.get("trace_lines", [])
    kinds = {}
    distinct = set()
    for l in lines:
        if l and not l.startswith("#"):
            k = l.split(" ", 1)[0]
            kinds[k] = kinds.get(k, 0) + 1
            distinct.add(l.split(" = ")[0])
    outcomes = {}
    for l in lines:
        if l.startswith(("dec ", "rdec ", "bdec ")):
            o = l.split(" = ")[1].split(" ")[0:2]
            key = l.split(" ", 1)[0] + ":" + " ".join(o[:2] if o[0] == "err" else o[:1])
            outcomes[key] = outcomes.get(key, 0) + 1
    run.cov["distribution"] = dict(commands=kinds, outcomes=outcomes)
    samples = [l for l in lines if l.startswith("enc ")][:2] + [l for l in lines if " = err crc" in l][:1] + \
              [l for l in lines if " = err eof" in l][:1]
    run.absorb("codec", res,
               "generated records (empty/zero/'|'/random fields, extreme 64-bit values) x {encode, decode in both RW modes, "
               "every single-bit flip, every truncation}; a case is distinct by its call text; all are non-trivial (each decodes a "
               "different byte image)", len(distinct), samples)


CHECKS = {
    "C21": check_C21,
}


# ---------------------------------------------------------------- replay

def replay(path):
    """Re-runs the failing lines of a replay file against the implementation and the model."""
    r = json.load(open(path))
    print(json.dumps(r, indent=1)[:6000])
    lines = []
    for f in r.get("failing", []) + r.get("tie_failures", []):
        for k in ("impl",):
            if k in f:
                lines.append(f[k])
    if not lines:
        return 0
    ok, out, _ = vc.build_harness()
    if not ok:
        print(out)
        return 1
    work = vc.scratch_dir("replay")
    try:
        p = subprocess.run([vc.HARNESS, "exec", "-work", work], input="\n".join(lines) + "\n",
                           stdout=subprocess.PIPE, stderr=subprocess.STDOUT, text=True)
        print("--- implementation now:")
        print(p.stdout)
        rc, model, err = vc.run_driver(p.stdout)
        print("--- model:")
        print(model)
        return 0 if p.stdout.strip() == model.strip() else 1
    finally:
        shutil.rmtree(work, ignore_errors=True)
