#!/usr/bin/env python3
"""genprop.py <out.v> <header-file> <spec-file>
spec-file lines:  TheoremName | FactsFile.v | lemma_name | comment
Copies each lemma's statement verbatim from the facts file and closes it with
`exact lemma`, followed by Print Assumptions (so a property theorem can never be
quietly weaker than the lemma that proves it)."""
import re, sys, os
out, header, spec = sys.argv[1:4]
root = os.path.join(os.path.dirname(os.path.abspath(__file__)), "..", "coq", "theories")
res = [open(header).read().rstrip() + "\n"]
for line in open(spec):
    line = line.strip()
    if not line or line.startswith("#"):
        continue
    if line.startswith("RAW "):
        res.append(line[4:].replace("<NL>", "\n"))
        continue
    th, f, lem, comment = [x.strip() for x in line.split("|", 3)]
    src = open(os.path.join(root, f)).read()
    m = re.search(r"^(?:Lemma|Theorem|Corollary|Example)\s+" + re.escape(lem) + r"\s*:(.*?)\.[ \t]*(?:\(\*[^\n]*\*\))?[ \t]*\n\s*Proof", src, re.S | re.M)
    if not m:
        sys.exit("statement of %s not found in %s (binder-form lemmas are not supported)" % (lem, f))
    stmt = m.group(1).strip()
    res.append("\n(** %s *)\nTheorem %s :\n  %s.\nProof. exact %s. Qed.\nPrint Assumptions %s.\n" % (comment, th, stmt, lem, th))
open(out, "w").write("".join(res))
