#!/usr/bin/env python3
"""Generates coq/properties_code/C13_code.v from coq/gosem/GoTxFacts.v: every equivalence theorem of the
translated transaction layer is restated (statement copied verbatim) and closed by `exact`."""
import re
src = open('/verif/coq/gosem/GoTxFacts.v').read()
names = re.findall(r"^Theorem\s+(go_Tx_\w+)", src, re.M)
names = [n for n in names if not n.endswith("sample_false")]
out = ['''(** C13 / C12 / C05 / C06 (code level) — theorems about the Gallina translation of
    the TRANSACTION LAYER of /repo for key/value writes, lists and sets (tx.go
    put/Put/PutWithTimestamp/checkTxIsClosed, tx_bptree.go Delete, all of
    tx_list.go and tx_set.go), re-translated on every run into generated/GoTx.v
    (which calls the translated ds/list and ds/set).  [tx_abs g w t]: the Go
    transaction object g stands for model transaction t running against world
    w (same writable flag, same id, pending entries = tx_pend t with the size
    fields equal to the lengths, list and set indexes of tx.db = those of w).
    Each theorem: the Go function returns without panic; for a mutating call the
    new Go object stands for the model transaction after [do_op] (same records
    appended to the pending writes, indexes untouched) and the error agrees with
    the model result; for a read the object is unchanged and the value agrees
    (list-valued set results up to the map iteration order, i.e. after sorting).
    Statements copied verbatim from gosem/GoTxFacts.v, closed by [exact]. *)
From Coq Require Import Permutation.
From Verif Require Import Bytes BytesFacts Codec Dec DecFacts ListDS ListFacts SetDS SetFacts ZSetDS Index Engine.
From VerifGo Require Import GoSem GoListFacts GoSetFacts GoTxFacts.
From VerifGen Require GoList GoSet.
From VerifGen Require Import GoTx.
Open Scope Z_scope.

''']
for n in names:
    m = re.search(r"^Theorem\s+" + n + r"\b(.*?)\.\s*\nProof", src, re.S | re.M)
    assert m, n
    body = m.group(1).strip()
    binders, rest = body.split(':', 1)
    binders = binders.strip()
    fa = ("forall " + binders + ", ") if binders else ""
    new = "C13_code_" + n[len("go_Tx_"):]
    out.append("Theorem %s : %s%s.\nProof. exact %s. Qed.\nPrint Assumptions %s.\n\n" % (new, fa, rest.strip(), n, new))
open('/verif/coq/properties_code/C13_code.v', 'w').write("".join(out))
print(len(names), "theorems")
