#!/usr/bin/env python3
"""Regenerates /verif/MANIFEST.json from the table below."""
import json, os, subprocess
ROOT = os.path.dirname(os.path.dirname(os.path.abspath(__file__)))
TB = ("Trusted: Coq 8.16.1 kernel (full .vo build, vm_compute for concrete witnesses only, no native_compute, no axioms: "
      "Print Assumptions of every property theorem is recorded in the evidence); extraction with ExtrOcamlBasic only; the OCaml "
      "driver glue; the Go harness, its generators and the verif hooks; Go runtime semantics as modelled (64-bit ints as Z where "
      "no wrap can occur, bytes.Compare, strings.Split, strconv). ")
P = {
 "C01": ("Rocq theorems: on the engine model every key/value read returns exactly the L0 specification's answer (kv_reads_refine) "
         "under the index/spec correspondence kvrel, which holds initially, is re-established by every Commit (any buckets, rotations) "
         "and survives reopen; the B+ tree leaf-chain walks equal filters of the live pairs (IndexFacts). Tie: every call of generated "
         "histories (both RAM index modes, FileIO/MMap, small segments, TTLs on both sides of expiry, multi-level trees) is executed on "
         "the real library and compared with the extracted model and with the L0 specification. Whole histories: KVHistory.history_kvrel / "
         "history_reads_refine_any_mode run engine and specification side by side on ANY list of calls. Translation tie (code level, "
         "C01_code.v): IsExpired and compare as translated from /repo on every run equal the model's is_expired (uint64 wrap) and bcompare.",
         "The tree shape of the in-memory B+ tree is abstracted to its sorted leaf chain (covered by the tie with 48-key buckets). "
         "Hypothesis kv_ok: timestamp+TTL < 2^64 (uint64 wrap of IsExpired)."),
 "C02": ("Rocq theorems (Sparse.v/SparseFacts.v): Get, RangeScan/GetAll and PrefixScan computed segment by segment (active index, "
         "then sealed segments newest first, first occurrence wins, dead records shadow) equal the reads of the single merged index, "
         "whose reads C01 ties to the specification. Tie: sparse-mode histories on the real library (small segments, deep on-disk "
         "trees, transactions spanning several segments, reopens) compared call by call with the engine model run with RAM semantics and "
         "with the L0 spec. Translation tie (C02_code.v): processEntriesScanOnDisk and SortedEntryKeys, re-translated from /repo on every "
         "run, equal the model's process_scan for every input and every iteration order of the Go map; buildTempBucketMetaIdx folds to the "
         "[smallest, largest] key.",
         "The on-disk B+ tree node traversal and the index files' bytes are abstracted (per-segment sorted key list); covered by the tie. "
         "Single-bucket histories as the property states (the bucket++key ambiguity across buckets is not claimed)."),
 "C03": ("Rocq theorems: PrefixScan/PrefixSearchScan on any sorted index with any mix of live, deleted and expired records = skip offset "
         "live prefixed keys, keep matching ones, at most limit (kv_prefix_scan_spec); pages concatenate to the live keys "
         "(prefix_pages_complete). Tie: scan-heavy histories, multi-level trees and a paging sweep over contents x prefix x offset x limit, "
         "each result compared with model and L0 spec; binary keys and prefixes ending in 0xFF/0x00; the same sweep after a Merge in the same "
         "process lifetime; the sparse index mode with keys spread over sealed segments (sparsepage: the model is run with RAM semantics, "
         "sparse pages must equal RAM pages; found and fixed 7531a1a). Code level: pageEntries (the sparse-mode paging), translated from the "
         "source on every run, equals the specification's skip / filter / take for all inputs (C03_code.v).",
         "regexp verdicts are an oracle input (Go regexp evaluated by the harness over the key universe; in the translation a compiled "
         "regexp is an arbitrary predicate). The B+ tree walk of the RAM modes and the collection of the sparse-mode key list are tied by "
         "the correspondence check only."),
 "C04": ("Rocq theorems: applying/replaying records of bucket A leaves bucket_view of every B<>A unchanged (commit_index_frame, "
         "replay_frame), same key in two buckets kept apart. Tie: histories over adversarial names ('', a, ab, abc; keys bc, c, ...) for all "
         "four structures in the RAM modes against model and per-bucket L0 spec. Translation tie (C04_code.v): getNewKey as translated "
         "from /repo is bucket ++ key, with the colliding pair of known finding F18 as a code-level example.",
         "RAM index modes, plus Get in the sparse mode on prefix-related bucket names whose bucket+key concatenations do not coincide "
         "(profile sparsepfx): the sparse mode keys its index by bucket++key, scans across such buckets are known finding F18."),
 "C05": ("Rocq theorems: LRange/LTrim/LRem/LSet/push/pop of the model (written after ds/list) equal a Redis-style specification for all "
         "64-bit arguments; logged encodings count|value, key|index round-trip (values with '|'). Tie: transaction-level and ds-level "
         "(exported list type) random sequences incl. +-2^63 against model and spec; argument buffers are reused with spare capacity. "
         "Translation tie (C05_code.v, 18 theorems): every function of ds/list/list.go, re-translated to Gallina from /repo on every run, "
         "equals its model function for all maps of lists shorter than 2^62, all keys and all 64-bit indexes/counts; hence the CODE of "
         "LRange/LRem/Ltrim is Redis LRANGE/LREM/LTRIM and no slice expression, index, make or loop of list.go can panic or diverge.",
         "The translator's Go semantics (GoSem.v: 64-bit wrap, slices as values with tracked local aliasing, loops on fuel, nil test on an "
         "empty slice as an oracle) are trusted."),
 "C06": ("Rocq theorems: the set model behaves like finite sets (membership, no duplicates, diff/union, canonical results), SMove as "
         "logged = Set.SMove. Tie: all 14 set calls through transactions and the exported type; SPop's random choice is an oracle input "
         "checked for membership. Translation tie (C06_code.v, 13 theorems): every function of ds/set/set.go, re-translated from /repo on "
         "every run, equals its model function for every iteration order of the Go maps.",
         "Go map iteration order: an arbitrary permutation (quantified in the theorems); results compared sorted. GoSem.v trusted."),
 "C07": ("Rocq theorems: invariant zwf (strictly sorted by (score,key), unique keys) preserved by Put/Remove/pops/rank removal; rank, "
         "score-range (both directions, exclusive bounds, limit), rank-range, peeks characterised; no query returns a non-member. Tie: "
         "all sorted-set calls through transactions and directly on ds/zset under many random level layouts.",
         "Skiplist towers/spans/backward pointers are not modelled (unobservable; covered by the tie). Scores: integer-valued floats as Z."),
 "C08": ("Rocq theorems: invariant Inv (indexes = replay of committed records) holds for every reachable world (reachable_inv) and "
         "implies that reopening with any options rebuilds identical indexes, committed ids and offsets (reopen_preserves); commit-time "
         "application = open-time replay (commit_index_replay). Tie: mixed histories with reopen after half of the transactions and a full "
         "observation before/after, vs model and spec. Byte level (DiskBytes.reachable_reopen_bytes): opening the BYTES of the directory of any "
         "reachable world (every file scanned as Open does, then replayed) with any options rebuilds the indexes of the running process.", ""),
 "C09": ("Rocq theorems: for ANY file content the segment scan of Open ends without the fatal error (scan_never_fails), recovers appended "
         "records exactly incl. an exactly full segment, stops at a torn tail; Open over the bytes of any set of files never fails and, on every "
         "directory reachable by calls, reopens and Merges, equals the record-level Open (DiskBytes). Fault enumeration: every "
         "mutation point x torn prefixes of generated workloads is rebuilt from the recorded trace and opened with the real Open under "
         "alternating RWMode/StartFileLoadingMode; recovered databases are continued (commits, rotation, clean reopen); the same enumeration "
         "in the sparse index mode (crashsparse); histories whose transactions pop/remove/trim structures they already modified, then reopen.",
         "File-system semantics (what a completed/torn write leaves) are a stated model; the theorems are about the RAM index modes. "
         "KNOWN FINDING F32: in HintBPTSparseIdxMode a crash inside a Commit that rewrites index or bucket-meta files is not recoverable "
         "(reported as KNOWN-FINDING, attributed to exactly those crash points)."),
 "C10": ("Rocq theorems: a crash leaving k<n records of the in-flight transaction recovers the pre-transaction indexes, k=n the "
         "post-commit ones (crash_prefix_invisible, crash_complete_visible), also stated over the BYTES of the directory (DiskBytes: torn tail "
         "then zeros, truncated record at EOF, both read modes); records without marker never influence recovery; unique ids. "
         "Fault enumeration on the real code as in C09: the recovered observation must equal the live observation before or after the "
         "in-flight transaction; the same enumeration in the sparse index mode (crashsparse).", "KNOWN FINDING F32 (sparse mode, see C09). Hypothesis made explicit: a torn record does not decode to a record (no 32-bit checksum can exclude "
         "it for all contents; proved for single-byte corruption and truncation at EOF)."),
 "C11": ("Rocq theorems: on a trace that syncs after every write, at every crash point each file's durable content is its volatile content "
         "minus at most the record whose write was in flight (power_loss_loses_at_most_inflight_write), so every power-loss image is a "
         "process-crash image of C10; PowerLoss.v closes the chain for the engine: the trace its Commit issues obeys the protocol, the durable "
         "directory at every cut point is a 'first k records' directory (or that plus the freshly created next segment), and opening its bytes "
         "recovers the pre-transaction state (k<n) or the committed one (k=n) in every reachable world. Tie: the real trace of every run is checked against that protocol predicate and durable images "
         "(unsynced writes dropped / kept / torn) are opened with the real Open; power-loss images at every mutation point of Merge "
         "(mergepower) and in the sparse index mode (powersparse). KNOWN FINDING F32 (sparse mode, see C09).",
         "Assumes, as the property states, that a sync also makes the directory entry durable; removals are treated as durable (their "
         "loss concerns Merge)."),
 "C12": ("Rocq theorems: no API call changes the shared world (do_op_world); rolled-back, read-only, oversize and write-faulted "
         "transactions leave disk/indexes/committed ids unchanged (TxFacts); after a failed Commit and reopen the indexes are those before "
         "(failed_commit_noop). Tie: abort-heavy histories plus fault injection at every mutation point of Commit (partial writes), with "
         "observation before/after and after reopen (every other time with a later transaction committing into the same segment first), "
         "vs model and spec.", "A sync error or an error reported after a complete write is "
         "'in doubt': only all-or-nothing is required (as the property says)."),
 "C13": ("Rocq theorems: every mutating structure call validated against the begin state returns the serial result and logs records whose "
         "application yields the serial state (ds_write_refines_corrected); Commit applies records in call order; KV commit is serial "
         "(commit_kvrel). HistoryRefine.history_refines: engine and specification side by side on ANY list of calls of the whole API; for "
         "every history satisfying the executable guard hist_guard_corrected (no read/pop/validation of a structure or key/value bucket "
         "that the same open write transaction already modified) EVERY call returns exactly the specification's result and the final "
         "states coincide. Translation tie (C13_code.v, 34 theorems): the transaction layer for key/value writes, lists and sets (tx.go put/Put/"
         "PutWithTimestamp, Delete, all of tx_list.go and tx_set.go), re-translated to Gallina from /repo on every run, equals the engine "
         "model's do_op: same result, same records appended to the pending writes, indexes untouched. C13_guard_is_needed / C13_kv_guard_is_needed / C13_F21_refuted: witnesses of known finding F21. Tie: mixed and 8-22-call transactions vs model and serial L0 "
         "spec; read-after-write histories must equal the model and are attributed to F21 only when the failing call reads a structure "
         "written earlier in the same transaction.", "KNOWN FINDING F21 (read-your-own-writes) is reported as KNOWN-FINDING."),
 "C14": ("Rocq theorems (ConcFacts, generic in state and result type, no bound on threads/transactions/steps): every interleaving the "
         "RW lock allows is strictly serializable in lock-release order, a reader sees one unchanging state, a writer excludes everybody, "
         "no deadlock; the purity hypothesis on read-only transactions is discharged for the engine model by TxFacts. Tie: 4-16 goroutines "
         "on 1-2 databases under -race with injected yields; data-derived serial positions; the run is replayed as a serial trace by the "
         "engine model and the L0 spec.", "PARTIAL: a data race in the Go memory-model sense cannot be exhibited by a Gallina model; the "
         "race detector run is search, not proof."),
 "C17": ("Rocq theorems: after fix 12b9f00 Merge runs under the write lock, i.e. it is a write transaction of the protocol model; the C14 "
         "theorems give exclusion, strict serializability and deadlock-freedom with Merge among the transactions; C15 covers what the step "
         "does. Tie: the C14 scenario with a goroutine calling Merge repeatedly, under -race, replayed serially by model and spec; the Backup "
         "schedules of C18 (Backup is a read transaction: Merge must wait for it and it for Merge).",
         "PARTIAL as C14. Lists are excluded from the concurrent-merge workload (known finding F14)."),
 "C18": ("Rocq theorems: Backup's copy step is pure; while a reader is in progress the shared state does not change (ConcFacts), and the "
         "copied directory opens with any options to identical indexes (reopen_preserves). Tie: generated histories followed by Backup with "
         "the copy parked on a FIFO while a writer tries to commit (must block) or a Merge is issued (must wait), Backup called while a writer "
         "holds the lock and rotates the segment (the copy must contain its transaction), Backup called while Merge removes old segments (the "
         "copy must be the merged directory); the copy is opened and fully observed, every index mode x RWMode.", "PARTIAL as C14 for the runtime part; filesystem.CopyDir is trusted."),
 "C15": ("Rocq theorems on the Merge model (Merge.v): dead and uncommitted records are never rewritten; refused Merge is a no-op; key/value "
         "contents preserved by Merge in every reachable world (MergeFacts); sets and sorted sets (MergeDS): in the running process Merge leaves "
         "their indexes untouched, and after a successful Merge and a reopen every set key with a member keeps exactly its members and every "
         "sorted-set bucket with a node exactly its nodes in order (the last theorem could only be closed after fix 71d5512, which its "
         "counterexample motivated); WHOLE HISTORIES with Merges at any point (HistoryMerge, HistoryMergeDS): the engine refines the "
         "specification that ignores Merge - key/value calls always, all calls when no Open follows a Merge or when nothing is empty at such "
         "an Open, and up to F30 otherwise; every hypothesis shown necessary by a counterexample theorem. Tie: histories with Merge at arbitrary points, "
         "repeatedly, more writes, reopens, both RAM modes: impl = Merge model = L0 spec (Merge is the identity); I/O errors injected at every "
         "mutation point of Merge. Translation tie (C15_code.v): isFilterEntry and IsExpired as translated from /repo equal the model's filter.",
         "KNOWN FINDINGS F14 (lists) and F30 (existence of empty structures) are reported as KNOWN-FINDING and attributed narrowly."),
 "C16": ("Fault enumeration: every mutation point inside Merge (create, truncate, each record write with torn prefixes, sync, remove) of "
         "generated pre-merge histories over key/value data, sets and sorted sets is rebuilt, opened with the real Open and compared with the "
         "pre-Merge observation (mergecrash; mergecrashpos with position-dependent sorted-set removals demonstrates known finding F31). Rocq "
         "(MergeCrash.v): for every reachable world and EVERY directory a crash inside Merge can leave, Open rebuilds the same live key/value "
         "pairs (at clocks not earlier than the Merges') and the same set members; the sorted-set statement is false (F31 witnesses proved). "
         "C10's theorems cover each rewrite transaction.",
         "KNOWN FINDINGS F30 (attributed) and F31 (position-dependent records; the profile avoids them, witness in known_findings.json)."),
 "C19": ("Rocq theorems: reopen_preserves holds for ANY option record; key-only mode reads = key+value mode reads on on_disk worlds; the "
         "byte-level scan recovers the same records under FileIO and MMap. Tie: every history under all 16 option combinations, result "
         "sequences identical and equal to model and spec; exact-fill segments followed by reopen.", "Sparse mode part: see C02."),
 "C20": ("Rocq theorems: no call of the engine model yields the panic outcome in any world (step_no_panic); LRange/LTrim slice bounds "
         "are in range for all 64-bit arguments. Tie: boundary-heavy fuzzing of every exported method (NaN/Inf, +-2^63, invalid regexps, "
         "closed database, finished transactions) with panics recovered per call; list/zset/ds-level runs with extreme integers vs the "
         "panic-free model. Translation tie (C05_code.v): no function of ds/list/list.go as translated from /repo can panic or diverge.",
         "B+ tree node code, skiplist pointer code, regexp and strconv are covered by the fuzz tie only."),
 "C21": ("Rocq theorems over the byte-exact codec model: round trip of data entries (both RW modes, any position), root-index and "
         "bucket-meta records; CRC-32 detects every corruption confined to one byte at any length; truncation under FileIO reads as EOF. "
         "Flips inside size fields / MMap truncation are enumerated against the real decoder on every run. Translation tie (C21_code.v): "
         "Entry.Encode/Size/IsZero/GetCrc, readMetaData, BPTreeRootIdx.Encode and BucketMeta.Encode, re-translated to Gallina from /repo on "
         "every run, equal the model's encode_entry / field offsets / checksums for every record Tx.put can build, with a code-level "
         "round trip of the header.", "DataFile.ReadAt goes through the RWManager interface and is tied by the codec suite only; GoSem.v trusted."),
 "C22": ("Rocq theorems: mode_refused (= checkEntryIdxMode) refuses exactly when the sparse-ness of creator and opener differ; RAM<->RAM "
         "reopen rebuilds identical indexes. Tie: all 9 mode pairs x directory states with a byte digest of the directory before/after a "
         "refused Open and identical observations for accepted ones.", ""),
}
TECH = "Rocq (Coq 8.16.1) proof over an executable Gallina model + differential correspondence model vs code"
TIED = {"C01", "C02", "C03", "C04", "C05", "C06", "C07", "C12", "C13", "C15", "C20", "C21"}
cat = {"C09": "proof", "C16": "proof"}
checks = []
for pid in sorted(P):
    text, note = P[pid]
    checks.append(dict(property_id=pid, quick_cmd="./check %s --tier quick" % pid, thorough_cmd="./check %s --tier thorough" % pid,
                       evidence_file="evidence/%s.json" % pid, replay_cmd_template="./check replay {path}", engine="rocq-model",
                       level_claimed=dict(category="proof", text=text, design_ref="DESIGN.md section 7 " + pid),
                       level_note=TB + note,
                       technique=TECH + (" + Go->Gallina translation of the source re-checked against the model on every run" if pid in TIED else "")
                       + (" + crash/fault enumeration on the real code" if pid in ("C09", "C10", "C11", "C12", "C16") else "")))
props = [json.loads(l)["id"] for l in open(os.path.join(ROOT, "properties.jsonl"))]
na = [dict(property_id=p, reason=NA.get(p, "check under construction in this session (every property is intended to be claimed)"))
      for p in props if p not in P] if (NA := {}) is not None else []
commits = subprocess.run(["git", "-C", "/repo", "log", "--format=%h", "--grep=^verif hook"], capture_output=True, text=True).stdout.split()
m = dict(version=1, setup_cmd="./setup.sh",
         hooks=dict(guard="verif", enable="go build -tags verif (harness module replaces github.com/xujiajun/nutsdb => /repo)",
                    baseline_off_cmd="cd /repo && GOFLAGS=-mod=mod GOPROXY=off GOSUMDB=off GOTOOLCHAIN=local go test -vet=off -count=1 ./...",
                    source_commits=commits, add_only=True),
         checks=checks, not_applicable=na,
         engines=[dict(name="rocq-model", path="coq/", serves_properties=sorted(P),
                       kind_free_text="Rocq (Coq 8.16.1) development: executable Gallina model + theorems; properties/Cxx.v re-checked on every run"),
                  dict(name="translation", path="translator/ + coq/gosem/ + coq/generated/ + coq/properties_code/", serves_properties=sorted(TIED),
                       kind_free_text="Go -> Gallina translator (go/parser, go/types) run on /repo on every check; GoSem.v states the Go semantics assumed; equivalence theorems between the translated functions and the model functions; code-level property files Cxx_code.v"),
                  dict(name="correspondence", path="harness/ + driver/", serves_properties=sorted(P),
                       kind_free_text="Go harness driving /repo (-tags verif) + OCaml driver running the extracted model and the L0 specification on the same calls; line-by-line comparison of projected observables; crash/fault enumeration")],
         notes="See DESIGN.md. known_findings.json lists genuine defects: 'fixed' entries (repaired by fix: commits in /repo) and 'findings' reported as KNOWN-FINDING.")
json.dump(m, open(os.path.join(ROOT, "MANIFEST.json"), "w"), indent=1)
print("checks:", len(checks), "not_applicable:", [x["property_id"] for x in na])
