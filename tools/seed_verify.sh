#!/bin/bash
# usage: seed_verify.sh <worktree> <MUT dir> <dest seeded id>
# Confirms a seeded change: patch applies, suite passes with it, demo passes without and fails with it.
set -u
export GOFLAGS=-mod=mod GOPROXY=off GOSUMDB=off GOTOOLCHAIN=local
WT=$1; MUT=$2; ID=$3
cd "$WT" || exit 2
git checkout -q -- . ; rm -f demo_verif_test.go
TMPM=$(mktemp -d /tmp/seedmut.XXXXXX); cp -r "$MUT"/. "$TMPM"/
# keep MUT dirs out of ./... builds
for d in MUT1 MUT2 _MUT1 _MUT2; do [ -d "$d" ] && mv "$d" ".$d.stash"; done
TAGS=""; grep -q "go:build verif" "$TMPM/demo_test.go" && TAGS="-tags verif"
TEST=$(grep -o 'func Test[A-Za-z0-9_]*' "$TMPM/demo_test.go" | head -1 | sed 's/func //')
cp "$TMPM/demo_test.go" demo_verif_test.go
R0=$(timeout 300 go test $TAGS -vet=off -count=1 -run "^$TEST\$" . 2>&1 | tail -3); S0=$?
echo "$R0" | grep -q '^ok' && S0=0 || S0=1
git apply "$TMPM/patch.diff" || { echo "PATCH DOES NOT APPLY"; exit 3; }
R1=$(timeout 300 go test $TAGS -vet=off -count=1 -run "^$TEST\$" . 2>&1 | tail -3)
echo "$R1" | grep -q '^ok' && S1=0 || S1=1
rm -f demo_verif_test.go
R2=$(flock /tmp/gotest.lock timeout 900 go test -vet=off -count=1 ./... 2>&1 | tail -6)
echo "$R2" | grep -q 'FAIL' && S2=1 || S2=0
git checkout -q -- .
for d in MUT1 MUT2 _MUT1 _MUT2; do [ -d ".$d.stash" ] && mv ".$d.stash" "$d"; done
echo "test=$TEST demo_clean_pass=$((1-S0)) demo_patched_fail=$S1 suite_patched_pass=$((1-S2))"
if [ $S0 = 0 ] && [ $S1 = 1 ] && [ $S2 = 0 ]; then
  mkdir -p /verif/seeded/$ID
  cp "$TMPM/patch.diff" "$TMPM/demo_test.go" /verif/seeded/$ID/
  [ -f "$TMPM/README.md" ] && cp "$TMPM/README.md" /verif/seeded/$ID/
  echo "$TEST" > /verif/seeded/$ID/TESTNAME
  [ -n "$TAGS" ] && echo "$TAGS" > /verif/seeded/$ID/GOTAGS
  echo CONFIRMED $ID
else
  echo "NOT CONFIRMED $ID"; echo "$R0"; echo "$R1"; echo "$R2"
fi
rm -rf "$TMPM"
