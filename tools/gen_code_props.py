import re
src=open('/verif/coq/gosem/GoCodecFacts.v').read()
def stmt(name):
    m=re.search(r"^Theorem\s+"+name+r"\b(.*?)\.\s*\nProof", src, re.S|re.M)
    assert m, name
    return m.group(1).strip()
def thm(new, old, comment):
    body=stmt(old)
    binders, rest = body.split(':',1)
    binders=binders.strip()
    fa = ("forall "+binders+", ") if binders else ""
    return "(** %s *)\nTheorem %s : %s%s.\nProof. exact %s. Qed.\nPrint Assumptions %s.\n\n" % (comment,new,fa,rest.strip(),old,new)
hdr='''(** %s (code level) — theorems about the Gallina translation of the record
    codecs and record predicates of /repo (entry.go, datafile.go readMetaData,
    bptree_root_idx.go, bucket_meta.go, record.go, db.go isFilterEntry,
    tx_bptree.go getNewKey) that /verif/translator regenerates on every run
    (generated/GoCodec.v).  Statements copied from gosem/GoCodecFacts.v, each
    closed by [exact].  [sized e]: what Tx.put guarantees of the entries it
    builds (size fields = lengths, every field within its Go type, record
    smaller than 4 GiB).  The right-hand sides are the models Codec.v /
    Index.v / Merge.v, about which %s.v proves the mathematical content. *)
From Verif Require Import Bytes BytesFacts Crc32 CrcFacts Codec CodecFacts ListDS Index Merge.
From VerifGo Require Import GoSem GoCodecFacts.
From VerifGen Require Import GoCodec.
Open Scope Z_scope.

'''
c21=hdr%("C21","C21")
c21+=thm("C21_code_Encode_is_model","go_Entry_Encode_eq","Entry.Encode produces exactly the bytes of the model's encode_entry, for every entry Tx.put can build")
c21+=thm("C21_code_Size","go_Entry_Size_eq","Entry.Size")
c21+=thm("C21_code_readMetaData","go_readMetaData_eq","readMetaData reads the fields at the offsets the model's decoder uses, on any buffer of at least 42 bytes")
c21+=thm("C21_code_GetCrc","go_Entry_GetCrc_eq","Entry.GetCrc = CRC-32 of header bytes 4.. continued over bucket, key, value")
c21+=thm("C21_code_IsZero","go_Entry_IsZero_eq","Entry.IsZero")
c21+=thm("C21_code_encode_then_decode_header","go_encode_then_readMetaData","code-level round trip: the header of an encoded entry read back by readMetaData gives the entry's fields and GetCrc equals the stored checksum")
c21+=thm("C21_code_RootIdx_Encode","go_BPTreeRootIdx_Encode_eq","sparse-mode root index record")
c21+=thm("C21_code_BucketMeta_Encode","go_BucketMeta_Encode_eq","bucket meta record (writes through sub-slice aliases of the buffer)")
c21+='''(** non-vacuity: a concrete entry satisfies [sized] and the code encodes it to 45 bytes *)
Example C21_code_example :
  let e := mk_go_Entry bs_k bs_v (mk_go_MetaData 1 1 1700000000 0 1 bs_b 1 7 1 0) 0 0 in
  sized e /\\ exists b, go_Entry_Encode e = GOk (e, b) /\\ zlen b = 45.
Proof.
  cbv zeta. split.
  - unfold sized, meta_of, bs_k, bs_v, bs_b. cbn. repeat split; lia.
  - eexists. split; [vm_compute; reflexivity|]. reflexivity.
Qed.
'''
c21=c21.replace("Open Scope Z_scope.\n\n","Open Scope Z_scope.\nFrom Coq Require Import Lia.\nDefinition bs_k : bytes := [x6b].\nDefinition bs_v : bytes := [x76].\nDefinition bs_b : bytes := [x62].\n\n",1)
open('/verif/coq/properties_code/C21_code.v','w').write(c21)
c15=hdr%("C15","C15")
c15+=thm("C15_code_isFilterEntry_is_model","go_isFilterEntry_eq","the dead-record filter of Merge (db.go isFilterEntry) is the model's is_filter: deletes, pops, removals, trims and expired records")
c15+=thm("C15_code_IsExpired","go_IsExpired_eq","record.go IsExpired with the clock as a parameter is the model's is_expired (uint64 wrap included)")
open('/verif/coq/properties_code/C15_code.v','w').write(c15)
c01=hdr%("C01","C01")
c01+=thm("C01_code_IsExpired","go_IsExpired_eq","record.go IsExpired (the TTL rule every key/value read applies) is the model's is_expired, uint64 wrap included")
c01+=thm("C01_code_compare","go_compare_eq","the key order of the index is bytes.Compare")
open('/verif/coq/properties_code/C01_code.v','w').write(c01)
c04=hdr%("C04","C04")
c04+=thm("C04_code_getNewKey","go_getNewKey_eq","the sparse index keys a record by the concatenation bucket ++ key (known finding F18)")
c04+='''(** ... so ('a','bc') and ('ab','c') are one key of the sparse index: the code-level witness of F18 *)
Example C04_code_F18_witness :
  go_getNewKey [x61] [x62; x63] = go_getNewKey [x61; x62] [x63].
Proof. vm_compute. reflexivity. Qed.
'''
open('/verif/coq/properties_code/C04_code.v','w').write(c04)
