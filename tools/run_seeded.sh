#!/bin/bash
# usage: run_seeded.sh <seeded id> [check ids...]   (default: the property of the seed)
# Applies the seeded change to the repository, runs the checks (quick tier), undoes it.
# VERIF_REPO (default /repo) and the directory of this script's parent (default /verif) are used, so that a
# regression over all seeds can run on scratch copies: VERIF_REPO=/dev/shm/x/repo /dev/shm/x/verif/tools/run_seeded.sh <id>
ID=$1; shift
PROPS="$@"; [ -z "$PROPS" ] && PROPS=${ID%%-*}
REPO=${VERIF_REPO:-/repo}
VERIF=$(cd "$(dirname "$0")/.." && pwd)
cd $REPO && git diff --quiet || { echo "$REPO not clean"; exit 2; }
git -C $REPO apply $VERIF/seeded/$ID/patch.diff || { echo "$ID patch does not apply"; exit 3; }
for p in $PROPS; do
  out=$(cd $VERIF && VERIF_REPO=$REPO timeout 1500 ./check $p --tier quick 2>&1 | grep -E "^(VIOLATION|KNOWN-FINDING)" | head -3)
  if echo "$out" | grep -q VIOLATION; then echo "$ID $p DETECTED: $(echo "$out" | grep VIOLATION | head -1)"; else echo "$ID $p MISSED"; fi
done
git -C $REPO checkout -- .
