#!/bin/bash
# usage: run_seeded.sh <seeded id> [check ids...]   (default: the property of the seed)
# Applies the seeded change to /repo, runs the checks (quick tier), undoes it.
ID=$1; shift
PROPS="$@"; [ -z "$PROPS" ] && PROPS=${ID%%-*}
cd /repo && git diff --quiet || { echo "/repo not clean"; exit 2; }
git -C /repo apply /verif/seeded/$ID/patch.diff || { echo "patch does not apply"; exit 3; }
for p in $PROPS; do
  out=$(cd /verif && timeout 1500 ./check $p --tier quick 2>&1 | grep -E "^(VIOLATION|KNOWN-FINDING)" | head -3)
  rc=$?
  if echo "$out" | grep -q VIOLATION; then echo "$ID $p DETECTED: $(echo "$out" | grep VIOLATION | head -1)"; else echo "$ID $p MISSED"; fi
done
git -C /repo checkout -- .
