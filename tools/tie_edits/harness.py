#!/usr/bin/env python3
"""harness.py — apply the edits of edits.py one at a time and re-check the proofs.

  harness.py gen ID            translate the edited source in a work dir, print the generated functions
  harness.py run [-j N] IDS    check IDS (or 'all', 'harmless', 'mutations', 'page', 'scan') in private work dirs (parallel)
  harness.py official IDS      the same through /tmp/pf_P27/repo and tie.sh, sequentially (restores the file)
  harness.py md                write edits.md
"""
import os, sys, shutil, subprocess, re, concurrent.futures as cf
ROOT = '/tmp/pf_P27'
sys.path.insert(0, ROOT)
from edits import EDITS

ENV = dict(os.environ, GOFLAGS='-mod=mod', GOPROXY='off', GOSUMDB='off', GOTOOLCHAIN='local')
CQ = '-Q theories Verif -Q gosem VerifGo -Q generated VerifGen -Q properties_code VerifCode'.split()
CFG = {
    'page': dict(mod='GoPage', only='pageEntries', facts='GoPageFacts', prop='C03_code'),
    'scan': dict(mod='GoScan', only='processEntriesScanOnDisk,SortedEntryKeys,Tx.buildTempBucketMetaIdx', facts='GoScanFacts', prop='C02_code'),
}

def by_id(i):
    for e in EDITS:
        if e['id'] == i:
            return e
    raise SystemExit('no edit ' + i)

def apply_edit(e, repo):
    for (f, before, after) in e['repls']:
        p = os.path.join(repo, f)
        s = open(p).read()
        n = s.count(before)
        if n != 1:
            raise SystemExit('%s: %d occurrences of the before-text in %s' % (e['id'], n, f))
        open(p, 'w').write(s.replace(before, after))

def mkwork(e):
    w = os.path.join(ROOT, os.environ.get('WORK', 'work'), e['id'])
    shutil.rmtree(w, ignore_errors=True)
    os.makedirs(w)
    shutil.copytree(os.path.join(ROOT, 'repo.orig'), os.path.join(w, 'repo'))
    c = os.path.join(w, 'coq'); os.makedirs(c)
    os.symlink(os.path.join(ROOT, 'coq', 'theories'), os.path.join(c, 'theories'))
    cfg = CFG[e['group']]
    for d, own in (('gosem', cfg['facts']), ('generated', cfg['mod']), ('properties_code', cfg['prop'])):
        os.makedirs(os.path.join(c, d))
        for fn in os.listdir(os.path.join(ROOT, 'coq', d)):
            base = fn.split('.')[0]
            src = os.path.join(ROOT, 'coq', d, fn)
            if base == own or base == '':
                if fn == own + '.v' and d != 'generated':
                    if d == 'gosem' and os.environ.get('FACTS'):
                        src = os.path.join(os.environ['FACTS'], fn)
                    shutil.copy(src, os.path.join(c, d, fn))
            elif fn.endswith('.vo'):
                os.symlink(src, os.path.join(c, d, fn))
    return w

def sh(cmd, cwd, to):
    try:
        r = subprocess.run(cmd, cwd=cwd, env=ENV, stdout=subprocess.PIPE, stderr=subprocess.STDOUT, timeout=to, text=True)
        return r.returncode, r.stdout
    except subprocess.TimeoutExpired:
        return 124, 'TIMEOUT'

def translate(e, w):
    cfg = CFG[e['group']]
    rc, out = sh(['go', 'build', './...'], os.path.join(w, 'repo'), 600)
    if rc != 0:
        return 'GO-BUILD-FAILED', out
    gen = os.path.join(w, 'coq', 'generated', cfg['mod'] + '.v')
    rc, out = sh([os.path.join(ROOT, 'veriftr'), '-dir', os.path.join(w, 'repo'), '-out', gen, '-module', cfg['mod'],
                  '-skipfiles', 'verif_on.go,verif_dump.go', '-only', cfg['only']], os.path.join(w, 'repo'), 600)
    last = out.strip().splitlines()[-1] if out.strip() else ''
    if rc != 0 or not os.path.exists(gen):
        return 'TRANSLATOR-FAILED', out
    return 'OK', last

def check(e):
    w = mkwork(e)
    apply_edit(e, os.path.join(w, 'repo'))
    st, out = translate(e, w)
    if st != 'OK':
        return e['id'], st, out[-600:]
    if 'skipped 0' not in out:
        return e['id'], 'NOT-TRANSLATED', out
    cfg = CFG[e['group']]
    c = os.path.join(w, 'coq')
    rc, out = sh(['timeout', '600', 'coqc'] + CQ + ['generated/%s.v' % cfg['mod']], c, 700)
    if rc != 0:
        return e['id'], 'GENERATED-FILE-DOES-NOT-COMPILE', out[:800]
    rc, out = sh(['timeout', '900', 'coqc'] + CQ + ['gosem/%s.v' % cfg['facts']], c, 1000)
    if rc != 0:
        m = re.search(r'File .*?line (\d+).*?\n(Error:(.|\n)*)', out)
        msg = ('line %s: %s' % (m.group(1), m.group(2)[:700])) if m else out[-800:]
        return e['id'], 'PROOF-BROKEN', msg
    if 'Closed under the global context' not in out or 'Axioms:' in out:
        return e['id'], 'ASSUMPTIONS?', out[-500:]
    rc, out = sh(['timeout', '600', 'coqc'] + CQ + ['properties_code/%s.v' % cfg['prop']], c, 700)
    if rc != 0:
        return e['id'], 'PROPERTY-FILE-BROKEN', out[:800]
    return e['id'], 'PROOF-OK', ''

def select(args):
    ids = []
    for a in args:
        if a == 'all': ids += [e['id'] for e in EDITS]
        elif a == 'harmless': ids += [e['id'] for e in EDITS if e['kind'] == 'harmless']
        elif a == 'mutations': ids += [e['id'] for e in EDITS if e['kind'] == 'mutation']
        elif a in ('page', 'scan'): ids += [e['id'] for e in EDITS if e['group'] == a]
        elif a.endswith('*'): ids += [e['id'] for e in EDITS if e['id'].startswith(a[:-1])]
        else: ids.append(a)
    return ids

def expected(e, st):
    if e['kind'] == 'harmless':
        return 'pass' if st == 'PROOF-OK' else 'FAIL'
    if e['kind'] == 'harmless-beyond':
        return 'pass (!)' if st == 'PROOF-OK' else 'fails (not covered)'
    if e['kind'] == 'harmless-untranslatable':
        return 'pass (!)' if st == 'PROOF-OK' else 'fails (translator)'
    return 'broken (as required)' if st in ('PROOF-BROKEN', 'PROPERTY-FILE-BROKEN') else 'NOT-BROKEN' if st == 'PROOF-OK' else '?? ' + st

def main():
    cmd = sys.argv[1]
    if cmd == 'gen':
        e = by_id(sys.argv[2]); w = mkwork(e); apply_edit(e, os.path.join(w, 'repo'))
        st, out = translate(e, w); print(st, out)
        if st == 'OK':
            s = open(os.path.join(w, 'coq', 'generated', CFG[e['group']]['mod'] + '.v')).read()
            i = s.find('(* ' , s.find('set_Entry_position'))
            pat = sys.argv[3] if len(sys.argv) > 3 else None
            if pat:
                i = s.find('Definition go_' + pat)
                j = s.find('\n(* ', i)
                print(s[i:j])
            else:
                print(s[i:])
    elif cmd == 'run':
        args = sys.argv[2:]; j = 4
        if args and args[0] == '-j': j = int(args[1]); args = args[2:]
        ids = select(args)
        with cf.ThreadPoolExecutor(max_workers=j) as ex:
            for (i, st, msg) in ex.map(lambda i: check(by_id(i)), ids):
                e = by_id(i)
                print('%-10s %-9s %-22s %s' % (i, e['kind'], expected(e, st), st), flush=True)
                if msg and ((e['kind'] != 'mutation') or st not in ('PROOF-BROKEN',)):
                    print('    ' + msg.replace('\n', '\n    '), flush=True)
                elif msg:
                    print('    ' + msg.splitlines()[0][:160], flush=True)
    elif cmd == 'official':
        ids = select(sys.argv[2:])
        for i in ids:
            e = by_id(i)
            try:
                apply_edit(e, os.path.join(ROOT, 'repo'))
                rc, out = sh(['timeout', '2400', os.path.join(ROOT, 'tie.sh'), e['group']], ROOT, 2500)
            finally:
                for (f, _, _) in e['repls']:
                    shutil.copy(os.path.join(ROOT, 'repo.orig', f), os.path.join(ROOT, 'repo', f))
            lines = out.strip().splitlines()
            st = next((l for l in lines if l in ('PROOF-OK', 'PROOF-BROKEN', 'PROPERTY-FILE-BROKEN', 'GENERATED-FILE-DOES-NOT-COMPILE', 'GO-BUILD-FAILED')), 'UNKNOWN')
            print('%-10s %-9s %-22s %s' % (i, e['kind'], expected(e, st), st), flush=True)
            if st != 'PROOF-OK':
                k = lines.index(st) if st in lines else 0
                print('    ' + ' | '.join(lines[k + 1:k + 4])[:300], flush=True)
    elif cmd == 'md':
        with open(os.path.join(ROOT, 'edits.md'), 'w') as f:
            f.write('# Edits applied one at a time to /tmp/pf_P27/repo (harness.py, edits.py)\n\n')
            for e in EDITS:
                f.write('## %s (%s, %s) — %s\n\n' % (e['id'], e['kind'], e['func'], e['desc']))
                for (fn, b, a) in e['repls']:
                    f.write('file `%s`\n\nbefore:\n```go\n%s\n```\nafter:\n```go\n%s\n```\n\n' % (fn, b, a))
main()
