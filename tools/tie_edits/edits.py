# edits.py — the harmless rewrites and the semantic mutations (exact before/after text), used by harness.py
EDITS = []

def E(id, group, func, kind, desc, *repls):
    # repls: (file, before, after) triples
    EDITS.append(dict(id=id, group=group, func=func, kind=kind, desc=desc, repls=list(repls)))

TB = 'tx_bptree.go'

# ---------------------------------------------------------------- pageEntries
PAGE_LIMIT = "\t\tif limitNum != ScanNoLimit && len(es) >= limitNum {\n\t\t\tbreak\n\t\t}\n"
PAGE_CLAMPS = "\tif off < 0 {\n\t\toff = 0\n\t}\n\tif off > len(all) {\n\t\toff = len(all)\n\t}\n"
PAGE_RGX = "\t\tif rgx != nil && !rgx.Match(bytes.TrimPrefix(e.Key, prefix)) {\n\t\t\tcontinue\n\t\t}\n\t\tes = append(es, e)\n"
PAGE_END = "\tif len(es) == 0 {\n\t\treturn nil, off, notFound\n\t}\n\treturn es, off, nil\n}\n\n// PrefixScan iterates"
PAGE_FOR = "\tfor _, e := range all[off:] {\n\t\tif limitNum != ScanNoLimit"

H = 'harmless'; M = 'mutation'
pe = 'pageEntries'

E('P-h1', 'page', pe, H, '(h1) operands of && in the limit test swapped',
  (TB, PAGE_LIMIT, "\t\tif len(es) >= limitNum && limitNum != ScanNoLimit {\n\t\t\tbreak\n\t\t}\n"))
E('P-h2', 'page', pe, H, '(h2) the two clamps in the other order',
  (TB, PAGE_CLAMPS, "\tif off > len(all) {\n\t\toff = len(all)\n\t}\n\tif off < 0 {\n\t\toff = 0\n\t}\n"))
E('P-h3', 'page', pe, H, '(h3) len(es) == 0 -> len(es) < 1',
  (TB, PAGE_END, PAGE_END.replace("len(es) == 0", "len(es) < 1")))
E('P-h4', 'page', pe, H, 'positive form of the regexp branch',
  (TB, PAGE_RGX, "\t\tif rgx == nil || rgx.Match(bytes.TrimPrefix(e.Key, prefix)) {\n\t\t\tes = append(es, e)\n\t\t}\n"))
E('P-h5', 'page', pe, H, 'reversed comparisons in the clamps',
  (TB, PAGE_CLAMPS, "\tif 0 > off {\n\t\toff = 0\n\t}\n\tif len(all) < off {\n\t\toff = len(all)\n\t}\n"))
E('P-h6', 'page', pe, H, 'a local tail := all[off:] ranged over',
  (TB, PAGE_FOR, "\ttail := all[off:]\n\tfor _, e := range tail {\n\t\tif limitNum != ScanNoLimit"))
E('P-h7', 'page', pe, H, 'limit test reversed: limitNum <= len(es)',
  (TB, PAGE_LIMIT, "\t\tif limitNum != ScanNoLimit && limitNum <= len(es) {\n\t\t\tbreak\n\t\t}\n"))
E('P-h8', 'page', pe, H, 'limit test negated with the branches exchanged (the rest of the body nested in the positive branch)',
  (TB, PAGE_LIMIT + PAGE_RGX,
   "\t\tif limitNum == ScanNoLimit || len(es) < limitNum {\n\t\t\tif rgx != nil && !rgx.Match(bytes.TrimPrefix(e.Key, prefix)) {\n\t\t\t\tcontinue\n\t\t\t}\n\t\t\tes = append(es, e)\n\t\t} else {\n\t\t\tbreak\n\t\t}\n"))
E('P-h9', 'page', pe, H, 'final test negated with the returns exchanged (len(es) != 0)',
  (TB, PAGE_END, "\tif len(es) != 0 {\n\t\treturn es, off, nil\n\t}\n\treturn nil, off, notFound\n}\n\n// PrefixScan iterates"))
E('P-h10', 'page', pe, H, 'final test len(es) > 0 with the returns exchanged',
  (TB, PAGE_END, "\tif len(es) > 0 {\n\t\treturn es, off, nil\n\t}\n\treturn nil, off, notFound\n}\n\n// PrefixScan iterates"))
E('P-h11', 'page', pe, H, 'De Morgan on the regexp test: !(rgx == nil || rgx.Match(..))',
  (TB, "\t\tif rgx != nil && !rgx.Match(bytes.TrimPrefix(e.Key, prefix)) {", "\t\tif !(rgx == nil || rgx.Match(bytes.TrimPrefix(e.Key, prefix))) {"))
E('P-h12', 'page', pe, H, 'clamps as if / else if',
  (TB, PAGE_CLAMPS, "\tif off < 0 {\n\t\toff = 0\n\t} else if off > len(all) {\n\t\toff = len(all)\n\t}\n"))
E('P-h13', 'page', pe, H, 'temporaries: n := len(all), key := bytes.TrimPrefix(e.Key, prefix)',
  (TB, PAGE_CLAMPS, "\tn := len(all)\n\tif off < 0 {\n\t\toff = 0\n\t}\n\tif off > n {\n\t\toff = n\n\t}\n"),
  (TB, "\t\tif rgx != nil && !rgx.Match(bytes.TrimPrefix(e.Key, prefix)) {", "\t\tkey := bytes.TrimPrefix(e.Key, prefix)\n\t\tif rgx != nil && !rgx.Match(key) {"))
E('P-h14', 'page', pe, H, 'off < 0 written off <= -1, off > len(all) written off >= len(all) (assigning len(all) to an equal off is a no-op)',
  (TB, PAGE_CLAMPS, "\tif off <= -1 {\n\t\toff = 0\n\t}\n\tif off >= len(all) {\n\t\toff = len(all)\n\t}\n"))
E('P-h15', 'page', pe, H, 'limit test as a negated <',
  (TB, PAGE_LIMIT, "\t\tif limitNum != ScanNoLimit && !(len(es) < limitNum) {\n\t\t\tbreak\n\t\t}\n"))
E('P-h16', 'page', pe, H, 'limit test as two nested ifs, constant inlined',
  (TB, PAGE_LIMIT, "\t\tif limitNum != -1 {\n\t\t\tif len(es) >= limitNum {\n\t\t\t\tbreak\n\t\t\t}\n\t\t}\n"))
E('P-h17', 'page', pe, H, 'no-limit flag computed once before the loop',
  (TB, PAGE_FOR, "\tlimited := limitNum != ScanNoLimit\n\tfor _, e := range all[off:] {\n\t\tif limited"))
E('P-h18', 'page', pe, H, 'empty page returns es (which is nil/empty) instead of the literal nil; len(es) <= 0',
  (TB, PAGE_END, "\tif len(es) <= 0 {\n\t\treturn es, off, notFound\n\t}\n\treturn es, off, nil\n}\n\n// PrefixScan iterates"))
E('P-h19', 'page', pe, H, 'regexp test as nested ifs with if/else on the match',
  (TB, PAGE_RGX, "\t\tif rgx != nil {\n\t\t\tif rgx.Match(bytes.TrimPrefix(e.Key, prefix)) {\n\t\t\t\tes = append(es, e)\n\t\t\t}\n\t\t} else {\n\t\t\tes = append(es, e)\n\t\t}\n"))
E('P-h20', 'page', pe, H, 'explicit upper bound of the slice, error in a local',
  (TB, "\tfor _, e := range all[off:] {", "\tfor _, e := range all[off:len(all)] {"),
  (TB, PAGE_END, "\tvar err error\n\tif len(es) == 0 {\n\t\terr = notFound\n\t}\n\tif err != nil {\n\t\treturn nil, off, err\n\t}\n\treturn es, off, nil\n}\n\n// PrefixScan iterates"))
E('P-h21', 'page', pe, H, 'regexp test before the limit test (a non-matching element is skipped before the break; the page is the same)',
  (TB, PAGE_LIMIT + PAGE_RGX,
   "\t\tif rgx != nil && !rgx.Match(bytes.TrimPrefix(e.Key, prefix)) {\n\t\t\tcontinue\n\t\t}\n" + PAGE_LIMIT + "\t\tes = append(es, e)\n"))
E('P-h22', 'page', pe, H, 'es := make(Entries, 0) instead of var es Entries',
  (TB, "\tvar es Entries\n\tfor _, e := range all[off:] {", "\tes := make(Entries, 0)\n\tfor _, e := range all[off:] {"))
E('P-h23', 'page', pe, H, 'temporary have := len(es) in the loop',
  (TB, PAGE_LIMIT, "\t\thave := len(es)\n\t\tif limitNum != ScanNoLimit && have >= limitNum {\n\t\t\tbreak\n\t\t}\n"))
# combinations
E('P-c1', 'page', pe, H, 'combination h1 + h2 + h3',
  (TB, PAGE_LIMIT, "\t\tif len(es) >= limitNum && limitNum != ScanNoLimit {\n\t\t\tbreak\n\t\t}\n"),
  (TB, PAGE_CLAMPS, "\tif off > len(all) {\n\t\toff = len(all)\n\t}\n\tif off < 0 {\n\t\toff = 0\n\t}\n"),
  (TB, PAGE_END, PAGE_END.replace("len(es) == 0", "len(es) < 1")))
E('P-c2', 'page', pe, H, 'combination h4 + h5 + h6 + h10 + h15',
  (TB, PAGE_CLAMPS + "\tvar es Entries\n" + "\tfor _, e := range all[off:] {\n" + PAGE_LIMIT + PAGE_RGX,
   "\tif 0 > off {\n\t\toff = 0\n\t}\n\tif len(all) < off {\n\t\toff = len(all)\n\t}\n\tvar es Entries\n\ttail := all[off:]\n\tfor _, e := range tail {\n"
   "\t\tif limitNum != ScanNoLimit && !(len(es) < limitNum) {\n\t\t\tbreak\n\t\t}\n"
   "\t\tif rgx == nil || rgx.Match(bytes.TrimPrefix(e.Key, prefix)) {\n\t\t\tes = append(es, e)\n\t\t}\n"),
  (TB, PAGE_END, "\tif len(es) > 0 {\n\t\treturn es, off, nil\n\t}\n\treturn nil, off, notFound\n}\n\n// PrefixScan iterates"))
E('P-c3', 'page', pe, H, 'combination h8 + h12 + h13(n) + h18',
  (TB, PAGE_CLAMPS, "\tn := len(all)\n\tif off < 0 {\n\t\toff = 0\n\t} else if n < off {\n\t\toff = n\n\t}\n"),
  (TB, PAGE_LIMIT + PAGE_RGX,
   "\t\tif limitNum == ScanNoLimit || len(es) < limitNum {\n\t\t\tif rgx != nil && !rgx.Match(bytes.TrimPrefix(e.Key, prefix)) {\n\t\t\t\tcontinue\n\t\t\t}\n\t\t\tes = append(es, e)\n\t\t} else {\n\t\t\tbreak\n\t\t}\n"),
  (TB, PAGE_END, "\tif len(es) <= 0 {\n\t\treturn es, off, notFound\n\t}\n\treturn es, off, nil\n}\n\n// PrefixScan iterates"))

# mutations of pageEntries
E('P-m1', 'page', pe, M, '>= -> > in the limit test',
  (TB, PAGE_LIMIT, PAGE_LIMIT.replace("len(es) >= limitNum", "len(es) > limitNum")))
E('P-m2', 'page', pe, M, 'upper clamp dropped',
  (TB, PAGE_CLAMPS, "\tif off < 0 {\n\t\toff = 0\n\t}\n"))
E('P-m3', 'page', pe, H, 'listed as a mutation in the task, but HARMLESS: if off < 0 -> if off < 1 (for off = 0 the assignment off = 0 is a no-op): must pass',
  (TB, PAGE_CLAMPS, PAGE_CLAMPS.replace("off < 0", "off < 1")))
E('P-m4', 'page', pe, M, 'regexp matched against e.Key instead of the trimmed key',
  (TB, "rgx.Match(bytes.TrimPrefix(e.Key, prefix)) {\n\t\t\tcontinue", "rgx.Match(e.Key) {\n\t\t\tcontinue"))
E('P-m5', 'page', pe, M, 'limitNum != ScanNoLimit -> limitNum > 0',
  (TB, PAGE_LIMIT, PAGE_LIMIT.replace("limitNum != ScanNoLimit", "limitNum > 0")))
E('P-m6', 'page', pe, M, 'lower clamp dropped',
  (TB, PAGE_CLAMPS, "\tif off > len(all) {\n\t\toff = len(all)\n\t}\n"))
E('P-m7', 'page', pe, M, 'regexp verdict inverted',
  (TB, "\t\tif rgx != nil && !rgx.Match(", "\t\tif rgx != nil && rgx.Match("))
E('P-m8', 'page', pe, M, 'empty page returns a nil error',
  (TB, "\t\treturn nil, off, notFound\n\t}\n\treturn es, off, nil\n}\n\n// PrefixScan iterates", "\t\treturn nil, off, nil\n\t}\n\treturn es, off, nil\n}\n\n// PrefixScan iterates"))
E('P-m9', 'page', pe, M, 'returned offset is the unclamped one',
  (TB, "\treturn es, off, nil\n}\n\n// PrefixScan iterates", "\treturn es, offsetNum, nil\n}\n\n// PrefixScan iterates"))
E('P-m10', 'page', pe, M, 'break -> continue in the limit test: harmless for the result (same page, the loop just runs on to the end): must pass',
  (TB, PAGE_LIMIT, PAGE_LIMIT.replace("break", "continue")))
EDITS[-1]['kind'] = H

# ---------------------------------------------------------------- processEntriesScanOnDisk
ps = 'processEntriesScanOnDisk'
SC_DECL = "\tvar entriesMap map[string]*Entry\n\tentriesMap = make(map[string]*Entry)\n"
SC_DEDUP = "\t\tif _, ok := entriesMap[string(entry.Key)]; !ok {\n\t\t\tentriesMap[string(entry.Key)] = entry\n\t\t}\n"
SC_LIVE = "\t\tif !IsExpired(es[key].Meta.TTL, es[key].Meta.timestamp) && es[key].Meta.Flag != DataDeleteFlag {\n\t\t\tresult = append(result, es[key])\n\t\t}\n"
SC_SORT = "\tkeys, es := SortedEntryKeys(entriesMap)\n\tfor _, key := range keys {\n"

E('D-h1', 'scan', ps, H, 'early continue when the key is present',
  (TB, SC_DEDUP, "\t\tif _, ok := entriesMap[string(entry.Key)]; ok {\n\t\t\tcontinue\n\t\t}\n\t\tentriesMap[string(entry.Key)] = entry\n"))
E('D-h2', 'scan', ps, H, 'lookup in a statement of its own, if/else with the branches exchanged',
  (TB, SC_DEDUP, "\t\t_, ok := entriesMap[string(entry.Key)]\n\t\tif ok {\n\t\t} else {\n\t\t\tentriesMap[string(entry.Key)] = entry\n\t\t}\n"))
E('D-h3', 'scan', ps, H, 'operands of && in the liveness test swapped',
  (TB, SC_LIVE, "\t\tif es[key].Meta.Flag != DataDeleteFlag && !IsExpired(es[key].Meta.TTL, es[key].Meta.timestamp) {\n\t\t\tresult = append(result, es[key])\n\t\t}\n"))
E('D-h4', 'scan', ps, H, 'temporary e := es[key]',
  (TB, SC_LIVE, "\t\te := es[key]\n\t\tif !IsExpired(e.Meta.TTL, e.Meta.timestamp) && e.Meta.Flag != DataDeleteFlag {\n\t\t\tresult = append(result, e)\n\t\t}\n"))
E('D-h5', 'scan', ps, H, 'De Morgan with early continue',
  (TB, SC_LIVE, "\t\tif IsExpired(es[key].Meta.TTL, es[key].Meta.timestamp) || es[key].Meta.Flag == DataDeleteFlag {\n\t\t\tcontinue\n\t\t}\n\t\tresult = append(result, es[key])\n"))
E('D-h6', 'scan', ps, H, 'map declared and made in one statement',
  (TB, SC_DECL, "\tentriesMap := make(map[string]*Entry)\n"))
E('D-h7', 'scan', ps, H, 'temporary k := string(entry.Key)',
  (TB, SC_DEDUP, "\t\tk := string(entry.Key)\n\t\tif _, ok := entriesMap[k]; !ok {\n\t\t\tentriesMap[k] = entry\n\t\t}\n"))
E('D-h8', 'scan', ps, H, 'liveness test as two nested ifs',
  (TB, SC_LIVE, "\t\tif !IsExpired(es[key].Meta.TTL, es[key].Meta.timestamp) {\n\t\t\tif es[key].Meta.Flag != DataDeleteFlag {\n\t\t\t\tresult = append(result, es[key])\n\t\t\t}\n\t\t}\n"))
E('D-h9', 'scan', ps, H, 'second result of SortedEntryKeys dropped, the map itself is read',
  (TB, SC_SORT + SC_LIVE, "\tkeys, _ := SortedEntryKeys(entriesMap)\n\tfor _, key := range keys {\n" + SC_LIVE.replace("es[key]", "entriesMap[key]")))
E('D-h10', 'scan', ps, H, 'temporaries meta := es[key].Meta and expired := IsExpired(..)',
  (TB, SC_LIVE, "\t\tmeta := es[key].Meta\n\t\texpired := IsExpired(meta.TTL, meta.timestamp)\n\t\tif !expired && meta.Flag != DataDeleteFlag {\n\t\t\tresult = append(result, es[key])\n\t\t}\n"))
E('D-h11', 'scan', ps, H, 'Flag != DataDeleteFlag written Flag > DataDeleteFlag (uint16, DataDeleteFlag = 0)',
  (TB, SC_LIVE, SC_LIVE.replace("Meta.Flag != DataDeleteFlag", "Meta.Flag > DataDeleteFlag")))
E('D-h12', 'scan', ps, H, 'liveness test negated, empty then-branch, append in the else',
  (TB, SC_LIVE, "\t\tif IsExpired(es[key].Meta.TTL, es[key].Meta.timestamp) || es[key].Meta.Flag == DataDeleteFlag {\n\t\t} else {\n\t\t\tresult = append(result, es[key])\n\t\t}\n"))
E('D-h13', 'scan', ps, H, 'ok == false, !(Flag == DataDeleteFlag)',
  (TB, SC_DEDUP, "\t\tif _, ok := entriesMap[string(entry.Key)]; ok == false {\n\t\t\tentriesMap[string(entry.Key)] = entry\n\t\t}\n"),
  (TB, SC_LIVE, SC_LIVE.replace("es[key].Meta.Flag != DataDeleteFlag", "!(es[key].Meta.Flag == DataDeleteFlag)")))
E('D-h14', 'scan', ps, H, 'local result slice returned explicitly',
  (TB, SC_LIVE + "\t}\n\n\treturn result\n", "\t\tif !IsExpired(es[key].Meta.TTL, es[key].Meta.timestamp) && es[key].Meta.Flag != DataDeleteFlag {\n\t\t\tres = append(res, es[key])\n\t\t}\n\t}\n\n\treturn res\n"),
  (TB, SC_SORT, "\tvar res []*Entry\n" + SC_SORT))
E('D-c1', 'scan', ps, H, 'combination D-h1 + D-h3 + D-h6',
  (TB, SC_DECL, "\tentriesMap := make(map[string]*Entry)\n"),
  (TB, SC_DEDUP, "\t\tif _, ok := entriesMap[string(entry.Key)]; ok {\n\t\t\tcontinue\n\t\t}\n\t\tentriesMap[string(entry.Key)] = entry\n"),
  (TB, SC_LIVE, "\t\tif es[key].Meta.Flag != DataDeleteFlag && !IsExpired(es[key].Meta.TTL, es[key].Meta.timestamp) {\n\t\t\tresult = append(result, es[key])\n\t\t}\n"))
E('D-c2', 'scan', ps, H, 'combination D-h7 + D-h4 + D-h5 + D-h9',
  (TB, SC_DEDUP, "\t\tk := string(entry.Key)\n\t\tif _, ok := entriesMap[k]; !ok {\n\t\t\tentriesMap[k] = entry\n\t\t}\n"),
  (TB, SC_SORT + SC_LIVE, "\tkeys, _ := SortedEntryKeys(entriesMap)\n\tfor _, key := range keys {\n\t\te := entriesMap[key]\n\t\tif IsExpired(e.Meta.TTL, e.Meta.timestamp) || e.Meta.Flag == DataDeleteFlag {\n\t\t\tcontinue\n\t\t}\n\t\tresult = append(result, e)\n"))

E('D-m1', 'scan', ps, M, 'always overwrite: the last occurrence wins',
  (TB, SC_DEDUP, "\t\tentriesMap[string(entry.Key)] = entry\n"))
E('D-m2', 'scan', ps, M, 'Flag != DataDeleteFlag test dropped',
  (TB, SC_LIVE, SC_LIVE.replace(" && es[key].Meta.Flag != DataDeleteFlag", "")))
E('D-m3', 'scan', ps, M, '!IsExpired -> IsExpired',
  (TB, SC_LIVE, SC_LIVE.replace("if !IsExpired(", "if IsExpired(")))
E('D-m4', 'scan', ps, M, '!ok -> ok (nothing is ever stored)',
  (TB, SC_DEDUP, SC_DEDUP.replace("; !ok {", "; ok {")))
E('D-m5', 'scan', ps, M, '&& -> || in the liveness test',
  (TB, SC_LIVE, SC_LIVE.replace(") && es[key]", ") || es[key]")))
E('D-m6', 'scan', ps, M, 'timestamp argument of IsExpired replaced by 0',
  (TB, SC_LIVE, SC_LIVE.replace("IsExpired(es[key].Meta.TTL, es[key].Meta.timestamp)", "IsExpired(es[key].Meta.TTL, 0)")))
E('D-m7', 'scan', ps, M, 'Flag != DataDeleteFlag -> Flag == DataDeleteFlag',
  (TB, SC_LIVE, SC_LIVE.replace("Meta.Flag != DataDeleteFlag", "Meta.Flag == DataDeleteFlag")))

# ---------------------------------------------------------------- IsExpired (helper, record.go)
ie = 'IsExpired'
IE_IF = "\tif ttl > 0 && uint64(ttl)+timestamp > uint64(now) || ttl == Persistent {\n\t\treturn false\n\t}\n\n\treturn true\n"
E('I-h1', 'scan', ie, H, 'operands of || swapped, comparison reversed',
  (('record.go'), IE_IF, "\tif ttl == Persistent || ttl > 0 && uint64(now) < uint64(ttl)+timestamp {\n\t\treturn false\n\t}\n\n\treturn true\n"))
E('I-h2', 'scan', ie, H, 'negated test with the returns exchanged',
  (('record.go'), IE_IF, "\tif ttl != Persistent && !(ttl > 0 && uint64(ttl)+timestamp > uint64(now)) {\n\t\treturn true\n\t}\n\n\treturn false\n"))
E('I-h3', 'scan', ie, H, 'ttl > 0 written ttl != 0 (uint32), two ifs',
  (('record.go'), IE_IF, "\tif ttl == Persistent {\n\t\treturn false\n\t}\n\tif ttl != 0 && uint64(ttl)+timestamp > uint64(now) {\n\t\treturn false\n\t}\n\n\treturn true\n"))
E('I-m1', 'scan', ie, M, '> -> >= in the expiry test',
  (('record.go'), IE_IF, IE_IF.replace("timestamp > uint64(now)", "timestamp >= uint64(now)")))
E('I-m2', 'scan', ie, M, 'the Persistent test dropped',
  (('record.go'), IE_IF, IE_IF.replace(" || ttl == Persistent", "")))

# ---------------------------------------------------------------- SortedEntryKeys
sk = 'SortedEntryKeys'
UT = 'utils.go'
SK_ALL = "\tfor k := range m {\n\t\tkeys = append(keys, k)\n\t}\n\n\tsort.Strings(keys)\n\n\treturn keys, m\n}\n"
E('S-h1', 'scan', sk, H, 'for k, _ := range m',
  (UT, SK_ALL, SK_ALL.replace("for k := range m", "for k, _ := range m")))
E('S-h2', 'scan', sk, H, 'named result es assigned, naked return',
  (UT, SK_ALL, "\tfor k := range m {\n\t\tkeys = append(keys, k)\n\t}\n\n\tsort.Strings(keys)\n\tes = m\n\n\treturn\n}\n"))
E('S-h3', 'scan', sk, H, 'es = m first, return keys, es',
  (UT, SK_ALL, "\tes = m\n\tfor k := range m {\n\t\tkeys = append(keys, k)\n\t}\n\n\tsort.Strings(keys)\n\n\treturn keys, es\n}\n"))
E('S-h4', 'scan', sk, H, 'keys collected in a local slice',
  (UT, SK_ALL, "\tvar ks []string\n\tfor k := range m {\n\t\tks = append(ks, k)\n\t}\n\n\tsort.Strings(ks)\n\n\treturn ks, m\n}\n"))
E('S-h5', 'scan', sk, H, 'value bound and ignored; temporary for the key',
  (UT, SK_ALL, "\tfor k, v := range m {\n\t\t_ = v\n\t\tkey := k\n\t\tkeys = append(keys, key)\n\t}\n\n\tsort.Strings(keys)\n\n\treturn keys, m\n}\n"))
E('S-h6', 'scan', sk, H, 'early return on an empty map',
  (UT, SK_ALL, "\tif len(m) == 0 {\n\t\treturn keys, m\n\t}\n" + SK_ALL))
E('S-h7', 'scan', sk, H, 'range over es after es = m',
  (UT, SK_ALL, "\tes = m\n\tfor k := range es {\n\t\tkeys = append(keys, k)\n\t}\n\n\tsort.Strings(keys)\n\n\treturn keys, es\n}\n"))
E('S-h8', 'scan', sk, H, 'sort.Strings twice (idempotent)',
  (UT, SK_ALL, SK_ALL.replace("\tsort.Strings(keys)\n", "\tsort.Strings(keys)\n\tsort.Strings(keys)\n")))
E('S-x9', 'scan', sk, 'harmless-untranslatable', 'sort only when there is something to sort (len(keys) > 1) — harmless in Go, but the TRANSLATOR drops the effect of sort.Strings inside the if-block (the generated function returns the unsorted keys): cannot pass, see report',
  (UT, SK_ALL, SK_ALL.replace("\tsort.Strings(keys)\n", "\tif len(keys) > 1 {\n\t\tsort.Strings(keys)\n\t}\n")))
E('S-h10', 'scan', sk, H, 'append of a one-element slice literal',
  (UT, SK_ALL, SK_ALL.replace("keys = append(keys, k)", "keys = append(keys, []string{k}...)")))
E('S-c1', 'scan', sk, H, 'combination S-h3 + S-h4 + S-h5',
  (UT, SK_ALL, "\tes = m\n\tvar ks []string\n\tfor k, v := range m {\n\t\t_ = v\n\t\tks = append(ks, k)\n\t}\n\n\tsort.Strings(ks)\n\tkeys = ks\n\n\treturn keys, es\n}\n"))
E('S-m1', 'scan', sk, M, 'sort.Strings(keys) removed (and the import of sort)',
  (UT, SK_ALL, SK_ALL.replace("\tsort.Strings(keys)\n", "")),
  (UT, 'import (\n\t"os"\n\t"sort"\n)', 'import (\n\t"os"\n)'))
E('S-m2', 'scan', sk, M, 'keys appended twice',
  (UT, SK_ALL, SK_ALL.replace("keys = append(keys, k)\n", "keys = append(keys, k)\n\t\tkeys = append(keys, k)\n")))
E('S-m3', 'scan', sk, M, 'only the first key kept (break after the first append)',
  (UT, SK_ALL, SK_ALL.replace("keys = append(keys, k)\n", "keys = append(keys, k)\n\t\tbreak\n")))

# ---------------------------------------------------------------- Tx.buildTempBucketMetaIdx
bt = 'buildTempBucketMetaIdx'
TX = 'tx.go'
BT_HEAD = "\tkeySize := uint32(len(key))\n\tif bucketMetaTemp.start == nil {\n\t\tbucketMetaTemp = BucketMeta{start: key, end: key, startSize: keySize, endSize: keySize}\n\t} else {\n"
BT_START = "\t\tif compare(bucketMetaTemp.start, key) > 0 {\n\t\t\tbucketMetaTemp.start = key\n\t\t\tbucketMetaTemp.startSize = keySize\n\t\t}\n"
BT_END = "\t\tif compare(bucketMetaTemp.end, key) < 0 {\n\t\t\tbucketMetaTemp.end = key\n\t\t\tbucketMetaTemp.endSize = keySize\n\t\t}\n"
BT_TAIL = "\t}\n\n\treturn bucketMetaTemp\n}\n"
BT_ALL = BT_HEAD + BT_START + "\n" + BT_END + BT_TAIL

E('B-h1', 'scan', bt, H, 'arguments of compare exchanged with the comparison reversed (start)',
  (TX, BT_START, BT_START.replace("compare(bucketMetaTemp.start, key) > 0", "compare(key, bucketMetaTemp.start) < 0")))
E('B-h2', 'scan', bt, H, 'nil test negated with the branches exchanged',
  (TX, BT_ALL, "\tkeySize := uint32(len(key))\n\tif bucketMetaTemp.start != nil {\n" + BT_START + "\n" + BT_END +
   "\t} else {\n\t\tbucketMetaTemp = BucketMeta{start: key, end: key, startSize: keySize, endSize: keySize}\n" + BT_TAIL))
E('B-h3', 'scan', bt, H, '0 < compare(..), 0 > compare(..)',
  (TX, BT_START, BT_START.replace("compare(bucketMetaTemp.start, key) > 0", "0 < compare(bucketMetaTemp.start, key)")),
  (TX, BT_END, BT_END.replace("compare(bucketMetaTemp.end, key) < 0", "0 > compare(bucketMetaTemp.end, key)")))
E('B-h4', 'scan', bt, H, 'the two independent updates in the other order',
  (TX, BT_START + "\n" + BT_END, BT_END + "\n" + BT_START))
E('B-h5', 'scan', bt, H, 'field assignments in the other order',
  (TX, BT_START, "\t\tif compare(bucketMetaTemp.start, key) > 0 {\n\t\t\tbucketMetaTemp.startSize = keySize\n\t\t\tbucketMetaTemp.start = key\n\t\t}\n"),
  (TX, BT_END, "\t\tif compare(bucketMetaTemp.end, key) < 0 {\n\t\t\tbucketMetaTemp.endSize = keySize\n\t\t\tbucketMetaTemp.end = key\n\t\t}\n"))
E('B-h6', 'scan', bt, H, 'keySize inlined',
  (TX, BT_ALL, BT_ALL.replace("\tkeySize := uint32(len(key))\n", "").replace("keySize", "uint32(len(key))")))
E('B-h7', 'scan', bt, H, 'early return in the nil case',
  (TX, BT_ALL, "\tkeySize := uint32(len(key))\n\tif bucketMetaTemp.start == nil {\n\t\treturn BucketMeta{start: key, end: key, startSize: keySize, endSize: keySize}\n\t}\n" +
   BT_START.replace("\t\t", "\t", 1).replace("\n\t\t", "\n\t") + BT_END.replace("\t\t", "\t", 1).replace("\n\t\t", "\n\t") + "\n\treturn bucketMetaTemp\n}\n"))
E('B-h8', 'scan', bt, H, 'results of compare in temporaries',
  (TX, BT_START, "\t\tcs := compare(bucketMetaTemp.start, key)\n\t\tif cs > 0 {\n\t\t\tbucketMetaTemp.start = key\n\t\t\tbucketMetaTemp.startSize = keySize\n\t\t}\n"),
  (TX, BT_END, "\t\tce := compare(bucketMetaTemp.end, key)\n\t\tif ce < 0 {\n\t\t\tbucketMetaTemp.end = key\n\t\t\tbucketMetaTemp.endSize = keySize\n\t\t}\n"))
E('B-h9', 'scan', bt, H, 'struct literal with the fields in another order and crc: 0 explicit',
  (TX, "BucketMeta{start: key, end: key, startSize: keySize, endSize: keySize}\n\t} else {\n\t\tif compare(bucketMetaTemp.start, key) > 0 {",
   "BucketMeta{startSize: keySize, endSize: keySize, crc: 0, end: key, start: key}\n\t} else {\n\t\tif compare(bucketMetaTemp.start, key) > 0 {"))
E('B-h10', 'scan', bt, H, 'compare(..) > 0 written >= 1, < 0 written <= -1',
  (TX, BT_START, BT_START.replace("key) > 0", "key) >= 1")),
  (TX, BT_END, BT_END.replace("key) < 0", "key) <= -1")))
E('B-h11', 'scan', bt, H, 'compare(..) == 1 / == -1 (bytes.Compare returns -1, 0 or 1)',
  (TX, BT_START, BT_START.replace("key) > 0", "key) == 1")),
  (TX, BT_END, BT_END.replace("key) < 0", "key) == -1")))
E('B-h12', 'scan', bt, H, 'negated <=, >=',
  (TX, BT_START, BT_START.replace("compare(bucketMetaTemp.start, key) > 0", "!(compare(bucketMetaTemp.start, key) <= 0)")),
  (TX, BT_END, BT_END.replace("compare(bucketMetaTemp.end, key) < 0", "!(compare(bucketMetaTemp.end, key) >= 0)")))
E('B-h13', 'scan', bt, H, 'arguments of compare exchanged with the comparison reversed (end)',
  (TX, BT_END, BT_END.replace("compare(bucketMetaTemp.end, key) < 0", "compare(key, bucketMetaTemp.end) > 0")))
E('B-h14', 'scan', bt, H, 'work on a local copy t of the parameter',
  (TX, BT_ALL, BT_ALL.replace("\tkeySize := uint32(len(key))\n", "\tkeySize := uint32(len(key))\n\tt := bucketMetaTemp\n").replace("bucketMetaTemp.", "t.").replace("bucketMetaTemp = ", "t = ").replace("return bucketMetaTemp", "return t")))
E('B-c1', 'scan', bt, H, 'combination B-h1 + B-h13 + B-h4 + B-h5',
  (TX, BT_START + "\n" + BT_END,
   "\t\tif compare(key, bucketMetaTemp.end) > 0 {\n\t\t\tbucketMetaTemp.endSize = keySize\n\t\t\tbucketMetaTemp.end = key\n\t\t}\n\n"
   "\t\tif compare(key, bucketMetaTemp.start) < 0 {\n\t\t\tbucketMetaTemp.startSize = keySize\n\t\t\tbucketMetaTemp.start = key\n\t\t}\n"))
E('B-c2', 'scan', bt, H, 'combination B-h2 + B-h8 + B-h11',
  (TX, BT_ALL, "\tkeySize := uint32(len(key))\n\tif bucketMetaTemp.start != nil {\n"
   "\t\tcs := compare(bucketMetaTemp.start, key)\n\t\tif cs == 1 {\n\t\t\tbucketMetaTemp.start = key\n\t\t\tbucketMetaTemp.startSize = keySize\n\t\t}\n\n"
   "\t\tce := compare(bucketMetaTemp.end, key)\n\t\tif ce == -1 {\n\t\t\tbucketMetaTemp.end = key\n\t\t\tbucketMetaTemp.endSize = keySize\n\t\t}\n"
   "\t} else {\n\t\tbucketMetaTemp = BucketMeta{start: key, end: key, startSize: keySize, endSize: keySize}\n" + BT_TAIL))

E('B-m1', 'scan', bt, M, 'compare(end, key) < 0 -> > 0',
  (TX, BT_END, BT_END.replace("key) < 0", "key) > 0")))
E('B-m2', 'scan', bt, M, 'compare(start, key) > 0 -> >= 0 (an equal key resets startSize: differs from the specification when startSize is not the length of start)',
  (TX, BT_START, BT_START.replace("key) > 0", "key) >= 0")))
E('B-m3', 'scan', bt, M, 'compare(start, key) > 0 -> < 0',
  (TX, BT_START, BT_START.replace("key) > 0", "key) < 0")))
E('B-m4', 'scan', bt, M, 'startSize not updated',
  (TX, BT_START, BT_START.replace("\t\t\tbucketMetaTemp.startSize = keySize\n", "")))
E('B-m5', 'scan', bt, M, 'end compared with start',
  (TX, BT_END, BT_END.replace("compare(bucketMetaTemp.end, key)", "compare(bucketMetaTemp.start, key)")))
E('B-m6', 'scan', bt, M, 'nil case: end left empty',
  (TX, "BucketMeta{start: key, end: key, startSize: keySize, endSize: keySize}\n\t} else {\n\t\tif compare(bucketMetaTemp.start, key) > 0 {",
   "BucketMeta{start: key, startSize: keySize, endSize: keySize}\n\t} else {\n\t\tif compare(bucketMetaTemp.start, key) > 0 {"))
E('B-m7', 'scan', bt, M, 'the end update nested under else of the start update (else if)',
  (TX, BT_START + "\n" + BT_END, BT_START[:-2] + "} else if compare(bucketMetaTemp.end, key) < 0 {\n\t\t\tbucketMetaTemp.end = key\n\t\t\tbucketMetaTemp.endSize = keySize\n\t\t}\n"))
E('B-m8', 'scan', bt, M, 'keySize := uint32(len(bucket)) instead of len(key)',
  (TX, "\tkeySize := uint32(len(key))\n\tif bucketMetaTemp.start == nil {", "\tkeySize := uint32(len(bucket))\n\tif bucketMetaTemp.start == nil {"))

# ---------------------------------------------------------------- second round
E('P-h24', 'page', pe, H, 'fast path after the clamps: limitNum == 0 returns the empty page at once',
  (TB, "\tvar es Entries\n\tfor _, e := range all[off:] {", "\tif limitNum == 0 {\n\t\treturn nil, off, notFound\n\t}\n\tvar es Entries\n\tfor _, e := range all[off:] {"))
E('P-h25', 'page', pe, H, 'fast path: an empty all returns (nil, 0, notFound) at once',
  (TB, "\toff := offsetNum\n\tif off < 0 {\n\t\toff = 0\n\t}\n\tif off > len(all) {", "\tif len(all) == 0 {\n\t\treturn nil, 0, notFound\n\t}\n\toff := offsetNum\n\tif off < 0 {\n\t\toff = 0\n\t}\n\tif off > len(all) {"))
E('P-m11', 'page', pe, M, 'fast path BEFORE the clamps: limitNum == 0 returns the unclamped offset',
  (TB, "\toff := offsetNum\n\tif off < 0 {\n\t\toff = 0\n\t}\n\tif off > len(all) {", "\toff := offsetNum\n\tif limitNum == 0 {\n\t\treturn nil, off, notFound\n\t}\n\tif off < 0 {\n\t\toff = 0\n\t}\n\tif off > len(all) {"))
E('P-m12', 'page', pe, M, 'wrong fast path: limitNum <= 0 returns the empty page (wrong for ScanNoLimit = -1)',
  (TB, "\tvar es Entries\n\tfor _, e := range all[off:] {", "\tif limitNum <= 0 {\n\t\treturn nil, off, notFound\n\t}\n\tvar es Entries\n\tfor _, e := range all[off:] {"))
E('D-h15', 'scan', ps, H, 'fast path: no entries, nil result',
  (TB, SC_DECL, "\tif len(entriesTemp) == 0 {\n\t\treturn nil\n\t}\n" + SC_DECL))
E('D-h16', 'scan', ps, H, 'map made with a size hint',
  (TB, SC_DECL, "\tentriesMap := make(map[string]*Entry, len(entriesTemp))\n"))
E('D-h17', 'scan', ps, H, 'result preallocated: make([]*Entry, 0, len(keys))',
  (TB, SC_SORT, "\tkeys, es := SortedEntryKeys(entriesMap)\n\tresult = make([]*Entry, 0, len(keys))\n\tfor _, key := range keys {\n"))
E('S-h11', 'scan', sk, H, 'keys preallocated: make([]string, 0, len(m))',
  (UT, SK_ALL, "\tkeys = make([]string, 0, len(m))\n" + SK_ALL))
E('B-h15', 'scan', bt, H, 'if with an init statement: if c := compare(..); c > 0',
  (TX, BT_START, BT_START.replace("if compare(bucketMetaTemp.start, key) > 0 {", "if c := compare(bucketMetaTemp.start, key); c > 0 {")),
  (TX, BT_END, BT_END.replace("if compare(bucketMetaTemp.end, key) < 0 {", "if c := compare(bucketMetaTemp.end, key); c < 0 {")))
E('B-h16', 'scan', bt, H, 'bytes.Compare called directly',
  (TX, BT_START, BT_START.replace("compare(bucketMetaTemp.start, key)", "bytes.Compare(bucketMetaTemp.start, key)")),
  (TX, BT_END, BT_END.replace("compare(bucketMetaTemp.end, key)", "bytes.Compare(bucketMetaTemp.end, key)")),
  (TX, 'import (\n\t"errors"\n', 'import (\n\t"bytes"\n\t"errors"\n'))
E('B-x17', 'scan', bt, 'harmless-untranslatable', 'a switch instead of the outer if/else — the translator does not translate switch statements (function skipped): cannot pass',
  (TX, BT_ALL, "\tkeySize := uint32(len(key))\n\tswitch {\n\tcase bucketMetaTemp.start == nil:\n\t\tbucketMetaTemp = BucketMeta{start: key, end: key, startSize: keySize, endSize: keySize}\n\tdefault:\n" + BT_START + "\n" + BT_END + BT_TAIL))
E('D-h18', 'scan', ps, H, 'first loop by index: for i := range entriesTemp { entry := entriesTemp[i] .. }',
  (TB, "\tfor _, entry := range entriesTemp {\n\t\tif _, ok := entriesMap[string(entry.Key)]; !ok {", "\tfor i := range entriesTemp {\n\t\tentry := entriesTemp[i]\n\t\tif _, ok := entriesMap[string(entry.Key)]; !ok {"))
E('D-h19', 'scan', ps, H, 'second loop by index: for i := range keys { key := keys[i] .. }',
  (TB, SC_SORT, "\tkeys, es := SortedEntryKeys(entriesMap)\n\tfor i := range keys {\n\t\tkey := keys[i]\n"))
E('P-h26', 'page', pe, H, 'loop by index over a local tail: for i := range tail { e := tail[i] .. }',
  (TB, "\tfor _, e := range all[off:] {\n", "\ttail := all[off:]\n\tfor i := range tail {\n\t\te := tail[i]\n"))
E('P-c4', 'page', pe, H, 'combination h21 (regexp test first) + h16 (nested limit test) + h26 (by index) + h24 (fast path) + h9',
  (TB, "\tvar es Entries\n\tfor _, e := range all[off:] {\n" + PAGE_LIMIT + PAGE_RGX,
   "\tif limitNum == 0 {\n\t\treturn nil, off, notFound\n\t}\n\tvar es Entries\n\ttail := all[off:]\n\tfor i := range tail {\n\t\te := tail[i]\n"
   "\t\tif rgx != nil && !rgx.Match(bytes.TrimPrefix(e.Key, prefix)) {\n\t\t\tcontinue\n\t\t}\n"
   "\t\tif limitNum != -1 {\n\t\t\tif len(es) >= limitNum {\n\t\t\t\tbreak\n\t\t\t}\n\t\t}\n\t\tes = append(es, e)\n"),
  (TB, PAGE_END, "\tif len(es) != 0 {\n\t\treturn es, off, nil\n\t}\n\treturn nil, off, notFound\n}\n\n// PrefixScan iterates"))
E('D-c3', 'scan', ps, H, 'combination D-h15 (fast path) + D-h18 (by index) + D-h17 (preallocation) + D-h12 + I-h2 (IsExpired negated) + S-h6 (SortedEntryKeys fast path)',
  (TB, SC_DECL, "\tif len(entriesTemp) == 0 {\n\t\treturn nil\n\t}\n" + SC_DECL),
  (TB, "\tfor _, entry := range entriesTemp {\n\t\tif _, ok := entriesMap[string(entry.Key)]; !ok {", "\tfor i := range entriesTemp {\n\t\tentry := entriesTemp[i]\n\t\tif _, ok := entriesMap[string(entry.Key)]; !ok {"),
  (TB, SC_SORT + SC_LIVE, "\tkeys, es := SortedEntryKeys(entriesMap)\n\tresult = make([]*Entry, 0, len(keys))\n\tfor _, key := range keys {\n"
   "\t\tif IsExpired(es[key].Meta.TTL, es[key].Meta.timestamp) || es[key].Meta.Flag == DataDeleteFlag {\n\t\t} else {\n\t\t\tresult = append(result, es[key])\n\t\t}\n"),
  ('record.go', IE_IF, "\tif ttl != Persistent && !(ttl > 0 && uint64(ttl)+timestamp > uint64(now)) {\n\t\treturn true\n\t}\n\n\treturn false\n"),
  (UT, SK_ALL, "\tif len(m) == 0 {\n\t\treturn keys, m\n\t}\n" + SK_ALL))
E('B-h18', 'scan', bt, H, 'the helper compare (bptree.go) with a temporary for its result',
  ('bptree.go', "func compare(a, b []byte) int {\n\treturn bytes.Compare(a, b)\n}", "func compare(a, b []byte) int {\n\tc := bytes.Compare(a, b)\n\treturn c\n}"))
E('B-h19', 'scan', bt, H, 'start and end keys in temporaries, sizes assigned before the keys',
  (TX, BT_START, "\t\ts := bucketMetaTemp.start\n\t\tif compare(s, key) > 0 {\n\t\t\tbucketMetaTemp.startSize = keySize\n\t\t\tbucketMetaTemp.start = key\n\t\t}\n"),
  (TX, BT_END, "\t\te := bucketMetaTemp.end\n\t\tif compare(e, key) < 0 {\n\t\t\tbucketMetaTemp.endSize = keySize\n\t\t\tbucketMetaTemp.end = key\n\t\t}\n"))
E('B-m9', 'scan', bt, M, 'the helper compare with its arguments exchanged',
  ('bptree.go', "func compare(a, b []byte) int {\n\treturn bytes.Compare(a, b)\n}", "func compare(a, b []byte) int {\n\treturn bytes.Compare(b, a)\n}"))
E('S-h12', 'scan', sk, H, 'empty-map fast path written len(m) < 1 with a literal nil',
  (UT, SK_ALL, "\tif len(m) < 1 {\n\t\treturn nil, m\n\t}\n" + SK_ALL))
E('S-m4', 'scan', sk, M, 'wrong fast path: a map with one key returns no keys (len(m) <= 1)',
  (UT, SK_ALL, "\tif len(m) <= 1 {\n\t\treturn nil, m\n\t}\n" + SK_ALL))
E('D-m8', 'scan', ps, M, 'wrong fast path: a single entry is returned unfiltered',
  (TB, SC_DECL, "\tif len(entriesTemp) == 1 {\n\t\treturn entriesTemp\n\t}\n" + SC_DECL))

# ---------------------------------------------------------------- harmless in Go but outside what the proofs follow (expected to fail, reported)
X = 'harmless-beyond'
E('P-x27', 'page', pe, X, 'the offset applied inside the loop: for i, e := range all { if i < off { continue } .. } — another algorithm (no slice), the loop lemma does not cover it',
  (TB, "\tfor _, e := range all[off:] {\n", "\tfor i, e := range all {\n\t\tif i < off {\n\t\t\tcontinue\n\t\t}\n"))
E('P-x28', 'page', pe, X, 'a counter n kept next to es and tested instead of len(es) — needs the invariant n = len(es), which the state-generic loop lemma does not carry',
  (TB, "\tvar es Entries\n\tfor _, e := range all[off:] {\n\t\tif limitNum != ScanNoLimit && len(es) >= limitNum {\n\t\t\tbreak\n\t\t}\n" + PAGE_RGX,
   "\tvar es Entries\n\tn := 0\n\tfor _, e := range all[off:] {\n\t\tif limitNum != ScanNoLimit && n >= limitNum {\n\t\t\tbreak\n\t\t}\n" + PAGE_RGX + "\t\tn++\n"))
E('D-x20', 'scan', ps, X, 'IsExpired inlined in the loop: the helper is no longer translated, and the theorem go_IsExpired_eq (whose statement is fixed) has nothing to talk about',
  (TB, SC_LIVE, "\t\tttl, ts := es[key].Meta.TTL, es[key].Meta.timestamp\n\t\texpired := !(ttl > 0 && uint64(ttl)+ts > uint64(time.Now().Unix()) || ttl == Persistent)\n\t\tif !expired && es[key].Meta.Flag != DataDeleteFlag {\n\t\t\tresult = append(result, es[key])\n\t\t}\n"))
