import subprocess, os, sys
R='/dev/shm/hr/repo'; C='/dev/shm/hr/coq'
env=dict(os.environ, GOFLAGS='-mod=mod', GOPROXY='off', GOSUMDB='off', GOTOOLCHAIN='local')
Q="-Q theories Verif -Q gosem VerifGo -Q generated VerifGen -Q properties_code VerifCode".split()
ZB='\tif _, ok := tx.db.SortedSetIdx[bucket]; !ok {\n\t\treturn ErrBucket\n\t}\n'
ZREM='\treturn tx.put(bucket, []byte(key), []byte(""), Persistent, DataZRemFlag, uint64(time.Now().Unix()), DataStructureSortedSet)'
ZRR='\tnewKey := strconv2.IntToStr(start)\n\tnewVal := strconv2.IntToStr(end)\n\treturn tx.put(bucket, []byte(newKey), []byte(newVal), Persistent, DataZRemRangeByRankFlag, uint64(time.Now().Unix()), DataStructureSortedSet)'
E=[
 ('h1','H','tx_zset.go',ZB, ZB.replace('ok','found')),
 ('h2','H','tx_zset.go',ZREM, ZREM.replace('[]byte("")','[]byte{}')),
 ('h3','H','tx_zset.go',ZREM, '\tk := []byte(key)\n'+ZREM.replace('[]byte(key)','k')),
 ('h4','H','tx_zset.go',ZRR, '\treturn tx.put(bucket, []byte(strconv2.IntToStr(start)), []byte(strconv2.IntToStr(end)), Persistent, DataZRemRangeByRankFlag, uint64(time.Now().Unix()), DataStructureSortedSet)'),
 ('h5','H','tx.go','\tif tx.db == nil {\n\t\treturn ErrTxClosed\n\t}\n\treturn nil','\tif nil == tx.db {\n\t\treturn ErrTxClosed\n\t}\n\treturn nil'),
 ('h6','H','tx_zset.go',ZB, '\t_, ok := tx.db.SortedSetIdx[bucket]\n\tif !ok {\n\t\treturn ErrBucket\n\t}\n'),
 ('h7','H','tx_zset.go',ZREM, '\tnow := uint64(time.Now().Unix())\n'+ZREM.replace('uint64(time.Now().Unix())','now')),
 ('h8','H','tx.go','\tif tx.db == nil {\n\t\treturn ErrTxClosed\n\t}\n\treturn nil','\tif tx.db != nil {\n\t\treturn nil\n\t}\n\treturn ErrTxClosed'),
 ('m1','M','tx_zset.go',ZREM, ZREM.replace('DataZRemFlag','DataZRemRangeByRankFlag')),
 ('m2','M','tx_zset.go',ZB+'\n\treturn tx.put(bucket, []byte(key)', '\n\treturn tx.put(bucket, []byte(key)'),
 ('m3','M','tx_zset.go',ZRR, ZRR.replace('IntToStr(start)','IntToStr(end)',1)),
 ('m4','M','tx_zset.go',ZREM, ZREM.replace('Persistent','1')),
 ('m5','M','tx_zset.go',ZREM, ZREM.replace('DataStructureSortedSet','DataStructureSet')),
 ('m6','M','tx_zset.go',ZRR, ZRR.replace('[]byte(newVal)','[]byte(newKey)')),
 ('m7','M','tx.go','\tif !tx.writable {\n\t\treturn ErrTxNotWritable\n\t}\n','' ),
 ('m8','M','tx_zset.go','\treturn len(members), nil','\treturn len(members) + 1, nil'),
]
def sh(cmd,cwd,to=600):
    p=subprocess.run(cmd,cwd=cwd,env=env,stdout=subprocess.PIPE,stderr=subprocess.STDOUT,text=True,timeout=to); return p.returncode,p.stdout
for (i,kind,f,a,b) in E:
    subprocess.run(['git','checkout','-q','--','.'],cwd=R)
    s=open(os.path.join(R,f)).read()
    if s.count(a)<1: print(i,'EDIT-NOT-APPLICABLE', s.count(a)); continue
    open(os.path.join(R,f),'w').write(s.replace(a,b,1))
    rc,out=sh(['go','build','./...'],R)
    if rc: print(i,kind,'GO-BUILD-FAILED',out[-300:]); continue
    rc,out=sh(['/verif/translator/_bin/veriftr','-dir','.','-out',C+'/generated/GoTxZ.v','-module','GoTxZ','-skipfiles','verif_on.go,verif_dump.go','-imports',
      'github.com/xujiajun/nutsdb/ds/list=%s/generated/GoList.json,github.com/xujiajun/nutsdb/ds/set=%s/generated/GoSet.json,github.com/xujiajun/nutsdb/ds/zset=%s/generated/GoZSet.json'%(C,C,C),
      '-only','Tx.checkTxIsClosed,Tx.put,Tx.ZRem,Tx.ZRemRangeByRank,Tx.ZMembers,Tx.ZCard'],R)
    if rc: print(i,kind,'TRANSLATION-FAILED',out[-300:]); continue
    st='PROOF-OK'
    for v in ('generated/GoTxZ.v','gosem/GoTxZFacts.v','properties_code/C07_code.v'):
        rc,out=sh(['coqc']+Q+[v],C)
        if rc: st='BROKEN at '+v+': '+' '.join(out.split())[:260]; break
    print(i,kind,st, '(%s)'%out.strip()[-0:] if False else '')
subprocess.run(['git','checkout','-q','--','.'],cwd=R)
