#!/bin/bash
# usage: tie.sh page|scan   — translate the Go functions from /tmp/pf_P27/repo and re-check the proofs about them
export GOFLAGS=-mod=mod GOPROXY=off GOSUMDB=off GOTOOLCHAIN=local
cd /tmp/pf_P27/repo && go build ./... || { echo GO-BUILD-FAILED; exit 1; }
C="-Q theories Verif -Q gosem VerifGo -Q generated VerifGen -Q properties_code VerifCode"
if [ "$1" = page ]; then
  /tmp/pf_P27/veriftr -dir /tmp/pf_P27/repo -out /tmp/pf_P27/coq/generated/GoPage.v -module GoPage -skipfiles verif_on.go,verif_dump.go -only pageEntries 2>&1 | tail -1
  G=generated/GoPage.v; F=gosem/GoPageFacts.v; P=properties_code/C03_code.v
else
  /tmp/pf_P27/veriftr -dir /tmp/pf_P27/repo -out /tmp/pf_P27/coq/generated/GoScan.v -module GoScan -skipfiles verif_on.go,verif_dump.go -only processEntriesScanOnDisk,SortedEntryKeys,Tx.buildTempBucketMetaIdx 2>&1 | tail -1
  G=generated/GoScan.v; F=gosem/GoScanFacts.v; P=properties_code/C02_code.v
fi
cd /tmp/pf_P27/coq
timeout 600 coqc $C $G >/dev/null 2>/tmp/pf_P27/err.txt || { echo GENERATED-FILE-DOES-NOT-COMPILE; head -8 /tmp/pf_P27/err.txt; exit 1; }
timeout 900 coqc $C $F >/dev/null 2>/tmp/pf_P27/err.txt || { echo PROOF-BROKEN; head -12 /tmp/pf_P27/err.txt; exit 1; }
timeout 600 coqc $C $P >/dev/null 2>/tmp/pf_P27/err.txt || { echo PROPERTY-FILE-BROKEN; head -8 /tmp/pf_P27/err.txt; exit 1; }
echo PROOF-OK
