package main

// st.go — stateful executor: one trace line (call text) -> the real nutsdb API
// -> canonical result text.  Used both by the generators (hist.go) and by the
// `exec` suite that re-executes replay files, so every generated history is
// replayable from its text alone.

import (
	"encoding/binary"
	"fmt"
	"hash/crc32"
	"io/ioutil"
	"math"
	"os"
	"os/exec"
	"path/filepath"
	"regexp"
	"sort"
	"strconv"
	"strings"
	"sync"
	"time"

	"github.com/xujiajun/nutsdb"
	"github.com/xujiajun/nutsdb/ds/zset"
)

type St struct {
	work    string
	n       int
	dir     string
	opt     nutsdb.Options
	db      *nutsdb.DB
	tx      *nutsdb.Tx
	dead    bool // a panic happened: the rest of the history is skipped
	lastNow int64
	keys    map[string]bool // every KV key seen in this history (regexp oracle domain)
	events  []Event         // file-mutation events (when recording)
	record  bool
	faultAt int // inject an error at the k-th mutation event from now (0 = off)
	faultPartial int // bytes of the failing write that still reach the file (-1 = none)
	evCount int
	quiet   bool   // do not emit trace lines (twin run)
	comment bool   // emit trace lines as comments (not replayed by the model)
	txActive bool  // a transaction holds the database lock
	datEnd   int64 // end of the last data-file write (-1: unknown), for exact-fill entries
	intern  map[string][]byte // argument buffers of this history: one slice (with spare capacity) per distinct byte string
	lastOpenErr string
	faultOp string // op of the event at which the injected fault fired
	datWrites int  // complete data-file writes observed since the fault was armed
	// bucket-meta oracle (HintBPTSparseIdxMode, single-bucket key/value histories): the smallest and largest key
	// written by committed transactions, to be compared with what the bucket meta file decodes to
	bmCheck bool
	bmTx    [][2]string          // (bucket, key) of the key/value writes of the running transaction
	bm      map[string][2]string // bucket -> (smallest key, largest key)
	// entry-meta oracle: TTL and timestamp of the last committed put of every key; Get must hand back exactly these
	// (Merge, reopen and index rebuilds move records, they must not restamp them)
	mtTx [][5]string          // (op, bucket, key, ttl, ts) of the key/value writes of the running transaction
	mt   map[string][2]string // bucket \x00 key -> (ttl, ts)
	mtUnknown bool            // the put just executed took its timestamp from the library's clock
	mergeCh   chan error      // a Merge running in another goroutine (mergeasync)
	lastRC    string          // the call text as executed (e.g. putfill -> put with the value it chose)
}

type Event struct {
	Op   string
	Path string // relative to dir
	Off  int64
	Data []byte
}

func NewSt(work string) *St {
	return &St{work: work, keys: map[string]bool{}}
}

func (s *St) reset() {
	s.closeQuiet()
	if s.dir != "" {
		os.RemoveAll(s.dir)
	}
	s.n++
	s.dir = filepath.Join(s.work, fmt.Sprintf("db%d", s.n))
	os.RemoveAll(s.dir)
	s.dead = false
	s.txActive = false
	s.tx = nil
	s.db = nil
	s.keys = map[string]bool{}
	s.events = nil
	s.intern = map[string][]byte{}
	s.bm = map[string][2]string{}
	s.bmTx = nil
	s.mt = map[string][2]string{}
	s.mtTx = nil
}

// arg returns the caller-side buffer for a byte-string argument.  Like an application that keeps
// its keys in reusable buffers, the harness passes the SAME slice, with spare capacity behind it,
// every time a byte string recurs in a history: an API call that appends to or stores into its
// argument then corrupts a later (or an earlier, still pending) call.
func (s *St) arg(h string) []byte {
	if s.intern == nil {
		s.intern = map[string][]byte{}
	}
	if b, ok := s.intern[h]; ok {
		return b
	}
	raw := unhx(h)
	buf := make([]byte, len(raw), len(raw)+24)
	copy(buf, raw)
	s.intern[h] = buf
	return buf
}

func (s *St) closeQuiet() {
	defer func() { recover() }()
	if s.tx != nil {
		func() { defer func() { recover() }(); s.tx.Rollback() }()
		s.tx = nil
	}
	if s.db != nil {
		done := make(chan struct{})
		go func() { defer func() { recover(); close(done) }(); s.db.Close() }()
		select {
		case <-done:
		case <-time.After(2 * time.Second):
		}
		s.db = nil
	}
}

func hxl(l [][]byte) string {
	if len(l) == 0 {
		return "-"
	}
	p := make([]string, len(l))
	for i, b := range l {
		p[i] = hx(b)
	}
	return strings.Join(p, ",")
}

func unhxl(s string) [][]byte {
	if s == "-" {
		return nil
	}
	var r [][]byte
	for _, t := range strings.Split(s, ",") {
		r = append(r, unhx(t))
	}
	return r
}

func sortedCopy(l [][]byte) [][]byte {
	c := make([][]byte, len(l))
	copy(c, l)
	sort.Slice(c, func(i, j int) bool { return string(c[i]) < string(c[j]) })
	return c
}

func fmtList(l [][]byte) string {
	p := []string{"list"}
	for _, b := range l {
		p = append(p, hx(b))
	}
	return strings.Join(p, " ")
}

func fmtScore(f float64) string {
	if f == math.Trunc(f) && math.Abs(f) < 1e15 && !(f == 0 && math.Signbit(f)) {
		return strconv.FormatInt(int64(f), 10)
	}
	return "f" + strconv.FormatFloat(f, 'g', -1, 64)
}

func fmtNode(n *zset.SortedSetNode) string {
	if n == nil {
		return "-"
	}
	return hx([]byte(n.Key())) + ":" + fmtScore(float64(n.Score())) + ":" + hx(n.Value)
}

func fmtNodes(ns []*zset.SortedSetNode) string {
	p := []string{"nodes"}
	for _, n := range ns {
		p = append(p, fmtNode(n))
	}
	return strings.Join(p, " ")
}

func fmtEntries(es nutsdb.Entries, off int) string {
	if len(es) == 0 {
		// "no live pairs": the RAM index modes answer with an error, the sparse mode with an empty list
		return "err"
	}
	p := []string{"entries", strconv.Itoa(off)}
	for _, e := range es {
		if e == nil {
			return "nil"
		}
		p = append(p, hx(e.Key)+":"+hx(e.Value))
	}
	return strings.Join(p, " ")
}

func errOr(err error, ok string) string {
	if err != nil {
		return "err"
	}
	return ok
}

func atob(s string) bool { return s == "1" }
func btoa(b bool) string {
	if b {
		return "1"
	}
	return "0"
}

func atof(s string) float64 {
	switch s {
	case "nan":
		return math.NaN()
	case "inf":
		return math.Inf(1)
	case "-inf":
		return math.Inf(-1)
	}
	if strings.HasPrefix(s, "f") {
		v, _ := strconv.ParseFloat(s[1:], 64)
		return v
	}
	v, err := strconv.ParseInt(s, 10, 64)
	if err != nil {
		panic(err)
	}
	return float64(v)
}

func (s *St) observer(op, path string, off int64, b []byte) error {
	if op == "close" {
		return nil
	}
	rel := strings.TrimPrefix(strings.TrimPrefix(path, s.dir), "/")
	if s.faultAt > 0 {
		s.evCount++
		if s.evCount == s.faultAt {
			s.faultAt = 0
			s.faultOp = op
			if op == "write" && s.faultPartial >= 0 {
				n := s.faultPartial
				if n >= len(b) {
					n = len(b)
					s.faultOp = "writefull" // the whole record reached the file before the error was reported
				}
				if n > 0 {
					if f, err := os.OpenFile(path, os.O_RDWR, 0644); err == nil {
						f.WriteAt(b[:n], off)
						f.Close()
					}
					if s.record {
						s.events = append(s.events, Event{op, rel, off, append([]byte(nil), b[:n]...)})
					}
				}
			}
			return fmt.Errorf("injected fault at %s %s", op, rel)
		}
	}
	if op == "write" && strings.HasSuffix(path, ".dat") && s.faultAt > 0 {
		s.datWrites++
	}
	if strings.HasSuffix(path, ".dat") {
		switch op {
		case "write":
			s.datEnd = off + int64(len(b))
		case "truncate":
			s.datEnd = 0 // a new segment
		}
	}
	if s.record {
		var d []byte
		if b != nil {
			d = append([]byte(nil), b...)
		}
		s.events = append(s.events, Event{op, rel, off, d})
	}
	return nil
}

// nowLine returns a "now" line when the clock second changed since the last one.
func (s *St) nowLine() string {
	t := time.Now().Unix()
	if t != s.lastNow {
		s.lastNow = t
		return "now " + strconv.FormatInt(t, 10)
	}
	return ""
}

// exec runs one call and returns the canonical call text and the result.
// The call text may be rewritten (oracle inputs chosen by the code are filled in).
func (s *St) exec(call string) (rcall string, res string) {
	t := strings.Split(call, " ")
	rcall = call
	defer func() {
		if r := recover(); r != nil {
			res = "panic"
			s.dead = true
			if os.Getenv("VERIF_DEBUG") != "" {
				fmt.Fprintf(os.Stderr, "panic in %q: %v\n", call, r)
			}
			s.closeQuiet()
		}
	}()
	cmd, a := t[0], t[1:]
	switch cmd {
	case "reset":
		s.reset()
		return call, "-"
	case "now":
		return call, "-"
	case "open":
		s.opt = nutsdb.Options{Dir: s.dir, EntryIdxMode: nutsdb.EntryIdxMode(atoi(a[0])), RWMode: nutsdb.RWMode(atoi(a[1])),
			StartFileLoadingMode: nutsdb.RWMode(atoi(a[2])), SyncEnable: atob(a[3]), SegmentSize: int64(atoi(a[4])), NodeNum: 1}
		db, err := nutsdb.Open(s.opt)
		s.lastOpenErr = ""
		if err != nil {
			s.lastOpenErr = err.Error()
			if os.Getenv("VERIF_DEBUG") != "" {
				fmt.Fprintf(os.Stderr, "open error: %v\n", err)
			}
			return call, "err"
		}
		s.db = db
		s.datEnd = -1
		// end of the data in the active (highest-numbered) segment: after its last non-zero byte
		if fs, _ := globIn(s.dir, "*.dat"); len(fs) > 0 {
			best, bestID := "", -1
			for _, f := range fs {
				if id, err := strconv.Atoi(strings.TrimSuffix(filepath.Base(f), ".dat")); err == nil && id > bestID {
					best, bestID = f, id
				}
			}
			if b, err := ioutil.ReadFile(best); err == nil {
				end := len(b)
				for end > 0 && b[end-1] == 0 {
					end--
				}
				s.datEnd = int64(end)
			}
		}
		return call, "ok"
	case "close":
		if s.db == nil {
			return call, "err"
		}
		return call, errOr(s.db.Close(), "ok")
	case "merge":
		if s.db == nil {
			return call, "err"
		}
		return call, errOr(s.db.Merge(), "ok")
	case "mergeasync": // Merge is CALLED now, from another goroutine; the transaction that holds the lock goes on; "mergewait" collects it
		if s.db == nil || s.mergeCh != nil {
			return "#I mergeasync skipped", "-"
		}
		ch := make(chan error, 1)
		s.mergeCh = ch
		db := s.db
		go func() { ch <- db.Merge() }()
		time.Sleep(25 * time.Millisecond) // Merge is now waiting for the lock (or has not started yet: then nothing special is tested)
		return "#I mergeasync", "-"
	case "mergewait": // the result of the Merge started by mergeasync; in the trace it is a Merge at this point (serial order)
		if s.mergeCh == nil {
			return "#I mergewait without mergeasync", "-"
		}
		err := <-s.mergeCh
		s.mergeCh = nil
		return "merge", errOr(err, "ok")
	case "mergefault": // mergefault <event index> <partial bytes|-1>: Merge with an injected I/O error
		if s.db == nil {
			return "merge", "err"
		}
		s.faultAt, s.faultPartial, s.evCount, s.faultOp, s.datWrites = atoi(a[0]), atoi(a[1]), 0, "", 0
		err := s.db.Merge()
		fired := s.faultOp != ""
		s.faultAt = 0
		if !fired {
			return "merge", errOr(err, "ok")
		}
		return fmt.Sprintf("mergefault %d %s", s.datWrites, s.faultOp), errOr(err, "ok")
	case "backup":
		if s.db == nil {
			return call, "err"
		}
		bd := s.dir + "_bak"
		os.RemoveAll(bd)
		err := s.db.Backup(bd)
		os.RemoveAll(bd)
		return call, errOr(err, "ok")
	case "begin":
		if s.db == nil {
			return call, "err"
		}
		tx, err := s.db.Begin(a[0] == "w")
		if err != nil {
			return "begin " + a[0] + " 0", "err"
		}
		s.tx = tx
		s.txActive = true
		return "begin " + a[0] + " " + strconv.FormatUint(tx.VerifID(), 10), "ok"
	case "commit":
		if s.tx == nil {
			return call, "err"
		}
		err := s.tx.Commit()
		if err == nil {
			s.txActive = false
		}
		return call, errOr(err, "ok")
	case "commitfault": // commitfault <event index> <partial bytes|-1>: Commit with an injected I/O error
		if s.tx == nil {
			return "commit", "err"
		}
		s.faultAt, s.faultPartial, s.evCount, s.faultOp, s.datWrites = atoi(a[0]), atoi(a[1]), 0, "", 0
		err := s.tx.Commit()
		fired := s.faultOp != ""
		s.faultAt = 0
		if err == nil {
			s.txActive = false
		}
		if !fired {
			return "commit", errOr(err, "ok")
		}
		return fmt.Sprintf("commitfault %d %s", s.datWrites, s.faultOp), errOr(err, "ok")
	case "rollback":
		if s.tx == nil {
			return call, "err"
		}
		err := s.tx.Rollback()
		if err == nil {
			s.txActive = false
		}
		return call, errOr(err, "ok")
	}
	tx := s.tx
	if tx == nil {
		return call, "err"
	}
	B := func(i int) []byte { return s.arg(a[i]) }
	S := func(i int) string { return string(unhx(a[i])) }
	I := func(i int) int { return atoi(a[i]) }
	switch cmd {
	case "put":
		s.keys[S(1)] = true
		return call, errOr(tx.PutWithTimestamp(S(0), B(1), B(2), uint32(atou(a[3])), atou(a[4])), "ok")
	case "putfill": // a put whose value makes the record end exactly at the end of the active segment
		s.keys[S(1)] = true
		room := s.opt.SegmentSize - s.datEnd - 42 - int64(len(S(0))) - int64(len(S(1)))
		v := []byte("v")
		if s.datEnd >= 0 && tx.VerifPending() == 0 && room >= 0 && room <= s.opt.SegmentSize {
			v = []byte(strings.Repeat("\x01", int(room)))
		}
		return "put " + a[0] + " " + a[1] + " " + hx(v) + " 0 1700000000", errOr(tx.PutWithTimestamp(S(0), B(1), v, 0, 1700000000), "ok")
	case "putcrc": // putcrc b k vprefix ttl ts target: a put whose value ends in four forged bytes that make the
		// CRC-32 of the record equal to target when it is the last record of its transaction (status Committed)
		s.keys[S(1)] = true
		v := forgeCRC(tx.VerifID(), S(0), B(1), B(2), uint32(atou(a[3])), atou(a[4]), uint32(atou(a[5])))
		return "put " + a[0] + " " + a[1] + " " + hx(v) + " " + a[3] + " " + a[4], errOr(tx.PutWithTimestamp(S(0), B(1), v, uint32(atou(a[3])), atou(a[4])), "ok")
	case "putnow": // Put with the library's own clock; ts is an oracle input read from the clock
		s.keys[S(1)] = true
		before := time.Now().Unix()
		s.mtUnknown = true
		err := tx.Put(S(0), B(1), B(2), uint32(atou(a[3])))
		after := time.Now().Unix()
		_ = after
		return "put " + a[0] + " " + a[1] + " " + a[2] + " " + a[3] + " " + strconv.FormatInt(before, 10), errOr(err, "ok")
	case "del":
		return call, errOr(tx.Delete(S(0), B(1)), "ok")
	case "get":
		e, err := tx.Get(S(0), B(1))
		if err != nil {
			return call, "err"
		}
		if e == nil {
			return call, "nil"
		}
		if want, ok := s.mt[S(0)+"\x00"+S(1)]; ok && !s.quiet {
			f := nutsdb.VerifEntryFields(e)
			if got := [2]string{strconv.FormatUint(uint64(f.TTL), 10), strconv.FormatUint(f.Timestamp, 10)}; got != want {
				emit("#SPEC Get(%s, %s) returns an entry with TTL %s and timestamp %s; the committed put had TTL %s and timestamp %s", a[0], a[1], got[0], got[1], want[0], want[1])
			}
		}
		return call, "entry " + hx(e.Key) + " " + hx(e.Value)
	case "getall":
		es, err := tx.GetAll(S(0))
		if err != nil {
			return call, "err"
		}
		return call, fmtEntries(es, 0)
	case "range":
		es, err := tx.RangeScan(S(0), B(1), B(2))
		if err != nil {
			return call, "err"
		}
		return call, fmtEntries(es, 0)
	case "pscan":
		es, off, err := tx.PrefixScan(S(0), B(1), I(2), I(3))
		if err != nil {
			return call, "err"
		}
		return call, fmtEntries(es, off)
	case "psscan":
		re := S(2)
		bad := false
		var ms [][]byte
		rgx, cerr := regexp.Compile(re)
		if cerr != nil {
			bad = true
		} else {
			p := B(1)
			seen := map[string]bool{}
			for k := range s.keys {
				if strings.HasPrefix(k, string(p)) {
					rem := k[len(p):]
					if !seen[rem] && rgx.Match([]byte(rem)) {
						seen[rem] = true
						ms = append(ms, []byte(rem))
					}
				}
			}
			ms = sortedCopy(ms)
		}
		rcall = strings.Join([]string{"psscan", a[0], a[1], a[2], a[3], a[4], btoa(bad), hxl(ms)}, " ")
		es, off, err := tx.PrefixSearchScan(S(0), B(1), re, I(3), I(4))
		if err != nil {
			return rcall, "err"
		}
		return rcall, fmtEntries(es, off)
	// ---- lists
	case "rpush":
		return call, errOr(tx.RPush(S(0), B(1), unhxl(a[2])...), "ok")
	case "lpush":
		return call, errOr(tx.LPush(S(0), B(1), unhxl(a[2])...), "ok")
	case "rpop", "lpop", "rpeek", "lpeek":
		var v []byte
		var err error
		switch cmd {
		case "rpop":
			v, err = tx.RPop(S(0), B(1))
		case "lpop":
			v, err = tx.LPop(S(0), B(1))
		case "rpeek":
			v, err = tx.RPeek(S(0), B(1))
		case "lpeek":
			v, err = tx.LPeek(S(0), B(1))
		}
		if err != nil {
			return call, "err"
		}
		return call, "val " + hx(v)
	case "lsize":
		n, err := tx.LSize(S(0), B(1))
		if err != nil {
			return call, "err"
		}
		return call, "int " + strconv.Itoa(n)
	case "lrange":
		l, err := tx.LRange(S(0), B(1), I(2), I(3))
		if err != nil {
			return call, "err"
		}
		return call, fmtList(l)
	case "lrem":
		n, err := tx.LRem(S(0), B(1), I(2), B(3))
		if err != nil {
			return call, "err"
		}
		return call, "int " + strconv.Itoa(n)
	case "lset":
		return call, errOr(tx.LSet(S(0), B(1), I(2), B(3)), "ok")
	case "ltrim":
		return call, errOr(tx.LTrim(S(0), B(1), I(2), I(3)), "ok")
	// ---- sets
	case "sadd":
		return call, errOr(tx.SAdd(S(0), B(1), unhxl(a[2])...), "ok")
	case "srem":
		return call, errOr(tx.SRem(S(0), B(1), unhxl(a[2])...), "ok")
	case "saremembers":
		ok, err := tx.SAreMembers(S(0), B(1), unhxl(a[2])...)
		if err != nil {
			return call, "err"
		}
		return call, "bool " + btoa(ok)
	case "sismember":
		ok, err := tx.SIsMember(S(0), B(1), B(2))
		if err != nil {
			return call, "err"
		}
		return call, "bool " + btoa(ok)
	case "smembers":
		l, err := tx.SMembers(S(0), B(1))
		if err != nil {
			return call, "err"
		}
		return call, fmtList(sortedCopy(l))
	case "shaskey":
		ok, err := tx.SHasKey(S(0), B(1))
		if err != nil {
			return call, "err"
		}
		return call, "bool " + btoa(ok)
	case "spop":
		v, err := tx.SPop(S(0), B(1))
		if err != nil {
			return "spop " + a[0] + " " + a[1] + " !", "err"
		}
		return "spop " + a[0] + " " + a[1] + " " + hx(v), "val " + hx(v)
	case "scard":
		n, err := tx.SCard(S(0), B(1))
		if err != nil {
			return call, "err"
		}
		return call, "int " + strconv.Itoa(n)
	case "sdiff1":
		l, err := tx.SDiffByOneBucket(S(0), B(1), B(2))
		if err != nil {
			return call, "err"
		}
		return call, fmtList(sortedCopy(l))
	case "sdiff2":
		l, err := tx.SDiffByTwoBuckets(S(0), B(1), S(2), B(3))
		if err != nil {
			return call, "err"
		}
		return call, fmtList(sortedCopy(l))
	case "smove1":
		ok, err := tx.SMoveByOneBucket(S(0), B(1), B(2), B(3))
		if err != nil {
			return call, "err"
		}
		return call, "bool " + btoa(ok)
	case "smove2":
		ok, err := tx.SMoveByTwoBuckets(S(0), B(1), S(2), B(3), B(4))
		if err != nil {
			return call, "err"
		}
		return call, "bool " + btoa(ok)
	case "sunion1":
		l, err := tx.SUnionByOneBucket(S(0), B(1), B(2))
		if err != nil {
			return call, "err"
		}
		return call, fmtList(sortedCopy(l))
	case "sunion2":
		l, err := tx.SUnionByTwoBuckets(S(0), B(1), S(2), B(3))
		if err != nil {
			return call, "err"
		}
		return call, fmtList(sortedCopy(l))
	// ---- sorted sets
	case "zadd":
		return call, errOr(tx.ZAdd(S(0), B(1), atof(a[2]), B(3)), "ok")
	case "zmembers":
		m, err := tx.ZMembers(S(0))
		if err != nil {
			return call, "err"
		}
		var ns []*zset.SortedSetNode
		for _, n := range m {
			ns = append(ns, n)
		}
		sort.Slice(ns, func(i, j int) bool {
			if ns[i].Score() != ns[j].Score() {
				return ns[i].Score() < ns[j].Score()
			}
			return ns[i].Key() < ns[j].Key()
		})
		return call, fmtNodes(ns)
	case "zcard":
		n, err := tx.ZCard(S(0))
		if err != nil {
			return call, "err"
		}
		return call, "int " + strconv.Itoa(n)
	case "zcount", "zrangebyscore":
		var opts *zset.GetByScoreRangeOptions
		if a[3] != "nil" {
			opts = &zset.GetByScoreRangeOptions{Limit: I(3), ExcludeStart: atob(a[4]), ExcludeEnd: atob(a[5])}
		}
		if cmd == "zcount" {
			n, err := tx.ZCount(S(0), atof(a[1]), atof(a[2]), opts)
			if err != nil {
				return call, "err"
			}
			return call, "int " + strconv.Itoa(n)
		}
		ns, err := tx.ZRangeByScore(S(0), atof(a[1]), atof(a[2]), opts)
		if err != nil {
			return call, "err"
		}
		return call, fmtNodes(ns)
	case "zpopmax", "zpopmin", "zpeekmax", "zpeekmin":
		var n *zset.SortedSetNode
		var err error
		switch cmd {
		case "zpopmax":
			n, err = tx.ZPopMax(S(0))
		case "zpopmin":
			n, err = tx.ZPopMin(S(0))
		case "zpeekmax":
			n, err = tx.ZPeekMax(S(0))
		case "zpeekmin":
			n, err = tx.ZPeekMin(S(0))
		}
		if err != nil {
			return call, "err"
		}
		return call, "node " + fmtNode(n)
	case "zrangebyrank":
		ns, err := tx.ZRangeByRank(S(0), I(1), I(2))
		if err != nil {
			return call, "err"
		}
		return call, fmtNodes(ns)
	case "zrem":
		return call, errOr(tx.ZRem(S(0), S(1)), "ok")
	case "zremrangebyrank":
		return call, errOr(tx.ZRemRangeByRank(S(0), I(1), I(2)), "ok")
	case "zrank", "zrevrank":
		var n int
		var err error
		if cmd == "zrank" {
			n, err = tx.ZRank(S(0), B(1))
		} else {
			n, err = tx.ZRevRank(S(0), B(1))
		}
		if err != nil {
			return call, "err"
		}
		return call, "int " + strconv.Itoa(n)
	case "zscore":
		f, err := tx.ZScore(S(0), B(1))
		if err != nil {
			return call, "err"
		}
		return call, "int " + fmtScore(f)
	case "zgetbykey":
		n, err := tx.ZGetByKey(S(0), B(1))
		if err != nil {
			return call, "err"
		}
		return call, "node " + fmtNode(n)
	}
	return call, "UNSUPPORTED"
}

// run executes a call and emits its trace line (preceded by a clock line when needed).
func (s *St) run(call string) string {
	if s.dead && !strings.HasPrefix(call, "reset") {
		return ""
	}
	if nl := s.nowLine(); nl != "" && !s.quiet && !s.comment {
		emit("%s = -", nl)
	}
	watchDir = s.dir
	watchStart(call)
	rc, res := s.exec(call)
	watchStop()
	s.lastRC = rc
	if s.bmCheck {
		s.bucketMetaOracle(rc, res)
	}
	s.entryMetaTrack(rc, res)
	if s.quiet {
		return res
	}
	if strings.HasPrefix(rc, "#") {
		emit("%s", rc)
		return res
	}
	if s.comment {
		emit("#F %s = %s", rc, res)
		return res
	}
	emit("%s = %s", rc, res)
	return res
}


// ---- watchdog: an API call that does not return (endless loop, self-deadlock) ends the run with a
// failing-input line instead of hanging the check.  The limit is generous: Open on a segment whose
// torn tail left garbage in a size field allocates a buffer of that size (up to 4 GiB, zeroed) before
// the read fails, which takes tens of seconds on a loaded machine and is slow, not wrong. ----
var (
	watchDir   string // directory of the database the current call works on
	watchKnown string // when set, a call that does not return is an instance of this known finding
	watchMu    sync.Mutex
	watchCall  string
	watchAt   time.Time
	watchOn   bool
)

func watchStart(call string) {
	watchMu.Lock()
	watchCall, watchAt = call, time.Now()
	if !watchOn {
		watchOn = true
		go func() {
			for {
				time.Sleep(time.Second)
				watchMu.Lock()
				c, at := watchCall, watchAt
				watchMu.Unlock()
				if c != "" && time.Since(at) > 240*time.Second {
					if keep := os.Getenv("VERIF_KEEP_HANG"); keep != "" && watchDir != "" {
						exec.Command("cp", "-r", watchDir, keep).Run()
					}
					if watchKnown != "" {
						emit("#KNOWN %s the call %q did not return within 240 s", watchKnown, c)
					} else {
						emit("#SPEC the call %q did not return within 240 s (endless loop or deadlock inside the library)", c)
					}
					out.Flush()
					os.Exit(0)
				}
			}
		}()
	}
	watchMu.Unlock()
}

func watchStop() {
	watchMu.Lock()
	watchCall = ""
	watchMu.Unlock()
}

// forgeCRC returns prefix plus four bytes chosen so that the record (header without the checksum, bucket, key, value)
// of a committed key/value put has the CRC-32 target.
func forgeCRC(txid uint64, bucket string, key, prefix []byte, ttl uint32, ts uint64, target uint32) []byte {
	h := make([]byte, 42)
	binary.LittleEndian.PutUint64(h[4:12], ts)
	binary.LittleEndian.PutUint32(h[12:16], uint32(len(key)))
	binary.LittleEndian.PutUint32(h[16:20], uint32(len(prefix)+4))
	binary.LittleEndian.PutUint16(h[20:22], nutsdb.DataSetFlag)
	binary.LittleEndian.PutUint32(h[22:26], ttl)
	binary.LittleEndian.PutUint32(h[26:30], uint32(len(bucket)))
	binary.LittleEndian.PutUint16(h[30:32], nutsdb.Committed)
	binary.LittleEndian.PutUint16(h[32:34], nutsdb.DataStructureBPTree)
	binary.LittleEndian.PutUint64(h[34:42], txid)
	c := crc32.ChecksumIEEE(h[4:])
	c = crc32.Update(c, crc32.IEEETable, []byte(bucket))
	c = crc32.Update(c, crc32.IEEETable, key)
	c = crc32.Update(c, crc32.IEEETable, prefix)
	tab := crc32.IEEETable
	var rev [256]byte
	for i := 0; i < 256; i++ {
		rev[tab[i]>>24] = byte(i)
	}
	var idx [4]byte
	r := target ^ 0xFFFFFFFF
	for k := 3; k >= 0; k-- {
		idx[k] = rev[r>>24]
		r = (r ^ tab[idx[k]]) << 8
	}
	reg := c ^ 0xFFFFFFFF
	out := append([]byte{}, prefix...)
	for k := 0; k < 4; k++ {
		out = append(out, byte(reg)^idx[k])
		reg = tab[idx[k]] ^ (reg >> 8)
	}
	return out
}

// bucketMetaOracle: see St.bmCheck.  Every record of a committed transaction widens the key range of its bucket;
// after the Commit the bucket meta file must decode (checksum included) to exactly that range.
func (s *St) bucketMetaOracle(rc, res string) {
	f := strings.Fields(rc)
	if len(f) == 0 {
		return
	}
	switch {
	case f[0] == "begin":
		s.bmTx = nil
	case (f[0] == "put" || f[0] == "del") && res == "ok" && len(f) >= 3:
		s.bmTx = append(s.bmTx, [2]string{string(unhx(f[1])), string(unhx(f[2]))})
	case f[0] == "commit" && res == "ok" && s.opt.EntryIdxMode == nutsdb.HintBPTSparseIdxMode:
		for _, bk := range s.bmTx {
			r, ok := s.bm[bk[0]]
			if !ok {
				r = [2]string{bk[1], bk[1]}
			}
			if bk[1] < r[0] {
				r[0] = bk[1]
			}
			if bk[1] > r[1] {
				r[1] = bk[1]
			}
			s.bm[bk[0]] = r
		}
		s.bmTx = nil
		for b, r := range s.bm {
			m, err := nutsdb.ReadBucketMeta(filepath.Join(s.dir, "meta", "bucket", b+".meta"))
			if err != nil || m == nil {
				emit("#SPEC bucket-meta record of bucket %s does not decode after a successful Commit: %v", hx([]byte(b)), err)
				continue
			}
			st, en := nutsdb.VerifBucketMetaFields(m)
			if string(st) != r[0] || string(en) != r[1] {
				emit("#SPEC bucket-meta record of bucket %s decodes to the key range [%s, %s], written keys span [%s, %s]",
					hx([]byte(b)), hx(st), hx(en), hx([]byte(r[0])), hx([]byte(r[1])))
			}
		}
	}
}

// entryMetaTrack: see St.mt.
func (s *St) entryMetaTrack(rc, res string) {
	defer func() { s.mtUnknown = false }()
	f := strings.Fields(rc)
	if len(f) == 0 {
		return
	}
	switch {
	case f[0] == "begin":
		s.mtTx = nil
	case f[0] == "put" && res == "ok" && len(f) >= 6:
		op := "put"
		if s.mtUnknown {
			op = "del" // timestamp not known exactly: the key is not checked
		}
		s.mtTx = append(s.mtTx, [5]string{op, string(unhx(f[1])), string(unhx(f[2])), f[4], f[5]})
	case f[0] == "del" && res == "ok" && len(f) >= 3:
		s.mtTx = append(s.mtTx, [5]string{"del", string(unhx(f[1])), string(unhx(f[2])), "", ""})
	case f[0] == "commit" && res == "ok":
		for _, w := range s.mtTx {
			if w[0] == "put" {
				s.mt[w[1]+"\x00"+w[2]] = [2]string{w[3], w[4]}
			} else {
				delete(s.mt, w[1]+"\x00"+w[2])
			}
		}
		s.mtTx = nil
	case f[0] == "commit" || f[0] == "commitfault":
		// a Commit that failed or whose outcome is in doubt: stop checking the keys it touched
		for _, w := range s.mtTx {
			delete(s.mt, w[1]+"\x00"+w[2])
		}
		s.mtTx = nil
	}
}

// globIn: filepath.Glob for pat inside dir, the directory name taken literally.
func globIn(dir, pat string) ([]string, error) {
	return filepath.Glob(strings.NewReplacer("\\", "\\\\", "[", "\\[", "*", "\\*", "?", "\\?").Replace(dir) + "/" + pat)
}
