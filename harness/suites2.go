package main

import (
	"encoding/binary"
	"crypto/sha1"
	"fmt"
	"io/ioutil"
	"os"
	"path/filepath"
	"sort"
	"strings"

	"github.com/xujiajun/nutsdb"
)

// suiteOpts (C19): every history is executed under every combination of
// RAM index mode x RWMode x StartFileLoadingMode x SyncEnable; the result
// sequences must be identical.
func suiteOpts(seed uint64, n int, work string) {
	st := NewSt(work)
	nutsdb.VerifObserver = st.observer
	root := NewPRNG(seed)
	p := profileByName("mixed")
	p.NoSPop = true
	p.Reopen = 25
	p.Txs = 10
	for i := 0; i < n; i++ {
		r := root.Fork()
		seg := p.Segs[r.Intn(len(p.Segs))]
		body := genHistory(r, p, seg)
		var ref []string
		var refOpen string
		for c := 0; c < 16; c++ {
			open := optLine(c&1, (c>>1)&1, (c>>2)&1, (c>>3)&1, seg)
			emit("#H %d.%d %s", i, c, open)
			res := runHistory(st, p, open, body)
			if c == 0 {
				ref, refOpen = res, open
				continue
			}
			if len(res) != len(ref) {
				emit("#SPEC options-differ: %d results under (%s) but %d under (%s)", len(ref), refOpen, len(res), open)
				continue
			}
			for k := range res {
				if res[k] != ref[k] {
					emit("#SPEC options-differ at result %d: (%s) gives %q, (%s) gives %q", k, refOpen, ref[k], open, res[k])
					break
				}
			}
		}
	}
	st.reset()
	os.RemoveAll(st.dir)
}

func dirDigest(dir string) string {
	var lines []string
	filepath.Walk(dir, func(path string, info os.FileInfo, err error) error {
		if err != nil {
			return nil
		}
		rel := strings.TrimPrefix(path, dir)
		if info.IsDir() {
			lines = append(lines, "d "+rel)
			return nil
		}
		b, _ := ioutil.ReadFile(path)
		lines = append(lines, fmt.Sprintf("f %s %d %x", rel, len(b), sha1.Sum(b)))
		return nil
	})
	sort.Strings(lines)
	return strings.Join(lines, "\n")
}

// suiteModes (C22): every pair (mode that created the directory, mode used to reopen it)
// over several directory states.
func suiteModes(seed uint64, n int, work string) {
	// the directory name contains glob metacharacters: a path is a path, not a pattern
	work = filepath.Join(work, "shard[0-9]{a,b}*")
	os.MkdirAll(work, 0755)
	st := NewSt(work)
	nutsdb.VerifObserver = st.observer
	root := NewPRNG(seed)
	p := profileByName("kv")
	p.Oversize, p.Abort, p.ReadOnly, p.DoneCalls, p.Reopen = 0, 0, 0, 0, 0
	states := []string{"empty", "opened", "written", "rotated", "merged", "torn"}
	for i := 0; i < n; i++ {
		r := root.Fork()
		for m1 := 0; m1 < 3; m1++ {
			for m2 := 0; m2 < 3; m2++ {
				state := states[r.Intn(len(states))]
				if state == "merged" && m1 == 2 {
					state = "rotated"
				}
				seg := []int{200, 300}[r.Intn(2)]
				rw, load, sync := r.Intn(2), r.Intn(2), r.Intn(2)
				open1 := optLine(m1, rw, load, sync, seg)
				open2 := optLine(m2, r.Intn(2), r.Intn(2), sync, seg)
				sparse := m1 == 2 || m2 == 2
				st.comment = sparse
				emit("#H %d.%d%d %s -> %s state=%s", i, m1, m2, open1, open2, state)
				st.run("reset")
				var before []string
				obs := obsCalls(p)
				if state == "empty" {
					os.MkdirAll(st.dir, 0755)
				} else {
					if st.run(open1) != "ok" {
						emit("#SPEC open-failed on a new directory (%s)", open1)
						continue
					}
					if state != "opened" {
						p.Txs = map[string]int{"written": 1, "rotated": 8, "merged": 8, "torn": 3}[state]
						for _, c := range genHistory(r, p, seg) {
							if c != "reopen" && !strings.HasPrefix(c, "psscan") {
								st.run(c)
							}
						}
						if state == "merged" {
							st.comment = true // Merge is not in the engine model yet
							st.run("merge")
						}
					}
					if !sparse {
						for _, c := range obs {
							before = append(before, st.run(c))
						}
					}
					st.run("close")
					st.db = nil
					if state == "torn" {
						// a crash in the middle of an append: garbage after the last record of the newest segment
						fs, _ := globIn(st.dir, "*.dat")
						if len(fs) > 0 {
							sort.Strings(fs)
							f := fs[len(fs)-1]
							b, _ := ioutil.ReadFile(f)
							end := len(b)
							for end > 0 && b[end-1] == 0 {
								end--
							}
							if end+30 < len(b) {
								copy(b[end+1:], []byte{0x12, 0x34, 0x56, 0x78, 1, 0, 0, 0, 0, 0, 0, 0, 3, 0, 0, 0, 2})
								ioutil.WriteFile(f, b, 0644)
							}
						}
					}
				}
				d0 := dirDigest(st.dir)
				res := st.run(open2)
				refuse := (m1 == 2) != (m2 == 2) && state != "empty"
				if refuse {
					if res == "ok" {
						emit("#SPEC mode-switch accepted: directory created with mode %d (state %s) opened with mode %d", m1, state, m2)
					} else if d1 := dirDigest(st.dir); d1 != d0 {
						emit("#SPEC refused Open changed the directory (mode %d -> %d, state %s)", m1, m2, state)
					}
				} else {
					if res != "ok" {
						emit("#SPEC open-failed: mode %d -> %d on state %s must succeed", m1, m2, state)
					} else if !sparse && state != "empty" && state != "torn" {
						for k, c := range obs {
							if a := st.run(c); a != before[k] {
								emit("#SPEC mode switch %d -> %d changed %q: %q -> %q", m1, m2, c, before[k], a)
							}
						}
					}
				}
				st.closeQuiet()
			}
		}
	}
	// the two RAM index modes on a crashed directory: the value of the last record (the one that carries the commit
	// mark) is torn; both modes must show the same contents
	st.comment = true
	for i := 0; i < n; i++ {
		r := root.Fork()
		seg := []int{300, 1000}[r.Intn(2)]
		m1 := r.Intn(2)
		emit("#H %d.tornvalue created with mode %d", i, m1)
		st.run("reset")
		if st.run(optLine(m1, r.Intn(2), r.Intn(2), 1, seg)) != "ok" {
			continue
		}
		p.Txs = 2
		for _, c := range genHistory(r, p, seg) {
			if c != "reopen" && !strings.HasPrefix(c, "psscan") {
				st.run(c)
			}
		}
		hb := hx([]byte(p.Buckets[0]))
		st.run("begin w ?")
		st.run(fmt.Sprintf("put %s %s %s 0 1700000000", hb, hx([]byte(p.Keys[0])), hx([]byte("first-record-of-the-torn-transaction"))))
		st.run(fmt.Sprintf("put %s %s %s 0 1700000000", hb, hx([]byte(p.Keys[1])), hx([]byte(strings.Repeat("\x03", 60)))))
		st.run("commit")
		st.run("close")
		st.db = nil
		fs, _ := globIn(st.dir, "*.dat")
		if len(fs) == 0 {
			emit("#SPEC no data file after a committed transaction")
			continue
		}
		sort.Slice(fs, func(a, b int) bool { return len(fs[a]) < len(fs[b]) || len(fs[a]) == len(fs[b]) && fs[a] < fs[b] })
		f := fs[len(fs)-1]
		b, _ := ioutil.ReadFile(f)
		end := len(b)
		for end > 0 && b[end-1] == 0 {
			end--
		}
		cut := 1 + r.Intn(55)
		for k := end - cut; k < end && k >= 0; k++ {
			b[k] = 0
		}
		ioutil.WriteFile(f, b, 0644)
		st.mt = map[string][2]string{} // the last transaction is gone: what Get must hand back is no longer known
		var obsM [2][]string
		obs := obsCalls(p)
		for m := 0; m < 2; m++ {
			if st.run(optLine(m, r.Intn(2), r.Intn(2), 1, seg)) != "ok" {
				emit("#SPEC open-failed in mode %d on a directory whose last record is torn inside its value (cut %d)", m, cut)
				break
			}
			for _, c := range obs {
				obsM[m] = append(obsM[m], st.run(c))
			}
			st.run("close")
			st.db = nil
		}
		for k := range obs {
			if len(obsM[0]) == len(obs) && len(obsM[1]) == len(obs) && obsM[0][k] != obsM[1][k] {
				emit("#SPEC the two RAM index modes show different contents on a crashed directory (last record torn %d bytes before its end): %q mode0=%q mode1=%q", cut, obs[k], obsM[0][k], obsM[1][k])
				break
			}
		}
	}
	st.comment = false
	st.reset()
	os.RemoveAll(st.dir)
}

// suiteFuzz (C20): boundary-heavy arguments on every exported method, before and
// after Close, on finished transactions.  Nothing is compared with the model
// (lines are comments); a panic is reported as #SPEC.
func suiteFuzz(seed uint64, n int, work string) { suiteFuzzMode(seed, n, work, false) }

// suiteFuzzMode: sparse = HintBPTSparseIdxMode with key/value calls only (the structures the sparse mode supports).
func suiteFuzzMode(seed uint64, n int, work string, sparse bool) {
	st := NewSt(work)
	st.comment = true
	nutsdb.VerifObserver = st.observer
	root := NewPRNG(seed)
	bs := []string{"x", "x62", "x6231", "x7c", "x627c"}
	ks := []string{"x", "x6b", "x7c", "x6b7c31", "x20", "x00", "xff"}
	ints := []string{"0", "1", "-1", "2", "-2", "7", "-7", "9223372036854775807", "-9223372036854775808", "-9223372036854775807", "4294967296", "2147483648"}
	fl := []string{"0", "1", "-1", "nan", "inf", "-inf", "f1e308", "f-1e308", "f5e-324", "f0.5", "f-0", "9007199254740993"}
	res := []string{"x", "x5b", "x2a", "x285b", "x2e2a", "x5c", "x283f50", "x612b2b"}
	npanic := 0
	for i := 0; i < n; i++ {
		r := root.Fork()
		pick := func(l []string) string { return l[r.Intn(len(l))] }
		vl := func() string {
			k := r.Intn(3)
			if k == 0 {
				return "-"
			}
			var l []string
			for j := 0; j < k; j++ {
				l = append(l, pick(ks))
			}
			return strings.Join(l, ",")
		}
		emit("#H %d fuzz", i)
		out.Flush()
		st.run("reset")
		fmode := r.Intn(2)
		cprof := "mixed"
		if sparse {
			fmode = 2
			if r.Bool() {
				cprof = "kv"
			}
		}
		fseg := []int{100, 200, 1000}[r.Intn(3)]
		st.run(optLine(fmode, r.Intn(2), r.Intn(2), r.Intn(2), fseg))
		// some content first, so that calls reach the interesting code
		st.run("begin w ?")
		{
			g := &Gen{r: r, p: profileByName(cprof), seg: 200, wrote: map[string]bool{}}
			nseed := 8
			if sparse {
				nseed = 30
			}
			for len(g.calls) < nseed {
				g.anyOp(true)
			}
			for _, c := range g.calls {
				if !strings.HasPrefix(c, "put ") || !strings.Contains(c, "x4f4f4f4f") {
					st.run(c)
				}
			}
		}
		st.run("commit")
		st.run("rollback")
		if sparse && i%4 == 0 {
			// segments filled by one structure only (their key index stays empty), rotated several times
			op := []string{"rpush x6c x6b x76616c75652d76616c75652d76616c7565", "sadd x73 x6b x6d656d6265722d6d656d6265722d31,x6d656d6265722d6d656d6265722d32", "zadd x7a x6b 1 x76616c75652d76616c75652d76616c7565"}[r.Intn(3)]
			for t := 0; t < 8 && !st.dead; t++ {
				st.run("begin w ?")
				st.run(op)
				if st.run("commit") == "panic" {
					npanic++
					emit("#SPEC panic in \"commit\" after %q in HintBPTSparseIdxMode", op)
				}
				st.run("rollback")
			}
			// the directory with such segments must open again
			if !st.dead && st.db != nil {
				st.run("close")
				st.db, st.tx = nil, nil
				ol := optLine(fmode, r.Intn(2), r.Intn(2), r.Intn(2), fseg)
				if st.run(ol) != "ok" {
					emit("#SPEC open-failed after segments filled by %q only (HintBPTSparseIdxMode): %s", op, st.lastOpenErr)
					continue
				}
			}
		}
		for j := 0; j < 60 && !st.dead; j++ {
			var c string
			sel := r.Intn(60)
			if sparse && r.Chance(2, 3) {
				// mostly key/value calls, scans more often (the other structures keep their share: a call that succeeds
				// must not make a later Commit panic, whatever the index mode)
				sel = []int{0, 1, 2, 3, 4, 5, 6, 7, 7, 8, 9, 10, 11, 12, 12, 46, 46, 46, 13, 44, 42, 43, 59, 59}[r.Intn(24)]
			}
			switch sel {
			case 0:
				c = "close"
			case 1:
				c = "begin w ?"
			case 2:
				c = "begin r ?"
			case 3, 4:
				c = "commit"
			case 5:
				c = "rollback"
			case 6:
				c = "merge"
			case 7:
				c = "put " + pick(bs) + " " + pick(ks) + " " + pick(ks) + " " + []string{"0", "1", "4294967295"}[r.Intn(3)] + " " + []string{"0", "1", "18446744073709551615", "1700000000"}[r.Intn(4)]
			case 8:
				c = "del " + pick(bs) + " " + pick(ks)
			case 9:
				c = "get " + pick(bs) + " " + pick(ks)
			case 10:
				c = "getall " + pick(bs)
			case 11:
				c = "range " + pick(bs) + " " + pick(ks) + " " + pick(ks)
			case 12:
				c = "pscan " + pick(bs) + " " + pick(ks) + " " + pick(ints) + " " + pick(ints)
			case 13, 44, 45:
				if r.Bool() {
					// the same few (invalid) patterns again and again, on buckets that hold keys
					c = "psscan " + hx([]byte(defBuckets[r.Intn(len(defBuckets))])) + " x " + pick(res[:4]) + " 0 " + []string{"-1", "1", "5"}[r.Intn(3)]
				} else {
					c = "psscan " + pick(bs) + " " + pick(ks) + " " + pick(res) + " " + pick(ints) + " " + pick(ints)
				}
			case 46:
				// paging over a bucket that holds keys, small offsets, every kind of limit
				c = "pscan " + hx([]byte(defBuckets[r.Intn(len(defBuckets))])) + " " + []string{"x", "x61", "x6b"}[r.Intn(3)] + " " + []string{"0", "1", "2", "3", "-1"}[r.Intn(5)] + " " + pick(ints)
			case 14, 15:
				c = []string{"rpush ", "lpush "}[r.Intn(2)] + pick(bs) + " " + pick(ks) + " " + vl()
			case 16:
				c = []string{"rpop ", "lpop ", "rpeek ", "lpeek ", "lsize "}[r.Intn(5)] + pick(bs) + " " + pick(ks)
			case 17, 18:
				c = "lrange " + pick(bs) + " " + pick(ks) + " " + pick(ints) + " " + pick(ints)
			case 19, 20:
				c = "lrem " + pick(bs) + " " + pick(ks) + " " + pick(ints) + " " + pick(ks)
			case 21:
				c = "lset " + pick(bs) + " " + pick(ks) + " " + pick(ints) + " " + pick(ks)
			case 22, 23:
				c = "ltrim " + pick(bs) + " " + pick(ks) + " " + pick(ints) + " " + pick(ints)
			case 24, 25:
				c = []string{"sadd ", "srem ", "saremembers "}[r.Intn(3)] + pick(bs) + " " + pick(ks) + " " + vl()
			case 26:
				c = []string{"sismember "}[0] + pick(bs) + " " + pick(ks) + " " + pick(ks)
			case 27:
				c = []string{"smembers ", "shaskey ", "scard "}[r.Intn(3)] + pick(bs) + " " + pick(ks)
			case 28:
				c = "spop " + pick(bs) + " " + pick(ks) + " ?"
			case 29:
				c = []string{"sdiff1 ", "sunion1 "}[r.Intn(2)] + pick(bs) + " " + pick(ks) + " " + pick(ks)
			case 30:
				c = []string{"sdiff2 ", "sunion2 "}[r.Intn(2)] + pick(bs) + " " + pick(ks) + " " + pick(bs) + " " + pick(ks)
			case 31:
				c = "smove1 " + pick(bs) + " " + pick(ks) + " " + pick(ks) + " " + pick(ks)
			case 32:
				c = "smove2 " + pick(bs) + " " + pick(ks) + " " + pick(bs) + " " + pick(ks) + " " + pick(ks)
			case 33, 34, 35:
				c = "zadd " + pick(bs) + " " + pick(ks) + " " + pick(fl) + " " + pick(ks)
			case 36:
				c = []string{"zmembers ", "zcard ", "zpopmax ", "zpopmin ", "zpeekmax ", "zpeekmin "}[r.Intn(6)] + pick(bs)
			case 37, 38:
				o := "nil 0 0"
				if r.Bool() {
					o = pick(ints) + " " + fmt.Sprint(r.Intn(2)) + " " + fmt.Sprint(r.Intn(2))
				}
				c = []string{"zcount ", "zrangebyscore "}[r.Intn(2)] + pick(bs) + " " + pick(fl) + " " + pick(fl) + " " + o
			case 39, 40:
				c = []string{"zrangebyrank ", "zremrangebyrank "}[r.Intn(2)] + pick(bs) + " " + pick(ints) + " " + pick(ints)
			case 41:
				c = []string{"zrem ", "zrank ", "zrevrank ", "zscore ", "zgetbykey "}[r.Intn(5)] + pick(bs) + " " + pick(ks)
			case 42:
				c = "backup"
			case 43:
				c = "reopen-any"
			default:
				// a plausible call, so that states with content are reached
				g := &Gen{r: r, p: profileByName(cprof), seg: 200, wrote: map[string]bool{}}
				g.p.WideInts = true
				g.p.ReadAfterWrite = true
				g.anyOp(r.Chance(2, 3))
				if len(g.calls) == 0 {
					continue
				}
				c = g.calls[0]
			}
			if !st.txActive && st.db != nil && r.Chance(3, 5) && c != "close" && c != "merge" && c != "backup" && c != "reopen-any" && !strings.HasPrefix(c, "begin") && c != "commit" && c != "rollback" {
				st.run([]string{"begin w ?", "begin w ?", "begin r ?"}[r.Intn(3)])
			}
			// calls that take the database lock would block forever behind the harness's own open transaction
			if st.txActive && (c == "close" || c == "merge" || c == "backup" || c == "reopen-any" || strings.HasPrefix(c, "begin")) {
				st.run("rollback")
			}
			if c == "reopen-any" {
				st.run("close")
				st.db, st.tx = nil, nil
				c = optLine(fmode, r.Intn(2), r.Intn(2), r.Intn(2), 200)
				if !sparse {
					c = optLine(r.Intn(2), r.Intn(2), r.Intn(2), r.Intn(2), 200)
				}
			}
			if st.run(c) == "panic" {
				npanic++
				emit("#SPEC panic in %q", c)
			}
		}
		st.closeQuiet()
	}
	emit("#STAT fuzz histories=%d panics=%d", n, npanic)
	st.comment = false
	st.reset()
	os.RemoveAll(st.dir)
}

// suiteMergeCorrupt (C21: corruption is never served as data, also not through Merge): a key/value history over
// several segments; then ONE bit of a sealed segment is flipped on disk while the database is open; Merge; every
// Get must return an error or a value that was written for that key at some time — in the running process, and
// after a reopen.
func suiteMergeCorrupt(seed uint64, n int, work string) {
	st := NewSt(work)
	st.comment = true
	nutsdb.VerifObserver = st.observer
	root := NewPRNG(seed)
	p := profileByName("kv")
	p.Oversize, p.Abort, p.ReadOnly, p.DoneCalls, p.Reopen, p.Txs = 0, 0, 0, 0, 0, 12
	flips, served := 0, 0
	for i := 0; i < n; i++ {
		r := root.Fork()
		seg := []int{200, 300}[r.Intn(2)]
		open := optLine(r.Intn(2), r.Intn(2), r.Intn(2), r.Intn(2), seg)
		emit("#H %d %s mergecorrupt", i, open)
		st.run("reset")
		if st.run(open) != "ok" {
			continue
		}
		written := map[string]map[string]bool{} // bucket \x00 key -> values ever put
		for _, c := range genHistory(r, p, seg) {
			if c == "reopen" || strings.HasPrefix(c, "psscan") || strings.HasPrefix(c, "putnow") {
				continue
			}
			st.run(c)
			if f := strings.Fields(st.lastRC); len(f) >= 4 && f[0] == "put" {
				k := f[1] + " " + f[2]
				if written[k] == nil {
					written[k] = map[string]bool{}
				}
				written[k][f[3]] = true
			}
		}
		fs, _ := globIn(st.dir, "*.dat")
		if len(fs) < 2 {
			st.closeQuiet()
			continue
		}
		sort.Slice(fs, func(a, b int) bool { return len(fs[a]) < len(fs[b]) || len(fs[a]) == len(fs[b]) && fs[a] < fs[b] })
		f := fs[r.Intn(len(fs)-1)] // not the active segment
		b, _ := ioutil.ReadFile(f)
		end := len(b)
		for end > 0 && b[end-1] == 0 {
			end--
		}
		if end < 50 {
			st.closeQuiet()
			continue
		}
		// flip a bit that is not in a size field (a huge size makes the real code allocate gigabytes: slow, not wrong)
		// record starts, walking the headers (key size at 12, value size at 16, bucket size at 26)
		var okPos []int
		for off := 0; off+42 <= end; {
			ks := int(binary.LittleEndian.Uint32(b[off+12:]))
			vs := int(binary.LittleEndian.Uint32(b[off+16:]))
			bs := int(binary.LittleEndian.Uint32(b[off+26:]))
			sz := 42 + ks + vs + bs
			if sz > end-off {
				break
			}
			for q := 0; q < sz; q++ {
				if (q >= 12 && q < 20) || (q >= 26 && q < 30) {
					continue
				}
				okPos = append(okPos, off+q)
			}
			off += sz
		}
		if len(okPos) == 0 {
			st.closeQuiet()
			continue
		}
		pos := okPos[r.Intn(len(okPos))]
		if fd, err := os.OpenFile(f, os.O_RDWR, 0644); err == nil {
			fd.WriteAt([]byte{b[pos] ^ (1 << uint(r.Intn(8)))}, int64(pos))
			fd.Close()
		}
		flips++
		st.mt = map[string][2]string{}
		check := func(when string) {
			st.run("begin r ?")
			for _, bk := range p.Buckets {
				for _, k := range p.Keys {
					res := st.run("get " + hx([]byte(bk)) + " " + hx([]byte(k)))
					if strings.HasPrefix(res, "entry ") {
						served++
						ff := strings.Fields(res)
						if len(ff) == 3 && ff[1] == hx([]byte(k)) && written[hx([]byte(bk))+" "+hx([]byte(k))][ff[2]] {
							continue
						}
						emit("#SPEC C21 after a bit flip at byte %d of %s and Merge, %s: Get(%s, %s) serves %q, which was never written for this key", pos, filepath.Base(f), when, bk, k, res)
					}
				}
			}
			st.run("rollback")
		}
		st.run("merge")
		check("in the running process")
		st.run("close")
		st.db = nil
		if st.run(open) == "ok" {
			check("after a reopen")
		}
		st.closeQuiet()
	}
	emit("#STAT mergecorrupt flips=%d gets_served=%d", flips, served)
	st.comment = false
	st.reset()
	os.RemoveAll(st.dir)
}
