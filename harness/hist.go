package main

// hist.go — history generators.  A history is a list of call texts (see st.go)
// generated without looking at results, so the same text can be executed under
// several option sets (C19) and replayed later.

import (
	"fmt"
	"strconv"
	"strings"
)

type Profile struct {
	Name                     string
	Modes, RW, Load, Sync    []int
	Segs                     []int
	WKV, WList, WSet, WZSet  int
	Txs, OpsMin, OpsMax      int
	Reopen, ReadOnly, Abort  int // percentages
	Oversize                 int // percentage of puts that exceed the segment
	IdxHeavy                 bool // many LSet / LTrim calls per transaction
	SmallRanks               bool     // sorted sets of at most three members, rank arguments 1..3 / -1..-2
	Members                  []string // set members (default: m1 m2 m3 m|4 and the empty member)
	Buckets, Keys, Vals      []string
	NoSPop, NoSMove          bool
	ReadAfterWrite           bool // allow a tx to read a structure it wrote (C13 trigger)
	DoneCalls                int  // percentage: calls on a finished transaction
	Merge                    int
	WideInts                 bool
	ScanHeavy                bool
	SparseReads              bool // only the reads C02 names: Get, GetAll, RangeScan, PrefixScan with a large limit
	FixedScores              bool // every sorted-set member always gets the same score
	MergeDuringTx            int      // percentage of write transactions during which Merge is called from another goroutine
	GetOnly                  bool     // the only key/value read is Get (also in the observation battery)
	ScanMaxOff               int      // largest PrefixScan offset generated (default 5)
	BucketChoice             []string // when set, every history uses ONE bucket drawn from this list
	CrcZero                  int  // percentage of write transactions whose last record is forged to have the CRC-32 0 (or 1)
}

var defBuckets = []string{"b1", "b2", "b"}
var defKeys = []string{"a", "ab", "abc", "abd", "b", "ba", "k1", "k2", "z"}
var defVals = []string{"", "v", "v1", "v|w", "|", "val2", "x"}

func baseProfile() Profile {
	return Profile{Modes: []int{0, 1}, RW: []int{0, 1}, Load: []int{0, 1}, Sync: []int{0, 1},
		Segs: []int{150, 200, 300, 400}, Txs: 12, OpsMin: 1, OpsMax: 5, Reopen: 10, ReadOnly: 10, Abort: 10,
		Oversize: 2, Buckets: defBuckets, Keys: defKeys, Vals: defVals, DoneCalls: 5}
}

type Gen struct {
	r     *PRNG
	p     Profile
	calls []string
	seg   int
	// structures written in the current transaction (to avoid / force read-after-write)
	wrote map[string]bool
}

func (g *Gen) add(format string, a ...interface{}) { g.calls = append(g.calls, fmt.Sprintf(format, a...)) }

func (g *Gen) pick(l []string) string { return l[g.r.Intn(len(l))] }
func (g *Gen) hpick(l []string) string { return hx([]byte(g.pick(l))) }

func (g *Gen) val() []byte {
	switch g.r.Intn(10) {
	case 0:
		return g.r.Bytes(g.r.Range(1, 12))
	case 1:
		// a value sized so that the record is exactly 50 or 100 bytes (segments are multiples of 50)
		return []byte(strings.Repeat("f", g.r.Range(0, 1)*50+4))
	}
	return []byte(g.pick(g.p.Vals))
}

func (g *Gen) idx() int {
	if g.p.WideInts && g.r.Chance(1, 12) {
		switch g.r.Intn(4) {
		case 0:
			return -9223372036854775808
		case 1:
			return 9223372036854775807
		case 2:
			return -9223372036854775807
		default:
			return 1 << 40
		}
	}
	if g.p.SmallRanks {
		return []int{1, 2, 2, 3, -1, -2}[g.r.Intn(6)]
	}
	return g.r.Range(-7, 7)
}

func (g *Gen) vlist() string {
	n := g.r.Range(1, 3)
	var l [][]byte
	for i := 0; i < n; i++ {
		l = append(l, g.val())
	}
	return hxl(l)
}

var regexes = []string{"", "^b", "c$", "b.*", "[", "^$", ".+", "d|c", "^.$"}

// liveTTL/deadTTL: timestamps far away from the clock on either side of expiry
func (g *Gen) ttlts() (uint32, uint64) {
	switch g.r.Intn(6) {
	case 0:
		return 1, 1000 // expired long ago
	case 1:
		return 5, uint64(1600000000) // expired
	case 2:
		return 4000000000, uint64(1700000000) // live for decades
	case 3:
		return 0, 5 // persistent, odd timestamp
	case 4:
		if g.r.Bool() {
			return 60, uint64(4102444800) // timestamp in the future (2100) with a short TTL: live
		}
	}
	return 0, uint64(1700000000)
}

func (g *Gen) skey(ds, b string) string { return ds + "/" + b }

// kvOp emits one key/value call
func (g *Gen) kvOp(write bool) {
	b := g.pick(g.p.Buckets)
	hb := hx([]byte(b))
	if write {
		g.wrote[g.skey("kv", b)] = true
		if len(g.calls) > 0 && strings.HasPrefix(g.calls[len(g.calls)-1], "begin w") && g.r.Chance(1, 8) {
			g.add("putfill %s %s", hb, g.hpick(g.p.Keys)) // first call of the transaction: fill the active segment exactly
			return
		}
		switch g.r.Intn(10) {
		case 0, 1:
			g.add("del %s %s", hb, g.hpick(g.p.Keys))
		case 2:
			g.add("putnow %s %s %s %d", hb, g.hpick(g.p.Keys), hx(g.val()), []int{0, 0, 100000}[g.r.Intn(3)])
		default:
			v := g.val()
			if g.r.Chance(g.p.Oversize, 100) {
				v = []byte(strings.Repeat("O", g.seg))
			}
			ttl, ts := g.ttlts()
			g.add("put %s %s %s %d %d", hb, g.hpick(g.p.Keys), hx(v), ttl, ts)
		}
		return
	}
	if !g.p.ReadAfterWrite && g.wrote[g.skey("kv", b)] {
		return
	}
	if g.p.GetOnly {
		g.add("get %s %s", hb, g.hpick(g.p.Keys))
		return
	}
	if g.p.SparseReads {
		switch g.r.Intn(5) {
		case 0, 1:
			g.add("get %s %s", hb, g.hpick(g.p.Keys))
		case 2:
			g.add("getall %s", hb)
		case 3:
			k1, k2 := g.pick(g.p.Keys), g.pick(g.p.Keys)
			if k1 > k2 {
				k1, k2 = k2, k1
			}
			g.add("range %s %s %s", hb, hx([]byte(k1)), hx([]byte(k2)))
		default:
			g.add("pscan %s %s 0 1000", hb, hx([]byte(g.prefix())))
		}
		return
	}
	sel := g.r.Intn(8)
	if g.p.ScanHeavy && sel < 4 {
		sel = 4 + g.r.Intn(4)
	}
	switch sel {
	case 0, 1:
		g.add("get %s %s", hb, g.hpick(g.p.Keys))
	case 2:
		g.add("getall %s", hb)
	case 3:
		k1, k2 := g.pick(g.p.Keys), g.pick(g.p.Keys)
		if g.r.Chance(4, 5) && k1 > k2 {
			k1, k2 = k2, k1
		}
		if g.r.Chance(1, 5) {
			k1 = k1 + "0"
		}
		g.add("range %s %s %s", hb, hx([]byte(k1)), hx([]byte(k2)))
	case 4:
		g.add("pscan %s %s 0 -1", hb, hx([]byte(g.prefix())))
	case 5:
		mo := 5
		if g.p.ScanMaxOff > 0 {
			mo = g.p.ScanMaxOff
		}
		g.add("pscan %s %s %d %d", hb, hx([]byte(g.prefix())), g.r.Range(0, mo), g.r.Range(-1, 5))
	case 6:
		g.add("psscan %s %s %s 0 %d", hb, hx([]byte(g.prefix())), hx([]byte(regexes[g.r.Intn(len(regexes))])), []int{-1, 1, 2, 3}[g.r.Intn(4)])
	case 7:
		g.add("psscan %s %s %s %d %d", hb, hx([]byte(g.prefix())), hx([]byte(regexes[g.r.Intn(len(regexes))])), g.r.Range(0, 3), g.r.Range(-1, 3))
	}
}

func (g *Gen) prefix() string {
	k := g.pick(g.p.Keys)
	return k[:g.r.Intn(len(k)+1)]
}

func (g *Gen) listOp(write bool) {
	b := g.pick(g.p.Buckets)
	hb := hx([]byte(b))
	k := g.hpick(firstN(g.p.Keys, 4))
	if g.r.Chance(1, 25) {
		k = hx([]byte("a|b"))
	}
	if write {
		if !g.p.ReadAfterWrite && g.wrote[g.skey("list", b)] {
			// pops, lrem, lset, ltrim validate against the committed list: only pushes are safe
			if g.r.Bool() {
				g.add("rpush %s %s %s", hb, k, g.vlist())
			} else {
				g.add("lpush %s %s %s", hb, k, g.vlist())
			}
			return
		}
		first := !g.wrote[g.skey("list", b)]
		g.wrote[g.skey("list", b)] = true
		if g.p.ReadAfterWrite && !first && g.r.Chance(1, 3) {
			// a count-limited removal after the list was already popped / trimmed in this transaction:
			// valid against the committed list when called, possibly not when the record is applied
			g.add("lrem %s %s %d %s", hb, k, []int{1, 2, 3, -1, -2, -3}[g.r.Intn(6)], hx([]byte(g.pick(g.p.Vals))))
			return
		}
		if g.p.IdxHeavy && g.r.Chance(2, 3) {
			// several index-addressed list writes (LSet / LTrim) on different lists in one transaction
			if g.r.Bool() {
				g.add("lset %s %s %d %s", hb, k, g.r.Range(0, 2), hx(g.val()))
			} else {
				g.add("ltrim %s %s %d %d", hb, k, g.r.Range(0, 1), []int{-1, 2, 3, 1}[g.r.Intn(4)])
			}
			return
		}
		switch g.r.Intn(12) {
		case 0, 1, 2:
			g.add("rpush %s %s %s", hb, k, g.vlist())
		case 3, 4:
			g.add("lpush %s %s %s", hb, k, g.vlist())
		case 5:
			g.add("rpop %s %s", hb, k)
		case 6:
			g.add("lpop %s %s", hb, k)
		case 7, 8:
			g.add("lrem %s %s %d %s", hb, k, g.idx(), hx(g.val()))
		case 9:
			g.add("lset %s %s %d %s", hb, k, g.idx(), hx(g.val()))
		default:
			g.add("ltrim %s %s %d %d", hb, k, g.idx(), g.idx())
		}
		_ = first
		return
	}
	if !g.p.ReadAfterWrite && g.wrote[g.skey("list", b)] {
		return
	}
	switch g.r.Intn(5) {
	case 0:
		g.add("rpeek %s %s", hb, k)
	case 1:
		g.add("lpeek %s %s", hb, k)
	case 2:
		g.add("lsize %s %s", hb, k)
	default:
		g.add("lrange %s %s %d %d", hb, k, g.idx(), g.idx())
	}
}

func (g *Gen) member() []byte {
	if len(g.p.Members) > 0 {
		return []byte(g.pick(g.p.Members))
	}
	if g.r.Chance(1, 12) {
		return []byte{}
	}
	return []byte(g.pick([]string{"m1", "m2", "m3", "m|4"}))
}

func (g *Gen) mlist() string {
	n := g.r.Range(1, 3)
	var l [][]byte
	for i := 0; i < n; i++ {
		l = append(l, g.member())
	}
	return hxl(l)
}

func (g *Gen) setOp(write bool) {
	b := g.pick(g.p.Buckets)
	b2 := g.pick(g.p.Buckets)
	hb, hb2 := hx([]byte(b)), hx([]byte(b2))
	k, k2 := g.hpick(firstN(g.p.Keys, 3)), g.hpick(firstN(g.p.Keys, 3))
	if write {
		if !g.p.ReadAfterWrite && (g.wrote[g.skey("set", b)] || g.wrote[g.skey("set", b2)]) {
			if g.r.Bool() {
				g.add("sadd %s %s %s", hb, k, g.mlist())
			} else {
				g.add("srem %s %s %s", hb, k, g.mlist())
			}
			g.wrote[g.skey("set", b)] = true
			return
		}
		g.wrote[g.skey("set", b)] = true
		switch g.r.Intn(10) {
		case 0, 1, 2, 3:
			g.add("sadd %s %s %s", hb, k, g.mlist())
		case 4, 5:
			g.add("srem %s %s %s", hb, k, g.mlist())
		case 6:
			if !g.p.NoSPop {
				g.add("spop %s %s ?", hb, k)
			}
		case 7:
			if !g.p.NoSMove {
				g.add("smove1 %s %s %s %s", hb, k, k2, hx(g.member()))
			}
		case 8:
			if !g.p.NoSMove {
				g.wrote[g.skey("set", b2)] = true
				g.add("smove2 %s %s %s %s %s", hb, k, hb2, k2, hx(g.member()))
			}
		default:
			g.add("sadd %s %s %s", hb, k, g.mlist())
		}
		return
	}
	if !g.p.ReadAfterWrite && (g.wrote[g.skey("set", b)] || g.wrote[g.skey("set", b2)]) {
		return
	}
	switch g.r.Intn(10) {
	case 0:
		g.add("saremembers %s %s %s", hb, k, g.mlist())
	case 1:
		g.add("sismember %s %s %s", hb, k, hx(g.member()))
	case 2, 3:
		g.add("smembers %s %s", hb, k)
	case 4:
		g.add("shaskey %s %s", hb, k)
	case 5:
		g.add("scard %s %s", hb, k)
	case 6:
		g.add("sdiff1 %s %s %s", hb, k, k2)
	case 7:
		g.add("sdiff2 %s %s %s %s", hb, k, hb2, k2)
	case 8:
		g.add("sunion1 %s %s %s", hb, k, k2)
	default:
		g.add("sunion2 %s %s %s %s", hb, k, hb2, k2)
	}
}

func (g *Gen) score() string {
	if g.p.WideInts && g.r.Chance(1, 15) {
		return []string{"1000000", "-1000000", "0"}[g.r.Intn(3)]
	}
	return strconv.Itoa(g.r.Range(-2, 3))
}

func (g *Gen) zkey() string {
	if g.p.SmallRanks {
		return hx([]byte(g.pick([]string{"a", "b", "c"})))
	}
	if g.r.Chance(1, 8) {
		return "x"
	}
	return hx([]byte(g.pick([]string{"m1", "m2", "m3", "m4", "n"})))
}

func (g *Gen) zopts() string {
	if g.r.Chance(1, 4) {
		return "nil 0 0"
	}
	return fmt.Sprintf("%d %d %d", []int{0, 0, 1, 2, -1}[g.r.Intn(5)], g.r.Intn(2), g.r.Intn(2))
}

func (g *Gen) zsetOp(write bool) {
	b := g.pick(g.p.Buckets)
	hb := hx([]byte(b))
	if write {
		if !g.p.ReadAfterWrite && g.wrote[g.skey("zset", b)] {
			g.add("zadd %s %s %s %s", hb, g.zkey(), g.score(), hx(g.val()))
			return
		}
		g.wrote[g.skey("zset", b)] = true
		if g.p.FixedScores {
			zk := g.zkey()
			sel := g.r.Intn(10)
			switch {
			case sel < 7:
				g.add("zadd %s %s %s %s", hb, zk, g.score(), hx(g.val()))
			case sel < 9:
				g.add("zrem %s %s", hb, zk)
			default:
				g.add("zrem %s %s", hb, zk)
			}
			return
		}
		switch g.r.Intn(12) {
		case 0, 1, 2, 3, 4, 5:
			g.add("zadd %s %s %s %s", hb, g.zkey(), g.score(), hx(g.val()))
		case 6, 7:
			g.add("zrem %s %s", hb, g.zkey())
		case 8:
			g.add("zremrangebyrank %s %d %d", hb, g.idx(), g.idx())
		case 9:
			g.add("zpopmax %s", hb)
		case 10:
			g.add("zpopmin %s", hb)
		default:
			g.add("zadd %s %s %s %s", hb, hx([]byte("a|b")), g.score(), hx(g.val()))
		}
		return
	}
	if !g.p.ReadAfterWrite && g.wrote[g.skey("zset", b)] {
		return
	}
	switch g.r.Intn(12) {
	case 0:
		g.add("zmembers %s", hb)
	case 1:
		g.add("zcard %s", hb)
	case 2:
		g.add("zcount %s %s %s %s", hb, g.score(), g.score(), g.zopts())
	case 3, 4, 5:
		g.add("zrangebyscore %s %s %s %s", hb, g.score(), g.score(), g.zopts())
	case 6:
		g.add("zrangebyrank %s %d %d", hb, g.idx(), g.idx())
	case 7:
		g.add("zrank %s %s", hb, g.zkey())
	case 8:
		g.add("zrevrank %s %s", hb, g.zkey())
	case 9:
		g.add("zscore %s %s", hb, g.zkey())
	case 10:
		g.add("zgetbykey %s %s", hb, g.zkey())
	default:
		if g.r.Bool() {
			g.add("zpeekmax %s", hb)
		} else {
			g.add("zpeekmin %s", hb)
		}
	}
}

func (g *Gen) anyOp(write bool) {
	tot := g.p.WKV + g.p.WList + g.p.WSet + g.p.WZSet
	x := g.r.Intn(tot)
	switch {
	case x < g.p.WKV:
		g.kvOp(write)
	case x < g.p.WKV+g.p.WList:
		g.listOp(write)
	case x < g.p.WKV+g.p.WList+g.p.WSet:
		g.setOp(write)
	default:
		g.zsetOp(write)
	}
}

// obsCalls: the full observation battery (a read-only transaction)
func obsCalls(p Profile) []string {
	var c []string
	c = append(c, "begin r ?")
	for _, b := range p.Buckets {
		hb := hx([]byte(b))
		if p.WKV > 0 {
			if !p.GetOnly {
				c = append(c, "getall "+hb, "pscan "+hb+" x 0 -1", "range "+hb+" x x7f7f7f")
			}
			for _, k := range p.Keys {
				c = append(c, "get "+hb+" "+hx([]byte(k)))
			}
		}
		if p.WList > 0 {
			for _, k := range firstN(p.Keys, 4) {
				c = append(c, "lrange "+hb+" "+hx([]byte(k))+" 0 -1", "lsize "+hb+" "+hx([]byte(k)))
			}
		}
		if p.WSet > 0 {
			for _, k := range firstN(p.Keys, 3) {
				c = append(c, "smembers "+hb+" "+hx([]byte(k)), "shaskey "+hb+" "+hx([]byte(k)))
			}
		}
		if p.WZSet > 0 {
			c = append(c, "zmembers "+hb, "zrangebyrank "+hb+" 1 -1", "zcard "+hb)
		}
	}
	c = append(c, "rollback")
	return c
}

func optLine(mode, rw, load, sync, seg int) string {
	return fmt.Sprintf("open %d %d %d %d %d", mode, rw, load, sync, seg)
}

// genHistory produces the body of a history (everything after reset/open).
// "reopen" is a pseudo call expanded by the executor into obs / close / open / obs.
func genHistory(r *PRNG, p Profile, seg int) []string {
	g := &Gen{r: r, p: p, seg: seg}
	for i := 0; i < p.Txs; i++ {
		g.wrote = map[string]bool{}
		ro := r.Chance(p.ReadOnly, 100)
		if ro {
			g.add("begin r ?")
		} else {
			g.add("begin w ?")
		}
		masync := !ro && r.Chance(p.MergeDuringTx, 100)
		if masync {
			g.add("mergeasync")
		}
		n := r.Range(p.OpsMin, p.OpsMax)
		for j := 0; j < n; j++ {
			// read-only transactions also call mutating APIs (they must fail)
			write := r.Chance(65, 100)
			if ro {
				write = r.Chance(25, 100)
			}
			g.anyOp(write)
		}
		if !ro && r.Chance(p.CrcZero, 100) {
			g.add("putcrc %s %s %s 0 1700000000 %d", g.hpick(p.Buckets), g.hpick(p.Keys), g.hpick(p.Vals), r.Intn(5)/4)
		}
		if !ro && r.Chance(p.Abort, 100) {
			g.add("rollback")
		} else {
			g.add("commit")
			g.add("rollback")
		}
		if masync {
			g.add("mergewait")
		}
		if r.Chance(p.DoneCalls, 100) {
			// calls on a finished transaction
			for j := 0; j < 2; j++ {
				g.anyOp(r.Bool())
			}
			g.add("commit")
		}
		if r.Chance(p.Merge, 100) {
			g.add("merge")
		}
		filled := false
		for k := len(g.calls) - 1; k >= 0 && !strings.HasPrefix(g.calls[k], "begin"); k-- {
			if strings.HasPrefix(g.calls[k], "putfill") {
				filled = true
			}
		}
		if r.Chance(p.Reopen, 100) || filled {
			g.add("reopen") // in particular right after a segment was filled to its last byte
		}
	}
	g.add("reopen")
	return g.calls
}

// runHistory executes a history under one option line.  Returns the results of
// the observation batteries (for cross-option comparison) and all results.
func runHistory(st *St, p Profile, open string, body []string) (results []string) {
	st.run("reset")
	st.bmCheck = len(p.Modes) == 1 && p.Modes[0] == 2 && len(p.Buckets) == 1 && p.WList+p.WSet+p.WZSet == 0 && p.Oversize == 0 && p.Merge == 0
	st.run(open)
	obs := obsCalls(p)
	merged := false
	doObs := func() []string {
		var rs []string
		for _, c := range obs {
			rs = append(rs, st.run(c))
		}
		return rs
	}
	for _, c := range body {
		if st.dead {
			break
		}
		if c == "reopen" {
			before := doObs()
			if st.run("close") != "ok" {
				emit("#SPEC close failed")
			}
			if st.run(open) != "ok" {
				emit("#SPEC open-failed reopening a directory the library produced (%s)", open)
				st.dead = true
				break
			}
			after := doObs()
			for i := range before {
				if i < len(after) && before[i] != after[i] {
					if merged && ((after[i] == "err" && isEmptyAnswer(before[i])) ||
						(i > 0 && strings.HasPrefix(obs[i], "shaskey ") && before[i] == "bool 1" && before[i-1] == "list")) {
						emit("#KNOWN F30 after Merge and reopen the empty structure read by %q answers 'not found' (before: %q)", obs[i], before[i])
						continue
					}
					emit("#SPEC reopen-changed call=%q before=%q after=%q", obs[i], before[i], after[i])
				}
			}
			results = append(results, after...)
			continue
		}
		if c == "merge" {
			before := doObs()
			if st.run("merge") == "ok" {
				merged = true
			}
			after := doObs()
			for i := range before {
				if i < len(after) && before[i] != after[i] {
					emit("#SPEC merge-changed call=%q before=%q after=%q", obs[i], before[i], after[i])
				}
			}
			continue
		}
		if c == "mergewait" {
			if st.run(c) == "ok" {
				merged = true
			}
			continue
		}
		results = append(results, st.run(c))
	}
	if st.dead {
		emit("#SPEC panic-or-unopenable in history")
	}
	st.closeQuiet()
	return results
}

func firstN(l []string, n int) []string {
	if len(l) < n {
		return l
	}
	return l[:n]
}
