package main

import (
	"fmt"
	"os"

	"github.com/xujiajun/nutsdb"
)

func profileByName(name string) Profile {
	p := baseProfile()
	p.Name = name
	switch name {
	case "kv":
		p.WKV = 1
		p.Txs = 14
	case "list":
		p.WList = 1
		p.WideInts = true
	case "set":
		p.WSet = 1
	case "zset":
		p.WZSet = 1
		p.WideInts = true
	case "mixed":
		p.WKV, p.WList, p.WSet, p.WZSet = 3, 2, 2, 2
	default:
		fmt.Fprintln(os.Stderr, "unknown profile", name)
		os.Exit(2)
	}
	return p
}

// suiteHist: n random histories of the named profile, each under one random option set.
func suiteHist(seed uint64, n int, work, prof string) {
	os.MkdirAll(work, 0755)
	p := profileByName(prof)
	st := NewSt(work)
	nutsdb.VerifObserver = st.observer
	root := NewPRNG(seed)
	for i := 0; i < n; i++ {
		r := root.Fork()
		seg := p.Segs[r.Intn(len(p.Segs))]
		open := optLine(p.Modes[r.Intn(len(p.Modes))], p.RW[r.Intn(len(p.RW))], p.Load[r.Intn(len(p.Load))], p.Sync[r.Intn(len(p.Sync))], seg)
		body := genHistory(r, p, seg)
		emit("#H %d %s", i, open)
		runHistory(st, p, open, body)
	}
	st.reset()
	os.RemoveAll(st.dir)
}
