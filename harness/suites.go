package main

import (
	"fmt"
	"os"
	"strings"

	"github.com/xujiajun/nutsdb"
)

func profileByName(name string) Profile {
	p := baseProfile()
	p.Name = name
	switch name {
	case "kv":
		p.WKV = 1
		p.Txs = 14
	case "list":
		p.WList = 1
		p.WideInts = true
	case "set":
		p.WSet = 1
	case "zset":
		p.WZSet = 1
		p.WideInts = true
	case "mixed":
		p.WKV, p.WList, p.WSet, p.WZSet = 3, 2, 2, 2
	case "kvdeep":
		// enough keys per bucket for a multi-level B+ tree with splits of inner leaves
		p.WKV = 1
		p.Buckets = []string{"b1"}
		p.Keys = nil
		for i := 0; i < 48; i++ {
			p.Keys = append(p.Keys, fmt.Sprintf("k%02d", (i*29)%48))
		}
		p.Txs, p.OpsMin, p.OpsMax = 30, 2, 6
		p.Segs = []int{300, 400, 800}
		p.Oversize, p.Abort, p.ReadOnly, p.DoneCalls = 0, 5, 15, 0
	case "scan":
		// many tombstones / expired keys inside scanned ranges, dense key space
		p.WKV = 1
		p.Keys = []string{"k0", "k1", "k2", "k3", "k4", "k5", "k6", "k", "j", "l", "k10"}
		p.Buckets = []string{"b1", "b2"}
		p.Txs = 18
		p.ScanHeavy = true
	case "setamb":
		// sets whose bucket / key / member byte strings concatenate ambiguously:
		// ('s','ab','c') ('sa','b','c') ('s','a','bc') ('s','ab','') ('s','a','b') ...
		p.WKV, p.WList, p.WSet, p.WZSet = 0, 0, 1, 0
		p.Buckets = []string{"s", "sa"}
		p.Keys = []string{"a", "ab", "b"}
		p.Members = []string{"", "b", "bc", "c", "x", "1x"}
		p.Txs, p.OpsMin, p.OpsMax = 14, 2, 6
	case "setraw":
		// set transactions that remove a member and then move / re-add it (calls that validate against
		// structures the transaction already modified): impl = model must hold (spec: known finding F21)
		p.WKV, p.WList, p.WSet, p.WZSet = 0, 0, 1, 0
		p.ReadAfterWrite = true
		p.Buckets = []string{"b1", "b2"}
		p.Keys = []string{"a", "ab"}
		p.Members = []string{"m1", "m2", "m3"}
		p.Txs, p.OpsMin, p.OpsMax = 12, 2, 6
	case "framemerge":
		// adversarial names across buckets and structures, with Merge and reopen (no lists: known finding F14)
		p.WKV, p.WList, p.WSet, p.WZSet = 3, 0, 3, 2
		p.Buckets = []string{"s", "sa", "a", "ab", "b"}
		p.Keys = []string{"ab", "b", "a", "bc", "c", "k"}
		p.Members = []string{"c", "m", "bc", ""}
		p.Txs = 16
		p.Merge = 30
		p.Reopen = 25
		p.Segs = []int{150, 200, 300}
	case "listidx":
		// transactions holding several LSet / LTrim calls on different lists
		p.WKV, p.WList, p.WSet, p.WZSet = 0, 1, 0, 0
		p.Buckets = []string{"b1", "b2", "b3", "b4", "b5"}
		p.Txs, p.OpsMin, p.OpsMax = 16, 3, 6
		p.IdxHeavy = true
		p.Abort, p.Oversize = 0, 0
	case "scanbin":
		// binary keys: 0xFF and 0x00 bytes at the end of keys and prefixes (carry / successor computations)
		p.WKV = 1
		p.Keys = []string{"\x01\xff", "\x01\xffa", "\x01\xff\xff", "\x01\xfe", "\x01\xfez", "\x02", "\xff", "\xff\xff", "\x00", "\x01"}
		p.Buckets = []string{"b1", "\xff"}
		p.Txs = 14
		p.ScanHeavy = true
	case "frame":
		// adversarial names: prefixes of each other, empty, bucket+key concatenations that coincide
		p.WKV, p.WList, p.WSet, p.WZSet = 3, 2, 2, 2
		p.Buckets = []string{"", "a", "ab", "abc", "b"}
		p.Keys = []string{"bc", "c", "b", "a", "ab", "abc", "k"}
		p.Txs = 16
		p.Reopen = 20
	case "framekv":
		// key/value only, bucket names that are prefixes of each other and keys such that bucket+key concatenations
		// coincide across buckets, several buckets per transaction, reopen often (C01, C08)
		p.WKV = 1
		p.Buckets = []string{"b", "b1", "bk", "bk1"}
		p.Keys = []string{"1key", "key", "k1key", "1", "11", "k", "k1"}
		p.Txs = 16
		p.OpsMin, p.OpsMax = 2, 6
		p.Reopen = 25
		p.Oversize, p.DoneCalls = 0, 0
	case "framedense":
		// two buckets, two keys, two members: the same key names live in both buckets for every structure, so a call
		// that looks at the wrong bucket finds something there (C04)
		p.WKV, p.WList, p.WSet, p.WZSet = 1, 1, 8, 1
		p.Buckets = []string{"a", "ab"}
		p.Keys = []string{"b", "k"}
		p.Members = []string{"m", "n"}
		p.NoSPop = true
		p.Txs = 26
		p.Reopen = 12
		p.Oversize, p.DoneCalls = 0, 0
	case "crczero":
		// half of the write transactions end with a key/value record whose CRC-32 is forged to be 0 (sometimes 1):
		// a checksum is just a number, recovery must not read a meaning into its value
		p.WKV, p.WList, p.WSet, p.WZSet = 5, 1, 1, 1
		p.Reopen = 50
		p.Txs = 14
		p.CrcZero = 50
	case "manyseg":
		// more than ten (and more than twenty) segments: file ids with one and two digits, reopened often
		p.WKV, p.WList, p.WSet, p.WZSet = 3, 2, 2, 2
		p.Reopen = 12
		p.Txs = 45
		p.OpsMin, p.OpsMax = 2, 5
		p.Segs = []int{150, 200}
		p.Oversize, p.DoneCalls = 0, 0
	case "reopen":
		p.WKV, p.WList, p.WSet, p.WZSet = 3, 2, 2, 2
		p.Reopen = 50
		p.Txs = 14
	case "abort":
		p.WKV, p.WList, p.WSet, p.WZSet = 3, 2, 2, 2
		p.Abort, p.Oversize, p.ReadOnly, p.DoneCalls = 35, 12, 25, 25
		p.Reopen = 25
	case "merge":
		// Merge at arbitrary points, repeatedly, then more writes and reopen (C15); no lists (known finding F14)
		p.WKV, p.WList, p.WSet, p.WZSet = 4, 0, 2, 2
		p.Merge = 30
		p.Reopen = 25
		p.Txs = 16
		p.Segs = []int{150, 200, 300}
		p.Modes = []int{0}
	case "merge1":
		p.WKV, p.WList, p.WSet, p.WZSet = 4, 0, 2, 2
		p.Merge = 30
		p.Reopen = 25
		p.Txs = 16
		p.Segs = []int{150, 200, 300}
		p.Modes = []int{1}
	case "mergeduring":
		// Merge is CALLED while a write transaction holds the lock (it must wait, and then see the segments as they
		// are when it gets the lock); transactions with long values rotate the segment; sorted sets with positional
		// removals, sets and key/value data; reopen often (C17)
		p.WKV, p.WList, p.WSet, p.WZSet = 2, 0, 1, 5
		p.Buckets = []string{"z", "b"}
		p.Merge = 10
		p.MergeDuringTx = 40
		p.Reopen = 30
		p.Txs = 14
		p.OpsMin, p.OpsMax = 2, 5
		p.Segs = []int{150, 200}
		p.SmallRanks = true
		p.Oversize, p.DoneCalls, p.Abort = 0, 0, 5
	case "mergezpos":
		// sorted sets with many position-dependent removals (rank ranges, pops) and removals by key, so that
		// whole segments die; Merge and reopen often (the scenario of fix 71d5512)
		p.WKV, p.WList, p.WSet, p.WZSet = 1, 0, 0, 6
		p.Buckets = []string{"z"}
		p.Merge = 35
		p.Reopen = 35
		p.Txs = 18
		p.OpsMin, p.OpsMax = 1, 2
		p.Segs = []int{150, 200, 300}
		p.Abort, p.Oversize, p.ReadOnly = 0, 0, 5
		p.SmallRanks = true
	case "mergelist":
		p.WKV, p.WList, p.WSet, p.WZSet = 2, 3, 1, 1
		p.Merge = 30
		p.Reopen = 25
		p.Txs = 14
		p.Segs = []int{150, 200, 300}
	case "sparse":
		// HintBPTSparseIdxMode, one bucket, unambiguous bucket+key concatenations (C02)
		p.WKV = 1
		p.Modes = []int{2}
		p.Buckets = []string{"bk"}
		p.BucketChoice = []string{"bk", "data", "cache", "t", "a.m", "bk"} // one per history; names ending in letters of ".meta" too
		p.Keys = []string{"a", "ab", "abc", "abd", "b", "ba", "k1", "k2", "z", "k10", "k3", "m"}
		p.Segs = []int{150, 200, 250, 350}
		p.Txs = 20
		p.Reopen = 15
		p.Oversize, p.DoneCalls = 0, 0
		p.SparseReads = true
	case "sparsepfx":
		// sparse mode, two key/value buckets whose names are prefixes of each other, keys chosen so that no bucket+key
		// concatenation of one bucket equals one of the other; sealed segments with multi-level on-disk trees (C04)
		p.WKV = 1
		p.Modes = []int{2}
		p.Buckets = []string{"b", "ba"}
		p.Keys = nil
		for i := 0; i < 12; i++ {
			p.Keys = append(p.Keys, fmt.Sprintf("x%02d", (i*5)%12), fmt.Sprintf("c%02d", (i*7)%12))
		}
		p.Segs = []int{600, 1000}
		p.Txs, p.OpsMin, p.OpsMax = 30, 2, 4
		p.Reopen = 8
		p.Oversize, p.DoneCalls, p.ReadOnly, p.Abort = 0, 0, 15, 5
		p.GetOnly = true // scans and GetAll across such buckets are known finding F18
	case "sparsebig":
		// sparse mode, transactions of 6-14 records over segments of 150-250 bytes: a transaction spans several
		// segments, some segments hold no commit record at all, others only the tail of a transaction
		p.WKV = 1
		p.Modes = []int{2}
		p.Buckets = []string{"bk"}
		p.Keys = nil
		for i := 0; i < 16; i++ {
			p.Keys = append(p.Keys, fmt.Sprintf("k%02d", (i*7)%16))
		}
		p.Segs = []int{150, 200, 250}
		p.Txs, p.OpsMin, p.OpsMax = 9, 6, 14
		p.Reopen = 20
		p.Oversize, p.DoneCalls, p.ReadOnly, p.Abort = 0, 0, 30, 5
		p.SparseReads = true
	case "sparse2":
		// many small transactions per segment: the on-disk transaction-id tree and the
		// on-disk key tree of a sealed segment get inner nodes
		p.WKV = 1
		p.Modes = []int{2}
		p.Buckets = []string{"bk"}
		p.Keys = nil
		for i := 0; i < 30; i++ {
			p.Keys = append(p.Keys, fmt.Sprintf("k%02d", (i*17)%30))
		}
		p.Segs = []int{600, 1000, 1500}
		p.Txs, p.OpsMin, p.OpsMax = 45, 1, 3
		p.Reopen = 8
		p.Oversize, p.DoneCalls, p.ReadOnly, p.Abort = 0, 0, 10, 5
		p.SparseReads = true
	case "sparsepage":
		// sparse mode, one bucket, scans with every small offset / limit over keys spread across sealed segments (C03)
		p.WKV = 1
		p.Modes = []int{2}
		p.Buckets = []string{"bk"}
		p.Keys = []string{"k0", "k1", "k2", "k3", "k4", "k5", "k6", "k", "j", "l", "k10"}
		p.Segs = []int{150, 200, 250, 350}
		p.Txs = 18
		p.Reopen = 10
		p.Oversize, p.DoneCalls = 0, 0
		p.ScanHeavy = true
	case "scanmerge":
		// RAM index modes, one bucket, one prefix: deletes, re-puts and expiring puts with Merge in the same
		// process lifetime, then scans with every small offset / limit (C03: the B+ tree's bookkeeping after Merge)
		p.WKV = 1
		p.Modes = []int{0, 1}
		p.Buckets = []string{"bk"}
		p.Keys = []string{"k0", "k1", "k2", "k3", "k4", "k5", "k6", "k", "j", "l", "k10"}
		p.Segs = []int{150, 200, 250}
		p.Txs = 22
		p.Merge = 25
		p.ScanMaxOff = 12
		p.Reopen = 4
		p.Oversize, p.DoneCalls = 0, 0
		p.ScanHeavy = true
	case "sparsemb":
		// sparse mode, several buckets whose names have equal length (bucket+key concatenations are unambiguous)
		p.WKV = 1
		p.Modes = []int{2}
		p.Buckets = []string{"b1", "b2", "c1"}
		p.Keys = []string{"a", "ab", "abc", "k1", "k2", "z", "k10"}
		p.Segs = []int{150, 250, 350}
		p.Txs = 20
		p.Reopen = 15
		p.Oversize, p.DoneCalls = 0, 0
		p.SparseReads = true
	case "bigtx":
		// long write transactions interleaving several buckets with order-sensitive blind writes (C13)
		p.WKV, p.WList, p.WSet, p.WZSet = 2, 3, 2, 3
		p.OpsMin, p.OpsMax = 8, 22
		p.Txs = 6
		p.Oversize, p.Abort, p.ReadOnly, p.DoneCalls = 0, 5, 5, 0
		p.Segs = []int{400, 1000, 3000}
	case "raw":
		// transactions that read, pop or validate structures they already modified (C13)
		p.WKV, p.WList, p.WSet, p.WZSet = 2, 3, 2, 3
		p.ReadAfterWrite = true
		p.OpsMin, p.OpsMax = 2, 6
		p.Buckets = []string{"b1"}
		p.Keys = []string{"a", "ab", "k1"}
	case "rawreopen":
		// like raw, with frequent reopens: the records of read-after-write transactions must replay (C09)
		p.WKV, p.WList, p.WSet, p.WZSet = 1, 4, 2, 3
		p.ReadAfterWrite = true
		p.OpsMin, p.OpsMax = 2, 6
		p.Buckets = []string{"b1"}
		p.Keys = []string{"a", "ab"}
		p.Vals = []string{"a", "a", "a", "b"} // lists of mostly equal elements: LRem counts near the list length are valid when called
		p.Reopen = 30
	default:
		fmt.Fprintln(os.Stderr, "unknown profile", name)
		os.Exit(2)
	}
	return p
}

// suiteHist: n random histories of the named profile, each under one random option set.
func suiteHist(seed uint64, n int, work, prof string) {
	os.MkdirAll(work, 0755)
	switch prof {
	case "dslist", "dsset", "dszset":
		suiteDs(seed, n, prof)
		return
	case "pages":
		suitePages(seed, n, work)
		return
	case "fault":
		suiteFault(seed, n, work, "mixed")
		return
	case "faultset":
		suiteFault(seed, n, work, "set")
		return
	case "opts":
		suiteOpts(seed, n, work)
		return
	case "crash":
		suiteCrash(seed, n, work, false, false)
		return
	case "power":
		suiteCrash(seed, n, work, true, false)
		return
	case "crashsparse":
		suiteCrash(seed, n, work, false, true)
		return
	case "powersparse":
		suiteCrash(seed, n, work, true, true)
		return
	case "mergecrash":
		suiteMergeCrash(seed, n, work, false, false)
		return
	case "mergepower":
		suiteMergeCrash(seed, n, work, true, false)
		return
	case "mergecrashpos":
		suiteMergeCrash(seed, n, work, false, true)
		return
	case "mergefault":
		suiteMergeFault(seed, n, work)
		return
	case "conc":
		suiteConc(seed, n, work, false)
		return
	case "concmerge":
		suiteConc(seed, n, work, true)
		return
	case "backup":
		suiteBackup(seed, n, work)
		return
	case "modes":
		suiteModes(seed, n, work)
		return
	case "fuzz":
		suiteFuzz(seed, n, work)
		return
	case "mergecorrupt":
		suiteMergeCorrupt(seed, n, work)
		return
	case "fuzzsparse":
		suiteFuzzMode(seed, n, work, true)
		return
	}
	p := profileByName(prof)
	st := NewSt(work)
	nutsdb.VerifObserver = st.observer
	root := NewPRNG(seed)
	for i := 0; i < n; i++ {
		r := root.Fork()
		seg := p.Segs[r.Intn(len(p.Segs))]
		open := optLine(p.Modes[r.Intn(len(p.Modes))], p.RW[r.Intn(len(p.RW))], p.Load[r.Intn(len(p.Load))], p.Sync[r.Intn(len(p.Sync))], seg)
		pi := p
		if len(p.BucketChoice) > 0 {
			pi.Buckets = []string{p.BucketChoice[r.Intn(len(p.BucketChoice))]}
		}
		body := genHistory(r, pi, seg)
		emit("#H %d %s", i, open)
		runHistory(st, pi, open, body)
	}
	st.reset()
	os.RemoveAll(st.dir)
}

// suitePages: paging sweep (C03).  Random contents over 7 keys x {live, deleted,
// expired, absent}; then every (prefix, offset, limit) PrefixScan and the offset-0
// PrefixSearchScan with a few regexps.
func suitePages(seed uint64, n int, work string) {
	st := NewSt(work)
	nutsdb.VerifObserver = st.observer
	root := NewPRNG(seed)
	keys := []string{"k0", "k1", "k10", "k2", "k3", "l", "k"}
	for i := 0; i < n; i++ {
		r := root.Fork()
		open := optLine(r.Intn(2), r.Intn(2), r.Intn(2), r.Intn(2), []int{200, 400, 2000}[r.Intn(3)])
		if i%2 == 1 {
			open = optLine(r.Intn(2), r.Intn(2), r.Intn(2), r.Intn(2), []int{150, 200}[r.Intn(2)]) // several data files: Merge has work to do
		}
		emit("#H %d %s", i, open)
		st.run("reset")
		st.run(open)
		hb := hx([]byte("b"))
		st.run("begin w ?")
		for _, k := range keys {
			switch r.Intn(4) {
			case 0:
				st.run(fmt.Sprintf("put %s %s %s 0 1700000000", hb, hx([]byte(k)), hx([]byte("v"+k))))
			case 1:
				st.run(fmt.Sprintf("put %s %s %s 0 1700000000", hb, hx([]byte(k)), hx([]byte("old"))))
			case 2:
				st.run(fmt.Sprintf("put %s %s %s 3 1600000000", hb, hx([]byte(k)), hx([]byte("expired"))))
			}
		}
		st.run("commit")
		st.run("begin w ?")
		for _, k := range keys {
			if r.Chance(1, 3) {
				st.run(fmt.Sprintf("del %s %s", hb, hx([]byte(k))))
			} else if r.Chance(1, 4) {
				st.run(fmt.Sprintf("put %s %s %s 0 1700000000", hb, hx([]byte(k)), hx([]byte("new"+k))))
			}
		}
		st.run("commit")
		if i%2 == 1 {
			// every other case: Merge in the same process lifetime, then deleted / expired / absent keys are put (again)
			// and live ones deleted, so that whatever the index counted before the Merge is out of date
			st.run("merge")
			st.run("begin w ?")
			for _, k := range keys {
				if r.Chance(1, 2) {
					st.run(fmt.Sprintf("put %s %s %s 0 1700000000", hb, hx([]byte(k)), hx([]byte("re"+k))))
				} else if r.Chance(1, 5) {
					st.run(fmt.Sprintf("del %s %s", hb, hx([]byte(k))))
				}
			}
			st.run("commit")
		}
		st.run("begin r ?")
		nk := len(keys)
		for _, p := range []string{"", "k", "k1", "l", "z"} {
			for off := 0; off <= nk+1; off++ {
				for lim := 1; lim <= nk+1; lim++ {
					if r.Chance(1, 2) {
						continue
					}
					st.run(fmt.Sprintf("pscan %s %s %d %d", hb, hx([]byte(p)), off, lim))
				}
			}
			for _, re := range []string{"", "0$", "^1", ".+"} {
				for lim := 1; lim <= nk+1; lim += 2 {
					st.run(fmt.Sprintf("psscan %s %s %s 0 %d", hb, hx([]byte(p)), hx([]byte(re)), lim))
				}
			}
		}
		st.run("rollback")
		st.closeQuiet()
	}
	st.reset()
	os.RemoveAll(st.dir)
}

// suiteFault: I/O errors injected into Commit (C12).
func suiteFault(seed uint64, n int, work string, prof string) {
	a := NewSt(work + "/a")
	b := NewSt(work + "/b")
	b.quiet = true
	os.MkdirAll(work+"/a", 0755)
	os.MkdirAll(work+"/b", 0755)
	cur := a
	nutsdb.VerifObserver = func(op, path string, off int64, d []byte) error { return cur.observer(op, path, off, d) }
	root := NewPRNG(seed)
	p := profileByName(prof)
	p.Abort, p.Oversize, p.ReadOnly, p.DoneCalls, p.Reopen, p.Txs = 0, 0, 0, 0, 0, 4
	p.NoSPop = true
	both := func(c string) string {
		cur = b
		b.run(c)
		cur = a
		return a.run(c)
	}
	obsOf := func(s *St) []string {
		cur = s
		var rs []string
		for _, c := range obsCalls(p) {
			rs = append(rs, s.run(c))
		}
		cur = a
		return rs
	}
	eq := func(x, y []string) bool {
		if len(x) != len(y) {
			return false
		}
		for i := range x {
			if x[i] != y[i] {
				return false
			}
		}
		return true
	}
	for i := 0; i < n; i++ {
		r := root.Fork()
		seg := []int{150, 200, 300}[r.Intn(3)]
		open := optLine(r.Intn(2), r.Intn(2), r.Intn(2), r.Intn(2), seg)
		// every third case is aimed: the transaction overwrites a live key and then fails exactly at the write of its LAST
		// record (nothing of it reaches the file); afterwards other transactions fill further segments and Merge runs
		aimed := i%3 == 2
		hlive, hother := hx([]byte("zzlive")), hx([]byte("zzother"))
		if aimed {
			seg = 1000
			open = optLine(r.Intn(2), r.Intn(2), r.Intn(2), 0, seg)
		}
		emit("#H %d %s", i, open)
		a.comment = false
		both("reset")
		both(open)
		for _, c := range genHistory(r, p, seg) {
			if c == "reopen" {
				continue
			}
			both(c)
		}
		if aimed {
			both("begin w ?")
			both(fmt.Sprintf("put %s %s %s 0 1700000000", hx([]byte(p.Buckets[0])), hlive, hx([]byte("v0"))))
			both("commit")
			both("rollback")
		}
		o0 := obsOf(a)
		// the transaction under test: 1-5 blind writes over all structures
		g := &Gen{r: r, p: p, seg: seg, wrote: map[string]bool{}}
		both("begin w ?")
		nops := r.Range(1, 5)
		for len(g.calls) < nops {
			g.anyOp(true)
		}
		if aimed {
			g.calls = []string{fmt.Sprintf("put %s %s %s 0 1700000000", hx([]byte(p.Buckets[0])), hlive, hx([]byte("BAD"))),
				fmt.Sprintf("put %s %s %s 0 1700000000", hx([]byte(p.Buckets[0])), hother, hx([]byte("x")))}
		}
		for _, c := range g.calls {
			if strings.HasPrefix(c, "spop") || strings.HasPrefix(c, "putnow") {
				continue
			}
			both(c)
		}
		j := r.Range(1, 12)
		part := []int{-1, 0, 10, 42, 47, 100000}[r.Intn(6)] // 100000: the write completes, then the error is reported
		if aimed {
			j, part = 2, []int{-1, 0}[r.Intn(2)] // without SyncEnable and without a rotation the second mutation is the second record's write
		}
		cur = a
		res := a.run(fmt.Sprintf("commitfault %d %d", j, part))
		kind := a.faultOp
		fired := kind != ""
		a.run("rollback")
		cur = b
		b.run("commit")
		b.run("rollback")
		cur = a
		if kind == "writefull" {
			kind = "sync" // a completed write whose error is reported afterwards: outcome in doubt, like a sync error
		}
		if kind == "sync" {
			a.comment = true // outcome in doubt: not replayed by the model
		}
		o1 := obsOf(a)
		ob := obsOf(b)
		emit("#STAT fault fired=%v kind=%s part=%d res=%s", fired, kind, part, res)
		if !fired {
			if !eq(o1, ob) {
				emit("#SPEC twin-run-differs without a fault")
			}
		} else if kind == "sync" {
			if !eq(o1, o0) && !eq(o1, ob) {
				emit("#SPEC after a sync error in Commit the transaction is partially visible in the process")
			}
		} else {
			if res != "err" {
				emit("#SPEC Commit returned success although a write failed (%s)", kind)
			}
			if !eq(o1, o0) {
				emit("#SPEC failed Commit (%s error, partial=%d) changed reads in the running process", kind, part)
			}
		}
		cur = a
		// every other time: a later transaction commits into the same segment before the reopen;
		// it must survive, and the failed one must stay invisible
		fk := []int{1, 1, 1, 2, 0}[r.Intn(5)] // mostly a small transaction that lands in the same segment
		if aimed {
			fk = 2
		}
		follow := fired && kind != "sync" && fk != 0
		if follow {
			a.run("begin w ?")
			fv := fmt.Sprintf("f%d", i)
			if fk == 2 {
				// a record as large as a whole segment: Commit must rotate, which seals the segment with whatever the
				// failed write left at its tail
				fv = strings.Repeat("\x02", seg-42-len(p.Buckets[0])-len("zzfollow"))
			}
			a.run(fmt.Sprintf("put %s %s %s 0 1700000000", hx([]byte(p.Buckets[0])), hx([]byte("zzfollow")), hx([]byte(fv))))
			if a.run("commit") != "ok" {
				emit("#SPEC a small transaction after a failed Commit (%s error, partial=%d) does not commit", kind, part)
			}
			a.run("rollback")
			if aimed {
				// one more segment
				a.run("begin w ?")
				a.run(fmt.Sprintf("put %s %s %s 0 1700000000", hx([]byte(p.Buckets[0])), hx([]byte("zzfollow2")), hx([]byte(strings.Repeat("\x02", seg-42-len(p.Buckets[0])-len("zzfollow2"))))))
				a.run("commit")
				a.run("rollback")
			}
			o0 = obsOf(a)
		}
		// every third time: Merge in the same process after the failed Commit.  Whatever the failed transaction left
		// behind (records in the file, bookkeeping in memory) must not be turned into data by the rewrite.  Lists are
		// left out of the comparison (known finding F14), vanished empty structures after the reopen are F30.
		noLists := func(o []string) []string {
			var r []string
			for k, c := range obsCalls(p) {
				if k < len(o) && !strings.HasPrefix(c, "lrange") && !strings.HasPrefix(c, "lsize") {
					r = append(r, o[k])
				}
			}
			return r
		}
		mergedHere := false
		if fired && kind != "sync" && (aimed || r.Intn(3) == 0) {
			a.comment = true // the model does not replay the failed transaction's leftovers through Merge
			mergedHere = true // also when Merge stops with an error (e.g. at the torn record): the files it finished are rewritten
			if a.run("merge") == "ok" {
				if om := obsOf(a); !eq(noLists(om), noLists(o0)) {
					emit("#SPEC Merge after a failed Commit (%s error, partial=%d) changed reads in the running process: %s", kind, part, firstDiff(noLists(om), noLists(o0), noLists(obsCalls(p))))
				}
			}
		}
		if a.run("close") != "ok" {
			emit("#SPEC close failed after failed commit")
		}
		if a.run(open) != "ok" {
			emit("#SPEC open-failed after a failed Commit (%s error, partial=%d)", kind, part)
			a.closeQuiet()
			continue
		}
		o2 := obsOf(a)
		if mergedHere {
			if _, real := diffClass(noLists(o2), noLists(o0), noLists(obsCalls(p))); real != "" {
				emit("#SPEC Merge after a failed Commit (%s error, partial=%d) changed reads after reopen: %s", kind, part, real)
			}
		} else if fired && kind != "sync" && !eq(o2, o0) {
			emit("#SPEC failed Commit (%s error, partial=%d, later commit=%v) changed reads after reopen: %s", kind, part, follow, firstDiff(o2, o0, obsCalls(p)))
		}
		if fired && kind == "sync" && !eq(o2, o0) && !eq(o2, ob) {
			emit("#SPEC after a sync error in Commit the transaction is partially visible after reopen")
		}
		a.closeQuiet()
		b.closeQuiet()
	}
	a.comment = false
	a.reset()
	b.reset()
	os.RemoveAll(work + "/a")
	os.RemoveAll(work + "/b")
}
