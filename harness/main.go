// Command harness drives the real nutsdb code (built with -tags verif) and
// prints traces that the extracted Coq model replays.
package main

import (
	"bufio"
	"flag"
	"fmt"
	"os"
)

var out *bufio.Writer

func emit(format string, a ...interface{}) {
	fmt.Fprintf(out, format, a...)
	out.WriteByte('\n')
}

func hx(b []byte) string { return fmt.Sprintf("x%x", b) }

func main() {
	if len(os.Args) < 2 {
		fmt.Fprintln(os.Stderr, "usage: harness <suite> [flags]")
		os.Exit(2)
	}
	suite := os.Args[1]
	fs := flag.NewFlagSet(suite, flag.ExitOnError)
	seed := fs.Uint64("seed", 1, "PRNG seed")
	n := fs.Int("n", 100, "number of cases / histories")
	work := fs.String("work", "", "scratch directory (required by suites that touch files)")
	extra := fs.String("x", "", "suite-specific option")
	fs.Parse(os.Args[2:])
	out = bufio.NewWriterSize(os.Stdout, 1<<20)
	defer startProf()()
	defer out.Flush()
	switch suite {
	case "codec":
		suiteCodec(*seed, *n, *work)
	case "exec":
		suiteExec(*work)
	case "hist":
		suiteHist(*seed, *n, *work, *extra)
	default:
		_ = extra
		fmt.Fprintln(os.Stderr, "unknown suite", suite)
		os.Exit(2)
	}
}
