package main

// ds.go — the exported ds/list, ds/set, ds/zset types driven directly.

import (
	"fmt"
	"math/rand"
	"os"
	"sort"
	"strconv"
	"strings"

	"github.com/xujiajun/nutsdb/ds/list"
	"github.com/xujiajun/nutsdb/ds/set"
	"github.com/xujiajun/nutsdb/ds/zset"
)

type DsSt struct {
	l *list.List
	s *set.Set
	z *zset.SortedSet
}

func dumpMap(m map[string][][]byte, sortVals bool) string {
	var ks []string
	for k := range m {
		ks = append(ks, k)
	}
	sort.Strings(ks)
	p := []string{"dump"}
	for _, k := range ks {
		vs := m[k]
		if sortVals {
			vs = sortedCopy(vs)
		}
		var h []string
		for _, v := range vs {
			h = append(h, hx(v))
		}
		p = append(p, hx([]byte(k))+"=["+strings.Join(h, ",")+"]")
	}
	return strings.Join(p, " ")
}

func (d *DsSt) exec(call string) (rcall, res string) {
	rcall = call
	defer func() {
		if r := recover(); r != nil {
			res = "panic"
			if os.Getenv("VERIF_DEBUG") != "" {
				fmt.Fprintf(os.Stderr, "panic in %q: %v\n", call, r)
			}
		}
	}()
	t := strings.Split(call, " ")
	cmd, a := t[0], t[1:]
	S := func(i int) string { return string(unhx(a[i])) }
	B := func(i int) []byte { return unhx(a[i]) }
	I := func(i int) int { return atoi(a[i]) }
	intOrErr := func(n int, err error) string {
		if err != nil {
			return "err"
		}
		return "int " + strconv.Itoa(n)
	}
	valOrErr := func(v []byte, err error) string {
		if err != nil {
			return "err"
		}
		return "val " + hx(v)
	}
	switch cmd {
	case "dl.new":
		d.l = list.New()
		return call, "-"
	case "dl.rpush":
		return call, intOrErr(d.l.RPush(S(0), unhxl(a[1])...))
	case "dl.lpush":
		return call, intOrErr(d.l.LPush(S(0), unhxl(a[1])...))
	case "dl.rpop":
		return call, valOrErr(d.l.RPop(S(0)))
	case "dl.lpop":
		return call, valOrErr(d.l.LPop(S(0)))
	case "dl.rpeek":
		v, _, err := d.l.RPeek(S(0))
		return call, valOrErr(v, err)
	case "dl.lpeek":
		return call, valOrErr(d.l.LPeek(S(0)))
	case "dl.size":
		return call, intOrErr(d.l.Size(S(0)))
	case "dl.lrange":
		l, err := d.l.LRange(S(0), I(1), I(2))
		if err != nil {
			return call, "err"
		}
		return call, fmtList(l)
	case "dl.lrem":
		return call, intOrErr(d.l.LRem(S(0), I(1), B(2)))
	case "dl.lremnum":
		return call, intOrErr(d.l.LRemNum(S(0), I(1), B(2)))
	case "dl.lset":
		return call, errOr(d.l.LSet(S(0), I(1), B(2)), "ok")
	case "dl.ltrim":
		return call, errOr(d.l.Ltrim(S(0), I(1), I(2)), "ok")
	case "dl.dump":
		return call, dumpMap(d.l.Items, false)
	// ---- sets
	case "ds.new":
		d.s = set.New()
		return call, "-"
	case "ds.sadd":
		return call, errOr(d.s.SAdd(S(0), unhxl(a[1])...), "ok")
	case "ds.srem":
		return call, errOr(d.s.SRem(S(0), unhxl(a[1])...), "ok")
	case "ds.haskey":
		return call, "bool " + btoa(d.s.SHasKey(S(0)))
	case "ds.card":
		return call, "int " + strconv.Itoa(d.s.SCard(S(0)))
	case "ds.ismember":
		return call, "bool " + btoa(d.s.SIsMember(S(0), B(1)))
	case "ds.aremembers":
		ok, err := d.s.SAreMembers(S(0), unhxl(a[1])...)
		if err != nil {
			return call, "err"
		}
		return call, "bool " + btoa(ok)
	case "ds.members", "ds.diff", "ds.union", "ds.inter":
		var l [][]byte
		var err error
		switch cmd {
		case "ds.members":
			l, err = d.s.SMembers(S(0))
		case "ds.diff":
			l, err = d.s.SDiff(S(0), S(1))
		case "ds.union":
			l, err = d.s.SUnion(S(0), S(1))
		case "ds.inter":
			l, err = d.s.SInter(S(0), S(1))
		}
		if err != nil {
			return call, "err"
		}
		return call, fmtList(sortedCopy(l))
	case "ds.move":
		ok, err := d.s.SMove(S(0), S(1), B(2))
		if err != nil {
			return call, "err"
		}
		return call, "bool " + btoa(ok)
	case "ds.pop":
		v := d.s.SPop(S(0))
		if v == nil {
			return "ds.pop " + a[0] + " !", "nil"
		}
		return "ds.pop " + a[0] + " " + hx(v), "val " + hx(v)
	case "ds.dump":
		m := map[string][][]byte{}
		for k, mm := range d.s.M {
			m[k] = [][]byte{}
			for x := range mm {
				m[k] = append(m[k], []byte(x))
			}
		}
		return call, dumpMap(m, true)
	// ---- sorted sets
	case "dz.new":
		rand.Seed(int64(atoi(a[0])))
		d.z = zset.New()
		return "dz.new", "-"
	case "dz.put":
		return call, errOr(d.z.Put(S(0), zset.SCORE(atof(a[1])), B(2)), "ok")
	case "dz.remove":
		return call, "node " + fmtNode(d.z.Remove(S(0)))
	case "dz.getbykey":
		return call, "node " + fmtNode(d.z.GetByKey(S(0)))
	case "dz.peekmin":
		return call, "node " + fmtNode(d.z.PeekMin())
	case "dz.peekmax":
		return call, "node " + fmtNode(d.z.PeekMax())
	case "dz.popmin":
		return call, "node " + fmtNode(d.z.PopMin())
	case "dz.popmax":
		return call, "node " + fmtNode(d.z.PopMax())
	case "dz.rankrange":
		return call, fmtNodes(d.z.GetByRankRange(I(0), I(1), atob(a[2])))
	case "dz.scorerange":
		return call, fmtNodes(d.z.GetByScoreRange(zset.SCORE(atof(a[0])), zset.SCORE(atof(a[1])),
			&zset.GetByScoreRangeOptions{Limit: I(2), ExcludeStart: atob(a[3]), ExcludeEnd: atob(a[4])}))
	case "dz.rank":
		return call, "int " + strconv.Itoa(d.z.FindRank(S(0)))
	case "dz.revrank":
		return call, "int " + strconv.Itoa(d.z.FindRevRank(S(0)))
	case "dz.size":
		return call, "int " + strconv.Itoa(d.z.Size())
	case "dz.dump":
		return call, fmtNodes(d.z.GetByRankRange(1, -1, false))
	}
	return call, "UNSUPPORTED"
}

func (d *DsSt) run(call string) string {
	rc, res := d.exec(call)
	emit("%s = %s", rc, res)
	return res
}

// suiteDs: random call sequences on one of the exported types.
func suiteDs(seed uint64, n int, kind string) {
	root := NewPRNG(seed)
	d := &DsSt{}
	keys := []string{"a", "b", "c"}
	vals := []string{"", "v", "w", "v|w", "|"}
	for i := 0; i < n; i++ {
		r := root.Fork()
		g := &Gen{r: r, p: Profile{WideInts: true, Keys: keys, Vals: vals}}
		emit("#H %d %s", i, kind)
		pk := func() string { return hx([]byte(keys[r.Intn(len(keys))])) }
		pv := func() string { return hx([]byte(vals[r.Intn(len(vals))])) }
		pvl := func() string {
			k := r.Range(0, 3)
			var l [][]byte
			for j := 0; j < k; j++ {
				l = append(l, []byte(vals[r.Intn(len(vals))]))
			}
			return hxl(l)
		}
		steps := r.Range(5, 40)
		switch kind {
		case "dslist":
			d.run("dl.new")
			for j := 0; j < steps; j++ {
				var res string
				switch r.Intn(14) {
				case 0, 1, 2:
					res = d.run("dl.rpush " + pk() + " " + pvl())
				case 3, 4:
					res = d.run("dl.lpush " + pk() + " " + pvl())
				case 5:
					res = d.run("dl.rpop " + pk())
				case 6:
					res = d.run("dl.lpop " + pk())
				case 7:
					res = d.run([]string{"dl.rpeek ", "dl.lpeek ", "dl.size "}[r.Intn(3)] + pk())
				case 8, 9:
					res = d.run(fmt.Sprintf("dl.lrange %s %d %d", pk(), g.idx(), g.idx()))
				case 10:
					res = d.run(fmt.Sprintf("dl.lrem %s %d %s", pk(), g.idx(), pv()))
				case 11:
					res = d.run(fmt.Sprintf("dl.lremnum %s %d %s", pk(), g.idx(), pv()))
				case 12:
					res = d.run(fmt.Sprintf("dl.lset %s %d %s", pk(), g.idx(), pv()))
				default:
					res = d.run(fmt.Sprintf("dl.ltrim %s %d %d", pk(), g.idx(), g.idx()))
				}
				if res == "panic" {
					emit("#SPEC panic in ds/list call")
					break
				}
				if r.Chance(1, 4) {
					d.run("dl.dump")
				}
			}
			d.run("dl.dump")
		case "dsset":
			d.run("ds.new")
			ms := []string{"", "m1", "m2", "m3"}
			pm := func() string { return hx([]byte(ms[r.Intn(len(ms))])) }
			pml := func() string {
				k := r.Range(1, 3)
				var l [][]byte
				for j := 0; j < k; j++ {
					l = append(l, []byte(ms[r.Intn(len(ms))]))
				}
				return hxl(l)
			}
			for j := 0; j < steps; j++ {
				var res string
				switch r.Intn(13) {
				case 0, 1, 2:
					res = d.run("ds.sadd " + pk() + " " + pml())
				case 3:
					res = d.run("ds.srem " + pk() + " " + pml())
				case 4:
					res = d.run("ds.haskey " + pk())
				case 5:
					res = d.run("ds.card " + pk())
				case 6:
					res = d.run("ds.ismember " + pk() + " " + pm())
				case 7:
					res = d.run("ds.aremembers " + pk() + " " + pml())
				case 8:
					res = d.run("ds.members " + pk())
				case 9:
					res = d.run([]string{"ds.diff ", "ds.union ", "ds.inter "}[r.Intn(3)] + pk() + " " + pk())
				case 10:
					res = d.run("ds.move " + pk() + " " + pk() + " " + pm())
				default:
					res = d.run("ds.pop " + pk() + " ?")
				}
				if res == "panic" {
					emit("#SPEC panic in ds/set call")
					break
				}
				if r.Chance(1, 4) {
					d.run("ds.dump")
				}
			}
			d.run("ds.dump")
		case "dszset":
			d.run(fmt.Sprintf("dz.new %d", r.Intn(1<<30)))
			zk := []string{"", "m1", "m2", "m3", "m4"}
			pzk := func() string { return hx([]byte(zk[r.Intn(len(zk))])) }
			for j := 0; j < steps; j++ {
				var res string
				switch r.Intn(14) {
				case 0, 1, 2, 3:
					res = d.run(fmt.Sprintf("dz.put %s %d %s", pzk(), r.Range(-2, 3), pv()))
				case 4:
					res = d.run("dz.remove " + pzk())
				case 5:
					res = d.run("dz.getbykey " + pzk())
				case 6:
					res = d.run([]string{"dz.peekmin", "dz.peekmax", "dz.size"}[r.Intn(3)])
				case 7:
					res = d.run([]string{"dz.popmin", "dz.popmax"}[r.Intn(2)])
				case 8, 9:
					res = d.run(fmt.Sprintf("dz.rankrange %d %d %d", g.idx(), g.idx(), btoi(r.Chance(1, 4))))
				case 10, 11:
					res = d.run(fmt.Sprintf("dz.scorerange %d %d %d %d %d", r.Range(-3, 4), r.Range(-3, 4), []int{0, 0, 1, 2, -1}[r.Intn(5)], r.Intn(2), r.Intn(2)))
				case 12:
					res = d.run("dz.rank " + pzk())
				default:
					res = d.run("dz.revrank " + pzk())
				}
				if res == "panic" {
					emit("#SPEC panic in ds/zset call")
					break
				}
				if r.Chance(1, 3) {
					d.run("dz.dump")
				}
			}
			d.run("dz.dump")
		}
	}
}

func btoi(b bool) int {
	if b {
		return 1
	}
	return 0
}
