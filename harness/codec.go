package main

import (
	"fmt"
	"io"
	"io/ioutil"
	"os"
	"path/filepath"

	"github.com/xujiajun/nutsdb"
)

// errKind maps decode errors to the model's small enum.
func errKind(err error) string {
	switch err {
	case io.EOF:
		return "eof"
	case nutsdb.ErrIndexOutOfBound:
		return "oob"
	case nutsdb.ErrCrc:
		return "crc"
	}
	return "other:" + err.Error()
}

func showFields(f nutsdb.VerifFields) string {
	return fmt.Sprintf("%s %s %s %d %d %d %d %d %d", hx(f.Bucket), hx(f.Key), hx(f.Value),
		f.Timestamp, f.TTL, f.Flag, f.Status, f.Ds, f.TxID)
}

// decodeEntry runs the real DataFile.ReadAt on a file holding exactly `file`.
func decodeEntry(work string, mode int, file []byte, off int) string {
	p := filepath.Join(work, "c.dat")
	os.Remove(p)
	if err := ioutil.WriteFile(p, file, 0644); err != nil {
		panic(err)
	}
	rw := nutsdb.FileIO
	if mode == 1 {
		rw = nutsdb.MMap
	}
	df, err := nutsdb.NewDataFile(p, int64(len(file)), rw)
	if err != nil {
		panic(err)
	}
	defer df.Close()
	e, err := df.ReadAt(off)
	if err != nil {
		return "err " + errKind(err)
	}
	if e == nil {
		return "absent"
	}
	return "ok " + showFields(nutsdb.VerifEntryFields(e))
}

// decodeTwo reads the records at off1 and off2 through one DataFile and renders both afterwards.
func decodeTwo(work string, mode int, file []byte, off1, off2 int) (string, string) {
	p := filepath.Join(work, "c.dat")
	os.Remove(p)
	if err := ioutil.WriteFile(p, file, 0644); err != nil {
		panic(err)
	}
	rw := nutsdb.FileIO
	if mode == 1 {
		rw = nutsdb.MMap
	}
	df, err := nutsdb.NewDataFile(p, int64(len(file)), rw)
	if err != nil {
		panic(err)
	}
	defer df.Close()
	e1, err1 := df.ReadAt(off1)
	e2, err2 := df.ReadAt(off2)
	show := func(e *nutsdb.Entry, err error) string {
		if err != nil {
			return "err " + errKind(err)
		}
		if e == nil {
			return "absent"
		}
		return "ok " + showFields(nutsdb.VerifEntryFields(e))
	}
	return show(e1, err1), show(e2, err2)
}

func decodeRootIdx(work string, file []byte, off int64) string {
	p := filepath.Join(work, "c.bptridx")
	os.Remove(p)
	if err := ioutil.WriteFile(p, file, 0644); err != nil {
		panic(err)
	}
	fd, err := os.OpenFile(p, os.O_RDWR, 0644)
	if err != nil {
		panic(err)
	}
	defer fd.Close()
	r, err := nutsdb.ReadBPTreeRootIdxAt(fd, off)
	if err != nil {
		return "err " + errKind(err)
	}
	if r == nil {
		return "absent"
	}
	fid, ro, s, e := nutsdb.VerifRootIdxFields(r)
	return fmt.Sprintf("ok %d %d %s %s", fid, ro, hx(s), hx(e))
}

func decodeBucketMeta(work string, file []byte) string {
	p := filepath.Join(work, "c.meta")
	os.Remove(p)
	if err := ioutil.WriteFile(p, file, 0644); err != nil {
		panic(err)
	}
	b, err := nutsdb.ReadBucketMeta(p)
	if err != nil {
		return "err " + errKind(err)
	}
	s, e := nutsdb.VerifBucketMetaFields(b)
	return fmt.Sprintf("ok %s %s", hx(s), hx(e))
}

func pick64(r *PRNG) uint64 {
	switch r.Intn(6) {
	case 0:
		return 0
	case 1:
		return ^uint64(0)
	case 2:
		return 1 << 63
	case 3:
		return uint64(r.Intn(1 << 16))
	default:
		return r.Next()
	}
}

func pick32(r *PRNG) uint32 { return uint32(pick64(r)) }
func pick16(r *PRNG, small int) uint16 {
	if r.Chance(3, 4) {
		return uint16(r.Intn(small))
	}
	return uint16(pick64(r))
}

func pickBytes(r *PRNG, maxLen int) []byte {
	switch r.Intn(8) {
	case 0:
		return []byte{}
	case 1:
		return make([]byte, r.Intn(maxLen+1)) // zeros
	case 2:
		return []byte("|")
	default:
		return r.Bytes(r.Intn(maxLen + 1))
	}
}

// suiteCodec: C21 tie.  For generated records: encode, decode in place (both
// RW modes, with and without following bytes), every single-bit flip and
// every truncation of the stored bytes.  Each decode is printed for the model
// to replay; the property-level oracle (never a *different* record) is
// evaluated here on the implementation's own answers and printed as "#SPEC".
func suiteCodec(seed uint64, n int, work string) {
	if work == "" {
		panic("codec suite needs -work")
	}
	os.MkdirAll(work, 0755)
	r := NewPRNG(seed)
	specViol := 0
	skippedHuge := 0
	hugeN := 0
	if os.Getenv("VERIF_TIER") == "thorough" {
		hugeN = 2
	}
	for i := 0; i < n; i++ {
		f := nutsdb.VerifFields{
			Bucket: pickBytes(r, 6), Key: pickBytes(r, 8), Value: pickBytes(r, 12),
			Timestamp: pick64(r), TTL: pick32(r), Flag: pick16(r, 14), Status: pick16(r, 2),
			Ds: pick16(r, 4), TxID: pick64(r),
		}
		enc := nutsdb.VerifNewEntry(f).Encode()
		want := "ok " + showFields(f)
		emit("enc %s = %s", showFields(f), hx(enc))
		pre := r.Bytes(r.Intn(5))
		var rest []byte
		if r.Bool() {
			rest = make([]byte, 1+r.Intn(50))
		} else if r.Bool() {
			rest = r.Bytes(1 + r.Intn(50))
		}
		file := append(append(append([]byte{}, pre...), enc...), rest...)
		for mode := 0; mode < 2; mode++ {
			got := decodeEntry(work, mode, file, len(pre))
			emit("dec %d %s %d = %s", mode, hx(file), len(pre), got)
		}
		mode := i % 2
		// single-bit flips
		check := func(kind string, img []byte) {
			got := decodeEntry(work, mode, img, len(pre))
			emit("dec %d %s %d = %s", mode, hx(img), len(pre), got)
			if len(got) >= 2 && got[:2] == "ok" && got != want {
				specViol++
				emit("#SPEC C21 %s served different record: wrote {%s} read {%s} image %s off %d mode %d", kind, want, got, hx(img), len(pre), mode)
			}
		}
		for bit := 0; bit < len(enc)*8; bit++ {
			// the top byte of each of the three size fields (bytes 15, 19, 29 of the
			// header) would make the real code allocate up to 4 GiB per decode;
			// those 24 flips per record are only exercised on the first `hugeN` records.
			if by := bit / 8; (by == 15 || by == 19 || by == 29) && i >= hugeN {
				skippedHuge++
				continue
			}
			img := append([]byte{}, file...)
			img[len(pre)+bit/8] ^= 1 << uint(bit%8)
			check("bitflip", img)
		}
		// truncations (the file ends inside the record)
		for cut := 0; cut < len(enc); cut++ {
			img := append([]byte{}, file[:len(pre)+cut]...)
			if len(img) == 0 {
				continue
			}
			check("truncation", img)
		}
		// two adjacent records read through ONE DataFile (as Open and Merge read a segment): the first entry must
		// still hold its own fields after the second one was decoded
		{
			f2 := f
			f2.Bucket = append([]byte{}, f.Bucket...)
			for k := range f2.Bucket {
				f2.Bucket[k] ^= 0x15
			}
			f2.Key = append(append([]byte{}, f.Key...), 'q')
			f2.Value = pickBytes(r, 12)
			enc2 := nutsdb.VerifNewEntry(f2).Encode()
			emit("enc %s = %s", showFields(f2), hx(enc2))
			file2 := append(append(append(append([]byte{}, pre...), enc...), enc2...), rest...)
			g1, g2 := decodeTwo(work, mode, file2, len(pre), len(pre)+len(enc))
			emit("dec %d %s %d = %s", mode, hx(file2), len(pre), g1)
			emit("dec %d %s %d = %s", mode, hx(file2), len(pre)+len(enc), g2)
			if g1 != want || g2 != "ok "+showFields(f2) {
				specViol++
				emit("#SPEC C21 two adjacent records decoded through one data file: wrote {%s} {%s} read {%s} {%s}", want, "ok "+showFields(f2), g1, g2)
			}
		}
		// root index record
		s, e := pickBytes(r, 10), pickBytes(r, 10)
		fid, ro := pick64(r), pick64(r)
		renc := nutsdb.VerifNewRootIdx(fid, ro, s, e).Encode()
		emit("renc %d %d %s %s = %s", fid, ro, hx(s), hx(e), hx(renc))
		rwant := fmt.Sprintf("ok %d %d %s %s", fid, ro, hx(s), hx(e))
		rfile := append(append(append([]byte{}, pre...), renc...), rest...)
		rcheck := func(kind string, img []byte) {
			got := decodeRootIdx(work, img, int64(len(pre)))
			emit("rdec %s %d = %s", hx(img), len(pre), got)
			if len(got) >= 2 && got[:2] == "ok" && got != rwant {
				specViol++
				emit("#SPEC C21 %s served different root-index record: wrote {%s} read {%s} image %s", kind, rwant, got, hx(img))
			}
		}
		rcheck("clean", rfile)
		if i%4 == 0 {
			for bit := 0; bit < len(renc)*8; bit++ {
				if by := bit / 8; (by == 23 || by == 27) && i >= hugeN {
					skippedHuge++
					continue
				}
				img := append([]byte{}, rfile...)
				img[len(pre)+bit/8] ^= 1 << uint(bit%8)
				rcheck("bitflip", img)
			}
			for cut := 0; cut < len(renc); cut++ {
				img := append([]byte{}, rfile[:len(pre)+cut]...)
				if len(img) > 0 {
					rcheck("truncation", img)
				}
			}
		}
		// bucket meta record
		benc := nutsdb.VerifNewBucketMeta(s, e).Encode()
		emit("benc %s %s = %s", hx(s), hx(e), hx(benc))
		bwant := fmt.Sprintf("ok %s %s", hx(s), hx(e))
		bfile := append(append([]byte{}, benc...), rest...)
		bcheck := func(kind string, img []byte) {
			got := decodeBucketMeta(work, img)
			emit("bdec %s = %s", hx(img), got)
			if len(got) >= 2 && got[:2] == "ok" && got != bwant {
				specViol++
				emit("#SPEC C21 %s served different bucket-meta record: wrote {%s} read {%s} image %s", kind, bwant, got, hx(img))
			}
		}
		bcheck("clean", bfile)
		if i%4 == 0 {
			for bit := 0; bit < len(benc)*8; bit++ {
				if by := bit / 8; (by == 7 || by == 11) && i >= hugeN {
					skippedHuge++
					continue
				}
				img := append([]byte{}, bfile...)
				img[bit/8] ^= 1 << uint(bit%8)
				bcheck("bitflip", img)
			}
			for cut := 1; cut < len(benc); cut++ {
				bcheck("truncation", append([]byte{}, bfile[:cut]...))
			}
		}
	}
	emit("#DONE codec records=%d specviol=%d skipped_huge_size_flips=%d", n, specViol, skippedHuge)
}
